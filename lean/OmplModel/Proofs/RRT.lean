import OmplModel.Model.RRT
import OmplModel.Proofs.PlannerReport
/-!
Invariant proofs for the RRT model (L2 of C01).  Arithmetic-free: every statement holds for every
`Cfg` (every distance, interpolation, validity predicate, motion validator, goal, range), hence
for the `Float` instantiation the driver runs.
-/
namespace OmplModel.RRT
open OmplModel.PlannerReport

variable {S D : Type}

/-- consecutive elements are related -/
def Chain (R : S → S → Prop) : List S → Prop
  | [] => True
  | [_] => True
  | a :: b :: r => R a b ∧ Chain R (b :: r)

/-- `s` is one of the problem definition's start states and passed the input filter -/
def ValidStart (cfg : Cfg S D) (starts : Array S) (s : S) : Prop :=
  ∃ k, ∃ h : k < starts.size, starts[k] = s ∧ cfg.bounds s = true ∧ cfg.valid s = true

/-- how a (parent, child) edge is justified: `checkMotion(parent, child)` returned true, or (only with
`addIntermediateStates_`) the two are consecutive `getMotionStates` points of a motion `(a, b)` for which
`checkMotion(a, b)` returned true. -/
def Link (cfg : Cfg S D) (x y : S) : Prop :=
  cfg.checkMotion x y = true ∨
    (cfg.addIntermediate = true ∧ ∃ a b, cfg.checkMotion a b = true ∧
      ∃ l1 l2, a :: motionStates cfg a b = l1 ++ x :: y :: l2)

def TreeInv (cfg : Cfg S D) (starts : Array S) (tree : Array (Node S)) : Prop :=
  ∀ (i : Nat) (nd : Node S), tree[i]? = some nd →
    match nd.parent with
    | none => ValidStart cfg starts nd.state
    | some p => p < i ∧ ∃ np, tree[p]? = some np ∧ Link cfg np.state nd.state

theorem chain_snoc (R : S → S → Prop) (l : List S) (x : S) (h : Chain R l)
    (hl : ∀ z, l.getLast? = some z → R z x) : Chain R (l ++ [x]) := by
  induction l with
  | nil => simp [Chain]
  | cons a r ih =>
    cases r with
    | nil => simpa [Chain] using hl a (by simp)
    | cons b r' =>
      obtain ⟨h1, h2⟩ := h
      refine ⟨h1, ?_⟩
      apply ih h2
      intro z hz
      apply hl z
      simpa [List.getLast?_cons_cons] using hz

theorem chain_of_infix (R : S → S → Prop) (L : List S)
    (h : ∀ l1 x y l2, L = l1 ++ x :: y :: l2 → R x y) : Chain R L := by
  induction L with
  | nil => trivial
  | cons a r ih =>
    cases r with
    | nil => trivial
    | cons b r' =>
      refine ⟨h [] a b r' rfl, ?_⟩
      apply ih
      intro l1 x y l2 heq
      exact h (a :: l1) x y l2 (by simp [heq])

theorem chain_mono (R R' : S → S → Prop) (hRR : ∀ x y, R x y → R' x y) (l : List S) (h : Chain R l) :
    Chain R' l := by
  induction l with
  | nil => trivial
  | cons a r ih =>
    cases r with
    | nil => trivial
    | cons b r' => exact ⟨hRR _ _ h.1, ih h.2⟩

/-- a chain, read with indices -/
theorem chain_getElem (R : S → S → Prop) (l : List S) (h : Chain R l) :
    ∀ i (hi : i + 1 < l.length), R l[i] l[i + 1] := by
  induction l with
  | nil => intro i hi; simp at hi
  | cons a r ih =>
    cases r with
    | nil => intro i hi; simp at hi
    | cons b r' =>
      intro i hi
      cases i with
      | zero => simpa using h.1
      | succ j =>
        have := ih h.2 j (by simpa using hi)
        simpa using this

theorem addChain_spec (cfg : Cfg S D) (starts : Array S) (l : List S) :
    ∀ (tree : Array (Node S)) (p : Nat) (np : Node S), tree[p]? = some np → TreeInv cfg starts tree →
      Chain (Link cfg) (np.state :: l) →
      TreeInv cfg starts (addChain tree p l).1 ∧
        (∀ (i : Nat) (nd : Node S), tree[i]? = some nd → (addChain tree p l).1[i]? = some nd) ∧
        ∃ nl, (addChain tree p l).1[(addChain tree p l).2]? = some nl ∧
          some nl.state = (np.state :: l).getLast? := by
  induction l with
  | nil =>
    intro tree p np hp hinv _
    exact ⟨hinv, fun _ _ h => h, np, hp, by simp⟩
  | cons s r ih =>
    intro tree p np hp hinv hch
    obtain ⟨hlink, hch'⟩ := hch
    have hpl : p < tree.size := by
      have := (Array.getElem?_eq_some_iff.1 hp).1
      exact this
    have hkeep : ∀ (i : Nat) (nd : Node S), tree[i]? = some nd → (tree.push ⟨s, some p⟩)[i]? = some nd := by
      intro i nd h
      have hi : i < tree.size := (Array.getElem?_eq_some_iff.1 h).1
      rw [Array.getElem?_push]
      rw [if_neg (by omega)]
      exact h
    have hnew : (tree.push ⟨s, some p⟩)[tree.size]? = some ⟨s, some p⟩ := by
      rw [Array.getElem?_push]; simp
    have hinv' : TreeInv cfg starts (tree.push ⟨s, some p⟩) := by
      intro i nd h
      rw [Array.getElem?_push] at h
      split at h
      · next hi =>
        simp only [Option.some.injEq] at h
        subst h
        subst hi
        exact ⟨hpl, np, hkeep p np hp, hlink⟩
      · have := hinv i nd h
        split
        · next hpar => simpa [hpar] using this
        · next q hpar =>
          simp only [hpar] at this
          obtain ⟨h1, nq, h2, h3⟩ := this
          exact ⟨h1, nq, hkeep q nq h2, h3⟩
    obtain ⟨i1, i2, nl, i3, i4⟩ := ih (tree.push ⟨s, some p⟩) tree.size ⟨s, some p⟩ hnew hinv' hch'
    refine ⟨i1, fun i nd h => i2 i nd (hkeep i nd h), nl, i3, ?_⟩
    rw [i4]
    simp [List.getLast?_cons_cons]

structure StInv (cfg : Cfg S D) (starts : Array S) (st : St S D) : Prop where
  tree : TreeInv cfg starts st.tree
  sol : ∀ i, st.solution = some i → ∃ nd, st.tree[i]? = some nd ∧
    cfg.lt (cfg.goalDist nd.state) cfg.threshold = true ∧ st.approxdif = cfg.goalDist nd.state
  approx : st.solution = none → ∀ i, st.approxsol = some i → ∃ nd, st.tree[i]? = some nd ∧
    cfg.lt (cfg.goalDist nd.state) cfg.threshold = false ∧ st.approxdif = cfg.goalDist nd.state

theorem motionStates_chain (cfg : Cfg S D) (a b : S) (hi : cfg.addIntermediate = true)
    (hcm : cfg.checkMotion a b = true) : Chain (Link cfg) (a :: motionStates cfg a b) := by
  apply chain_of_infix
  intro l1 x y l2 heq
  exact Or.inr ⟨hi, a, b, hcm, l1, l2, heq⟩

theorem step_inv (cfg : Cfg S D) (starts : Array S) (st : St S D) (dr : Draw S)
    (h : StInv cfg starts st) : StInv cfg starts (step cfg st dr) := by
  unfold step
  simp only
  split
  · exact h
  · next nm hnm =>
    generalize hds : (if cfg.lt cfg.maxDistance (cfg.dist nm.state dr.state) = true then
      cfg.interp nm.state dr.state (cfg.div cfg.maxDistance (cfg.dist nm.state dr.state)) else dr.state) = dstate
    split
    · next hcm =>
      generalize hl : (if cfg.addIntermediate = true then motionStates cfg nm.state dstate else [dstate]) = l
      have hch : Chain (Link cfg) (nm.state :: l) := by
        subst hl
        split
        · next hi => exact motionStates_chain cfg _ _ hi hcm
        · exact ⟨Or.inl hcm, trivial⟩
      obtain ⟨a1, a2, nl, a3, a4⟩ := addChain_spec cfg starts l st.tree _ nm hnm h.tree hch
      rw [a3]
      simp only
      split
      · next hsat =>
        exact ⟨a1, fun i hi => by
          simp only [Option.some.injEq] at hi; subst hi; exact ⟨nl, a3, hsat, rfl⟩,
          fun hn => by simp at hn⟩
      · next hsat =>
        split
        · exact ⟨a1, fun i hi => by simp at hi, fun _ i hi => by
            simp only [Option.some.injEq] at hi; subst hi
            exact ⟨nl, a3, by simpa using hsat, rfl⟩⟩
        · refine ⟨a1, ?_, ?_⟩
          · intro i hi
            obtain ⟨nd, h1, h2, h3⟩ := h.sol i hi
            exact ⟨nd, a2 i nd h1, h2, h3⟩
          · intro hn i hi
            obtain ⟨nd, h1, h2, h3⟩ := h.approx hn i hi
            exact ⟨nd, a2 i nd h1, h2, h3⟩
    · exact h

theorem loop_inv (cfg : Cfg S D) (starts : Array S) (script : List (Draw S)) :
    ∀ st : St S D, StInv cfg starts st → StInv cfg starts (loop cfg st script).1 := by
  induction script with
  | nil => intro st h; exact h
  | cons dr rest ih =>
    intro st h
    simp only [loop]
    split
    · exact step_inv cfg starts st dr h
    · exact ih _ (step_inv cfg starts st dr h)

theorem initTree_inv (cfg : Cfg S D) (starts : Array S) :
    TreeInv cfg starts (initTree cfg starts).1 ∧
      ∀ (i : Nat) (nd : Node S), (initTree cfg starts).1[i]? = some nd → nd.parent = none := by
  have hspec := (drainStarts_spec cfg.bounds cfg.valid starts (starts.size + 1) {}).1
  have key : ∀ (i : Nat) (nd : Node S), (initTree cfg starts).1[i]? = some nd →
      nd.parent = none ∧ ValidStart cfg starts nd.state := by
    intro i nd h
    simp only [initTree, List.getElem?_toArray, List.getElem?_map, Option.map_eq_some_iff] at h
    obtain ⟨x, hx, rfl⟩ := h
    obtain ⟨hi, h1, h2, h3, _⟩ := hspec x (List.mem_of_getElem? hx)
    exact ⟨rfl, x.1, hi, h1, h2, h3⟩
  refine ⟨?_, fun i nd h => (key i nd h).1⟩
  intro i nd h
  obtain ⟨h1, h2⟩ := key i nd h
  simp only [h1]
  exact h2

/-- walking the parents from a tree node yields a path from a valid start along justified edges -/
theorem pathTo_spec (cfg : Cfg S D) (starts : Array S) (tree : Array (Node S)) (hinv : TreeInv cfg starts tree) :
    ∀ (fuel i : Nat) (nd : Node S) (acc : List S), tree[i]? = some nd → i < fuel →
      ∃ l : List S, pathTo tree fuel i acc = l ++ acc ∧ (∃ s0, l.head? = some s0 ∧ ValidStart cfg starts s0) ∧
        Chain (Link cfg) l ∧ l.getLast? = some nd.state := by
  intro fuel
  induction fuel with
  | zero => intro i nd acc _ hf; omega
  | succ f ih =>
    intro i nd acc hnd hf
    simp only [pathTo, hnd]
    have hi := hinv i nd hnd
    split
    · next hpar =>
      simp only [hpar] at hi
      exact ⟨[nd.state], rfl, ⟨nd.state, rfl, hi⟩, trivial, rfl⟩
    · next p hpar =>
      simp only [hpar] at hi
      obtain ⟨hp, np, hnp, hlink⟩ := hi
      obtain ⟨l, h1, h2, h3, h4⟩ := ih p np (nd.state :: acc) hnp (by omega)
      refine ⟨l ++ [nd.state], by simp [h1], ?_, ?_, by simp⟩
      · obtain ⟨s0, hs0, hv⟩ := h2
        refine ⟨s0, ?_, hv⟩
        cases l with
        | nil => simp at hs0
        | cons a r => simpa using hs0
      · apply chain_snoc _ _ _ h3
        intro z hz
        rw [h4] at hz
        simp only [Option.some.injEq] at hz
        subst hz
        exact hlink

theorem link_strict (cfg : Cfg S D) (hni : cfg.addIntermediate = false) (x y : S) (h : Link cfg x y) :
    cfg.checkMotion x y = true := by
  rcases h with h | ⟨h, _⟩
  · exact h
  · rw [hni] at h; exact absurd h (by simp)

/-- `nearest` returns an index into a non-empty tree (the `none` branch of `step` is dead code) -/
theorem nearest_lt (cfg : Cfg S D) (tree : Array (Node S)) (q : S) (h : 0 < tree.size) :
    nearest cfg tree q < tree.size := by
  unfold nearest
  generalize hf : nearestStep cfg tree q = f
  have key : ∀ k, k ≤ tree.size →
      ((k = 0 → ((List.range k).foldl f (tree.size, cfg.zero)).1 = tree.size) ∧
       (0 < k → ((List.range k).foldl f (tree.size, cfg.zero)).1 < tree.size)) := by
    intro k
    induction k with
    | zero => intro _; simp
    | succ k ih =>
      intro hk
      obtain ⟨ih0, ih1⟩ := ih (by omega)
      refine ⟨by omega, fun _ => ?_⟩
      rw [List.range_succ, List.foldl_append]
      simp only [List.foldl_cons, List.foldl_nil]
      generalize hacc : (List.range k).foldl f (tree.size, cfg.zero) = acc at ih0 ih1
      subst hf
      have hk' : k < tree.size := by omega
      simp only [nearestStep, Array.getElem?_eq_getElem hk']
      split
      · simpa using hk'
      · next hc =>
        simp only [Bool.or_eq_true, beq_iff_eq, not_or] at hc
        by_cases hk0 : k = 0
        · exact absurd (ih0 hk0) hc.1
        · exact ih1 (by omega)
  exact (key tree.size (Nat.le_refl _)).2 h

/-! ### states stay in bounds (given that interpolation does) -/

/-- what `rrt_inbounds` needs from the space: the bounds predicate is preserved by `interpolate` at parameters in the
unit interval (`UnitT`), and the two ways RRT produces parameters land in the unit interval -/
structure ConvexBounds (cfg : Cfg S D) (UnitT : D → Prop) : Prop where
  interp : ∀ a b t, cfg.bounds a = true → cfg.bounds b = true → UnitT t → cfg.bounds (cfg.interp a b t) = true
  div : ∀ d, cfg.lt cfg.maxDistance d = true → UnitT (cfg.div cfg.maxDistance d)
  frac : ∀ j n, 0 < j → j < n → UnitT (cfg.frac j n)

def AllInB (cfg : Cfg S D) (tree : Array (Node S)) : Prop :=
  ∀ (i : Nat) (nd : Node S), tree[i]? = some nd → cfg.bounds nd.state = true

theorem addChain_inB (cfg : Cfg S D) (l : List S) :
    ∀ (tree : Array (Node S)) (p : Nat), AllInB cfg tree → (∀ s ∈ l, cfg.bounds s = true) →
      AllInB cfg (addChain tree p l).1 := by
  induction l with
  | nil => intro tree p h _; exact h
  | cons s r ih =>
    intro tree p h hl
    apply ih
    · intro i nd hi
      rw [Array.getElem?_push] at hi
      split at hi
      · simp only [Option.some.injEq] at hi
        subst hi
        exact hl s (by simp)
      · exact h i nd hi
    · intro x hx; exact hl x (List.mem_cons_of_mem _ hx)

theorem motionStates_inB (cfg : Cfg S D) (UnitT : D → Prop) (hc : ConvexBounds cfg UnitT) (a b : S)
    (ha : cfg.bounds a = true) (hb : cfg.bounds b = true) : ∀ s ∈ motionStates cfg a b, cfg.bounds s = true := by
  intro s hs
  unfold motionStates at hs
  simp only at hs
  split at hs
  · simp only [List.mem_singleton] at hs; subst hs; exact hb
  · simp only [List.mem_append, List.mem_map, List.mem_range, List.mem_singleton] at hs
    rcases hs with ⟨j, hj, rfl⟩ | rfl
    · exact hc.interp a b _ ha hb (hc.frac (j + 1) _ (by omega) (by omega))
    · exact hb

theorem step_inB (cfg : Cfg S D) (UnitT : D → Prop) (hc : ConvexBounds cfg UnitT) (st : St S D) (dr : Draw S)
    (h : AllInB cfg st.tree) (hd : cfg.bounds dr.state = true) : AllInB cfg (step cfg st dr).tree := by
  unfold step
  simp only
  split
  · exact h
  · next nm hnm =>
    have hnmB := h _ nm hnm
    generalize hds : (if cfg.lt cfg.maxDistance (cfg.dist nm.state dr.state) = true then
      cfg.interp nm.state dr.state (cfg.div cfg.maxDistance (cfg.dist nm.state dr.state)) else dr.state) = dstate
    have hdB : cfg.bounds dstate = true := by
      subst hds
      split
      · next hlt => exact hc.interp _ _ _ hnmB hd (hc.div _ hlt)
      · exact hd
    split
    · have hadd : AllInB cfg (addChain st.tree (nearest cfg st.tree dr.state)
          (if cfg.addIntermediate = true then motionStates cfg nm.state dstate else [dstate])).1 := by
        apply addChain_inB cfg _ _ _ h
        split
        · exact motionStates_inB cfg UnitT hc _ _ hnmB hdB
        · intro s hs; simp only [List.mem_singleton] at hs; subst hs; exact hdB
      split
      · exact h
      · split
        · exact hadd
        · split
          · exact hadd
          · exact hadd
    · exact h

theorem loop_inB (cfg : Cfg S D) (UnitT : D → Prop) (hc : ConvexBounds cfg UnitT) (script : List (Draw S)) :
    ∀ st : St S D, AllInB cfg st.tree → (∀ dr ∈ script, cfg.bounds dr.state = true) →
      AllInB cfg (loop cfg st script).1.tree := by
  induction script with
  | nil => intro st h _; exact h
  | cons dr rest ih =>
    intro st h hd
    simp only [loop]
    have h1 := step_inB cfg UnitT hc st dr h (hd dr (by simp))
    split
    · exact h1
    · exact ih _ h1 (fun x hx => hd x (List.mem_cons_of_mem _ hx))

theorem initTree_inB (cfg : Cfg S D) (starts : Array S) : AllInB cfg (initTree cfg starts).1 := by
  intro i nd h
  have := (initTree_inv cfg starts).1 i nd h
  rw [(initTree_inv cfg starts).2 i nd h] at this
  obtain ⟨_, _, _, hb, _⟩ := this
  exact hb

end OmplModel.RRT
