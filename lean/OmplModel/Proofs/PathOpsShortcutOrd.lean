import OmplModel.Proofs.PathOpsScheduleBridge
/-
`partialShortcutPath` with the repair proposed for finding F170 (`psLoopOrd` / `partialShortcutPathOrd`
in Model/PathOps.lean): the two sampled points are put in PATH order first and only then handed to
`checkMotion`, so the motion that is validated is the motion that is spliced into the path.

* `PsCutStepD` / `PsCutStepsD`: the DIRECTED splice step: as `PsCutStepW` (Proofs/PathOpsScheduleBridge)
  but `checkMotion` answered `true` for the ordered pair (`s0` the earlier point, `pos0 < pos1`); no
  disjunction.
* `PsCutStepD.preserves`, `PsCutStepsD.preserves`: `Preserves cm cut isGoal st out` for EVERY
  `checkMotion` - no symmetry hypothesis (the tree's variant needs `hsym`: `PsCutStepW.preserves`).
* `psLoopOrd_steps`, `partialShortcutPathOrd_steps`: a run of the repaired routine (every draw stream,
  every `double` oracle, no law about `double`) is a sequence of directed steps;
  `partialShortcutOrd_preserves`: hence it preserves without `hsym`.
* `pshort_sampling_order_validation_fails`: the negative for the tree's variant, as a concrete step over
  `Nat` (nothing is evaluated at `Float`): a `PsCutStep` (the tree's kind of step: validated in either
  order) whose spliced-in motion `p` is new, `cm p.1 p.2 = false`, and only the reverse was validated.
-/
namespace OmplModel.PathOps

variable {σ : Type}

/-! ## the directed step -/

/-- one executed splice of the repaired routine: ordered positions that passed the `continue` filter,
both samples are `PsSample`s, and `checkMotion` answered `true` for the pair IN PATH ORDER - the pair
that `psSplice` puts into the path -/
inductive PsCutStepD (cm : σ → σ → Bool) (cut : σ → σ → σ → Prop) : List σ → List σ → Prop
  | mk (st : List σ) (pos0 pos1 : Nat) (idx0 idx1 : Bool) (s0 s1 : σ) (out : List σ)
      (h01 : pos0 < pos1) (hs : psSkip pos0 idx0 pos1 idx1 = false)
      (h0 : PsSample cut st pos0 idx0 s0) (h1 : PsSample cut st pos1 idx1 s1)
      (hcm : cm s0 s1 = true)
      (h : psSplice st pos0 idx0 s0 pos1 idx1 s1 = some out) : PsCutStepD cm cut st out

inductive PsCutStepsD (cm : σ → σ → Bool) (cut : σ → σ → σ → Prop) : List σ → List σ → Prop
  | refl (st : List σ) : PsCutStepsD cm cut st st
  | head {st mid out : List σ} : PsCutStepD cm cut st mid → PsCutStepsD cm cut mid out →
      PsCutStepsD cm cut st out

/-- a directed step is in particular a step of the tree's kind (first disjunct) -/
theorem PsCutStepD.toW {cm : σ → σ → Bool} {cut : σ → σ → σ → Prop} {st out : List σ}
    (h : PsCutStepD cm cut st out) : PsCutStepW cm cut st out := by
  cases h with
  | mk pos0 pos1 idx0 idx1 s0 s1 _ h01 hs h0 h1 hcm h =>
    exact .mk st pos0 pos1 idx0 idx1 s0 s1 out h01 hs h0 h1 (Or.inl hcm) h

theorem PsCutStepsD.toW {cm : σ → σ → Bool} {cut : σ → σ → σ → Prop} {st out : List σ}
    (h : PsCutStepsD cm cut st out) : PsCutStepsW cm cut st out := by
  induction h with
  | refl => exact .refl _
  | head s _ ih => exact .head s.toW ih

theorem PsCutStepsD.trans {cm : σ → σ → Bool} {cut : σ → σ → σ → Prop} {l m n : List σ}
    (h1 : PsCutStepsD cm cut l m) (h2 : PsCutStepsD cm cut m n) : PsCutStepsD cm cut l n := by
  induction h1 with
  | refl => exact h2
  | head s _ ih => exact .head s (ih h2)

/-- the splice with `pos1 + 1 < size` (`psSplice_spec`), validated pair in path order: preserves for
every `checkMotion` -/
theorem psSplice_preserves_dir {cm : σ → σ → Bool} {cut : σ → σ → σ → Prop} (isGoal : σ → Prop)
    (st : List σ) (pos0 pos1 : Nat) (idx0 idx1 : Bool) (s0 s1 : σ) (out : List σ)
    (h01 : pos0 < pos1) (h1 : pos1 + 1 < st.length) (hs : psSkip pos0 idx0 pos1 idx1 = false)
    (hc0 : idx0 = false → cut (st[pos0]'(by omega)) (st[pos0 + 1]'(by omega)) s0)
    (hc1 : idx1 = false → cut (st[pos1]'(by omega)) (st[pos1 + 1]'h1) s1)
    (hv0 : idx0 = true → s0 = st[pos0]'(by omega))
    (hv1 : idx1 = true → s1 = st[pos1]'(by omega))
    (hcm : cm s0 s1 = true)
    (h : psSplice st pos0 idx0 s0 pos1 idx1 s1 = some out) : Preserves cm cut isGoal st out := by
  obtain ⟨out', h', hh, hl, ha⟩ := psSplice_spec st pos0 pos1 idx0 idx1 s0 s1 h01 h1 hs
  rw [h] at h'
  obtain rfl := Option.some.inj h'
  have e0 : (if idx0 = true then st[pos0]'(by omega) else s0) = s0 := by
    cases idx0 with
    | false => rfl
    | true => exact (hv0 rfl).symm
  have e1 : (if idx1 = true then st[pos1]'(by omega) else s1) = s1 := by
    cases idx1 with
    | false => rfl
    | true => exact (hv1 rfl).symm
  refine ⟨hh, Or.inl hl, fun p hp => ?_⟩
  rcases ha p hp with h | rfl | ⟨hi, rfl⟩ | ⟨hi, rfl⟩
  · exact Deriv.input h
  · refine Deriv.validated ?_
    simp only [e0, e1]
    exact hcm
  · exact Deriv.prefixCut (Deriv.input (mem_adj_getElem_succ st pos0 (by omega))) (hc0 hi)
  · exact Deriv.suffixCut (Deriv.input (mem_adj_getElem_succ st pos1 h1)) (hc1 hi)

/-- one directed splice preserves - NO symmetry of `checkMotion` -/
theorem PsCutStepD.preserves {cm : σ → σ → Bool} {cut : σ → σ → σ → Prop} (isGoal : σ → Prop)
    {st out : List σ} (h : PsCutStepD cm cut st out) : Preserves cm cut isGoal st out := by
  cases h with
  | mk pos0 pos1 idx0 idx1 s0 s1 _ h01 hs h0 h1 hcm h =>
    obtain ⟨hp0, hv0, hc0⟩ := h0
    obtain ⟨hp1, hv1, hc1⟩ := h1
    cases idx1 with
    | false =>
      obtain ⟨hq1, hc1'⟩ := hc1 rfl
      exact psSplice_preserves_dir isGoal st pos0 pos1 idx0 false s0 s1 out h01 hq1 hs
        (fun hi => (hc0 hi).2) (fun _ => hc1') hv0 hv1 hcm h
    | true =>
      have e1 := hv1 rfl
      cases idx0 with
      | true =>
        have e0 := hv0 rfl
        obtain ⟨hh, hl, ha⟩ := splice_aux st pos0 pos1 [] hp0 hp1
        rw [List.append_nil] at hh hl ha
        rw [psSplice_tt st pos0 pos1 s0 s1 (by omega) (by omega)] at h
        obtain rfl := Option.some.inj h
        refine ⟨hh, Or.inl hl, fun p hp => ?_⟩
        rcases ha p hp with h | h
        · exact Deriv.input h
        · simp only [List.cons_append, List.nil_append, adj, List.mem_cons, List.not_mem_nil,
            or_false] at h
          subst h
          exact Deriv.validated (by rw [← e0, ← e1]; exact hcm)
      | false =>
        obtain ⟨hq0, hc0'⟩ := hc0 rfl
        have h02 : pos0 + 2 ≤ pos1 := by simp [psSkip] at hs; omega
        obtain ⟨hh, hl, ha⟩ := splice_aux st pos0 pos1 [s0] hp0 hp1
        rw [psSplice_ft st pos0 pos1 s0 s1 h02 (by omega)] at h
        obtain rfl := Option.some.inj h
        refine ⟨hh, Or.inl hl, fun p hp => ?_⟩
        rcases ha p hp with h | h
        · exact Deriv.input h
        · simp only [List.cons_append, List.nil_append, adj, List.mem_cons, List.not_mem_nil,
            or_false] at h
          rcases h with rfl | rfl
          · exact Deriv.prefixCut (Deriv.input (mem_adj_getElem_succ st pos0 hq0)) hc0'
          · exact Deriv.validated (by rw [← e1]; exact hcm)

/-- any number of directed splices preserves - NO symmetry of `checkMotion` -/
theorem PsCutStepsD.preserves {cm : σ → σ → Bool} {cut : σ → σ → σ → Prop} (isGoal : σ → Prop)
    {st out : List σ} (h : PsCutStepsD cm cut st out) : Preserves cm cut isGoal st out := by
  induction h with
  | refl => exact Preserves.refl cm cut isGoal _
  | head s _ ih => exact (s.preserves isGoal).trans ih

/-- the directed reading: every motion of the result is an input motion, a motion `checkMotion` accepted
IN THE DIRECTION IT IS TRAVERSED (`Deriv.validated : cm p.1 p.2 = true`), or a piece of such a motion cut
at a state on it -/
theorem PsCutStepsD.directed {cm : σ → σ → Bool} {cut : σ → σ → σ → Prop} {st out : List σ}
    (h : PsCutStepsD cm cut st out) : ∀ p ∈ adj out, Deriv cm cut st p :=
  (h.preserves (fun _ => False)).2.2

/-! ## the repaired routine is a sequence of directed steps -/

/-- the loop of the repaired `partialShortcutPath` (every draw stream, every `double` oracle; no law about
`double` is used) is a sequence of `PsCutStepD`s.  Same proof as `psLoopG_steps`; the ordering step now
sits in front of `E.cm`, so the `true` answer is about the ordered pair. -/
theorem psLoopOrd_steps (E : PsEnv σ) {cut : σ → σ → σ → Prop} (hcut : ∀ a b t, cut a b (E.interp a b t))
    (u : Nat → Float) (rr snap : Float) (maxEmpty : Nat) :
    ∀ (fuel i nochange : Nat) (st : List σ) (res : Bool) (out : List σ) (r : Bool),
      psLoopOrd E u rr snap maxEmpty fuel i nochange st res = some (out, r) →
      PsCutStepsD E.cm cut st out := by
  intro fuel
  induction fuel with
  | zero =>
    intro i nochange st res out r h
    simp only [psLoopOrd, Option.some.injEq, Prod.mk.injEq] at h
    obtain ⟨rfl, _⟩ := h
    exact .refl _
  | succ fuel ih =>
    intro i nochange st res out r h
    simp only [psLoopOrd] at h
    generalize (cumDistsFrom E.dist 0.0 st).toArray = ds at h
    generalize ds[ds.size - 1]! = back at h
    generalize (back - 0.0) * u (2 * i) + 0.0 = distTo0 at h
    generalize psSelectG true ds distTo0 (back * snap) = p0 at h
    generalize _ * u (2 * i + 1) + _ = distTo1 at h
    generalize psSelectG true ds distTo1 (back * snap) = p1 at h
    obtain ⟨pos0, idx0⟩ := p0
    obtain ⟨pos1, idx1⟩ := p1
    simp only at h
    split at h
    · split at h
      · exact ih _ _ _ _ _ _ h
      · next hs =>
        split at h
        · next s0 s1 hp0 hp1 =>
          have hS0 := psPt_sample E hcut st ds pos0 idx0 distTo0 s0 hp0
          have hS1 := psPt_sample E hcut st ds pos1 idx1 distTo1 s1 hp1
          generalize ho : (if pos0 > pos1 then (pos1, idx1, s1, pos0, idx0, s0)
            else (pos0, idx0, s0, pos1, idx1, s1)) = o at h
          obtain ⟨q0, j0, t0, q1, j1, t1⟩ := o
          simp only at h
          split at h
          · next hcm =>
            have hstep : ∀ st', psSplice st q0 j0 t0 q1 j1 t1 = some st' →
                PsCutStepD E.cm cut st st' := by
              intro st' hsp
              have hs' : psSkip pos0 idx0 pos1 idx1 = false := by simpa using hs
              have hne : pos0 ≠ pos1 := by intro e; simp [psSkip, e] at hs'
              by_cases hgt : pos0 > pos1
              · rw [if_pos hgt] at ho
                simp only [Prod.mk.injEq] at ho
                obtain ⟨rfl, rfl, rfl, rfl, rfl, rfl⟩ := ho
                exact .mk st _ _ _ _ _ _ st' hgt (by rw [psSkip_comm]; exact hs') hS1 hS0 hcm hsp
              · rw [if_neg hgt] at ho
                simp only [Prod.mk.injEq] at ho
                obtain ⟨rfl, rfl, rfl, rfl, rfl, rfl⟩ := ho
                exact .mk st _ _ _ _ _ _ st' (by omega) hs' hS0 hS1 hcm hsp
            split at h
            · split at h
              · split at h
                · exact ih _ _ _ _ _ _ h
                · split at h
                  · next st' hsp => exact .head (hstep st' hsp) (ih _ _ _ _ _ _ h)
                  · cases h
              · cases h
            · cases h
          · exact ih _ _ _ _ _ _ h
        · cases h
    · simp only [Option.some.injEq, Prod.mk.injEq] at h
      obtain ⟨rfl, _⟩ := h
      exact .refl _

theorem partialShortcutPathOrd_steps {E : PsEnv σ} {cut : σ → σ → σ → Prop}
    (hcut : ∀ a b t, cut a b (E.interp a b t)) {u : Nat → Float} {ms me : Nat}
    {rr snap : Float} {path out : List σ} {r : Bool}
    (h : partialShortcutPathOrd E u ms me rr snap path = some (out, r)) :
    PsCutStepsD E.cm cut path out := by
  unfold partialShortcutPathOrd at h
  split at h
  · simp only [Option.some.injEq, Prod.mk.injEq] at h
    obtain ⟨rfl, _⟩ := h
    exact .refl _
  · exact psLoopOrd_steps E hcut _ _ _ _ _ _ _ _ _ _ _ h

/-- **a run of the repaired `partialShortcutPath` preserves, for EVERY `checkMotion`** (no symmetry
hypothesis; compare `partialShortcutG_preserves`) -/
theorem partialShortcutOrd_preserves {E : PsEnv σ} {cut : σ → σ → σ → Prop} (isGoal : σ → Prop)
    (hcut : ∀ a b t, cut a b (E.interp a b t))
    {u : Nat → Float} {ms me : Nat} {rr snap : Float} {path out : List σ} {r : Bool}
    (h : partialShortcutPathOrd E u ms me rr snap path = some (out, r)) :
    Preserves E.cm cut isGoal path out :=
  (partialShortcutPathOrd_steps hcut h).preserves isGoal

/-- … with the canonical `cut` ("an interpolated state of the motion") -/
theorem partialShortcutOrd_preserves_interp {E : PsEnv σ} (isGoal : σ → Prop)
    {u : Nat → Float} {ms me : Nat} {rr snap : Float} {path out : List σ} {r : Bool}
    (h : partialShortcutPathOrd E u ms me rr snap path = some (out, r)) :
    Preserves E.cm (fun a b s => ∃ t, s = E.interp a b t) isGoal path out :=
  partialShortcutOrd_preserves isGoal (fun _ _ t => ⟨t, rfl⟩) h

/-! ## the negative for the tree's variant -/

/-- A step of the tree's kind (`PsCutStep`: `checkMotion` answered `true` for the two samples in SAMPLING
order, i.e. in either path order) whose spliced-in motion was validated only in reverse: `checkMotion`
answers `true` for `2 → 0` only; joining the vertices 0 and 2 of `[0, 1, 2, 3]` is a `PsCutStep` (second
disjunct of `hcm`); the motion `p = (0, 2)` of the result is not a motion of the input, `cm 0 2 = false`,
`cm 2 0 = true`.  Nothing is a cut point (`cut = False`), and no `Float` is evaluated.  No such step
exists for `PsCutStepD` (`PsCutStepD.preserves`). -/
theorem pshort_sampling_order_validation_fails :
    ∃ (cm : Nat → Nat → Bool) (st out : List Nat),
      PsCutStep cm (fun _ _ _ => False) st out ∧
      ∃ p ∈ adj out, p ∉ adj st ∧ cm p.1 p.2 = false ∧ cm p.2 p.1 = true := by
  refine ⟨fun a b => a == 2 && b == 0, [0, 1, 2, 3], [0, 2, 3], ?_, (0, 2), ?_, ?_, ?_, ?_⟩
  · exact .mk [0, 1, 2, 3] 0 2 true true 0 2 [0, 2, 3] (by decide) (by decide) (by decide)
      (fun h => Bool.noConfusion h) (fun h => Bool.noConfusion h) (fun _ => rfl) (fun _ => rfl)
      (Or.inr (by decide)) (by decide)
  · decide
  · decide
  · decide
  · decide

/-- the same witness is NOT derivable at all: the new motion is no input motion, not validated in its
direction, and there are no cut points - so the tree's step does not `Preserve` (restating
`psCutStep_needs_symmetry` next to the positive result) -/
theorem pshort_sampling_order_not_preserves :
    ∃ (cm : Nat → Nat → Bool) (st out : List Nat),
      PsCutStep cm (fun _ _ _ => False) st out ∧
      ¬ Preserves cm (fun _ _ _ => False) (fun _ => False) st out :=
  psCutStep_needs_symmetry

end OmplModel.PathOps
