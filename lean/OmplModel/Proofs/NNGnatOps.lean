import OmplModel.Model.NNGnatOps
import OmplModel.Proofs.NNGnatQuery
/-!
GNAT tree-building operations (`Model/NNGnatOps.lean`): `Node::add` preserves the invariant
`Node.inv` (= `GnatInv`), given what `split` must establish (`SplitSpec`).
No metric law is used: ranges and radii are bookkeeping of actually computed distances.
-/
set_option linter.unusedSectionVars false

namespace OmplModel.NN

variable {α D U : Type}

section Ranges
variable [LinearOrder D]

theorem Range.has_update_self (r : Range D) (d : D) : (r.update d).has d = true := by
  cases r with
  | none => simp [Range.update, Range.has]
  | some lh =>
    obtain ⟨lo, hi⟩ := lh
    simp only [Range.update, Range.has, Bool.and_eq_true, decide_eq_true_eq]
    constructor
    · split
      · exact le_refl _
      · rename_i h; exact not_lt.mp h
    · split
      · exact le_refl _
      · rename_i h; exact not_lt.mp h

theorem Range.has_update_of_has (r : Range D) (d d' : D) (h : r.has d' = true) : (r.update d).has d' = true := by
  cases r with
  | none => simp [Range.has] at h
  | some lh =>
    obtain ⟨lo, hi⟩ := lh
    simp only [Range.update, Range.has, Bool.and_eq_true, decide_eq_true_eq] at h ⊢
    constructor
    · split
      · rename_i hlt; exact le_trans (le_of_lt hlt) h.1
      · exact h.1
    · split
      · rename_i hlt; exact le_trans h.2 (le_of_lt hlt)
      · exact h.2

theorem updAt_getElem? (rs : List (Range D)) (i j : Nat) (d : D) :
    (updAt rs i d)[j]? = if j = i then rs[j]?.map (fun r => r.update d) else rs[j]? := by
  induction rs generalizing i j with
  | nil => simp [updAt]
  | cons r rs ih =>
    cases i with
    | zero =>
      cases j with
      | zero => simp [updAt]
      | succ j => simp [updAt]
    | succ i =>
      cases j with
      | zero => simp [updAt]
      | succ j => simp [updAt, ih]

end Ranges

section Setters

@[simp] theorem Node.setRanges_pivot (c : Node α D) (r : List (Range D)) : (c.setRanges r).pivot = c.pivot := by cases c; rfl
@[simp] theorem Node.setRanges_ranges (c : Node α D) (r : List (Range D)) : (c.setRanges r).ranges = r := by cases c; rfl
@[simp] theorem Node.setRanges_rad (c : Node α D) (r : List (Range D)) : (c.setRanges r).rad = c.rad := by cases c; rfl
@[simp] theorem Node.setRanges_data (c : Node α D) (r : List (Range D)) : (c.setRanges r).data = c.data := by cases c; rfl
@[simp] theorem Node.setRanges_children (c : Node α D) (r : List (Range D)) : (c.setRanges r).children = c.children := by cases c; rfl
@[simp] theorem Node.setRanges_elems (c : Node α D) (r : List (Range D)) : (c.setRanges r).elems = c.elems := by cases c; rfl
@[simp] theorem Node.setRad_pivot (c : Node α D) (r : Range D) : (c.setRad r).pivot = c.pivot := by cases c; rfl
@[simp] theorem Node.setRad_ranges (c : Node α D) (r : Range D) : (c.setRad r).ranges = c.ranges := by cases c; rfl
@[simp] theorem Node.setRad_rad (c : Node α D) (r : Range D) : (c.setRad r).rad = r := by cases c; rfl
@[simp] theorem Node.setRad_data (c : Node α D) (r : Range D) : (c.setRad r).data = c.data := by cases c; rfl
@[simp] theorem Node.setRad_children (c : Node α D) (r : Range D) : (c.setRad r).children = c.children := by cases c; rfl
@[simp] theorem Node.setRad_elems (c : Node α D) (r : Range D) : (c.setRad r).elems = c.elems := by cases c; rfl

theorem restOf_setRanges (c : Node α D) (r : List (Range D)) : restOf (c.setRanges r) = restOf c := by cases c; rfl
theorem restOf_setRad (c : Node α D) (r : Range D) : restOf (c.setRad r) = restOf c := by cases c; rfl

variable [LE D] [DecidableLE D]

theorem Node.inv_setRanges (dist : α → α → D) (removed : List Nat) (c : Node α D) (r : List (Range D)) :
    (c.setRanges r).inv dist removed = c.inv dist removed := by cases c; rfl
theorem Node.inv_setRad (dist : α → α → D) (removed : List Nat) (c : Node α D) (r : Range D) :
    (c.setRad r).inv dist removed = c.inv dist removed := by cases c; rfl

theorem invL_of_mem (dist : α → α → D) (removed : List Nat) : ∀ (ch : List (Node α D)),
    (∀ c ∈ ch, c.inv dist removed = true) → invL dist removed ch = true
  | [], _ => rfl
  | c :: cs, h => by
    simp only [invL, Bool.and_eq_true]
    exact ⟨h c (by simp), invL_of_mem dist removed cs (fun c' hc' => h c' (List.mem_cons_of_mem _ hc'))⟩

/-- `localInv` as a proposition. -/
theorem localInv_iff (dist : α → α → D) (children : List (Node α D)) :
    localInv dist children = true ↔
      ∀ ci ∈ children,
        (∀ x ∈ restOf ci, ci.rad.has (dist x.val ci.pivot.val) = true) ∧
        ∀ (j : Nat) (cj : Node α D), children[j]? = some cj →
          ∃ rg, ci.ranges[j]? = some rg ∧ ∀ x ∈ cj.elems, Range.has rg (dist x.val ci.pivot.val) = true := by
  constructor
  · intro h ci hci
    exact ⟨localInv_rad h hci, fun j cj hj => localInv_range h hci hj⟩
  · intro h
    simp only [localInv, List.all_eq_true, Bool.and_eq_true]
    intro ci hci
    refine ⟨(h ci hci).1, ?_⟩
    intro j hj
    have hj' : j < children.length := List.mem_range.mp hj
    obtain ⟨rg, hrg, hall⟩ := (h ci hci).2 j children[j] (List.getElem?_eq_getElem hj')
    rw [List.getElem?_eq_getElem hj', hrg]
    simpa [List.all_eq_true] using hall

end Setters


/-! ### `Node::add` -/

section Insert
variable [LinearOrder D] [OfNat D 0]

theorem argminGo_lt : ∀ (ds : List D) (i k : Nat) (best : D), k < i → argminGo ds i k best < i + ds.length
  | [], i, k, best, h => by simpa [argminGo] using h
  | d :: ds, i, k, best, h => by
    unfold argminGo
    split
    · have := argminGo_lt ds (i + 1) i d (by omega)
      simp only [List.length_cons]; omega
    · have := argminGo_lt ds (i + 1) k best (by omega)
      simp only [List.length_cons]; omega

theorem argminFirst_lt (l : List D) (h : l ≠ []) : argminFirst l < l.length := by
  cases l with
  | nil => exact (h rfl).elim
  | cons d ds =>
    have := argminGo_lt ds 1 0 d (by omega)
    simp only [argminFirst, List.length_cons]; omega

/-- child `m` after the two loops of `Node::add` with closest child `k`. -/
def newChild (ctx : Ctx α D U) (doSplit : Bool) (x : Elem α) (k m : Nat) (c : Node α D) (us : List U) : Node α D :=
  if m = k then
    ((Node.insert ctx doSplit x c us).1.setRanges (updAt c.ranges k (ctx.dist x.val c.pivot.val))).setRad
      (c.rad.update (ctx.dist x.val c.pivot.val))
  else c.setRanges (updAt c.ranges k (ctx.dist x.val c.pivot.val))

theorem insertL_spec (ctx : Ctx α D U) (doSplit : Bool) (x : Elem α) (k : Nat) :
    ∀ (l : List (Node α D)) (i : Nat) (us : List U),
      (insertL ctx doSplit x k i l us).1.length = l.length ∧
      ∀ (m : Nat) (c : Node α D), l[m]? = some c →
        ∃ us', (insertL ctx doSplit x k i l us).1[m]? = some (newChild ctx doSplit x k (i + m) c us')
  | [], i, us => by simp [insertL]
  | c :: cs, i, us => by
    unfold insertL
    by_cases hik : i = k
    · simp only [hik, if_true]
      have ih := insertL_spec ctx doSplit x k cs (k + 1) (Node.insert ctx doSplit x c us).2.1
      refine ⟨by simp [ih.1], ?_⟩
      intro m c0 hm
      cases m with
      | zero =>
        simp only [List.getElem?_cons_zero, Option.some.injEq] at hm
        subst hm
        exact ⟨us, by simp [newChild]⟩
      | succ m =>
        simp only [List.getElem?_cons_succ] at hm
        obtain ⟨us', h⟩ := ih.2 m c0 hm
        exact ⟨us', by simpa [show k + (m + 1) = k + 1 + m by omega] using h⟩
    · simp only [hik, if_false]
      have ih := insertL_spec ctx doSplit x k cs (i + 1) us
      refine ⟨by simp [ih.1], ?_⟩
      intro m c0 hm
      cases m with
      | zero =>
        simp only [List.getElem?_cons_zero, Option.some.injEq] at hm
        subst hm
        exact ⟨us, by simp [newChild, hik]⟩
      | succ m =>
        simp only [List.getElem?_cons_succ] at hm
        obtain ⟨us', h⟩ := ih.2 m c0 hm
        exact ⟨us', by simpa [show i + (m + 1) = i + 1 + m by omega] using h⟩

mutual
/-- every node has `degree_ >= 1` (with `degree_ = 0` `split` would call `kcenters` with `k = 0`). -/
def Node.degPos : Node α D → Bool
  | .mk _ deg _ _ _ ch => decide (0 < deg) && degPosL ch
def degPosL : List (Node α D) → Bool
  | [] => true
  | c :: cs => c.degPos && degPosL cs
end

theorem degPosL_iff : ∀ (ch : List (Node α D)), degPosL ch = true ↔ ∀ c ∈ ch, c.degPos = true
  | [] => by simp [degPosL]
  | c :: cs => by simp [degPosL, degPosL_iff cs]

theorem Node.degPos_mk (p : Elem α) (deg : Nat) (r : Range D) (rg : List (Range D)) (data : List (Elem α))
    (ch : List (Node α D)) :
    (Node.mk p deg r rg data ch).degPos = true ↔ 0 < deg ∧ ∀ c ∈ ch, c.degPos = true := by
  simp [Node.degPos, degPosL_iff]

theorem Node.degPos_parts {t : Node α D} (h : t.degPos = true) : 0 < t.degree ∧ ∀ c ∈ t.children, c.degPos = true := by
  obtain ⟨p, deg, r, rg, data, ch⟩ := t
  exact (Node.degPos_mk p deg r rg data ch).mp h

theorem Node.degPos_setRanges (c : Node α D) (r : List (Range D)) : (c.setRanges r).degPos = c.degPos := by cases c; rfl
theorem Node.degPos_setRad (c : Node α D) (r : Range D) : (c.setRad r).degPos = c.degPos := by cases c; rfl

/-- what `Node::split` must establish for `Node::add` to preserve the invariant and the contents. -/
def SplitSpec (ctx : Ctx α D U) (removed : List Nat) : Prop :=
  ∀ (fuel : Nat) (n : Node α D) (us : List U), n.children = [] → n.data ≠ [] → 0 < n.degree →
    isRemoved removed n.pivot = false →
    (splitNode ctx fuel n us).1.inv ctx.dist removed = true ∧ (splitNode ctx fuel n us).1.pivot = n.pivot ∧
      (restOf (splitNode ctx fuel n us).1).Perm (restOf n) ∧ (splitNode ctx fuel n us).1.degPos = true

theorem count_lt_of_mem : ∀ (l : List (Node α D)) (c : Node α D), c ∈ l → c.count ≤ countL l
  | [], c, h => by simp at h
  | c0 :: cs, c, h => by
    simp only [countL]
    rcases List.mem_cons.mp h with rfl | h
    · omega
    · have := count_lt_of_mem cs c h; omega

theorem mem_elemsL {l : List (Node α D)} {y : Elem α} : y ∈ elemsL l ↔ ∃ c ∈ l, y ∈ c.elems := by
  induction l with
  | nil => simp [elemsL]
  | cons c cs ih => simp [elemsL, ih]

/-- **`Node::add` preserves `GnatInv`** (given `SplitSpec`): the new subtree satisfies the invariant,
keeps its pivot, and stores nothing but the old copies and the new one. -/
theorem Node.insert_spec (ctx : Ctx α D U) (removed : List Nat) (doSplit : Bool)
    (hS : doSplit = true → SplitSpec ctx removed)
    (x : Elem α) : ∀ (N : Nat) (t : Node α D), t.count ≤ N → t.inv ctx.dist removed = true →
      t.degPos = true → ∀ (us : List U),
      (t.insert ctx doSplit x us).1.inv ctx.dist removed = true ∧
      (t.insert ctx doSplit x us).1.pivot = t.pivot ∧
      ∀ y ∈ restOf (t.insert ctx doSplit x us).1, y = x ∨ y ∈ restOf t := by
  intro N
  induction N with
  | zero =>
    intro t ht
    have := Node.count_eq t
    omega
  | succ N ih =>
    intro t ht hinv hdp us
    obtain ⟨p, deg, rad, rgs, data, ch⟩ := t
    obtain ⟨hp, hloc, hch⟩ := Node.inv_parts hinv
    obtain ⟨hdeg, hdpc⟩ := Node.degPos_parts hdp
    cases ch with
    | nil =>
      have hleaf : ∀ y ∈ restOf (Node.mk p deg rad rgs (data ++ [x]) ([] : List (Node α D))),
          y = x ∨ y ∈ restOf (Node.mk p deg rad rgs data ([] : List (Node α D))) := by
        intro y hy
        simp only [restOf, Node.data, Node.children, elemsL, List.append_nil, List.mem_append,
          List.mem_singleton] at hy ⊢
        rcases hy with hy | hy
        · exact Or.inr hy
        · exact Or.inl hy
      have hinv' : (Node.mk p deg rad rgs (data ++ [x]) ([] : List (Node α D))).inv ctx.dist removed = true := by
        rw [Node.inv_mk] at hinv ⊢
        exact hinv
      unfold Node.insert
      split
      · split
        · rename_i hds
          obtain ⟨h1, h2, h3, _⟩ := hS hds ((data ++ [x]).length + 1) (.mk p deg rad rgs (data ++ [x]) []) us rfl
            (by simp [Node.data]) hdeg hp
          exact ⟨h1, h2, fun y hy => hleaf y (h3.subset hy)⟩
        · exact ⟨hinv', rfl, hleaf⟩
      · exact ⟨hinv', rfl, hleaf⟩
    | cons c cs =>
      unfold Node.insert
      simp only []
      generalize hk : argminFirst ((c :: cs).map (fun c => ctx.dist x.val c.pivot.val)) = k
      have hklt : k < (c :: cs).length := by
        have := argminFirst_lt ((c :: cs).map (fun c => ctx.dist x.val c.pivot.val)) (by simp)
        rw [hk] at this
        simpa using this
      obtain ⟨hlen, hspec⟩ := insertL_spec ctx doSplit x k (c :: cs) 0 us
      generalize (insertL ctx doSplit x k 0 (c :: cs) us).1 = L' at hlen hspec
      have hlocP := (localInv_iff ctx.dist (c :: cs)).mp hloc
      -- facts about every new child
      have hnew : ∀ (m : Nat) (c' : Node α D), L'[m]? = some c' →
          ∃ c0 us', (c :: cs)[m]? = some c0 ∧ c' = newChild ctx doSplit x k m c0 us' := by
        intro m c' hm
        have hmlt : m < (c :: cs).length := by
          rw [← hlen]
          by_contra hcon
          rw [List.getElem?_eq_none (by omega)] at hm
          cases hm
        obtain ⟨us', h⟩ := hspec m _ (List.getElem?_eq_getElem hmlt)
        rw [h] at hm
        simp only [Nat.zero_add, Option.some.injEq] at hm
        exact ⟨_, us', List.getElem?_eq_getElem hmlt, hm.symm⟩
      have hIH : ∀ c0 ∈ c :: cs, ∀ us',
          (c0.insert ctx doSplit x us').1.inv ctx.dist removed = true ∧
          (c0.insert ctx doSplit x us').1.pivot = c0.pivot ∧
          ∀ y ∈ restOf (c0.insert ctx doSplit x us').1, y = x ∨ y ∈ restOf c0 := by
        intro c0 hc0 us'
        apply ih c0 _ (hch c0 hc0) (hdpc c0 hc0)
        have h1 := count_lt_of_mem (c :: cs) c0 hc0
        have h2 := Node.count_eq (Node.mk p deg rad rgs data (c :: cs))
        simp only [Node.children] at h2
        omega
      have hpiv : ∀ m c0 us', c0 ∈ c :: cs → (newChild ctx doSplit x k m c0 us').pivot = c0.pivot := by
        intro m c0 us' hc0
        unfold newChild
        split
        · simp [(hIH c0 hc0 us').2.1]
        · simp
      have hrest : ∀ m c0 us', c0 ∈ c :: cs → ∀ y ∈ restOf (newChild ctx doSplit x k m c0 us'),
          (m = k ∧ y = x) ∨ y ∈ restOf c0 := by
        intro m c0 us' hc0 y hy
        unfold newChild at hy
        split at hy
        · rename_i hmk
          rw [restOf_setRad, restOf_setRanges] at hy
          rcases (hIH c0 hc0 us').2.2 y hy with h | h
          · exact Or.inl ⟨hmk, h⟩
          · exact Or.inr h
        · rw [restOf_setRanges] at hy
          exact Or.inr hy
      have helems : ∀ m c0 us', c0 ∈ c :: cs → ∀ y ∈ (newChild ctx doSplit x k m c0 us').elems,
          (m = k ∧ y = x) ∨ y ∈ c0.elems := by
        intro m c0 us' hc0 y hy
        rw [Node.elems_eq, hpiv m c0 us' hc0] at hy
        rw [Node.elems_eq]
        rcases List.mem_cons.mp hy with h | h
        · exact Or.inr (by rw [h]; simp)
        · rcases hrest m c0 us' hc0 y h with h | h
          · exact Or.inl h
          · exact Or.inr (List.mem_cons_of_mem _ h)
      refine ⟨?_, rfl, ?_⟩
      · rw [Node.inv_mk]
        refine ⟨hp, ?_, ?_⟩
        · rw [localInv_iff]
          intro ci' hci'
          obtain ⟨m, hm⟩ := List.mem_iff_getElem?.mp hci'
          obtain ⟨c0, us', hc0, rfl⟩ := hnew m ci' hm
          have hc0m : c0 ∈ c :: cs := List.mem_of_getElem? hc0
          obtain ⟨hradOld, hrgOld⟩ := hlocP c0 hc0m
          rw [hpiv m c0 us' hc0m]
          constructor
          · intro y hy
            rcases hrest m c0 us' hc0m y hy with ⟨hmk, rfl⟩ | h
            · simp only [newChild, hmk, if_true, Node.setRad_rad]
              exact Range.has_update_self _ _
            · unfold newChild
              split
              · simp only [Node.setRad_rad]
                exact Range.has_update_of_has _ _ _ (hradOld y h)
              · simp only [Node.setRanges_rad]
                exact hradOld y h
          · intro j cj' hj
            obtain ⟨cj0, usj, hcj0, rfl⟩ := hnew j cj' hj
            have hcj0m : cj0 ∈ c :: cs := List.mem_of_getElem? hcj0
            obtain ⟨rg0, hrg0, hall0⟩ := hrgOld j cj0 hcj0
            have hranges : (newChild ctx doSplit x k m c0 us').ranges =
                updAt c0.ranges k (ctx.dist x.val c0.pivot.val) := by
              unfold newChild
              split <;> simp
            rw [hranges, updAt_getElem?]
            by_cases hjk : j = k
            · rw [if_pos hjk, hrg0]
              refine ⟨_, rfl, ?_⟩
              intro y hy
              rcases helems j cj0 usj hcj0m y hy with ⟨_, rfl⟩ | h
              · exact Range.has_update_self _ _
              · exact Range.has_update_of_has _ _ _ (hall0 y h)
            · rw [if_neg hjk, hrg0]
              refine ⟨_, rfl, ?_⟩
              intro y hy
              rcases helems j cj0 usj hcj0m y hy with ⟨h, _⟩ | h
              · exact (hjk h).elim
              · exact hall0 y h
        · apply invL_of_mem
          intro ci' hci'
          obtain ⟨m, hm⟩ := List.mem_iff_getElem?.mp hci'
          obtain ⟨c0, us', hc0, rfl⟩ := hnew m ci' hm
          have hc0m : c0 ∈ c :: cs := List.mem_of_getElem? hc0
          unfold newChild
          split
          · rw [Node.inv_setRad, Node.inv_setRanges]
            exact (hIH c0 hc0m us').1
          · rw [Node.inv_setRanges]
            exact hch c0 hc0m
      · intro y hy
        simp only [restOf, Node.data, Node.children, List.mem_append] at hy ⊢
        rcases hy with hy | hy
        · exact Or.inr (Or.inl hy)
        · obtain ⟨ci', hci', hyc⟩ := mem_elemsL.mp hy
          obtain ⟨m, hm⟩ := List.mem_iff_getElem?.mp hci'
          obtain ⟨c0, us', hc0, rfl⟩ := hnew m ci' hm
          have hc0m : c0 ∈ c :: cs := List.mem_of_getElem? hc0
          rcases helems m c0 us' hc0m y hyc with ⟨_, h⟩ | h
          · exact Or.inl h
          · exact Or.inr (Or.inr (mem_elemsL.mpr ⟨c0, hc0m, h⟩))


theorem elemsL_perm_pointwise : ∀ (L L' : List (Node α D)), L'.length = L.length →
    (∀ (m : Nat) (c c' : Node α D), L[m]? = some c → L'[m]? = some c' → c'.elems.Perm c.elems) →
    (elemsL L').Perm (elemsL L)
  | [], [], _, _ => List.Perm.refl _
  | [], _ :: _, h, _ => by simp at h
  | _ :: _, [], h, _ => by simp at h
  | c :: L, c' :: L', h, hp => by
    simp only [elemsL]
    exact (hp 0 c c' (by simp) (by simp)).append
      (elemsL_perm_pointwise L L' (by simpa using h)
        (fun m a a' ha ha' => hp (m + 1) a a' (by simpa using ha) (by simpa using ha')))

theorem elemsL_perm_insert (x : Elem α) : ∀ (L L' : List (Node α D)) (k : Nat), L'.length = L.length → k < L.length →
    (∀ (m : Nat) (c c' : Node α D), L[m]? = some c → L'[m]? = some c' →
      c'.elems.Perm (if m = k then x :: c.elems else c.elems)) →
    (elemsL L').Perm (x :: elemsL L)
  | [], _, k, _, hk, _ => by simp at hk
  | _ :: _, [], _, h, _, _ => by simp at h
  | c :: L, c' :: L', 0, h, _, hp => by
    simp only [elemsL]
    have h0 := hp 0 c c' (by simp) (by simp)
    rw [if_pos rfl] at h0
    have hrest := elemsL_perm_pointwise L L' (by simpa using h)
      (fun m a a' ha ha' => by
        have := hp (m + 1) a a' (by simpa using ha) (by simpa using ha')
        rwa [if_neg (by omega)] at this)
    exact h0.append hrest
  | c :: L, c' :: L', k + 1, h, hk, hp => by
    simp only [elemsL]
    have h0 := hp 0 c c' (by simp) (by simp)
    rw [if_neg (by omega)] at h0
    have ih := elemsL_perm_insert x L L' k (by simpa using h) (by simpa using hk)
      (fun m a a' ha ha' => by
        have := hp (m + 1) a a' (by simpa using ha) (by simpa using ha')
        simpa using this)
    exact (h0.append ih).trans List.perm_middle

/-- `Node::add` stores exactly the old copies plus the new one, and keeps all degrees positive. -/
theorem Node.insert_perm (ctx : Ctx α D U) (removed : List Nat) (doSplit : Bool)
    (hS : doSplit = true → SplitSpec ctx removed)
    (x : Elem α) : ∀ (N : Nat) (t : Node α D), t.count ≤ N → t.inv ctx.dist removed = true →
      t.degPos = true → ∀ (us : List U),
      (t.insert ctx doSplit x us).1.pivot = t.pivot ∧
      (restOf (t.insert ctx doSplit x us).1).Perm (x :: restOf t) ∧
      (t.insert ctx doSplit x us).1.degPos = true := by
  intro N
  induction N with
  | zero =>
    intro t ht
    have := Node.count_eq t
    omega
  | succ N ih =>
    intro t ht hinv hdp us
    obtain ⟨p, deg, rad, rgs, data, ch⟩ := t
    obtain ⟨hp, hloc, hch⟩ := Node.inv_parts hinv
    obtain ⟨hdeg, hdpc⟩ := Node.degPos_parts hdp
    cases ch with
    | nil =>
      have hleaf : (restOf (Node.mk p deg rad rgs (data ++ [x]) ([] : List (Node α D)))).Perm
          (x :: restOf (Node.mk p deg rad rgs data ([] : List (Node α D)))) := by
        simp only [restOf, Node.data, Node.children, elemsL, List.append_nil]
        exact List.perm_append_comm
      have hdp' : (Node.mk p deg rad rgs (data ++ [x]) ([] : List (Node α D))).degPos = true := by
        rw [Node.degPos_mk]; exact ⟨hdeg, by simp⟩
      unfold Node.insert
      split
      · split
        · rename_i hds
          obtain ⟨_, h2, h3, h4⟩ := hS hds ((data ++ [x]).length + 1) (.mk p deg rad rgs (data ++ [x]) []) us rfl
            (by simp [Node.data]) hdeg hp
          exact ⟨h2, h3.trans hleaf, h4⟩
        · exact ⟨rfl, hleaf, hdp'⟩
      · exact ⟨rfl, hleaf, hdp'⟩
    | cons c cs =>
      unfold Node.insert
      simp only []
      generalize hk : argminFirst ((c :: cs).map (fun c => ctx.dist x.val c.pivot.val)) = k
      have hklt : k < (c :: cs).length := by
        have := argminFirst_lt ((c :: cs).map (fun c => ctx.dist x.val c.pivot.val)) (by simp)
        rw [hk] at this
        simpa using this
      obtain ⟨hlen, hspec⟩ := insertL_spec ctx doSplit x k (c :: cs) 0 us
      generalize (insertL ctx doSplit x k 0 (c :: cs) us).1 = L' at hlen hspec
      have hIH : ∀ c0 ∈ c :: cs, ∀ us',
          (c0.insert ctx doSplit x us').1.pivot = c0.pivot ∧
          (restOf (c0.insert ctx doSplit x us').1).Perm (x :: restOf c0) ∧
          (c0.insert ctx doSplit x us').1.degPos = true := by
        intro c0 hc0 us'
        apply ih c0 _ (hch c0 hc0) (hdpc c0 hc0)
        have h1 := count_lt_of_mem (c :: cs) c0 hc0
        have h2 := Node.count_eq (Node.mk p deg rad rgs data (c :: cs))
        simp only [Node.children] at h2
        omega
      have hnew : ∀ (m : Nat) (c0 c' : Node α D), (c :: cs)[m]? = some c0 → L'[m]? = some c' →
          ∃ us', c' = newChild ctx doSplit x k m c0 us' := by
        intro m c0 c' hc0 hm
        obtain ⟨us', h⟩ := hspec m c0 hc0
        rw [h] at hm
        simp only [Nat.zero_add, Option.some.injEq] at hm
        exact ⟨us', hm.symm⟩
      refine ⟨rfl, ?_, ?_⟩
      · simp only [restOf, Node.data, Node.children]
        refine (List.Perm.append_left data (elemsL_perm_insert x (c :: cs) L' k hlen hklt ?_)).trans
          List.perm_middle
        intro m c0 c' hc0 hm
        obtain ⟨us', rfl⟩ := hnew m c0 c' hc0 hm
        have hc0m : c0 ∈ c :: cs := List.mem_of_getElem? hc0
        unfold newChild
        by_cases hmk : m = k
        · rw [if_pos hmk, if_pos hmk]
          simp only [Node.setRad_elems, Node.setRanges_elems]
          obtain ⟨h1, h2, _⟩ := hIH c0 hc0m us'
          rw [Node.elems_eq, h1, Node.elems_eq c0]
          exact (List.Perm.cons _ h2).trans (List.Perm.swap _ _ _)
        · rw [if_neg hmk, if_neg hmk]
          simp
      · rw [Node.degPos_mk]
        refine ⟨hdeg, ?_⟩
        intro c' hc'
        obtain ⟨m, hm⟩ := List.mem_iff_getElem?.mp hc'
        have hmlt : m < (c :: cs).length := by
          rw [← hlen]
          by_contra hcon
          rw [List.getElem?_eq_none (by omega)] at hm
          cases hm
        obtain ⟨us', rfl⟩ := hnew m _ c' (List.getElem?_eq_getElem hmlt) hm
        have hc0m : (c :: cs)[m] ∈ c :: cs := List.getElem_mem hmlt
        unfold newChild
        split
        · rw [Node.degPos_setRad, Node.degPos_setRanges]
          exact (hIH _ hc0m us').2.2
        · rw [Node.degPos_setRanges]
          exact hdpc _ hc0m

end Insert


/-! ### `remove`: marking a non-pivot copy -/

section Mark
variable [LE D] [DecidableLE D]

mutual
/-- the pivots of a subtree. -/
def Node.pivots : Node α D → List (Elem α)
  | .mk p _ _ _ _ ch => p :: pivotsL ch
def pivotsL : List (Node α D) → List (Elem α)
  | [] => []
  | c :: cs => c.pivots ++ pivotsL cs
end

mutual
/-- marking a stored copy whose id is no pivot's id keeps `GnatInv` (which bounds the distances to
*all* stored copies, removed ones included, so only "no pivot is marked" is at stake). -/
theorem Node.inv_mark (dist : α → α → D) (removed : List Nat) (i : Nat) :
    ∀ (t : Node α D), t.inv dist removed = true → (∀ p ∈ t.pivots, p.id ≠ i) → t.inv dist (i :: removed) = true
  | .mk p deg rad rgs data ch, h, hp => by
    rw [Node.inv_mk] at h ⊢
    refine ⟨?_, h.2.1, invL_mark dist removed i ch h.2.2 (fun q hq => hp q (by simp [Node.pivots, hq]))⟩
    have h1 := hp p (by simp [Node.pivots])
    have h2 := h.1
    simp only [isRemoved, List.contains_cons, Bool.or_eq_false_iff, beq_eq_false_iff_ne, ne_eq] at h2 ⊢
    exact ⟨h1, h2⟩
theorem invL_mark (dist : α → α → D) (removed : List Nat) (i : Nat) :
    ∀ (ch : List (Node α D)), invL dist removed ch = true → (∀ p ∈ pivotsL ch, p.id ≠ i) →
      invL dist (i :: removed) ch = true
  | [], _, _ => rfl
  | c :: cs, h, hp => by
    simp only [invL, Bool.and_eq_true] at h ⊢
    exact ⟨Node.inv_mark dist removed i c h.1 (fun q hq => hp q (by simp [pivotsL, hq])),
      invL_mark dist removed i cs h.2 (fun q hq => hp q (by simp [pivotsL, hq]))⟩
end

end Mark

end OmplModel.NN
