import OmplModel.Model.NNGnatOps
import OmplModel.Proofs.NNGnatQuery
/-!
GNAT tree-building operations (`Model/NNGnatOps.lean`): `Node::add` preserves the invariant
`Node.inv` (= `GnatInv`), given what `split` must establish (`SplitSpec`).
No metric law is used: ranges and radii are bookkeeping of actually computed distances.
-/
set_option linter.unusedSectionVars false

namespace OmplModel.NN

variable {α D U : Type}

section Ranges
variable [LinearOrder D]

theorem Range.has_update_self (r : Range D) (d : D) : (r.update d).has d = true := by
  cases r with
  | none => simp [Range.update, Range.has]
  | some lh =>
    obtain ⟨lo, hi⟩ := lh
    simp only [Range.update, Range.has, Bool.and_eq_true, decide_eq_true_eq]
    constructor
    · split
      · exact le_refl _
      · rename_i h; exact not_lt.mp h
    · split
      · exact le_refl _
      · rename_i h; exact not_lt.mp h

theorem Range.has_update_of_has (r : Range D) (d d' : D) (h : r.has d' = true) : (r.update d).has d' = true := by
  cases r with
  | none => simp [Range.has] at h
  | some lh =>
    obtain ⟨lo, hi⟩ := lh
    simp only [Range.update, Range.has, Bool.and_eq_true, decide_eq_true_eq] at h ⊢
    constructor
    · split
      · rename_i hlt; exact le_trans (le_of_lt hlt) h.1
      · exact h.1
    · split
      · rename_i hlt; exact le_trans h.2 (le_of_lt hlt)
      · exact h.2

theorem updAt_getElem? (rs : List (Range D)) (i j : Nat) (d : D) :
    (updAt rs i d)[j]? = if j = i then rs[j]?.map (fun r => r.update d) else rs[j]? := by
  induction rs generalizing i j with
  | nil => simp [updAt]
  | cons r rs ih =>
    cases i with
    | zero =>
      cases j with
      | zero => simp [updAt]
      | succ j => simp [updAt]
    | succ i =>
      cases j with
      | zero => simp [updAt]
      | succ j => simp [updAt, ih]

end Ranges

section Setters

@[simp] theorem Node.setRanges_pivot (c : Node α D) (r : List (Range D)) : (c.setRanges r).pivot = c.pivot := by cases c; rfl
@[simp] theorem Node.setRanges_ranges (c : Node α D) (r : List (Range D)) : (c.setRanges r).ranges = r := by cases c; rfl
@[simp] theorem Node.setRanges_rad (c : Node α D) (r : List (Range D)) : (c.setRanges r).rad = c.rad := by cases c; rfl
@[simp] theorem Node.setRanges_data (c : Node α D) (r : List (Range D)) : (c.setRanges r).data = c.data := by cases c; rfl
@[simp] theorem Node.setRanges_children (c : Node α D) (r : List (Range D)) : (c.setRanges r).children = c.children := by cases c; rfl
@[simp] theorem Node.setRanges_elems (c : Node α D) (r : List (Range D)) : (c.setRanges r).elems = c.elems := by cases c; rfl
@[simp] theorem Node.setRad_pivot (c : Node α D) (r : Range D) : (c.setRad r).pivot = c.pivot := by cases c; rfl
@[simp] theorem Node.setRad_ranges (c : Node α D) (r : Range D) : (c.setRad r).ranges = c.ranges := by cases c; rfl
@[simp] theorem Node.setRad_rad (c : Node α D) (r : Range D) : (c.setRad r).rad = r := by cases c; rfl
@[simp] theorem Node.setRad_data (c : Node α D) (r : Range D) : (c.setRad r).data = c.data := by cases c; rfl
@[simp] theorem Node.setRad_children (c : Node α D) (r : Range D) : (c.setRad r).children = c.children := by cases c; rfl
@[simp] theorem Node.setRad_elems (c : Node α D) (r : Range D) : (c.setRad r).elems = c.elems := by cases c; rfl

theorem restOf_setRanges (c : Node α D) (r : List (Range D)) : restOf (c.setRanges r) = restOf c := by cases c; rfl
theorem restOf_setRad (c : Node α D) (r : Range D) : restOf (c.setRad r) = restOf c := by cases c; rfl

variable [LE D] [DecidableLE D]

theorem Node.inv_setRanges (dist : α → α → D) (removed : List Nat) (c : Node α D) (r : List (Range D)) :
    (c.setRanges r).inv dist removed = c.inv dist removed := by cases c; rfl
theorem Node.inv_setRad (dist : α → α → D) (removed : List Nat) (c : Node α D) (r : Range D) :
    (c.setRad r).inv dist removed = c.inv dist removed := by cases c; rfl

theorem invL_of_mem (dist : α → α → D) (removed : List Nat) : ∀ (ch : List (Node α D)),
    (∀ c ∈ ch, c.inv dist removed = true) → invL dist removed ch = true
  | [], _ => rfl
  | c :: cs, h => by
    simp only [invL, Bool.and_eq_true]
    exact ⟨h c (by simp), invL_of_mem dist removed cs (fun c' hc' => h c' (List.mem_cons_of_mem _ hc'))⟩

/-- `localInv` as a proposition. -/
theorem localInv_iff (dist : α → α → D) (children : List (Node α D)) :
    localInv dist children = true ↔
      ∀ ci ∈ children,
        (∀ x ∈ restOf ci, ci.rad.has (dist x.val ci.pivot.val) = true) ∧
        ∀ (j : Nat) (cj : Node α D), children[j]? = some cj →
          ∃ rg, ci.ranges[j]? = some rg ∧ ∀ x ∈ cj.elems, Range.has rg (dist x.val ci.pivot.val) = true := by
  constructor
  · intro h ci hci
    exact ⟨localInv_rad h hci, fun j cj hj => localInv_range h hci hj⟩
  · intro h
    simp only [localInv, List.all_eq_true, Bool.and_eq_true]
    intro ci hci
    refine ⟨(h ci hci).1, ?_⟩
    intro j hj
    have hj' : j < children.length := List.mem_range.mp hj
    obtain ⟨rg, hrg, hall⟩ := (h ci hci).2 j children[j] (List.getElem?_eq_getElem hj')
    rw [List.getElem?_eq_getElem hj', hrg]
    simpa [List.all_eq_true] using hall

end Setters

end OmplModel.NN
