import OmplModel.Model.VanaOwen
/-!
Arithmetic-free helper definitions and lemmas about `Model/VanaOwen.lean` (C14, VanaOwenStateSpace): names for the
pieces of `interpolate(from, to, t, path, state)` — the state it assembles (`voFin`), the three horizontal lengths it
compares (`lengthSpiral`, `lengthPath`, `lengthTurn`), its interior branch (`voBranch`, the code after the two shortcut
returns), the pose the horizontal word starts from (`voStart`) and the state the interior branch tends to at the end of
the path (`voEnd`).  Core Lean only; generic over `[DNum α]`, no arithmetic law is used.
-/
namespace OmplModel.VanaOwen
open OmplModel OmplModel.Dubins OmplModel.Owen OmplModel.Vana

section
variable {α : Type} [DNum α]

/-- the horizontal pose `(x, y, yaw)` of a state (the code passes `from` itself, exploiting the memory layout) -/
def hpose (s : St5 α) : Pose α := ⟨s.x, s.y, s.yaw⟩

/-- the state `interpolate` assembles for `0 < t < 1`: altitude and pitch from the vertical profile `pathSZ_` at `t`,
position from the horizontal pose `q`, yaw wrapped by SO(2) `enforceBounds` -/
def voFin (p : VOPath α) (t : α) (q : Pose α) : St5 α :=
  ⟨q.x, q.y, (interpPath p.rv p.startSZ p.sz t).y, (interpPath p.rv p.startSZ p.sz t).th, so2Enforce q.th⟩

/-- `lengthSpiral = twopi * horizontalRadius_ * numTurns_` -/
def lengthSpiral (p : VOPath α) : α := twopi * p.rh * p.k
/-- `lengthPath = horizontalRadius_ * pathXY_.length()` -/
def lengthPath (p : VOPath α) : α := p.rh * p.xy.len
/-- `lengthTurn = |phi_| * horizontalRadius_` -/
def lengthTurn (p : VOPath α) : α := Num.abs p.phi * p.rh

/-- the code of `interpolate` after the two shortcut returns -/
def voBranch (frm : St5 α) (t : α) (p : VOPath α) : St5 α :=
  if isZero p.phi then
    if isZero p.k then voFin p t (interpPath p.rh (hpose frm) p.xy t)
    else if lengthSpiral p < t * (lengthSpiral p + lengthPath p) then
      voFin p t (interpPath p.rh (hpose frm) p.xy
        ((t * (lengthSpiral p + lengthPath p) - lengthSpiral p) / lengthPath p))
    else voFin p t (turn (hpose frm) p.rh (t * (lengthSpiral p + lengthPath p) / p.rh))
  else
    if lengthTurn p < t * (lengthTurn p + lengthPath p) then
      voFin p t (interpPath p.rh (turn (hpose frm) p.rh p.phi) p.xy
        ((t * (lengthTurn p + lengthPath p) - lengthTurn p) / lengthPath p))
    else
      voFin p t (turn (hpose frm) p.rh
        (if p.phi < 0 then -(t * (lengthTurn p + lengthPath p) / p.rh) else t * (lengthTurn p + lengthPath p) / p.rh))

/-- for `¬ 1 ≤ t`, `¬ t ≤ 0` the model's `voInterp` is its interior branch -/
theorem voInterp_interior (frm tgt : St5 α) (t : α) (p : VOPath α) (h1 : ¬ 1 ≤ t) (h0 : ¬ t ≤ 0) :
    voInterp frm tgt t p = voBranch frm t p := by
  unfold voInterp
  rw [if_neg h1, if_neg h0]
  rfl

/-! ## the five cases of the interior branch -/

theorem voBranch_low (frm : St5 α) (t : α) (p : VOPath α) (hphi : isZero p.phi = true) (hk : isZero p.k = true) :
    voBranch frm t p = voFin p t (interpPath p.rh (hpose frm) p.xy t) := by
  unfold voBranch
  rw [hphi, hk]
  rfl

theorem voBranch_high_word (frm : St5 α) (t : α) (p : VOPath α) (hphi : isZero p.phi = true)
    (hk : isZero p.k = false) (h : lengthSpiral p < t * (lengthSpiral p + lengthPath p)) :
    voBranch frm t p = voFin p t (interpPath p.rh (hpose frm) p.xy
      ((t * (lengthSpiral p + lengthPath p) - lengthSpiral p) / lengthPath p)) := by
  unfold voBranch
  rw [hphi, hk, if_pos rfl, if_neg (by decide), if_pos h]

theorem voBranch_high_spiral (frm : St5 α) (t : α) (p : VOPath α) (hphi : isZero p.phi = true)
    (hk : isZero p.k = false) (h : ¬ lengthSpiral p < t * (lengthSpiral p + lengthPath p)) :
    voBranch frm t p = voFin p t (turn (hpose frm) p.rh (t * (lengthSpiral p + lengthPath p) / p.rh)) := by
  unfold voBranch
  rw [hphi, hk, if_pos rfl, if_neg (by decide), if_neg h]

theorem voBranch_medium_word (frm : St5 α) (t : α) (p : VOPath α) (hphi : isZero p.phi = false)
    (h : lengthTurn p < t * (lengthTurn p + lengthPath p)) :
    voBranch frm t p = voFin p t (interpPath p.rh (turn (hpose frm) p.rh p.phi) p.xy
      ((t * (lengthTurn p + lengthPath p) - lengthTurn p) / lengthPath p)) := by
  unfold voBranch
  rw [hphi, if_neg (by decide), if_pos h]

theorem voBranch_medium_turn (frm : St5 α) (t : α) (p : VOPath α) (hphi : isZero p.phi = false)
    (h : ¬ lengthTurn p < t * (lengthTurn p + lengthPath p)) :
    voBranch frm t p = voFin p t (turn (hpose frm) p.rh
      (if p.phi < 0 then -(t * (lengthTurn p + lengthPath p) / p.rh) else t * (lengthTurn p + lengthPath p) / p.rh)) := by
  unfold voBranch
  rw [hphi, if_neg (by decide), if_neg h]

/-- the pose the horizontal word `pathXY_` is driven from: `from` (low and high altitude; the helix returns to it), or
`from` turned by `phi_` (medium altitude) -/
def voStart (frm : St5 α) (p : VOPath α) : Pose α :=
  if isZero p.phi then hpose frm else turn (hpose frm) p.rh p.phi

/-- the state the interior branch assembles with the whole profile and the whole horizontal word driven -/
def voEnd (frm : St5 α) (p : VOPath α) : St5 α :=
  voFin p 1 (interpPath p.rh (voStart frm p) p.xy 1)

theorem voStart_of_zero (frm : St5 α) (p : VOPath α) (hphi : isZero p.phi = true) : voStart frm p = hpose frm := by
  unfold voStart
  rw [hphi]
  rfl

theorem voStart_of_nonzero (frm : St5 α) (p : VOPath α) (hphi : isZero p.phi = false) :
    voStart frm p = turn (hpose frm) p.rh p.phi := by
  unfold voStart
  rw [hphi]
  rfl

theorem isZero_iff (x : α) : isZero x = true ↔ ¬ x < 0 ∧ ¬ 0 < x := by
  unfold isZero
  simp only [Bool.and_eq_true, Bool.not_eq_true', decide_eq_false_iff_not]

theorem category_of (p : VOPath α) (a b : Bool) (ha : isZero p.phi = a) (hb : isZero p.k = b) :
    p.category = (if a then (if b then "L" else "H") else (if b then "M" else "?")) := by
  unfold VOPath.category
  rw [ha, hb]

end
end OmplModel.VanaOwen
