import OmplModel.Proofs.DiscInv
/-!
`Discretization` obeys the C13 grid protocol; `selectMotion` returns a stored motion and is safe with respect to
empty queues (F3); the heap order is kept.  Core Lean only; arithmetic-free.
-/
namespace OmplModel.Disc
open OmplModel OmplModel.Grid OmplModel.Heap

variable {α : Type} [Num α] [HasLog α]

/-! ### each operation is at most one valid step of the C13 grid protocol -/

/-- the grid access of one `Discretization` operation: `tbl'` is the `cell->data` table the update event reads,
`gops` the protocol steps (at most one). -/
def GridAccess (P : Params α) (d d' : Disc α) : Prop :=
  ∃ (tbl' : List (Coord × CellData α)) (gops : List Grid.Op),
    d'.grid = gops.foldl (Grid.step (gcfg P tbl')) d.grid ∧ gops.length ≤ 1 ∧
    ∀ o ∈ gops, o.valid P.dim ∧
      (∀ x dd, o = .new x dd → has d.grid.cells x = false) ∧ (∀ x, o = .rm x → has d.grid.cells x = true)

theorem GridAccess.none {P : Params α} {d d' : Disc α} (h : d'.grid = d.grid) : GridAccess P d d' :=
  ⟨[], [], h, by simp, by intro o ho; cases ho⟩

theorem GridAccess.one {P : Params α} {d d' : Disc α} (tbl' : List (Coord × CellData α)) (o : Grid.Op)
    (h : d'.grid = Grid.step (gcfg P tbl') d.grid o) (hv : o.valid P.dim)
    (hn : ∀ x dd, o = .new x dd → has d.grid.cells x = false) (hr : ∀ x, o = .rm x → has d.grid.cells x = true) :
    GridAccess P d d' :=
  ⟨tbl', [o], h, by simp, by intro o' ho'; simp at ho'; subst ho'; exact ⟨hv, hn, hr⟩⟩

theorem select_access {P : Params α} (d : Disc α) (u : α) (pick : Nat → Nat) :
    GridAccess P d (select P d u pick).1 := by
  unfold select
  simp only []
  split
  · exact .none rfl
  · split
    · exact .none rfl
    · split
      · exact .none rfl
      · rename_i cd0 _
        by_cases hs : cd0.score < P.eps
        · simp only [if_pos hs]
          split
          · exact .one _ (.updAll []) rfl trivial (by intro x dd h; cases h) (by intro x h; cases h)
          · split
            · exact .one _ (.updAll []) rfl trivial (by intro x dd h; cases h) (by intro x h; cases h)
            · exact .one _ (.updAll []) rfl trivial (by intro x dd h; cases h) (by intro x h; cases h)
        · simp only [if_neg hs]
          split
          · exact .none rfl
          · split
            · exact .none rfl
            · exact .none rfl

theorem dstep_access {P : Params α} {d : Disc α} {live : Live} (h : DInv P d live) (op : DOp α)
    (hv : opValid P live op) : GridAccess P d (dstep P d op) := by
  cases op with
  | add m x dist =>
    show GridAccess P d (add P d m x dist).1
    unfold add
    cases hl : lookup d.cdata x with
    | some cd =>
      simp only []
      split
      · exact .one _ (.upd x 0) rfl trivial (by intro y dd h; cases h) (by intro y h; cases h)
      · exact .none rfl
    | none =>
      simp only []
      split
      · exact .none rfl
      · rename_i hh
        refine .one _ (.new x 0) rfl hv.1 ?_ (by intro y h; cases h)
        intro y dd he
        cases he
        simpa using hh
  | addW m x dist w off =>
    show GridAccess P d (add P d m x dist w off).1
    unfold add
    cases hl : lookup d.cdata x with
    | some cd =>
      simp only []
      split
      · exact .one _ (.upd x 0) rfl trivial (by intro y dd h; cases h) (by intro y h; cases h)
      · exact .none rfl
    | none =>
      simp only []
      split
      · exact .none rfl
      · rename_i hh
        refine .one _ (.new x 0) rfl hv.1 ?_ (by intro y h; cases h)
        intro y dd he
        cases he
        simpa using hh
  | select u pick => exact select_access d u pick
  | updScore x s =>
    show GridAccess P d (updScore P d x s)
    unfold updScore
    split
    · exact .one _ (.upd x 0) rfl trivial (by intro y dd h; cases h) (by intro y h; cases h)
    · exact .none rfl
  | remove m x =>
    show GridAccess P d (remove P d m x).1
    unfold remove
    cases hl : lookup d.cdata x with
    | none => exact .none rfl
    | some cd =>
      simp only []
      split
      · have hxk : x ∈ keys d.cdata :=
          Classical.byContradiction (fun hn => by rw [lookup_none_iff.2 hn] at hl; cases hl)
        refine .one _ (.rm x) rfl trivial (by intro y dd h; cases h) ?_
        intro y he; cases he
        exact (h.has_iff x).2 hxk
      · exact .none rfl
  | countIteration => exact .none rfl
  | setBorderFraction bp =>
    show GridAccess P d (setBorderFraction P d bp).1
    unfold setBorderFraction
    split <;> exact .none rfl
  | clear => exact .one d.cdata .clear rfl trivial (by intro y dd h; cases h) (by intro y h; cases h)

/-! ### heap order -/

/-- `OrderCellsByImportance` is a strict weak order on the importances that occur (no NaN) -/
def FunctorOK (P : Params α) : Prop := StrictWeak (fun a b : Int => decide (P.dec b < P.dec a))

theorem cmpOK {P : Params α} (h : FunctorOK P) (tbl : List (Coord × CellData α)) : CmpOK (gcfg P tbl) := ⟨h, h⟩

theorem dstep_ordered {P : Params α} (hf : FunctorOK P) {d : Disc α} {live : Live} (h : DInv P d live) (op : DOp α)
    (hv : opValid P live op) (ho : Ordered (gcfg P d.cdata) d.grid) :
    Ordered (gcfg P (dstep P d op).cdata) (dstep P d op).grid := by
  obtain ⟨tbl', gops, hg, _, _⟩ := dstep_access h op hv
  rw [hg]
  have : ∀ (gops : List Grid.Op) (g : GridB), Ordered (gcfg P tbl') g →
      Ordered (gcfg P tbl') (gops.foldl (Grid.step (gcfg P tbl')) g) := by
    intro gops
    induction gops with
    | nil => intro g hh; exact hh
    | cons o os ih => intro g hh; exact ih _ (step_ordered (cmpOK hf tbl') o hh)
  exact this gops d.grid ho

theorem drun_ordered {P : Params α} (hf : FunctorOK P) (bf : α) (ops : List (DOp α)) (hv : validFrom P [] ops) :
    Ordered (gcfg P (drun P bf ops).cdata) (drun P bf ops).grid := by
  have : ∀ (ops : List (DOp α)) (d : Disc α) (live : Live), DInv P d live → validFrom P live ops →
      Ordered (gcfg P d.cdata) d.grid →
      Ordered (gcfg P (ops.foldl (dstep P) d).cdata) (ops.foldl (dstep P) d).grid := by
    intro ops
    induction ops with
    | nil => intro d live _ _ ho; exact ho
    | cons op ops ih =>
      intro d live h hv ho
      exact ih _ _ (dstep_inv h op hv.1) hv.2 (dstep_ordered hf h op hv.1 ho)
  exact this ops _ [] (empty_inv P bf) hv ⟨Heap.empty_ordered _, Heap.empty_ordered _⟩

/-! ### `selectMotion` -/

theorem cells_ne_nil {P : Params α} {d : Disc α} {live : Live} (h : DInv P d live) (hl : live ≠ []) :
    d.grid.cells ≠ [] := by
  intro hc
  cases live with
  | nil => exact hl rfl
  | cons p ps =>
    have := h.cov p (by simp)
    rw [← h.sync, hc] at this
    cases this

/-- both tops answer a present cell as soon as the grid is not empty -/
theorem top_some {P : Params α} {d : Disc α} {live : Live} (h : DInv P d live) (hl : live ≠ []) :
    (∃ c ∈ d.grid.cells, topExternal d.grid = some c.id) ∧ (∃ c ∈ d.grid.cells, topInternal d.grid = some c.id) := by
  have hne := cells_ne_nil h hl
  obtain ⟨hE, hI, hEn, hIn⟩ := h.ginv.top_mem
  have hboth : ¬ (d.grid.external.top = none ∧ d.grid.internal.top = none) := by
    rintro ⟨h1, h2⟩
    cases hcs : d.grid.cells with
    | nil => exact hne hcs
    | cons c cs =>
      have hc : c ∈ d.grid.cells := by rw [hcs]; simp
      have a := hEn h1 c hc
      have b := hIn h2 c hc
      rw [a] at b; cases b
  constructor
  · unfold topExternal
    cases he : d.grid.external.top with
    | some e => obtain ⟨c, hc, _, hid⟩ := hE e he; exact ⟨c, hc, by simp [hid]⟩
    | none =>
      cases hi : d.grid.internal.top with
      | some e => obtain ⟨c, hc, _, hid⟩ := hI e hi; exact ⟨c, hc, by simp [hid]⟩
      | none => exact absurd ⟨he, hi⟩ hboth
  · unfold topInternal
    cases hi : d.grid.internal.top with
    | some e => obtain ⟨c, hc, _, hid⟩ := hI e hi; exact ⟨c, hc, by simp [hid]⟩
    | none =>
      cases he : d.grid.external.top with
      | some e => obtain ⟨c, hc, _, hid⟩ := hE e he; exact ⟨c, hc, by simp [hid]⟩
      | none => exact absurd ⟨he, hi⟩ hboth

/-- `selectMotion` on a non-empty discretization returns a motion that was added and not removed, together with
the cell of its coordinate -- for every value of the two random draws within their contracts. -/
theorem select_returns_live {P : Params α} {d : Disc α} {live : Live} (h : DInv P d live) (hl : live ≠ [])
    (u : α) (pick : Nat → Nat) (hpick : ∀ n, 0 < n → pick n < n) :
    ∃ m x, (select P d u pick).2 = some (m, x) ∧ (m, x) ∈ live := by
  suffices hs : ∃ r, (select P d u pick).2 = some r by
    obtain ⟨⟨m, x⟩, hr⟩ := hs
    exact ⟨m, x, hr, (select_inv h u pick).2 m x hr⟩
  obtain ⟨⟨cE, hcE, htE⟩, ⟨cI, hcI, htI⟩⟩ := top_some h hl
  have htop : ∃ c ∈ d.grid.cells,
      (if wantsExternal d u then topExternal d.grid else topInternal d.grid) = some c.id := by
    split
    · exact ⟨cE, hcE, htE⟩
    · exact ⟨cI, hcI, htI⟩
  obtain ⟨c0, hc0, ht⟩ := htop
  unfold select
  simp only [ht]
  -- the cell found by id
  cases hf : d.grid.cells.find? (fun c => c.id == c0.id) with
  | none =>
    have := List.find?_eq_none.1 hf c0 hc0
    simp at this
  | some c =>
    have hcm : c ∈ d.grid.cells := List.mem_of_find?_eq_some hf
    have hck : c.coord ∈ keys d.cdata := by rw [← h.sync]; exact List.mem_map.2 ⟨c, hcm, rfl⟩
    simp only []
    cases hl0 : lookup d.cdata c.coord with
    | none => exact absurd hck (lookup_none_iff.1 hl0)
    | some cd0 =>
      simp only []
      have h1 : DInv P (if cd0.score < P.eps then
          { d with cdata := bumpScores d.cdata,
                   grid := Grid.step (gcfg P (bumpScores d.cdata)) d.grid (.updAll []) } else d) live := by
        split
        · exact bump_inv h
        · exact h
      have hck1 : c.coord ∈ keys (if cd0.score < P.eps then
          { d with cdata := bumpScores d.cdata,
                   grid := Grid.step (gcfg P (bumpScores d.cdata)) d.grid (.updAll []) } else d).cdata := by
        split
        · show c.coord ∈ keys (bumpScores d.cdata)
          have : keys (bumpScores d.cdata) = keys d.cdata := by unfold keys bumpScores; rw [List.map_map]; rfl
          rw [this]; exact hck
        · exact hck
      cases hl1 : lookup (if cd0.score < P.eps then
          { d with cdata := bumpScores d.cdata,
                   grid := Grid.step (gcfg P (bumpScores d.cdata)) d.grid (.updAll []) } else d).cdata c.coord with
      | none => exact absurd hck1 (lookup_none_iff.1 hl1)
      | some cd =>
        simp only []
        have hne := (h1.lookup_mot hl1).2
        have hlen : 0 < cd.motions.length := List.length_pos_iff.2 hne
        have hlt := hpick _ hlen
        cases hg : cd.motions[pick cd.motions.length]? with
        | none => rw [List.getElem?_eq_none_iff] at hg; omega
        | some m => exact ⟨_, rfl⟩

/-- F3 inside `selectMotion`.  With a positive dimension (no bounds, default limit) a non-empty discretization always
has a border cell, so the external queue is never empty: `topExternal()` never runs on an empty queue, and the only
way `selectMotion` reaches the top of an EMPTY queue is `topInternal()` with no interior cell, when the draw is not
below `max(borderFraction, fracExternal)`; there the (repaired) fallback answers the external top. -/
theorem select_empty_side {P : Params α} {d : Disc α} {live : Live} (h : DInv P d live) (hl : live ≠ [])
    (hd : 0 < P.dim) (u : α) :
    d.grid.external.top ≠ none ∧
    (wantsExternal d u = false → d.grid.internal.top = none →
      topInternal d.grid = topExternal d.grid ∧ ∃ c ∈ d.grid.cells, c.border = true ∧ topInternal d.grid = some c.id) := by
  have hne := cells_ne_nil h hl
  have hext : d.grid.external.top ≠ none := external_nonempty h.ginv rfl rfl hd hne
  refine ⟨hext, ?_⟩
  intro _ hi
  obtain ⟨hE, _, _, _⟩ := h.ginv.top_mem
  cases he : d.grid.external.top with
  | none => exact absurd he hext
  | some e =>
    obtain ⟨c, hc, hb, hid⟩ := hE e he
    have h1 : topInternal d.grid = some e.key.2 := by unfold topInternal; rw [hi, he]; rfl
    have h2 : topExternal d.grid = some e.key.2 := by unfold topExternal; rw [he]
    exact ⟨h1.trans h2.symm, c, hc, hb, by rw [h1, hid]⟩

/-- a stored motion sits in the cell of its coordinate and in no other -/
theorem mem_cell_iff {P : Params α} {d : Disc α} {live : Live} (h : DInv P d live) {m : Nat} {x : Coord}
    (hm : (m, x) ∈ live) {e : Coord × CellData α} (he : e ∈ d.cdata) : m ∈ e.2.motions ↔ e.1 = x := by
  rw [(h.mot e he).1]
  unfold motionsAt
  constructor
  · intro hmem
    obtain ⟨p, hp, hpm⟩ := List.mem_map.1 hmem
    obtain ⟨hpl, hpx⟩ := List.mem_filter.1 hp
    have : p = (m, x) := eq_of_nodup_map (·.1) live h.lnd hpl hm hpm
    rw [← (by simpa using hpx : p.2 = e.1), this]
  · intro hex
    exact List.mem_map.2 ⟨(m, x), List.mem_filter.2 ⟨hm, by simp [hex]⟩, rfl⟩

end OmplModel.Disc
