import OmplModel.Model.GridN
import OmplModel.Proofs.GridSteps
/-!
Plain `GridN` with the split protocol: the neighbour counters are exact after every history, including histories that
create a cell and give it back without adding it.  Core Lean only.
-/
namespace OmplModel.GridN
open OmplModel.Grid

/-- the contribution of the created-but-not-yet-added cell to the counter of the cell at `z` -/
def pend (cfg : Cfg) (g : GridN) (z : Coord) : Nat :=
  match g.pending with
  | some p => if p.coord ∈ neighborCoords cfg.dim z then 1 else 0
  | none => 0

structure NInv (cfg : Cfg) (g : GridN) : Prop where
  nodup : (g.cells.map (·.coord)).Nodup
  len : ∀ c ∈ g.cells, c.coord.length = cfg.dim
  count : ∀ c ∈ g.cells, c.nbrs = cnt cfg g.cells c.coord + pend cfg g c.coord
  border : ∀ c ∈ g.cells, c.border = decide (c.nbrs < cfg.limit)
  pending : ∀ p, g.pending = some p → has g.cells p.coord = false ∧ p.coord.length = cfg.dim ∧
    p.nbrs = cnt cfg g.cells p.coord ∧ p.border = decide (p.nbrs < cfg.limit)

theorem map_coord_touchAll (f : Cell → Cell) (hf : ∀ c, (f c).coord = c.coord) (dim : Nat) (cells : List Cell) (x : Coord) :
    (touchAll f dim cells x).map (·.coord) = cells.map (·.coord) := by
  unfold touchAll
  rw [List.map_map]
  apply List.map_congr_left
  intro c _
  simp only [Function.comp]
  split
  · exact hf c
  · rfl

theorem mem_touchAll {f : Cell → Cell} {dim : Nat} {cells : List Cell} {x : Coord} {c' : Cell}
    (h : c' ∈ touchAll f dim cells x) :
    ∃ c ∈ cells, c' = if (neighborCoords dim x).contains c.coord then f c else c := by
  unfold touchAll at h
  obtain ⟨c, hc, rfl⟩ := List.mem_map.1 h
  exact ⟨c, hc, rfl⟩

theorem incCell_border {limit : Nat} {c : Cell} (hb : c.border = decide (c.nbrs < limit)) :
    (incCell limit c).border = decide ((incCell limit c).nbrs < limit) := by
  show (if c.border && decide (c.nbrs + 1 ≥ limit) then false else c.border) = decide (c.nbrs + 1 < limit)
  rw [hb]
  by_cases h1 : c.nbrs < limit <;> by_cases h2 : c.nbrs + 1 < limit <;> simp [h1, h2] <;> omega

theorem decCell_spec {limit : Nat} {c : Cell} (hb : c.border = decide (c.nbrs < limit)) (hpos : 0 < c.nbrs) :
    (decCell limit c).border = decide ((decCell limit c).nbrs < limit) ∧ (decCell limit c).nbrs + 1 = c.nbrs := by
  have hd : decr c.nbrs = c.nbrs - 1 := by unfold decr; rw [if_neg (by omega)]
  refine ⟨?_, ?_⟩
  · show (if !c.border && decide (decr c.nbrs < limit) then true else c.border) = decide (decr c.nbrs < limit)
    rw [hb, hd]
    by_cases h1 : c.nbrs < limit <;> by_cases h2 : c.nbrs - 1 < limit <;> simp [h1, h2] <;> omega
  · show decr c.nbrs + 1 = c.nbrs
    rw [hd]; omega

theorem adj_symm {dim : Nat} {x y : Coord} (hx : x.length = dim) (hy : y.length = dim) :
    y ∈ neighborCoords dim x ↔ x ∈ neighborCoords dim y :=
  ⟨neighborCoords_symm hx, neighborCoords_symm hy⟩

theorem createCell_inv {cfg : Cfg} {g : GridN} (h : NInv cfg g) {x : Coord} (d : Int) (hx : x.length = cfg.dim)
    (hp : g.pending = none) (habs : has g.cells x = false) : NInv cfg (createCell cfg g x d) := by
  have hm : (touchAll (incCell cfg.limit) cfg.dim g.cells x).map (·.coord) = g.cells.map (·.coord) :=
    map_coord_touchAll (incCell cfg.limit) (fun _ => rfl) _ _ _
  have hpend0 : ∀ z, pend cfg g z = 0 := by intro z; unfold pend; rw [hp]
  unfold createCell
  refine ⟨?_, ?_, ?_, ?_, ?_⟩
  · show ((touchAll _ _ _ _).map (·.coord)).Nodup
    rw [hm]; exact h.nodup
  · intro c' hc'
    obtain ⟨c, hc, rfl⟩ := mem_touchAll hc'
    have := h.len c hc
    split <;> exact this
  · intro c' hc'
    obtain ⟨c, hc, rfl⟩ := mem_touchAll hc'
    have hcn := h.count c hc
    rw [hpend0] at hcn
    have hiff : (neighborCoords cfg.dim x).contains c.coord = true ↔ x ∈ neighborCoords cfg.dim c.coord := by
      rw [List.contains_iff_mem]; exact adj_symm hx (h.len c hc)
    show (if (neighborCoords cfg.dim x).contains c.coord then incCell cfg.limit c else c).nbrs =
      cnt cfg (touchAll _ _ _ _) (if (neighborCoords cfg.dim x).contains c.coord then incCell cfg.limit c else c).coord + _
    rw [cnt_congr hm]
    unfold pend
    simp only []
    by_cases hadj : (neighborCoords cfg.dim x).contains c.coord = true
    · simp only [hadj, if_true]
      show c.nbrs + 1 = cnt cfg g.cells c.coord + (if x ∈ neighborCoords cfg.dim c.coord then 1 else 0)
      rw [if_pos (hiff.1 hadj)]; omega
    · simp only [hadj, Bool.false_eq_true, if_false]
      rw [if_neg (fun hh => hadj (hiff.2 hh))]; omega
  · intro c' hc'
    obtain ⟨c, hc, rfl⟩ := mem_touchAll hc'
    split
    · exact incCell_border (h.border c hc)
    · exact h.border c hc
  · intro p hpp
    simp only [Option.some.injEq] at hpp
    subst hpp
    refine ⟨?_, hx, ?_, not_ge_eq_lt _ _⟩
    · show has (touchAll _ _ _ _) x = false
      rw [has_congr hm]; exact habs
    · show boundaryDims cfg x + (neighbors cfg.dim g.cells x).length = cnt cfg (touchAll _ _ _ _) x
      rw [cnt_congr hm, cnt_eq_neighbors]; omega

theorem addPending_inv {cfg : Cfg} {g : GridN} (h : NInv cfg g) : NInv cfg (addPending g) := by
  unfold addPending
  cases hp : g.pending with
  | none => simp only []; exact h
  | some p =>
    simp only []
    obtain ⟨habs, hlen, hn, hb⟩ := h.pending p hp
    have hadd : addCell g.cells p = g.cells ++ [p] := by unfold addCell; rw [habs]; simp
    rw [hadd]
    have hxn : p.coord ∉ g.cells.map (·.coord) := by
      rw [has_eq_decide_mem] at habs; simpa using habs
    refine ⟨?_, ?_, ?_, ?_, ?_⟩
    · show ((g.cells ++ [p]).map (·.coord)).Nodup
      rw [List.map_append, List.nodup_append]
      refine ⟨h.nodup, by simp, ?_⟩
      intro a ha b hb' hab
      simp at hb'
      subst hb'; subst hab
      exact hxn ha
    · intro c hc
      rcases List.mem_append.1 hc with hc | hc
      · exact h.len c hc
      · simp at hc; subst hc; exact hlen
    · intro c hc
      show c.nbrs = cnt cfg (g.cells ++ [p]) c.coord + pend cfg { g with cells := g.cells ++ [p], pending := none } c.coord
      have hp0 : pend cfg { g with cells := g.cells ++ [p], pending := none } c.coord = 0 := rfl
      rw [hp0]
      rcases List.mem_append.1 hc with hc | hc
      · rw [cnt_append_absent cfg g.cells p c.coord habs (h.len c hc), h.count c hc]
        unfold pend; rw [hp]; simp only []; omega
      · simp at hc; subst hc
        rw [cnt_append_absent cfg g.cells c c.coord habs hlen, if_neg (not_self_mem_neighborCoords hlen), hn]; omega
    · intro c hc
      rcases List.mem_append.1 hc with hc | hc
      · exact h.border c hc
      · simp at hc; subst hc; exact hb
    · intro q hq; cases hq

/-- the neighbour loop of `remove`, given that every adjacent cell of the grid has a positive counter -/
theorem touchDec_facts {cfg : Cfg} {cells : List Cell} {x : Coord}
    (hb : ∀ c ∈ cells, c.border = decide (c.nbrs < cfg.limit))
    (hpos : ∀ c ∈ cells, (neighborCoords cfg.dim x).contains c.coord = true → 0 < c.nbrs) :
    ∀ c' ∈ touchAll (decCell cfg.limit) cfg.dim cells x, ∃ c ∈ cells, c'.coord = c.coord ∧
      c'.border = decide (c'.nbrs < cfg.limit) ∧
      c'.nbrs + (if (neighborCoords cfg.dim x).contains c.coord then 1 else 0) = c.nbrs := by
  intro c' hc'
  obtain ⟨c, hc, rfl⟩ := mem_touchAll hc'
  refine ⟨c, hc, ?_⟩
  by_cases hadj : (neighborCoords cfg.dim x).contains c.coord = true
  · rw [if_pos hadj, if_pos hadj]
    obtain ⟨h1, h2⟩ := decCell_spec (hb c hc) (hpos c hc hadj)
    exact ⟨rfl, h1, h2⟩
  · rw [if_neg hadj, if_neg hadj]
    exact ⟨rfl, hb c hc, by omega⟩

theorem abandon_inv {cfg : Cfg} {g : GridN} (h : NInv cfg g) : NInv cfg (abandon cfg g).1 := by
  unfold abandon
  cases hp : g.pending with
  | none => simp only []; exact h
  | some p =>
    simp only []
    obtain ⟨habs, hlen, _, _⟩ := h.pending p hp
    have hm : (touchAll (decCell cfg.limit) cfg.dim g.cells p.coord).map (·.coord) = g.cells.map (·.coord) :=
      map_coord_touchAll (decCell cfg.limit) (fun _ => rfl) _ _ _
    have hhas : has (touchAll (decCell cfg.limit) cfg.dim g.cells p.coord) p.coord = false := by
      rw [has_congr hm]; exact habs
    have hiff : ∀ c ∈ g.cells, ((neighborCoords cfg.dim p.coord).contains c.coord = true ↔
        p.coord ∈ neighborCoords cfg.dim c.coord) := by
      intro c hc; rw [List.contains_iff_mem]; exact adj_symm hlen (h.len c hc)
    have hfacts := touchDec_facts (cfg := cfg) (x := p.coord) h.border (by
      intro c hc hadj
      have := h.count c hc
      unfold pend at this; rw [hp] at this
      simp only [] at this
      rw [if_pos ((hiff c hc).1 hadj)] at this
      omega)
    unfold removeAt
    simp only [hhas, Bool.false_eq_true, if_false]
    refine ⟨?_, ?_, ?_, ?_, ?_⟩
    · show ((touchAll _ _ _ _).map (·.coord)).Nodup
      rw [hm]; exact h.nodup
    · intro c' hc'
      obtain ⟨c, hc, e1, _, _⟩ := hfacts c' hc'
      rw [e1]; exact h.len c hc
    · intro c' hc'
      obtain ⟨c, hc, e1, _, e3⟩ := hfacts c' hc'
      show c'.nbrs = cnt cfg (touchAll _ _ _ _) c'.coord + 0
      rw [cnt_congr hm, e1]
      have := h.count c hc
      unfold pend at this; rw [hp] at this
      simp only [] at this
      by_cases hadj : (neighborCoords cfg.dim p.coord).contains c.coord = true
      · rw [if_pos hadj] at e3; rw [if_pos ((hiff c hc).1 hadj)] at this; omega
      · rw [if_neg hadj] at e3; rw [if_neg (fun hh => hadj ((hiff c hc).2 hh))] at this; omega
    · intro c' hc'
      obtain ⟨_, _, _, e2, _⟩ := hfacts c' hc'
      exact e2
    · intro q hq; cases hq

theorem removeCell_inv {cfg : Cfg} {g : GridN} (h : NInv cfg g) {x : Coord} (hp : g.pending = none)
    (hpres : has g.cells x = true) : NInv cfg (removeCell cfg g x).1 := by
  obtain ⟨c0, hc0, hc0x⟩ := has_iff.1 hpres
  have hx : x.length = cfg.dim := hc0x ▸ h.len c0 hc0
  have hm : (touchAll (decCell cfg.limit) cfg.dim g.cells x).map (·.coord) = g.cells.map (·.coord) :=
    map_coord_touchAll (decCell cfg.limit) (fun _ => rfl) _ _ _
  have hhas : has (touchAll (decCell cfg.limit) cfg.dim g.cells x) x = true := by
    rw [has_congr hm]; exact hpres
  have hpend0 : ∀ z, pend cfg g z = 0 := by intro z; unfold pend; rw [hp]
  have hiff : ∀ c ∈ g.cells, ((neighborCoords cfg.dim x).contains c.coord = true ↔ x ∈ neighborCoords cfg.dim c.coord) := by
    intro c hc; rw [List.contains_iff_mem]; exact adj_symm hx (h.len c hc)
  have hfacts := touchDec_facts (cfg := cfg) (x := x) h.border (by
    intro c hc hadj
    have := h.count c hc
    rw [hpend0] at this
    have hpos : 0 < (neighborCoords cfg.dim c.coord).countP (has g.cells) :=
      List.countP_pos_iff.2 ⟨x, (hiff c hc).1 hadj, hpres⟩
    unfold cnt at this
    omega)
  have hsub : (eraseCoord (touchAll (decCell cfg.limit) cfg.dim g.cells x) x).Sublist
      (touchAll (decCell cfg.limit) cfg.dim g.cells x) := List.filter_sublist
  unfold removeCell removeAt
  simp only [hhas, if_true]
  refine ⟨?_, ?_, ?_, ?_, ?_⟩
  · show ((eraseCoord _ x).map (·.coord)).Nodup
    exact (hsub.map _).nodup (by rw [hm]; exact h.nodup)
  · intro c' hc'
    obtain ⟨c, hc, e1, _, _⟩ := hfacts c' (hsub.subset hc')
    rw [e1]; exact h.len c hc
  · intro c' hc'
    obtain ⟨c, hc, e1, _, e3⟩ := hfacts c' (hsub.subset hc')
    show c'.nbrs = cnt cfg (eraseCoord _ x) c'.coord + pend cfg { g with cells := eraseCoord _ x } c'.coord
    have hp0 : pend cfg { g with cells := eraseCoord (touchAll (decCell cfg.limit) cfg.dim g.cells x) x } c'.coord = 0 := by
      unfold pend; simp only [hp]
    rw [hp0, e1]
    have h1 := cnt_erase_present cfg (touchAll (decCell cfg.limit) cfg.dim g.cells x) x c.coord hhas (h.len c hc)
    rw [cnt_congr hm] at h1
    have h2 := h.count c hc
    rw [hpend0] at h2
    by_cases hadj : (neighborCoords cfg.dim x).contains c.coord = true
    · rw [if_pos hadj] at e3; rw [if_pos ((hiff c hc).1 hadj)] at h1; omega
    · rw [if_neg hadj] at e3; rw [if_neg (fun hh => hadj ((hiff c hc).2 hh))] at h1; omega
  · intro c' hc'
    obtain ⟨_, _, _, e2, _⟩ := hfacts c' (hsub.subset hc')
    exact e2
  · intro q hq
    have : (({ g with cells := eraseCoord (touchAll (decCell cfg.limit) cfg.dim g.cells x) x } : GridN)).pending = none := hp
    rw [this] at hq; cases hq

/-- a `create` names a coordinate of `dim` entries -/
def Op.valid (dim : Nat) : Op → Prop
  | .create x _ => x.length = dim
  | _ => True

theorem step_inv {cfg : Cfg} {g : GridN} (h : NInv cfg g) (op : Op) (hv : op.valid cfg.dim) : NInv cfg (step cfg g op) := by
  cases op with
  | create x d =>
    show NInv cfg (if g.pending.isSome || has g.cells x then g else createCell cfg g x d)
    split
    · exact h
    · rename_i hc
      simp only [Bool.or_eq_true, not_or, Bool.not_eq_true, Option.isSome_eq_false_iff, Option.isNone_iff_eq_none] at hc
      exact createCell_inv h d hv hc.1 hc.2
  | add => exact addPending_inv h
  | abandon => exact abandon_inv h
  | rm x =>
    show NInv cfg (if g.pending.isSome || !has g.cells x then g else (removeCell cfg g x).1)
    split
    · exact h
    · rename_i hc
      simp only [Bool.or_eq_true, not_or, Bool.not_eq_true, Option.isSome_eq_false_iff, Option.isNone_iff_eq_none,
        Bool.not_eq_true', Bool.not_eq_false] at hc
      exact removeCell_inv h hc.1 hc.2

theorem run_inv (cfg : Cfg) (ops : List Op) (hv : ∀ op ∈ ops, op.valid cfg.dim) : NInv cfg (run cfg ops) := by
  unfold run
  have : ∀ (ops : List Op) (g : GridN), (∀ op ∈ ops, op.valid cfg.dim) → NInv cfg g → NInv cfg (ops.foldl (step cfg) g) := by
    intro ops
    induction ops with
    | nil => intro g _ h; exact h
    | cons op ops ih =>
      intro g hv h
      exact ih _ (fun o ho => hv o (List.mem_cons_of_mem _ ho)) (step_inv h op (hv op List.mem_cons_self))
  refine this ops {} hv ⟨by simp, by simp, by simp, by simp, ?_⟩
  intro p hp; cases hp

end OmplModel.GridN
