import OmplModel.Proofs.RSWords
import OmplModel.Proofs.RSWordsBack
/-!
[EX] the CCSC base words (formulas 8.9 and 8.10 of the Reeds–Shepp paper as coded: `LpRmSmLm`, `LpRmSmRm`)
reach the goal, and so do all sixteen CCSC candidates: the four images of each, and the four
"backwards" images of each (C14, round 2).  The exact versions of the `assert`s in the two solvers.
-/
namespace OmplModel.RS
open OmplModel OmplModel.Dubins DubinsR RSR
attribute [-instance] Num.instOfNat
set_option linter.unnecessarySeqFocus false

theorem segList_bCCSC (ty : Nat) (t u v : ℝ) :
    (bCCSC ty false t u v).segList = (rsType ty).zip [t, -(Real.pi / 2), u, v, 0] := by
  simp [RSPath.segList, RSPath.lens, bCCSC, sg]

/-- end pose of `L t · R (-π/2) · S u · L v` from the origin -/
theorem end_LRSL (t u v : ℝ) :
    rsIntegFull (bCCSC 4 false t u v).segList ⟨0, 0, 0⟩ =
      ⟨2 * Real.sin t - 2 * Real.cos t - u * Real.sin t + Real.sin (t + Real.pi / 2 + v),
       1 - 2 * Real.cos t - 2 * Real.sin t + u * Real.cos t - Real.cos (t + Real.pi / 2 + v),
       t + Real.pi / 2 + v⟩ := by
  simp only [segList_bCCSC, rsType, List.zip_cons_cons, List.zip_nil_right, rsIntegFull, rsStep_eq_L,
    rsStep_eq_S, rsStep_eq_R, rsStep_eq_N, stepFwd_L, stepFwd_S, stepFwd_R, zero_add, Real.sin_zero,
    Real.cos_zero, sub_neg_eq_add, Real.sin_add_pi_div_two, Real.cos_add_pi_div_two]
  congr 1 <;> ring

/-- end pose of `L t · R (-π/2) · S u · R v` from the origin -/
theorem end_LRSR (t u v : ℝ) :
    rsIntegFull (bCCSC 8 false t u v).segList ⟨0, 0, 0⟩ =
      ⟨2 * Real.sin t - u * Real.sin t - Real.sin (t + Real.pi / 2 - v),
       1 - 2 * Real.cos t + u * Real.cos t + Real.cos (t + Real.pi / 2 - v),
       t + Real.pi / 2 - v⟩ := by
  simp only [segList_bCCSC, rsType, List.zip_cons_cons, List.zip_nil_right, rsIntegFull, rsStep_eq_L,
    rsStep_eq_S, rsStep_eq_R, rsStep_eq_N, stepFwd_L, stepFwd_S, stepFwd_R, zero_add, Real.sin_zero,
    Real.cos_zero, sub_neg_eq_add, Real.sin_add_pi_div_two, Real.cos_add_pi_div_two]
  congr 1 <;> ring

/-- formula 8.9 reaches the goal (the three `assert`s of `LpRmSmLm`, exactly) -/
theorem LpRmSmLm_reaches (x y phi t u v : ℝ) (h : LpRmSmLm x y phi = some (t, u, v)) :
    Reaches (bCCSC 4 false t u v) x y phi := by
  unfold LpRmSmLm polar at h
  simp only [sin_eq, cos_eq, sqrt_eq, atan2_eq, ofNat_one, ofNat_two, ofNat_four, rhalf_eq, rpi_eq] at h
  split at h
  case isFalse => cases h
  rename_i hguard
  split at h
  case isFalse => cases h
  simp only [Option.some.injEq, Prod.mk.injEq] at h
  obtain ⟨rfl, rfl, rfl⟩ := h
  set X := x - Real.sin phi with hX
  set Y := y - 1 + Real.cos phi with hY
  have hρ0 := Real.sqrt_nonneg (X * X + Y * Y)
  have hsq : Real.sqrt (X * X + Y * Y) * Real.sqrt (X * X + Y * Y) = X ^ 2 + Y ^ 2 := by
    rw [Real.mul_self_sqrt (add_nonneg (mul_self_nonneg _) (mul_self_nonneg _))]; ring
  have h4 : 4 ≤ X ^ 2 + Y ^ 2 := by rw [← hsq]; nlinarith
  rw [hsq]
  have hu2 : X ^ 2 + Y ^ 2 = (-2) ^ 2 + Real.sqrt (X ^ 2 + Y ^ 2 - 4) ^ 2 := by
    rw [Real.sq_sqrt (by linarith)]; ring
  obtain ⟨hx, hy⟩ := csc_rot_add X Y (-2) (Real.sqrt (X ^ 2 + Y ^ 2 - 4)) hu2
  generalize Real.sqrt (X ^ 2 + Y ^ 2 - 4) = r at *
  generalize Complex.arg ⟨X, Y⟩ + Complex.arg ⟨-2, r⟩ = θ at *
  obtain ⟨k1, hk1⟩ := rmod2pi_exact θ
  generalize rmod2pi θ = t at *
  obtain ⟨k2, hk2⟩ := rmod2pi_exact (phi - 1 / 2 * Real.pi - t)
  generalize rmod2pi (phi - 1 / 2 * Real.pi - t) = v at *
  unfold Reaches
  rw [end_LRSL]
  have e1 : t = θ + k1 * (2 * Real.pi) := hk1
  have e2 : t + Real.pi / 2 + v = phi + k2 * (2 * Real.pi) := by rw [hk2]; ring
  refine ⟨?_, ?_, k2, e2⟩
  · show 2 * Real.sin t - 2 * Real.cos t - (2 - r) * Real.sin t + Real.sin (t + Real.pi / 2 + v) = x
    rw [sin_shift e2, sin_shift e1, cos_shift e1]; linear_combination hx + hX
  · show 1 - 2 * Real.cos t - 2 * Real.sin t + (2 - r) * Real.cos t - Real.cos (t + Real.pi / 2 + v) = y
    rw [cos_shift e2, sin_shift e1, cos_shift e1]; linear_combination hy + hY

/-- formula 8.10 reaches the goal (the three `assert`s of `LpRmSmRm`, exactly) -/
theorem LpRmSmRm_reaches (x y phi t u v : ℝ) (h : LpRmSmRm x y phi = some (t, u, v)) :
    Reaches (bCCSC 8 false t u v) x y phi := by
  unfold LpRmSmRm polar at h
  simp only [sin_eq, cos_eq, sqrt_eq, atan2_eq, ofNat_one, ofNat_two, rhalf_eq, rpi_eq] at h
  split at h
  case isFalse => cases h
  split at h
  case isFalse => cases h
  simp only [Option.some.injEq, Prod.mk.injEq] at h
  obtain ⟨rfl, rfl, rfl⟩ := h
  set X := x + Real.sin phi with hX
  set Y := y - 1 - Real.cos phi with hY
  obtain ⟨hc, hs⟩ := Dubins.polar (-Y) X
  rw [show -Y * -Y + X * X = (-Y) ^ 2 + X ^ 2 by ring]
  generalize Real.sqrt ((-Y) ^ 2 + X ^ 2) = ρ at *
  generalize Complex.arg ⟨-Y, X⟩ = t at *
  obtain ⟨k2, hk2⟩ := rmod2pi_exact (t + 1 / 2 * Real.pi - phi)
  generalize rmod2pi (t + 1 / 2 * Real.pi - phi) = v at *
  unfold Reaches
  rw [end_LRSR]
  have e2 : t + Real.pi / 2 - v = phi + ((-k2 : ℤ) : ℝ) * (2 * Real.pi) := by rw [hk2]; push_cast; ring
  refine ⟨?_, ?_, -k2, e2⟩
  · show 2 * Real.sin t - (2 - ρ) * Real.sin t - Real.sin (t + Real.pi / 2 - v) = x
    rw [sin_shift e2]; linear_combination hs + hX
  · show 1 - 2 * Real.cos t + (2 - ρ) * Real.cos t + Real.cos (t + Real.pi / 2 - v) = y
    rw [cos_shift e2]; linear_combination (-1 : ℝ) * hc + hY

/-! ## the sixteen candidates -/

theorem bCCSC_ty (ty : Nat) (f : Bool) (t u v : ℝ) : (bCCSC ty f t u v).ty = ty := rfl
theorem bCCSC_setTy (ty ty' : Nat) (f : Bool) (t u v : ℝ) :
    bCCSC ty' f t u v = (bCCSC ty f t u v).setTy ty' := rfl
theorem bCCSC_flip (ty : Nat) (t u v : ℝ) : bCCSC ty true t u v = (bCCSC ty false t u v).flip := by
  simp [bCCSC, sg, RSPath.flip]

/-- the four images of `LpRmSmLm` reach the goal -/
theorem CCSC_LL_candidates_reach (x y phi L : ℝ) (Q : RSPath ℝ)
    (h : some (L, Q) ∈ four LpRmSmLm key3 bCCSC 4 5 x y phi) : Reaches Q x y phi :=
  reach_four LpRmSmLm key3 bCCSC 4 5 LpRmSmLm_reaches bCCSC_ty bCCSC_setTy bCCSC_flip rfl x y phi L Q h

/-- the four images of `LpRmSmRm` reach the goal -/
theorem CCSC_LR_candidates_reach (x y phi L : ℝ) (Q : RSPath ℝ)
    (h : some (L, Q) ∈ four LpRmSmRm key3 bCCSC 8 9 x y phi) : Reaches Q x y phi :=
  reach_four LpRmSmRm key3 bCCSC 8 9 LpRmSmRm_reaches bCCSC_ty bCCSC_setTy bCCSC_flip rfl x y phi L Q h

/-- a member of `four S key b' tyA' tyB' …` has a twin in `four S key b tyA tyB …` with the same
`(t,u,v)` and flip, and the corresponding type -/
theorem four_twin2 {S : ℝ → ℝ → ℝ → Sol ℝ} {key : ℝ → ℝ → ℝ → ℝ}
    (b b' : Nat → Bool → ℝ → ℝ → ℝ → RSPath ℝ) (tyA tyB : Nat) {tyA' tyB' : Nat} {x y phi L : ℝ}
    {Q : RSPath ℝ} (h : some (L, Q) ∈ four S key b' tyA' tyB' x y phi) :
    ∃ f t u v,
      (Q = b' tyA' f t u v ∧ some (L, b tyA f t u v) ∈ four S key b tyA tyB x y phi) ∨
      (Q = b' tyB' f t u v ∧ some (L, b tyB f t u v) ∈ four S key b tyA tyB x y phi) := by
  obtain ⟨t, u, v, rfl, h | h | h | h⟩ := mem_four h
  · exact ⟨false, t, u, v, Or.inl ⟨h.2, by simp [four, mkCand, h.1]⟩⟩
  · exact ⟨true, t, u, v, Or.inl ⟨h.2, by simp [four, mkCand, h.1]⟩⟩
  · exact ⟨false, t, u, v, Or.inr ⟨h.2, by simp [four, mkCand, h.1]⟩⟩
  · exact ⟨true, t, u, v, Or.inr ⟨h.2, by simp [four, mkCand, h.1]⟩⟩

/-- the stored backwards CCSC word `(v, u, -π/2, t)` of type `6,7,10,11` drives like the reverse of
`(t, -π/2, u, v)` of type `4,5,8,9` -/
theorem bCCSCrev_drives_reverse (ty ty' : Nat)
    (hty : (ty = 4 ∧ ty' = 6) ∨ (ty = 5 ∧ ty' = 7) ∨ (ty = 8 ∧ ty' = 10) ∨ (ty = 9 ∧ ty' = 11))
    (f : Bool) (t u v : ℝ) :
    rsIntegFull (bCCSCrev ty' f t u v).segList ⟨0, 0, 0⟩ =
      rsIntegFull (bCCSC ty f t u v).segList.reverse ⟨0, 0, 0⟩ := by
  rcases hty with ⟨rfl, rfl⟩ | ⟨rfl, rfl⟩ | ⟨rfl, rfl⟩ | ⟨rfl, rfl⟩ <;>
    simp only [RSPath.segList, RSPath.lens, bCCSCrev, bCCSC, rsType, List.zip_cons_cons, List.zip_nil_right,
      List.reverse_cons, List.reverse_nil, List.nil_append, List.cons_append, rsIntegFull, rsStep_eq_N]

/-- **every CCSC candidate reaches the goal**: the four images of `LpRmSmLm` and of `LpRmSmRm`, and their
four "backwards" images each -/
theorem CCSC_all_candidates_reach (x y phi L : ℝ) (Q : RSPath ℝ) (h : some (L, Q) ∈ candsCCSC x y phi) :
    Reaches Q x y phi := by
  unfold candsCCSC at h
  simp only [List.mem_append] at h
  rcases h with ((h | h) | h) | h
  · exact CCSC_LL_candidates_reach x y phi L Q h
  · exact CCSC_LR_candidates_reach x y phi L Q h
  · obtain ⟨f, t, u, v, ⟨rfl, hm⟩ | ⟨rfl, hm⟩⟩ := four_twin2 bCCSC bCCSCrev 4 5 h
    · exact reaches_reverse _ _ (bCCSCrev_drives_reverse 4 6 (Or.inl ⟨rfl, rfl⟩) f t u v) x y phi
        (CCSC_LL_candidates_reach _ _ _ _ _ hm)
    · exact reaches_reverse _ _ (bCCSCrev_drives_reverse 5 7 (Or.inr (Or.inl ⟨rfl, rfl⟩)) f t u v) x y phi
        (CCSC_LL_candidates_reach _ _ _ _ _ hm)
  · obtain ⟨f, t, u, v, ⟨rfl, hm⟩ | ⟨rfl, hm⟩⟩ := four_twin2 bCCSC bCCSCrev 8 9 h
    · exact reaches_reverse _ _ (bCCSCrev_drives_reverse 8 10 (Or.inr (Or.inr (Or.inl ⟨rfl, rfl⟩))) f t u v)
        x y phi (CCSC_LR_candidates_reach _ _ _ _ _ hm)
    · exact reaches_reverse _ _ (bCCSCrev_drives_reverse 9 11 (Or.inr (Or.inr (Or.inr ⟨rfl, rfl⟩))) f t u v)
        x y phi (CCSC_LR_candidates_reach _ _ _ _ _ hm)

end OmplModel.RS
