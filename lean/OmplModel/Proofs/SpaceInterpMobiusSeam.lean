import OmplModel.Proofs.SpaceInterpSeamFree
import OmplModel.Proofs.SpaceInterpCompoundGeo
/-!
C07, Mobius strip over ℝ: exact re-parameterisation ACROSS the seam (`|Δu| > π`), hence for every
pair of in-bounds states, and its lift to compounds (`reparamOk4`: as `reparamOk3` with Mobius allowed).
-/
open scoped OmplModel.SpaceInterp.RealNum
attribute [-instance] OmplModel.Num.instOfNat

namespace OmplModel.SpaceInterp
open OmplModel OmplModel.Space Real RealNum

theorem mobiusInterp_reparam_seam {u1 v1 u2 v2 s u : ℝ} (hu1 : -π ≤ u1) (hu1' : u1 < π)
    (hu2 : -π ≤ u2) (hu2' : u2 < π) (hseam : ¬ |u2 - u1| ≤ π)
    (hs0 : 0 ≤ s) (hs1 : s ≤ 1) (hu0 : 0 ≤ u) (hu1'' : u ≤ 1) :
    mobiusInterp so2Interp (mobiusInterp so2Interp u1 v1 u2 v2 s).1
        (mobiusInterp so2Interp u1 v1 u2 v2 s).2 u2 v2 u
      = mobiusInterp so2Interp u1 v1 u2 v2 (s + (1 - s) * u) := by
  have hrep := so2Interp_reparam hu1 hu1' hu2 hu2' hs0 hs1 hu0 hu1''
  rw [mobiusInterp_long v1 v2 s hseam, mobiusInterp_long v1 v2 _ hseam]
  by_cases hc : |u2 - so2Interp u1 u2 s| ≤ π
  · -- crossed at s: the second leg is the cylinder branch, and the direct evaluation is crossed too
    simp only [if_pos hc]
    rw [mobiusInterp_short _ _ _ hc]
    have hT : |u2 - so2Interp u1 u2 (s + (1 - s) * u)| ≤ π := by
      rw [← hrep, so2Interp_short u hc]; exact abs_sub_lerp_to hc hu0 hu1''
    rw [if_pos hT, hrep, lerp_eq]
    congr 1; ring
  · -- not crossed at s: seam branch again, same mirror test
    simp only [if_neg hc]
    rw [mobiusInterp_long _ _ _ hc, hrep]
    congr 1
    split_ifs <;> ring

/-- Mobius re-parameterisation, no branch hypothesis -/
theorem mobiusInterp_reparam {u1 v1 u2 v2 s u : ℝ} (hu1 : -π ≤ u1) (hu1' : u1 < π)
    (hu2 : -π ≤ u2) (hu2' : u2 < π)
    (hs0 : 0 ≤ s) (hs1 : s ≤ 1) (hu0 : 0 ≤ u) (hu1'' : u ≤ 1) :
    mobiusInterp so2Interp (mobiusInterp so2Interp u1 v1 u2 v2 s).1
        (mobiusInterp so2Interp u1 v1 u2 v2 s).2 u2 v2 u
      = mobiusInterp so2Interp u1 v1 u2 v2 (s + (1 - s) * u) := by
  by_cases h : |u2 - u1| ≤ π
  · exact mobiusInterp_reparam_cyl hu1 hu1' hu2 hu2' h hs0 hs1 hu0 hu1''
  · exact mobiusInterp_reparam_seam hu1 hu1' hu2 hu2' h hs0 hs1 hu0 hu1''

/-- as `reparamOk3`, but Mobius leaves are allowed too: only discrete and Klein are excluded -/
def reparamOk4 {α : Type} : Space α → Bool
  | .klein => false
  | .disc _ _ => false
  | .ccons _ h tl => reparamOk4 h && reparamOk4 tl
  | .wrap s => reparamOk4 s
  | _ => true

theorem interpolate_reparam_mobius (sp : Space ℝ) (a b : St ℝ) (s u : ℝ) (hsp : reparamOk4 sp = true)
    (hwa : wellTyped sp a = true) (hwb : wellTyped sp b = true)
    (hba : inBounds sp a = true) (hbb : inBounds sp b = true)
    (hub : unitQuats sp b) (hok : so3ReparamOk sp a b s)
    (hs0 : 0 ≤ s) (hs1 : s ≤ 1) (hu0 : 0 ≤ u) (hu1 : u ≤ 1) :
    interpolate sp (interpolate sp a b s) b u = interpolate sp a b (s + (1 - s) * u) := by
  induction sp generalizing a b with
  | so3 =>
    exact interpolate_reparam_so3 _ a b s u (by simp [reparamOk3]) hwa hwb hba hbb hub hok
      hs0 hs1 hu0 hu1
  | mobius imax rad =>
    obtain ⟨a1, a2, rfl⟩ := wellTyped_mobius hwa
    obtain ⟨b1, b2, rfl⟩ := wellTyped_mobius hwb
    simp only [inBounds, Bool.and_eq_true, so2InB_iff] at hba hbb
    simp only [interpolateW,
      mobiusInterp_reparam (v1 := a2) (v2 := b2) hba.1.1 hba.1.2 hbb.1.1 hbb.1.2 hs0 hs1 hu0 hu1]
  | klein => simp [reparamOk4] at hsp
  | disc lo hi => simp [reparamOk4] at hsp
  | ccons w h tl ih1 ih2 =>
    obtain ⟨ah, at', rfl, ha1, ha2⟩ := wellTyped_ccons hwa
    obtain ⟨bh, bt, rfl, hb1, hb2⟩ := wellTyped_ccons hwb
    simp only [reparamOk4, inBounds, Bool.and_eq_true, unitQuats, so3ReparamOk] at hsp hba hbb hub hok
    simp only [interpolateW, ih1 ah bh hsp.1 ha1 hb1 hba.1 hbb.1 hub.1 hok.1,
      ih2 at' bt hsp.2 ha2 hb2 hba.2 hbb.2 hub.2 hok.2]
  | wrap s' ih =>
    simp only [reparamOk4, wellTyped, inBounds, unitQuats, so3ReparamOk] at hsp hwa hwb hba hbb hub hok
    simp only [interpolateW]; exact ih a b hsp hwa hwb hba hbb hub hok
  | _ => exact interpolate_reparam _ a b s u (by simp [reparamOk]) hwa hwb hba hbb hs0 hs1 hu0 hu1

end OmplModel.SpaceInterp
