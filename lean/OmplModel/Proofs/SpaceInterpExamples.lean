import OmplModel.Proofs.SpaceInterpAll
/-!
C07: concrete spaces and states for the non-vacuity examples of Props/C07.lean, with their
side conditions discharged once.
-/
open scoped OmplModel.SpaceInterp.RealNum
attribute [-instance] OmplModel.Num.instOfNat

namespace OmplModel.SpaceInterp.Ex
open OmplModel OmplModel.Space OmplModel.SpaceInterp Real RealNum

/-- the long-way pair 3, -3 (|diff| = 6 > pi) is in bounds -/
theorem three_inB : so2InB (3 : ℝ) = true ∧ so2InB (-3 : ℝ) = true := by
  constructor <;> rw [so2InB_iff] <;> constructor <;> linarith [pi_gt_three]

theorem zero_inB : so2InB (0 : ℝ) = true := by
  rw [so2InB_iff]; constructor <;> linarith [pi_pos]

/-- SE(2) = R^2 x SO(2), weights 1 and 1/2 -/
noncomputable def se2 : Space ℝ := .ccons 1 (.rv [0, 0] [1, 1]) (.ccons (1 / 2) .so2 .cnil)
noncomputable def se2A : St ℝ := .ccons (.rv [0, 1]) (.ccons (.so2 3) .cnil)
noncomputable def se2B : St ℝ := .ccons (.rv [1, 0]) (.ccons (.so2 (-3)) .cnil)

theorem se2_ok : noSO3Klein se2 = true ∧ reparamOk se2 = true ∧ geodesic false se2 = true := by
  simp [se2, noSO3Klein, reparamOk, geodesic]
theorem se2A_wt : wellTyped se2 se2A = true := by simp [se2, se2A, wellTyped]
theorem se2B_wt : wellTyped se2 se2B = true := by simp [se2, se2B, wellTyped]
theorem se2A_inB : inBounds se2 se2A = true := by
  simp only [se2, se2A, inBounds, rvInB, three_inB.1, dblEps_eq]; norm_num
theorem se2B_inB : inBounds se2 se2B = true := by
  simp only [se2, se2B, inBounds, rvInB, three_inB.2, dblEps_eq]; norm_num

/-- a nested compound: [SE(2), bounded time, wrapped torus] with weights 2, 1, 3 -/
noncomputable def nested : Space ℝ :=
  .ccons 2 se2 (.ccons 1 (.time true 0 1) (.ccons 3 (.wrap (.torus 2 1)) .cnil))
noncomputable def nestedA : St ℝ :=
  .ccons se2A (.ccons (.time 0) (.ccons (.ccons (.so2 3) (.ccons (.so2 (-3)) .cnil)) .cnil))
noncomputable def nestedB : St ℝ :=
  .ccons se2B (.ccons (.time 1) (.ccons (.ccons (.so2 (-3)) (.ccons (.so2 0) .cnil)) .cnil))

theorem nested_ok :
    noSO3Klein nested = true ∧ reparamOk nested = true ∧ geodesic false nested = true := by
  simp [nested, noSO3Klein, reparamOk, geodesic, se2_ok]
theorem nestedA_wt : wellTyped nested nestedA = true := by
  simp [nested, nestedA, wellTyped, se2A_wt]
theorem nestedB_wt : wellTyped nested nestedB = true := by
  simp [nested, nestedB, wellTyped, se2B_wt]
theorem nestedA_inB : inBounds nested nestedA = true := by
  simp only [nested, nestedA, inBounds, se2A_inB, three_inB.1, three_inB.2, dblEps_eq]; norm_num
theorem nestedB_inB : inBounds nested nestedB = true := by
  simp only [nested, nestedB, inBounds, se2B_inB, three_inB.2, zero_inB, dblEps_eq]; norm_num

/-- a compound with the non-geodesic spaces: [Mobius, discrete, sphere] -/
noncomputable def mix : Space ℝ :=
  .ccons 1 (.mobius 1 2) (.ccons 1 (.disc 0 5) (.ccons 1 (.sphere 1) .cnil))
noncomputable def mixA : St ℝ :=
  .ccons (.ccons (.so2 3) (.ccons (.rv [1]) .cnil))
    (.ccons (.disc 0) (.ccons (.ccons (.so2 0) (.ccons (.rv [1]) .cnil)) .cnil))
noncomputable def mixB : St ℝ :=
  .ccons (.ccons (.so2 (-3)) (.ccons (.rv [-1]) .cnil))
    (.ccons (.disc 5) (.ccons (.ccons (.so2 3) (.ccons (.rv [3]) .cnil)) .cnil))

theorem mix_ok : noSO3Klein mix = true := by simp [mix, noSO3Klein]
theorem mixA_wt : wellTyped mix mixA = true := by simp [mix, mixA, wellTyped]
theorem mixB_wt : wellTyped mix mixB = true := by simp [mix, mixB, wellTyped]
theorem mixA_inB : inBounds mix mixA = true := by
  simp only [mix, mixA, inBounds, rvInB, three_inB.1, zero_inB, dblEps_eq, pi_eq, ofNat_zero]
  norm_num
  linarith [pi_gt_three]
theorem mixB_inB : inBounds mix mixB = true := by
  simp only [mix, mixB, inBounds, rvInB, three_inB.1, three_inB.2, dblEps_eq, pi_eq, ofNat_zero]
  norm_num
  linarith [pi_gt_three]

theorem se2_noKlein : noKlein se2 = true := by simp [se2, noKlein]
theorem nested_noKlein : noKlein nested = true := by simp [nested, noKlein, se2_noKlein]
theorem mix_noKlein : noKlein mix = true := by simp [mix, noKlein]

/-- SE(3) = R^3 x SO(3); the two orientations are orthogonal quaternions (theta = pi/2: slerp branch) -/
noncomputable def se3 : Space ℝ := .ccons 1 (.rv [0, 0, 0] [1, 1, 1]) (.ccons 1 .so3 .cnil)
noncomputable def se3A : St ℝ := .ccons (.rv [0, 0, 0]) (.ccons (.so3 0 0 0 1) .cnil)
noncomputable def se3B : St ℝ := .ccons (.rv [1, 1, 1]) (.ccons (.so3 1 0 0 0) .cnil)

theorem se3_noKlein : noKlein se3 = true := by simp [se3, noKlein]
theorem se3A_wt : wellTyped se3 se3A = true := by simp [se3, se3A, wellTyped]
theorem se3B_wt : wellTyped se3 se3B = true := by simp [se3, se3B, wellTyped]
theorem se3A_unit : unitQuats se3 se3A := by simp [se3, se3A, unitQuats]
theorem se3B_unit : unitQuats se3 se3B := by simp [se3, se3B, unitQuats]
theorem se3A_inB : inBounds se3 se3A = true := by
  simp only [se3, se3A, inBounds, rvInB, so3InB_of_unit (x := 0) (y := 0) (z := 0) (w := 1) (by norm_num),
    dblEps_eq]
  norm_num
theorem se3B_inB : inBounds se3 se3B = true := by
  simp only [se3, se3B, inBounds, rvInB, so3InB_of_unit (x := 1) (y := 0) (z := 0) (w := 0) (by norm_num),
    dblEps_eq]
  norm_num

/-- the example pair really takes the slerp branch: theta = arccos 0 = pi/2 > eps -/
theorem se3_slerp_branch : dblEps < arcLength (0 : ℝ) 0 0 1 1 0 0 0 := by
  rw [arcLength_eq, quatDot_eq]
  norm_num
  linarith [pi_gt_three]

/-- a compound with every kind of component: [Klein, SE(3), Mobius] -/
noncomputable def allSp : Space ℝ := .ccons 1 .klein (.ccons 1 se3 (.ccons 1 (.mobius 1 2) .cnil))
noncomputable def allA : St ℝ :=
  .ccons (.ccons (.rv [0]) (.ccons (.so2 3) .cnil))
    (.ccons se3A (.ccons (.ccons (.so2 3) (.ccons (.rv [1]) .cnil)) .cnil))
noncomputable def allB : St ℝ :=
  .ccons (.ccons (.rv [3]) (.ccons (.so2 (-3)) .cnil))
    (.ccons se3B (.ccons (.ccons (.so2 (-3)) (.ccons (.rv [-1]) .cnil)) .cnil))

theorem allA_wt : wellTyped allSp allA = true := by simp [allSp, allA, wellTyped, se3A_wt]
theorem allB_wt : wellTyped allSp allB = true := by simp [allSp, allB, wellTyped, se3B_wt]
theorem allA_unit : unitQuats allSp allA := by simp [allSp, allA, unitQuats, se3A_unit]
theorem allB_unit : unitQuats allSp allB := by simp [allSp, allB, unitQuats, se3B_unit]
theorem allA_klein : kleinRange allSp allA := by
  simp [allSp, allA, kleinRange, pi_pos.le, se3, se3A]
theorem allB_klein : kleinRange allSp allB := by
  simp [allSp, allB, kleinRange, se3, se3B]; exact pi_gt_three.le
theorem allA_inB : inBounds allSp allA = true := by
  simp only [allSp, allA, inBounds, rvInB, se3A_inB, three_inB.1, dblEps_eq, pi_eq, ofNat_zero]
  norm_num
  linarith [pi_gt_three]
theorem allB_inB : inBounds allSp allB = true := by
  simp only [allSp, allB, inBounds, rvInB, se3B_inB, three_inB.2, dblEps_eq, pi_eq, ofNat_zero]
  norm_num
  linarith [pi_gt_three]

/-- Klein states across the seam (|Δu| = 3 > π/2) -/
theorem klein_ex_inB : inBounds (.klein : Space ℝ) (.ccons (.rv [0]) (.ccons (.so2 3) .cnil)) = true
    ∧ inBounds (.klein : Space ℝ) (.ccons (.rv [3]) (.ccons (.so2 (-3)) .cnil)) = true := by
  simp only [inBounds, rvInB, three_inB.1, three_inB.2, dblEps_eq, pi_eq, ofNat_zero]
  norm_num
  constructor <;> linarith [pi_gt_three]

end OmplModel.SpaceInterp.Ex
