import OmplModel.Proofs.Heap
/-! The abstract heap of the property text — a finite map handle ↦ key (kept as an unordered list of live elements)
plus the number of handles handed out — and the simulation: every operation of the model of `BinaryHeap` is a step of
the abstract heap.  Core Lean only. -/
namespace OmplModel.Heap
variable {κ : Type}

structure Spec (κ : Type) where
  live : List (Elem κ) := []
  next : Nat := 0

/-- the element behind handle `h` gets key `k`; everything else is untouched -/
def rekey (h : Nat) (k : κ) (l : List (Elem κ)) : List (Elem κ) := l.map (fun e => if e.h = h then ⟨h, k⟩ else e)

/-- what each public operation does to the abstract heap.  `pop` removes ANY minimum of the live elements (the
implementation's choice among equivalent ones is not specified); `remove` / `update` of a handle that is not live change
nothing (outside the C++ contract; the model's totalisation). -/
inductive SpecStep (lt : κ → κ → Bool) : Spec κ → Op κ → Spec κ → Prop
  | insert (A : Spec κ) (k : κ) : SpecStep lt A (.insert k) ⟨⟨A.next, k⟩ :: A.live, A.next + 1⟩
  | insertMany (A : Spec κ) (ks : List κ) : SpecStep lt A (.insertMany ks) ⟨A.live ++ freshElems A.next ks, A.next + ks.length⟩
  | remove (A : Spec κ) (h : Nat) : SpecStep lt A (.remove h) ⟨A.live.filter (fun e => e.h != h), A.next⟩
  | setKey (A : Spec κ) (h : Nat) (k : κ) : SpecStep lt A (.setKey h k) ⟨rekey h k A.live, A.next⟩
  | popEmpty (A : Spec κ) : A.live = [] → SpecStep lt A .pop A
  | pop (A : Spec κ) (e : Elem κ) (rest : List (Elem κ)) : (e :: rest).Perm A.live →
      (∀ x ∈ A.live, lt x.key e.key = false) → SpecStep lt A .pop ⟨rest, A.next⟩
  | pokeRebuild (A : Spec κ) (chg : List (Nat × κ)) :
      SpecStep lt A (.pokeRebuild chg) ⟨chg.foldl (fun l c => rekey c.1 c.2 l) A.live, A.next⟩
  | buildFrom (A : Spec κ) (ks : List κ) : SpecStep lt A (.buildFrom ks) ⟨freshElems A.next ks, A.next + ks.length⟩
  | sort (A : Spec κ) (ks : List κ) : SpecStep lt A (.sort ks) A
  | clear (A : Spec κ) : SpecStep lt A .clear ⟨[], A.next⟩

inductive SpecRun (lt : κ → κ → Bool) : Spec κ → List (Op κ) → Spec κ → Prop
  | nil (A : Spec κ) : SpecRun lt A [] A
  | cons {A B C : Spec κ} {op : Op κ} {ops : List (Op κ)} :
      SpecStep lt A op B → SpecRun lt B ops C → SpecRun lt A (op :: ops) C

/-- abstraction relation: same contents as a multiset, same handle counter -/
def Abs (H : Heap κ) (A : Spec κ) : Prop := H.arr.toList.Perm A.live ∧ H.next = A.next

theorem insertMany_perm (lt : κ → κ → Bool) (ks : List κ) (s : Heap κ) :
    (s.insertMany lt ks).arr.toList.Perm (s.arr.toList ++ freshElems s.next ks) ∧
      (s.insertMany lt ks).next = s.next + ks.length := by
  induction ks generalizing s with
  | nil => simp [Heap.insertMany, freshElems]
  | cons k ks ih =>
    obtain ⟨i1, i2⟩ := ih (s.insert lt k)
    have e : s.insertMany lt (k :: ks) = (s.insert lt k).insertMany lt ks := by simp [Heap.insertMany]
    rw [e]
    have hn : (s.insert lt k).next = s.next + 1 := rfl
    refine ⟨?_, by rw [i2, hn]; simp only [List.length_cons]; omega⟩
    refine i1.trans ?_
    rw [hn]
    have hp := insert_perm lt s k
    simp only [freshElems]
    exact (hp.append_right _).trans (by simpa using (List.perm_middle (a := (⟨s.next, k⟩ : Elem κ)) (l₁ := s.arr.toList) (l₂ := freshElems (s.next + 1) ks)).symm)

theorem rekey_dead (h : Nat) (k : κ) (l : List (Elem κ)) (hd : ∀ e ∈ l, e.h ≠ h) : rekey h k l = l := by
  unfold rekey
  conv => rhs; rw [← List.map_id l]
  apply List.map_congr_left
  intro e he
  simp [hd e he]

theorem nodup_idx (a : Array (Elem κ)) (N : (a.toList.map (·.h)).Nodup) (i j : Nat) (hi : i < a.size) (hj : j < a.size)
    (h : a[i].h = a[j].h) : i = j := by
  have hi' : i < (a.toList.map (·.h)).length := by simpa using hi
  have hj' : j < (a.toList.map (·.h)).length := by simpa using hj
  exact (List.getElem_inj (h₀ := hi') (h₁ := hj') N).mp (by simpa using h)

theorem set_toList_rekey (a : Array (Elem κ)) (N : (a.toList.map (·.h)).Nodup) (p : Nat) (hp : p < a.size) (h : Nat) (k : κ)
    (hh : a[p].h = h) : (a.set p ⟨h, k⟩ hp).toList = rekey h k a.toList := by
  unfold rekey
  rw [Array.toList_set]
  apply List.ext_getElem
  · simp
  · intro i h1 h2
    simp only [List.getElem_set, List.getElem_map, Array.getElem_toList]
    have hi : i < a.size := by simpa using h2
    by_cases hip : p = i
    · subst hip; simp [hh]
    · simp only [hip, ↓reduceIte]
      have : a[i].h ≠ h := by
        intro hc
        exact hip (nodup_idx a N p i hp hi (hh.trans hc.symm))
      simp [this]

theorem pokeAll_perm (chg : List (Nat × κ)) (a : Array (Elem κ)) (l : List (Elem κ)) (N : (a.toList.map (·.h)).Nodup)
    (P : a.toList.Perm l) : (pokeAll a chg).toList.Perm (chg.foldl (fun l c => rekey c.1 c.2 l) l) := by
  induction chg generalizing a l with
  | nil => exact P
  | cons c rest ih =>
    obtain ⟨h, k⟩ := c
    unfold pokeAll
    simp only [List.foldl_cons]
    split
    · rename_i p hp
      obtain ⟨hps, hh⟩ := findIdx_spec _ _ _ hp
      have e1 : a.setIfInBounds p ⟨h, k⟩ = a.set p ⟨h, k⟩ hps := by simp [Array.setIfInBounds, hps]
      rw [e1]
      apply ih
      · rw [map_h_set _ _ _ _ hh.symm]; exact N
      · rw [set_toList_rekey a N p hps h k hh]
        exact P.map _
    · rename_i hnone
      apply ih a _ N
      rw [rekey_dead h k l]
      · exact P
      · intro e he
        exact findIdx_none _ _ hnone e (P.mem_iff.mpr he)

theorem setKey_dead (lt : κ → κ → Bool) (s : Heap κ) (hd : Nat) (k : κ) (hdead : ∀ e ∈ s.arr.toList, e.h ≠ hd) :
    s.setKey lt hd k = s := by
  unfold Heap.setKey
  split
  · rename_i p hp
    obtain ⟨hps, hh⟩ := findIdx_spec _ _ _ hp
    exact absurd hh (hdead _ (by simp))
  · rfl

theorem remove_next (lt : κ → κ → Bool) (s : Heap κ) (hd : Nat) : (s.remove lt hd).next = s.next := by
  unfold Heap.remove; split <;> rfl

theorem setKey_next (lt : κ → κ → Bool) (s : Heap κ) (hd : Nat) (k : κ) : (s.setKey lt hd k).next = s.next := by
  unfold Heap.setKey; split
  · split <;> rfl
  · rfl

theorem pop_next (lt : κ → κ → Bool) (s : Heap κ) : (s.pop lt).next = s.next := by
  unfold Heap.pop; split <;> rfl

/-- every step of the model is a step of the abstract heap -/
theorem step_sim {lt : κ → κ → Bool} (h : SWO lt) (H : Heap κ) (A : Spec κ) (W : Wf H) (I : HeapInv lt H.arr)
    (R : Abs H A) (op : Op κ) : ∃ B, SpecStep lt A op B ∧ Abs (H.step lt op) B := by
  obtain ⟨P, N⟩ := R
  cases op with
  | insert k =>
    refine ⟨_, .insert A k, ?_, by show H.next + 1 = A.next + 1; omega⟩
    exact (insert_perm lt H k).trans (by rw [N]; exact P.cons _)
  | insertMany ks =>
    obtain ⟨p1, p2⟩ := insertMany_perm lt ks H
    refine ⟨_, .insertMany A ks, ?_, by show (H.insertMany lt ks).next = _; rw [p2, N]⟩
    exact p1.trans (by rw [N]; exact P.append_right _)
  | remove hd =>
    refine ⟨_, .remove A hd, ?_, (remove_next lt H hd).trans N⟩
    show (H.remove lt hd).arr.toList.Perm _
    by_cases hl : ∃ e ∈ H.arr.toList, e.h = hd
    · obtain ⟨e, he, hperm, hne⟩ := remove_spec_live lt H hd W hl
      have f := (hperm.trans P).filter (fun e => e.h != hd)
      have e1 : (e :: (H.remove lt hd).arr.toList).filter (fun e => e.h != hd) = (H.remove lt hd).arr.toList := by
        rw [List.filter_cons]
        simp only [he, bne_self_eq_false, Bool.false_eq_true, ↓reduceIte]
        apply List.filter_eq_self.mpr
        intro x hx
        simpa using hne x hx
      rw [e1] at f
      exact f
    · have hdead : ∀ e ∈ H.arr.toList, e.h ≠ hd := fun e he hc => hl ⟨e, he, hc⟩
      rw [remove_spec_dead lt H hd hdead]
      have : A.live.filter (fun e => e.h != hd) = A.live := by
        apply List.filter_eq_self.mpr
        intro x hx
        simpa using hdead x (P.mem_iff.mpr hx)
      rw [this]; exact P
  | setKey hd k =>
    refine ⟨_, .setKey A hd k, ?_, (setKey_next lt H hd k).trans N⟩
    show (H.setKey lt hd k).arr.toList.Perm _
    by_cases hl : ∃ e ∈ H.arr.toList, e.h = hd
    · exact (setKey_spec_live lt H hd k W hl).trans (P.map _)
    · have hdead : ∀ e ∈ H.arr.toList, e.h ≠ hd := fun e he hc => hl ⟨e, he, hc⟩
      rw [setKey_dead lt H hd k hdead, rekey_dead hd k A.live (fun e he => hdead e (P.mem_iff.mpr he))]
      exact P
  | pop =>
    by_cases h0 : H.arr.size = 0
    · have hnil : H.arr.toList = [] := by
        apply List.eq_nil_of_length_eq_zero; simpa using h0
      refine ⟨A, .popEmpty A ?_, ?_, (pop_next lt H).trans N⟩
      · rw [hnil] at P; exact P.nil_eq.symm
      · show (H.pop lt).arr.toList.Perm _
        unfold Heap.pop; simp only [h0, ↓reduceIte]; exact P
    · obtain ⟨e, he, hmin, hperm⟩ := pop_spec h H I (by omega)
      refine ⟨⟨(H.pop lt).arr.toList, A.next⟩, .pop A e _ (hperm.trans P) ?_, List.Perm.refl _, (pop_next lt H).trans N⟩
      intro x hx
      exact hmin x (P.mem_iff.mpr hx)
  | pokeRebuild chg =>
    refine ⟨_, .pokeRebuild A chg, ?_, N⟩
    show (build lt (pokeAll H.arr chg)).toList.Perm _
    exact (build_perm lt _).toList.trans (pokeAll_perm chg H.arr A.live W.nodup P)
  | buildFrom ks =>
    refine ⟨_, .buildFrom A ks, ?_, by show H.next + ks.length = A.next + ks.length; omega⟩
    show (build lt (freshElems H.next ks).toArray).toList.Perm _
    rw [← N]
    simpa using (build_perm lt (freshElems H.next ks).toArray).toList
  | sort ks => exact ⟨A, .sort A ks, P, N⟩
  | clear => exact ⟨_, .clear A, by simp [Heap.step, Heap.clear], N⟩

theorem run_sim {lt : κ → κ → Bool} (h : SWO lt) (ops : List (Op κ)) (H : Heap κ) (A : Spec κ) (W : Wf H)
    (I : HeapInv lt H.arr) (R : Abs H A) : ∃ B, SpecRun lt A ops B ∧ Abs (H.run lt ops) B := by
  induction ops generalizing H A with
  | nil => exact ⟨A, .nil A, R⟩
  | cons op rest ih =>
    obtain ⟨B, s1, s2⟩ := step_sim h H A W I R op
    obtain ⟨C, r1, r2⟩ := ih (H.step lt op) B (step_wf lt H op W) (step_inv h H op I) s2
    exact ⟨C, .cons s1 r1, by simpa [Heap.run] using r2⟩

end OmplModel.Heap
