import OmplModel.Proofs.Interleave
/-!
pRRT at lock granularity: `PInv` is an inductive invariant — it holds initially and every single step
of every worker preserves it, whatever the other workers did in between.  Hence it holds after every
scheduler of every thread family.  Arithmetic-free.  Core Lean only.
-/
namespace OmplModel.Interleave

variable {S D : Type}

theorem setLoc_same (loc : Nat → PLocal S) (t : Nat) (l : PLocal S) : setLoc loc t l t = l := by
  simp [setLoc]

theorem setLoc_other (loc : Nat → PLocal S) {t u : Nat} (l : PLocal S) (h : u ≠ t) : setLoc loc t l u = loc u := by
  simp [setLoc, h]

theorem nodes_append (tr : List (S × Option S)) (x : S × Option S) : nodes (tr ++ [x]) = nodes tr ++ [x.1] := by
  simp [nodes]

theorem pinv_init (e : PEnv S D) : PInv e (PStore.init e) where
  edge_valid := by intro c p h; simp [PStore.init] at h
  answers_true := by intro a b r h; simp [PStore.init] at h
  parent_in := by intro c p h; simp [PStore.init] at h
  root_in := by simp [PStore.init, nodes]
  near_in := by intro t; simp [PStore.init, nodes]
  ok_asked := by intro t h; simp [PStore.init] at h
  added_in := by intro t h; simp [PStore.init] at h
  sol_in := by intro c h; simp [PStore.init] at h
  approx_in := by intro c h; simp [PStore.init] at h

theorem pinv_nearest (e : PEnv S D) (hsel : ∀ l x, l ≠ [] → e.sel l x ∈ l) (t : Nat) (x : S) (s : PStore S D)
    (h : PInv e s) : PInv e (PStep.apply e (.nearest t x) s) := by
  have hne : nodes s.tree ≠ [] := List.ne_nil_of_mem h.root_in
  refine ⟨h.edge_valid, h.answers_true, h.parent_in, h.root_in, ?_, ?_, ?_, h.sol_in, h.approx_in⟩
  · intro u
    by_cases hu : u = t
    · subst hu
      simp only [PStep.apply, setLoc_same]
      exact hsel _ _ hne
    · simp only [PStep.apply, setLoc_other _ _ hu]
      exact h.near_in u
  · intro u
    by_cases hu : u = t
    · subst hu
      simp [PStep.apply, setLoc_same]
    · simp only [PStep.apply, setLoc_other _ _ hu]
      exact h.ok_asked u
  · intro u
    by_cases hu : u = t
    · subst hu
      simp [PStep.apply, setLoc_same]
    · simp only [PStep.apply, setLoc_other _ _ hu]
      exact h.added_in u

theorem pinv_check (e : PEnv S D) (t : Nat) (s : PStore S D) (h : PInv e s) :
    PInv e (PStep.apply e (.check t) s) := by
  refine ⟨?_, ?_, h.parent_in, h.root_in, ?_, ?_, ?_, h.sol_in, h.approx_in⟩
  · intro c p hcp
    simp only [PStep.apply]
    exact List.mem_append_left _ (h.edge_valid c p hcp)
  · intro a b r hr
    simp only [PStep.apply, List.mem_append, List.mem_singleton] at hr
    rcases hr with hr | hr
    · exact h.answers_true a b r hr
    · cases hr; rfl
  · intro u
    by_cases hu : u = t
    · subst hu
      simp only [PStep.apply, setLoc_same]
      exact h.near_in u
    · simp only [PStep.apply, setLoc_other _ _ hu]
      exact h.near_in u
  · intro u
    by_cases hu : u = t
    · subst hu
      simp only [PStep.apply, setLoc_same]
      intro hok
      simp only [hok]
      exact List.mem_append_right _ (List.mem_singleton.mpr rfl)
    · simp only [PStep.apply, setLoc_other _ _ hu]
      intro hok
      exact List.mem_append_left _ (h.ok_asked u hok)
  · intro u
    by_cases hu : u = t
    · subst hu
      simp only [PStep.apply, setLoc_same]
      exact h.added_in u
    · simp only [PStep.apply, setLoc_other _ _ hu]
      exact h.added_in u

theorem mem_nodes_append {tr : List (S × Option S)} {x : S × Option S} {c : S} (h : c ∈ nodes tr) :
    c ∈ nodes (tr ++ [x]) := by
  rw [nodes_append]; exact List.mem_append_left _ h

theorem pinv_add (e : PEnv S D) (t : Nat) (s : PStore S D) (h : PInv e s) :
    PInv e (PStep.apply e (.add t) s) := by
  by_cases hok : (s.loc t).ok = true
  · have happly : PStep.apply e (.add t) s =
        { s with tree := s.tree ++ [((s.loc t).cand, some (s.loc t).near)],
                 loc := setLoc s.loc t { s.loc t with added := true } } := by
      simp [PStep.apply, hok]
    rw [happly]
    refine ⟨?_, h.answers_true, ?_, mem_nodes_append h.root_in, ?_, ?_, ?_, ?_, ?_⟩
    · intro c p hcp
      simp only [List.mem_append, List.mem_singleton] at hcp
      rcases hcp with hcp | hcp
      · exact h.edge_valid c p hcp
      · cases hcp
        exact h.ok_asked t hok
    · intro c p hcp
      simp only [List.mem_append, List.mem_singleton] at hcp
      rcases hcp with hcp | hcp
      · exact mem_nodes_append (h.parent_in c p hcp)
      · cases hcp
        exact mem_nodes_append (h.near_in t)
    · intro u
      by_cases hu : u = t
      · subst hu
        simp only [setLoc_same]
        exact mem_nodes_append (h.near_in u)
      · simp only [setLoc_other _ _ hu]
        exact mem_nodes_append (h.near_in u)
    · intro u
      by_cases hu : u = t
      · subst hu
        simp only [setLoc_same]
        exact h.ok_asked u
      · simp only [setLoc_other _ _ hu]
        exact h.ok_asked u
    · intro u
      by_cases hu : u = t
      · subst hu
        simp only [setLoc_same]
        intro _
        rw [nodes_append]
        exact List.mem_append_right _ (List.mem_singleton.mpr rfl)
      · simp only [setLoc_other _ _ hu]
        intro ha
        exact mem_nodes_append (h.added_in u ha)
    · intro c hc
      exact ⟨mem_nodes_append (h.sol_in c hc).1, (h.sol_in c hc).2⟩
    · intro c hc
      exact mem_nodes_append (h.approx_in c hc)
  · have happly : PStep.apply e (.add t) s = s := by simp [PStep.apply, hok]
    rw [happly]; exact h

theorem pinv_upd (e : PEnv S D) (t : Nat) (s : PStore S D) (h : PInv e s) :
    PInv e (PStep.apply e (.upd t) s) := by
  by_cases hadd : (s.loc t).added = true
  · have hin := h.added_in t hadd
    by_cases hg : e.goal (s.loc t).cand = true
    · have happly : PStep.apply e (.upd t) s =
          { s with sol := some (s.loc t).cand, approxdif := some (e.dist (s.loc t).cand) } := by
        simp [PStep.apply, hadd, hg]
      rw [happly]
      refine ⟨h.edge_valid, h.answers_true, h.parent_in, h.root_in, h.near_in, h.ok_asked, h.added_in, ?_, h.approx_in⟩
      intro c hc
      cases hc
      exact ⟨hin, hg⟩
    · have hset : PInv e { s with approx := some (s.loc t).cand, approxdif := some (e.dist (s.loc t).cand) } := by
        refine ⟨h.edge_valid, h.answers_true, h.parent_in, h.root_in, h.near_in, h.ok_asked, h.added_in, h.sol_in, ?_⟩
        intro c hc
        cases hc
        exact hin
      have hg' : e.goal (s.loc t).cand = false := by simpa using hg
      simp only [PStep.apply, hadd, hg', ↓reduceIte, Bool.false_eq_true]
      cases hd : s.approxdif with
      | none => exact hset
      | some d =>
        simp only []
        split
        · exact hset
        · exact h
  · have happly : PStep.apply e (.upd t) s = s := by simp [PStep.apply, hadd]
    rw [happly]; exact h

/-- every step of every worker preserves the invariant, from any state that satisfies it -/
theorem pinv_step (e : PEnv S D) (hsel : ∀ l x, l ≠ [] → e.sel l x ∈ l) (a : PStep S) (s : PStore S D)
    (h : PInv e s) : PInv e (PStep.apply e a s) := by
  cases a with
  | nearest t x => exact pinv_nearest e hsel t x s h
  | check t => exact pinv_check e t s h
  | add t => exact pinv_add e t s h
  | upd t => exact pinv_upd e t s h

/-! ### the reported path is real: every node has a parent chain of edges answered valid -/

/-- `Chain e tree c`: `c` is connected to a parentless node of the tree by edges the oracle accepts -/
inductive Chain (e : PEnv S D) (tree : List (S × Option S)) : S → Prop where
  | root (c : S) : (c, none) ∈ tree → Chain e tree c
  | edge (c p : S) : (c, some p) ∈ tree → e.valid p c = true → Chain e tree p → Chain e tree c

theorem Chain.mono {e : PEnv S D} {tree : List (S × Option S)} {x : S × Option S} {c : S}
    (h : Chain e tree c) : Chain e (tree ++ [x]) c := by
  induction h with
  | root c hc => exact Chain.root c (List.mem_append_left _ hc)
  | edge c p hcp hv _ ih => exact Chain.edge c p (List.mem_append_left _ hcp) hv ih

/-- the invariant strengthened by "every node has a valid chain" -/
def PInvChain (e : PEnv S D) (s : PStore S D) : Prop :=
  PInv e s ∧ ∀ c ∈ nodes s.tree, Chain e s.tree c

theorem pinvChain_init (e : PEnv S D) : PInvChain e (PStore.init e) := by
  refine ⟨pinv_init e, ?_⟩
  intro c hc
  simp [PStore.init, nodes] at hc
  subst hc
  exact Chain.root _ (by simp [PStore.init])

theorem pinvChain_step (e : PEnv S D) (hsel : ∀ l x, l ≠ [] → e.sel l x ∈ l) (a : PStep S) (s : PStore S D)
    (h : PInvChain e s) : PInvChain e (PStep.apply e a s) := by
  refine ⟨pinv_step e hsel a s h.1, ?_⟩
  cases a with
  | nearest t x => exact h.2
  | check t => exact h.2
  | upd t =>
    have htree : (PStep.apply e (.upd t) s).tree = s.tree := by
      simp only [PStep.apply]
      split
      · split
        · rfl
        · split
          · rfl
          · split <;> rfl
      · rfl
    rw [htree]; exact h.2
  | add t =>
    by_cases hok : (s.loc t).ok = true
    · have happly : PStep.apply e (.add t) s =
          { s with tree := s.tree ++ [((s.loc t).cand, some (s.loc t).near)],
                   loc := setLoc s.loc t { s.loc t with added := true } } := by
        simp [PStep.apply, hok]
      rw [happly]
      intro c hc
      simp only [nodes_append, List.mem_append, List.mem_singleton] at hc
      rcases hc with hc | hc
      · exact (h.2 c hc).mono
      · subst hc
        have hasked := h.1.ok_asked t hok
        have hv : e.valid (s.loc t).near (s.loc t).cand = true := (h.1.answers_true _ _ _ hasked).symm
        exact Chain.edge _ (s.loc t).near (List.mem_append_right _ (List.mem_singleton.mpr rfl)) hv
          ((h.2 _ (h.1.near_in t)).mono)
    · have happly : PStep.apply e (.add t) s = s := by simp [PStep.apply, hok]
      rw [happly]; exact h.2

/-! ### (solution, approxdif) stay consistent when two workers solve at once -/

/-- `SolutionInfo` consistency: once a solution is set, `approxdif` is the goal distance of a goal
state (the last writer's), never of a non-goal state -/
def SolConsistent (e : PEnv S D) (s : PStore S D) : Prop :=
  ∀ c, s.sol = some c → ∃ c', e.goal c' = true ∧ s.approxdif = some (e.dist c')

theorem solConsistent_step (e : PEnv S D)
    (hgoal : ∀ a b, e.goal a = true → e.lt (e.dist b) (e.dist a) = true → e.goal b = true)
    (a : PStep S) (s : PStore S D) (h : SolConsistent e s) : SolConsistent e (PStep.apply e a s) := by
  cases a with
  | nearest t x => exact h
  | check t => exact h
  | add t =>
    simp only [PStep.apply]
    split
    · exact h
    · exact h
  | upd t =>
    by_cases hadd : (s.loc t).added = true
    · by_cases hg : e.goal (s.loc t).cand = true
      · intro c _
        exact ⟨(s.loc t).cand, hg, by simp [PStep.apply, hadd, hg]⟩
      · have hg' : e.goal (s.loc t).cand = false := by simpa using hg
        simp only [PStep.apply, hadd, hg', ↓reduceIte, Bool.false_eq_true]
        cases hd : s.approxdif with
        | none =>
          intro c hc
          obtain ⟨c', _, hc'⟩ := h c hc
          rw [hd] at hc'; cases hc'
        | some d =>
          simp only []
          split
          · rename_i hlt
            intro c hc
            obtain ⟨c', hg', hc'⟩ := h c hc
            rw [hd] at hc'
            cases hc'
            exact absurd (hgoal c' _ hg' hlt) hg
          · exact h
    · have happly : PStep.apply e (.upd t) s = s := by simp [PStep.apply, hadd]
      rw [happly]; exact h

end OmplModel.Interleave
