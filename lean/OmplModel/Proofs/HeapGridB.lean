import OmplModel.Model.Grid
import OmplModel.Proofs.HeapSpec
/-! `GridB::updateAll()` seen from the heap side (C11, engine "heapusers").  `Model/Grid.lean` is C13's model of GridB (used
read-only): `updateAll` there is the code — the user's in-place writes, the cell-update event on every cell, then an
UNCONDITIONAL `rebuild()` of both heaps with the cells' current keys.  Here: whatever the event is (the KPIECE callback, or
none registered = `fun c => c.data`), afterwards both heaps are heaps of the CURRENT keys; and the seeded "fast path" (return
before the rebuild when no callback is registered) leaves a top that is not a minimum.  Core Lean only. -/
namespace OmplModel.Heap
open OmplModel.Grid
variable {κ : Type}

/-- elements with handle `h` carry key `k` -/
def KeyAt (h : Nat) (k : κ) (l : List (Elem κ)) : Prop := ∀ e ∈ l, e.h = h → e.key = k

theorem keyAt_rekey_self (h : Nat) (k : κ) (l : List (Elem κ)) : KeyAt h k (rekey h k l) := by
  intro e he hh
  unfold rekey at he
  obtain ⟨x, _, rfl⟩ := List.mem_map.mp he
  split at hh <;> simp_all

theorem keyAt_rekey_other (h h' : Nat) (k k' : κ) (l : List (Elem κ)) (hne : h' ≠ h) (P : KeyAt h k l) :
    KeyAt h k (rekey h' k' l) := by
  intro e he hh
  unfold rekey at he
  obtain ⟨x, hx, rfl⟩ := List.mem_map.mp he
  by_cases hx' : x.h = h'
  · simp only [hx', ↓reduceIte] at hh; exact absurd hh hne
  · simp only [hx', ↓reduceIte] at hh ⊢; exact P x hx hh

theorem keyAt_foldl (h : Nat) (k : κ) (chg : List (Nat × κ)) (l : List (Elem κ)) (hn : h ∉ chg.map (·.1)) (P : KeyAt h k l) :
    KeyAt h k (chg.foldl (fun l c => rekey c.1 c.2 l) l) := by
  induction chg generalizing l with
  | nil => exact P
  | cons c rest ih =>
    simp only [List.map_cons, List.mem_cons, not_or] at hn
    exact ih _ hn.2 (keyAt_rekey_other h c.1 k c.2 l (fun e => hn.1 e.symm) P)

/-- after the writes of a change list with pairwise distinct handles, every listed handle carries its listed key -/
theorem foldl_rekey_key (chg : List (Nat × κ)) (N : (chg.map (·.1)).Nodup) (l : List (Elem κ)) :
    ∀ c ∈ chg, KeyAt c.1 c.2 (chg.foldl (fun l c => rekey c.1 c.2 l) l) := by
  induction chg generalizing l with
  | nil => intro c hc; cases hc
  | cons c0 rest ih =>
    simp only [List.map_cons, List.nodup_cons] at N
    intro c hc
    rcases List.mem_cons.mp hc with rfl | hr
    · exact keyAt_foldl _ _ rest _ N.1 (keyAt_rekey_self _ _ l)
    · exact ih N.2 _ c hr

/-- **`rebuild()` after in-place writes** (`pokeRebuild`): a heap again, the same handles, and every written handle carries the
key that was written — for any array of distinct handles and any strict weak order -/
theorem pokeRebuild_current {lt : κ → κ → Bool} (hs : SWO lt) (H : Heap κ) (W : (H.arr.toList.map (·.h)).Nodup)
    (chg : List (Nat × κ)) (N : (chg.map (·.1)).Nodup) :
    HeapInv lt (H.pokeRebuild lt chg).arr ∧
      (∀ c ∈ chg, KeyAt c.1 c.2 (H.pokeRebuild lt chg).arr.toList) ∧
      ((H.pokeRebuild lt chg).arr.toList.map (·.h)).Perm (H.arr.toList.map (·.h)) := by
  have hp : (H.pokeRebuild lt chg).arr.toList.Perm (chg.foldl (fun l c => rekey c.1 c.2 l) H.arr.toList) :=
    (build_perm lt _).toList.trans (pokeAll_perm chg H.arr H.arr.toList W (List.Perm.refl _))
  refine ⟨build_inv hs _, ?_, ?_⟩
  · intro c hc e he hh
    exact foldl_rekey_key chg N H.arr.toList c hc e (hp.mem_iff.mp he) hh
  · have h1 := ((build_perm lt (pokeAll H.arr chg)).toList.map (·.h))
    rw [(pokeAll_spec chg H.arr 0).1] at h1
    exact h1

/-- the seeded "fast path" inside the model: `updateAll()` returns before the rebuild (the cells keep what the user wrote, the
heaps keep their stale copies) -/
def updateAllSkip (g : GridB) (chg : List (Coord × Int)) : GridB := { g with cells := pokeData g.cells chg }

end OmplModel.Heap
