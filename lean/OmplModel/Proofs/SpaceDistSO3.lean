import OmplModel.Proofs.SpaceDistReal
import Mathlib.Tactic.Linarith
import Mathlib.Tactic.NormNum
import Mathlib.Analysis.SpecialFunctions.Trigonometric.Inverse
import Mathlib.Analysis.InnerProductSpace.PiL2
import Mathlib.Geometry.Euclidean.Angle.Unoriented.TriangleInequality
/-!
SO(3) distance (`SO3StateSpace::distance` = `arcLength`) at `ℝ`: metric laws of the unclamped
function on unit quaternions, failure of the triangle inequality for the clamped (as coded) one
(finding F5), and the remaining laws for the clamped one.
-/
namespace OmplModel.SpaceDist
open OmplModel
attribute [-instance] OmplModel.Num.instOfNat

/-- unit quaternion -/
def unitQ (x y z w : ℝ) : Prop := x*x + y*y + z*z + w*w = 1

/-! ### bridges -/
theorem quatDot_real (x1 y1 z1 w1 x2 y2 z2 w2 : ℝ) :
    quatDot x1 y1 z1 w1 x2 y2 z2 w2 = x1*x2 + y1*y2 + z1*z2 + w1*w2 := rfl

theorem so3Dist_real (x1 y1 z1 w1 x2 y2 z2 w2 : ℝ) :
    so3Dist x1 y1 z1 w1 x2 y2 z2 w2 =
      if 1 - 1/10^9 < |x1*x2+y1*y2+z1*z2+w1*w2| then 0
      else Real.arccos |x1*x2+y1*y2+z1*z2+w1*w2| := by
  show (if ((1:ℕ):ℝ) - ((1:ℕ):ℝ) / (10:ℝ)^9 < |x1*x2+y1*y2+z1*z2+w1*w2| then ((0:ℕ):ℝ)
      else Real.arccos |x1*x2+y1*y2+z1*z2+w1*w2|) = _
  simp only [Nat.cast_one, Nat.cast_zero]

theorem so3DistUnclamped_real (x1 y1 z1 w1 x2 y2 z2 w2 : ℝ) :
    so3DistUnclamped x1 y1 z1 w1 x2 y2 z2 w2 = Real.arccos |x1*x2+y1*y2+z1*z2+w1*w2| := rfl

/-! ### basic -/
theorem dot_abs_le_one {x1 y1 z1 w1 x2 y2 z2 w2 : ℝ} (h1 : unitQ x1 y1 z1 w1) (h2 : unitQ x2 y2 z2 w2) :
    |x1*x2+y1*y2+z1*z2+w1*w2| ≤ 1 := by
  unfold unitQ at h1 h2
  rw [abs_le]
  constructor
  · nlinarith [sq_nonneg (x1+x2), sq_nonneg (y1+y2), sq_nonneg (z1+z2), sq_nonneg (w1+w2)]
  · nlinarith [sq_nonneg (x1-x2), sq_nonneg (y1-y2), sq_nonneg (z1-z2), sq_nonneg (w1-w2)]

theorem quatDot_abs_le_one {x1 y1 z1 w1 x2 y2 z2 w2 : ℝ} (h1 : unitQ x1 y1 z1 w1)
    (h2 : unitQ x2 y2 z2 w2) : |quatDot x1 y1 z1 w1 x2 y2 z2 w2| ≤ 1 :=
  dot_abs_le_one h1 h2

theorem epsR_so3 : (eps : ℝ) = 1 / 4503599627370496 := by
  show ((1:ℕ):ℝ) / ((4503599627370496:ℕ):ℝ) = _
  norm_num

theorem epsPos_so3 : (0:ℝ) < eps := by rw [epsR_so3]; norm_num

theorem qErr_real : (qErr : ℝ) = 1 / 10^9 := by
  show ((1:ℕ):ℝ) / (10:ℝ)^9 = _
  norm_num

/-! ### (c) the clamped function (as coded) -/
theorem so3Dist_nonneg (x1 y1 z1 w1 x2 y2 z2 w2 : ℝ) : 0 ≤ so3Dist x1 y1 z1 w1 x2 y2 z2 w2 := by
  rw [so3Dist_real]
  split_ifs
  · exact le_refl _
  · exact Real.arccos_nonneg _

theorem so3Dist_self {x y z w : ℝ} (h : unitQ x y z w) : so3Dist x y z w x y z w = 0 := by
  rw [so3Dist_real]
  unfold unitQ at h
  rw [h]
  norm_num

theorem so3Dist_symm (x1 y1 z1 w1 x2 y2 z2 w2 : ℝ) :
    so3Dist x1 y1 z1 w1 x2 y2 z2 w2 = so3Dist x2 y2 z2 w2 x1 y1 z1 w1 := by
  rw [so3Dist_real, so3Dist_real]
  have : x1*x2+y1*y2+z1*z2+w1*w2 = x2*x1+y2*y1+z2*z1+w2*w1 := by ring
  rw [this]

theorem maxExtent_so3_real : maxExtent (Space.so3 : Space ℝ) = (1/2) * Real.pi := by
  show ((1:ℕ):ℝ) / ((2:ℕ):ℝ) * Real.pi = _
  norm_num

theorem so3Dist_le_extent (x1 y1 z1 w1 x2 y2 z2 w2 : ℝ) :
    so3Dist x1 y1 z1 w1 x2 y2 z2 w2 ≤ maxExtent (Space.so3 : Space ℝ) := by
  rw [maxExtent_so3_real, so3Dist_real]
  split_ifs
  · positivity
  · have := Real.arccos_le_pi_div_two.mpr (abs_nonneg (x1*x2+y1*y2+z1*z2+w1*w2))
    linarith

theorem so3Equal_real (x1 y1 z1 w1 x2 y2 z2 w2 : ℝ) :
    so3Equal x1 y1 z1 w1 x2 y2 z2 w2 = decide (so3Dist x1 y1 z1 w1 x2 y2 z2 w2 < eps) := rfl

theorem so3Dist_pos {x1 y1 z1 w1 x2 y2 z2 w2 : ℝ}
    (h : so3Equal x1 y1 z1 w1 x2 y2 z2 w2 = false) : 0 < so3Dist x1 y1 z1 w1 x2 y2 z2 w2 := by
  rw [so3Equal_real, decide_eq_false_iff_not, not_lt] at h
  exact lt_of_lt_of_le epsPos_so3 h

theorem so3Norm_unit {x y z w : ℝ} (h : unitQ x y z w) : so3Norm x y z w = 1 := by
  show (if (eps:ℝ) < |x*x+y*y+z*z+w*w - ((1:ℕ):ℝ)| then Real.sqrt (x*x+y*y+z*z+w*w) else ((1:ℕ):ℝ)) = 1
  unfold unitQ at h
  rw [h, Nat.cast_one, sub_self, abs_zero, if_neg (not_lt.mpr epsPos_so3.le)]

theorem unitQ_inBounds {x y z w : ℝ} (h : unitQ x y z w) : so3InBounds x y z w = true := by
  show decide (|so3Norm x y z w - ((1:ℕ):ℝ)| < (qErr:ℝ)) = true
  rw [so3Norm_unit h, qErr_real, decide_eq_true_iff]
  norm_num

/-! ### (b) the clamped function violates the triangle inequality (F5) -/
theorem so3_triangle_fails :
    ¬ (∀ x1 y1 z1 w1 x2 y2 z2 w2 x3 y3 z3 w3 : ℝ,
        unitQ x1 y1 z1 w1 → unitQ x2 y2 z2 w2 → unitQ x3 y3 z3 w3 →
        so3Dist x1 y1 z1 w1 x3 y3 z3 w3 ≤
          so3Dist x1 y1 z1 w1 x2 y2 z2 w2 + so3Dist x2 y2 z2 w2 x3 y3 z3 w3) := by
  intro h
  have h := h 0 0 0 1 (100000/2500000001) 0 0 (2499999999/2500000001)
    (2 * (100000/2500000001) * (2499999999/2500000001)) 0 0
    ((2499999999/2500000001)^2 - (100000/2500000001)^2)
    (by unfold unitQ; norm_num) (by unfold unitQ; norm_num) (by unfold unitQ; norm_num)
  have e13 : (0 * (2 * (100000/2500000001) * (2499999999/2500000001)) + 0*0 + 0*0 +
      1 * ((2499999999/2500000001)^2 - (100000/2500000001)^2) : ℝ)
      = 6249999985000000001/6250000005000000001 := by norm_num
  have e12 : (0 * (100000/2500000001) + 0*0 + 0*0 + 1 * (2499999999/2500000001) : ℝ)
      = 2499999999/2500000001 := by norm_num
  have e23 : ((100000/2500000001) * (2 * (100000/2500000001) * (2499999999/2500000001)) + 0*0 + 0*0 +
      (2499999999/2500000001) * ((2499999999/2500000001)^2 - (100000/2500000001)^2) : ℝ)
      = 2499999999/2500000001 := by norm_num
  rw [so3Dist_real, so3Dist_real, so3Dist_real, e13, e12, e23,
    abs_of_pos (by norm_num : (0:ℝ) < 6249999985000000001/6250000005000000001),
    abs_of_pos (by norm_num : (0:ℝ) < 2499999999/2500000001),
    if_neg (by norm_num), if_pos (by norm_num)] at h
  have hpos : 0 < Real.arccos (6249999985000000001/6250000005000000001) :=
    Real.arccos_pos.mpr (by norm_num)
  linarith

/-! ### (a) the unclamped function is a metric on unit quaternions modulo sign -/
section General
open InnerProductGeometry
variable {V : Type*} [NormedAddCommGroup V] [InnerProductSpace ℝ V]

theorem angle_unit {p q : V} (hp : ‖p‖ = 1) (hq : ‖q‖ = 1) : angle p q = Real.arccos (inner ℝ p q) := by
  unfold angle
  rw [hp, hq, mul_one, div_one]

theorem arccosAbs_le_angle {p q : V} (hp : ‖p‖ = 1) (hq : ‖q‖ = 1) :
    Real.arccos |inner ℝ p q| ≤ angle p q := by
  rw [angle_unit hp hq]
  exact Real.arccos_le_arccos (le_abs_self _)

theorem arccosAbs_eq_angle_or {p q : V} (hp : ‖p‖ = 1) (hq : ‖q‖ = 1) :
    Real.arccos |inner ℝ p q| = angle p q ∨ Real.arccos |inner ℝ p q| = angle p (-q) := by
  rcases le_or_gt 0 (inner ℝ p q) with h | h
  · left
    rw [angle_unit hp hq, abs_of_nonneg h]
  · right
    rw [angle_unit hp (by rwa [norm_neg]), abs_of_neg h, inner_neg_right]

/-- triangle inequality for `arccos |⟪·,·⟫|` on unit vectors of a real inner product space -/
theorem arccosAbs_triangle {p q r : V} (hp : ‖p‖ = 1) (hq : ‖q‖ = 1) (hr : ‖r‖ = 1) :
    Real.arccos |inner ℝ p r| ≤ Real.arccos |inner ℝ p q| + Real.arccos |inner ℝ q r| := by
  -- choose the sign of `q`
  obtain ⟨s, hs, hsq, hps⟩ : ∃ s : V, ‖s‖ = 1 ∧ |inner ℝ s r| = |inner ℝ q r| ∧
      Real.arccos |inner ℝ p q| = angle p s := by
    rcases arccosAbs_eq_angle_or hp hq with h | h
    · exact ⟨q, hq, rfl, h⟩
    · exact ⟨-q, by rwa [norm_neg], by rw [inner_neg_left, abs_neg], h⟩
  -- choose the sign of `r`
  obtain ⟨t, ht, htr, hst⟩ : ∃ t : V, ‖t‖ = 1 ∧ |inner ℝ p t| = |inner ℝ p r| ∧
      Real.arccos |inner ℝ s r| = angle s t := by
    rcases arccosAbs_eq_angle_or hs hr with h | h
    · exact ⟨r, hr, rfl, h⟩
    · exact ⟨-r, by rwa [norm_neg], by rw [inner_neg_right, abs_neg], h⟩
  calc Real.arccos |inner ℝ p r| = Real.arccos |inner ℝ p t| := by rw [htr]
    _ ≤ angle p t := arccosAbs_le_angle hp ht
    _ ≤ angle p s + angle s t := angle_le_angle_add_angle p s t
    _ = Real.arccos |inner ℝ p q| + Real.arccos |inner ℝ q r| := by rw [← hps, ← hst, hsq]

end General

/-- a quaternion as a vector of `ℝ⁴` -/
noncomputable def qVec (x y z w : ℝ) : EuclideanSpace ℝ (Fin 4) := !₂[x, y, z, w]

theorem qVec_inner (x1 y1 z1 w1 x2 y2 z2 w2 : ℝ) :
    inner ℝ (qVec x1 y1 z1 w1) (qVec x2 y2 z2 w2) = x1*x2+y1*y2+z1*z2+w1*w2 := by
  simp [qVec, PiLp.inner_apply, Fin.sum_univ_four]
  ring

theorem qVec_norm {x y z w : ℝ} (h : unitQ x y z w) : ‖qVec x y z w‖ = 1 := by
  have h2 : ‖qVec x y z w‖ ^ 2 = 1 := by
    rw [← real_inner_self_eq_norm_sq, qVec_inner]; exact h
  have := norm_nonneg (qVec x y z w)
  nlinarith

theorem so3U_nonneg (x1 y1 z1 w1 x2 y2 z2 w2 : ℝ) :
    0 ≤ so3DistUnclamped x1 y1 z1 w1 x2 y2 z2 w2 := by
  rw [so3DistUnclamped_real]; exact Real.arccos_nonneg _

theorem so3U_self {x y z w : ℝ} (h : unitQ x y z w) : so3DistUnclamped x y z w x y z w = 0 := by
  rw [so3DistUnclamped_real]
  unfold unitQ at h
  rw [h, abs_one, Real.arccos_one]

theorem so3U_symm (x1 y1 z1 w1 x2 y2 z2 w2 : ℝ) :
    so3DistUnclamped x1 y1 z1 w1 x2 y2 z2 w2 = so3DistUnclamped x2 y2 z2 w2 x1 y1 z1 w1 := by
  rw [so3DistUnclamped_real, so3DistUnclamped_real]
  have : x1*x2+y1*y2+z1*z2+w1*w2 = x2*x1+y2*y1+z2*z1+w2*w1 := by ring
  rw [this]

theorem so3U_le_half_pi (x1 y1 z1 w1 x2 y2 z2 w2 : ℝ) :
    so3DistUnclamped x1 y1 z1 w1 x2 y2 z2 w2 ≤ Real.pi / 2 := by
  rw [so3DistUnclamped_real]
  exact Real.arccos_le_pi_div_two.mpr (abs_nonneg _)

/-- (the unit hypotheses are not needed; kept for a uniform interface) -/
theorem so3U_pos {x1 y1 z1 w1 x2 y2 z2 w2 : ℝ} (_h1 : unitQ x1 y1 z1 w1) (_h2 : unitQ x2 y2 z2 w2)
    (h : |x1*x2+y1*y2+z1*z2+w1*w2| < 1) : 0 < so3DistUnclamped x1 y1 z1 w1 x2 y2 z2 w2 := by
  rw [so3DistUnclamped_real]
  exact Real.arccos_pos.mpr h

/-- identity of indiscernibles modulo the double cover: distance 0 iff `q = p` or `q = -p` -/
theorem so3U_eq_zero_iff {x1 y1 z1 w1 x2 y2 z2 w2 : ℝ} (h1 : unitQ x1 y1 z1 w1)
    (h2 : unitQ x2 y2 z2 w2) :
    so3DistUnclamped x1 y1 z1 w1 x2 y2 z2 w2 = 0 ↔
      (x2 = x1 ∧ y2 = y1 ∧ z2 = z1 ∧ w2 = w1) ∨ (x2 = -x1 ∧ y2 = -y1 ∧ z2 = -z1 ∧ w2 = -w1) := by
  rw [so3DistUnclamped_real, Real.arccos_eq_zero]
  have hle := dot_abs_le_one h1 h2
  unfold unitQ at h1 h2
  constructor
  · intro h
    have habs : |x1*x2+y1*y2+z1*z2+w1*w2| = 1 := le_antisymm hle h
    rcases (abs_eq (by norm_num : (0:ℝ) ≤ 1)).mp habs with hd | hd
    · left
      have hx : (x2-x1)^2 = 0 := by
        nlinarith [sq_nonneg (x2-x1), sq_nonneg (y2-y1), sq_nonneg (z2-z1), sq_nonneg (w2-w1)]
      have hy : (y2-y1)^2 = 0 := by
        nlinarith [sq_nonneg (x2-x1), sq_nonneg (y2-y1), sq_nonneg (z2-z1), sq_nonneg (w2-w1)]
      have hz : (z2-z1)^2 = 0 := by
        nlinarith [sq_nonneg (x2-x1), sq_nonneg (y2-y1), sq_nonneg (z2-z1), sq_nonneg (w2-w1)]
      have hw : (w2-w1)^2 = 0 := by
        nlinarith [sq_nonneg (x2-x1), sq_nonneg (y2-y1), sq_nonneg (z2-z1), sq_nonneg (w2-w1)]
      exact ⟨sub_eq_zero.mp (pow_eq_zero_iff (by norm_num) |>.mp hx),
        sub_eq_zero.mp (pow_eq_zero_iff (by norm_num) |>.mp hy),
        sub_eq_zero.mp (pow_eq_zero_iff (by norm_num) |>.mp hz),
        sub_eq_zero.mp (pow_eq_zero_iff (by norm_num) |>.mp hw)⟩
    · right
      have hx : (x2+x1)^2 = 0 := by
        nlinarith [sq_nonneg (x2+x1), sq_nonneg (y2+y1), sq_nonneg (z2+z1), sq_nonneg (w2+w1)]
      have hy : (y2+y1)^2 = 0 := by
        nlinarith [sq_nonneg (x2+x1), sq_nonneg (y2+y1), sq_nonneg (z2+z1), sq_nonneg (w2+w1)]
      have hz : (z2+z1)^2 = 0 := by
        nlinarith [sq_nonneg (x2+x1), sq_nonneg (y2+y1), sq_nonneg (z2+z1), sq_nonneg (w2+w1)]
      have hw : (w2+w1)^2 = 0 := by
        nlinarith [sq_nonneg (x2+x1), sq_nonneg (y2+y1), sq_nonneg (z2+z1), sq_nonneg (w2+w1)]
      exact ⟨eq_neg_of_add_eq_zero_left (pow_eq_zero_iff (by norm_num) |>.mp hx),
        eq_neg_of_add_eq_zero_left (pow_eq_zero_iff (by norm_num) |>.mp hy),
        eq_neg_of_add_eq_zero_left (pow_eq_zero_iff (by norm_num) |>.mp hz),
        eq_neg_of_add_eq_zero_left (pow_eq_zero_iff (by norm_num) |>.mp hw)⟩
  · rintro (⟨rfl, rfl, rfl, rfl⟩ | ⟨rfl, rfl, rfl, rfl⟩)
    · rw [h1, abs_one]
    · have : x1 * -x1 + y1 * -y1 + z1 * -z1 + w1 * -w1 = -1 := by linarith
      rw [this, abs_neg, abs_one]

theorem so3U_triangle {x1 y1 z1 w1 x2 y2 z2 w2 x3 y3 z3 w3 : ℝ}
    (h1 : unitQ x1 y1 z1 w1) (h2 : unitQ x2 y2 z2 w2) (h3 : unitQ x3 y3 z3 w3) :
    so3DistUnclamped x1 y1 z1 w1 x3 y3 z3 w3 ≤
      so3DistUnclamped x1 y1 z1 w1 x2 y2 z2 w2 + so3DistUnclamped x2 y2 z2 w2 x3 y3 z3 w3 := by
  rw [so3DistUnclamped_real, so3DistUnclamped_real, so3DistUnclamped_real,
    ← qVec_inner, ← qVec_inner, ← qVec_inner]
  exact arccosAbs_triangle (qVec_norm h1) (qVec_norm h2) (qVec_norm h3)

/-! ### how far the clamped function is from a metric -/
theorem so3Dist_le_unclamped (x1 y1 z1 w1 x2 y2 z2 w2 : ℝ) :
    so3Dist x1 y1 z1 w1 x2 y2 z2 w2 ≤ so3DistUnclamped x1 y1 z1 w1 x2 y2 z2 w2 := by
  rw [so3Dist_real, so3DistUnclamped_real]
  split_ifs
  · exact Real.arccos_nonneg _
  · exact le_refl _

theorem so3U_le_clamped_add (x1 y1 z1 w1 x2 y2 z2 w2 : ℝ) :
    so3DistUnclamped x1 y1 z1 w1 x2 y2 z2 w2 ≤
      so3Dist x1 y1 z1 w1 x2 y2 z2 w2 + Real.arccos (1 - 1/10^9) := by
  rw [so3Dist_real, so3DistUnclamped_real]
  split_ifs with h
  · rw [zero_add]; exact Real.arccos_le_arccos h.le
  · have := Real.arccos_nonneg (1 - 1/10^9)
    linarith

/-- the triangle inequality holds for the clamped function up to `2·acos(1 - 1e-9)` (≈ 8.9e-5) -/
theorem so3_triangle_partial {x1 y1 z1 w1 x2 y2 z2 w2 x3 y3 z3 w3 : ℝ}
    (h1 : unitQ x1 y1 z1 w1) (h2 : unitQ x2 y2 z2 w2) (h3 : unitQ x3 y3 z3 w3) :
    so3Dist x1 y1 z1 w1 x3 y3 z3 w3 ≤
      so3Dist x1 y1 z1 w1 x2 y2 z2 w2 + so3Dist x2 y2 z2 w2 x3 y3 z3 w3 +
        2 * Real.arccos (1 - 1/10^9) := by
  have a := so3Dist_le_unclamped x1 y1 z1 w1 x3 y3 z3 w3
  have b := so3U_triangle h1 h2 h3
  have c := so3U_le_clamped_add x1 y1 z1 w1 x2 y2 z2 w2
  have d := so3U_le_clamped_add x2 y2 z2 w2 x3 y3 z3 w3
  linarith

end OmplModel.SpaceDist
