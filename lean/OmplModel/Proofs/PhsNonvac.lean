import OmplModel.Proofs.PhsMore
/-!
Non-vacuity witnesses for the informed-sampling theorems (C15): the hypotheses of the main theorems
are jointly satisfiable on non-trivial instances.
-/
namespace OmplModel.Phs
open OmplModel
attribute [-instance] Num.instOfNat

namespace PhsNonvac
open PhsBridge PhsLogic PhsCap PhsMore

/-! ### generic (arithmetic-free) one-step successes -/

section generic
variable {α : Type} [Num α] {ρ σ : Type}

/-- (C) one draw whose transform is kept, in bounds and in some PHS is a success of the fixed loop -/
theorem phsRejectBounds_one_success (s : Sampler α) (inB : List α × ρ → Bool) (lim : Nat)
    (hl : 0 < lim) (d : Draw α ρ) (cur : List α × ρ) (p : Phs α) (x : List α)
    (hr : s.randomPhs d.r1 = some p) (ht : p.transform d.ball = some x)
    (hk : s.keep x d.r2 = true) (hb : inB (x, d.rot) = true) (hany : s.isInAny x = true) :
    phsRejectBounds s inB lim [d] cur 0 = ⟨true, (x, d.rot), 1, [], false, false⟩ := by
  simp [phsRejectBounds, hl, hr, ht, hk, hb, hany]

/-- (ii) `ordered_success_sound` is not vacuous: a successful wrapped call below the bound is
returned -/
theorem ordered_one_success (h : σ → α) (c : α) (t : σ) (ht : h t < c) :
    orderedSample h c [[(true, t)]] = .found t [t] := by
  simp [orderedSample, argBest, ht]

/-- (iii) `rejSample2_sound` is not vacuous: one base draw below the bound is a success -/
theorem rejSample2_one_success (h : List α × ρ → α) (c : α) (d : Draw α ρ) (cur : List α × ρ)
    (hd : h (d.baseInf, d.baseRest) < c) :
    rejSample2 h 1 c [d] cur = ⟨true, (d.baseInf, d.baseRest), 1, [], false, false⟩ := by
  simp [rejSample2, rejInner, rejectLoop, hd]

/-- `orderedRun_sound` is not vacuous: from an empty queue, one successful wrapped call below the
bound is returned, leaving an empty queue -/
theorem orderedRun_one_success (h : σ → α) (c : α) (t : σ) (ht : h t < c) :
    orderedRun h c (fun _ : Unit => some ([(true, t)], ())) [] () = .found t [] () := by
  simp [orderedRun, orderedFresh, popBest, ht]

end generic

/-! ### the 2-D instance: foci `(-3,0)`, `(3,0)`, identity rotation, `c = 10` -/

/-- distance between the foci of the instance -/
theorem ex_cmin : vnorm (vsub ([-3, 0] : List ℝ) [3, 0]) = 6 := by
  have h := vnorm_sq_2d (-3) 0 3 0
  have h0 : 0 ≤ vnorm (vsub ([-3, 0] : List ℝ) [3, 0]) := by
    rw [vnorm, PhsR.sqrt_eq]; exact Real.sqrt_nonneg _
  have h36 : vnorm (vsub ([-3, 0] : List ℝ) [3, 0]) ^ 2 = 6 ^ 2 := by rw [h]; norm_num
  exact PhsGeom.eq_of_sq_eq h0 (by norm_num) h36

/-- (iv) `setup_of_lists` applies to the instance -/
theorem ex_setup_of_lists : Setup 1 [-3, 0] [3, 0] [[1, 0], [0, 1]] := by
  refine setup_of_lists rfl rfl rfl ?_ ?_ ?_ ?_
  · intro col hcol
    simp only [List.mem_cons, List.not_mem_nil, or_false] at hcol
    rcases hcol with rfl | rfl <;> rfl
  · intro i j
    rw [Fin.sum_univ_two]
    fin_cases i <;> fin_cases j
    · show (1 : ℝ) * 1 + 0 * 0 = 1
      norm_num
    · show (1 : ℝ) * 0 + 0 * 1 = 0
      norm_num
    · show (0 : ℝ) * 1 + 1 * 0 = 0
      norm_num
    · show (0 : ℝ) * 0 + 1 * 1 = 1
      norm_num
  · rw [ex_cmin]; norm_num
  · intro k
    rw [ex_cmin]
    fin_cases k
    · show (1 : ℝ) = (3 - -3) / 6
      norm_num
    · show (0 : ℝ) = (0 - 0) / 6
      norm_num

/-- (v) `measure_formula` on the instance: the planar PHS with `cmin = 6`, `c = 10` has measure
`π · 5 · 4` -/
theorem ex_measure : phsMeasure 2 (6 : ℝ) 10 = some (Real.pi * 5 * 4) := by
  rw [PhsMeasure.measure_formula 2 6 10 (by norm_num), PhsMeasure.unitNBall_two]
  have h8 : Real.sqrt ((10 : ℝ) ^ 2 - 6 ^ 2) = 8 := by
    rw [show ((10 : ℝ) ^ 2 - 6 ^ 2) = 8 ^ 2 by norm_num]
    exact Real.sqrt_sq (by norm_num)
  rw [h8]
  norm_num

/-! ### (i) a concrete successful run of the direct sampler (finite bound, PHS branch) -/

/-- the PHS of the instance, before `setTransverseDiameter` -/
noncomputable def exPhs : Phs ℝ := Phs.mk' 0 [-3, 0] [3, 0] [[1, 0], [0, 1]]

/-- a sampler with that single PHS; the informed-subspace measure equals the PHS measure, so the
PHS branch is taken -/
noncomputable def exSampler : Sampler ℝ :=
  { phss := [exPhs], summed := 0, numIters := 1, infMeasure := phsMeasureD 2 exPhs.cmin 10,
    unMeasure := none, spaceMeasure := 1000 }

/-- one draw: ball point at the centre -/
def exDraw : Draw ℝ Unit :=
  { baseInf := [0, 0], baseRest := (), r1 := 0, ball := [0, 0], r2 := 0, rot := () }

/-- `cmin = 6 < 10` -/
theorem ex_cmin_lt : exPhs.cmin < 10 := by
  show vnorm (vsub ([-3, 0] : List ℝ) [3, 0]) < 10
  rw [ex_cmin]; norm_num

/-- the updated sampler -/
theorem ex_update : exSampler.update 10
    = { exSampler with phss := [exPhs.setC 10], summed := 0 + (exPhs.setC 10).measure } := by
  have h : @LT.lt ℝ instNumRealP.toLT exPhs.cmin 10 := ex_cmin_lt
  simp only [Sampler.update, exSampler, updLoop, if_pos h, List.reverse_cons, List.reverse_nil,
    List.nil_append, PhsR.ofNat_eq, Nat.cast_zero]

/-- the PHS branch is taken -/
theorem ex_branch : (exSampler.update 10).useBoundsBranch = false := by
  rw [ex_update]
  simp only [Sampler.useBoundsBranch, List.length_cons, List.length_nil, PhsR.ofNat_eq,
    decide_eq_false_iff_not]
  show ¬ (phsMeasureD 2 exPhs.cmin 10 < (0 + phsMeasureD 2 exPhs.cmin 10) / ((0 + 1 : ℕ) : ℝ))
  rw [zero_add, Nat.zero_add, Nat.cast_one, div_one]
  exact lt_irrefl _

/-- **Non-vacuity of `sample_success_sound` / `DirectOk` (finite bound, PHS branch)**: the run
succeeds. -/
theorem ex_success :
    (exSampler.sample2 (fun _ => true) true 10 [exDraw] (([] : List ℝ), ())).2.found = true := by
  have hsq : sumSq ([0, 0] : List ℝ) < 1 := by
    rw [sumSq_eq (n := 2) rfl, Fin.sum_univ_two]
    show ((0 : ℝ)) ^ 2 + (0 : ℝ) ^ 2 < 1
    norm_num
  obtain ⟨x, hx, _, hin⟩ :=
    model_phs_interior ex_setup_of_lists 0 10 (u := [0, 0]) rfl hsq ex_cmin_lt
  have hr : (exSampler.update 10).randomPhs exDraw.r1 = some (exPhs.setC 10) := by
    rw [ex_update]; rfl
  have hk : (exSampler.update 10).keep x exDraw.r2 = true := by
    rw [ex_update]; rfl
  have hany : (exSampler.update 10).isInAny x = true := by
    rw [ex_update]
    show ([exPhs.setC 10].any (·.isIn x)) = true
    rw [List.any_cons, List.any_nil, Bool.or_false]
    exact hin
  unfold Sampler.sample2
  rw [sampleInner_fin_phs _ _ _ _ _ _ ex_branch,
    phsRejectBounds_one_success (exSampler.update 10) (fun _ => true) exSampler.numIters
      (by show 0 < 1; norm_num) exDraw _ (exPhs.setC 10) x hr hx hk rfl hany]

/-- the conclusion of `sample_success_sound` on that run -/
example :
    DirectOk (exSampler.update 10) (fun _ => true) true [exDraw]
      (exSampler.sample2 (fun _ => true) true 10 [exDraw] (([] : List ℝ), ())).2.st :=
  (sample_success_sound exSampler (fun _ => true) true 10 [exDraw] ([], ())
    (fun _ _ => rfl) ex_success).2.1

end PhsNonvac
end OmplModel.Phs
