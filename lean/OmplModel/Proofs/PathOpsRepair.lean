import OmplModel.Model.PathOpsRepair
/-
Theorems about the model of `PathGeometric::checkAndRepair` (Model/PathOpsRepair.lean), for EVERY
environment `E : RepairEnv σ` (validity oracle, motion oracle, raw sample stream, attempt count) and
every input path.  Core Lean only.
-/
namespace OmplModel.PathOps

variable {σ : Type}

/-! ## auxiliary notions -/

/-- motion `j` of `st` is answered true (vacuous when `j + 1` is out of range) -/
def Mot (E : RepairEnv σ) (st : List σ) (j : Nat) : Prop :=
  ∀ a b, st[j]? = some a → st[j + 1]? = some b → E.cm a b = true

/-- a motion of a list sits at some index pair `(j, j + 1)` -/
theorem mem_adj_index : ∀ (l : List σ) (p : σ × σ), p ∈ adj l →
    ∃ j, l[j]? = some p.1 ∧ l[j + 1]? = some p.2
  | [], p, h => by simp [adj] at h
  | [_], p, h => by simp [adj] at h
  | a :: b :: r, p, h => by
    simp only [adj, List.mem_cons] at h
    rcases h with rfl | h
    · exact ⟨0, rfl, rfl⟩
    · obtain ⟨j, h1, h2⟩ := mem_adj_index (b :: r) p h
      exact ⟨j + 1, by simpa using h1, by simpa using h2⟩

/-! ## sampleNear -/

theorem sampleNearGo_spec (E : RepairEnv σ) : ∀ (more k : Nat),
    (sampleNearGo E more k).2.1 = E.valid (sampleNearGo E more k).1 ∧
      ∃ j, (sampleNearGo E more k).1 = E.samp j
  | 0, k => ⟨rfl, k, rfl⟩
  | more + 1, k => by
    unfold sampleNearGo
    split
    · rename_i hv
      exact ⟨hv.symm, k, rfl⟩
    · exact sampleNearGo_spec E more (k + 1)

theorem sampleNear_spec (E : RepairEnv σ) (k : Nat) {s : σ} {ok : Bool} {k' : Nat}
    (h : sampleNear E k = (s, ok, k')) : ok = E.valid s ∧ ∃ j, s = E.samp j := by
  have := sampleNearGo_spec E (E.attempts - 1) k
  unfold sampleNear at h
  rw [h] at this
  exact this

/-! ## repairedOk -/

theorem repairedOk_isSome (E : RepairEnv σ) (st : List σ) (i : Nat) (h1 : 1 ≤ i)
    (h2 : i + 1 < st.length) : ∃ b, repairedOk E st i = some b := by
  have hp : st[i - 1]? = some st[i - 1] := List.getElem?_eq_getElem (by omega)
  have hc : st[i]? = some st[i] := List.getElem?_eq_getElem (by omega)
  have hn : st[i + 1]? = some st[i + 1] := List.getElem?_eq_getElem (by omega)
  unfold repairedOk
  simp only [hp, hc, hn]
  split
  · split
    · exact ⟨_, rfl⟩
    · exact ⟨_, rfl⟩
  · exact ⟨_, rfl⟩

theorem repairedOk_true (E : RepairEnv σ) (st : List σ) (i : Nat)
    (h : repairedOk E st i = some true) :
    (∀ p c, st[i - 1]? = some p → st[i]? = some c → E.cm p c = true) ∧
    (st.length ≤ i + 2 → ∀ c n, st[i]? = some c → st[i + 1]? = some n → E.cm c n = true) := by
  unfold repairedOk at h
  split at h
  · rename_i p c hp hc
    split at h
    · rename_i hpc
      refine ⟨?_, ?_⟩
      · intro p' c' hp' hc'
        rw [hp] at hp'; rw [hc] at hc'
        cases hp'; cases hc'; exact hpc
      · intro hlen c' n' hc' hn'
        rw [hc] at hc'; cases hc'
        split at h
        · omega
        · rw [hn'] at h
          simpa using h
    · cases h
  · cases h

/-- the loop header's test is the negation of `repairedOk` -/
theorem repairLoop_succ (E : RepairEnv σ) (todo i k : Nat) (st : List σ) (used : Bool) :
    repairLoop E (todo + 1) i k st used =
      match repairedOk E st i with
      | none => none
      | some true => repairLoop E todo (i + 1) k st used
      | some false =>
        match tryRepair E i E.attempts k st with
        | none => none
        | some (st', true, k') => repairLoop E todo (i + 1) k' st' true
        | some (st', false, _) => some (st', false, false) := by
  rw [repairLoop]
  unfold repairedOk
  cases st[i - 1]? with
  | none => rfl
  | some p =>
    cases st[i]? with
    | none => rfl
    | some c =>
      simp only []
      by_cases hpc : E.cm p c = true
      · simp only [hpc, if_true]
        by_cases hlen : i + 2 < st.length
        · simp only [hlen, if_true]
        · simp only [hlen, if_false]
          cases st[i + 1]? with
          | none => rfl
          | some n =>
            simp only []
            generalize E.cm c n = x
            cases x <;> rfl
      · simp only [hpc]
        rfl

/-! ## tryRepair -/

theorem tryRepair_isSome (E : RepairEnv σ) (i : Nat) (h1 : 1 ≤ i) : ∀ (a k : Nat) (st : List σ),
    i + 1 < st.length → ∃ r, tryRepair E i a k st = some r
  | 0, k, st, _ => ⟨_, rfl⟩
  | a + 1, k, st, h2 => by
    unfold tryRepair
    generalize sampleNear E k = r
    obtain ⟨s, ok, k'⟩ := r
    have hset : setChk st i s = some (st.set i s) := by
      unfold setChk; rw [if_pos (by omega)]
    simp only [hset]
    cases ok with
    | false => exact ⟨_, rfl⟩
    | true =>
      simp only [if_true]
      obtain ⟨b, hb⟩ := repairedOk_isSome E (st.set i s) i h1 (by simpa using h2)
      rw [hb]
      cases b with
      | true => exact ⟨_, rfl⟩
      | false => exact tryRepair_isSome E i h1 a k' (st.set i s) (by simpa using h2)

/-- `tryRepair` leaves the path alone (zero attempts) or overwrites ONLY index `i` with a raw sample;
on success that sample was answered valid and passes `repairedOk` -/
theorem tryRepair_spec (E : RepairEnv σ) (i : Nat) : ∀ (a k : Nat) (st st' : List σ) (ok : Bool) (k' : Nat),
    tryRepair E i a k st = some (st', ok, k') →
    (st' = st ∧ ok = false) ∨
    (∃ s, i < st.length ∧ st' = st.set i s ∧ (∃ j, s = E.samp j) ∧
      (ok = true → E.valid s = true ∧ repairedOk E st' i = some true))
  | 0, k, st, st', ok, k', h => by
    simp only [tryRepair, Option.some.injEq, Prod.mk.injEq] at h
    exact Or.inl ⟨h.1.symm, h.2.1.symm⟩
  | a + 1, k, st, st', ok, k', h => by
    unfold tryRepair at h
    generalize hr : sampleNear E k = r at h
    obtain ⟨s, okk, k2⟩ := r
    obtain ⟨hokk, hsamp⟩ := sampleNear_spec E k hr
    simp only [] at h
    by_cases hi : i < st.length
    · have hset : setChk st i s = some (st.set i s) := by
        unfold setChk; rw [if_pos hi]
      simp only [hset] at h
      cases okk with
      | false =>
        simp only [Bool.false_eq_true, if_false, Option.some.injEq, Prod.mk.injEq] at h
        obtain ⟨rfl, rfl, _⟩ := h
        exact Or.inr ⟨s, hi, rfl, hsamp, fun hc => by cases hc⟩
      | true =>
        simp only [if_true] at h
        generalize hro : repairedOk E (st.set i s) i = ro at h
        cases ro with
        | none => cases h
        | some b =>
          cases b with
          | true =>
            simp only [Option.some.injEq, Prod.mk.injEq] at h
            obtain ⟨rfl, rfl, _⟩ := h
            exact Or.inr ⟨s, hi, rfl, hsamp, fun _ => ⟨hokk.symm, hro⟩⟩
          | false =>
            simp only [] at h
            rcases tryRepair_spec E i a k2 (st.set i s) st' ok k' h with ⟨rfl, rfl⟩ | ⟨s2, _, rfl, hs2, hok2⟩
            · exact Or.inr ⟨s, hi, rfl, hsamp, fun hc => by cases hc⟩
            · refine Or.inr ⟨s2, hi, ?_, hs2, ?_⟩
              · rw [List.set_set]
              · rw [List.set_set] at hok2 ⊢
                exact hok2
    · have hset : setChk st i s = none := by
        unfold setChk; rw [if_neg hi]
      simp only [hset] at h
      cases h

/-! ## the loop -/

/-- what one run of `repairLoop` from `(i, st)` guarantees about its result -/
structure LoopSpec (E : RepairEnv σ) (i : Nat) (st out : List σ) (orig res used : Bool) : Prop where
  len : out.length = st.length
  /-- indices below `i` and the last index are not written -/
  keep : ∀ j, j < i ∨ st.length ≤ j + 1 → out[j]? = st[j]?
  /-- every other state is untouched or a raw sample, answered valid if the run succeeded -/
  states : ∀ j (hj : j < out.length), out[j]? = st[j]? ∨
    ((∃ k, out[j] = E.samp k) ∧ (res = true → E.valid out[j] = true))
  orig : orig = true → out = st ∧ used = false
  /-- if the motions below `i` (all motions once `i` is the last index) are fine, a successful run
  leaves all motions fine -/
  mot : res = true → (∀ j, (j + 1 < i ∨ st.length ≤ i + 1) → Mot E st j) → ∀ j, Mot E out j

theorem repairLoop_spec (E : RepairEnv σ) : ∀ (todo i k : Nat) (st : List σ) (used : Bool)
    (out : List σ) (orig res : Bool), 1 ≤ i → todo + i + 1 = st.length →
    repairLoop E todo i k st used = some (out, orig, res) → LoopSpec E i st out orig res used
  | 0, i, k, st, used, out, orig, res, _, hn, h => by
    simp only [repairLoop, Option.some.injEq, Prod.mk.injEq] at h
    obtain ⟨rfl, rfl, rfl⟩ := h
    exact { len := rfl, keep := fun _ _ => rfl, states := fun _ _ => Or.inl rfl,
            orig := fun h => ⟨rfl, by simpa using h⟩,
            mot := fun _ hinv j => hinv j (Or.inr (by omega)) }
  | todo + 1, i, k, st, used, out, orig, res, h1, hn, h => by
    rw [repairLoop_succ] at h
    generalize hro : repairedOk E st i = ro at h
    cases ro with
    | none => cases h
    | some b =>
      cases b with
      | true =>
        -- nothing to repair at `i`
        simp only [] at h
        have ih := repairLoop_spec E todo (i + 1) k st used out orig res (by omega) (by omega) h
        obtain ⟨hm1, hm2⟩ := repairedOk_true E st i hro
        refine { len := ih.len, keep := fun j hj => ih.keep j (by omega), states := ih.states,
                 orig := ih.orig, mot := fun hres hinv => ih.mot hres ?_ }
        intro j hj a b ha hb
        by_cases hj1 : j + 1 < i
        · exact hinv j (Or.inl hj1) a b ha hb
        · by_cases hj2 : j + 1 = i
          · subst hj2
            exact hm1 a b (by simpa using ha) hb
          · by_cases hj3 : j = i
            · subst hj3
              exact hm2 (by omega) a b ha hb
            · have : st[j + 1]? = none := List.getElem?_eq_none (by omega)
              rw [this] at hb; cases hb
      | false =>
        simp only [] at h
        generalize htr : tryRepair E i E.attempts k st = tr at h
        cases tr with
        | none => cases h
        | some r =>
          obtain ⟨st', ok, k'⟩ := r
          have hspec := tryRepair_spec E i E.attempts k st st' ok k' htr
          cases ok with
          | false =>
            -- failed repair: `(st', false, false)`
            simp only [Option.some.injEq, Prod.mk.injEq] at h
            obtain ⟨rfl, rfl, rfl⟩ := h
            rcases hspec with ⟨rfl, _⟩ | ⟨s, hi, rfl, hsamp, _⟩
            · exact { len := rfl, keep := fun _ _ => rfl, states := fun _ _ => Or.inl rfl,
                      orig := fun h => (by cases h), mot := fun h => (by cases h) }
            · refine { len := by simp, keep := ?_, states := ?_,
                       orig := fun h => (by cases h), mot := fun h => (by cases h) }
              · intro j hj
                rw [List.getElem?_set_ne (by omega)]
              · intro j hj
                by_cases hji : i = j
                · subst hji
                  refine Or.inr ⟨?_, fun h => by cases h⟩
                  simpa using hsamp
                · exact Or.inl (List.getElem?_set_ne hji)
          | true =>
            simp only [] at h
            rcases hspec with ⟨_, hc⟩ | ⟨s, hi, rfl, hsamp, hok⟩
            · cases hc
            · obtain ⟨hvalid, hro'⟩ := hok rfl
              have ih := repairLoop_spec E todo (i + 1) k' (st.set i s) true out orig res
                (by omega) (by simp; omega) h
              obtain ⟨hm1, hm2⟩ := repairedOk_true E (st.set i s) i hro'
              have hlen := ih.len
              simp only [List.length_set] at hlen
              refine { len := hlen, keep := ?_, states := ?_, orig := ?_, mot := ?_ }
              · intro j hj
                rw [ih.keep j (by simp only [List.length_set]; omega)]
                exact List.getElem?_set_ne (by omega)
              · intro j hj
                rcases ih.states j hj with hs | hs
                · by_cases hji : i = j
                  · subst hji
                    have hget : out[i]? = some s := by
                      rw [hs]; exact List.getElem?_set_self hi
                    have hoi : out[i] = s := by
                      have := List.getElem?_eq_getElem hj
                      rw [hget] at this
                      exact (Option.some.inj this).symm
                    refine Or.inr ⟨?_, fun _ => ?_⟩
                    · rw [hoi]; exact hsamp
                    · rw [hoi]; exact hvalid
                  · exact Or.inl (by rw [hs]; exact List.getElem?_set_ne hji)
                · exact Or.inr hs
              · intro h
                have := (ih.orig h).2
                cases this
              · intro hres hinv
                apply ih.mot hres
                intro j hj a b ha hb
                simp only [List.length_set] at hj
                by_cases hj1 : j + 1 < i
                · rw [List.getElem?_set_ne (by omega)] at ha hb
                  exact hinv j (Or.inl hj1) a b ha hb
                · by_cases hj2 : j + 1 = i
                  · subst hj2
                    exact hm1 a b (by simpa using ha) hb
                  · by_cases hj3 : j = i
                    · subst hj3
                      exact hm2 (by simp only [List.length_set]; omega) a b ha hb
                    · have : (st.set i s)[j + 1]? = none :=
                        List.getElem?_eq_none (by simp only [List.length_set]; omega)
                      rw [this] at hb; cases hb

theorem repairLoop_isSome (E : RepairEnv σ) : ∀ (todo i k : Nat) (st : List σ) (used : Bool),
    1 ≤ i → todo + i + 1 = st.length → ∃ r, repairLoop E todo i k st used = some r
  | 0, _, _, _, _, _, _ => ⟨_, rfl⟩
  | todo + 1, i, k, st, used, h1, hn => by
    rw [repairLoop_succ]
    obtain ⟨b, hb⟩ := repairedOk_isSome E st i h1 (by omega)
    rw [hb]
    cases b with
    | true => exact repairLoop_isSome E todo (i + 1) k st used (by omega) (by omega)
    | false =>
      simp only []
      obtain ⟨r, hr⟩ := tryRepair_isSome E i h1 E.attempts k st (by omega)
      obtain ⟨st', ok, k'⟩ := r
      have hspec := tryRepair_spec E i E.attempts k st st' ok k' hr
      rw [hr]
      cases ok with
      | false => exact ⟨_, rfl⟩
      | true =>
        simp only []
        apply repairLoop_isSome E todo (i + 1) k' st' true (by omega)
        rcases hspec with ⟨rfl, _⟩ | ⟨s, _, rfl, _, _⟩
        · omega
        · simp only [List.length_set]; omega

/-! ## checkAndRepair -/

/-- unfolding on a path with at least three states -/
theorem checkAndRepair_long (E : RepairEnv σ) (a b c : σ) (r : List σ) :
    ∃ l, (a :: b :: c :: r).getLast? = some l ∧
      checkAndRepair E (a :: b :: c :: r) =
        if !E.valid a || !E.valid l then some (a :: b :: c :: r, false, false)
        else repairLoop E (r.length + 1) 1 0 (a :: b :: c :: r) false := by
  cases hl : (a :: b :: c :: r).getLast? with
  | none => simp at hl
  | some l =>
    refine ⟨l, rfl, ?_⟩
    unfold checkAndRepair
    simp only [List.head?_cons, hl, List.length_cons]
    rfl

theorem all_adj_of_mot (E : RepairEnv σ) (l : List σ) (h : ∀ j, Mot E l j) :
    (adj l).all (fun p => E.cm p.1 p.2) = true := by
  rw [List.all_eq_true]
  intro p hp
  obtain ⟨j, h1, h2⟩ := mem_adj_index l p hp
  exact h j p.1 p.2 h1 h2

/-- the facts all result theorems are read off from: the early returns (path returned as it is; a
`true` there is a full `check()` except for the two-state path, where only `checkMotion` is asked),
or the loop started at `i = 1` on a path with at least three states and a valid first state -/
theorem checkAndRepair_spec {E : RepairEnv σ} {path out : List σ} {orig res : Bool}
    (h : checkAndRepair E path = some (out, orig, res)) :
    (out = path ∧ (res = true → checkPath E.valid E.cm out = true)) ∨
    (∃ a b, path = [a, b] ∧ out = path ∧ res = E.cm a b) ∨
    (3 ≤ path.length ∧ (∃ f, path.head? = some f ∧ E.valid f = true) ∧
      LoopSpec E 1 path out orig res false) := by
  match path, h with
  | [], h =>
    simp only [checkAndRepair, Option.some.injEq, Prod.mk.injEq] at h
    obtain ⟨rfl, _, _⟩ := h
    exact Or.inl ⟨rfl, fun _ => rfl⟩
  | [s], h =>
    simp only [checkAndRepair, Option.some.injEq, Prod.mk.injEq] at h
    obtain ⟨rfl, _, rfl⟩ := h
    exact Or.inl ⟨rfl, fun hv => by simp [checkPath, adj, hv]⟩
  | [a, b], h =>
    simp only [checkAndRepair, Option.some.injEq, Prod.mk.injEq] at h
    obtain ⟨rfl, _, rfl⟩ := h
    exact Or.inr (Or.inl ⟨a, b, rfl, rfl, rfl⟩)
  | a :: b :: c :: r, h =>
    obtain ⟨l, hl, heq⟩ := checkAndRepair_long E a b c r
    rw [heq] at h
    split at h
    · simp only [Option.some.injEq, Prod.mk.injEq] at h
      obtain ⟨rfl, _, rfl⟩ := h
      exact Or.inl ⟨rfl, fun hc => by cases hc⟩
    · rename_i hv
      have hva : E.valid a = true := by
        cases hx : E.valid a <;> simp [hx] at hv ⊢
      refine Or.inr (Or.inr ⟨by simp, ⟨a, rfl, hva⟩, ?_⟩)
      exact repairLoop_spec E _ 1 0 _ false out orig res (by omega) (by simp) h

/-! ## the result theorems -/

/-- checked indexing never fails -/
theorem checkAndRepair_isSome (E : RepairEnv σ) (path : List σ) :
    (checkAndRepair E path).isSome = true := by
  match path with
  | [] => rfl
  | [s] => rfl
  | [a, b] => rfl
  | a :: b :: c :: r =>
    obtain ⟨l, _, heq⟩ := checkAndRepair_long E a b c r
    rw [heq]
    split
    · rfl
    · obtain ⟨r', hr⟩ := repairLoop_isSome E (r.length + 1) 1 0 (a :: b :: c :: r) false
        (by omega) (by simp)
      rw [hr]; rfl

/-- the number of states never changes; first and last state are kept -/
theorem checkAndRepair_shape {E : RepairEnv σ} {path out : List σ} {orig res : Bool}
    (h : checkAndRepair E path = some (out, orig, res)) :
    out.length = path.length ∧ out.head? = path.head? ∧ out.getLast? = path.getLast? := by
  rcases checkAndRepair_spec h with ⟨rfl, _⟩ | ⟨a, b, _, rfl, _⟩ | ⟨hlen, _, hs⟩
  · exact ⟨rfl, rfl, rfl⟩
  · exact ⟨rfl, rfl, rfl⟩
  · refine ⟨hs.len, ?_, ?_⟩
    · rw [List.head?_eq_getElem?, List.head?_eq_getElem?]
      exact hs.keep 0 (Or.inl (by omega))
    · rw [List.getLast?_eq_getElem?, List.getLast?_eq_getElem?, hs.len]
      exact hs.keep _ (Or.inr (by omega))

/-- every state of the result is the input state at that index or a raw sample -/
theorem checkAndRepair_states {E : RepairEnv σ} {path out : List σ} {orig res : Bool}
    (h : checkAndRepair E path = some (out, orig, res)) :
    ∀ i (hi : i < out.length), out[i]? = path[i]? ∨ ∃ k, out[i] = E.samp k := by
  intro i hi
  rcases checkAndRepair_spec h with ⟨rfl, _⟩ | ⟨a, b, _, rfl, _⟩ | ⟨_, _, hs⟩
  · exact Or.inl rfl
  · exact Or.inl rfl
  · rcases hs.states i hi with h1 | ⟨h1, _⟩
    · exact Or.inl h1
    · exact Or.inr h1

/-- SUCCESS MEANS EVERY MOTION CHECKED (all path lengths): if the second component is true, every
motion of the result was answered true by `checkMotion` -/
theorem checkAndRepair_true_motions {E : RepairEnv σ} {path out : List σ} {orig : Bool}
    (h : checkAndRepair E path = some (out, orig, true)) :
    (adj out).all (fun p => E.cm p.1 p.2) = true := by
  rcases checkAndRepair_spec h with ⟨rfl, hc⟩ | ⟨a, b, rfl, rfl, hres⟩ | ⟨hlen, _, hs⟩
  · have := hc rfl
    unfold checkPath at this
    split at this
    · rfl
    · simp only [Bool.and_eq_true] at this
      exact this.2
  · simp [adj, ← hres]
  · exact all_adj_of_mot E out (hs.mot rfl (fun j hj => by omega))

/-- SUCCESS MEANS CHECKED, closest true statement: if the second component is true, the result passes
`check()` — PROVIDED the path does not have exactly two states with a first state answered invalid.
(For a two-state path the routine returns `checkMotion(s0, s1)` twice and never asks `isValid(s0)`,
whereas `check()` does; see `checkAndRepair_two_states_first_unchecked`.) -/
theorem checkAndRepair_true_implies_check_partial {E : RepairEnv σ} {path out : List σ} {orig : Bool}
    (h : checkAndRepair E path = some (out, orig, true))
    (h2 : path.length = 2 → ∀ f, path.head? = some f → E.valid f = true) :
    checkPath E.valid E.cm out = true := by
  have hmot := checkAndRepair_true_motions h
  rcases checkAndRepair_spec h with ⟨rfl, hc⟩ | ⟨a, b, rfl, rfl, hres⟩ | ⟨hlen, ⟨f, hf, hvf⟩, hs⟩
  · exact hc rfl
  · have hva := h2 rfl a rfl
    simp only [checkPath, Bool.and_eq_true]
    exact ⟨hva, hmot⟩
  · have h0 : out[0]? = path[0]? := hs.keep 0 (Or.inl (by omega))
    rw [← List.head?_eq_getElem?, ← List.head?_eq_getElem?, hf] at h0
    match out, h0 with
    | g :: t, h0 =>
      simp only [List.head?_cons, Option.some.injEq] at h0
      subst h0
      simp only [checkPath, Bool.and_eq_true]
      exact ⟨hvf, hmot⟩

/-- … in particular for every path that does not have exactly two states -/
theorem checkAndRepair_true_implies_check_of_length_ne_two {E : RepairEnv σ} {path out : List σ}
    {orig : Bool} (h : checkAndRepair E path = some (out, orig, true)) (hlen : path.length ≠ 2) :
    checkPath E.valid E.cm out = true :=
  checkAndRepair_true_implies_check_partial h (fun h2 => absurd h2 hlen)

/-- why the unconditional statement fails: on a two-state path `checkAndRepair` answers (true, true)
as soon as `checkMotion` does, although the first state is answered invalid and `check()` is false -/
theorem checkAndRepair_two_states_first_unchecked :
    ∃ (E : RepairEnv Nat) (path out : List Nat) (orig : Bool),
      checkAndRepair E path = some (out, orig, true) ∧ checkPath E.valid E.cm out = false :=
  ⟨⟨fun x => decide (0 < x), fun _ _ => true, fun _ => 0, 1⟩, [0, 1], [0, 1], true,
    by decide, by decide⟩

/-- … and every state it introduced was answered valid -/
theorem checkAndRepair_true_states_valid {E : RepairEnv σ} {path out : List σ} {orig : Bool}
    (h : checkAndRepair E path = some (out, orig, true)) :
    ∀ i (hi : i < out.length), out[i]? = path[i]? ∨ E.valid out[i] = true := by
  intro i hi
  rcases checkAndRepair_spec h with ⟨rfl, _⟩ | ⟨a, b, _, rfl, _⟩ | ⟨_, _, hs⟩
  · exact Or.inl rfl
  · exact Or.inl rfl
  · rcases hs.states i hi with h1 | ⟨_, h1⟩
    · exact Or.inl h1
    · exact Or.inr (h1 rfl)

/-- `originalValid = true` means nothing was touched -/
theorem checkAndRepair_original_unchanged {E : RepairEnv σ} {path out : List σ} {res : Bool}
    (h : checkAndRepair E path = some (out, true, res)) : out = path := by
  rcases checkAndRepair_spec h with ⟨rfl, _⟩ | ⟨a, b, _, rfl, _⟩ | ⟨_, _, hs⟩
  · rfl
  · rfl
  · exact (hs.orig rfl).1

/-- honest negative: after a FAILED repair (second component false) the path can contain a state
answered invalid that was not in the input (`sampleNear` writes every raw sample into `states_[i]`) -/
theorem checkAndRepair_failed_leaves_invalid_sample :
    ∃ (E : RepairEnv Nat) (path out : List Nat) (orig : Bool),
      checkAndRepair E path = some (out, orig, false) ∧ ∃ x ∈ out, x ∉ path ∧ E.valid x = false :=
  ⟨⟨fun x => decide (x < 100), fun a b => decide (a ≤ b ∧ b ≤ a + 10), fun _ => 500, 2⟩,
    [0, 50, 20], [0, 500, 20], false, by decide, 500, by decide, by decide, by decide⟩

end OmplModel.PathOps
