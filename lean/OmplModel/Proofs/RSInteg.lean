import OmplModel.Proofs.RSReal
import OmplModel.Proofs.RSAF
import OmplModel.Proofs.DubinsInteg
import Mathlib.Analysis.SpecialFunctions.Trigonometric.Deriv
import Mathlib.Tactic.Linarith
import Mathlib.Tactic.Ring
/-!
[EX] lemmas over ℝ about the Reeds–Shepp model (C14, round 2):

* every path builder's constructor length is the compared key plus the family's offset, hence each
  family and the whole of `reedsShepp` return a candidate no longer than any candidate generated
  (`runFamily_len`, `reedsShepp_inv`);
* one signed segment step is the unit-speed vehicle model driven in gear `σ` (`rsStep_hasDeriv_*`);
* chord ≤ |arc| for each signed segment, hence the end point of a driven signed word is no farther from
  the start than the sum of the absolute segment lengths (`rs_length_ge_chord`);
* `rsTruncate` keeps exactly `seg` of absolute length (`rsTruncate_total`), sign and letter preserved.
-/
namespace OmplModel.RS
open OmplModel OmplModel.Dubins DubinsR RSR
attribute [-instance] Num.instOfNat

/-! ## order -/

theorem strictWeak_real : StrictWeak ℝ :=
  ⟨fun _ _ h => lt_asymm h, fun _ _ _ h1 h2 => not_lt.mpr (le_trans (not_lt.mp h2) (not_lt.mp h1))⟩

/-! ## lengths of the builders -/

theorem len_eq (p : RSPath ℝ) : p.len = |p.l0| + |p.l1| + |p.l2| + |p.l3| + |p.l4| := rfl

theorem key3_eq (t u v : ℝ) : key3 t u v = |t| + |u| + |v| := rfl

theorem key4_eq (t u v : ℝ) : key4 t u v = |t| + 2 * |u| + |v| := by
  unfold key4; rw [ofNat_two]; rfl

theorem abs_sg (f : Bool) (z : ℝ) : |sg f z| = |z| := by
  cases f
  · rfl
  · show |(-z)| = |z|; exact abs_neg z

theorem abs_hpi : |(hpi : ℝ)| = Real.pi / 2 := by
  rw [hpi_eq, abs_of_pos (by have := Real.pi_pos; linarith)]

theorem len_bCSC (ty : Nat) (f : Bool) (t u v : ℝ) : (bCSC ty f t u v).len = key3 t u v := by
  rw [len_eq, key3_eq]
  simp only [bCSC, abs_sg, ofNat_zero, abs_zero, add_zero]

theorem len_bCCCrev (ty : Nat) (f : Bool) (t u v : ℝ) : (bCCCrev ty f t u v).len = key3 t u v := by
  rw [len_eq, key3_eq]
  simp only [bCCCrev, abs_sg, ofNat_zero, abs_zero, add_zero]
  ring

theorem len_bCCCCa (ty : Nat) (f : Bool) (t u v : ℝ) : (bCCCCa ty f t u v).len = key4 t u v := by
  rw [len_eq, key4_eq]
  simp only [bCCCCa, abs_sg, abs_neg, ofNat_zero, abs_zero, add_zero]
  ring

theorem len_bCCCCb (ty : Nat) (f : Bool) (t u v : ℝ) : (bCCCCb ty f t u v).len = key4 t u v := by
  rw [len_eq, key4_eq]
  simp only [bCCCCb, abs_sg, ofNat_zero, abs_zero, add_zero]
  ring

theorem len_bCCSC (ty : Nat) (f : Bool) (t u v : ℝ) :
    (bCCSC ty f t u v).len = key3 t u v + Real.pi / 2 := by
  rw [len_eq, key3_eq]
  simp only [bCCSC, abs_sg, abs_neg, abs_hpi, ofNat_zero, abs_zero, add_zero]
  ring

theorem len_bCCSCrev (ty : Nat) (f : Bool) (t u v : ℝ) :
    (bCCSCrev ty f t u v).len = key3 t u v + Real.pi / 2 := by
  rw [len_eq, key3_eq]
  simp only [bCCSCrev, abs_sg, abs_neg, abs_hpi, ofNat_zero, abs_zero, add_zero]
  ring

theorem len_bCCSCC (ty : Nat) (f : Bool) (t u v : ℝ) :
    (bCCSCC ty f t u v).len = key3 t u v + Real.pi := by
  rw [len_eq, key3_eq]
  simp only [bCCSCC, abs_sg, abs_neg, abs_hpi]
  ring

/-! ## shape of the candidates -/

theorem mkCand_eq_some {key : ℝ → ℝ → ℝ → ℝ} {b : Bool → ℝ → ℝ → ℝ → RSPath ℝ} {f : Bool} {s : Sol ℝ}
    {L : ℝ} {Q : RSPath ℝ} (h : mkCand key b f s = some (L, Q)) :
    ∃ t u v, s = some (t, u, v) ∧ L = key t u v ∧ Q = b f t u v := by
  cases s with
  | none => cases h
  | some tuv =>
    obtain ⟨t, u, v⟩ := tuv
    obtain ⟨rfl, rfl⟩ := Prod.mk.inj (Option.some.inj h)
    exact ⟨t, u, v, rfl, rfl, rfl⟩

/-- a member of `four …` is one of the four images, with the solver's `(t,u,v)` -/
theorem mem_four {S : ℝ → ℝ → ℝ → Sol ℝ} {key : ℝ → ℝ → ℝ → ℝ} {b : Nat → Bool → ℝ → ℝ → ℝ → RSPath ℝ}
    {tyA tyB : Nat} {x y phi L : ℝ} {Q : RSPath ℝ}
    (h : some (L, Q) ∈ four S key b tyA tyB x y phi) :
    ∃ t u v, L = key t u v ∧
      ((S x y phi = some (t, u, v) ∧ Q = b tyA false t u v) ∨
       (S (-x) y (-phi) = some (t, u, v) ∧ Q = b tyA true t u v) ∨
       (S x (-y) (-phi) = some (t, u, v) ∧ Q = b tyB false t u v) ∨
       (S (-x) (-y) phi = some (t, u, v) ∧ Q = b tyB true t u v)) := by
  simp only [four, List.mem_cons, List.not_mem_nil, or_false] at h
  rcases h with h | h | h | h
  · obtain ⟨t, u, v, hs, hL, hQ⟩ := mkCand_eq_some h.symm
    exact ⟨t, u, v, hL, Or.inl ⟨hs, hQ⟩⟩
  · obtain ⟨t, u, v, hs, hL, hQ⟩ := mkCand_eq_some h.symm
    exact ⟨t, u, v, hL, Or.inr (Or.inl ⟨hs, hQ⟩)⟩
  · obtain ⟨t, u, v, hs, hL, hQ⟩ := mkCand_eq_some h.symm
    exact ⟨t, u, v, hL, Or.inr (Or.inr (Or.inl ⟨hs, hQ⟩))⟩
  · obtain ⟨t, u, v, hs, hL, hQ⟩ := mkCand_eq_some h.symm
    exact ⟨t, u, v, hL, Or.inr (Or.inr (Or.inr ⟨hs, hQ⟩))⟩

/-- value of the family offset (`0`, `π/2` for CCSC, `π` for CCSCC) -/
noncomputable def offVal : Option ℝ → ℝ
  | none => 0
  | some o => o

/-- every candidate's stored path is `offVal off` longer than its compared key -/
def Good (off : Option ℝ) (cands : List (Cand ℝ)) : Prop :=
  ∀ L Q, some (L, Q) ∈ cands → Q.len = L + offVal off

theorem good_four (off : Option ℝ) (S : ℝ → ℝ → ℝ → Sol ℝ) (key : ℝ → ℝ → ℝ → ℝ)
    (b : Nat → Bool → ℝ → ℝ → ℝ → RSPath ℝ) (tyA tyB : Nat) (x y phi : ℝ)
    (hb : ∀ ty f t u v, (b ty f t u v).len = key t u v + offVal off) :
    Good off (four S key b tyA tyB x y phi) := by
  intro L Q h
  obtain ⟨t, u, v, rfl, h | h | h | h⟩ := mem_four h <;> (rw [h.2]; exact hb _ _ _ _ _)

theorem good_append {off : Option ℝ} {a b : List (Cand ℝ)} (ha : Good off a) (hb : Good off b) :
    Good off (a ++ b) := by
  intro L Q h
  rcases List.mem_append.mp h with h | h
  · exact ha L Q h
  · exact hb L Q h

theorem good_CSC (x y phi : ℝ) : Good none (candsCSC x y phi) :=
  good_append (good_four _ _ _ _ _ _ _ _ _ (fun ty f t u v => by rw [len_bCSC]; simp [offVal]))
    (good_four _ _ _ _ _ _ _ _ _ (fun ty f t u v => by rw [len_bCSC]; simp [offVal]))

theorem good_CCC (x y phi : ℝ) : Good none (candsCCC x y phi) :=
  good_append (good_four _ _ _ _ _ _ _ _ _ (fun ty f t u v => by rw [len_bCSC]; simp [offVal]))
    (good_four _ _ _ _ _ _ _ _ _ (fun ty f t u v => by rw [len_bCCCrev]; simp [offVal]))

theorem good_CCCC (x y phi : ℝ) : Good none (candsCCCC x y phi) :=
  good_append (good_four _ _ _ _ _ _ _ _ _ (fun ty f t u v => by rw [len_bCCCCa]; simp [offVal]))
    (good_four _ _ _ _ _ _ _ _ _ (fun ty f t u v => by rw [len_bCCCCb]; simp [offVal]))

theorem good_CCSC (x y phi : ℝ) : Good (some hpi) (candsCCSC x y phi) :=
  good_append (good_append (good_append
    (good_four _ _ _ _ _ _ _ _ _ (fun ty f t u v => by rw [len_bCCSC]; simp [offVal]))
    (good_four _ _ _ _ _ _ _ _ _ (fun ty f t u v => by rw [len_bCCSC]; simp [offVal])))
    (good_four _ _ _ _ _ _ _ _ _ (fun ty f t u v => by rw [len_bCCSCrev]; simp [offVal])))
    (good_four _ _ _ _ _ _ _ _ _ (fun ty f t u v => by rw [len_bCCSCrev]; simp [offVal]))

theorem good_CCSCC (x y phi : ℝ) : Good (some rpi) (candsCCSCC x y phi) :=
  good_four _ _ _ _ _ _ _ _ _ (fun ty f t u v => by rw [len_bCCSCC]; simp [offVal])

/-! ## one family, in terms of path lengths -/

theorem startLmin_some (off : Option ℝ) (p : RSPath ℝ) :
    startLmin off (some p) = some (p.len - offVal off) := by
  cases off with
  | none => simp [startLmin, offVal]
  | some o => simp [startLmin, offVal]

/-- **One family, lengths**: if every candidate's stored path is `off` longer than its key, the
family returns the incoming path or a candidate's path, and the returned path is no longer than the
incoming one and no longer than any candidate's path. -/
theorem runFamily_len (off : Option ℝ) (cands : List (Cand ℝ)) (cur : Option (RSPath ℝ))
    (hg : Good off cands) :
    (runFamily off cands cur = cur ∨ ∃ L Q, some (L, Q) ∈ cands ∧ runFamily off cands cur = some Q) ∧
    (∀ p, cur = some p → ∃ q, runFamily off cands cur = some q ∧ q.len ≤ p.len) ∧
    (∀ L Q, some (L, Q) ∈ cands → ∃ q, runFamily off cands cur = some q ∧ q.len ≤ Q.len) := by
  rcases runFamily_min strictWeak_real off cands cur with ⟨h1, h2⟩ | ⟨L0, p0, hm0, h1, h2, h3⟩
  · refine ⟨Or.inl h1, fun p hp => ⟨p, by rw [h1, hp], le_rfl⟩, fun L Q hm => ?_⟩
    obtain ⟨m, hm1, hm2⟩ := (gtOpt_false_iff _ _).mp (h2 L Q hm)
    cases cur with
    | none => cases hm1
    | some p =>
      rw [startLmin_some] at hm1
      obtain rfl := Option.some.inj hm1
      refine ⟨p, h1, ?_⟩
      rw [hg L Q hm]
      have := not_lt.mp hm2
      linarith
  · refine ⟨Or.inr ⟨L0, p0, hm0, h1⟩, fun p hp => ⟨p0, h1, ?_⟩, fun L Q hm => ⟨p0, h1, ?_⟩⟩
    · subst hp
      have := not_lt.mp (h3 _ (startLmin_some off p))
      rw [hg L0 p0 hm0]; linarith
    · have := not_lt.mp (h2 L Q hm)
      rw [hg L0 p0 hm0, hg L Q hm]; linarith

/-! ## chaining the families -/

/-- the state after some families: the current path (if any) is one of the candidates seen so far, and
for every candidate seen so far there is a current path and it is no longer -/
def Inv (cs : List (Cand ℝ)) (p : Option (RSPath ℝ)) : Prop :=
  (∀ P, p = some P → ∃ L, some (L, P) ∈ cs) ∧
  (∀ L Q, some (L, Q) ∈ cs → ∃ q, p = some q ∧ q.len ≤ Q.len)

theorem inv_nil : Inv [] none :=
  ⟨fun P h => (by cases h), fun L Q h => (by cases h)⟩

theorem inv_step {cs : List (Cand ℝ)} {cur : Option (RSPath ℝ)} (hi : Inv cs cur)
    (off : Option ℝ) (cands : List (Cand ℝ)) (hg : Good off cands) :
    Inv (cs ++ cands) (runFamily off cands cur) := by
  obtain ⟨hmem, hcur, hcand⟩ := runFamily_len off cands cur hg
  refine ⟨fun P hP => ?_, fun L Q hm => ?_⟩
  · rcases hmem with h | ⟨L, Q, hm, h⟩
    · rw [h] at hP
      obtain ⟨L, hL⟩ := hi.1 P hP
      exact ⟨L, List.mem_append_left _ hL⟩
    · rw [h] at hP
      obtain rfl := Option.some.inj hP
      exact ⟨L, List.mem_append_right _ hm⟩
  · rcases List.mem_append.mp hm with hm | hm
    · obtain ⟨q, hq, hle⟩ := hi.2 L Q hm
      obtain ⟨q', hq', hle'⟩ := hcur q hq
      exact ⟨q', hq', le_trans hle' hle⟩
    · exact hcand L Q hm

/-- all candidates `reedsShepp` generates, in the code's order -/
noncomputable def allCands (x y phi : ℝ) : List (Cand ℝ) :=
  candsCSC x y phi ++ candsCCC x y phi ++ candsCCCC x y phi ++ candsCCSC x y phi ++ candsCCSCC x y phi

theorem reedsShepp_inv (x y phi : ℝ) : Inv (allCands x y phi) (reedsShepp x y phi) := by
  have h1 := inv_step inv_nil none (candsCSC x y phi) (good_CSC x y phi)
  have h2 := inv_step h1 none (candsCCC x y phi) (good_CCC x y phi)
  have h3 := inv_step h2 none (candsCCCC x y phi) (good_CCCC x y phi)
  have h4 := inv_step h3 (some hpi) (candsCCSC x y phi) (good_CCSC x y phi)
  have h5 := inv_step h4 (some rpi) (candsCCSCC x y phi) (good_CCSCC x y phi)
  rw [List.nil_append] at h5
  exact h5

/-! ## vehicle model: one signed segment -/

/-- signed curvature of a letter (`N` = no segment) -/
def rkappa : RSeg → ℝ
  | .L => 1
  | .R => -1
  | .S => 0
  | .N => 0

theorem rsStep_eq_L (v : ℝ) (P : Pose ℝ) : rsStep .L v P = stepFwd .L v P := rfl
theorem rsStep_eq_R (v : ℝ) (P : Pose ℝ) : rsStep .R v P = stepFwd .R v P := rfl
theorem rsStep_eq_S (v : ℝ) (P : Pose ℝ) : rsStep .S v P = stepFwd .S v P := rfl
theorem rsStep_eq_N (v : ℝ) (P : Pose ℝ) : rsStep .N v P = P := rfl

theorem rsStep_zero (s : RSeg) (P : Pose ℝ) : rsStep s 0 P = P := by
  cases s
  · rfl
  · exact stepFwd_zero .L P
  · exact stepFwd_zero .S P
  · exact stepFwd_zero .R P

private theorem hd_scale (σ r : ℝ) : HasDerivAt (fun r : ℝ => σ * r) σ r := by
  simpa using (hasDerivAt_id r).const_mul σ

/-- gear `σ`: `x' = σ cos θ` -/
theorem rsStep_hasDeriv_x (s : RSeg) (hs : s ≠ .N) (σ : ℝ) (P : Pose ℝ) (r : ℝ) :
    HasDerivAt (fun r => (rsStep s (σ * r) P).x) (σ * Real.cos (rsStep s (σ * r) P).th) r := by
  cases s
  · exact absurd rfl hs
  · exact ((integrate_segment_fwd_x .L P (σ * r)).comp r (hd_scale σ r)).congr_deriv (mul_comm _ _)
  · exact ((integrate_segment_fwd_x .S P (σ * r)).comp r (hd_scale σ r)).congr_deriv (mul_comm _ _)
  · exact ((integrate_segment_fwd_x .R P (σ * r)).comp r (hd_scale σ r)).congr_deriv (mul_comm _ _)

/-- gear `σ`: `y' = σ sin θ` -/
theorem rsStep_hasDeriv_y (s : RSeg) (hs : s ≠ .N) (σ : ℝ) (P : Pose ℝ) (r : ℝ) :
    HasDerivAt (fun r => (rsStep s (σ * r) P).y) (σ * Real.sin (rsStep s (σ * r) P).th) r := by
  cases s
  · exact absurd rfl hs
  · exact ((integrate_segment_fwd_y .L P (σ * r)).comp r (hd_scale σ r)).congr_deriv (mul_comm _ _)
  · exact ((integrate_segment_fwd_y .S P (σ * r)).comp r (hd_scale σ r)).congr_deriv (mul_comm _ _)
  · exact ((integrate_segment_fwd_y .R P (σ * r)).comp r (hd_scale σ r)).congr_deriv (mul_comm _ _)

/-- gear `σ`: `θ' = σ κ` -/
theorem rsStep_hasDeriv_th (s : RSeg) (σ : ℝ) (P : Pose ℝ) (r : ℝ) :
    HasDerivAt (fun r => (rsStep s (σ * r) P).th) (σ * rkappa s) r := by
  cases s
  · show HasDerivAt (fun _ => P.th) (σ * 0) r
    rw [mul_zero]; exact hasDerivAt_const r P.th
  · exact ((integrate_segment_fwd_th .L P (σ * r)).comp r (hd_scale σ r)).congr_deriv (mul_comm _ _)
  · exact ((integrate_segment_fwd_th .S P (σ * r)).comp r (hd_scale σ r)).congr_deriv (mul_comm _ _)
  · exact ((integrate_segment_fwd_th .R P (σ * r)).comp r (hd_scale σ r)).congr_deriv (mul_comm _ _)

/-- concatenation of two signed lengths of the same letter -/
theorem rsStep_add (s : RSeg) (u v : ℝ) (P : Pose ℝ) :
    rsStep s (u + v) P = rsStep s v (rsStep s u P) := by
  cases s
  · rfl
  · exact stepFwd_add .L u v P
  · exact stepFwd_add .S u v P
  · exact stepFwd_add .R u v P

/-! ## chord ≤ |arc| -/

theorem rsStep_chord_sq (s : RSeg) (v : ℝ) (P : Pose ℝ) :
    ((rsStep s v P).x - P.x) ^ 2 + ((rsStep s v P).y - P.y) ^ 2 ≤ v ^ 2 := by
  cases s
  · show (P.x - P.x) ^ 2 + (P.y - P.y) ^ 2 ≤ v ^ 2
    have := sq_nonneg v
    simp only [sub_self]; nlinarith
  · exact stepFwd_chord_sq .L v P
  · exact stepFwd_chord_sq .S v P
  · exact stepFwd_chord_sq .R v P

/-- sum of the absolute segment lengths of a signed word -/
noncomputable def absSum (segs : List (RSeg × ℝ)) : ℝ := (segs.map (fun s => |s.2|)).sum

theorem absSum_nil : absSum [] = 0 := by simp [absSum]
theorem absSum_cons (hd : RSeg × ℝ) (tl : List (RSeg × ℝ)) : absSum (hd :: tl) = |hd.2| + absSum tl := by
  simp [absSum]

theorem absSum_nonneg (segs : List (RSeg × ℝ)) : 0 ≤ absSum segs := by
  induction segs with
  | nil => rw [absSum_nil]
  | cons hd tl ih => rw [absSum_cons]; have := abs_nonneg hd.2; linarith

/-- the end point of a driven signed word is no farther from the start than the word is long -/
theorem rs_length_ge_chord (segs : List (RSeg × ℝ)) (P : Pose ℝ) :
    Real.sqrt (((rsIntegFull segs P).x - P.x) ^ 2 + ((rsIntegFull segs P).y - P.y) ^ 2) ≤ absSum segs := by
  induction segs generalizing P with
  | nil => simp [rsIntegFull, absSum_nil]
  | cons hd tl ih =>
    obtain ⟨s, l⟩ := hd
    simp only [rsIntegFull, absSum_cons]
    have h1 := ih (rsStep s l P)
    have h2 := sqrt_chord_le ((rsStep s l P).x - P.x) ((rsStep s l P).y - P.y) |l| (abs_nonneg l)
      (by rw [sq_abs]; exact rsStep_chord_sq s l P)
    have h3 := sqrt_triangle ((rsStep s l P).x - P.x) ((rsStep s l P).y - P.y)
      ((rsIntegFull tl (rsStep s l P)).x - (rsStep s l P).x)
      ((rsIntegFull tl (rsStep s l P)).y - (rsStep s l P).y)
    have e1 : (rsStep s l P).x - P.x + ((rsIntegFull tl (rsStep s l P)).x - (rsStep s l P).x) =
        (rsIntegFull tl (rsStep s l P)).x - P.x := by ring
    have e2 : (rsStep s l P).y - P.y + ((rsIntegFull tl (rsStep s l P)).y - (rsStep s l P).y) =
        (rsIntegFull tl (rsStep s l P)).y - P.y := by ring
    rw [e1, e2] at h3
    linarith

theorem rsType_five (n : Nat) : ∃ a b c d e, rsType n = [a, b, c, d, e] := by
  unfold rsType
  split <;> exact ⟨_, _, _, _, _, rfl⟩

theorem segList_absSum (p : RSPath ℝ) : absSum p.segList = p.len := by
  obtain ⟨a, b, c, d, e, h⟩ := rsType_five p.ty
  rw [len_eq]
  simp only [RSPath.segList, RSPath.lens, h, List.zip_cons_cons, List.zip_nil_right, absSum_cons, absSum_nil]
  ring

/-- a signed word that, driven from `(0,0,α)`, ends at position `(x,y)` is at least `√(x²+y²)` long -/
theorem reaches_len_ge (p : RSPath ℝ) (α x y : ℝ)
    (hx : (rsIntegFull p.segList ⟨0, 0, α⟩).x = x) (hy : (rsIntegFull p.segList ⟨0, 0, α⟩).y = y) :
    Real.sqrt (x ^ 2 + y ^ 2) ≤ p.len := by
  have h := rs_length_ge_chord p.segList ⟨0, 0, α⟩
  rw [segList_absSum, hx, hy] at h
  simpa using h

/-! ## truncation of a signed word -/

theorem rsTruncate_nil (seg : ℝ) : rsTruncate ([] : List (RSeg × ℝ)) seg = [] := rfl

/-- the signed length the loop drives of a segment of signed length `l` with budget `seg` -/
noncomputable def cut (seg l : ℝ) : ℝ := if l < 0 then max (-seg) l else min seg l

theorem abs_cut (seg l : ℝ) (h : 0 < seg) : |cut seg l| = min seg |l| := by
  unfold cut
  split
  · rename_i hl
    rw [abs_of_neg hl]
    rcases le_total (-seg) l with h1 | h1
    · rw [max_eq_right h1, abs_of_neg hl, min_eq_right (by linarith)]
    · rw [max_eq_left h1, abs_neg, abs_of_pos h, min_eq_left (by linarith)]
  · rename_i hl
    have hl' : 0 ≤ l := not_lt.mp hl
    rw [abs_of_nonneg hl', abs_of_nonneg (le_min h.le hl')]

theorem rsTruncate_cons_pos (s : RSeg) (l : ℝ) (rest : List (RSeg × ℝ)) (seg : ℝ) (h : 0 < seg) :
    rsTruncate ((s, l) :: rest) seg = (s, cut seg l) :: rsTruncate rest (seg - |cut seg l|) := by
  have h' : @LT.lt ℝ instNumRealD.toLT (@OfNat.ofNat ℝ 0 (Num.instOfNat 0)) seg := by
    rw [ofNat_zero]; exact h
  simp only [rsTruncate, if_pos h', max_eq, min_eq]
  by_cases hl : l < 0
  · have hl2 : @LT.lt ℝ instNumRealD.toLT l (@OfNat.ofNat ℝ 0 (Num.instOfNat 0)) := by
      rw [ofNat_zero]; exact hl
    have hneg : max (-seg) l < 0 := max_lt (by linarith) hl
    rw [if_pos hl2]
    simp only [cut, if_pos hl]
    rw [abs_of_neg hneg, sub_neg_eq_add]
  · have hl2 : ¬ @LT.lt ℝ instNumRealD.toLT l (@OfNat.ofNat ℝ 0 (Num.instOfNat 0)) := by
      rw [ofNat_zero]; exact hl
    have hl' : 0 ≤ l := not_lt.mp hl
    rw [if_neg hl2]
    simp only [cut, if_neg hl]
    rw [abs_of_nonneg (le_min h.le hl')]

theorem rsTruncate_of_nonpos (segs : List (RSeg × ℝ)) (seg : ℝ) (h : seg ≤ 0) : rsTruncate segs seg = [] := by
  cases segs with
  | nil => rfl
  | cons hd tl =>
    obtain ⟨s, l⟩ := hd
    have h' : ¬ @LT.lt ℝ instNumRealD.toLT (@OfNat.ofNat ℝ 0 (Num.instOfNat 0)) seg := by
      rw [ofNat_zero]; exact not_lt.mpr h
    simp only [rsTruncate, if_neg h']

/-- the truncated signed word is exactly `seg` long in absolute length -/
theorem rsTruncate_total (segs : List (RSeg × ℝ)) (seg : ℝ) (h0 : 0 ≤ seg) (h1 : seg ≤ absSum segs) :
    absSum (rsTruncate segs seg) = seg := by
  induction segs generalizing seg with
  | nil =>
    rw [absSum_nil] at h1
    rw [rsTruncate_nil, absSum_nil]; linarith
  | cons hd tl ih =>
    obtain ⟨s, l⟩ := hd
    rw [absSum_cons] at h1
    rcases lt_or_eq_of_le h0 with hpos | hz
    · rw [rsTruncate_cons_pos s l tl seg hpos, absSum_cons]
      simp only
      rw [abs_cut seg l hpos]
      have hm : min seg |l| ≤ seg := min_le_left _ _
      have h1' : seg - min seg |l| ≤ absSum tl := by
        rcases le_total seg |l| with h | h
        · rw [min_eq_left h]; have := absSum_nonneg tl; linarith
        · rw [min_eq_right h]; simp only at h1; linarith
      rw [ih (seg - min seg |l|) (by linarith) h1']; ring
    · subst hz
      rw [rsTruncate_of_nonpos _ _ le_rfl, absSum_nil]

/-- letter for letter the truncated word is a prefix of the original; every kept signed length has the
sign of the original one and is no larger in absolute value -/
theorem rsTruncate_bounded (segs : List (RSeg × ℝ)) (seg : ℝ) :
    List.Forall₂ (fun a b : RSeg × ℝ => a.1 = b.1 ∧ |a.2| ≤ |b.2| ∧ 0 ≤ a.2 * b.2)
      (rsTruncate segs seg) (segs.take (rsTruncate segs seg).length) := by
  induction segs generalizing seg with
  | nil => simp [rsTruncate_nil]
  | cons hd tl ih =>
    obtain ⟨s, l⟩ := hd
    rcases lt_or_ge 0 seg with hpos | hz
    · rw [rsTruncate_cons_pos s l tl seg hpos]
      simp only [List.length_cons, List.take_succ_cons]
      refine List.Forall₂.cons ⟨rfl, ?_, ?_⟩ (ih _)
      · show |cut seg l| ≤ |l|
        rw [abs_cut seg l hpos]; exact min_le_right _ _
      · show 0 ≤ cut seg l * l
        unfold cut
        split
        · rename_i hl
          exact mul_nonneg_of_nonpos_of_nonpos (max_le (by linarith) hl.le) hl.le
        · rename_i hl
          have hl' : 0 ≤ l := not_lt.mp hl
          exact mul_nonneg (le_min hpos.le hl') hl'
    · rw [rsTruncate_of_nonpos _ _ hz]; simp

end OmplModel.RS
