import OmplModel.Proofs.NNGnatQuery
import OmplModel.Proofs.NNLinear
import Mathlib.Data.List.Nodup
import Mathlib.Data.List.Perm.Subperm
import Mathlib.Data.Nat.ModEq
import Mathlib.Data.Multiset.Basic
import Mathlib.Algebra.Order.Ring.Int
/-!
GNAT queries, second half: the two collectors (`collK` = `insertNeighborK` and the
`nbh.top().first` bound, `collR` = `insertNeighborR` and the fixed radius) satisfy `GoodColl`, the
child orders the two variants use are permutations, and what `Acct` says when the node queue is
empty is exactly `IsKNearest` / `IsRNearest`.
-/
set_option linter.unusedSectionVars false

namespace OmplModel.NN

variable {α D : Type}

/-! ### the child orders are permutations of `0 .. sz-1` -/

theorem rotation_perm (sz off : Nat) : (rotation sz off).Perm (List.range sz) := by
  apply List.Subperm.perm_of_length_le
  · apply List.subperm_of_subset
    · apply List.Nodup.map_on _ List.nodup_range
      intro i hi j hj h
      have hi' := List.mem_range.mp hi
      have hj' := List.mem_range.mp hj
      have h' : i ≡ j [MOD sz] := Nat.ModEq.add_right_cancel' off h
      unfold Nat.ModEq at h'
      rwa [Nat.mod_eq_of_lt hi', Nat.mod_eq_of_lt hj'] at h'
    · intro x hx
      obtain ⟨i, hi, rfl⟩ := List.mem_map.mp hx
      have hi' := List.mem_range.mp hi
      exact List.mem_range.mpr (Nat.mod_lt _ (by omega))
  · simp [rotation]

theorem childOrder_perm (rotate : Bool) (sz off : Nat) : (childOrder rotate sz off).Perm (List.range sz) := by
  unfold childOrder
  split
  · exact rotation_perm sz off
  · exact List.Perm.refl _

/-! ### the answer queue -/

section Collectors
variable [CommRing D] [LinearOrder D] [IsStrictOrderedRing D]

/-- `NearQueue` order: head = farthest. -/
def Desc (nbh : Nbh α D) : Prop := nbh.Pairwise (fun a b => b.1 ≤ a.1)

theorem nbhM_push (e : D × Elem α) (nbh : Nbh α D) : nbhM (nbhPush e nbh) = e.2 ::ₘ nbhM nbh := by
  unfold nbhM
  rw [Multiset.cons_coe, Multiset.coe_eq_coe]
  exact (nbhPush_perm e nbh).map Prod.snd

theorem mem_nbhPush {e x : D × Elem α} {nbh : Nbh α D} (h : x ∈ nbhPush e nbh) : x = e ∨ x ∈ nbh :=
  List.mem_cons.mp ((nbhPush_perm e nbh).subset h)

theorem length_nbhPush (e : D × Elem α) (nbh : Nbh α D) : (nbhPush e nbh).length = nbh.length + 1 := by
  simpa using (nbhPush_perm e nbh).length_eq

/-! #### radius -/

def GoodR (f : Elem α → D) (r : D) (nbh : Nbh α D) (disc : Multiset (Elem α)) : Prop :=
  Desc nbh ∧ (∀ x ∈ nbh, x.1 = f x.2 ∧ x.1 ≤ r) ∧ ∀ y ∈ disc, r < f y

theorem goodColl_R (f : Elem α → D) (r : D) : GoodColl (collR r) f (GoodR f r) where
  init := ⟨List.Pairwise.nil, by simp, by simp⟩
  offer := by
    rintro nbh disc e ⟨hs, hn, hd⟩
    simp only [collR, insertR]
    by_cases h : f e ≤ r
    · rw [if_pos h]
      refine ⟨disc, ⟨nbhPush_sorted _ _ hs, ?_, hd⟩, ?_⟩
      · intro x hx
        rcases mem_nbhPush hx with rfl | hx
        · exact ⟨rfl, h⟩
        · exact hn x hx
      · rw [nbhM_push, ← Multiset.singleton_add]; abel
    · rw [if_neg h]
      refine ⟨disc + {e}, ⟨hs, hn, ?_⟩, by abel⟩
      intro y hy
      rcases Multiset.mem_add.mp hy with hy | hy
      · exact hd y hy
      · rw [Multiset.mem_singleton.mp hy]; exact not_le.mp h
  prune := by
    rintro nbh disc b ys ⟨hs, hn, hd⟩ hb hys
    simp only [collR, Option.some.injEq] at hb
    subst hb
    refine ⟨hs, hn, ?_⟩
    intro y hy
    rcases Multiset.mem_add.mp hy with hy | hy
    · exact hd y hy
    · exact hys y hy
  keep := by
    rintro nbh disc d rad ys ⟨hs, hn, hd⟩ hk hys
    simp only [collR] at hk
    refine ⟨hs, hn, ?_⟩
    intro y hy
    rcases Multiset.mem_add.mp hy with hy | hy
    · exact hd y hy
    · exact hys r hk y hy

/-! #### k nearest -/

def GoodK (f : Elem α → D) (k : Nat) (nbh : Nbh α D) (disc : Multiset (Elem α)) : Prop :=
  Desc nbh ∧ (∀ x ∈ nbh, x.1 = f x.2) ∧ nbh.length ≤ k ∧
    ∀ y ∈ disc, nbh.length = k ∧ ∀ x ∈ nbh, x.1 ≤ f y

/-- copies farther than the current k-th best may be discarded once the queue is full. -/
theorem GoodK.discard {f : Elem α → D} {k : Nat} {top : D × Elem α} {rest : Nbh α D}
    {disc ys : Multiset (Elem α)} (hg : GoodK f k (top :: rest) disc) (hfull : (top :: rest).length = k)
    (hys : ∀ y ∈ ys, top.1 ≤ f y) : GoodK f k (top :: rest) (disc + ys) := by
  obtain ⟨hs, hn, hl, hd⟩ := hg
  refine ⟨hs, hn, hl, ?_⟩
  intro y hy
  rcases Multiset.mem_add.mp hy with hy | hy
  · exact hd y hy
  · refine ⟨hfull, ?_⟩
    intro x hx
    rcases List.mem_cons.mp hx with rfl | hx
    · exact hys y hy
    · exact le_trans ((List.pairwise_cons.mp hs).1 x hx) (hys y hy)

theorem goodColl_K [BEq α] (f : Elem α → D) (k : Nat) (eps : D) (q : α)
    (hkey : ∀ e : Elem α, (e.val == q) = true → ∀ y : Elem α, f e ≤ f y) :
    GoodColl (collK k eps q) f (GoodK f k) where
  init := ⟨List.Pairwise.nil, by simp, by simp, by simp⟩
  offer := by
    rintro nbh disc e ⟨hs, hn, hl, hd⟩
    simp only [collK]
    unfold insertK
    by_cases h1 : nbh.length < k
    · rw [if_pos h1]
      refine ⟨disc, ⟨nbhPush_sorted _ _ hs, ?_, ?_, ?_⟩, ?_⟩
      · intro x hx
        rcases mem_nbhPush hx with rfl | hx
        · rfl
        · exact hn x hx
      · rw [length_nbhPush]; omega
      · intro y hy
        have := (hd y hy).1
        omega
      · rw [nbhM_push, ← Multiset.singleton_add]; abel
    · rw [if_neg h1]
      cases nbh with
      | nil =>
        simp only []
        refine ⟨disc + {e}, ⟨hs, hn, hl, ?_⟩, by abel⟩
        intro y _
        simp only [List.length_nil] at h1 ⊢
        exact ⟨by omega, by simp⟩
      | cons top rest =>
        simp only []
        have hfull : (top :: rest).length = k := by omega
        have hs' := List.pairwise_cons.mp hs
        by_cases hc : (decide (f e < top.1) || (decide (f e < eps) && e.val == q)) = true
        · rw [if_pos hc]
          have hle : f e ≤ top.1 := by
            rcases Bool.or_eq_true_iff.mp hc with h | h
            · exact le_of_lt (of_decide_eq_true h)
            · have := hkey e (Bool.and_eq_true_iff.mp h).2 top.2
              rw [hn top (by simp)]
              exact this
          refine ⟨disc + {top.2}, ⟨nbhPush_sorted _ _ hs'.2, ?_, ?_, ?_⟩, ?_⟩
          · intro x hx
            rcases mem_nbhPush hx with rfl | hx
            · rfl
            · exact hn x (List.mem_cons_of_mem _ hx)
          · rw [length_nbhPush]; simpa using hl
          · intro y hy
            have hty : top.1 ≤ f y := by
              rcases Multiset.mem_add.mp hy with hy | hy
              · exact (hd y hy).2 top (by simp)
              · rw [Multiset.mem_singleton.mp hy, hn top (by simp)]
            refine ⟨by rw [length_nbhPush]; simpa using hfull, ?_⟩
            intro x hx
            rcases mem_nbhPush hx with rfl | hx
            · exact le_trans hle hty
            · exact le_trans (hs'.1 x hx) hty
          · rw [nbhM_push]
            simp only [nbhM, List.map_cons, ← Multiset.cons_coe, ← Multiset.singleton_add]
            abel
        · rw [if_neg hc]
          have hge : top.1 ≤ f e := by
            have : ¬ f e < top.1 := by
              intro hlt
              exact hc (by simp [hlt])
            exact not_lt.mp this
          refine ⟨disc + {e}, ?_, by abel⟩
          apply GoodK.discard ⟨hs, hn, hl, hd⟩ hfull
          intro y hy
          rw [Multiset.mem_singleton.mp hy]
          exact hge
  prune := by
    rintro nbh disc b ys hg hb hys
    simp only [collK] at hb
    split at hb
    · rename_i hfull
      cases nbh with
      | nil => simp at hb
      | cons top rest =>
        simp only [Option.some.injEq] at hb
        subst hb
        exact hg.discard hfull (fun y hy => le_of_lt (hys y hy))
    · simp at hb
  keep := by
    rintro nbh disc d rad ys hg hk hys
    simp only [collK, Bool.or_eq_false_iff, decide_eq_false_iff_not] at hk
    cases nbh with
    | nil =>
      obtain ⟨hs, hn, hl, hd⟩ := hg
      refine ⟨hs, hn, hl, ?_⟩
      intro y _
      have := hk.1
      simp only [List.length_nil] at this ⊢
      exact ⟨by omega, by simp⟩
    | cons top rest =>
      have hfull : (top :: rest).length = k := by have := hg.2.2.1; have := hk.1; omega
      exact hg.discard hfull (fun y hy => le_of_lt (hys top.1 hk.2 y hy))

end Collectors


/-! ### what the invariant says when the node queue is empty -/

section Final
variable [CommRing D] [LinearOrder D] [IsStrictOrderedRing D]

theorem sortedBy_of_desc (f : Elem α → D) (nbh : Nbh α D) (hs : Desc nbh) (hn : ∀ x ∈ nbh, x.1 = f x.2) :
    SortedBy f ((postprocess nbh).map Prod.snd) := by
  unfold SortedBy postprocess
  rw [List.pairwise_map, List.pairwise_reverse]
  refine List.Pairwise.imp_of_mem ?_ hs
  intro a b ha hb hab
  rw [← hn a ha, ← hn b hb]
  exact hab

theorem isKNearest_of_goodK (f : Elem α → D) (k : Nat) (nbh : Nbh α D) (disc : Multiset (Elem α))
    (live : List (Elem α)) (hg : GoodK f k nbh disc) (heq : nbhM nbh + disc = (live : Multiset (Elem α))) :
    IsKNearest f k live ((postprocess nbh).map Prod.snd) := by
  obtain ⟨hs, hn, hl, hd⟩ := hg
  have hcard : nbh.length + Multiset.card disc = live.length := by
    have := congrArg Multiset.card heq
    simpa [nbhM] using this
  refine ⟨sortedBy_of_desc f nbh hs hn, ?_, disc.toList, ?_, ?_⟩
  · simp only [postprocess, List.length_map, List.length_reverse]
    rcases Multiset.empty_or_exists_mem disc with h0 | ⟨y, hy⟩
    · subst h0
      simp only [Multiset.card_zero, Nat.add_zero] at hcard
      omega
    · have := (hd y hy).1
      omega
  · rw [← Multiset.coe_eq_coe, ← Multiset.coe_add, Multiset.coe_toList, ← heq]
    congr 1
    unfold nbhM postprocess
    rw [Multiset.coe_eq_coe]
    exact (List.reverse_perm nbh).map Prod.snd
  · intro x hx y hy
    obtain ⟨x', hx', rfl⟩ := List.mem_map.mp hx
    have hx'' : x' ∈ nbh := List.mem_reverse.mp hx'
    rw [← hn x' hx'']
    exact (hd y (Multiset.mem_toList.mp hy)).2 x' hx''

theorem isRNearest_of_goodR (f : Elem α → D) (r : D) (nbh : Nbh α D) (disc : Multiset (Elem α))
    (live : List (Elem α)) (hg : GoodR f r nbh disc) (heq : nbhM nbh + disc = (live : Multiset (Elem α))) :
    IsRNearest f r live ((postprocess nbh).map Prod.snd) := by
  obtain ⟨hs, hn, hd⟩ := hg
  refine ⟨sortedBy_of_desc f nbh hs (fun x hx => (hn x hx).1), ?_⟩
  have h := congrArg (Multiset.filter (fun x => f x ≤ r)) heq
  rw [Multiset.filter_add, Multiset.filter_coe] at h
  have h1 : Multiset.filter (fun x => f x ≤ r) (nbhM nbh) = nbhM nbh := by
    rw [Multiset.filter_eq_self]
    intro a ha
    simp only [nbhM, Multiset.mem_coe, List.mem_map] at ha
    obtain ⟨x, hx, rfl⟩ := ha
    rw [← (hn x hx).1]
    exact (hn x hx).2
  have h2 : Multiset.filter (fun x => f x ≤ r) disc = 0 := by
    rw [Multiset.filter_eq_nil]
    intro a ha
    exact not_le.mpr (hd a ha)
  rw [h1, h2, add_zero] at h
  rw [← Multiset.coe_eq_coe, ← h]
  unfold nbhM postprocess
  rw [Multiset.coe_eq_coe]
  exact (List.reverse_perm nbh).map Prod.snd

theorem dist_nonneg_of {dist : α → α → D} (hm : IsMetric dist) (hself : ∀ a, dist a a = 0) (a b : α) :
    0 ≤ dist a b := by
  have h1 := hm.tri a b a
  have h2 := hm.symm a b
  have h3 := hself a
  linarith

/-- `nearestKInternal` is exact. -/
theorem nearestKInternal_exact [BEq α] [LawfulBEq α] {dist : α → α → D} (hm : IsMetric dist)
    (hself : ∀ a, dist a a = 0) (removed : List Nat) (t : Node α D) (ht : t.inv dist removed = true)
    (q : α) (k : Nat) (eps : D) {ord : Nat → Nat → List Nat}
    (hord : ∀ sz off, (ord sz off).Perm (List.range sz)) (offset : Nat) :
    (nearestKInternal dist removed q k eps ord offset t).exhausted = false ∧
    IsKNearest (fun e => dist q e.val) k (liveOf removed t.elems)
      ((postprocess (nearestKInternal dist removed q k eps ord offset t).nbh).map Prod.snd) ∧
    ∀ x ∈ (nearestKInternal dist removed q k eps ord offset t).nbh, x.1 = dist q x.2.val := by
  have hex := searchInternal_not_exhausted (collK k eps q) dist removed q hord offset t
  have hC : GoodColl (collK k eps q) (fun e : Elem α => dist q e.val) (GoodK (fun e => dist q e.val) k) := by
    apply goodColl_K
    intro e he y
    have : e.val = q := by simpa using he
    rw [this, hself]
    exact dist_nonneg_of hm hself _ _
  obtain ⟨disc, hg, heq⟩ := searchInternal_acct hC hm hord offset t ht hex
  exact ⟨hex, isKNearest_of_goodK _ k _ disc _ hg heq, hg.2.1⟩

/-- `nearestRInternal` is exact. -/
theorem nearestRInternal_exact {dist : α → α → D} (hm : IsMetric dist)
    (removed : List Nat) (t : Node α D) (ht : t.inv dist removed = true)
    (q : α) (r : D) {ord : Nat → Nat → List Nat}
    (hord : ∀ sz off, (ord sz off).Perm (List.range sz)) (offset : Nat) :
    (nearestRInternal dist removed q r ord offset t).exhausted = false ∧
    IsRNearest (fun e => dist q e.val) r (liveOf removed t.elems)
      ((postprocess (nearestRInternal dist removed q r ord offset t).nbh).map Prod.snd) ∧
    ∀ x ∈ (nearestRInternal dist removed q r ord offset t).nbh, x.1 = dist q x.2.val := by
  have hex := searchInternal_not_exhausted (collR r) dist removed q hord offset t
  obtain ⟨disc, hg, heq⟩ := searchInternal_acct (goodColl_R (fun e : Elem α => dist q e.val) r) hm hord offset t ht hex
  exact ⟨hex, isRNearest_of_goodR _ r _ disc _ hg heq, fun x hx => (hg.2.1 x hx).1⟩

end Final

/-! ### the state invariant of the whole structure, and sample data for the non-vacuity examples -/

section Sample
variable [LE D] [DecidableLE D]

/-- the state invariant of the whole structure: `GnatInv` on the tree, and `size_` is the number of
non-removed stored copies. -/
def Gnat.WF (dist : α → α → D) (g : Gnat α D) : Prop :=
  match g.tree with
  | none => g.size = 0
  | some t => t.inv dist g.removed = true ∧ g.size = (liveOf g.removed t.elems).length

end Sample

def l1 (a b : Int × Int) : Int := |a.1 - b.1| + |a.2 - b.2|

theorem l1_metric : IsMetric l1 ∧ ∀ a, l1 a a = 0 := by
  refine ⟨⟨fun a b => ?_, fun a b c => ?_⟩, fun a => by simp [l1]⟩
  · simp only [l1]; rw [abs_sub_comm a.1, abs_sub_comm a.2]
  · simp only [l1]
    have h1 := abs_sub_le a.1 b.1 c.1
    have h2 := abs_sub_le a.2 b.2 c.2
    omega

def sampleTree : Node (Int × Int) Int :=
  .mk ⟨0, (1, 2)⟩ 3 none [none, none, none] []
    [ .mk ⟨1, (9, 9)⟩ 2 (some (0, 0)) [some (0, 0), some (16, 18), some (7, 11)] [] [],
      .mk ⟨2, (0, 0)⟩ 2 (some (0, 2)) [some (18, 18), some (0, 2), some (7, 11)] [⟨3, (1, 1)⟩] [],
      .mk ⟨4, (3, 4)⟩ 2 (some (0, 4)) [some (11, 11), some (5, 7), some (0, 4)] [⟨5, (5, 6)⟩, ⟨6, (3, 4)⟩] [] ]

def sampleGnat : Gnat (Int × Int) Int :=
  { params := ⟨3, 2, 3, 2, 3, false⟩, tree := some sampleTree, size := 6, removed := [6], nextId := 7 }

theorem sampleGnat_wf : sampleGnat.WF l1 := ⟨by decide, by decide⟩


end OmplModel.NN
