import OmplModel.Model.CarAlias
/-! helper lemmas for `Props/C14A.lean` (core Lean only, arithmetic-free): what the Dubins path overload and `turn` leave in the
store when the states are the 4- / 5-component states of the Owen / Vana / VanaOwen spaces, for every pair of pointers -/
namespace OmplModel.CarAlias
open OmplModel OmplModel.Dubins

section
variable {α : Type} [DNum α]

/-- writing an SE(2) pose into the SE(2) part of a 4- / 5-component state -/
def put4 (s : Owen.St4 α) (q : Pose α) : Owen.St4 α := { s with x := q.x, y := q.y, yaw := q.th }
def put5 (s : Vana.St5 α) (q : Pose α) : Vana.St5 α := { s with x := q.x, y := q.y, yaw := q.th }

theorem path4_get (r : α) (P : Path α) (t : α) (src state : Ptr) (m : Mem (Owen.St4 α)) :
    (dubinsPathOverload st4View r P t (.ptr src) state m).get state = put4 (m.get state) (interpPath r (m.get src).pose P t) := by
  cases src <;> cases state <;> simp [dubinsPathOverload, writeBack, Src.read, st4View, Mem.get, Mem.set, interpPath, put4, Owen.St4.pose]

theorem path4_frame (r : α) (P : Path α) (t : α) (src : Src α) (state q : Ptr) (m : Mem (Owen.St4 α)) (h : q ≠ state) :
    (dubinsPathOverload st4View r P t src state m).get q = m.get q := by
  cases state <;> cases q <;> simp_all [dubinsPathOverload, writeBack, Mem.get, Mem.set]

theorem turn4_get (r a : α) (src state : Ptr) (m : Mem (Owen.St4 α)) :
    (turnInto st4View src r a state m).get state = put4 (m.get state) (Owen.turn (m.get src).pose r a) := by
  cases src <;> cases state <;> simp [turnInto, st4View, Mem.get, Mem.set, Owen.turn, put4, Owen.St4.pose]

theorem turn4_frame (r a : α) (src state q : Ptr) (m : Mem (Owen.St4 α)) (h : q ≠ state) :
    (turnInto st4View src r a state m).get q = m.get q := by
  cases state <;> cases q <;> simp_all [turnInto, Mem.get, Mem.set]

theorem path5_get (r : α) (P : Path α) (t : α) (src state : Ptr) (m : Mem (Vana.St5 α)) :
    (dubinsPathOverload st5View r P t (.ptr src) state m).get state =
      put5 (m.get state) (interpPath r ⟨(m.get src).x, (m.get src).y, (m.get src).yaw⟩ P t) := by
  cases src <;> cases state <;> simp [dubinsPathOverload, writeBack, Src.read, st5View, Mem.get, Mem.set, interpPath, put5]

theorem path5_ext_get (r : α) (P : Path α) (t : α) (e : Pose α) (state : Ptr) (m : Mem (Vana.St5 α)) :
    (dubinsPathOverload st5View r P t (.ext e) state m).get state = put5 (m.get state) (interpPath r e P t) := by
  cases state <;> simp [dubinsPathOverload, writeBack, Src.read, st5View, Mem.get, Mem.set, interpPath, put5]

theorem path5_frame (r : α) (P : Path α) (t : α) (src : Src α) (state q : Ptr) (m : Mem (Vana.St5 α)) (h : q ≠ state) :
    (dubinsPathOverload st5View r P t src state m).get q = m.get q := by
  cases state <;> cases q <;> simp_all [dubinsPathOverload, writeBack, Mem.get, Mem.set]

theorem turn5_get (r a : α) (src state : Ptr) (m : Mem (Vana.St5 α)) :
    (turnInto st5View src r a state m).get state =
      put5 (m.get state) (Owen.turn ⟨(m.get src).x, (m.get src).y, (m.get src).yaw⟩ r a) := by
  cases src <;> cases state <;> simp [turnInto, st5View, Mem.get, Mem.set, Owen.turn, put5]

theorem turn5_frame (r a : α) (src state q : Ptr) (m : Mem (Vana.St5 α)) (h : q ≠ state) :
    (turnInto st5View src r a state m).get q = m.get q := by
  cases state <;> cases q <;> simp_all [turnInto, Mem.get, Mem.set]

theorem get_set_same {σ : Type} (m : Mem σ) (p : Ptr) (v : σ) : (m.set p v).get p = v := by cases p <;> rfl
theorem get_set_other {σ : Type} (m : Mem σ) (p q : Ptr) (v : σ) (h : q ≠ p) : (m.set p v).get q = m.get q := by
  cases p <;> cases q <;> simp_all [Mem.get, Mem.set]


end
end OmplModel.CarAlias
