import OmplModel.Model.NNKCenters
import OmplModel.Proofs.NNGnatSplit
import OmplModel.Proofs.NNGnatRefine
/-!
`GreedyKCenters::kcenters` with its `dists` matrix (`Model/NNKCenters.lean`):

* `kcLoopM_spec` / `kcentersM_spec`: for `k >= 1` and a valid first centre no write leaves the matrix (whatever
  matrix the caller passed: the `resize` at the top makes it `>= n x k`), the centres are those of the
  centres-only model `kcenters` (the one `splitNode` and all GNAT theorems use), every cell `(j, i)` with
  `i < centers.size()` holds `dist data[j] data[centers[i]]` — the documented postcondition and exactly the cells
  `split` reads — and nothing else is written.
* `kcentersM_zero_fails`: with `k = 0` (what `split` passes when a node's `degree_` is 0) the final loop writes
  column 0 of an `n x 0` matrix.
* the constructor: `Gnat.init` satisfies `ParamsOK` iff `degree, minDegree >= 1`, and the freshly constructed
  structure satisfies `Gnat.Inv`.
-/
set_option linter.unusedSectionVars false

namespace OmplModel.NN

variable {α D U : Type}

section Matrix

theorem Mat.writeCol_some (M : Mat D) (i : Nat) (vals : List D) (hr : vals.length ≤ M.rows) (hc : i < M.cols) :
    ∃ M', M.writeCol i vals = some M' ∧ M'.rows = M.rows ∧ M'.cols = M.cols ∧
      (∀ a v, vals[a]? = some v → M'.cell a i = some v) ∧
      (∀ a b, (b ≠ i ∨ vals.length ≤ a) → M'.cell a b = M.cell a b) := by
  unfold Mat.writeCol
  have hcond : (vals.isEmpty || (decide (vals.length ≤ M.rows) && decide (i < M.cols))) = true := by
    simp [hr, hc]
  rw [if_pos hcond]
  refine ⟨_, rfl, rfl, rfl, ?_, ?_⟩
  · intro a v hv
    simp [hv]
  · intro a b h
    rcases h with h | h
    · simp [h]
    · have : vals[a]? = none := List.getElem?_eq_none h
      simp [this]

/-- the cells of columns `< m` hold the distances to the corresponding centres. -/
def ColsOK (dist : α → α → D) (data : List (Elem α)) (M : Mat D) (cs : List Nat) (m : Nat) : Prop :=
  ∀ (i ci : Nat) (c : Elem α) (j : Nat) (x : Elem α), i < m → cs[i]? = some ci → data[ci]? = some c →
    data[j]? = some x → M.cell j i = some (dist x.val c.val)

end Matrix

section KCentersM
variable [LinearOrder D]

/-- the loop's exit test `maxDist < eps` (`none` = `-inf`: only for empty data). -/
def kcStop (eps : D) : Option D → Bool
  | none => true
  | some m => decide (m < eps)

theorem kcLoop_succ (dist : α → α → D) (eps : D) (data : List (Elem α)) (n : Nat) (cs : List Nat) (last : Nat)
    (md : List (Option D)) (c : Elem α) (hl : data[last]? = some c) :
    kcLoop dist eps data (n + 1) cs last md =
      if kcStop eps (kcStep dist c.val data md 0 0 none).2.2 = true then cs
      else kcLoop dist eps data n (cs ++ [(kcStep dist c.val data md 0 0 none).2.1])
        (kcStep dist c.val data md 0 0 none).2.1 (kcStep dist c.val data md 0 0 none).1 := by
  simp only [kcLoop, hl]
  generalize kcStep dist c.val data md 0 0 none = r
  obtain ⟨a, b, o⟩ := r
  cases o <;> simp [kcStop]

theorem kcLoopM_succ (dist : α → α → D) (eps : D) (data : List (Elem α)) (n : Nat) (cs : List Nat) (last : Nat)
    (md : List (Option D)) (M M1 : Mat D) (c : Elem α) (hl : data[last]? = some c)
    (hw : M.writeCol (cs.length - 1) (data.map (fun x => dist x.val c.val)) = some M1) :
    kcLoopM dist eps data (n + 1) cs last md M =
      if kcStop eps (kcStep dist c.val data md 0 0 none).2.2 = true then some (cs, M1)
      else kcLoopM dist eps data n (cs ++ [(kcStep dist c.val data md 0 0 none).2.1])
        (kcStep dist c.val data md 0 0 none).2.1 (kcStep dist c.val data md 0 0 none).1 M1 := by
  simp only [kcLoopM, hl, hw]
  generalize kcStep dist c.val data md 0 0 none = r
  obtain ⟨a, b, o⟩ := r
  cases o <;> simp [kcStop]

theorem kcLoop_prefix (dist : α → α → D) (eps : D) (data : List (Elem α)) :
    ∀ (n : Nat) (cs : List Nat) (last : Nat) (md : List (Option D)),
      ∃ more, kcLoop dist eps data n cs last md = cs ++ more
  | 0, cs, _, _ => ⟨[], by simp [kcLoop]⟩
  | n + 1, cs, last, md => by
    cases hl : data[last]? with
    | none => exact ⟨[], by simp [kcLoop, hl]⟩
    | some c =>
      rw [kcLoop_succ dist eps data n cs last md c hl]
      split
      · exact ⟨[], by simp⟩
      · obtain ⟨more, h⟩ := kcLoop_prefix dist eps data n
          (cs ++ [(kcStep dist c.val data md 0 0 none).2.1]) (kcStep dist c.val data md 0 0 none).2.1
          (kcStep dist c.val data md 0 0 none).1
        exact ⟨(kcStep dist c.val data md 0 0 none).2.1 :: more, by rw [h]; simp⟩

theorem kcLoopM_spec (dist : α → α → D) (eps : D) (data : List (Elem α)) :
    ∀ (n : Nat) (prev : List Nat) (last : Nat) (md : List (Option D)) (M : Mat D),
      data.length ≤ M.rows → prev.length + 1 + n ≤ M.cols →
      ColsOK dist data M (prev ++ [last]) prev.length →
      ∃ M', kcLoopM dist eps data n (prev ++ [last]) last md M =
          some (kcLoop dist eps data n (prev ++ [last]) last md, M') ∧
        M'.rows = M.rows ∧ M'.cols = M.cols ∧
        ColsOK dist data M' (kcLoop dist eps data n (prev ++ [last]) last md)
          ((kcLoop dist eps data n (prev ++ [last]) last md).length - 1) ∧
        (∀ a b, (data.length ≤ a ∨ (kcLoop dist eps data n (prev ++ [last]) last md).length ≤ b) →
          M'.cell a b = M.cell a b)
  | 0, prev, last, md, M, _, _, hok => by
    refine ⟨M, by simp [kcLoopM, kcLoop], rfl, rfl, ?_, fun _ _ _ => rfl⟩
    simpa [kcLoop] using hok
  | n + 1, prev, last, md, M, hrows, hcols, hok => by
    cases hl : data[last]? with
    | none =>
      refine ⟨M, by simp [kcLoopM, kcLoop, hl], rfl, rfl, ?_, fun _ _ _ => rfl⟩
      simpa [kcLoop, hl] using hok
    | some c =>
      obtain ⟨M1, hw, hr1, hc1, hcell, hframe⟩ :=
        Mat.writeCol_some M prev.length (data.map (fun x => dist x.val c.val)) (by simpa using hrows) (by omega)
      have hlen : (prev ++ [last]).length - 1 = prev.length := by simp
      -- the freshly written column
      have hnew : ∀ (j : Nat) (x : Elem α), data[j]? = some x → M1.cell j prev.length = some (dist x.val c.val) := by
        intro j x hx
        exact hcell j _ (by simp [hx])
      have hold : ∀ (i j : Nat), i < prev.length → M1.cell j i = M.cell j i := by
        intro i j hi
        exact hframe j i (Or.inl (by omega))
      have hw' : M.writeCol ((prev ++ [last]).length - 1) (data.map (fun x => dist x.val c.val)) = some M1 := by
        rw [hlen]; exact hw
      by_cases hstop : kcStop eps (kcStep dist c.val data md 0 0 none).2.2 = true
      · refine ⟨M1, ?_, hr1, hc1, ?_, ?_⟩
        · rw [kcLoopM_succ dist eps data n _ last md M M1 c hl hw', kcLoop_succ dist eps data n _ last md c hl,
            if_pos hstop, if_pos hstop]
        · have hres : kcLoop dist eps data (n + 1) (prev ++ [last]) last md = prev ++ [last] := by
            rw [kcLoop_succ dist eps data n _ last md c hl, if_pos hstop]
          rw [hres, hlen]
          intro i ci c' j x hi hci hc' hx
          rw [hold i j hi]
          exact hok i ci c' j x hi hci hc' hx
        · have hres : kcLoop dist eps data (n + 1) (prev ++ [last]) last md = prev ++ [last] := by
            rw [kcLoop_succ dist eps data n _ last md c hl, if_pos hstop]
          rw [hres]
          intro a b h
          apply hframe
          rcases h with h | h
          · exact Or.inr (by simpa using h)
          · exact Or.inl (by simp at h; omega)
      · -- one more centre
        have hok1 : ColsOK dist data M1 ((prev ++ [last]) ++ [(kcStep dist c.val data md 0 0 none).2.1])
            (prev ++ [last]).length := by
          intro i ci c' j x hi hci hc' hx
          have hi' : i < (prev ++ [last]).length := hi
          rw [List.getElem?_append_left hi'] at hci
          simp only [List.length_append, List.length_cons, List.length_nil] at hi
          by_cases hip : i < prev.length
          · rw [hold i j hip]
            exact hok i ci c' j x hip hci hc' hx
          · have hie : i = prev.length := by omega
            subst hie
            have : ci = last := by simpa using hci.symm
            subst this
            rw [hl] at hc'
            cases hc'
            exact hnew j x hx
        obtain ⟨M2, h2, hr2, hc2, hok2, hframe2⟩ := kcLoopM_spec dist eps data n (prev ++ [last])
          (kcStep dist c.val data md 0 0 none).2.1 (kcStep dist c.val data md 0 0 none).1 M1
          (by rw [hr1]; exact hrows) (by rw [hc1]; simp; omega) hok1
        have hres : kcLoop dist eps data (n + 1) (prev ++ [last]) last md =
            kcLoop dist eps data n ((prev ++ [last]) ++ [(kcStep dist c.val data md 0 0 none).2.1])
              (kcStep dist c.val data md 0 0 none).2.1 (kcStep dist c.val data md 0 0 none).1 := by
          rw [kcLoop_succ dist eps data n _ last md c hl, if_neg hstop]
        refine ⟨M2, ?_, by rw [hr2, hr1], by rw [hc2, hc1], ?_, ?_⟩
        · rw [kcLoopM_succ dist eps data n _ last md M M1 c hl hw', if_neg hstop, h2, hres]
        · rw [hres]; exact hok2
        · rw [hres]
          intro a b h
          rw [hframe2 a b h]
          apply hframe
          rcases h with h | h
          · exact Or.inr (by simpa using h)
          · obtain ⟨more, hm⟩ := kcLoop_prefix dist eps data n
              ((prev ++ [last]) ++ [(kcStep dist c.val data md 0 0 none).2.1])
              (kcStep dist c.val data md 0 0 none).2.1 (kcStep dist c.val data md 0 0 none).1
            rw [hm] at h
            simp at h
            exact Or.inl (by omega)

/-- **`kcenters` with the matrix, `k >= 1`.** -/
theorem kcentersM_spec (dist : α → α → D) (eps : D) (data : List (Elem α)) (k first : Nat) (M0 : Mat D)
    (hk : 1 ≤ k) (hf : first < data.length) :
    ∃ M', kcentersM dist eps data k first M0 = some (kcenters dist eps data k first, M') ∧
      M'.rows = (kcResize M0 data.length k).rows ∧ M'.cols = (kcResize M0 data.length k).cols ∧
      data.length ≤ M'.rows ∧ k ≤ M'.cols ∧
      (∀ (i ci : Nat) (c : Elem α) (j : Nat) (x : Elem α), (kcenters dist eps data k first)[i]? = some ci →
        data[ci]? = some c → data[j]? = some x → M'.cell j i = some (dist x.val c.val)) ∧
      (∀ a b, (data.length ≤ a ∨ (kcenters dist eps data k first).length ≤ b) →
        M'.cell a b = (kcResize M0 data.length k).cell a b) := by
  have hdims : data.length ≤ (kcResize M0 data.length k).rows ∧ k ≤ (kcResize M0 data.length k).cols := by
    unfold kcResize
    split
    · simp [Mat.new]
    · rename_i h
      simp at h
      omega
  obtain ⟨M1, h1, hr1, hc1, hok1, hframe1⟩ := kcLoopM_spec dist eps data (k - 1) [] first
    (data.map (fun _ => none)) (kcResize M0 data.length k) hdims.1 (by simp; omega)
    (by intro i ci c j x hi; simp at hi)
  simp only [List.nil_append] at h1 hok1 hframe1
  have hcs : kcLoop dist eps data (k - 1) [first] first (data.map (fun _ => none)) =
      kcenters dist eps data k first := rfl
  rw [hcs] at h1 hok1 hframe1
  obtain ⟨k1, _, k3, k4⟩ := kcenters_spec dist eps data k first hf
  generalize kcenters dist eps data k first = cs at *
  have hne : cs ≠ [] := by
    intro h; rw [h] at k4; simp at k4
  obtain ⟨l, hlast⟩ : ∃ l, cs.getLast? = some l := by
    cases h : cs.getLast? with
    | none => exact absurd (List.getLast?_eq_none_iff.mp h) hne
    | some l => exact ⟨l, rfl⟩
  have hlmem : l ∈ cs := List.mem_of_getLast? hlast
  have hlv : l < data.length := k1 l hlmem
  obtain ⟨c, hc⟩ : ∃ c, data[l]? = some c := ⟨data[l], List.getElem?_eq_getElem hlv⟩
  obtain ⟨M2, hw, hr2, hc2, hcell, hframe2⟩ :=
    Mat.writeCol_some M1 (cs.length - 1) (data.map (fun x => dist x.val c.val))
      (by rw [hr1]; simpa using hdims.1) (by rw [hc1]; omega)
  have hidx : cs[cs.length - 1]? = some l := by
    rw [List.getLast?_eq_getElem?] at hlast
    exact hlast
  refine ⟨M2, ?_, by rw [hr2, hr1], by rw [hc2, hc1], by rw [hr2, hr1]; exact hdims.1,
    by rw [hc2, hc1]; exact hdims.2, ?_, ?_⟩
  · unfold kcentersM
    simp only [h1, hlast, hc, hw, Option.map_some]
  · intro i ci c' j x hci hc' hx
    have hi : i < cs.length := by
      by_contra hcon
      rw [List.getElem?_eq_none (by omega)] at hci
      cases hci
    by_cases hil : i = cs.length - 1
    · subst hil
      rw [hidx] at hci
      cases hci
      rw [hc] at hc'
      cases hc'
      exact hcell j _ (by simp [hx])
    · rw [hframe2 j i (Or.inl hil)]
      exact hok1 i ci c' j x (by omega) hci hc' hx
  · intro a b h
    rw [← hframe1 a b h]
    apply hframe2
    rcases h with h | h
    · exact Or.inr (by simpa using h)
    · exact Or.inl (by omega)

/-- **`kcenters` with `k = 0`** (the call `split` makes for a node whose `degree_` is 0, with the `n x 0` matrix it
constructs): no `resize` (0 columns are "enough" for `k = 0`), the greedy loop does not run, and the final loop writes
`dists(j, 0)` — outside the matrix. -/
theorem kcentersM_zero_fails (dist : α → α → D) (eps : D) (data : List (Elem α)) (first : Nat)
    (hf : first < data.length) :
    kcentersM dist eps data 0 first (Mat.new data.length 0) = none := by
  obtain ⟨c, hc⟩ : ∃ c, data[first]? = some c := ⟨data[first], List.getElem?_eq_getElem hf⟩
  have hne : data ≠ [] := by
    intro h; rw [h] at hf; simp at hf
  have hres : kcResize (Mat.new data.length 0 : Mat D) data.length 0 = Mat.new data.length 0 := by
    simp [kcResize, Mat.new]
  unfold kcentersM
  simp only [hres, Nat.zero_sub, kcLoopM, List.getLast?_singleton, hc, List.length_singleton, Nat.sub_self]
  have : (Mat.new data.length 0 : Mat D).writeCol 0 (data.map (fun x => dist x.val c.val)) = none := by
    unfold Mat.writeCol
    have : ((data.map (fun x => dist x.val c.val)).isEmpty ||
        (decide ((data.map (fun x => dist x.val c.val)).length ≤ (Mat.new data.length 0 : Mat D).rows) &&
          decide (0 < (Mat.new data.length 0 : Mat D).cols))) = false := by
      simp [Mat.new, hne]
    rw [this]
    rfl
  rw [this]
  rfl

end KCentersM

/-! ### the constructor -/

section Ctor
variable [LinearOrder D] [OfNat D 0]

/-- the OLD constructor's normalisation (`minDegree_ = min(degree, minDegree)`, `maxDegree_ = max(maxDegree, degree)`)
gives parameters for which `split` is defined iff the user's `degree` and `minDegree` are both at least 1. -/
theorem Gnat.initOld_paramsOK (degree minDegree maxDegree leaf cache : Nat) (rebal : Bool) :
    (ParamsOK (Gnat.initOld (α := α) (D := D) degree minDegree maxDegree leaf cache rebal).params ∧
      1 ≤ (Gnat.initOld (α := α) (D := D) degree minDegree maxDegree leaf cache rebal).params.degree) ↔
    (1 ≤ degree ∧ 1 ≤ minDegree) := by
  simp only [Gnat.initOld]
  constructor
  · rintro ⟨⟨h1, _⟩, h3⟩
    simp only at h1 h3
    omega
  · rintro ⟨h1, h2⟩
    refine ⟨⟨?_, ?_⟩, h1⟩ <;> simp only <;> omega

/-- the constructor as coded since 77efe5ce5: for EVERY argument vector `split` is defined. -/
theorem Gnat.init_paramsOK (degree minDegree maxDegree leaf cache : Nat) (rebal : Bool) :
    ParamsOK (Gnat.init (α := α) (D := D) degree minDegree maxDegree leaf cache rebal).params ∧
      1 ≤ (Gnat.init (α := α) (D := D) degree minDegree maxDegree leaf cache rebal).params.degree := by
  exact ⟨⟨Nat.le_max_right _ _, Nat.le_max_right _ _⟩, Nat.le_max_right _ _⟩

/-- the freshly constructed structure satisfies the state invariant. -/
theorem Gnat.init_inv (ctx : Ctx α D U) (degree minDegree maxDegree leaf cache : Nat) (rebal : Bool)
    (hP : ctx.P = (Gnat.init (α := α) (D := D) degree minDegree maxDegree leaf cache rebal).params) :
    (Gnat.init (α := α) (D := D) degree minDegree maxDegree leaf cache rebal).Inv ctx ∧
    (Gnat.init (α := α) (D := D) degree minDegree maxDegree leaf cache rebal).tree = none := by
  refine ⟨⟨hP.symm, ?_, ?_⟩, rfl⟩
  · intro i hi
    simp [Gnat.init] at hi
  · simp [Gnat.init]

end Ctor

/-- `setDistanceFunction` after adds: invariant for the NEW context, same contents (as in `Props/C10.lean`). -/
theorem gnat_set_distance_function_aux [LinearOrder D] [OfNat D 0] (ctx ctx' : Ctx α D U) (hctx' : CtxOK ctx')
    (hP : ctx'.P = ctx.P) (g : Gnat α D) (hg : g.Inv ctx) (us : List U) :
    (g.setDistanceFunction ctx' us).1.Inv ctx' ∧ (g.setDistanceFunction ctx' us).1.list.Perm g.list := by
  have hids := Gnat.list_ids ctx g hg
  obtain ⟨hp, hrem, h3⟩ := hg
  unfold Gnat.setDistanceFunction
  cases ht : g.tree with
  | none =>
    rw [ht] at h3
    refine ⟨⟨by rw [hp, hP], hrem, ?_⟩, List.Perm.refl _⟩
    rw [ht]
    exact h3
  | some t =>
    have := Gnat.rebuild_spec ctx' hctx' g us (by rw [hp, hP]) hids
    exact ⟨this.1, this.2.1⟩

/-! ### histories with `setDistanceFunction` in between -/

section SegProof
variable [CommRing D] [LinearOrder D] [IsStrictOrderedRing D] [BEq α] [LawfulBEq α]

theorem gnatRunSeg_spec {ord : Nat → Nat → List Nat} (hord : ∀ sz off, (ord sz off).Perm (List.range sz)) (P : Params) :
    ∀ (segs : List (Ctx α D U × List (Op α))), (∀ s ∈ segs, CtxOK s.1 ∧ MetricOK s.1.dist ∧ s.1.P = P) →
    ∀ (ctx0 : Ctx α D U) (g0 : Gnat α D) (us : List U) (m0 : List α), ctx0.P = P → g0.Inv ctx0 →
      (g0.list.map (fun e => e.val)).Perm m0 →
      (gnatRunSeg ord segs (g0, us)).1.Inv (lastCtx ctx0 segs) ∧
      ((gnatRunSeg ord segs (g0, us)).1.list.map (fun e => e.val)).Perm
        ((segs.flatMap (fun s => s.2)).foldl specStep m0)
  | [], _, ctx0, g0, us, m0, _, hg0, h0 => by
    simpa [gnatRunSeg, lastCtx] using And.intro hg0 h0
  | (ctx, ops) :: rest, hall, ctx0, g0, us, m0, hP0, hg0, h0 => by
    obtain ⟨hctx, hm, hP⟩ := hall (ctx, ops) (by simp)
    obtain ⟨i1, i2⟩ := gnat_set_distance_function_aux ctx0 ctx hctx (by rw [hP, hP0]) g0 hg0 us
    have h1 : ((g0.setDistanceFunction ctx us).1.list.map (fun e => e.val)).Perm m0 := (i2.map _).trans h0
    obtain ⟨j1, j2⟩ := gnatRun_spec ctx hctx hm hord ops
      ((g0.setDistanceFunction ctx us).1, (g0.setDistanceFunction ctx us).2.1) m0 i1 h1
    have ih := gnatRunSeg_spec hord P rest (fun s hs => hall s (by simp [hs])) ctx
      (gnatRun ctx ord ops (g0.setDistanceFunction ctx us).1 (g0.setDistanceFunction ctx us).2.1).1
      (gnatRun ctx ord ops (g0.setDistanceFunction ctx us).1 (g0.setDistanceFunction ctx us).2.1).2
      (ops.foldl specStep m0) hP j1 j2
    simpa [gnatRunSeg, lastCtx, List.flatMap_cons, List.foldl_append] using ih

end SegProof

end OmplModel.NN
