import OmplModel.Proofs.SpaceDistLaws
/-!
The exact domain `inDom` of the C06 theorems lies inside what the code's `satisfiesBounds` accepts
(the code adds a slack of ε = 2⁻⁵² around boxes / time bounds and 1e-9 around the unit quaternions).
-/
namespace OmplModel.SpaceDist
open OmplModel
attribute [-instance] OmplModel.Num.instOfNat

/-- leaf kinds for which `inDom ⊆ satisfiesBounds` is proved: every modelled leaf (the predicate only excludes
compound constructors appearing where `AllLeaves` expects a leaf, i.e. nothing) -/
def CodeLeaf : Space ℝ → Prop
  | .rv _ _ | .so2 | .so3 | .time _ _ _ | .disc _ _ | .torus _ _ | .mobius _ _ | .klein | .sphere _ => True
  | _ => False

theorem timeInBounds_of (b : Bool) (lo hi t : ℝ) (h : b = true → lo ≤ t ∧ t ≤ hi) : timeInBounds b lo hi t = true := by
  cases b with
  | false => simp [timeInBounds]
  | true =>
    obtain ⟨h1, h2⟩ := h rfl
    have e := eps_pos
    have a1 : @LE.le ℝ instNumReal.toLE (lo - eps) t := by show lo - eps ≤ t; linarith
    have a2 : @LE.le ℝ instNumReal.toLE t (hi + eps) := by show t ≤ hi + eps; linarith
    simp [timeInBounds, a1, a2]


/-- a state of shape `[so2 u, rv [v]]` (Möbius, sphere) -/
theorem shape_so2_rv1 {P : ℝ → ℝ → Prop} {a : St ℝ}
    (h : match a with
      | .ccons (.so2 u) (.ccons (.rv [v]) .cnil) => P u v
      | _ => False) :
    ∃ u v, a = .ccons (.so2 u) (.ccons (.rv [v]) .cnil) ∧ P u v := by
  split at h
  · exact ⟨_, _, rfl, h⟩
  · exact h.elim

/-- a state of shape `[rv [u], so2 v]` (Klein bottle) -/
theorem shape_rv1_so2 {P : ℝ → ℝ → Prop} {a : St ℝ}
    (h : match a with
      | .ccons (.rv [u]) (.ccons (.so2 v) .cnil) => P u v
      | _ => False) :
    ∃ u v, a = .ccons (.rv [u]) (.ccons (.so2 v) .cnil) ∧ P u v := by
  split at h
  · exact ⟨_, _, rfl, h⟩
  · exact h.elim

theorem mobius_shape {imax r : ℝ} {a : St ℝ} (h : inDom (.mobius imax r) a) :
    ∃ u v, a = .ccons (.so2 u) (.ccons (.rv [v]) .cnil) ∧ (so2InBounds u = true ∧ |v| ≤ imax) := by
  apply shape_so2_rv1 (P := fun u v => so2InBounds u = true ∧ |v| ≤ imax)
  unfold inDom at h
  split at h <;> simp_all

theorem sphere_shape {r : ℝ} {a : St ℝ} (h : inDom (.sphere r) a) :
    ∃ t p, a = .ccons (.so2 t) (.ccons (.rv [p]) .cnil) ∧ (so2InBounds t = true ∧ (0 ≤ p ∧ p ≤ Real.pi)) := by
  apply shape_so2_rv1 (P := fun t p => so2InBounds t = true ∧ (0 ≤ p ∧ p ≤ Real.pi))
  unfold inDom at h
  split at h <;> simp_all

theorem klein_shape {a : St ℝ} (h : inDom (.klein : Space ℝ) a) :
    ∃ u v, a = .ccons (.rv [u]) (.ccons (.so2 v) .cnil) ∧ ((0 ≤ u ∧ u ≤ Real.pi) ∧ so2InBounds v = true) := by
  apply shape_rv1_so2 (P := fun u v => (0 ≤ u ∧ u ≤ Real.pi) ∧ so2InBounds v = true)
  unfold inDom at h
  split at h <;> simp_all

theorem rvInBounds_one (v lo hi : ℝ) (h1 : lo ≤ v) (h2 : v ≤ hi) : rvInBounds [v] [lo] [hi] = true :=
  rvIn_inBounds [v] [lo] [hi] (by simp [rvIn, h1, h2])

theorem inDom_satisfiesBounds (sp : Space ℝ) (h : AllLeaves (fun _ => True) CodeLeaf sp) :
    ∀ a, inDom sp a → satisfiesBounds sp a = true := by
  induction sp with
  | rv lo hi =>
    intro a ha
    cases a <;> simp only [inDom] at ha
    simpa [satisfiesBounds] using rvIn_inBounds _ _ _ ha
  | so2 =>
    intro a ha
    cases a <;> simp only [inDom] at ha
    simpa [satisfiesBounds] using ha
  | so3 =>
    intro a ha
    obtain ⟨x, y, z, w, rfl, hq⟩ := so3_inDom_shape ha
    simpa [satisfiesBounds] using unitQ_inBounds hq
  | time b lo hi =>
    intro a ha
    cases a <;> simp only [inDom] at ha
    simpa [satisfiesBounds] using timeInBounds_of b lo hi _ ha
  | disc lo hi =>
    intro a ha
    cases a <;> simp only [inDom] at ha
    simp [satisfiesBounds, ha.1, ha.2]
  | cnil =>
    intro a ha
    cases a <;> simp only [inDom] at ha
    simp [satisfiesBounds]
  | ccons w hd tl ih1 ih2 =>
    intro a ha
    obtain ⟨a1, a2, rfl, h1, h2⟩ := ccons_shape ha
    simp [satisfiesBounds, ih1 h.2.1 a1 h1, ih2 h.2.2.1 a2 h2]
  | wrap s ih =>
    intro a ha
    have : inDom s a := by simpa [inDom] using ha
    simpa [satisfiesBounds] using ih h a this
  | torus R r =>
    intro a ha
    obtain ⟨u, v, rfl, hu, hv⟩ := torus_shape ha
    simp [satisfiesBounds, hu, hv]
  | mobius imax r =>
    intro a ha
    obtain ⟨u, v, rfl, hu, hv⟩ := mobius_shape ha
    have := rvInBounds_one v (-imax) imax (neg_le_of_abs_le hv) (le_of_abs_le hv)
    simp [satisfiesBounds, hu, this]
  | klein =>
    intro a ha
    obtain ⟨u, v, rfl, hu, hv⟩ := klein_shape ha
    have := rvInBounds_one u 0 Real.pi hu.1 hu.2
    have e0 : (Num.ofNat 0 : ℝ) = 0 := by simp
    simp [satisfiesBounds, hv, e0, this]
  | sphere r =>
    intro a ha
    obtain ⟨t, p, rfl, ht, hp⟩ := sphere_shape ha
    have := rvInBounds_one p 0 Real.pi hp.1 hp.2
    have e0 : (Num.ofNat 0 : ℝ) = 0 := by simp
    simp [satisfiesBounds, ht, e0, this]

end OmplModel.SpaceDist
