import OmplModel.Proofs.SpaceDistLaws
/-!
The exact domain `inDom` of the C06 theorems lies inside what the code's `satisfiesBounds` accepts
(the code adds a slack of ε = 2⁻⁵² around boxes / time bounds and 1e-9 around the unit quaternions).
-/
namespace OmplModel.SpaceDist
open OmplModel
attribute [-instance] OmplModel.Num.instOfNat

/-- leaf kinds for which `inDom ⊆ satisfiesBounds` is proved -/
def CodeLeaf : Space ℝ → Prop
  | .rv _ _ | .so2 | .so3 | .time _ _ _ | .disc _ _ | .torus _ _ => True
  | _ => False

theorem timeInBounds_of (b : Bool) (lo hi t : ℝ) (h : b = true → lo ≤ t ∧ t ≤ hi) : timeInBounds b lo hi t = true := by
  cases b with
  | false => simp [timeInBounds]
  | true =>
    obtain ⟨h1, h2⟩ := h rfl
    have e := eps_pos
    have a1 : @LE.le ℝ instNumReal.toLE (lo - eps) t := by show lo - eps ≤ t; linarith
    have a2 : @LE.le ℝ instNumReal.toLE t (hi + eps) := by show t ≤ hi + eps; linarith
    simp [timeInBounds, a1, a2]

theorem inDom_satisfiesBounds (sp : Space ℝ) (h : AllLeaves (fun _ => True) CodeLeaf sp) :
    ∀ a, inDom sp a → satisfiesBounds sp a = true := by
  induction sp with
  | rv lo hi =>
    intro a ha
    cases a <;> simp only [inDom] at ha
    simpa [satisfiesBounds] using rvIn_inBounds _ _ _ ha
  | so2 =>
    intro a ha
    cases a <;> simp only [inDom] at ha
    simpa [satisfiesBounds] using ha
  | so3 =>
    intro a ha
    obtain ⟨x, y, z, w, rfl, hq⟩ := so3_inDom_shape ha
    simpa [satisfiesBounds] using unitQ_inBounds hq
  | time b lo hi =>
    intro a ha
    cases a <;> simp only [inDom] at ha
    simpa [satisfiesBounds] using timeInBounds_of b lo hi _ ha
  | disc lo hi =>
    intro a ha
    cases a <;> simp only [inDom] at ha
    simp [satisfiesBounds, ha.1, ha.2]
  | cnil =>
    intro a ha
    cases a <;> simp only [inDom] at ha
    simp [satisfiesBounds]
  | ccons w hd tl ih1 ih2 =>
    intro a ha
    obtain ⟨a1, a2, rfl, h1, h2⟩ := ccons_shape ha
    simp [satisfiesBounds, ih1 h.2.1 a1 h1, ih2 h.2.2.1 a2 h2]
  | wrap s ih =>
    intro a ha
    have : inDom s a := by simpa [inDom] using ha
    simpa [satisfiesBounds] using ih h a this
  | torus R r =>
    intro a ha
    obtain ⟨u, v, rfl, hu, hv⟩ := torus_shape ha
    simp [satisfiesBounds, hu, hv]
  | mobius _ _ => exact absurd h (by simp [AllLeaves, CodeLeaf])
  | klein => exact absurd h (by simp [AllLeaves, CodeLeaf])
  | sphere _ => exact absurd h (by simp [AllLeaves, CodeLeaf])

end OmplModel.SpaceDist
