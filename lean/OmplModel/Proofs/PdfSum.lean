import OmplModel.Proofs.PdfShape
import Mathlib.Algebra.Order.Ring.Defs
import Mathlib.Tactic.Abel
import Mathlib.Tactic.Linarith
/-! `SumInv` (exact arithmetic): every parent cell is the sum of its one or two children.
Proved for every additive commutative group with a decidable order (the order is only used by
`add`'s sign test). -/
set_option linter.unusedSectionVars false
set_option linter.unusedSimpArgs false
namespace OmplModel.Pdf

/-- the model's operations read in an ordered additive commutative group -/
@[reducible] def groupWOps (α : Type) [AddCommGroup α] [LinearOrder α] : WOps α where
  add := (· + ·)
  sub := (· - ·)
  lt := fun a b => decide (a < b)
  zero := 0

/-- … and in an ordered commutative ring (for `sample`'s `r * total`) -/
@[reducible] def ringWScale (α : Type) [CommRing α] [LinearOrder α] : WScale α where
  toWOps := groupWOps α
  mul := (· * ·)
  one := 1

namespace Exact
scoped instance (α : Type) [AddCommGroup α] [LinearOrder α] : WOps α := groupWOps α
scoped instance (α : Type) [CommRing α] [LinearOrder α] : WScale α := ringWScale α
end Exact
open Exact

variable {α : Type} [AddCommGroup α] [LinearOrder α]

/-- cell `k` of a row, `0` beyond its end (so a parent with one child is `child + 0`) -/
def cell (r : Array α) (k : Nat) : α := (r[k]?).getD 0

theorem cell_lt (r : Array α) (k : Nat) (h : k < r.size) : cell r k = r[k] := by
  simp [cell, h]

theorem cell_ge (r : Array α) (k : Nat) (h : r.size ≤ k) : cell r k = 0 := by
  simp [cell, Array.getElem?_eq_none h]

theorem cell_push (r : Array α) (w : α) (k : Nat) :
    cell (r.push w) k = if k = r.size then w else cell r k := by
  unfold cell
  rw [Array.getElem?_push]
  split <;> simp_all [eq_comm]

theorem cell_pop (r : Array α) (k : Nat) : cell r.pop k = if k + 1 = r.size then 0 else cell r k := by
  unfold cell
  rw [Array.getElem?_pop]
  by_cases h : k < r.size - 1
  · have : k + 1 ≠ r.size := by omega
    simp [h, this]
  · simp only [h, if_false]
    by_cases h2 : k + 1 = r.size
    · simp [h2]
    · have : r.size ≤ k := by omega
      simp [h2, Array.getElem?_eq_none this]

theorem cell_modify (r : Array α) (i : Nat) (f : α → α) (k : Nat) :
    cell (r.modify i f) k = if k = i ∧ k < r.size then f (cell r k) else cell r k := by
  unfold cell
  rw [Array.getElem?_modify]
  by_cases h : k < r.size
  · by_cases e : i = k
    · subst e; simp [h]
    · have : ¬ k = i := fun x => e x.symm
      simp [e, this]
  · have hk : r.size ≤ k := by omega
    simp [Array.getElem?_eq_none hk, h]

def SumRel (c p : Array α) : Prop := ∀ j, cell p j = cell c (2 * j) + cell c (2 * j + 1)

def SumChain : List (Array α) → Prop
  | [] => True
  | [_] => True
  | c :: p :: rs => SumRel c p ∧ SumChain (p :: rs)

/-- `SumInv`: parent = sum of its children, on every level. -/
def SumInv (s : Pdf α) : Prop := SumChain s.tree

theorem sumChain_cons2 (c p : Array α) (rs) : SumChain (c :: p :: rs) ↔ SumRel c p ∧ SumChain (p :: rs) :=
  Iff.rfl

theorem sumRel_modify (c p : Array α) (i : Nat) (d : α) (h : SumRel c p) (hi : i < c.size)
    (hp : i / 2 < p.size) :
    SumRel (c.modify i (fun a => a + d)) (p.modify (i / 2) (fun a => a + d)) := by
  intro j
  rw [cell_modify, cell_modify, cell_modify, h j]
  by_cases e : j = i / 2
  · have hj : j < p.size := by omega
    by_cases e0 : i = 2 * j
    · subst e0
      have h1 : ¬ (2 * j + 1 = 2 * j) := by omega
      have h2 : 2 * j / 2 = j := by omega
      simp only [h2, hj, hi, h1, and_self, true_and, false_and, if_true, if_false]
      abel
    · have e1 : i = 2 * j + 1 := by omega
      subst e1
      have h1 : ¬ (2 * j = 2 * j + 1) := by omega
      have h2 : (2 * j + 1) / 2 = j := by omega
      simp only [h2, hj, hi, h1, and_self, true_and, false_and, if_true, if_false]
      abel
  · have e0 : ¬ 2 * j = i := by omega
    have e1 : ¬ 2 * j + 1 = i := by omega
    simp [e, e0, e1]

theorem wadd (a b : α) : WOps.add a b = a + b := rfl
theorem wsub (a b : α) : WOps.sub a b = a - b := rfl

theorem chain_bump (d : α) : ∀ (rs : List (Array α)) (c : Array α) (i : Nat), i < c.size →
    Above c.size (sizes rs) → SumChain (c :: rs) →
    SumChain (c.modify i (fun a => a + d) :: bump d rs (i / 2))
  | [], c, i, _, _, _ => by simp [bump, SumChain]
  | p :: rs, c, i, hi, ha, hc => by
    rw [sizes_cons, above_cons] at ha
    obtain ⟨_, hp, _, hab⟩ := ha
    rw [sumChain_cons2] at hc
    unfold bump
    simp only [wadd]
    rw [sumChain_cons2]
    refine ⟨sumRel_modify c p i d hc.1 hi (by omega), ?_⟩
    exact chain_bump d rs p (i / 2) (by omega) (hp ▸ hab) hc.2

theorem chain_map_modBack (d : α) : ∀ (rows : List (Array α)) (n : Nat), ShapeSizes n (sizes rows) →
    SumChain rows → SumChain (rows.map (modBack (fun a => a + d)))
  | [], _, _, _ => by simp [SumChain]
  | [c], _, _, _ => by simp [SumChain]
  | c :: p :: rs, n, hs, hc => by
    rw [sizes_cons, shapeSizes_cons, sizes_cons, above_cons] at hs
    obtain ⟨hcs, hn, hn1, hp, _, hab⟩ := hs
    rw [sumChain_cons2] at hc
    simp only [List.map_cons]
    rw [sumChain_cons2]
    constructor
    · unfold modBack
      have e : p.size - 1 = (c.size - 1) / 2 := by omega
      rw [e]
      exact sumRel_modify c p (c.size - 1) d hc.1 (by omega) (by omega)
    · have := chain_map_modBack d (p :: rs) ((n + 1) / 2)
        (by rw [sizes_cons, shapeSizes_cons]; exact ⟨hp, by omega, hp ▸ (hp ▸ hab)⟩) hc.2
      simpa using this

theorem chain_addRows (w : α) : ∀ (rs : List (Array α)) (prev : Array α) (n : Nat), 1 ≤ n → prev.size = n →
    Above n (sizes rs) → SumChain (prev :: rs) → SumChain (prev.push w :: addRows w (prev.push w) rs)
  | [], prev, n, hn, hp, ha, _ => by
    rw [sizes_nil, above_nil n hn] at ha
    subst ha
    have h0 : (prev.push w)[0]? = some prev[0] := by
      rw [Array.getElem?_push_lt (by omega)]
    have h1 : (prev.push w)[1]? = some w := by
      rw [← hp]; simp
    simp only [addRows, h0, h1, wadd]
    rw [sumChain_cons2]; refine ⟨?_, trivial⟩
    intro j
    rcases j with _ | j
    · simp [cell_push, hp, cell_lt, Array.getElem_push]
    · rw [cell_ge, cell_ge, cell_ge] <;> simp <;> omega
  | r :: rs, prev, n, hn, hp, ha, hc => by
    rw [sizes_cons, above_cons] at ha
    obtain ⟨hn1, hr, _, hab⟩ := ha
    rw [sumChain_cons2] at hc
    unfold addRows
    by_cases hodd : (prev.push w).size % 2 = 1
    · simp only [hodd, if_true]
      rw [sumChain_cons2]
      have hsz : prev.size = 2 * r.size := by simp at hodd; omega
      constructor
      · intro j
        rw [cell_push, cell_push, cell_push, hc.1 j]
        by_cases e : j = r.size
        · subst e
          have h1 : 2 * r.size = prev.size := by omega
          have h2 : ¬ 2 * r.size + 1 = prev.size := by omega
          rw [cell_ge prev (2 * r.size + 1) (by omega)]
          simp [h1]
        · have h1 : ¬ 2 * j = prev.size := by omega
          have h2 : ¬ 2 * j + 1 = prev.size := by omega
          simp only [e, h1, h2, if_false]
      · exact chain_addRows w rs r ((n + 1) / 2) (by omega) hr hab hc.2
    · simp only [hodd, if_false]
      have hsz : prev.size + 1 = 2 * r.size := by simp at hodd; omega
      have := chain_map_modBack w (r :: rs) ((n + 1) / 2)
        (by rw [sizes_cons, shapeSizes_cons]; exact ⟨hr, by omega, hab⟩) hc.2
      simp only [List.map_cons, wadd] at this ⊢
      rw [sumChain_cons2]
      refine ⟨?_, this⟩
      intro j
      unfold modBack
      rw [cell_modify, cell_push, cell_push, hc.1 j]
      by_cases e : j = r.size - 1
      · subst e
        have h1 : ¬ 2 * (r.size - 1) = prev.size := by omega
        have h2 : 2 * (r.size - 1) + 1 = prev.size := by omega
        have h3 : r.size - 1 < r.size := by omega
        simp only [h3, and_self, if_true, h1, h2, if_false]
        rw [cell_ge prev prev.size (Nat.le_refl _)]
        abel
      · have h1 : ¬ 2 * j = prev.size := by omega
        have h2 : ¬ 2 * j + 1 = prev.size := by omega
        simp only [e, false_and, h1, h2, if_false]

theorem modBack_sub (w : α) :
    (modBack (fun a => WOps.sub a w) : Array α → Array α) = modBack (fun a => a + -w) := by
  funext r; simp [modBack, wsub, sub_eq_add_neg]

theorem chain_popLoop (w : α) : ∀ (rs : List (Array α)) (prev : Array α) (n k : Nat), 2 ≤ n →
    prev.size = n → k = n - 1 → Above n (sizes rs) → SumChain (prev :: rs) → w = cell prev (n - 1) →
    SumChain (prev.pop :: (if (popLoop w k rs).2 then (popLoop w k rs).1.dropLast else (popLoop w k rs).1))
  | [], prev, n, k, hn, _, _, ha, _, _ => by
    rw [sizes_nil, above_nil n (by omega)] at ha; omega
  | r :: rs, prev, n, k, hn, hp, hk, ha, hc, hw => by
    rw [sizes_cons, above_cons] at ha
    obtain ⟨hn1, hr, _, hab⟩ := ha
    rw [sumChain_cons2] at hc
    subst hk
    unfold popLoop
    by_cases h1 : 1 < n - 1
    · simp only [h1, if_true]
      by_cases hev : (n - 1) % 2 = 0
      · simp only [hev, if_true]
        have hrel : SumRel prev.pop r.pop := by
          intro j
          rw [cell_pop, cell_pop, cell_pop, hc.1 j]
          by_cases e : j + 1 = r.size
          · have h2 : 2 * j + 1 = prev.size := by omega
            have h3 : ¬ 2 * j + 1 + 1 = prev.size := by omega
            rw [cell_ge prev (2 * j + 1) (by omega)]
            simp [e, h2, h3]
          · have h2 : ¬ 2 * j + 1 = prev.size := by omega
            have h3 : ¬ 2 * j + 1 + 1 = prev.size := by omega
            simp only [e, h2, h3, if_false]
        have hw2 : w = cell r ((n + 1) / 2 - 1) := by
          rw [hc.1, hw, cell_ge prev (2 * ((n + 1) / 2 - 1) + 1) (by omega)]
          have : 2 * ((n + 1) / 2 - 1) = n - 1 := by omega
          rw [this]; abel
        have ih := chain_popLoop w rs r ((n + 1) / 2) r.pop.size (by omega) hr (by simp [hr]) hab hc.2 hw2
        cases rs with
        | nil => rw [sizes_nil, above_nil _ (by omega)] at hab; omega
        | cons r2 rs2 =>
          have hne2 := popLoop_ne_nil w r.pop.size r2 rs2
          by_cases hf : (popLoop w r.pop.size (r2 :: rs2)).2 = true
          · simp only [hf, if_true] at ih ⊢
            rw [List.dropLast_cons_of_ne_nil hne2, sumChain_cons2]
            exact ⟨hrel, ih⟩
          · simp only [hf, Bool.false_eq_true, if_false] at ih ⊢
            rw [sumChain_cons2]
            exact ⟨hrel, ih⟩
      · simp only [hev, if_false, Bool.false_eq_true]
        rw [modBack_sub]
        have := chain_map_modBack (-w) (r :: rs) ((n + 1) / 2)
          (by rw [sizes_cons, shapeSizes_cons]; exact ⟨hr, by omega, hab⟩) hc.2
        simp only [List.map_cons] at this ⊢
        rw [sumChain_cons2]
        refine ⟨?_, this⟩
        intro j
        unfold modBack
        rw [cell_modify, cell_pop, cell_pop, hc.1 j]
        by_cases e : j = r.size - 1
        · subst e
          have h2 : ¬ 2 * (r.size - 1) + 1 = prev.size := by omega
          have h3 : 2 * (r.size - 1) + 1 + 1 = prev.size := by omega
          have h4 : r.size - 1 < r.size := by omega
          have h5 : 2 * (r.size - 1) + 1 = n - 1 := by omega
          simp only [h2, h3, h4, and_self, if_true, if_false]
          rw [hw, h5]; abel
        · have h2 : ¬ 2 * j + 1 = prev.size := by omega
          have h3 : ¬ 2 * j + 1 + 1 = prev.size := by omega
          simp only [e, false_and, h2, h3, if_false]
    · simp only [h1, if_false, if_true]
      have : (n + 1) / 2 = 1 := by omega
      rw [this] at hab
      cases rs with
      | nil => simp [SumChain]
      | cons a b => simp [Above, sizes] at hab

theorem chain_popPhase (w : α) (c : Array α) (rs : List (Array α)) (n : Nat) (hn : 2 ≤ n)
    (hs : ShapeSizes n (sizes (c :: rs))) (hc : SumChain (c :: rs)) (hw : w = cell c (n - 1)) :
    SumChain (popPhase w c rs) := by
  rw [sizes_cons, shapeSizes_cons] at hs
  obtain ⟨hcs, _, hab⟩ := hs
  have key := chain_popLoop w rs c n c.pop.size hn hcs (by simp [hcs]) hab hc hw
  unfold popPhase
  cases rs with
  | nil => rw [sizes_nil, above_nil _ (by omega)] at hab; omega
  | cons r2 rs2 =>
    have hne2 := popLoop_ne_nil w c.pop.size r2 rs2
    by_cases hf : (popLoop w c.pop.size (r2 :: rs2)).2 = true
    · simp only [hf, if_true] at key ⊢
      rw [List.dropLast_cons_of_ne_nil hne2]
      exact key
    · simp only [hf, Bool.false_eq_true, if_false] at key ⊢
      exact key

theorem sumInv_empty : SumInv (Pdf.empty : Pdf α) := by simp [SumInv, Pdf.empty, SumChain]
theorem sumInv_clear (s : Pdf α) : SumInv s.clear := by simp [SumInv, Pdf.clear, SumChain]

theorem sumInv_add (s : Pdf α) (w : α) (hsh : ShapeInv s) (h : SumInv s) : SumInv (s.add w) := by
  unfold Pdf.add
  split
  · exact h
  · unfold SumInv ShapeInv at *
    simp only
    by_cases h0 : s.data.size = 0
    · rw [h0, shapeSizes_zero_iff, sizes_eq_nil] at hsh
      simp [h0, hsh, SumChain]
    · simp only [h0, if_false]
      cases ht : s.tree with
      | nil => simp [SumChain]
      | cons r0 rs =>
        rw [ht] at h hsh
        simp only [sizes_cons, shapeSizes_cons] at hsh
        exact chain_addRows w rs r0 s.data.size (by omega) hsh.1 hsh.2.2 h

theorem set_eq_modify (r : Array α) (i : Nat) (hi : i < r.size) (w : α) :
    r.set i w hi = r.modify i (fun a => a + (w - r[i])) := by
  apply Array.ext
  · simp
  · intro k h1 h2
    simp only [Array.getElem_set, Array.getElem_modify]
    split
    · rename_i e; subst e; abel
    · rfl

theorem sumInv_update (s : Pdf α) (h : Nat) (w : α) (hsh : ShapeInv s) (hs : SumInv s) :
    SumInv (s.update h w) := by
  unfold Pdf.update
  split
  · exact hs
  · split
    · exact hs
    · split
      · exact hs
      · rename_i r0 rs ht
        split
        · rename_i hi
          unfold SumInv ShapeInv at *
          rw [ht] at hs hsh
          simp only [sizes_cons, shapeSizes_cons] at hsh
          simp only [wsub]
          rw [set_eq_modify]
          exact chain_bump _ rs r0 _ hi (hsh.1 ▸ hsh.2.2) hs
        · exact hs

theorem popPhase_congr (w : α) (c c' : Array α) (rs : List (Array α)) (h : c.pop = c'.pop) :
    popPhase w c rs = popPhase w c' rs := by
  unfold popPhase; rw [h]

theorem cell_swap (r : Array α) (i j : Nat) (hi : i < r.size) (hj : j < r.size) (k : Nat) :
    cell (r.swap i j hi hj) k = if k = i then cell r j else if k = j then cell r i else cell r k := by
  by_cases hk : k < r.size
  · rw [cell_lt _ _ (by simpa using hk), cell_lt _ _ hi, cell_lt _ _ hj, cell_lt _ _ hk, Array.getElem_swap]
  · have h1 : ¬ k = i := by omega
    have h2 : ¬ k = j := by omega
    rw [if_neg h1, if_neg h2, cell_ge _ _ (by simp; omega), cell_ge _ _ (by omega)]

theorem sumInv_remove (s : Pdf α) (h : Nat) (hsh : ShapeInv s) (hs : SumInv s) : SumInv (s.remove h) := by
  unfold Pdf.remove
  split
  · exact hs
  · rename_i i _
    split
    · rename_i hd
      split
      · simp [SumInv, SumChain]
      · rename_i hne1
        split
        · exact hs
        · rename_i r0 rs ht
          have hn2 : 2 ≤ s.data.size := by omega
          unfold ShapeInv at hsh
          unfold SumInv at hs
          rw [ht] at hsh hs
          have hsh' := hsh
          rw [sizes_cons, shapeSizes_cons] at hsh'
          obtain ⟨hr0, _, hab⟩ := hsh'
          split
          · rename_i hr
            simp only
            split
            · -- last element
              unfold SumInv
              simp only
              apply chain_popPhase _ r0 rs _ hn2 hsh hs
              rw [cell_lt _ _ (by omega)]
              congr 1; omega
            · rename_i hnl
              split
              · -- siblings
                rename_i hsib
                unfold SumInv
                simp only
                apply chain_popPhase _ _ rs _ hn2 (by simpa using hsh)
                · cases rs with
                  | nil => simp [SumChain]
                  | cons p rs2 =>
                    rw [sumChain_cons2] at hs ⊢
                    refine ⟨?_, hs.2⟩
                    intro j
                    rw [cell_swap, cell_swap, hs.1 j]
                    by_cases e : 2 * j = i
                    · have h1 : ¬ 2 * j + 1 = i := by omega
                      have h2 : 2 * j + 1 = r0.size - 1 := by omega
                      rw [if_pos e, if_neg h1, if_pos h2, h2, e]
                      abel
                    · have h1 : ¬ 2 * j + 1 = i := by omega
                      have h2 : ¬ 2 * j + 1 = r0.size - 1 := by omega
                      have h3 : ¬ 2 * j = r0.size - 1 := by omega
                      simp only [e, h1, h2, h3, if_false]
                · have h1 : ¬ s.data.size - 1 = i := by omega
                  have h2 : s.data.size - 1 = r0.size - 1 := by omega
                  rw [cell_swap, if_neg h1, if_pos h2, cell_lt _ _ hr]
              · -- general position
                unfold SumInv
                simp only [wsub]
                have hpop : (r0.swap i (r0.size - 1) hr (by omega)).pop =
                    (r0.modify i (fun a => a + (r0[r0.size - 1] - r0[i]))).pop := by
                  apply Array.ext
                  · simp
                  · intro k h1 h2
                    simp only [Array.size_pop, Array.size_swap] at h1
                    simp only [Array.getElem_pop, Array.getElem_swap, Array.getElem_modify]
                    by_cases e : k = i
                    · subst e; simp
                    · have : ¬ k = r0.size - 1 := by omega
                      have e' : ¬ i = k := fun x => e x.symm
                      simp [e, this, e']
                rw [popPhase_congr _ _ _ _ hpop]
                apply chain_popPhase _ _ _ _ hn2
                · simpa [sizes_bump] using hsh
                · exact chain_bump _ rs r0 i hr (hr0 ▸ hab) hs
                · rw [cell_modify]
                  have h1 : ¬ s.data.size - 1 = i := by omega
                  simp only [h1, false_and, if_false]
                  rw [cell_lt _ _ (by omega)]
                  congr 1; omega
          · unfold SumInv; rw [ht]; exact hs
    · exact hs

/-- the two structural invariants together -/
def TreeInv (s : Pdf α) : Prop := ShapeInv s ∧ SumInv s

theorem treeInv_step (s : Pdf α) (op : Op α) (h : TreeInv s) : TreeInv (s.step op) := by
  refine ⟨shapeInv_step s op h.1, ?_⟩
  cases op with
  | add w => exact sumInv_add s w h.1 h.2
  | update k w => exact sumInv_update s k w h.1 h.2
  | remove k => exact sumInv_remove s k h.1 h.2
  | clear => exact sumInv_clear s
  | sample r => exact h.2

theorem treeInv_run (ops : List (Op α)) : ∀ (s : Pdf α), TreeInv s → TreeInv (s.run ops) := by
  induction ops with
  | nil => intro s hs; exact hs
  | cons op ops ih => intro s hs; exact ih _ (treeInv_step s op hs)

end OmplModel.Pdf
