import OmplModel.Model.PathHybrid
import Mathlib.Algebra.Order.Monoid.Defs
import Mathlib.Algebra.Order.Group.Nat
/-!
# Path hybridization: the hybrid path is never worse than any recorded path

Claims about the graph built by `PathHybridization::recordPath` (`Model/PathHybrid.lean`), for EVERY
interleaving `ops` of recorded paths (any number, each with any number ≥ 1 of states and any motion
costs) and extra edges (any ends, any cost, at any time):

* `recorded_path_is_walk`: for every recorded path, `root :: vertices_ ++ [goal]` is a root→goal walk
  of the final graph whose cost is the path's own cost `pi.cost_` (edges are only added: `walk_mono`);
* `hybrid_le_each_input`: a walk that meets the shortest-path specification `IsShortest` of the final
  graph costs at most as much as each recorded path; `hybrid_le_best_input`: at most the minimum.

Abstractions (details in the header of the model):
* boost's Dijkstra is an ORACLE, assumed to return a walk with `IsShortest` (its contract for additive
  non-negative costs in exact arithmetic);
* which cross edges `matchPaths`/the gap logic attempt, and what `checkMotion` answers, is irrelevant:
  extra edges are arbitrary here;
* costs are additive (`identityCost = 0`, `combineCosts = +`, `isCostBetterThan = <`) in an
  `AddMonoid` with a linear order – no commutativity, no compatibility of `+` with `≤` and no sign
  condition is needed for the claims; `min`-combining objectives (`MaximizeMinClearanceObjective`) are
  NOT covered;
* the graph is undirected, the walk may use an edge against the direction its cost was computed in:
  the returned `PathGeometric`'s own `cost(obj)` equals the walk cost only for symmetric motion costs
  (and up to floating-point re-association).
-/
namespace OmplModel.PathHybrid

variable {κ : Type}

/-! ### walks persist when edges are added -/

theorem Joined.mono {es es' : List (Nat × Nat × κ)} (h : ∀ e ∈ es, e ∈ es') {a b : Nat} {c : κ} :
    Joined es a b c → Joined es' a b c
  | .inl m => .inl (h _ m)
  | .inr m => .inr (h _ m)

/-- a walk of a graph is a walk of every graph with more edges -/
theorem walk_mono {es es' : List (Nat × Nat × κ)} (h : ∀ e ∈ es, e ∈ es') :
    ∀ {w : List (Nat × κ)} {a b : Nat}, IsWalk es a w b → IsWalk es' a w b := by
  intro w
  induction w with
  | nil => intro a b hw; exact hw
  | cons s r ih =>
    intro a b hw
    obtain ⟨v, c⟩ := s
    exact ⟨hw.1.mono h, ih hw.2⟩

theorem IsWalk.append {es : List (Nat × Nat × κ)} :
    ∀ {w1 w2 : List (Nat × κ)} {a b c : Nat}, IsWalk es a w1 b → IsWalk es b w2 c →
      IsWalk es a (w1 ++ w2) c := by
  intro w1
  induction w1 with
  | nil => intro w2 a b c h1 h2; cases h1; exact h2
  | cons s r ih =>
    intro w2 a b c h1 h2
    obtain ⟨v, k⟩ := s
    exact ⟨h1.1, ih h1.2 h2⟩

theorem step_edges_mono [Zero κ] (s : St κ) (o : Op κ) :
    ∀ e ∈ s.g.edges, e ∈ (step s o).g.edges := by
  intro e he
  cases o with
  | record ws => exact List.mem_append_left _ he
  | edge a b w => exact List.mem_append_left _ he

theorem runFrom_edges_mono [Zero κ] (ops : List (Op κ)) :
    ∀ (s : St κ), ∀ e ∈ s.g.edges, e ∈ (runFrom s ops).g.edges := by
  induction ops with
  | nil => intro s e he; exact he
  | cons o ops ih => intro s e he; exact ih (step s o) e (step_edges_mono s o e he)

theorem run_append [Zero κ] (ops more : List (Op κ)) :
    run (ops ++ more) = runFrom (run ops) more := by
  simp [run, runFrom, List.foldl_append]

/-- edges are never removed: whatever is recorded or attempted later, the old edges are still there -/
theorem run_append_edges_mono [Zero κ] (ops more : List (Op κ)) :
    ∀ e ∈ (run ops).g.edges, e ∈ (run (ops ++ more)).g.edges := by
  rw [run_append]; exact runFrom_edges_mono more _

/-! ### cost bookkeeping -/

section Monoid
variable [AddMonoid κ]

theorem walkCost_append (w1 w2 : List (Nat × κ)) :
    walkCost (w1 ++ w2) = walkCost w1 + walkCost w2 := by
  induction w1 with
  | nil => simp [walkCost]
  | cons s r ih => obtain ⟨v, c⟩ := s; simp [walkCost, ih, add_assoc]

theorem foldl_add_eq (ws : List κ) : ∀ a : κ, ws.foldl (· + ·) a = a + ws.foldl (· + ·) 0 := by
  induction ws with
  | nil => intro a; simp
  | cons w ws ih => intro a; simp only [List.foldl_cons]; rw [ih (a + w), ih (0 + w), zero_add, add_assoc]

theorem walkCost_zip (ws : List κ) :
    ∀ l : List Nat, ws.length ≤ l.length → walkCost (l.zip ws) = pathCost ws := by
  induction ws with
  | nil => intro l _; simp [walkCost, pathCost]
  | cons w ws ih =>
    intro l hl
    cases l with
    | nil => simp at hl
    | cons x l =>
      simp only [List.length_cons, Nat.add_le_add_iff_right] at hl
      simp only [List.zip_cons_cons, walkCost, ih l hl, pathCost, List.foldl_cons]
      rw [foldl_add_eq ws (0 + w), zero_add]

end Monoid

/-! ### one `recordPath` -/

theorem chain_walk (es : List (Nat × Nat × κ)) :
    ∀ (ws : List κ) (v : Nat), (∀ e ∈ chainEdges v ws, e ∈ es) →
      IsWalk es v ((List.range' (v + 1) ws.length).zip ws) (v + ws.length) := by
  intro ws
  induction ws with
  | nil => intro v _; simp [IsWalk]
  | cons w ws ih =>
    intro v h
    simp only [List.length_cons, List.range'_succ, List.zip_cons_cons, IsWalk]
    refine ⟨.inl (h _ (by simp [chainEdges])), ?_⟩
    have := ih (v + 1) (fun e he => h e (by simp [chainEdges, he]))
    rwa [show v + 1 + ws.length = v + (ws.length + 1) by omega] at this

/-- what the property says about one recorded path `p` in a graph with edges `es` -/
def RecOk [Zero κ] [Add κ] (es : List (Nat × Nat × κ)) (p : Rec κ) : Prop :=
  p.verts.length = p.costs.length + 1 ∧
  IsWalk es root (recWalk p) goal ∧
  walkVerts root (recWalk p) = root :: p.verts ++ [goal] ∧
  walkCost (recWalk p) = pathCost p.costs

theorem RecOk.mono [Zero κ] [Add κ] {es es' : List (Nat × Nat × κ)} (h : ∀ e ∈ es, e ∈ es')
    {p : Rec κ} (hp : RecOk es p) : RecOk es' p :=
  ⟨hp.1, walk_mono h hp.2.1, hp.2.2⟩

theorem recWalk_record [Zero κ] (v0 : Nat) (ws : List κ) :
    recWalk ⟨List.range' v0 (ws.length + 1), ws⟩ =
      (v0, (0 : κ)) :: ((List.range' (v0 + 1) ws.length).zip ws ++ [(goal, 0)]) := by
  simp [recWalk, List.range'_succ]

/-- right after `recordPath`, `root :: vertices_ ++ [goal]` is a walk of cost `pi.cost_` -/
theorem recordPath_ok [AddMonoid κ] (g : HGraph κ) (ws : List κ) :
    RecOk (recordPath g ws).1.edges ⟨(recordPath g ws).2, ws⟩ := by
  have hedges : (recordPath g ws).1.edges =
      g.edges ++ ((root, g.nverts, 0) :: chainEdges g.nverts ws ++ [(g.nverts + ws.length, goal, 0)]) := rfl
  have hverts : (recordPath g ws).2 = List.range' g.nverts (ws.length + 1) := rfl
  rw [hverts]
  refine ⟨by simp, ?_, ?_, ?_⟩
  · rw [recWalk_record, hedges]
    refine ⟨.inl (by simp), ?_⟩
    refine IsWalk.append (chain_walk _ ws g.nverts (fun e he => ?_)) ?_
    · simp [he]
    · exact ⟨.inl (by simp), rfl⟩
  · simp only [walkVerts, recWalk, List.map_append, List.map_cons, List.map_nil, List.cons_append,
      List.cons.injEq, true_and]
    congr 1
    exact List.map_fst_zip (by simp)
  · rw [recWalk_record]
    simp only [walkCost, walkCost_append, add_zero, zero_add]
    exact walkCost_zip ws _ (by simp)

/-! ### all of them, in the final graph -/

theorem step_ok [AddMonoid κ] (s : St κ) (o : Op κ) (h : ∀ p ∈ s.paths, RecOk s.g.edges p) :
    ∀ p ∈ (step s o).paths, RecOk (step s o).g.edges p := by
  intro p hp
  cases o with
  | record ws =>
    rcases List.mem_append.mp hp with hp | hp
    · exact (h p hp).mono (step_edges_mono s (.record ws))
    · rw [List.mem_singleton.mp hp]; exact recordPath_ok s.g ws
  | edge a b w => exact (h p hp).mono (step_edges_mono s (.edge a b w))

theorem runFrom_ok [AddMonoid κ] (ops : List (Op κ)) :
    ∀ s : St κ, (∀ p ∈ s.paths, RecOk s.g.edges p) →
      ∀ p ∈ (runFrom s ops).paths, RecOk (runFrom s ops).g.edges p := by
  induction ops with
  | nil => intro s h; exact h
  | cons o ops ih => intro s h; exact ih (step s o) (step_ok s o h)

/-- the costs of a `record` op (`none` for an extra edge) -/
def recCosts : Op κ → Option (List κ)
  | .record ws => some ws
  | .edge _ _ _ => none

theorem runFrom_paths_costs [Zero κ] (ops : List (Op κ)) :
    ∀ s : St κ, (runFrom s ops).paths.map (·.costs) = s.paths.map (·.costs) ++ ops.filterMap recCosts := by
  induction ops with
  | nil => intro s; simp [runFrom]
  | cons o ops ih =>
    intro s
    have : runFrom s (o :: ops) = runFrom (step s o) ops := rfl
    rw [this, ih (step s o)]
    cases o <;> simp [step, recCosts, List.filterMap_cons]

/-- `paths_` holds exactly the recorded paths, in recording order -/
theorem run_paths_costs [Zero κ] (ops : List (Op κ)) :
    (run ops).paths.map (·.costs) = ops.filterMap recCosts := by
  simp [run, runFrom_paths_costs, St.init]

theorem record_mem_paths [Zero κ] {ops : List (Op κ)} {ws : List κ} (h : Op.record ws ∈ ops) :
    ∃ p ∈ (run ops).paths, p.costs = ws := by
  have : ws ∈ (run ops).paths.map (·.costs) := by
    rw [run_paths_costs]; exact List.mem_filterMap.mpr ⟨_, h, rfl⟩
  simpa using this

/-- **Every recorded path is a root→goal walk of the final graph, at its own cost.**  For every op
list (any number of paths, any lengths, any extra edges at any time) and every entry `p` of `paths_`:
`p` has one vertex per state, the steps `recWalk p` form a walk from root to goal in the final graph,
its vertex list is `root :: p.verts ++ [goal]`, and its cost is `pathCost p.costs` (= `pi.cost_`). -/
theorem recorded_path_is_walk [AddMonoid κ] (ops : List (Op κ)) :
    ∀ p ∈ (run ops).paths,
      p.verts.length = p.costs.length + 1 ∧
      IsWalk (run ops).g.edges root (recWalk p) goal ∧
      walkVerts root (recWalk p) = root :: p.verts ++ [goal] ∧
      walkCost (recWalk p) = pathCost p.costs :=
  runFrom_ok ops St.init (fun _ hp => by cases hp)

/-- the same, addressed by the `record` op instead of the `paths_` entry -/
theorem recorded_op_is_walk [AddMonoid κ] {ops : List (Op κ)} {ws : List κ} (h : Op.record ws ∈ ops) :
    ∃ vs : List Nat, vs.length = ws.length + 1 ∧ (⟨vs, ws⟩ : Rec κ) ∈ (run ops).paths ∧
      IsWalk (run ops).g.edges root (recWalk ⟨vs, ws⟩) goal ∧
      walkVerts root (recWalk ⟨vs, ws⟩) = root :: vs ++ [goal] ∧
      walkCost (recWalk ⟨vs, ws⟩) = pathCost ws := by
  obtain ⟨⟨vs, ws'⟩, hp, rfl⟩ := record_mem_paths h
  exact ⟨vs, (recorded_path_is_walk ops _ hp).1, hp, (recorded_path_is_walk ops _ hp).2⟩

/-- once a path is recorded the goal is reachable (`prev[goal_] != goal_` for a correct Dijkstra) -/
theorem goal_reachable [AddMonoid κ] (ops : List (Op κ)) (h : (run ops).paths ≠ []) :
    ∃ w, IsWalk (run ops).g.edges root w goal := by
  obtain ⟨p, hp⟩ := List.exists_mem_of_ne_nil _ h
  exact ⟨_, (recorded_path_is_walk ops p hp).2.1⟩

/-! ### the hybrid path is never worse than an input -/

section Order
variable [AddMonoid κ] [LinearOrder κ]

/-- **The hybrid path costs at most as much as each recorded path**: if `w` meets the shortest-path
specification of the final graph, `cost w ≤ cost pᵢ` for every entry of `paths_`. -/
theorem hybrid_le_each_input (ops : List (Op κ)) (w : List (Nat × κ))
    (hw : IsShortest (run ops).g.edges w) :
    ∀ p ∈ (run ops).paths, walkCost w ≤ pathCost p.costs := by
  intro p hp
  obtain ⟨_, h1, _, h3⟩ := recorded_path_is_walk ops p hp
  rw [← h3]
  exact not_lt.mp (hw.2 _ h1)

/-- the same, addressed by the `record` op -/
theorem hybrid_le_each_recorded (ops : List (Op κ)) (w : List (Nat × κ))
    (hw : IsShortest (run ops).g.edges w) (ws : List κ) (h : Op.record ws ∈ ops) :
    walkCost w ≤ pathCost ws := by
  obtain ⟨p, hp, rfl⟩ := record_mem_paths h
  exact hybrid_le_each_input ops w hw p hp

/-- **… hence at most the best input**: `m` is the minimum of the recorded paths' costs -/
theorem hybrid_le_best_input (ops : List (Op κ)) (w : List (Nat × κ))
    (hw : IsShortest (run ops).g.edges w) (m : κ)
    (hm : ((run ops).paths.map fun p => pathCost p.costs).min? = some m) : walkCost w ≤ m := by
  obtain ⟨p, hp, rfl⟩ := List.mem_map.mp (List.min?_mem hm)
  exact hybrid_le_each_input ops w hw p hp

end Order

/-! ### a checkable certificate for `IsShortest` (feasible potential) -/

/-- `π` never drops or rises by more than the edge cost along an edge -/
def Feasible [Add κ] [LE κ] (es : List (Nat × Nat × κ)) (π : Nat → κ) : Prop :=
  ∀ e ∈ es, π e.2.1 ≤ π e.1 + e.2.2 ∧ π e.1 ≤ π e.2.1 + e.2.2

instance [Add κ] [LE κ] [DecidableLE κ] (es : List (Nat × Nat × κ)) (π : Nat → κ) :
    Decidable (Feasible es π) :=
  inferInstanceAs (Decidable (∀ e ∈ es, π e.2.1 ≤ π e.1 + e.2.2 ∧ π e.1 ≤ π e.2.1 + e.2.2))

section Potential
variable [AddCommMonoid κ] [LinearOrder κ] [IsOrderedAddMonoid κ]

theorem potential_le_walk {es : List (Nat × Nat × κ)} {π : Nat → κ} (hπ : Feasible es π) :
    ∀ (w : List (Nat × κ)) (a b : Nat), IsWalk es a w b → π b ≤ π a + walkCost w := by
  intro w
  induction w with
  | nil => intro a b h; cases h; simp [walkCost]
  | cons s r ih =>
    intro a b h
    obtain ⟨v, c⟩ := s
    have hv : π v ≤ π a + c := by
      rcases h.1 with m | m
      · exact (hπ _ m).1
      · exact (hπ _ m).2
    calc π b ≤ π v + walkCost r := ih v b h.2
      _ ≤ (π a + c) + walkCost r := add_le_add hv (le_refl _)
      _ = π a + walkCost ((v, c) :: r) := by simp [walkCost, add_assoc]

/-- a root→goal walk whose cost is at most the value at goal of a feasible potential that is `0` at
root meets the specification -/
theorem isShortest_of_potential {es : List (Nat × Nat × κ)} (π : Nat → κ) {w : List (Nat × κ)}
    (hπ : Feasible es π) (h0 : π root = 0) (hw : IsWalk es root w goal) (hc : walkCost w ≤ π goal) :
    IsShortest es w := by
  refine ⟨hw, fun w' hw' => not_lt.mpr ?_⟩
  have := potential_le_walk hπ w' root goal hw'
  rw [h0, zero_add] at this
  exact le_trans hc this

end Potential

/-! ### non-vacuity: two 3-state paths and one cross edge, the hybrid beats both

path A: vertices 2,3,4 with motion costs 1, 10; path B: vertices 5,6,7 with motion costs 10, 1; the
cross edge joins B's middle state (6) to A's middle state (3) at cost 1 (`attemptNewEdge` passes the
NEW path's vertex first).  The hybrid `root,2,3,6,7,goal` costs 3, each input 11. -/

def exOps : List (Op Nat) := [.record [1, 10], .record [10, 1], .edge 6 3 1]
def exHybrid : List (Nat × Nat) := [(2, 0), (3, 1), (6, 1), (7, 1), (goal, 0)]
/-- distances from root in the example graph (index = vertex) -/
def exPot (v : Nat) : Nat := [0, 3, 0, 1, 3, 0, 2, 3].getD v 0

-- the graph and `paths_` of the instance
example : (run exOps).g.edges =
      [(0, 2, 0), (2, 3, 1), (3, 4, 10), (4, 1, 0), (0, 5, 0), (5, 6, 10), (6, 7, 1), (7, 1, 0), (6, 3, 1)] ∧
    (run exOps).g.nverts = 8 ∧
    (run exOps).paths.map (·.verts) = [[2, 3, 4], [5, 6, 7]] := by decide

-- `recorded_path_is_walk` on the instance, evaluated
example : ∀ p ∈ (run exOps).paths, IsWalk (run exOps).g.edges root (recWalk p) goal ∧
    walkVerts root (recWalk p) = root :: p.verts ++ [goal] ∧ walkCost (recWalk p) = 11 ∧
    pathCost p.costs = 11 := by decide

-- the hypothesis of `hybrid_le_each_input` is satisfiable, and the inequality can be strict:
-- the hybrid walk meets `IsShortest` and is strictly better than BOTH inputs
example : IsShortest (run exOps).g.edges exHybrid ∧
    walkVerts root exHybrid = [0, 2, 3, 6, 7, 1] ∧ walkCost exHybrid = 3 ∧
    (∀ p ∈ (run exOps).paths, walkCost exHybrid < pathCost p.costs) ∧
    ((run exOps).paths.map fun p => pathCost p.costs).min? = some 11 :=
  ⟨isShortest_of_potential exPot (by decide) (by decide) (by decide) (by decide),
    by decide, by decide, by decide, by decide⟩

-- without the cross edge the best walk costs what the inputs cost (the bound is attained)
example : IsShortest (run (exOps.take 2)).g.edges (recWalk ⟨[2, 3, 4], [1, 10]⟩) ∧
    walkCost (recWalk (⟨[2, 3, 4], [1, 10]⟩ : Rec Nat)) = 11 :=
  ⟨isShortest_of_potential (fun v => [0, 11, 0, 1, 11, 0, 10, 11].getD v 0)
      (by decide) (by decide) (by decide) (by decide), by decide⟩

-- the executable Bellman–Ford reference `shortestCost` agrees on both instances (a TEST of the
-- reference value, not a theorem about it; evaluation by `decide` needs a deeper recursion limit)
set_option maxRecDepth 4000 in
example : shortestCost (run exOps).g = some 3 ∧ shortestCost (run (exOps.take 2)).g = some 11 ∧
    shortestCost (HGraph.init : HGraph Nat) = none := by decide

end OmplModel.PathHybrid
