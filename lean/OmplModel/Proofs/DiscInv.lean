import OmplModel.Model.Discretization
import OmplModel.Proofs.GridCoords
/-!
The `Discretization` model refines the abstract list of (motion, coordinate) pairs "added and not removed", and keeps
the C13 grid invariant, for every history of its operations.  Core Lean only; arithmetic-free (any `Num α`).
-/
namespace OmplModel.Disc
open OmplModel OmplModel.Grid

variable {α : Type} [Num α] [HasLog α]

/-- the motions added and not removed, with the coordinate they were added under, in order of addition -/
abbrev Live := List (Nat × Coord)

def keys (tbl : List (Coord × CellData α)) : List Coord := tbl.map (·.1)

/-- the motions a cell at `x` must hold, in order -/
def motionsAt (live : Live) (x : Coord) : List Nat := (live.filter (fun p => p.2 == x)).map (·.1)

/-! ### the table -/

theorem keys_setData (tbl : List (Coord × CellData α)) (x : Coord) (cd : CellData α) :
    keys (setData tbl x cd) = keys tbl := by
  unfold keys setData
  rw [List.map_map]
  apply List.map_congr_left
  intro e _
  simp only [Function.comp]
  split
  · rename_i h; exact (by simpa using h : e.1 = x).symm
  · rfl

theorem mem_setData {tbl : List (Coord × CellData α)} {x : Coord} {cd : CellData α} {e : Coord × CellData α}
    (h : e ∈ setData tbl x cd) : e = (x, cd) ∨ (e ∈ tbl ∧ e.1 ≠ x) := by
  unfold setData at h
  obtain ⟨e0, he0, rfl⟩ := List.mem_map.1 h
  by_cases hx : e0.1 = x
  · left; simp [hx]
  · right
    have : (e0.1 == x) = false := by simpa using hx
    simp only [this]
    exact ⟨he0, hx⟩

theorem keys_eraseData (tbl : List (Coord × CellData α)) (x : Coord) :
    keys (eraseData tbl x) = (keys tbl).filter (fun y => !(y == x)) := by
  unfold keys eraseData
  rw [List.filter_map]; rfl

theorem lookup_some_mem {tbl : List (Coord × CellData α)} {x : Coord} {cd : CellData α}
    (h : lookup tbl x = some cd) : (x, cd) ∈ tbl := by
  unfold lookup at h
  cases hf : tbl.find? (fun e => e.1 == x) with
  | none => rw [hf] at h; cases h
  | some e =>
    rw [hf] at h
    have hm := List.mem_of_find?_eq_some hf
    have hp := List.find?_some hf
    have h1 : e.1 = x := by simpa using hp
    have h2 : e.2 = cd := by simpa using h
    rw [← h1, ← h2]; exact hm

theorem lookup_none_iff {tbl : List (Coord × CellData α)} {x : Coord} : lookup tbl x = none ↔ x ∉ keys tbl := by
  unfold lookup keys
  rw [Option.map_eq_none_iff, List.find?_eq_none]
  constructor
  · intro h hm
    obtain ⟨e, he, rfl⟩ := List.mem_map.1 hm
    exact h e he (by simp)
  · intro h e he hx
    exact h (List.mem_map.2 ⟨e, he, by simpa using hx⟩)

theorem shape (P : Params α) (tbl tbl' : List (Coord × CellData α)) : SameShape (gcfg P tbl) (gcfg P tbl') :=
  ⟨rfl, rfl, rfl⟩

/-! ### list facts about `motionsAt` -/

theorem motionsAt_append (live : Live) (m : Nat) (x y : Coord) :
    motionsAt (live ++ [(m, x)]) y = motionsAt live y ++ (if x == y then [m] else []) := by
  unfold motionsAt
  rw [List.filter_append, List.map_append]
  by_cases h : (x == y) = true <;> simp [h]

theorem filter_ne_self_of_notin (live : Live) (m : Nat) (x : Coord) (h : m ∉ live.map (·.1)) :
    live.filter (fun p => !(p == (m, x))) = live := by
  apply List.filter_eq_self.2
  intro p hp
  have : p ≠ (m, x) := by
    rintro rfl
    exact h (List.mem_map.2 ⟨_, hp, rfl⟩)
  simpa using this

theorem motionsAt_erase (live : Live) (m : Nat) (x : Coord) (nd : (live.map (·.1)).Nodup) :
    (motionsAt live x).erase m = motionsAt (live.filter (fun p => !(p == (m, x)))) x := by
  induction live with
  | nil => rfl
  | cons p ps ih =>
    have nd' : p.1 ∉ ps.map (·.1) ∧ (ps.map (·.1)).Nodup := List.nodup_cons.1 nd
    have ih' := ih nd'.2
    by_cases hpx : p.2 = x
    · have hb : (p.2 == x) = true := by simpa using hpx
      by_cases hpm : p.1 = m
      · have hp : p = (m, x) := by rw [← hpm, ← hpx]
        have h1 : motionsAt (p :: ps) x = m :: motionsAt ps x := by
          unfold motionsAt; rw [List.filter_cons]; simp [hb, hpm]
        have h2 : (p :: ps).filter (fun q => !(q == (m, x))) = ps := by
          rw [List.filter_cons]
          have : (p == (m, x)) = true := by simpa using hp
          simp only [this, Bool.not_true, Bool.false_eq_true, if_false]
          exact filter_ne_self_of_notin ps m x (hpm ▸ nd'.1)
        rw [h1, h2, List.erase_cons_head]
      · have hne : p ≠ (m, x) := fun h => hpm (by rw [h])
        have h1 : motionsAt (p :: ps) x = p.1 :: motionsAt ps x := by
          unfold motionsAt; rw [List.filter_cons]; simp [hb]
        have h2 : (p :: ps).filter (fun q => !(q == (m, x))) = p :: ps.filter (fun q => !(q == (m, x))) := by
          rw [List.filter_cons]
          have : (p == (m, x)) = false := by simpa using hne
          simp [this]
        have h3 : motionsAt (p :: ps.filter (fun q => !(q == (m, x)))) x
            = p.1 :: motionsAt (ps.filter (fun q => !(q == (m, x)))) x := by
          unfold motionsAt; rw [List.filter_cons]; simp [hb]
        rw [h1, h2, h3, List.erase_cons_tail (by simpa using hpm), ih']
    · have hb : (p.2 == x) = false := by simpa using hpx
      have hne : p ≠ (m, x) := fun h => hpx (by rw [h])
      have h1 : motionsAt (p :: ps) x = motionsAt ps x := by
        unfold motionsAt; rw [List.filter_cons]; simp [hb]
      have h2 : (p :: ps).filter (fun q => !(q == (m, x))) = p :: ps.filter (fun q => !(q == (m, x))) := by
        rw [List.filter_cons]
        have : (p == (m, x)) = false := by simpa using hne
        simp [this]
      have h3 : motionsAt (p :: ps.filter (fun q => !(q == (m, x)))) x
          = motionsAt (ps.filter (fun q => !(q == (m, x)))) x := by
        unfold motionsAt; rw [List.filter_cons]; simp [hb]
      rw [h1, h2, h3, ih']

theorem motionsAt_filter_ne (live : Live) (m : Nat) (x y : Coord) (hxy : y ≠ x) :
    motionsAt (live.filter (fun p => !(p == (m, x)))) y = motionsAt live y := by
  unfold motionsAt
  rw [List.filter_filter]
  congr 1
  apply List.filter_congr
  intro p _
  by_cases hp : p.2 = y
  · have : p ≠ (m, x) := by rintro rfl; exact hxy hp.symm
    have h1 : (p == (m, x)) = false := by simpa using this
    simp [hp, h1]
  · have : (p.2 == y) = false := by simpa using hp
    simp [this]

theorem length_filter_ne (live : Live) (a : Nat × Coord) (nd : (live.map (·.1)).Nodup) :
    (live.filter (fun p => !(p == a))).length + (if a ∈ live then 1 else 0) = live.length := by
  induction live with
  | nil => simp
  | cons p ps ih =>
    have nd' : p.1 ∉ ps.map (·.1) ∧ (ps.map (·.1)).Nodup := List.nodup_cons.1 nd
    have ih' := ih nd'.2
    rw [List.filter_cons]
    by_cases hpa : p = a
    · subst hpa
      have hn : p ∉ ps := fun h => nd'.1 (List.mem_map.2 ⟨p, h, rfl⟩)
      simp only [beq_self_eq_true, Bool.not_true, Bool.false_eq_true, if_false, List.mem_cons, true_or, if_true,
        List.length_cons]
      rw [if_neg hn] at ih'
      omega
    · have h1 : (p == a) = false := by simpa using hpa
      have h2 : (a ∈ p :: ps) ↔ a ∈ ps := by simp [List.mem_cons, Ne.symm hpa]
      simp only [h1, Bool.not_false, if_true, List.length_cons, h2]
      omega

/-! ### the invariant -/

structure DInv (P : Params α) (d : Disc α) (live : Live) : Prop where
  /-- the C13 grid invariant (`GridNInv` ∧ `GridBInv`) -/
  ginv : Inv (gcfg P d.cdata) d.grid
  /-- every grid cell has its `CellData` and conversely, in the same order -/
  sync : d.grid.cells.map (·.coord) = keys d.cdata
  /-- each cell holds exactly the live motions of its coordinate, in order of addition, and is not empty -/
  mot : ∀ e ∈ d.cdata, e.2.motions = motionsAt live e.1 ∧ e.2.motions ≠ []
  /-- every live motion's coordinate has a cell -/
  cov : ∀ p ∈ live, p.2 ∈ keys d.cdata
  size : d.size = live.length
  lnd : (live.map (·.1)).Nodup

theorem DInv.keys_nodup {P : Params α} {d : Disc α} {live : Live} (h : DInv P d live) : (keys d.cdata).Nodup := by
  rw [← h.sync]; exact h.ginv.nodup

theorem DInv.has_iff {P : Params α} {d : Disc α} {live : Live} (h : DInv P d live) (x : Coord) :
    has d.grid.cells x = true ↔ x ∈ keys d.cdata := by
  rw [has_eq_decide_mem, h.sync]; simp

theorem DInv.lookup_mot {P : Params α} {d : Disc α} {live : Live} (h : DInv P d live) {x : Coord} {cd : CellData α}
    (hl : lookup d.cdata x = some cd) : cd.motions = motionsAt live x ∧ cd.motions ≠ [] :=
  h.mot _ (lookup_some_mem hl)

/-- a table change that keeps keys and motions, with no grid access or a `update` / `updateAll` -/
theorem DInv.keep {P : Params α} {d : Disc α} {live : Live} (h : DInv P d live)
    (tbl' : List (Coord × CellData α)) (hk : keys tbl' = keys d.cdata)
    (hm : ∀ e' ∈ tbl', ∃ e ∈ d.cdata, e'.1 = e.1 ∧ e'.2.motions = e.2.motions)
    (g' : GridB) (hg : g' = d.grid ∨ (∃ x, g' = Grid.step (gcfg P tbl') d.grid (.upd x 0)) ∨
      g' = Grid.step (gcfg P tbl') d.grid (.updAll [])) :
    DInv P { d with cdata := tbl', grid := g' } live := by
  have hi' : Inv (gcfg P tbl') d.grid := h.ginv.shape (shape P _ _)
  refine ⟨?_, ?_, ?_, ?_, h.size, h.lnd⟩
  · rcases hg with rfl | ⟨x, rfl⟩ | rfl
    · exact hi'
    · exact step_inv (op := .upd x 0) trivial hi'
    · exact step_inv (op := .updAll []) trivial hi'
  · show g'.cells.map (·.coord) = keys tbl'
    rw [hk, ← h.sync]
    rcases hg with rfl | ⟨x, rfl⟩ | rfl
    · rfl
    · exact coords_update _ _ _ _
    · exact coords_updateAll_nil _ _
  · intro e' he'
    obtain ⟨e, he, h1, h2⟩ := hm e' he'
    rw [h1, h2]; exact h.mot e he
  · intro p hp; show p.2 ∈ keys tbl'; rw [hk]; exact h.cov p hp

/-- `setData` of the looked-up entry with the same motions -/
theorem DInv.keep_setData {P : Params α} {d : Disc α} {live : Live} (h : DInv P d live) {x : Coord}
    {cd cd' : CellData α} (hl : lookup d.cdata x = some cd) (hmo : cd'.motions = cd.motions)
    (g' : GridB) (hg : g' = d.grid ∨ (∃ y, g' = Grid.step (gcfg P (setData d.cdata x cd')) d.grid (.upd y 0)) ∨
      g' = Grid.step (gcfg P (setData d.cdata x cd')) d.grid (.updAll [])) :
    DInv P { d with cdata := setData d.cdata x cd', grid := g' } live := by
  refine h.keep _ (keys_setData _ _ _) ?_ g' hg
  intro e' he'
  rcases mem_setData he' with rfl | ⟨hm, _⟩
  · exact ⟨(x, cd), lookup_some_mem hl, rfl, hmo⟩
  · exact ⟨e', hm, rfl, rfl⟩

/-! ### each operation -/

theorem add_inv_gen {P : Params α} {d : Disc α} {live : Live} (h : DInv P d live) {m : Nat} {x : Coord} {dist : α}
    (hx : x.length = P.dim) (hm : m ∉ live.map (·.1)) {w off : α} :
    DInv P (add P d m x dist w off).1 (live ++ [(m, x)]) := by
  have hlnd : ((live ++ [(m, x)]).map (·.1)).Nodup := by
    rw [List.map_append, List.nodup_append]
    refine ⟨h.lnd, by simp, ?_⟩
    intro a ha b hb hab
    simp at hb; subst hb; subst hab; exact hm ha
  unfold add
  cases hl : lookup d.cdata x with
  | some cd =>
    have hxk : x ∈ keys d.cdata :=
      Classical.byContradiction (fun hn => by rw [lookup_none_iff.2 hn] at hl; cases hl)
    have hhas : has d.grid.cells x = true := (h.has_iff x).2 hxk
    simp only [hhas, if_true]
    have hi' : Inv (gcfg P (setData d.cdata x { cd with motions := cd.motions ++ [m], coverage := cd.coverage + w }))
        d.grid := h.ginv.shape (shape P _ _)
    refine ⟨step_inv (op := .upd x 0) trivial hi', ?_, ?_, ?_, ?_, hlnd⟩
    · show (Grid.step _ d.grid (.upd x 0)).cells.map (·.coord) = keys (setData _ _ _)
      rw [keys_setData, ← h.sync]; exact coords_update _ _ _ _
    · intro e he
      rcases mem_setData he with rfl | ⟨hme, hne⟩
      · have := h.lookup_mot hl
        refine ⟨?_, by simp⟩
        show cd.motions ++ [m] = motionsAt (live ++ [(m, x)]) x
        rw [motionsAt_append, this.1]; simp
      · rw [motionsAt_append]
        have : (x == e.1) = false := by simpa using (Ne.symm hne)
        simp only [this, Bool.false_eq_true, if_false, List.append_nil]
        exact h.mot e hme
    · intro p hp
      show p.2 ∈ keys (setData _ _ _)
      rw [keys_setData]
      rcases List.mem_append.1 hp with hp | hp
      · exact h.cov p hp
      · simp at hp; subst hp; exact hxk
    · show d.size + 1 = (live ++ [(m, x)]).length
      rw [h.size]; simp
  | none =>
    have hxk : x ∉ keys d.cdata := lookup_none_iff.1 hl
    have hhas : has d.grid.cells x = false := by
      cases hh : has d.grid.cells x with
      | false => rfl
      | true => exact absurd ((h.has_iff x).1 hh) hxk
    simp only [hhas, Bool.false_eq_true, if_false]
    have hi'' : ∀ tbl', Inv (gcfg P tbl') d.grid := fun _ => h.ginv.shape (shape P _ _)
    have hat : motionsAt live x = [] := by
      unfold motionsAt
      have : live.filter (fun p => p.2 == x) = [] := by
        apply List.filter_eq_nil_iff.2
        intro p hp hpx
        exact hxk ((by simpa using hpx : p.2 = x) ▸ h.cov p hp)
      rw [this]; rfl
    refine ⟨step_inv (op := .new x 0) hx (hi'' _), ?_, ?_, ?_, ?_, hlnd⟩
    · show (Grid.step _ d.grid (.new x 0)).cells.map (·.coord) = keys (d.cdata ++ [_])
      rw [coords_step (hi'' _) (.new x 0) hx]
      simp only [hhas, Bool.false_eq_true, if_false]
      rw [h.sync]; unfold keys; rw [List.map_append]; rfl
    · intro e he
      rcases List.mem_append.1 he with hme | hme
      · have hne : e.1 ≠ x := fun hex => hxk (hex ▸ List.mem_map.2 ⟨e, hme, rfl⟩)
        rw [motionsAt_append]
        have : (x == e.1) = false := by simpa using (Ne.symm hne)
        simp only [this, Bool.false_eq_true, if_false, List.append_nil]
        exact h.mot e hme
      · simp at hme; subst hme
        refine ⟨?_, by simp⟩
        show [m] = motionsAt (live ++ [(m, x)]) x
        rw [motionsAt_append, hat]; simp
    · intro p hp
      show p.2 ∈ keys (d.cdata ++ [_])
      unfold keys; rw [List.map_append]
      rcases List.mem_append.1 hp with hp | hp
      · exact List.mem_append_left _ (h.cov p hp)
      · simp at hp; subst hp; simp
    · show d.size + 1 = (live ++ [(m, x)]).length
      rw [h.size]; simp

theorem add_inv {P : Params α} {d : Disc α} {live : Live} (h : DInv P d live) {m : Nat} {x : Coord} {dist : α}
    (hx : x.length = P.dim) (hm : m ∉ live.map (·.1)) : DInv P (add P d m x dist).1 (live ++ [(m, x)]) :=
  add_inv_gen h hx hm

theorem remove_inv {P : Params α} {d : Disc α} {live : Live} (h : DInv P d live) (m : Nat) (x : Coord) :
    DInv P (remove P d m x).1 (live.filter (fun p => !(p == (m, x)))) ∧
      ((remove P d m x).2 = true ↔ (m, x) ∈ live) := by
  have hsub : (live.filter (fun p => !(p == (m, x)))).Sublist live := List.filter_sublist
  have hlnd : ((live.filter (fun p => !(p == (m, x)))).map (·.1)).Nodup := (hsub.map _).nodup h.lnd
  unfold remove
  cases hl : lookup d.cdata x with
  | none =>
    have hxk : x ∉ keys d.cdata := lookup_none_iff.1 hl
    have hnot : (m, x) ∉ live := fun hm => hxk (h.cov _ hm)
    have : live.filter (fun p => !(p == (m, x))) = live := by
      apply List.filter_eq_self.2
      intro p hp
      have : p ≠ (m, x) := by rintro rfl; exact hnot hp
      simpa using this
    simp only []
    rw [this]
    exact ⟨h, by simp [hnot]⟩
  | some cd =>
    obtain ⟨hmo, _⟩ := h.lookup_mot hl
    have hxk : x ∈ keys d.cdata :=
      Classical.byContradiction (fun hn => by rw [lookup_none_iff.2 hn] at hl; cases hl)
    have hfound : cd.motions.contains m = true ↔ (m, x) ∈ live := by
      rw [hmo]; unfold motionsAt
      simp only [List.contains_eq_mem, List.mem_map, List.mem_filter, beq_iff_eq, decide_eq_true_eq]
      constructor
      · rintro ⟨p, ⟨hp, hpx⟩, hpm⟩
        have : p = (m, x) := by rw [← hpm, ← hpx]
        exact this ▸ hp
      · intro hp; exact ⟨(m, x), ⟨hp, rfl⟩, rfl⟩
    have hms : cd.motions.erase m = motionsAt (live.filter (fun p => !(p == (m, x)))) x := by
      rw [hmo]; exact motionsAt_erase live m x h.lnd
    have hsize : (if cd.motions.contains m = true then d.size - 1 else d.size)
        = (live.filter (fun p => !(p == (m, x)))).length := by
      have := length_filter_ne live (m, x) h.lnd
      rw [h.size]
      by_cases hf : cd.motions.contains m = true
      · rw [if_pos hf]; rw [if_pos (hfound.1 hf)] at this; omega
      · rw [if_neg hf]; rw [if_neg (fun hh => hf (hfound.2 hh))] at this; omega
    simp only []
    split
    · rename_i hemp
      have hnil : motionsAt (live.filter (fun p => !(p == (m, x)))) x = [] := by
        rw [← hms]; simpa using hemp
      have hhas : has d.grid.cells x = true := (h.has_iff x).2 hxk
      refine ⟨⟨?_, ?_, ?_, ?_, hsize, hlnd⟩, hfound⟩
      · exact (step_inv (op := .rm x) trivial h.ginv).shape (shape P _ _)
      · show (Grid.step _ d.grid (.rm x)).cells.map (·.coord) = keys (eraseData d.cdata x)
        rw [coords_step h.ginv (.rm x) trivial, keys_eraseData, h.sync]
      · intro e he
        have hme : e ∈ d.cdata := (List.mem_filter.1 he).1
        have hne : e.1 ≠ x := by simpa using (List.mem_filter.1 he).2
        rw [motionsAt_filter_ne live m x e.1 hne]
        exact h.mot e hme
      · intro p hp
        show p.2 ∈ keys (eraseData d.cdata x)
        rw [keys_eraseData, List.mem_filter]
        have hp0 : p ∈ live := hsub.subset hp
        refine ⟨h.cov p hp0, ?_⟩
        have hne : p.2 ≠ x := by
          intro hpx
          have : p.1 ∈ motionsAt (live.filter (fun p => !(p == (m, x)))) x := by
            unfold motionsAt
            exact List.mem_map.2 ⟨p, List.mem_filter.2 ⟨hp, by simpa using hpx⟩, rfl⟩
          rw [hnil] at this; cases this
        simpa using hne
    · rename_i hemp
      refine ⟨⟨?_, ?_, ?_, ?_, hsize, hlnd⟩, hfound⟩
      · exact h.ginv.shape (shape P _ _)
      · show d.grid.cells.map (·.coord) = keys (setData _ _ _)
        rw [keys_setData]; exact h.sync
      · intro e he
        rcases mem_setData he with rfl | ⟨hme, hne⟩
        · refine ⟨hms, ?_⟩
          show cd.motions.erase m ≠ []
          intro h0; exact hemp (by simp [h0])
        · rw [motionsAt_filter_ne live m x e.1 hne]
          exact h.mot e hme
      · intro p hp
        show p.2 ∈ keys (setData _ _ _)
        rw [keys_setData]; exact h.cov p (hsub.subset hp)

theorem updScore_inv {P : Params α} {d : Disc α} {live : Live} (h : DInv P d live) (x : Coord) (s : α) :
    DInv P (updScore P d x s) live := by
  unfold updScore
  cases hl : lookup d.cdata x with
  | none => exact h
  | some cd =>
    simp only []
    exact h.keep_setData (cd' := { cd with score := s }) hl rfl _ (Or.inr (Or.inl ⟨x, rfl⟩))

theorem bump_inv {P : Params α} {d : Disc α} {live : Live} (h : DInv P d live) :
    DInv P { d with cdata := bumpScores d.cdata,
                    grid := Grid.step (gcfg P (bumpScores d.cdata)) d.grid (.updAll []) } live := by
  refine h.keep _ ?_ ?_ _ (Or.inr (Or.inr rfl))
  · unfold keys bumpScores; rw [List.map_map]; rfl
  · intro e' he'
    unfold bumpScores at he'
    obtain ⟨e, he, rfl⟩ := List.mem_map.1 he'
    exact ⟨e, he, rfl, rfl⟩

theorem select_inv {P : Params α} {d : Disc α} {live : Live} (h : DInv P d live) (u : α) (pick : Nat → Nat) :
    DInv P (select P d u pick).1 live ∧ ∀ m x, (select P d u pick).2 = some (m, x) → (m, x) ∈ live := by
  unfold select
  simp only []
  split
  · exact ⟨h, by intro m x hh; cases hh⟩
  · split
    · exact ⟨h, by intro m x hh; cases hh⟩
    · rename_i c _
      split
      · exact ⟨h, by intro m x hh; cases hh⟩
      · rename_i cd0 _
        have h1 : DInv P (if cd0.score < P.eps then
            { d with cdata := bumpScores d.cdata,
                     grid := Grid.step (gcfg P (bumpScores d.cdata)) d.grid (.updAll []) } else d) live := by
          split
          · exact bump_inv h
          · exact h
        split
        · exact ⟨h1, by intro m x hh; cases hh⟩
        · rename_i cd hl
          have h2 := h1.keep_setData (cd' := { cd with selections := cd.selections + 1 }) hl rfl _ (Or.inl rfl)
          have hmo := (h1.lookup_mot hl).1
          split
          · rename_i m hm
            refine ⟨h2, ?_⟩
            intro m' x' hh
            simp only [Option.some.injEq, Prod.mk.injEq] at hh
            rw [← hh.1, ← hh.2]
            have hmem : m ∈ cd.motions := List.mem_of_getElem? hm
            rw [hmo] at hmem
            unfold motionsAt at hmem
            obtain ⟨p, hp, hpm⟩ := List.mem_map.1 hmem
            obtain ⟨hpl, hpx⟩ := List.mem_filter.1 hp
            have : p = (m, c.coord) := by rw [← hpm, ← (by simpa using hpx : p.2 = c.coord)]
            exact this ▸ hpl
          · exact ⟨h2, by intro m x hh; cases hh⟩

theorem clear_inv {P : Params α} {d : Disc α} {live : Live} (h : DInv P d live) : DInv P (clear P d) [] := by
  refine ⟨?_, rfl, (by intro e he; cases he), (by intro p hp; cases hp), rfl, List.nodup_nil⟩
  exact (step_inv (op := .clear) trivial h.ginv).shape (shape P _ _)

theorem empty_inv (P : Params α) (bf : α) : DInv P ({ bf := bf } : Disc α) [] :=
  ⟨Grid.empty_inv _, rfl, (by intro e he; cases he), (by intro p hp; cases hp), rfl, List.nodup_nil⟩

/-! ### histories -/

/-- the abstract effect of an operation on the list of stored motions -/
def specStep (live : Live) : DOp α → Live
  | .add m x _ => live ++ [(m, x)]
  | .addW m x _ _ _ => live ++ [(m, x)]
  | .remove m x => live.filter (fun p => !(p == (m, x)))
  | .clear => []
  | _ => live

/-- what the caller must respect: a motion is added once (fresh `Motion*`), under a coordinate of `dim` entries -/
def opValid (P : Params α) (live : Live) : DOp α → Prop
  | .add m x _ => x.length = P.dim ∧ m ∉ live.map (·.1)
  | .addW m x _ _ _ => x.length = P.dim ∧ m ∉ live.map (·.1)
  | _ => True

theorem dstep_inv {P : Params α} {d : Disc α} {live : Live} (h : DInv P d live) (op : DOp α)
    (hv : opValid P live op) : DInv P (dstep P d op) (specStep live op) := by
  cases op with
  | add m x dist => exact add_inv h hv.1 hv.2
  | addW m x dist w off => exact add_inv_gen h hv.1 hv.2
  | select u pick => exact (select_inv h u pick).1
  | updScore x s => exact updScore_inv h x s
  | remove m x => exact (remove_inv h m x).1
  | countIteration => exact ⟨h.ginv, h.sync, h.mot, h.cov, h.size, h.lnd⟩
  | setBorderFraction bp =>
    show DInv P (setBorderFraction P d bp).1 live
    unfold setBorderFraction
    split
    · exact h
    · exact ⟨h.ginv, h.sync, h.mot, h.cov, h.size, h.lnd⟩
  | clear => exact clear_inv h

def specRun : Live → List (DOp α) → Live
  | live, [] => live
  | live, op :: ops => specRun (specStep live op) ops

def validFrom (P : Params α) : Live → List (DOp α) → Prop
  | _, [] => True
  | live, op :: ops => opValid P live op ∧ validFrom P (specStep live op) ops

theorem foldl_inv {P : Params α} : ∀ (ops : List (DOp α)) (d : Disc α) (live : Live), DInv P d live →
    validFrom P live ops → DInv P (ops.foldl (dstep P) d) (specRun live ops)
  | [], _, _, h, _ => h
  | op :: ops, d, live, h, hv => foldl_inv ops _ _ (dstep_inv h op hv.1) hv.2

theorem drun_inv (P : Params α) (bf : α) (ops : List (DOp α)) (hv : validFrom P [] ops) :
    DInv P (drun P bf ops) (specRun [] ops) :=
  foldl_inv ops _ _ (empty_inv P bf) hv

end OmplModel.Disc
