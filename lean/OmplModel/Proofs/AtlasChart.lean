import OmplModel.Model.AtlasChart
import OmplModel.Proofs.ConstrainedField
import Mathlib.Algebra.BigOperators.Ring.Finset
import Mathlib.Algebra.Order.BigOperators.Ring.Finset
import Mathlib.Tactic.Ring
import Mathlib.Tactic.FieldSimp
/-!
Lemmas for the `AtlasChart` polytope bookkeeping (C16, round 4).  The arithmetic-free ones hold for
every `ChartArith` / `VecOps` (so also for the `Float` run); the exact ones are proved for every
linearly ordered field `K`, chart coordinates `Fin k → K`, `dot v u = ∑ i, v i * u i`, and an
arbitrary function standing for `sqrt` (no property of it is needed).
-/
namespace OmplModel.Constrained
set_option linter.unusedSectionVars false

variable {α V : Type}

/-! ### arithmetic-free -/

theorem allContain_iff (A : ChartArith α) (Vo : VecOps α V) (hs : List (Halfspace α V)) (u : V) :
    allContain A Vo hs u = true ↔ ∀ h ∈ hs, h.contains A Vo u = true := by
  induction hs with
  | nil => simp [allContain]
  | cons h hs ih =>
    simp only [allContain, List.mem_cons, forall_eq_or_imp]
    by_cases hc : h.contains A Vo u = false
    · simp [hc]
    · have : h.contains A Vo u = true := by simpa using hc
      simp [this, ih]

theorem inPolytopeL_iff (A : ChartArith α) (Vo : VecOps α V) (r : α) (hs : List (Halfspace α V)) (u : V) :
    inPolytopeL A Vo r hs u = true ↔
      A.lt r (A.sqrt (Vo.dot u u)) = false ∧ ∀ h ∈ hs, h.contains A Vo u = true := by
  unfold inPolytopeL
  by_cases hr : A.lt r (A.sqrt (Vo.dot u u)) = true
  · simp [hr]
  · have : A.lt r (A.sqrt (Vo.dot u u)) = false := by simpa using hr
    simp [this, allContain_iff]

theorem inPolytopeL_append (A : ChartArith α) (Vo : VecOps α V) (r : α) (hs extra : List (Halfspace α V)) (u : V)
    (h : inPolytopeL A Vo r (hs ++ extra) u = true) : inPolytopeL A Vo r hs u = true := by
  rw [inPolytopeL_iff] at h ⊢
  exact ⟨h.1, fun x hx => h.2 x (List.mem_append_left _ hx)⟩

theorem borderLoop_size (A : ChartArith α) (Vo : VecOps α V) (v : V) :
    ∀ (is : List Nat) (vs : List V) (hs : Array (Halfspace α V)), (borderLoop A Vo v hs is vs).size = hs.size
  | [], _, hs => by simp [borderLoop]
  | _ :: _, [], hs => by simp [borderLoop]
  | i :: is, v' :: vs, hs => by
    simp only [borderLoop]
    split
    · exact borderLoop_size A Vo v is vs hs
    · split
      · split
        · rw [borderLoop_size A Vo v is vs]; simp
        · exact borderLoop_size A Vo v is vs hs
      · exact borderLoop_size A Vo v is vs hs

theorem owningLoop_sound (A : Arith α) (eps : α) :
    ∀ (cands : List (Nat × Bool × α)) (best : α) (c : Option Nat) (id : Nat),
      owningLoop A eps cands best c = some id →
      c = some id ∨ ∃ far, (id, true, far) ∈ cands ∧ A.lt far eps = true
  | [], best, c, id, h => by simp only [owningLoop] at h; exact Or.inl h
  | (i, inP, far) :: rest, best, c, id, h => by
    simp only [owningLoop] at h
    split at h
    · rename_i hc
      simp only [Bool.and_eq_true] at hc
      rcases owningLoop_sound A eps rest far (some i) id h with h' | ⟨f, hf, hlt⟩
      · simp only [Option.some.injEq] at h'
        subst h'
        exact Or.inr ⟨far, by simp [hc.1.1], hc.1.2⟩
      · exact Or.inr ⟨f, List.mem_cons_of_mem _ hf, hlt⟩
    · rcases owningLoop_sound A eps rest best c id h with h' | ⟨f, hf, hlt⟩
      · exact Or.inl h'
      · exact Or.inr ⟨f, List.mem_cons_of_mem _ hf, hlt⟩

/-! ### `psi` and the tolerance in force at the call -/

theorem psiLoop_true {σ S U B D : Type} (A : Arith D) (nsq : B → D) (O : PsiOracle σ S U B) (tolSq : D) :
    ∀ (k : Nat) (s : σ) (x : S) (b : B) (x' : S) (s' : σ), (∃ s₀, (O.resid s₀ x).1 = b) →
      psiLoop A nsq O tolSq k s x b = (true, x', s') →
      ∃ b', (∃ s₀, (O.resid s₀ x').1 = b') ∧ A.lt (nsq b') tolSq = true
  | 0, s, x, b, x', s', hev, h => by
    simp only [psiLoop, Prod.mk.injEq] at h
    obtain ⟨h1, h2, _⟩ := h
    subst h2
    exact ⟨b, hev, h1⟩
  | k + 1, s, x, b, x', s', hev, h => by
    simp only [psiLoop] at h
    split at h
    · exact psiLoop_true A nsq O tolSq k _ _ _ x' s' ⟨_, rfl⟩ h
    · simp only [Prod.mk.injEq] at h
      obtain ⟨h1, h2, _⟩ := h
      subst h2
      exact ⟨b, hev, h1⟩

/-! ### the table: `generateHalfspace` only appends -/

theorem find?_map_id (f : ChartM α → ChartM α) (hid : ∀ ch, (f ch).id = ch.id) (d : Nat) :
    ∀ l : List (ChartM α), (l.map f).find? (·.id == d) = (l.find? (·.id == d)).map f
  | [] => rfl
  | ch :: rest => by
    simp only [List.map_cons, List.find?_cons, hid]
    cases h : (ch.id == d) with
    | true => simp
    | false => simpa using find?_map_id f hid d rest

theorem chart?_addBoundary (M : AtlasM α V) (c i : Nat) (d : Nat) :
    (M.addBoundary c i).chart? d =
      (M.chart? d).map (fun ch => if ch.id == c then { ch with polytope := ch.polytope ++ [i] } else ch) := by
  unfold AtlasM.chart? AtlasM.addBoundary
  exact find?_map_id _ (fun ch => by split <;> rfl) d M.charts

theorem mapM_getElem?_push (hs : Array (Halfspace α V)) (x : Halfspace α V) :
    ∀ (is : List Nat) (l : List (Halfspace α V)), is.mapM (fun i => hs[i]?) = some l →
      is.mapM (fun i => (hs.push x)[i]?) = some l
  | [], l, h => by simpa using h
  | i :: is, l, h => by
    simp only [List.mapM_cons, Option.bind_eq_bind, Option.pure_def] at h ⊢
    cases hi : hs[i]? with
    | none => simp [hi] at h
    | some y =>
      simp only [hi, Option.bind_some] at h
      cases hr : is.mapM (fun i => hs[i]?) with
      | none => simp [hr] at h
      | some r =>
        simp only [hr, Option.bind_some] at h
        have hlt : i < hs.size := by
          by_contra hge
          simp [Array.getElem?_eq_none (Nat.le_of_not_lt hge)] at hi
        have : (hs.push x)[i]? = some y := by
          rw [Array.getElem?_push_lt hlt]; rwa [Array.getElem?_eq_getElem hlt] at hi
        simp [this, mapM_getElem?_push hs x is r hr, h]

theorem mapM_getElem?_valid (hs : Array (Halfspace α V)) :
    ∀ (e : List Nat), (∀ i ∈ e, i < hs.size) → ∃ extra, e.mapM (fun i => hs[i]?) = some extra
  | [], _ => ⟨[], rfl⟩
  | i :: e, h => by
    obtain ⟨r, hr⟩ := mapM_getElem?_valid hs e (fun j hj => h j (List.mem_cons_of_mem _ hj))
    have hi : i < hs.size := h i (List.mem_cons_self ..)
    exact ⟨hs[i] :: r, by simp [List.mapM_cons, Array.getElem?_eq_getElem hi, hr]⟩

/-- `generateHalfspace` only appends: every chart keeps its radius and its polytope is the old one
followed by the new halfspace(s) it received. -/
theorem polytope?_generateHalfspace (A : ChartArith α) (Vo : VecOps α V) (M : AtlasM α V) (c1 c2 : Nat)
    (w12 w21 : V) (c : Nat) (ch : ChartM α) (hs : List (Halfspace α V))
    (hch : M.chart? c = some ch) (hp : M.polytope? c = some hs) :
    ∃ ch' extra, (M.generateHalfspace A Vo c1 c2 w12 w21).chart? c = some ch' ∧ ch'.radius = ch.radius ∧
      (M.generateHalfspace A Vo c1 c2 w12 w21).polytope? c = some (hs ++ extra) := by
  have hp' : ch.polytope.mapM (fun i => M.hs[i]?) = some hs := by
    simpa [AtlasM.polytope?, hch] using hp
  set x1 := Halfspace.create A Vo c1 w12 (M.hs.size + 1)
  set x2 := Halfspace.create A Vo c2 w21 M.hs.size
  set M1 : AtlasM α V := { M with hs := (M.hs.push x1).push x2 } with hM1
  have hgen : M.generateHalfspace A Vo c1 c2 w12 w21 = (M1.addBoundary c1 M.hs.size).addBoundary c2 (M.hs.size + 1) := rfl
  have hc1 : M1.chart? c = some ch := hch
  let e : List Nat := (if ch.id == c1 then [M.hs.size] else []) ++ (if ch.id == c2 then [M.hs.size + 1] else [])
  let ch' : ChartM α := { ch with polytope := ch.polytope ++ e }
  have hch' : (M.generateHalfspace A Vo c1 c2 w12 w21).chart? c = some ch' := by
    rw [hgen, chart?_addBoundary, chart?_addBoundary, hc1]
    simp only [Option.map_some, Option.some.injEq]
    by_cases h1 : ch.id == c1 <;> by_cases h2 : ch.id == c2 <;> simp [h1, h2, ch', e]
  have hhs : (M.generateHalfspace A Vo c1 c2 w12 w21).hs = (M.hs.push x1).push x2 := rfl
  have hold : ch.polytope.mapM (fun i => ((M.hs.push x1).push x2)[i]?) = some hs :=
    mapM_getElem?_push _ x2 _ _ (mapM_getElem?_push _ x1 _ _ hp')
  obtain ⟨extra, hextra⟩ := mapM_getElem?_valid ((M.hs.push x1).push x2) e (by
    intro i hi
    simp only [e, List.mem_append] at hi
    simp only [Array.size_push]
    rcases hi with hi | hi
    · split at hi <;> simp at hi; omega
    · split at hi <;> simp at hi; omega)
  refine ⟨ch', extra, hch', rfl, ?_⟩
  simp only [AtlasM.polytope?, hch', Option.bind_some, hhs, ch']
  rw [List.mapM_append, hold, hextra]
  rfl

/-! ### exact arithmetic: every linearly ordered field -/

section field
variable {K : Type} [Field K] [LinearOrder K] [IsStrictOrderedRing K] {k : Nat}

/-- the code's arithmetic in a field; `sq` stands for `sqrt` -/
def fieldChartArith (eps : K) (sq : K → K) : ChartArith K :=
  { fieldArith eps with sqrt := sq, neg := fun x => -x, c105 := 21 / 20, half := 1 / 2, twentieth := 1 / 20, two := 2 }

/-- chart coordinates as `Fin k → K` with the Euclidean inner product -/
def finVecOps (K : Type) [Field K] (k : Nat) : VecOps K (Fin k → K) :=
  ⟨fun v u => ∑ i, v i * u i, fun c u i => c * u i⟩

theorem dot_smul_right (c : K) (v u : Fin k → K) :
    (finVecOps K k).dot v ((finVecOps K k).smul c u) = c * (finVecOps K k).dot v u := by
  simp only [finVecOps, Finset.mul_sum]
  exact Finset.sum_congr rfl (fun i _ => by ring)

theorem dot_smul_smul (c : K) (u : Fin k → K) :
    (finVecOps K k).dot ((finVecOps K k).smul c u) ((finVecOps K k).smul c u) = c * c * (finVecOps K k).dot u u := by
  simp only [finVecOps, Finset.mul_sum]
  exact Finset.sum_congr rfl (fun i _ => by ring)

theorem dot_self_nonneg (u : Fin k → K) : 0 ≤ (finVecOps K k).dot u u := by
  simp only [finVecOps]
  exact Finset.sum_nonneg (fun i _ => mul_self_nonneg _)

theorem sq_dist_expand (v u : Fin k → K) :
    ∑ i, (v i - u i) * (v i - u i) =
      (finVecOps K k).dot v v - 2 * (finVecOps K k).dot v u + (finVecOps K k).dot u u := by
  simp only [finVecOps, Finset.mul_sum, ← Finset.sum_sub_distrib, ← Finset.sum_add_distrib]
  exact Finset.sum_congr rfl (fun i _ => by ring)

theorem contains_iff (eps : K) (sq : K → K) (h : Halfspace K (Fin k → K)) (v : Fin k → K) :
    h.contains (fieldChartArith eps sq) (finVecOps K k) v = true ↔ (finVecOps K k).dot v h.u ≤ h.rhs := by
  simp [Halfspace.contains, fieldChartArith, fieldArith]

theorem create_fields (eps : K) (sq : K → K) (owner compl : Nat) (w : Fin k → K) :
    (Halfspace.create (fieldChartArith eps sq) (finVecOps K k) owner w compl).u = (finVecOps K k).smul (21 / 20) w ∧
    (Halfspace.create (fieldChartArith eps sq) (finVecOps K k) owner w compl).usq =
      (21 / 20) * (21 / 20) * (finVecOps K k).dot w w ∧
    (Halfspace.create (fieldChartArith eps sq) (finVecOps K k) owner w compl).rhs =
      (21 / 20) * (21 / 20) * (finVecOps K k).dot w w / 2 := by
  refine ⟨rfl, ?_, ?_⟩
  · simp only [Halfspace.create, Halfspace.setU, fieldChartArith]
    exact dot_smul_smul _ _
  · simp only [Halfspace.create, Halfspace.setU, fieldChartArith, fieldArith]
    rw [dot_smul_smul]

end field

end OmplModel.Constrained
