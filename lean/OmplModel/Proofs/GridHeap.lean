import OmplModel.Model.Heap
/-!
"Contents" lemmas for the binary-heap model `OmplModel.Heap`: every public operation acts on the
multiset of `(handle, key)` pairs as the obvious abstract operation.  No assumption on the
comparison `lt` is needed: these are pure permutation facts.
-/
namespace OmplModel.Heap

variable {κ : Type}

/-! ### sifts and build are permutations -/

theorem siftUp_perm (lt : κ → κ → Bool) (a : Array (Elem κ)) (i : Nat) :
    (siftUp lt a i).toList.Perm a.toList := by
  fun_induction siftUp lt a i with
  | case1 a i h hlt ih =>
    exact ih.trans (Array.perm_iff_toList_perm.1 (Array.swap_perm _ _))
  | case2 => exact .refl _
  | case3 => exact .refl _

theorem siftDown_perm (lt : κ → κ → Bool) (a : Array (Elem κ)) (i : Nat) :
    (siftDown lt a i).toList.Perm a.toList := by
  fun_induction siftDown lt a i with
  | case1 a i h h1 h2 ih =>
    exact ih.trans (Array.perm_iff_toList_perm.1 (Array.swap_perm _ _))
  | case2 => exact .refl _
  | case3 a i h h1 h2 ih =>
    exact ih.trans (Array.perm_iff_toList_perm.1 (Array.swap_perm _ _))
  | case4 => exact .refl _
  | case5 => exact Array.perm_iff_toList_perm.1 (Array.swap_perm _ _)
  | case6 => exact .refl _
  | case7 => exact .refl _

theorem size_siftUp (lt : κ → κ → Bool) (a : Array (Elem κ)) (i : Nat) :
    (siftUp lt a i).size = a.size := by
  simpa using (siftUp_perm lt a i).length_eq

theorem size_siftDown (lt : κ → κ → Bool) (a : Array (Elem κ)) (i : Nat) :
    (siftDown lt a i).size = a.size := by
  simpa using (siftDown_perm lt a i).length_eq

theorem buildLoop_perm (lt : κ → κ → Bool) (a : Array (Elem κ)) (k : Nat) :
    (buildLoop lt a k).toList.Perm a.toList := by
  induction k generalizing a with
  | zero => exact .refl _
  | succ k ih => exact (ih _).trans (siftDown_perm lt a k)

theorem build_perm (lt : κ → κ → Bool) (a : Array (Elem κ)) :
    (build lt a).toList.Perm a.toList :=
  buildLoop_perm lt a _

theorem size_build (lt : κ → κ → Bool) (a : Array (Elem κ)) : (build lt a).size = a.size := by
  simpa using (build_perm lt a).length_eq

/-! ### list facts -/

theorem set_last_dropLast_perm {α} (l : List α) (p : Nat) (v : α) (hp : p + 1 < l.length)
    (hv : l.getLast? = some v) : ((l.set p v).dropLast).Perm (l.eraseIdx p) := by
  induction l generalizing p with
  | nil => simp at hp
  | cons x xs ih =>
    cases xs with
    | nil => simp at hp
    | cons y ys =>
      have hv' : (y :: ys).getLast? = some v := by simpa [List.getLast?_cons_cons] using hv
      cases p with
      | zero =>
        simp only [List.set_cons_zero, List.eraseIdx_cons_zero, List.dropLast_cons_cons]
        have h1 : (y :: ys).dropLast ++ [v] = (y :: ys) := by
          have h2 := List.dropLast_concat_getLast (List.cons_ne_nil y ys)
          rw [List.getLast?_eq_some_getLast (List.cons_ne_nil y ys)] at hv'
          cases hv'; exact h2
        rw (occs := [2]) [← h1]
        exact List.perm_append_comm (l₁ := [v])
      | succ p =>
        have := ih p (by simpa using hp) hv'
        simp only [List.set_cons_succ, List.eraseIdx_cons_succ]
        cases hs : (y :: ys).set p v with
        | nil => simp at hs
        | cons z zs =>
          rw [hs] at this
          simpa using this

theorem swap_last_pop_toList (a : Array (Elem κ)) (p : Nat) (hp : p < a.size) (hl : a.size - 1 < a.size) :
    (a.swap p (a.size - 1) hp hl).pop.toList = (a.toList.set p (a[a.size - 1]'hl)).dropLast := by
  rw [Array.toList_pop, Array.toList_swap, List.dropLast_eq_take, List.dropLast_eq_take,
    List.take_set_of_le (by simp)]
  simp

theorem removePos_perm (lt : κ → κ → Bool) (a : Array (Elem κ)) (p : Nat) (hp : p < a.size) :
    (removePos lt a p).toList.Perm (a.toList.eraseIdx p) := by
  unfold removePos
  by_cases h : p + 1 < a.size
  · rw [dif_pos h]
    refine (siftDown_perm lt _ p).trans ((siftUp_perm lt _ p).trans ?_)
    first
      | rw [swap_last_pop_toList]
      | rw [Array.toList_pop, Array.toList_set]
    apply set_last_dropLast_perm _ _ _ (by simpa using h)
    simp [List.getLast?_eq_getElem?]
  · rw [dif_neg h]
    have : p = a.toList.length - 1 := by simp; omega
    rw [Array.toList_pop, this, List.eraseIdx_eq_dropLast]
    simp; omega

/-- with distinct handles, erasing the first index carrying handle `h` = filtering `h` out -/
theorem eraseIdx_eq_filter (l : List (Elem κ)) (h p : Nat) (nd : (l.map (·.h)).Nodup)
    (hf : l.findIdx? (fun e => e.h == h) = some p) :
    l.eraseIdx p = l.filter (fun e => e.h != h) := by
  induction l generalizing p with
  | nil => simp at hf
  | cons x xs ih =>
    rw [List.map_cons, List.nodup_cons] at nd
    rw [List.findIdx?_cons] at hf
    split at hf
    · rename_i hx
      cases hf
      have hx' : x.h = h := by simpa using hx
      have : ∀ e ∈ xs, (e.h != h) = true := by
        intro e he
        have : e.h ≠ x.h := fun heq => nd.1 (heq ▸ List.mem_map_of_mem he)
        simpa [← hx'] using this
      simp [hx', List.filter_eq_self.2 this]
    · rename_i hx
      rcases hq : xs.findIdx? (fun e => e.h == h) with _ | q
      · simp [hq] at hf
      · simp [hq] at hf
        subst hf
        have hx' : ¬ x.h = h := by simpa using hx
        simp [hx', ih q nd.2 hq]

theorem filter_eq_self_of_findIdx?_none (l : List (Elem κ)) (h : Nat)
    (hf : l.findIdx? (fun e => e.h == h) = none) : l.filter (fun e => e.h != h) = l := by
  rw [List.findIdx?_eq_none_iff] at hf
  apply List.filter_eq_self.2
  intro e he
  simpa using hf e he

/-- with distinct handles, overwriting the first slot carrying handle `h` = mapping -/
theorem set_eq_map (l : List (Elem κ)) (h p : Nat) (k : κ) (nd : (l.map (·.h)).Nodup)
    (hf : l.findIdx? (fun e => e.h == h) = some p) :
    l.set p ⟨h, k⟩ = l.map (fun e => if e.h == h then ⟨h, k⟩ else e) := by
  induction l generalizing p with
  | nil => simp at hf
  | cons x xs ih =>
    rw [List.map_cons, List.nodup_cons] at nd
    rw [List.findIdx?_cons] at hf
    split at hf
    · rename_i hx
      cases hf
      have hx' : x.h = h := by simpa using hx
      have : ∀ e ∈ xs, (if e.h == h then (⟨h, k⟩ : Elem κ) else e) = e := by
        intro e he
        have : e.h ≠ x.h := fun heq => nd.1 (heq ▸ List.mem_map_of_mem he)
        rw [hx'] at this
        simp [this]
      have hm := (List.map_congr_left this).trans (List.map_id' xs)
      simp only [List.set_cons_zero, List.map_cons, hm]
      simp [hx']
    · rename_i hx
      rcases hq : xs.findIdx? (fun e => e.h == h) with _ | q
      · simp [hq] at hf
      · simp [hq] at hf
        subst hf
        have hx' : ¬ x.h = h := by simpa using hx
        simp [hx', ih q nd.2 hq]

theorem map_eq_self_of_findIdx?_none (l : List (Elem κ)) (h : Nat) (k : κ)
    (hf : l.findIdx? (fun e => e.h == h) = none) :
    l.map (fun e => if e.h == h then ⟨h, k⟩ else e) = l := by
  rw [List.findIdx?_eq_none_iff] at hf
  have : ∀ e ∈ l, (if e.h == h then (⟨h, k⟩ : Elem κ) else e) = e := by
    intro e he; simp [hf e he]
  exact (List.map_congr_left this).trans (List.map_id' l)


/-! ### items, HandlesOK -/

/-- the (handle, key) pairs in the heap, in array order -/
def Heap.items {κ} (s : Heap κ) : List (Nat × κ) := s.arr.toList.map (fun e => (e.h, e.key))

/-- handles are pairwise distinct and all below `next` (so a fresh insert gets a new handle) -/
structure Heap.HandlesOK {κ} (s : Heap κ) : Prop where
  nodup : (s.items.map (·.1)).Nodup
  lt_next : ∀ p ∈ s.items, p.1 < s.next

theorem Heap.items_fst (s : Heap κ) : s.items.map (·.1) = s.arr.toList.map (·.h) := by
  simp [Heap.items]

theorem Heap.HandlesOK.nodup_h {s : Heap κ} (ok : s.HandlesOK) : (s.arr.toList.map (·.h)).Nodup := by
  rw [← Heap.items_fst]; exact ok.nodup

theorem findIdx_toList (a : Array (Elem κ)) (h : Nat) :
    findIdx a h = a.toList.findIdx? (fun e => e.h == h) := by
  cases a with
  | mk l => simp [findIdx]

theorem findIdx_lt {a : Array (Elem κ)} {h p : Nat} (hf : findIdx a h = some p) : p < a.size := by
  unfold findIdx at hf
  exact (Array.findIdx?_eq_some_iff_getElem.1 hf).1

/-- transfer of `HandlesOK` along a description of the new items -/
theorem Heap.HandlesOK.of_perm {s' : Heap κ} {L : List (Nat × κ)} (hp : s'.items.Perm L)
    (nd : (L.map (·.1)).Nodup) (lt : ∀ p ∈ L, p.1 < s'.next) : s'.HandlesOK where
  nodup := ((hp.map _).nodup_iff).2 nd
  lt_next := fun p hm => lt p (hp.mem_iff.1 hm)

/-! ### insert -/

theorem Heap.items_insert (lt : κ → κ → Bool) (s : Heap κ) (k : κ) :
    (s.insert lt k).items.Perm ((s.next, k) :: s.items) := by
  unfold Heap.insert Heap.items
  refine ((siftUp_perm lt _ _).map _).trans ?_
  simp only [Array.toList_push, List.map_append, List.map_cons, List.map_nil]
  exact List.perm_append_comm (l₂ := [(s.next, k)])

theorem Heap.next_insert (lt : κ → κ → Bool) (s : Heap κ) (k : κ) :
    (s.insert lt k).next = s.next + 1 := rfl

theorem Heap.HandlesOK.insert (lt : κ → κ → Bool) {s : Heap κ} (ok : s.HandlesOK) (k : κ) :
    (s.insert lt k).HandlesOK := by
  refine .of_perm (Heap.items_insert lt s k) ?_ ?_
  · rw [List.map_cons, List.nodup_cons]
    refine ⟨?_, ok.nodup⟩
    intro hm
    obtain ⟨p, hp, he⟩ := List.mem_map.1 hm
    have := ok.lt_next p hp
    simp at he
    omega
  · intro p hp
    rw [Heap.next_insert]
    rcases List.mem_cons.1 hp with rfl | hp
    · simp
    · exact Nat.lt_succ_of_lt (ok.lt_next p hp)

/-! ### remove -/

theorem Heap.next_remove (lt : κ → κ → Bool) (s : Heap κ) (h : Nat) :
    (s.remove lt h).next = s.next := by
  unfold Heap.remove; split <;> rfl

theorem Heap.items_remove (lt : κ → κ → Bool) (s : Heap κ) (h : Nat) (ok : s.HandlesOK) :
    (s.remove lt h).items.Perm (s.items.filter (fun p => p.1 != h)) := by
  have hfm : s.items.filter (fun p => p.1 != h)
      = (s.arr.toList.filter (fun e => e.h != h)).map (fun e => (e.h, e.key)) := by
    simp only [Heap.items, List.filter_map]; rfl
  rw [hfm]
  unfold Heap.remove
  split
  · rename_i p hf
    have hp := findIdx_lt hf
    rw [findIdx_toList] at hf
    rw [← eraseIdx_eq_filter _ h p ok.nodup_h hf]
    exact (removePos_perm lt s.arr p hp).map _
  · rename_i hf
    rw [findIdx_toList] at hf
    rw [filter_eq_self_of_findIdx?_none _ h hf]
    exact .refl _

theorem Heap.HandlesOK.remove (lt : κ → κ → Bool) {s : Heap κ} (ok : s.HandlesOK) (h : Nat) :
    (s.remove lt h).HandlesOK := by
  refine .of_perm (Heap.items_remove lt s h ok) ?_ ?_
  · exact ok.nodup.sublist (List.filter_sublist.map _)
  · intro p hp
    rw [Heap.next_remove]
    exact ok.lt_next p (List.mem_filter.1 hp).1

/-! ### pop (= remove the element in slot 0) -/

theorem Heap.next_pop (lt : κ → κ → Bool) (s : Heap κ) : (s.pop lt).next = s.next := by
  unfold Heap.pop; split <;> rfl

theorem Heap.items_pop (lt : κ → κ → Bool) (s : Heap κ) : (s.pop lt).items.Perm s.items.tail := by
  unfold Heap.pop
  split
  · rename_i h
    have : s.arr.toList = [] := by simpa using h
    simp [Heap.items, this]
  · rename_i h
    have := (removePos_perm lt s.arr 0 (by omega)).map (fun e => (e.h, e.key))
    simpa [Heap.items, List.eraseIdx_zero] using this

theorem Heap.HandlesOK.pop (lt : κ → κ → Bool) {s : Heap κ} (ok : s.HandlesOK) :
    (s.pop lt).HandlesOK := by
  refine .of_perm (Heap.items_pop lt s) ?_ ?_
  · exact ok.nodup.sublist ((List.tail_sublist _).map _)
  · intro p hp
    rw [Heap.next_pop]
    exact ok.lt_next p (List.mem_of_mem_tail hp)

/-! ### setKey -/

theorem Heap.next_setKey (lt : κ → κ → Bool) (s : Heap κ) (h : Nat) (k : κ) :
    (s.setKey lt h k).next = s.next := by
  unfold Heap.setKey; split
  · split <;> rfl
  · rfl

theorem items_map_eq (l : List (Elem κ)) (h : Nat) (k : κ) :
    (l.map (fun e => (e.h, e.key))).map (fun p => if p.1 == h then (h, k) else p)
      = (l.map (fun e => if e.h == h then (⟨h, k⟩ : Elem κ) else e)).map (fun e => (e.h, e.key)) := by
  simp only [List.map_map]
  apply List.map_congr_left
  intro e _
  simp only [Function.comp]
  split <;> rfl

theorem Heap.items_setKey (lt : κ → κ → Bool) (s : Heap κ) (h : Nat) (k : κ) (ok : s.HandlesOK) :
    (s.setKey lt h k).items.Perm (s.items.map (fun p => if p.1 == h then (h, k) else p)) := by
  rw [Heap.items, Heap.items, items_map_eq]
  unfold Heap.setKey
  split
  · rename_i p hf
    have hp := findIdx_lt hf
    rw [dif_pos hp]
    rw [findIdx_toList] at hf
    rw [← set_eq_map _ h p k ok.nodup_h hf, ← Array.toList_set]
    exact ((siftDown_perm lt _ p).trans (siftUp_perm lt _ p)).map _
  · rename_i hf
    rw [findIdx_toList] at hf
    rw [map_eq_self_of_findIdx?_none _ h k hf]

/-- updating the key stored under a handle does not change the list of handles -/
theorem map_upd_fst (L : List (Nat × κ)) (hk : Nat × κ) :
    (L.map (fun p => if p.1 == hk.1 then hk else p)).map (·.1) = L.map (·.1) := by
  rw [List.map_map]
  apply List.map_congr_left
  intro p _
  simp only [Function.comp]
  split
  · rename_i h; exact (by simpa using h : p.1 = hk.1).symm
  · rfl

theorem okL_upd {L : List (Nat × κ)} {n : Nat} (hk : Nat × κ)
    (h : (L.map (·.1)).Nodup ∧ ∀ p ∈ L, p.1 < n) :
    ((L.map (fun p => if p.1 == hk.1 then hk else p)).map (·.1)).Nodup ∧
      ∀ p ∈ L.map (fun p => if p.1 == hk.1 then hk else p), p.1 < n := by
  refine ⟨by rw [map_upd_fst]; exact h.1, ?_⟩
  intro p hp
  have : p.1 ∈ (L.map (fun p => if p.1 == hk.1 then hk else p)).map (·.1) := List.mem_map_of_mem hp
  rw [map_upd_fst] at this
  obtain ⟨q, hq, he⟩ := List.mem_map.1 this
  rw [← he]; exact h.2 q hq

theorem Heap.HandlesOK.setKey (lt : κ → κ → Bool) {s : Heap κ} (ok : s.HandlesOK) (h : Nat) (k : κ) :
    (s.setKey lt h k).HandlesOK := by
  have := okL_upd (n := s.next) (h, k) ⟨ok.nodup, ok.lt_next⟩
  refine .of_perm (Heap.items_setKey lt s h k ok) this.1 ?_
  rw [Heap.next_setKey]; exact this.2

/-! ### pokeRebuild -/

theorem Heap.next_pokeRebuild (lt : κ → κ → Bool) (s : Heap κ) (chg : List (Nat × κ)) :
    (s.pokeRebuild lt chg).next = s.next := rfl

theorem map_upd_h (l : List (Elem κ)) (h : Nat) (k : κ) :
    (l.map (fun e => if e.h == h then (⟨h, k⟩ : Elem κ) else e)).map (·.h) = l.map (·.h) := by
  rw [List.map_map]
  apply List.map_congr_left
  intro e _
  simp only [Function.comp]
  split
  · rename_i he; exact (by simpa using he : e.h = h).symm
  · rfl

theorem pokeAll_items (a : Array (Elem κ)) (chg : List (Nat × κ))
    (nd : (a.toList.map (·.h)).Nodup) :
    (pokeAll a chg).toList.map (fun e => (e.h, e.key))
      = chg.foldl (fun it hk => it.map (fun p => if p.1 == hk.1 then hk else p))
          (a.toList.map (fun e => (e.h, e.key))) := by
  induction chg generalizing a with
  | nil => rfl
  | cons hk rest ih =>
    obtain ⟨h, k⟩ := hk
    rw [pokeAll, List.foldl_cons, items_map_eq]
    split
    · rename_i p hf
      rw [findIdx_toList] at hf
      have hs := set_eq_map _ h p k nd hf
      rw [← hs, ← Array.toList_setIfInBounds]
      apply ih
      rw [Array.toList_setIfInBounds, hs, map_upd_h]
      exact nd
    · rename_i hf
      rw [findIdx_toList] at hf
      rw [map_eq_self_of_findIdx?_none _ h k hf]
      exact ih a nd

theorem Heap.items_pokeRebuild (lt : κ → κ → Bool) (s : Heap κ) (chg : List (Nat × κ))
    (ok : s.HandlesOK) :
    (s.pokeRebuild lt chg).items.Perm
      (chg.foldl (fun it hk => it.map (fun p => if p.1 == hk.1 then hk else p)) s.items) := by
  unfold Heap.pokeRebuild Heap.items
  rw [← pokeAll_items _ _ ok.nodup_h]
  exact (build_perm lt _).map _

theorem okL_foldl {n : Nat} (chg : List (Nat × κ)) (L : List (Nat × κ))
    (h : (L.map (·.1)).Nodup ∧ ∀ p ∈ L, p.1 < n) :
    let L' := chg.foldl (fun it hk => it.map (fun p => if p.1 == hk.1 then hk else p)) L
    (L'.map (·.1)).Nodup ∧ ∀ p ∈ L', p.1 < n := by
  induction chg generalizing L with
  | nil => exact h
  | cons hk rest ih => exact ih _ (okL_upd hk h)

theorem Heap.HandlesOK.pokeRebuild (lt : κ → κ → Bool) {s : Heap κ} (ok : s.HandlesOK)
    (chg : List (Nat × κ)) : (s.pokeRebuild lt chg).HandlesOK := by
  have := okL_foldl (n := s.next) chg s.items ⟨ok.nodup, ok.lt_next⟩
  exact .of_perm (Heap.items_pokeRebuild lt s chg ok) this.1 this.2

/-! ### clear, empty, top -/

theorem Heap.items_clear (s : Heap κ) : s.clear.items = [] := rfl

theorem Heap.next_clear (s : Heap κ) : s.clear.next = s.next := rfl

theorem Heap.HandlesOK.clear {s : Heap κ} (_ok : s.HandlesOK) : s.clear.HandlesOK where
  nodup := by rw [Heap.items_clear]; exact List.nodup_nil
  lt_next := by rw [Heap.items_clear]; intro p hp; cases hp

theorem Heap.HandlesOK.empty : ({} : Heap κ).HandlesOK where
  nodup := List.nodup_nil
  lt_next := by intro p hp; cases hp

theorem Heap.top_mem (s : Heap κ) (e : Elem κ) (h : s.top = some e) : (e.h, e.key) ∈ s.items := by
  unfold Heap.top at h
  have : e ∈ s.arr.toList := by
    rw [Array.mem_toList_iff]
    exact Array.mem_of_getElem? h
  exact List.mem_map_of_mem (f := fun e => (e.h, e.key)) this

theorem Heap.top_eq_none_iff (s : Heap κ) : s.top = none ↔ s.items = [] := by
  unfold Heap.top Heap.items
  simp

end OmplModel.Heap
