import OmplModel.Model.PathOpsSchedule
/-
Composition theorems for the schedule of `PathSimplifier::simplify` (Model/PathOpsSchedule.lean).

What is abstracted (see the model's header): the routines are ARBITRARY call-indexed functions
(`path.length() / 100.0`, `MAX_VALID_SAMPLE_ATTEMPTS`, the default `maxSteps`/`rangeRatio`/… hidden
inside them), `ptc` is an arbitrary stream of answers, logging is dropped.  Everything here is proved
for ALL routine families, ALL streams, ALL fuel; no Mathlib.

* `Deriv cm cut inp (x, y)`: the motion `x → y` is an input motion, a motion `checkMotion` answered
  `true` for, or a prefix / suffix piece of such a motion cut at a state `s` lying on it
  (`cut a b s`, abstract: "s lies on the motion a → b").
* `Preserves cm cut isGoal inp out`: same first state; same last state or a goal state as last state
  (`findBetterGoal` replaces the end of the path); every motion of `out` is `Deriv … inp`.
  `Preserves.refl`, `Preserves.trans`.
* `simplify_induction`: ANY predicate of (path, valid) that every routine maintains is maintained by
  the schedule — the one induction over the three loops; the theorems below instantiate it.
* `simplify_schedule_preserves`: if every routine `Preserves` (for `checkAndRepair`: when its result is
  `true`), a run that ends with `valid = true` `Preserves`.  A failed `checkAndRepair` does NOT stop the
  schedule (it sets `valid = false` and goes on, and later routines work on a path with an unvalidated
  raw sample in it), so nothing about the motions is claimed for `valid = false`;
  `simplify_schedule_head` / `simplify_schedule_last`: the end points are kept in ANY case if every
  routine keeps them unconditionally.
* `simplify_schedule_return`: the return value is `simplifyReturn R.check inp out` (Model/PathOps.lean).
* `simplify_schedule_ptc_fired`, `simplify_schedule_terminates_ptc`, `simplify_schedule_calls_le`,
  `simplify_schedule_calls_le_ptc`: nothing happens under a condition that has fired already; the outer
  loop stops within `K + 1` iterations if the condition is `true` from its `K`-th evaluation on;
  at most two routine calls per evaluation of `ptc`.
-/
namespace OmplModel.PathOps

variable {σ : Type}

/-! ## the relation the routines compose under -/

/-- `x → y` is (a piece of) an input motion or of a motion `checkMotion` accepted -/
inductive Deriv (cm : σ → σ → Bool) (cut : σ → σ → σ → Prop) (inp : List σ) : σ × σ → Prop
  | input {p : σ × σ} : p ∈ adj inp → Deriv cm cut inp p
  | validated {p : σ × σ} : cm p.1 p.2 = true → Deriv cm cut inp p
  | prefixCut {a b s : σ} : Deriv cm cut inp (a, b) → cut a b s → Deriv cm cut inp (a, s)
  | suffixCut {a b s : σ} : Deriv cm cut inp (a, b) → cut a b s → Deriv cm cut inp (s, b)

/-- derivations from `mid` are derivations from `inp` when `mid` itself is derived from `inp` -/
theorem Deriv.lift {cm : σ → σ → Bool} {cut : σ → σ → σ → Prop} {inp mid : List σ}
    (hmid : ∀ p ∈ adj mid, Deriv cm cut inp p) {p : σ × σ} (h : Deriv cm cut mid p) :
    Deriv cm cut inp p := by
  induction h with
  | input hp => exact hmid _ hp
  | validated hp => exact Deriv.validated hp
  | prefixCut _ hc ih => exact Deriv.prefixCut ih hc
  | suffixCut _ hc ih => exact Deriv.suffixCut ih hc

/-- what one routine (and, by `simplify_schedule_preserves`, the whole schedule) guarantees -/
def Preserves (cm : σ → σ → Bool) (cut : σ → σ → σ → Prop) (isGoal : σ → Prop) (inp out : List σ) : Prop :=
  out.head? = inp.head? ∧
  (out.getLast? = inp.getLast? ∨ ∃ g, out.getLast? = some g ∧ isGoal g) ∧
  ∀ p ∈ adj out, Deriv cm cut inp p

theorem Preserves.refl (cm : σ → σ → Bool) (cut : σ → σ → σ → Prop) (isGoal : σ → Prop) (l : List σ) :
    Preserves cm cut isGoal l l :=
  ⟨rfl, Or.inl rfl, fun _ hp => Deriv.input hp⟩

theorem Preserves.trans {cm : σ → σ → Bool} {cut : σ → σ → σ → Prop} {isGoal : σ → Prop}
    {inp mid out : List σ} (h1 : Preserves cm cut isGoal inp mid) (h2 : Preserves cm cut isGoal mid out) :
    Preserves cm cut isGoal inp out := by
  obtain ⟨hh1, hl1, hd1⟩ := h1
  obtain ⟨hh2, hl2, hd2⟩ := h2
  refine ⟨hh2.trans hh1, ?_, fun p hp => Deriv.lift hd1 (hd2 p hp)⟩
  rcases hl2 with hl2 | hl2
  · rcases hl1 with hl1 | ⟨g, hg, hG⟩
    · exact Or.inl (hl2.trans hl1)
    · exact Or.inr ⟨g, hl2.trans hg, hG⟩
  · exact Or.inr hl2

/-! ## the induction over the schedule -/

/-- `P path valid` is maintained by every routine call as the schedule makes it: `valid` is kept,
except that a `checkAndRepair` answering `result = false` clears it -/
structure Closed (R : Routines σ) (P : List σ → Bool → Prop) : Prop where
  partialShortcut : ∀ k l v, P l v → P (R.partialShortcut k l).1 v
  findBetterGoal : ∀ k l v, P l v → P (R.findBetterGoal k l).1 v
  smoothBSpline : ∀ k l v, P l v → P (R.smoothBSpline k l) v
  checkAndRepair_ok : ∀ k l v, (R.checkAndRepair k l).2.2 = true → P l v → P (R.checkAndRepair k l).1 v
  checkAndRepair_failed : ∀ k l v, (R.checkAndRepair k l).2.2 = false → P l v → P (R.checkAndRepair k l).1 false
  reduceVertices : ∀ k l v, P l v → P (R.reduceVertices k l).1 v
  collapseClose : ∀ k l v, P l v → P (R.collapseClose k l).1 v

/-- `P` holds of the path and the `valid` flag of a state -/
def SchedSt.Holds (P : List σ → Bool → Prop) (s : SchedSt σ) : Prop := P s.path s.valid

section Induction
variable {R : Routines σ} {P : List σ → Bool → Prop}

theorem holds_tick {s : SchedSt σ} (hs : s.Holds P) : s.tick.Holds P := hs

theorem holds_doShortcut (h : Closed R P) {s : SchedSt σ} (hs : s.Holds P) : (doShortcut R s).1.Holds P :=
  h.partialShortcut _ _ _ hs

theorem holds_doGoal (h : Closed R P) {s : SchedSt σ} (hs : s.Holds P) : (doGoal R s).1.Holds P := by
  unfold doGoal
  split
  · exact h.findBetterGoal _ _ _ hs
  · exact hs

theorem holds_doSmooth (h : Closed R P) {s : SchedSt σ} (hs : s.Holds P) : (doSmooth R s).Holds P :=
  h.smoothBSpline _ _ _ hs

theorem holds_doRepair (h : Closed R P) {s : SchedSt σ} (hs : s.Holds P) : (doRepair R s).Holds P := by
  cases hr : (R.checkAndRepair s.calls s.path).2.2 with
  | true =>
    have := h.checkAndRepair_ok s.calls s.path s.valid hr hs
    simpa [SchedSt.Holds, doRepair, SchedSt.called, hr] using this
  | false =>
    have := h.checkAndRepair_failed s.calls s.path s.valid hr hs
    simpa [SchedSt.Holds, doRepair, SchedSt.called, hr] using this

theorem holds_doReduce (h : Closed R P) {s : SchedSt σ} (hs : s.Holds P) : (doReduce R s).Holds P :=
  h.reduceVertices _ _ _ hs

theorem holds_doCollapse (h : Closed R P) {s : SchedSt σ} (hs : s.Holds P) : (doCollapse R s).Holds P :=
  h.collapseClose _ _ _ hs

theorem holds_metricLoop (h : Closed R P) (ptc : Nat → Bool) (alo : Bool) (left : Nat) {s : SchedSt σ}
    (hs : s.Holds P) : (metricLoop R ptc alo left s).Holds P := by
  induction left generalizing s with
  | zero =>
    unfold metricLoop
    have := holds_tick (holds_doGoal h (holds_doShortcut h hs))
    simp only []
    split <;> exact this
  | succ n ih =>
    unfold metricLoop
    have := holds_tick (holds_doGoal h (holds_doShortcut h hs))
    simp only []
    split
    · split
      · exact ih this
      · exact this
    · exact this

theorem holds_metricBlock (h : Closed R P) (ptc : Nat → Bool) (alo : Bool) {s : SchedSt σ}
    (hs : s.Holds P) : (metricBlock R ptc alo s).Holds P := by
  unfold metricBlock
  simp only []
  have h1 := holds_tick (holds_metricLoop h ptc alo 5 hs)
  split
  · have h2 := holds_tick (holds_doSmooth h h1)
    split
    · exact holds_doRepair h h2
    · exact h2
  · have h2 := holds_tick h1
    split
    · exact holds_doRepair h h2
    · exact h2

theorem holds_reduceLoop (h : Closed R P) (ptc : Nat → Bool) (alo : Bool) (left : Nat) {s : SchedSt σ}
    (hs : s.Holds P) : (reduceLoop R ptc alo left s).Holds P := by
  induction left generalizing s with
  | zero =>
    unfold reduceLoop
    simp only []
    split <;> exact holds_tick hs
  | succ n ih =>
    unfold reduceLoop
    simp only []
    split
    · exact ih (holds_doReduce h (holds_tick hs))
    · exact holds_tick hs

theorem holds_iteration (h : Closed R P) (ptc : Nat → Bool) (alo : Bool) {s : SchedSt σ}
    (hs : s.Holds P) : (iteration R ptc alo s).Holds P := by
  unfold iteration
  simp only []
  -- the state after each statement, whatever the tests say
  have step : ∀ (c : Bool) (f : SchedSt σ → SchedSt σ), (∀ {t : SchedSt σ}, t.Holds P → (f t).Holds P) →
      ∀ {t : SchedSt σ}, t.Holds P → (if c = true then f t.tick else t.tick).Holds P := by
    intro c f hf t ht
    split
    · exact hf (holds_tick ht)
    · exact holds_tick ht
  refine step _ (doRepair R) (holds_doRepair h) ?_
  refine holds_reduceLoop h ptc alo 5 ?_
  refine step _ (doCollapse R) (holds_doCollapse h) ?_
  refine step _ (doReduce R) (holds_doReduce h) ?_
  exact step _ (metricBlock R ptc alo) (holds_metricBlock h ptc alo) hs

theorem holds_outerLoop (h : Closed R P) (ptc : Nat → Bool) (fuel : Nat) (alo : Bool) {s : SchedSt σ}
    (hs : s.Holds P) : (outerLoop R ptc fuel alo s).1.Holds P := by
  induction fuel generalizing s alo with
  | zero =>
    unfold outerLoop
    simp only []
    split <;> exact holds_tick hs
  | succ n ih =>
    unfold outerLoop
    simp only []
    split
    · exact ih false (holds_iteration h ptc alo (holds_tick hs))
    · exact holds_tick hs

/-- **Induction principle of the schedule**: a predicate of (path, `valid`) that holds initially
(`valid = true`) and is maintained by every routine call holds of the result. -/
theorem simplify_induction (h : Closed R P) (ptc : Nat → Bool) (alo : Bool) (fuel : Nat) (inp : List σ)
    (h0 : P inp true) :
    P (simplify R ptc alo fuel inp).path (simplify R ptc alo fuel inp).valid := by
  unfold simplify
  split
  · exact h0
  · exact holds_outerLoop h ptc fuel alo (s := ⟨inp, true, true, 0, 0⟩) h0

end Induction

/-! ## the composition theorem -/

/-- every routine of `R`, at every call index and on every path, `Preserves`; `checkAndRepair` only
when it reports success (`result = true`: after a failed repair the path contains a raw, unvalidated
sample) -/
structure RoutinesPreserve (cm : σ → σ → Bool) (cut : σ → σ → σ → Prop) (isGoal : σ → Prop)
    (R : Routines σ) : Prop where
  partialShortcut : ∀ k l, Preserves cm cut isGoal l (R.partialShortcut k l).1
  findBetterGoal : ∀ k l, Preserves cm cut isGoal l (R.findBetterGoal k l).1
  smoothBSpline : ∀ k l, Preserves cm cut isGoal l (R.smoothBSpline k l)
  checkAndRepair : ∀ k l, (R.checkAndRepair k l).2.2 = true → Preserves cm cut isGoal l (R.checkAndRepair k l).1
  reduceVertices : ∀ k l, Preserves cm cut isGoal l (R.reduceVertices k l).1
  collapseClose : ∀ k l, Preserves cm cut isGoal l (R.collapseClose k l).1

/-- every routine keeps `f path` (e.g. the first state), whatever it answers — `checkAndRepair` too -/
structure RoutinesKeep {β : Type} (f : List σ → β) (R : Routines σ) : Prop where
  partialShortcut : ∀ k l, f (R.partialShortcut k l).1 = f l
  findBetterGoal : ∀ k l, f (R.findBetterGoal k l).1 = f l
  smoothBSpline : ∀ k l, f (R.smoothBSpline k l) = f l
  checkAndRepair : ∀ k l, f (R.checkAndRepair k l).1 = f l
  reduceVertices : ∀ k l, f (R.reduceVertices k l).1 = f l
  collapseClose : ∀ k l, f (R.collapseClose k l).1 = f l

/-- **Composition**: if every routine preserves (end points kept or goal reached, motions derived from
the input's), then so does every run of the schedule that ends with `valid = true`, i.e. in which no
`checkAndRepair` reported failure — for every `ptc` stream, `atLeastOnce`, fuel (also when cut off) -/
theorem simplify_schedule_preserves {cm : σ → σ → Bool} {cut : σ → σ → σ → Prop} {isGoal : σ → Prop}
    {R : Routines σ} (hR : RoutinesPreserve cm cut isGoal R)
    (ptc : Nat → Bool) (atLeastOnce : Bool) (fuel : Nat) (inp : List σ)
    (hvalid : (simplify R ptc atLeastOnce fuel inp).valid = true) :
    Preserves cm cut isGoal inp (simplify R ptc atLeastOnce fuel inp).path := by
  have hC : Closed R (fun l v => v = true → Preserves cm cut isGoal inp l) :=
    { partialShortcut := fun k l _ h hv => (h hv).trans (hR.partialShortcut k l)
      findBetterGoal := fun k l _ h hv => (h hv).trans (hR.findBetterGoal k l)
      smoothBSpline := fun k l _ h hv => (h hv).trans (hR.smoothBSpline k l)
      checkAndRepair_ok := fun k l _ hr h hv => (h hv).trans (hR.checkAndRepair k l hr)
      checkAndRepair_failed := fun _ _ _ _ _ hv => Bool.noConfusion hv
      reduceVertices := fun k l _ h hv => (h hv).trans (hR.reduceVertices k l)
      collapseClose := fun k l _ h hv => (h hv).trans (hR.collapseClose k l) }
  exact simplify_induction hC ptc atLeastOnce fuel inp (fun _ => Preserves.refl cm cut isGoal inp) hvalid

/-- the same as a disjunction: the result preserves OR some `checkAndRepair` call of the run answered
`result = false` (that is what `valid = false` records, exactly as the C++ local does) -/
theorem simplify_schedule_preserves_or {cm : σ → σ → Bool} {cut : σ → σ → σ → Prop} {isGoal : σ → Prop}
    {R : Routines σ} (hR : RoutinesPreserve cm cut isGoal R)
    (ptc : Nat → Bool) (atLeastOnce : Bool) (fuel : Nat) (inp : List σ) :
    Preserves cm cut isGoal inp (simplify R ptc atLeastOnce fuel inp).path ∨
      (simplify R ptc atLeastOnce fuel inp).valid = false := by
  cases hv : (simplify R ptc atLeastOnce fuel inp).valid with
  | true => exact Or.inl (simplify_schedule_preserves hR ptc atLeastOnce fuel inp hv)
  | false => exact Or.inr rfl

/-- `valid = false` at the end only if `checkAndRepair` answered `result = false` somewhere (so with a
`checkAndRepair` that never fails, `simplify_schedule_preserves` applies to every run) -/
theorem simplify_schedule_invalid_witness (R : Routines σ) (ptc : Nat → Bool) (atLeastOnce : Bool)
    (fuel : Nat) (inp : List σ) (hv : (simplify R ptc atLeastOnce fuel inp).valid = false) :
    ∃ k l, (R.checkAndRepair k l).2.2 = false := by
  have hC : Closed R (fun _ v => v = false → ∃ k l, (R.checkAndRepair k l).2.2 = false) :=
    { partialShortcut := fun _ _ _ h => h
      findBetterGoal := fun _ _ _ h => h
      smoothBSpline := fun _ _ _ h => h
      checkAndRepair_ok := fun _ _ _ _ h => h
      checkAndRepair_failed := fun k l _ hr _ _ => ⟨k, l, hr⟩
      reduceVertices := fun _ _ _ h => h
      collapseClose := fun _ _ _ h => h }
  exact simplify_induction hC ptc atLeastOnce fuel inp (fun h => Bool.noConfusion h) hv

/-- whatever all routines keep unconditionally the schedule keeps, `valid` or not -/
theorem simplify_schedule_keeps {β : Type} {f : List σ → β} {R : Routines σ} (hR : RoutinesKeep f R)
    (ptc : Nat → Bool) (atLeastOnce : Bool) (fuel : Nat) (inp : List σ) :
    f (simplify R ptc atLeastOnce fuel inp).path = f inp := by
  have hC : Closed R (fun l _ => f l = f inp) :=
    { partialShortcut := fun k l _ h => (hR.partialShortcut k l).trans h
      findBetterGoal := fun k l _ h => (hR.findBetterGoal k l).trans h
      smoothBSpline := fun k l _ h => (hR.smoothBSpline k l).trans h
      checkAndRepair_ok := fun k l _ _ h => (hR.checkAndRepair k l).trans h
      checkAndRepair_failed := fun k l _ _ h => (hR.checkAndRepair k l).trans h
      reduceVertices := fun k l _ h => (hR.reduceVertices k l).trans h
      collapseClose := fun k l _ h => (hR.collapseClose k l).trans h }
  exact simplify_induction hC ptc atLeastOnce fuel inp rfl

/-- the first state is kept in ANY case (valid or not) if every routine keeps it unconditionally -/
theorem simplify_schedule_head {R : Routines σ} (hR : RoutinesKeep List.head? R)
    (ptc : Nat → Bool) (atLeastOnce : Bool) (fuel : Nat) (inp : List σ) :
    (simplify R ptc atLeastOnce fuel inp).path.head? = inp.head? :=
  simplify_schedule_keeps hR ptc atLeastOnce fuel inp

/-- the last state is kept in any case if every routine keeps it (so: without a goal sampler) -/
theorem simplify_schedule_last {R : Routines σ} (hR : RoutinesKeep List.getLast? R)
    (ptc : Nat → Bool) (atLeastOnce : Bool) (fuel : Nat) (inp : List σ) :
    (simplify R ptc atLeastOnce fuel inp).path.getLast? = inp.getLast? :=
  simplify_schedule_keeps hR ptc atLeastOnce fuel inp

/-- corollary for `simplifyMax` -/
theorem simplifyMax_schedule_preserves {cm : σ → σ → Bool} {cut : σ → σ → σ → Prop} {isGoal : σ → Prop}
    {R : Routines σ} (hR : RoutinesPreserve cm cut isGoal R) (fuel : Nat) (inp : List σ)
    (hvalid : (simplifyMax R fuel inp).valid = true) :
    Preserves cm cut isGoal inp (simplifyMax R fuel inp).path :=
  simplify_schedule_preserves hR _ true fuel inp hvalid

theorem simplifyMax_schedule_head {R : Routines σ} (hR : RoutinesKeep List.head? R) (fuel : Nat) (inp : List σ) :
    (simplifyMax R fuel inp).path.head? = inp.head? :=
  simplify_schedule_head hR _ true fuel inp

/-! ## the return value -/

/-- `true` for fewer than 3 states, `path.check()` of the FINAL path otherwise (`valid` plays no role) -/
theorem simplify_schedule_return (R : Routines σ) (ptc : Nat → Bool) (atLeastOnce : Bool) (fuel : Nat)
    (inp : List σ) :
    (simplify R ptc atLeastOnce fuel inp).ret =
      simplifyReturn R.check inp (simplify R ptc atLeastOnce fuel inp).path := by
  unfold simplify simplifyReturn
  split <;> rfl

theorem simplify_schedule_return_short (R : Routines σ) (ptc : Nat → Bool) (atLeastOnce : Bool) (fuel : Nat)
    (inp : List σ) (h : inp.length < 3) :
    simplify R ptc atLeastOnce fuel inp =
      { path := inp, ret := true, valid := true, evals := 0, calls := 0, outOfFuel := false } := by
  unfold simplify
  rw [if_pos h]

theorem simplify_schedule_return_check (R : Routines σ) (ptc : Nat → Bool) (atLeastOnce : Bool) (fuel : Nat)
    (inp : List σ) (h : ¬ inp.length < 3) :
    (simplify R ptc atLeastOnce fuel inp).ret = R.check (simplify R ptc atLeastOnce fuel inp).path := by
  rw [simplify_schedule_return, simplifyReturn, if_neg h]

/-! ## termination condition -/

/-- a condition that has fired before the call, without `atLeastOnce`: one evaluation, no routine is
called, the path is untouched (and the answer is `check` of the INPUT path, for ≥ 3 states) -/
theorem simplify_schedule_ptc_fired (R : Routines σ) (ptc : Nat → Bool) (h0 : ptc 0 = true) (fuel : Nat)
    (inp : List σ) :
    simplify R ptc false fuel inp =
      { path := inp, ret := simplifyReturn R.check inp inp, valid := true,
        evals := if inp.length < 3 then 0 else 1, calls := 0, outOfFuel := false } := by
  unfold simplify simplifyReturn
  split
  · rfl
  · cases fuel <;> simp [outerLoop, SchedSt.test, SchedSt.tick, h0]

theorem simplify_schedule_ptc_true (R : Routines σ) (fuel : Nat) (inp : List σ) :
    (simplify R (fun _ => true) false fuel inp).path = inp ∧
    (simplify R (fun _ => true) false fuel inp).calls = 0 := by
  rw [simplify_schedule_ptc_fired R _ rfl]
  exact ⟨rfl, rfl⟩

/-! ### the counters -/

section Counters
variable (R : Routines σ) (ptc : Nat → Bool)

@[simp] theorem tick_evals (s : SchedSt σ) : s.tick.evals = s.evals + 1 := rfl
@[simp] theorem called_evals (s : SchedSt σ) (p : List σ) : (s.called p).evals = s.evals := rfl
@[simp] theorem doShortcut_evals (s : SchedSt σ) : (doShortcut R s).1.evals = s.evals := rfl
@[simp] theorem doGoal_evals (s : SchedSt σ) : (doGoal R s).1.evals = s.evals := by
  unfold doGoal; split <;> rfl
@[simp] theorem doSmooth_evals (s : SchedSt σ) : (doSmooth R s).evals = s.evals := rfl
@[simp] theorem doRepair_evals (s : SchedSt σ) : (doRepair R s).evals = s.evals := rfl
@[simp] theorem doReduce_evals (s : SchedSt σ) : (doReduce R s).evals = s.evals := rfl
@[simp] theorem doCollapse_evals (s : SchedSt σ) : (doCollapse R s).evals = s.evals := rfl

theorem metricLoop_evals_le (alo : Bool) (left : Nat) (s : SchedSt σ) :
    s.evals ≤ (metricLoop R ptc alo left s).evals := by
  induction left generalizing s with
  | zero =>
    unfold metricLoop
    simp only []
    split <;> simp
  | succ n ih =>
    unfold metricLoop
    simp only []
    split
    · split
      · have := ih (doGoal R (doShortcut R s).1).1.tick
        simp at this
        omega
      · simp
    · simp

theorem metricBlock_evals_le (alo : Bool) (s : SchedSt σ) : s.evals ≤ (metricBlock R ptc alo s).evals := by
  unfold metricBlock
  have h1 := metricLoop_evals_le R ptc alo 5 s
  simp only []
  split <;> split <;> simp <;> omega

theorem reduceLoop_evals_le (alo : Bool) (left : Nat) (s : SchedSt σ) :
    s.evals ≤ (reduceLoop R ptc alo left s).evals := by
  induction left generalizing s with
  | zero =>
    unfold reduceLoop
    simp only []
    split <;> simp
  | succ n ih =>
    unfold reduceLoop
    simp only []
    split
    · have := ih (doReduce R s.tick)
      simp at this
      omega
    · simp

theorem iteration_evals_le (alo : Bool) (s : SchedSt σ) : s.evals ≤ (iteration R ptc alo s).evals := by
  unfold iteration
  simp only []
  have step : ∀ (c : Bool) (f : SchedSt σ → SchedSt σ), (∀ t : SchedSt σ, t.evals ≤ (f t).evals) →
      ∀ t : SchedSt σ, t.evals ≤ (if c = true then f t.tick else t.tick).evals := by
    intro c f hf t
    split
    · have := hf t.tick
      simp at this
      omega
    · simp
  refine Nat.le_trans ?_ (step _ (doRepair R) (fun _ => by simp) _)
  refine Nat.le_trans ?_ (reduceLoop_evals_le R ptc alo 5 _)
  refine Nat.le_trans ?_ (step _ (doCollapse R) (fun _ => by simp) _)
  refine Nat.le_trans ?_ (step _ (doReduce R) (fun _ => by simp) _)
  exact step _ (metricBlock R ptc alo) (metricBlock_evals_le R ptc alo) s

/-- without `atLeastOnce` the loop condition fails from evaluation `K` on, and every iteration
evaluates `ptc` at least once -/
theorem outerLoop_terminates (K : Nat) (hK : ∀ k, K ≤ k → ptc k = true) (fuel : Nat) (s : SchedSt σ)
    (h : K ≤ s.evals + fuel) : (outerLoop R ptc fuel false s).2 = false := by
  induction fuel generalizing s with
  | zero =>
    unfold outerLoop
    simp only []
    split
    · rename_i hc
      have := hK s.evals (by omega)
      simp [SchedSt.test, this] at hc
    · rfl
  | succ n ih =>
    unfold outerLoop
    simp only []
    split
    · apply ih
      have := iteration_evals_le R ptc false s.tick
      simp at this
      omega
    · rfl

/-- **Termination under a firing condition**: if `ptc` answers `true` from its `K`-th evaluation on,
the outer loop ends by itself within `K + 1` iterations (within `K` without `atLeastOnce`) -/
theorem simplify_schedule_terminates_ptc (K : Nat) (hK : ∀ k, K ≤ k → ptc k = true) (atLeastOnce : Bool)
    (fuel : Nat) (hf : K < fuel) (inp : List σ) :
    (simplify R ptc atLeastOnce fuel inp).outOfFuel = false := by
  unfold simplify
  split
  · rfl
  · show (outerLoop R ptc fuel atLeastOnce _).2 = false
    cases atLeastOnce with
    | false => exact outerLoop_terminates R ptc K hK fuel _ (by simp only []; omega)
    | true =>
      obtain ⟨n, rfl⟩ : ∃ n, fuel = n + 1 := ⟨fuel - 1, by omega⟩
      unfold outerLoop
      simp only []
      split
      · exact outerLoop_terminates R ptc K hK n _ (by omega)
      · rfl

/-! ### at most two routine calls per evaluation of `ptc` -/

/-- `b` more calls are paid for: `calls + b ≤ 2 * f evals`, where `f` grows with every evaluation
that lets the schedule go on -/
def SchedSt.Budget (f : Nat → Nat) (b : Nat) (s : SchedSt σ) : Prop := s.calls + b ≤ 2 * f s.evals

variable {R ptc} {f : Nat → Nat} {alo : Bool}

/-- `f` never decreases and grows by one at every evaluation where `(ptc == false || atLeastOnce)` -/
structure Pays (ptc : Nat → Bool) (alo : Bool) (f : Nat → Nat) : Prop where
  mono : ∀ e, f e ≤ f (e + 1)
  step : ∀ e, (!ptc e || alo) = true → f e + 1 ≤ f (e + 1)

theorem Pays.toFalse (hf : Pays ptc alo f) : Pays ptc false f :=
  ⟨hf.mono, fun e h => hf.step e (by cases alo <;> simp_all)⟩

theorem budget_tick (hf : Pays ptc alo f) {b : Nat} {s : SchedSt σ} (h : s.Budget f b) : s.tick.Budget f b := by
  have := hf.mono s.evals
  simp only [SchedSt.Budget, SchedSt.tick] at *
  omega

theorem budget_tick_true (hf : Pays ptc alo f) {s : SchedSt σ} (h : s.Budget f 0)
    (hg : s.test ptc alo = true) : s.tick.Budget f 2 := by
  have := hf.step s.evals hg
  simp only [SchedSt.Budget, SchedSt.tick] at *
  omega

theorem budget_weaken {b c : Nat} {s : SchedSt σ} (h : s.Budget f b) (hc : c ≤ b) : s.Budget f c := by
  simp only [SchedSt.Budget] at *
  omega

theorem budget_called {b : Nat} {s : SchedSt σ} (h : s.Budget f (b + 1)) (p : List σ) : (s.called p).Budget f b := by
  simp only [SchedSt.Budget, SchedSt.called] at *
  omega

theorem budget_doGoal {b : Nat} {s : SchedSt σ} (h : s.Budget f (b + 1)) : (doGoal R s).1.Budget f b := by
  unfold doGoal
  split
  · exact budget_called h _
  · exact budget_weaken h (by omega)

theorem budget_doRepair {b : Nat} {s : SchedSt σ} (h : s.Budget f (b + 1)) : (doRepair R s).Budget f b :=
  budget_called h (R.checkAndRepair s.calls s.path).1

theorem budget_doReduce {b : Nat} {s : SchedSt σ} (h : s.Budget f (b + 1)) : (doReduce R s).Budget f b :=
  budget_called h (R.reduceVertices s.calls s.path).1

theorem budget_metricLoop (hf : Pays ptc alo f) (left : Nat) {s : SchedSt σ} (h : s.Budget f 2) :
    (metricLoop R ptc alo left s).Budget f 0 := by
  induction left generalizing s with
  | zero =>
    unfold metricLoop
    have h1 : (doGoal R (doShortcut R s).1).1.Budget f 0 := budget_doGoal (budget_called h _)
    simp only []
    split <;> exact budget_tick hf h1
  | succ n ih =>
    unfold metricLoop
    have h1 : (doGoal R (doShortcut R s).1).1.Budget f 0 := budget_doGoal (budget_called h _)
    simp only []
    split
    · rename_i hg
      split
      · exact ih (budget_tick_true hf h1 hg)
      · exact budget_tick hf h1
    · exact budget_tick hf h1

/-- `if (test [&& …]) g`: a test that lets `g` run pays for two calls -/
theorem budget_guarded (hf : Pays ptc alo f) (c : Bool) (g : SchedSt σ → SchedSt σ) (t : SchedSt σ)
    (ht : t.Budget f 0) (hc : c = true → t.test ptc alo = true)
    (hg : ∀ u : SchedSt σ, u.Budget f 2 → (g u).Budget f 0) :
    (if c = true then g t.tick else t.tick).Budget f 0 := by
  split
  · rename_i hcc
    exact hg _ (budget_tick_true hf ht (hc hcc))
  · exact budget_tick hf ht

theorem budget_metricBlock (hf : Pays ptc alo f) {s : SchedSt σ} (h : s.Budget f 2) :
    (metricBlock R ptc alo s).Budget f 0 := by
  unfold metricBlock
  simp only []
  refine budget_guarded hf _ (doRepair R) _ ?_ id (fun u hu => budget_weaken (budget_doRepair hu) (by omega))
  refine budget_guarded hf _ (doSmooth R) _ ?_ id (fun u hu => budget_weaken (budget_called hu _) (by omega))
  exact budget_metricLoop hf 5 h

theorem budget_reduceLoop (hf : Pays ptc alo f) (left : Nat) {s : SchedSt σ} (h : s.Budget f 0) :
    (reduceLoop R ptc alo left s).Budget f 0 := by
  induction left generalizing s with
  | zero =>
    unfold reduceLoop
    simp only []
    split <;> exact budget_tick hf h
  | succ n ih =>
    unfold reduceLoop
    simp only []
    split
    · rename_i hc
      have hg : s.test ptc alo = true := by
        simp only [Bool.and_eq_true] at hc; exact hc.1
      exact ih (budget_weaken (budget_doReduce (budget_tick_true hf h hg)) (by omega))
    · exact budget_tick hf h

theorem budget_iteration (hf : Pays ptc alo f) {s : SchedSt σ} (h : s.Budget f 0) :
    (iteration R ptc alo s).Budget f 0 := by
  unfold iteration
  simp only []
  have step := fun c g t ht => budget_guarded (σ := σ) hf c g t ht
  have and_left : ∀ a b : Bool, (a && b) = true → a = true := by
    intro a b; cases a <;> simp
  refine step _ (doRepair R) _ ?_ (and_left _ _) (fun u hu => budget_weaken (budget_doRepair hu) (by omega))
  refine budget_reduceLoop (R := R) hf 5 ?_
  refine step _ (doCollapse R) _ ?_ id (fun u hu => budget_weaken (budget_called hu _) (by omega))
  refine step _ (doReduce R) _ ?_ id (fun u hu => budget_weaken (budget_doReduce hu) (by omega))
  exact step _ (metricBlock R ptc alo) s h (and_left _ _) (fun u hu => budget_metricBlock hf hu)

theorem budget_outerLoop (hf : Pays ptc alo f) (fuel : Nat) {s : SchedSt σ} (h : s.Budget f 0) :
    (outerLoop R ptc fuel alo s).1.Budget f 0 := by
  induction fuel generalizing s alo with
  | zero =>
    unfold outerLoop
    simp only []
    split <;> exact budget_tick hf h
  | succ n ih =>
    unfold outerLoop
    simp only []
    split
    · exact ih hf.toFalse (budget_iteration hf (budget_tick hf h))
    · exact budget_tick hf h

theorem simplify_budget (hf : Pays ptc alo f) (fuel : Nat) (inp : List σ) :
    (simplify R ptc alo fuel inp).calls ≤ 2 * f (simplify R ptc alo fuel inp).evals := by
  unfold simplify
  split
  · exact Nat.zero_le _
  · exact budget_outerLoop (R := R) hf fuel (s := ⟨inp, true, true, 0, 0⟩) (Nat.zero_le _)

end Counters

/-- every routine call is paid for by an evaluation of `ptc`, two calls at most per evaluation (the
body of the `do … while`: `partialShortcutPath` and `findBetterGoal` back to back) -/
theorem simplify_schedule_calls_le (R : Routines σ) (ptc : Nat → Bool) (atLeastOnce : Bool) (fuel : Nat)
    (inp : List σ) :
    (simplify R ptc atLeastOnce fuel inp).calls ≤ 2 * (simplify R ptc atLeastOnce fuel inp).evals :=
  simplify_budget (f := id) ⟨fun _ => Nat.le_succ _, fun _ _ => Nat.le_refl _⟩ fuel inp

/-- if `ptc` answers `true` from its `K`-th evaluation on, a run without `atLeastOnce` makes at most
`2 * K` routine calls (whatever the fuel) -/
theorem simplify_schedule_calls_le_ptc (R : Routines σ) (ptc : Nat → Bool) (K : Nat)
    (hK : ∀ k, K ≤ k → ptc k = true) (fuel : Nat) (inp : List σ) :
    (simplify R ptc false fuel inp).calls ≤ 2 * K := by
  have hf : Pays ptc false (fun e => min e K) := by
    refine ⟨fun e => by omega, fun e he => ?_⟩
    have : e < K := by
      rcases Nat.lt_or_ge e K with h | h
      · exact h
      · simp [hK e h] at he
    omega
  have := simplify_budget (R := R) hf fuel inp
  omega

/-! ## non-vacuity: a toy instance over `Nat` -/

namespace ScheduleToy

/-- removes the second state -/
def dropSecond : List Nat → List Nat × Bool
  | a :: _ :: c :: r => (a :: c :: r, true)
  | l => (l, false)

/-- `partialShortcutPath` reports a change on the very first call of the run only (call-indexed);
`reduceVertices` removes the second state while there are ≥ 3 -/
def toy : Routines Nat where
  partialShortcut := fun k l => (l, k == 0)
  findBetterGoal := fun _ l => (l, false)
  smoothBSpline := fun _ l => l
  checkAndRepair := fun _ l => (l, true, true)
  reduceVertices := fun _ l => dropSecond l
  collapseClose := fun _ l => (l, false)
  check := fun l => l.length == 2
  hasGoal := true
  metric := true

/-- 14 evaluations, 12 calls: shortcut, goal, shortcut, goal (second round: nothing changed), smooth,
repair, reduce, collapse, 3 × reduce (the last one answers `false`), repair -/
example : simplifyMax toy 10 [0, 1, 2, 3, 4] =
    { path := [0, 4], ret := true, valid := true, evals := 14, calls := 12, outOfFuel := false } := by decide

/-- the condition fires at its 8th evaluation (index 7), in the middle of the first iteration:
the rest of the iteration is skipped test by test and `check` decides (`[0,2,3,4]` has 4 states) -/
example : simplify toy (fun k => decide (7 ≤ k)) false 10 [0, 1, 2, 3, 4] =
    { path := [0, 2, 3, 4], ret := false, valid := true, evals := 11, calls := 7, outOfFuel := false } := by decide

/-- `atLeastOnce` overrides a condition that has fired: one full iteration, then stop -/
example : simplify toy (fun _ => true) true 10 [0, 1, 2, 3, 4] =
    { path := [0, 4], ret := true, valid := true, evals := 14, calls := 12, outOfFuel := false } := by decide

example : simplify toy (fun _ => true) false 10 [0, 1, 2, 3, 4] =
    { path := [0, 1, 2, 3, 4], ret := false, valid := true, evals := 1, calls := 0, outOfFuel := false } := by decide

/-- fewer than 3 states: `true` without a look at `check` (which says `false` for one state) -/
example : simplifyMax toy 10 [5] =
    { path := [5], ret := true, valid := true, evals := 0, calls := 0, outOfFuel := false } := by decide

/-- non-metric space: no shortcut / smoothing / repair -/
example : simplifyMax { toy with metric := false } 10 [0, 1, 2, 3, 4] =
    { path := [0, 4], ret := true, valid := true, evals := 10, calls := 5, outOfFuel := false } := by decide

/-- a `reduceVertices` that always answers `true` under a condition that never fires: the loop does not
end; the model reports that it was cut off -/
example : (simplifyMax { toy with reduceVertices := fun _ l => (l, true) } 3 [0, 1, 2]).outOfFuel = true := by decide

/-- all motions valid: the toy routines satisfy the hypothesis of the composition theorem … -/
theorem toy_preserves : RoutinesPreserve (fun _ _ => true) (fun _ _ _ => False) (fun _ => False) toy := by
  have hrefl := Preserves.refl (fun (_ _ : Nat) => true) (fun _ _ _ => False) (fun _ => False)
  refine ⟨fun _ l => hrefl l, fun _ l => hrefl l, fun _ l => hrefl l, fun _ l _ => hrefl l, ?_, fun _ l => hrefl l⟩
  intro _ l
  refine ⟨?_, Or.inl ?_, fun p _ => Deriv.validated rfl⟩
  · match l with
    | [] | [_] | [_, _] | _ :: _ :: _ :: _ => rfl
  · match l with
    | [] | [_] | [_, _] => rfl
    | _ :: _ :: _ :: _ => simp [toy, dropSecond]

/-- … and its conclusion is not trivial on them -/
example : Preserves (fun _ _ => true) (fun _ _ _ => False) (fun _ => False) [0, 1, 2, 3, 4]
    (simplifyMax toy 10 [0, 1, 2, 3, 4]).path :=
  simplifyMax_schedule_preserves toy_preserves 10 _ (by decide)

/-- a `checkAndRepair` that fails and leaves garbage behind at call index 2 (without a goal sampler the
run starts shortcut = call 0, smooth = call 1, repair = call 2): `RoutinesPreserve` holds (nothing is
asked of a failed repair), the schedule goes on, the run ends with `valid = false` and the first
state is NOT kept — the hypothesis `valid = true` of `simplify_schedule_preserves` cannot be dropped -/
def toyBad : Routines Nat :=
  { toy with
    hasGoal := false
    partialShortcut := fun _ l => (l, false)
    checkAndRepair := fun k l => if k == 2 then ([7, 7, 7], false, false) else (l, true, true) }

theorem toyBad_preserves : RoutinesPreserve (fun _ _ => true) (fun _ _ _ => False) (fun _ => False) toyBad := by
  refine { toy_preserves with checkAndRepair := ?_, partialShortcut := fun _ l => Preserves.refl _ _ _ l }
  intro k l h
  by_cases hk : k = 2
  · subst hk; simp [toyBad] at h
  · have : (toyBad.checkAndRepair k l).1 = l := by simp [toyBad, hk]
    rw [this]; exact Preserves.refl _ _ _ l

example : (simplifyMax toyBad 10 [0, 1, 2, 3, 4]).valid = false ∧
    (simplifyMax toyBad 10 [0, 1, 2, 3, 4]).path.head? ≠ [0, 1, 2, 3, 4].head? := by decide

example : ¬ Preserves (fun _ _ => true) (fun _ _ _ => False) (fun _ => False) [0, 1, 2, 3, 4]
    (simplifyMax toyBad 10 [0, 1, 2, 3, 4]).path :=
  fun h => absurd h.1 (by decide)

/-- the counter bounds on the toy: `calls ≤ 2 * evals` is 12 ≤ 28 in the first example; with the
condition `true` from evaluation 2 on (`K = 2`) only the first `do` body runs: 2 calls ≤ 2 * 2, and the
loop ends by itself with `fuel = 3 > K` -/
example : (simplify toy (fun k => decide (2 ≤ k)) false 3 [0, 1, 2, 3, 4]).calls = 2 ∧
    (simplify toy (fun k => decide (2 ≤ k)) false 3 [0, 1, 2, 3, 4]).outOfFuel = false := by decide

end ScheduleToy

end OmplModel.PathOps
