import OmplModel.Proofs.SpaceInterpExamples
import OmplModel.Proofs.SpaceInterpCompoundGeo
import OmplModel.Proofs.SpaceInterpSeamFree
import OmplModel.Proofs.SpaceInterpMobiusSeam
/-!
C07: side conditions of the non-vacuity examples for the SO(3) geodesic theorems and the seam-free
Mobius/Klein re-parameterisation (orthogonal unit quaternions: dq = 0, θ = π/2; the parameters are
chosen so that the angle in the hypothesis is π/3, `cos = 1/2`).
-/
open scoped OmplModel.SpaceInterp.RealNum
attribute [-instance] OmplModel.Num.instOfNat

namespace OmplModel.SpaceInterp.Ex
open OmplModel OmplModel.Space OmplModel.SpaceInterp Real RealNum

theorem orth_dot : quatDot (0 : ℝ) 0 0 1 1 0 0 0 = 0 := by rw [quatDot_eq]; norm_num

theorem orth_dot_le : |quatDot (0 : ℝ) 0 0 1 1 0 0 0| ≤ 1 - 1 / 10 ^ 9 := by
  rw [orth_dot]; norm_num

/-- `cos((1 - 1/3) * arccos |0|) = cos(π/3) = 1/2` -/
theorem orth_leg : Real.cos ((1 - 1 / 3) * Real.arccos |quatDot (0 : ℝ) 0 0 1 1 0 0 0|)
    ≤ 1 - 1 / 10 ^ 9 := by
  rw [orth_dot, abs_zero, Real.arccos_zero,
    show (1 - 1 / 3 : ℝ) * (π / 2) = π / 3 by ring, Real.cos_pi_div_three]
  norm_num

theorem orth_band : Real.cos (2 / 3 * Real.arccos |quatDot (0 : ℝ) 0 0 1 1 0 0 0|)
    ≤ 1 - 1 / 10 ^ 9 := by
  rw [orth_dot, abs_zero, Real.arccos_zero,
    show (2 / 3 : ℝ) * (π / 2) = π / 3 by ring, Real.cos_pi_div_three]
  norm_num

theorem se3_geo : geodesic true se3 = true ∧ reparamOk3 se3 = true := by
  simp [se3, geodesic, reparamOk3]

theorem se3_reparamOk : so3ReparamOk se3 se3A se3B (1 / 3) := by
  simp only [se3, se3A, se3B, so3ReparamOk, true_and, and_true]
  exact fun _ => orth_leg

theorem se3_outsideBand : so3OutsideBand se3 se3A se3B (2 / 3) := by
  simp only [se3, se3A, se3B, so3OutsideBand, true_and, and_true]
  exact fun _ => orth_band

/-- a nested compound with SO(3) inside: [SE(3), wrapped SE(2)] with weights 2 and 1/2 -/
noncomputable def nested3 : Space ℝ := .ccons 2 se3 (.ccons (1 / 2) (.wrap se2) .cnil)
noncomputable def nested3A : St ℝ := .ccons se3A (.ccons se2A .cnil)
noncomputable def nested3B : St ℝ := .ccons se3B (.ccons se2B .cnil)

theorem nested3_geo : geodesic true nested3 = true ∧ reparamOk3 nested3 = true := by
  simp [nested3, geodesic, reparamOk3, se3, se2]
theorem nested3A_wt : wellTyped nested3 nested3A = true := by
  simp [nested3, nested3A, wellTyped, se3A_wt, se2A_wt]
theorem nested3B_wt : wellTyped nested3 nested3B = true := by
  simp [nested3, nested3B, wellTyped, se3B_wt, se2B_wt]
theorem nested3A_inB : inBounds nested3 nested3A = true := by
  simp [nested3, nested3A, inBounds, se3A_inB, se2A_inB]
theorem nested3B_inB : inBounds nested3 nested3B = true := by
  simp [nested3, nested3B, inBounds, se3B_inB, se2B_inB]
theorem nested3A_unit : unitQuats nested3 nested3A := by
  simp [nested3, nested3A, unitQuats, se3A_unit, se2, se2A]
theorem nested3B_unit : unitQuats nested3 nested3B := by
  simp [nested3, nested3B, unitQuats, se3B_unit, se2, se2B]
theorem nested3_reparamOk : so3ReparamOk nested3 nested3A nested3B (1 / 3) := by
  simp only [nested3, nested3A, nested3B, so3ReparamOk]
  refine ⟨se3_reparamOk, ?_, trivial⟩
  simp [se2, se2A, se2B, so3ReparamOk]
theorem nested3_outsideBand : so3OutsideBand nested3 nested3A nested3B (2 / 3) := by
  simp only [nested3, nested3A, nested3B, so3OutsideBand]
  refine ⟨se3_outsideBand, ?_, trivial⟩
  simp [se2, se2A, se2B, so3OutsideBand]

/-- 0 and 1 are SO(2) values in bounds -/
theorem one_inB : so2InB (1 : ℝ) = true := by
  rw [so2InB_iff]; constructor <;> linarith [pi_gt_three]

/-- the pair 3, -3 is across the Mobius seam: `|Δu| = 6 > π` -/
theorem three_seam : ¬ |(-3 : ℝ) - 3| ≤ π := by
  rw [show ((-3 : ℝ) - 3) = -6 by norm_num, abs_neg, abs_of_pos (by norm_num : (0 : ℝ) < 6)]
  linarith [pi_lt_four]

/-- a compound with a Mobius strip (states across its seam) and SE(3): weights 1, 2 -/
noncomputable def mobSp : Space ℝ := .ccons 1 (.mobius 1 2) (.ccons 2 se3 .cnil)
noncomputable def mobA : St ℝ :=
  .ccons (.ccons (.so2 3) (.ccons (.rv [1]) .cnil)) (.ccons se3A .cnil)
noncomputable def mobB : St ℝ :=
  .ccons (.ccons (.so2 (-3)) (.ccons (.rv [-1]) .cnil)) (.ccons se3B .cnil)

theorem mobSp_ok : reparamOk4 mobSp = true := by simp [mobSp, reparamOk4, se3]
theorem mobA_wt : wellTyped mobSp mobA = true := by simp [mobSp, mobA, wellTyped, se3A_wt]
theorem mobB_wt : wellTyped mobSp mobB = true := by simp [mobSp, mobB, wellTyped, se3B_wt]
theorem mobA_inB : inBounds mobSp mobA = true := by
  simp only [mobSp, mobA, inBounds, rvInB, three_inB.1, se3A_inB, dblEps_eq]; norm_num
theorem mobB_inB : inBounds mobSp mobB = true := by
  simp only [mobSp, mobB, inBounds, rvInB, three_inB.2, se3B_inB, dblEps_eq]; norm_num
theorem mobB_unit : unitQuats mobSp mobB := by
  simp only [mobSp, mobB, unitQuats]; exact ⟨trivial, se3B_unit, trivial⟩
theorem mob_reparamOk : so3ReparamOk mobSp mobA mobB (1 / 3) := by
  simp only [mobSp, mobA, mobB, so3ReparamOk]; exact ⟨trivial, se3_reparamOk, trivial⟩

end OmplModel.SpaceInterp.Ex
