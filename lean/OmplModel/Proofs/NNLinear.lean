import OmplModel.Model.NN
import Mathlib.Order.Defs.LinearOrder
/-!
Linear and SqrtApprox: the answers equal exhaustive search, and size/list refine the abstract
multiset for every operation sequence.  Only order axioms of `D` are used (`LinearOrder D`).
-/
namespace OmplModel.NN

variable {α D : Type}

/-! ### the specification predicates -/

/-- non-decreasing in `f` -/
def SortedBy [LE D] (f : α → D) (r : List α) : Prop := r.Pairwise (fun a b => f a ≤ f b)

/-- `r` is a k-nearest answer over the multiset `live`: sorted, of length `min k |live|`, a
sub-multiset of `live` (so never an absent element, never one more often than it is held), and
nothing left out is closer than anything returned. -/
def IsKNearest [LE D] (f : α → D) (k : Nat) (live r : List α) : Prop :=
  SortedBy f r ∧ r.length = min k live.length ∧
    ∃ rest, (r ++ rest).Perm live ∧ ∀ x ∈ r, ∀ y ∈ rest, f x ≤ f y

/-- `r` is a radius answer: sorted, and exactly (as a multiset) the elements within `rad`. -/
def IsRNearest [LE D] [DecidableLE D] (f : α → D) (rad : D) (live r : List α) : Prop :=
  SortedBy f r ∧ r.Perm (live.filter (fun x => decide (f x ≤ rad)))

section Order
variable [LinearOrder D]

theorem leBy_trans (f : α → D) (a b c : α) : leBy f a b = true → leBy f b c = true → leBy f a c = true := by
  simp only [leBy, decide_eq_true_eq]; exact le_trans

theorem leBy_total (f : α → D) (a b : α) : (leBy f a b || leBy f b a) = true := by
  simp only [leBy, Bool.or_eq_true, decide_eq_true_eq]; exact le_total _ _

theorem sortedBy_mergeSort (f : α → D) (l : List α) : SortedBy f (l.mergeSort (leBy f)) := by
  have h := List.pairwise_mergeSort (le := leBy f) (leBy_trans f) (leBy_total f) l
  exact h.imp (fun h => by simpa [leBy] using h)

theorem bruteK_spec (f : α → D) (k : Nat) (live : List α) : IsKNearest f k live (bruteK f k live) := by
  unfold bruteK
  have hs := sortedBy_mergeSort f live
  have hp := List.mergeSort_perm live (leBy f)
  refine ⟨hs.sublist (List.take_sublist _ _), ?_, (live.mergeSort (leBy f)).drop k, ?_, ?_⟩
  · rw [List.length_take, hp.length_eq]
  · rw [List.take_append_drop]; exact hp
  · intro x hx y hy
    have h2 : SortedBy f ((live.mergeSort (leBy f)).take k ++ (live.mergeSort (leBy f)).drop k) := by
      rw [List.take_append_drop]; exact hs
    exact (List.pairwise_append.mp h2).2.2 x hx y hy

theorem bruteR_spec (f : α → D) (rad : D) (live : List α) : IsRNearest f rad live (bruteR f rad live) :=
  ⟨sortedBy_mergeSort f _, List.mergeSort_perm _ _⟩

/-- the distance list of a k-nearest answer is determined by the multiset: it is the sorted
distance list of the whole multiset cut at `k` (what the Python oracle computes). -/
theorem bruteK_dists (f : α → D) (k : Nat) (live : List α) :
    (bruteK f k live).map f = ((live.map f).mergeSort (fun a b => decide (a ≤ b))).take k := by
  unfold bruteK
  rw [List.map_take]
  congr 1
  exact List.map_mergeSort (fun a _ b _ => rfl)

/-! ### `nearest`: the first-minimum scan -/

def ScanInv (f : α → D) (best : Option (α × D)) (seen : List α) : Prop :=
  match best with
  | none => seen = []
  | some (b, d) => b ∈ seen ∧ d = f b ∧ ∀ y ∈ seen, d ≤ f y

theorem scanStep_inv (f : α → D) (best : Option (α × D)) (seen : List α) (x : α) (h : ScanInv f best seen) :
    ScanInv f (scanStep best x (f x)) (seen ++ [x]) := by
  unfold scanStep
  cases best with
  | none =>
    simp only [ScanInv] at h ⊢
    subst h
    simp
  | some bd =>
    obtain ⟨b, d⟩ := bd
    simp only [ScanInv] at h
    obtain ⟨hb, hd, hall⟩ := h
    by_cases hlt : d > f x
    · simp only [hlt, if_true, ScanInv]
      refine ⟨by simp, by trivial, ?_⟩
      intro y hy
      rcases List.mem_append.mp hy with hy | hy
      · exact le_trans (le_of_lt hlt) (hall y hy)
      · simp at hy; subst hy; exact le_refl _
    · simp only [hlt, if_false, ScanInv]
      refine ⟨by simp [hb], hd, ?_⟩
      intro y hy
      rcases List.mem_append.mp hy with hy | hy
      · exact hall y hy
      · simp at hy; subst hy; exact not_lt.mp hlt

theorem scan_foldl_inv (f : α → D) (data : List α) :
    ∀ (best : Option (α × D)) (seen : List α), ScanInv f best seen →
      ScanInv f (data.foldl (fun best x => scanStep best x (f x)) best) (seen ++ data) := by
  induction data with
  | nil => intro best seen h; simpa using h
  | cons x xs ih =>
    intro best seen h
    have := ih _ _ (scanStep_inv f best seen x h)
    simpa [List.foldl_cons, List.append_assoc] using this

theorem linNearest_spec (dist : α → α → D) (q : α) (data : List α) :
    ScanInv (fun x => dist x q) (linNearest dist q data) data := by
  have := scan_foldl_inv (fun x => dist x q) data none [] rfl
  simpa [linNearest] using this

end Order

/-! ### contents: refinement to the abstract multiset -/

section Contents
variable [BEq α] [LawfulBEq α]

theorem removeLast_some (x : α) : ∀ (l l' : List α), removeLast x l = some l' → l.Perm (x :: l')
  | [], l', h => by simp [removeLast] at h
  | y :: ys, l', h => by
    unfold removeLast at h
    cases hr : removeLast x ys with
    | some ys' =>
      simp only [hr, Option.some.injEq] at h
      subst h
      have := removeLast_some x ys ys' hr
      exact (List.Perm.cons y this).trans (List.Perm.swap x y ys')
    | none =>
      simp only [hr] at h
      by_cases hyx : (y == x) = true
      · simp only [hyx, if_true, Option.some.injEq] at h
        subst h
        have : y = x := by simpa using hyx
        subst this
        exact List.Perm.refl _
      · simp [hyx] at h

theorem removeLast_none (x : α) : ∀ (l : List α), removeLast x l = none → x ∉ l
  | [], _ => by simp
  | y :: ys, h => by
    unfold removeLast at h
    cases hr : removeLast x ys with
    | some ys' => simp [hr] at h
    | none =>
      simp only [hr] at h
      by_cases hyx : (y == x) = true
      · simp [hyx] at h
      · have hne : ¬ y = x := by simpa using hyx
        have := removeLast_none x ys hr
        simp only [List.mem_cons, not_or]
        exact ⟨fun e => hne e.symm, this⟩

/-- `remove` answers `true` exactly when the element is held. -/
theorem removeLast_isSome_iff (x : α) (l : List α) : (removeLast x l).isSome = true ↔ x ∈ l := by
  cases h : removeLast x l with
  | some l' =>
    have := (removeLast_some x l l' h)
    simp only [Option.isSome_some, true_iff]
    exact this.symm.subset (by simp)
  | none => simpa using removeLast_none x l h

theorem linStep_perm (d m : List α) (h : d.Perm m) (op : Op α) : (linStep d op).Perm (specStep m op) := by
  cases op with
  | add x =>
    simp only [linStep, specStep]
    exact (List.perm_append_comm).trans (List.Perm.cons x h)
  | addv xs =>
    simp only [linStep, specStep]
    exact (List.perm_append_comm).trans (List.Perm.append_left xs h)
  | remove x =>
    simp only [linStep, specStep]
    cases hr : removeLast x d with
    | some d' =>
      have h1 := removeLast_some x d d' hr
      simp only [Option.getD_some]
      have hx : x ∈ m := h.subset (h1.symm.subset (by simp))
      have h2 : (x :: d').Perm (x :: m.erase x) := h1.symm.trans (h.trans (List.perm_cons_erase hx))
      exact (List.perm_cons x).mp h2
    | none =>
      have hx : x ∉ m := fun hm => removeLast_none x d hr (h.symm.subset hm)
      simp only [Option.getD_none]
      rw [List.erase_of_not_mem hx]
      exact h
  | clear => simp [linStep, specStep]

theorem lin_foldl_perm (ops : List (Op α)) : ∀ (d m : List α), d.Perm m →
    (ops.foldl linStep d).Perm (ops.foldl specStep m) := by
  induction ops with
  | nil => intro d m h; simpa using h
  | cons op ops ih => intro d m h; exact ih _ _ (linStep_perm d m h op)

/-! ### SqrtApprox -/

theorem sqrt_step_data (s : Sqrt α) (op : Op α) : (s.step op).data = linStep s.data op := by
  cases op with
  | add x => rfl
  | addv xs => rfl
  | remove x =>
    simp only [Sqrt.step, linStep]
    cases removeLast x s.data <;> rfl
  | clear => rfl

theorem sqrt_foldl_data (ops : List (Op α)) : ∀ (s : Sqrt α),
    (ops.foldl Sqrt.step s).data = ops.foldl linStep s.data := by
  induction ops with
  | nil => intro s; rfl
  | cons op ops ih => intro s; simp only [List.foldl_cons]; rw [ih, sqrt_step_data]

theorem checkCount_pos (n : Nat) : 0 < checkCount n := by unfold checkCount; omega

/-- `checks_ = 0` only while the structure is empty. -/
theorem sqrt_step_checks (s : Sqrt α) (op : Op α) (h : s.checks = 0 → s.data = []) :
    (s.step op).checks = 0 → (s.step op).data = [] := by
  cases op with
  | add x => intro h0; have := checkCount_pos (s.data.length + 1); simp only [Sqrt.step] at h0; omega
  | addv xs => intro h0; have := checkCount_pos (s.data ++ xs).length; simp only [Sqrt.step] at h0; omega
  | remove x =>
    simp only [Sqrt.step]
    cases hr : removeLast x s.data with
    | some d => intro h0; have := checkCount_pos d.length; simp only at h0; omega
    | none => exact h
  | clear => intro _; rfl

theorem sqrt_foldl_checks (ops : List (Op α)) : ∀ (s : Sqrt α), (s.checks = 0 → s.data = []) →
    (ops.foldl Sqrt.step s).checks = 0 → (ops.foldl Sqrt.step s).data = [] := by
  induction ops with
  | nil => intro s h; exact h
  | cons op ops ih => intro s h; exact ih _ (sqrt_step_checks s op h)

end Contents

section SqrtProbe
variable [LT D] [DecidableLT D]

/-- whatever the probe loop returns was read from `data_`. -/
theorem scanStep_mem (P : α → Prop) (best : Option (α × D)) (x : α) (d : D)
    (hb : ∀ b ∈ best, P b.1) (hx : P x) : ∀ b ∈ scanStep best x d, P b.1 := by
  cases best with
  | none => intro b hb'; simp [scanStep] at hb'; subst hb'; exact hx
  | some bd =>
    obtain ⟨b0, d0⟩ := bd
    intro b hb'
    simp only [scanStep] at hb'
    split at hb'
    · simp at hb'; subst hb'; exact hx
    · simp at hb'; subst hb'; exact hb (b0, d0) rfl

theorem sqrtProbe_mem (dist : α → α → D) (q : α) (s : Sqrt α) :
    ∀ b ∈ sqrtProbe dist q s, b.1 ∈ s.data := by
  unfold sqrtProbe
  generalize List.range s.checks = js
  suffices h : ∀ (best : Option (α × D)), (∀ b ∈ best, b.1 ∈ s.data) →
      ∀ b ∈ js.foldl (fun best j =>
        match s.data[(j * s.checks + s.offset) % s.data.length]? with
        | some x => scanStep best x (dist x q)
        | none => best) best, b.1 ∈ s.data by
    exact h none (by simp)
  induction js with
  | nil => intro best h; simpa using h
  | cons j js ih =>
    intro best h
    simp only [List.foldl_cons]
    apply ih
    split
    · rename_i x hx
      exact scanStep_mem (· ∈ s.data) best x _ h (List.mem_of_getElem? hx)
    · exact h

theorem scanStep_isSome (best : Option (α × D)) (x : α) (d : D) : (scanStep best x d).isSome = true := by
  unfold scanStep
  cases best with
  | none => rfl
  | some bd => obtain ⟨b, d0⟩ := bd; simp only; split <;> rfl

theorem sqrtProbe_isSome (dist : α → α → D) (q : α) (s : Sqrt α) (hc : 0 < s.checks) (hn : 0 < s.data.length) :
    (sqrtProbe dist q s).isSome = true := by
  unfold sqrtProbe
  have hr : List.range s.checks = List.range (s.checks - 1) ++ [s.checks - 1] := by
    have : s.checks = (s.checks - 1) + 1 := by omega
    conv => lhs; rw [this, List.range_succ]
  rw [hr, List.foldl_append]
  simp only [List.foldl_cons, List.foldl_nil]
  have hlt : ((s.checks - 1) * s.checks + s.offset) % s.data.length < s.data.length := Nat.mod_lt _ hn
  rw [List.getElem?_eq_getElem hlt]
  exact scanStep_isSome _ _ _

end SqrtProbe

/-- `resize` + assignment of every slot leaves exactly the answers. -/
theorem vecResizeAndOverwrite_eq {β : Type} (ans nbh : List β) : vecResizeAndOverwrite ans nbh = ans := by
  unfold vecResizeAndOverwrite
  simp only []
  apply List.map_snd_zip
  simp only [List.length_append, List.length_map, List.length_take, List.length_replicate]
  omega


end OmplModel.NN
