import OmplModel.Model.Copy

/-!
Proofs about the state copy / serialization model (`OmplModel.Copy`).
-/
namespace OmplModel.Copy

/-! ### bytes -/

theorem leBytes_length : ∀ (k n : Nat), (leBytes k n).length = k
  | 0, _ => rfl
  | k + 1, n => by simp [leBytes, leBytes_length k]

theorem leVal_leBytes : ∀ (k n : Nat), n < 256 ^ k → leVal (leBytes k n) = n
  | 0, n, h => by simp at h; simp [leBytes, leVal, h]
  | k + 1, n, h => by
      have h' : n / 256 < 256 ^ k := by
        rw [Nat.pow_succ] at h
        exact Nat.div_lt_of_lt_mul (by omega)
      simp [leBytes, leVal, leVal_leBytes k (n / 256) h']
      omega

theorem toI32_roundtrip (v : Int) (h1 : -2147483648 ≤ v) (h2 : v < 2147483648) :
    toI32 (leVal (leBytes 4 (v % 4294967296).toNat)) = v := by
  have hlt : (v % 4294967296).toNat < 256 ^ 4 := by omega
  rw [leVal_leBytes 4 _ hlt]
  unfold toI32
  split <;> omega

theorem Atom.bytes_length_okF (a : Atom) (h : a.okF = true) : a.bytes.length = 8 := by
  cases a <;> simp [Atom.okF] at h; simp [Atom.bytes, leBytes_length]

theorem bytesOf_nil : bytesOf [] = [] := rfl

theorem bytesOf_cons (a : Atom) (as : List Atom) : bytesOf (a :: as) = a.bytes ++ bytesOf as := by
  simp [bytesOf]

theorem bytesOf_append (a b : List Atom) : bytesOf (a ++ b) = bytesOf a ++ bytesOf b := by
  simp [bytesOf]

theorem bytesOf_length_okF : ∀ (as : List Atom), as.all Atom.okF = true → (bytesOf as).length = 8 * as.length
  | [], _ => rfl
  | a :: as, h => by
      simp at h
      have := bytesOf_length_okF as (by simpa using h.2)
      simp [bytesOf_cons, Atom.bytes_length_okF a h.1, this]
      omega

theorem decF64s_bytesOf : ∀ (as : List Atom) (rest : List Nat), as.all Atom.okF = true →
    decF64s as.length (bytesOf as ++ rest) = as
  | [], _, _ => rfl
  | a :: as, rest, h => by
      simp at h
      have ih := decF64s_bytesOf as rest (by simpa using h.2)
      cases a with
      | i32 v => simp [Atom.okF] at h
      | f64 b =>
        have hb : b < 256 ^ 8 := by simpa [Atom.okF] using h.1
        have hl : (leBytes 8 b).length = 8 := leBytes_length 8 b
        simp only [List.length_cons, decF64s, bytesOf_cons, Atom.bytes, List.append_assoc]
        rw [List.take_left' hl, List.drop_left' hl, leVal_leBytes 8 b hb, ih]

/-! ### serialization length -/

theorem image_leaf_okF (as : List Atom) (n : Nat) (h : (decide (as.length = n) && as.all Atom.okF) = true) :
    (bytesOf as).length = 8 * n := by
  simp only [Bool.and_eq_true, decide_eq_true_eq] at h
  rw [bytesOf_length_okF as h.2, h.1]

theorem discrete_leaf (as : List Atom) (h : (decide (as.length = 1) && as.all Atom.okI) = true) :
    ∃ v, as = [.i32 v] ∧ -2147483648 ≤ v ∧ v < 2147483648 := by
  simp only [Bool.and_eq_true, decide_eq_true_eq] at h
  match as, h with
  | [a], h =>
    cases a with
    | f64 b => simp [Atom.okI] at h
    | i32 v => exact ⟨v, rfl, by simpa [Atom.okI] using h.2⟩

mutual
theorem ser_length : ∀ (sp : Sp) (st : St), fits sp st = true → (image sp st).length = serLen sp
  | .real nm n, st, h => by
      cases st <;> simp only [fits] at h <;> try contradiction
      simpa [image, atoms, serLen] using image_leaf_okF _ _ h
  | .so2 nm, st, h => by
      cases st <;> simp only [fits] at h <;> try contradiction
      simpa [image, atoms, serLen] using image_leaf_okF _ _ h
  | .so3 nm, st, h => by
      cases st <;> simp only [fits] at h <;> try contradiction
      simpa [image, atoms, serLen] using image_leaf_okF _ _ h
  | .time nm, st, h => by
      cases st <;> simp only [fits] at h <;> try contradiction
      simpa [image, atoms, serLen] using image_leaf_okF _ _ h
  | .discrete nm, st, h => by
      cases st <;> simp only [fits] at h <;> try contradiction
      obtain ⟨v, rfl, _⟩ := discrete_leaf _ h
      simp [image, atoms, serLen, bytesOf, Atom.bytes, leBytes_length]
  | .compound nm cs, st, h => by
      cases st with
      | comp sts =>
        have := ser_lengthL cs sts (by simpa [fits] using h)
        simpa [image, atoms, serLen] using this
      | _ => simp [fits] at h
  | .wrapper nm s, st, h => by
      cases st with
      | wrap st' =>
        have := ser_length s st' (by simpa [fits] using h)
        simpa [image, atoms, serLen] using this
      | _ => simp [fits] at h
theorem ser_lengthL : ∀ (cs : List Sp) (sts : List St), fitsL cs sts = true →
    (bytesOf (atomsL cs sts)).length = serLenL cs
  | [], sts, h => by cases sts <;> simp [fitsL] at h; simp [atomsL, bytesOf, serLenL]
  | c :: cs, sts, h => by
      cases sts with
      | nil => simp [fitsL] at h
      | cons s ss =>
        simp [fitsL] at h
        have h1 := ser_length c s h.1
        have h2 := ser_lengthL cs ss h.2
        simp only [image] at h1
        simp [atomsL, bytesOf_append, serLenL, h1, h2]
end

/-! ### deserialize ∘ serialize -/

mutual
theorem deser_ser : ∀ (sp : Sp) (st : St) (rest : List Nat), fits sp st = true →
    deserialize sp (image sp st ++ rest) = st
  | .real nm n, st, rest, h => by
      cases st <;> simp only [fits] at h <;> try contradiction
      simp only [Bool.and_eq_true, decide_eq_true_eq] at h
      simp only [image, atoms, deserialize, ← h.1, decF64s_bytesOf _ rest h.2]
  | .so2 nm, st, rest, h => by
      cases st <;> simp only [fits] at h <;> try contradiction
      simp only [Bool.and_eq_true, decide_eq_true_eq] at h
      simp only [image, atoms, deserialize, ← h.1, decF64s_bytesOf _ rest h.2]
  | .so3 nm, st, rest, h => by
      cases st <;> simp only [fits] at h <;> try contradiction
      simp only [Bool.and_eq_true, decide_eq_true_eq] at h
      simp only [image, atoms, deserialize, ← h.1, decF64s_bytesOf _ rest h.2]
  | .time nm, st, rest, h => by
      cases st <;> simp only [fits] at h <;> try contradiction
      simp only [Bool.and_eq_true, decide_eq_true_eq] at h
      simp only [image, atoms, deserialize, ← h.1, decF64s_bytesOf _ rest h.2]
  | .discrete nm, st, rest, h => by
      cases st <;> simp only [fits] at h <;> try contradiction
      obtain ⟨v, rfl, h1, h2⟩ := discrete_leaf _ h
      have hl : (leBytes 4 (v % 4294967296).toNat).length = 4 := leBytes_length _ _
      simp only [image, atoms, deserialize, bytesOf_cons, bytesOf_nil, Atom.bytes, List.append_nil]
      rw [List.take_left' hl, toI32_roundtrip v h1 h2]
  | .compound nm cs, st, rest, h => by
      cases st with
      | comp sts =>
        have := deser_serL cs sts rest (by simpa [fits] using h)
        simpa [image, atoms, deserialize] using this
      | _ => simp [fits] at h
  | .wrapper nm s, st, rest, h => by
      cases st with
      | wrap st' =>
        have := deser_ser s st' rest (by simpa [fits] using h)
        simpa [image, atoms, deserialize] using this
      | _ => simp [fits] at h
theorem deser_serL : ∀ (cs : List Sp) (sts : List St) (rest : List Nat), fitsL cs sts = true →
    deserializeL cs (bytesOf (atomsL cs sts) ++ rest) = sts
  | [], sts, rest, h => by cases sts <;> simp [fitsL] at h; simp [deserializeL]
  | c :: cs, sts, rest, h => by
      cases sts with
      | nil => simp [fitsL] at h
      | cons s ss =>
        simp [fitsL] at h
        have h1 := deser_ser c s (bytesOf (atomsL cs ss) ++ rest) h.1
        have h2 := deser_serL cs ss rest h.2
        have hl := ser_length c s h.1
        simp only [image] at h1 hl
        simp only [atomsL, bytesOf_append, deserializeL, List.append_assoc, h1]
        rw [List.drop_left' hl, h2]
end

theorem deser_ser_nil (sp : Sp) (st : St) (h : fits sp st = true) :
    deserialize sp (image sp st) = st := by
  simpa using deser_ser sp st [] h

/-! ### copyState / cloneState -/

mutual
theorem copy_equal : ∀ (sp : Sp) (dst src : St), fits sp src = true → fits sp dst = true →
    copyState sp dst src = src
  | .real nm n, dst, src, hs, hd => by
      cases src <;> cases dst <;> simp [fits] at hs hd <;> simp [copyState]
  | .so2 nm, dst, src, hs, hd => by
      cases src <;> cases dst <;> simp [fits] at hs hd <;> simp [copyState]
  | .so3 nm, dst, src, hs, hd => by
      cases src <;> cases dst <;> simp [fits] at hs hd <;> simp [copyState]
  | .time nm, dst, src, hs, hd => by
      cases src <;> cases dst <;> simp [fits] at hs hd <;> simp [copyState]
  | .discrete nm, dst, src, hs, hd => by
      cases src <;> cases dst <;> simp [fits] at hs hd <;> simp [copyState]
  | .compound nm cs, dst, src, hs, hd => by
      cases src with
      | comp ss =>
        cases dst with
        | comp ds =>
          have := copy_equalL cs ds ss (by simpa [fits] using hs) (by simpa [fits] using hd)
          simp [copyState, this]
        | _ => simp [fits] at hd
      | _ => simp [fits] at hs
  | .wrapper nm s, dst, src, hs, hd => by
      cases src with
      | wrap x =>
        cases dst with
        | wrap d =>
          have := copy_equal s d x (by simpa [fits] using hs) (by simpa [fits] using hd)
          simp [copyState, this]
        | _ => simp [fits] at hd
      | _ => simp [fits] at hs
theorem copy_equalL : ∀ (cs : List Sp) (ds ss : List St), fitsL cs ss = true → fitsL cs ds = true →
    copyStateL cs ds ss = ss
  | [], ds, ss, hs, hd => by
      cases ss <;> cases ds <;> simp [fitsL] at hs hd; simp [copyStateL]
  | c :: cs, ds, ss, hs, hd => by
      cases ss with
      | nil => simp [fitsL] at hs
      | cons s ss =>
        cases ds with
        | nil => simp [fitsL] at hd
        | cons d ds =>
          simp [fitsL] at hs hd
          simp [copyStateL, copy_equal c d s hs.1 hd.1, copy_equalL cs ds ss hs.2 hd.2]
end

theorem all_replicate_okF (n : Nat) : (List.replicate n (Atom.f64 0)).all Atom.okF = true := by
  simp [Atom.okF]

mutual
theorem fits_alloc : ∀ (sp : Sp), fits sp (allocState sp) = true
  | .real nm n => by simp only [allocState, fits, all_replicate_okF]; simp
  | .so2 nm => by simp [allocState, fits, Atom.okF]
  | .so3 nm => by simp [allocState, fits, Atom.okF]
  | .time nm => by simp [allocState, fits, Atom.okF]
  | .discrete nm => by simp [allocState, fits, Atom.okI]
  | .compound nm cs => by simpa [allocState, fits] using fits_allocL cs
  | .wrapper nm s => by simpa [allocState, fits] using fits_alloc s
theorem fits_allocL : ∀ (cs : List Sp), fitsL cs (allocStateL cs) = true
  | [] => by simp [allocStateL, fitsL]
  | c :: cs => by simp [allocStateL, fitsL, fits_alloc c, fits_allocL cs]
end

theorem clone_equal (sp : Sp) (src : St) (h : fits sp src = true) : cloneState sp src = src :=
  copy_equal sp (allocState sp) src h (fits_alloc sp)

/-! ### value addresses: `getValueAddressAtIndex` against a reference enumeration -/

mutual
/-- reference: the addresses of all `double` atoms of a state of space `sp`, in serialization order -/
def realAddrs : Sp → List (List Nat)
  | .real _ n => (List.range n).map ([·])
  | .so2 _ => [[0]]
  | .so3 _ => [[0], [1], [2], [3]]
  | .time _ => [[0]]
  | .discrete _ => []
  | .compound _ cs => realAddrsL cs 0
  | .wrapper _ s => (realAddrs s).map (0 :: ·)
def realAddrsL : List Sp → Nat → List (List Nat)
  | [], _ => []
  | c :: cs, i => (realAddrs c).map (i :: ·) ++ realAddrsL cs (i + 1)
end

mutual
theorem realAddrs_length : ∀ (sp : Sp), (realAddrs sp).length = nReals sp
  | .real nm n => by simp [realAddrs, nReals]
  | .so2 nm => by simp [realAddrs, nReals]
  | .so3 nm => by simp [realAddrs, nReals]
  | .time nm => by simp [realAddrs, nReals]
  | .discrete nm => by simp [realAddrs, nReals]
  | .compound nm cs => by simpa [realAddrs, nReals] using realAddrsL_length cs 0
  | .wrapper nm s => by simpa [realAddrs, nReals] using realAddrs_length s
theorem realAddrsL_length : ∀ (cs : List Sp) (i : Nat), (realAddrsL cs i).length = nRealsL cs
  | [], i => by simp [realAddrsL, nRealsL]
  | c :: cs, i => by simp [realAddrsL, nRealsL, realAddrs_length c, realAddrsL_length cs (i + 1)]
end

/-- the inner loop of `CompoundStateSpace::getValueAddressAtIndex` over a component whose own
`getValueAddressAtIndex` enumerates the list `L`: entered with `j` addresses of this component already
passed (`idx = idx0 + j ≤ index`) and enough iterations left, it returns the `(index - idx0)`-th address
of `L` if there is one and otherwise the running index advanced by exactly `L.length`. -/
theorem scanInner_spec (f : Nat → Option (List Nat)) (L : List (List Nat)) (hf : ∀ j, f j = L[j]?)
    (index idx0 : Nat) : ∀ (fuel j : Nat), idx0 + j ≤ index → index + 1 ≤ fuel + j → j ≤ L.length →
    scanInner f index fuel j (idx0 + j) =
      match L[index - idx0]? with
      | some a => .inl a
      | none => .inr (idx0 + L.length)
  | 0, j, h1, h2, _ => by omega
  | fuel + 1, j, h1, h2, h3 => by
      have hj : j ≤ index := by omega
      rw [scanInner, if_pos hj, hf j]
      by_cases hlt : j < L.length
      · rw [List.getElem?_eq_getElem hlt]
        simp only
        by_cases he : idx0 + j = index
        · have : index - idx0 = j := by omega
          rw [if_pos he, this, List.getElem?_eq_getElem hlt]
        · rw [if_neg he]
          have := scanInner_spec f L hf index idx0 fuel (j + 1) (by omega) (by omega) (by omega)
          rw [← this, Nat.add_assoc]
      · have hj' : j = L.length := by omega
        have hn : L[j]? = none := by simp [hj']
        have hn' : L[index - idx0]? = none := by
          apply List.getElem?_eq_none; omega
        rw [hn, hn', hj']

theorem so3_addr (i : Nat) :
    (if i < 4 then some [i] else none) = ([[0], [1], [2], [3]] : List (List Nat))[i]? := by
  match i with
  | 0 => rfl
  | 1 => rfl
  | 2 => rfl
  | 3 => rfl
  | i + 4 => simp

theorem so2_addr (i : Nat) :
    (if i = 0 then some [0] else none) = ([[0]] : List (List Nat))[i]? := by
  match i with
  | 0 => rfl
  | i + 1 => simp

mutual
/-- `getValueAddressAtIndex` is not off by one: it returns exactly the `i`-th address of the reference
enumeration, and `none` (nullptr) from `nReals sp` on. -/
theorem addrAtIndex_spec : ∀ (sp : Sp) (i : Nat), addrAtIndex sp i = (realAddrs sp)[i]?
  | .real nm n, i => by
      simp only [addrAtIndex, realAddrs]
      by_cases h : i < n <;> simp [h]
  | .so2 nm, i => by simpa [addrAtIndex, realAddrs] using so2_addr i
  | .so3 nm, i => by simpa [addrAtIndex, realAddrs] using so3_addr i
  | .time nm, i => by simpa [addrAtIndex, realAddrs] using so2_addr i
  | .discrete nm, i => by simp [addrAtIndex, realAddrs]
  | .wrapper nm s, i => by simp [addrAtIndex, realAddrs, addrAtIndex_spec s i]
  | .compound nm cs, i => by
      simpa [addrAtIndex, realAddrs] using scanComps_spec cs 0 i 0 (Nat.zero_le _)
theorem scanComps_spec : ∀ (cs : List Sp) (i index idx : Nat), idx ≤ index →
    scanComps cs i index idx = (realAddrsL cs i)[index - idx]?
  | [], i, index, idx, h => by simp [scanComps, realAddrsL]
  | c :: cs, i, index, idx, h => by
      have hin : scanInner (addrAtIndex c) index (index + 1) 0 idx = _ :=
        scanInner_spec (addrAtIndex c) (realAddrs c) (fun j => addrAtIndex_spec c j)
          index idx (index + 1) 0 (by omega) (by omega) (Nat.zero_le _)
      rw [scanComps, hin, realAddrsL]
      by_cases hlt : index - idx < (realAddrs c).length
      · rw [List.getElem?_eq_getElem hlt]
        simp only
        rw [List.getElem?_append_left (by simpa using hlt)]
        simp [List.getElem?_eq_getElem hlt]
      · have hn : (realAddrs c)[index - idx]? = none := by
          apply List.getElem?_eq_none; omega
        rw [hn]
        simp only
        rw [scanComps_spec cs (i + 1) index (idx + (realAddrs c).length) (by omega)]
        rw [List.getElem?_append_right (by simp; omega)]
        simp only [List.length_map]
        congr 1
        omega
end

theorem addrAtIndex_none_iff (sp : Sp) (i : Nat) : addrAtIndex sp i = none ↔ nReals sp ≤ i := by
  rw [addrAtIndex_spec, List.getElem?_eq_none_iff, realAddrs_length]

/-! ### value locations (`computeLocationsHelper`) enumerate the same addresses -/

mutual
/-- well-formedness of a node strictly below a compound node: no wrapper around a compound space
(`computeLocationsHelper` / `getSubstateAtLocation` `static_cast` such a wrapper to `CompoundStateSpace`). -/
def Sp.okIn : Sp → Bool
  | .compound _ cs => Sp.okInL cs
  | .wrapper _ s => !s.isComp
  | _ => true
def Sp.okInL : List Sp → Bool
  | [] => true
  | c :: cs => c.okIn && Sp.okInL cs
end

/-- top-level wrappers may wrap anything -/
def Sp.ok : Sp → Bool
  | .wrapper _ s => s.ok
  | .compound nm cs => (Sp.compound nm cs).okIn
  | _ => true

/-- `getValueAddressAtLocation` of a non-wrapper space -/
def res (sp : Sp) (loc : Loc) : Option (List Nat) :=
  match nodeAt sp loc.chain with
  | some node => (addrAtIndex node loc.index).map (loc.chain ++ ·)
  | none => none

theorem nodeAtL_eq : ∀ (cs : List Sp) (i : Nat) (rest : List Nat),
    nodeAtL cs i rest = (cs[i]?).bind (nodeAt · rest)
  | [], i, rest => by simp [nodeAtL]
  | c :: cs, 0, rest => by simp [nodeAtL]
  | c :: cs, i + 1, rest => by simp [nodeAtL, nodeAtL_eq cs i rest]

theorem nodeAt_nil (sp : Sp) : nodeAt sp [] = some sp := by cases sp <;> simp [nodeAt]

theorem nodeAt_append : ∀ (a b : List Nat) (root : Sp),
    nodeAt root (a ++ b) = (nodeAt root a).bind (nodeAt · b)
  | [], b, root => by simp [nodeAt_nil]
  | i :: a, b, root => by
      cases root with
      | compound nm cs =>
        simp only [List.cons_append, nodeAt, nodeAtL_eq]
        cases cs[i]? with
        | none => simp
        | some c => simp [nodeAt_append a b c]
      | _ => simp [nodeAt]

theorem nodeAt_snoc (root : Sp) (chain : List Nat) (nm : Nat) (cs : List Sp)
    (h : nodeAt root chain = some (.compound nm cs)) (k : Nat) :
    nodeAt root (chain ++ [k]) = cs[k]? := by
  rw [nodeAt_append, h]
  simp only [Option.bind_some, nodeAt, nodeAtL_eq]
  cases cs[k]? <;> simp

theorem countFrom_spec (f : Nat → Option (List Nat)) (n : Nat) (hf : ∀ j, f j = none ↔ n ≤ j) :
    ∀ (fuel k : Nat), countFrom f fuel k = min fuel (n - k)
  | 0, k => by simp [countFrom]
  | fuel + 1, k => by
      rw [countFrom]
      cases hfk : f k with
      | none =>
        have := (hf k).1 hfk
        simp only; omega
      | some a =>
        have : ¬ n ≤ k := fun h => by rw [(hf k).2 h] at hfk; cases hfk
        simp only [countFrom_spec f n hf fuel (k + 1)]; omega

theorem range_map_getElem? {α : Type} (L : List α) :
    (List.range L.length).map (fun k => L[k]?) = L.map some := by
  apply List.ext_getElem?
  intro i
  by_cases h : i < L.length
  · simp [h]
  · have h' : L.length ≤ i := by omega
    simp [h']

theorem leafLocs_eq (sp : Sp) (chain : List Nat) (h : sp.isComp = false) :
    leafLocs sp chain = (List.range (nReals sp)).map (fun k => ⟨chain, k⟩) := by
  have hc : countFrom (addrAtIndex sp) (nReals sp + 1) 0 = nReals sp := by
    rw [countFrom_spec (addrAtIndex sp) (nReals sp) (addrAtIndex_none_iff sp)]; omega
  unfold leafLocs
  rw [hc, h]
  by_cases h0 : nReals sp = 0
  · simp [h0]
  · have : addrAtIndex sp 0 ≠ none := fun hn => h0 (by have := (addrAtIndex_none_iff sp 0).1 hn; omega)
    cases ha : addrAtIndex sp 0 with
    | none => exact absurd ha this
    | some a => simp

theorem leafLocs_res (root sp : Sp) (chain : List Nat) (h : sp.isComp = false)
    (hn : nodeAt root chain = some sp) :
    (leafLocs sp chain).map (res root) = (realAddrs sp).map (fun a => some (chain ++ a)) := by
  rw [leafLocs_eq sp chain h, List.map_map]
  have : (res root ∘ fun k => (⟨chain, k⟩ : Loc)) = (fun o => o.map (chain ++ ·)) ∘ (fun k => (realAddrs sp)[k]?) := by
    funext k
    simp [res, hn, addrAtIndex_spec]
  rw [this, ← List.map_map, ← realAddrs_length, range_map_getElem?, List.map_map]
  rfl

mutual
theorem locs_res (root : Sp) : ∀ (sp : Sp) (chain : List Nat), sp.okIn = true →
    nodeAt root chain = some sp →
    (locs sp chain).map (res root) = (realAddrs sp).map (fun a => some (chain ++ a))
  | .real nm n, chain, _, hn => by rw [locs]; exact leafLocs_res root _ chain rfl hn
  | .so2 nm, chain, _, hn => by rw [locs]; exact leafLocs_res root _ chain rfl hn
  | .so3 nm, chain, _, hn => by rw [locs]; exact leafLocs_res root _ chain rfl hn
  | .time nm, chain, _, hn => by rw [locs]; exact leafLocs_res root _ chain rfl hn
  | .discrete nm, chain, _, hn => by rw [locs]; exact leafLocs_res root _ chain rfl hn
  | .wrapper nm s, chain, hok, hn => by
      rw [locs]
      exact leafLocs_res root _ chain (by simpa [Sp.okIn, Sp.isComp] using hok) hn
  | .compound nm cs, chain, hok, hn => by
      rw [locs, realAddrs]
      exact locsL_res root cs chain 0 (by simpa [Sp.okIn] using hok)
        (fun k => by rw [Nat.zero_add]; exact nodeAt_snoc root chain nm cs hn k)
theorem locsL_res (root : Sp) : ∀ (cs : List Sp) (chain : List Nat) (i : Nat), Sp.okInL cs = true →
    (∀ k, nodeAt root (chain ++ [i + k]) = cs[k]?) →
    (locsL cs chain i).map (res root) = (realAddrsL cs i).map (fun a => some (chain ++ a))
  | [], chain, i, _, _ => by simp [locsL, realAddrsL]
  | c :: cs, chain, i, hok, hn => by
      simp only [Sp.okInL, Bool.and_eq_true] at hok
      have h1 := locs_res root c (chain ++ [i]) hok.1 (by simpa using hn 0)
      have h2 := locsL_res root cs chain (i + 1) hok.2 (fun k => by
        have := hn (k + 1)
        rw [List.getElem?_cons_succ] at this
        rw [← this]; congr 3; omega)
      rw [locsL, realAddrsL, List.map_append, List.map_append, h1, h2, List.map_map]
      congr 1
      apply List.map_congr_left
      intro a _
      simp
end

theorem resolve_eq_res (sp : Sp) (h : ∀ nm s, sp ≠ .wrapper nm s) : resolve sp = res sp := by
  funext loc
  cases sp with
  | wrapper nm s => exact absurd rfl (h nm s)
  | _ => simp only [resolve, res] <;> rfl

/-- under `Sp.ok`, `getValueLocations` + `getValueAddressAtLocation` visit exactly the reference
addresses, in serialization order. -/
theorem valueLocations_enumerates : ∀ (sp : Sp), sp.ok = true →
    (valueLocations sp).map (resolve sp) = (realAddrs sp).map some
  | .wrapper nm s, h => by
      have ih := valueLocations_enumerates s (by simpa [Sp.ok] using h)
      have : resolve (.wrapper nm s) = (fun o => o.map (0 :: ·)) ∘ resolve s := by
        funext loc; simp [resolve]
      rw [valueLocations, this, ← List.map_map, ih, realAddrs, List.map_map, List.map_map]
      rfl
  | .compound nm cs, h => by
      have hr : resolve (.compound nm cs) = res (.compound nm cs) := resolve_eq_res _ (fun _ _ h => nomatch h)
      have hv : valueLocations (.compound nm cs) = locs (.compound nm cs) [] := by simp [valueLocations]
      rw [hr, hv]
      simpa using locs_res _ (.compound nm cs) [] (by simpa [Sp.ok] using h) (nodeAt_nil _)
  | .real nm n, h => by
      have hr : resolve (.real nm n) = res (.real nm n) := resolve_eq_res _ (fun _ _ h => nomatch h)
      have hv : valueLocations (.real nm n) = locs (.real nm n) [] := by simp [valueLocations]
      rw [hr, hv]
      simpa using locs_res _ (.real nm n) [] rfl (nodeAt_nil _)
  | .so2 nm, h => by
      have hr : resolve (.so2 nm) = res (.so2 nm) := resolve_eq_res _ (fun _ _ h => nomatch h)
      have hv : valueLocations (.so2 nm) = locs (.so2 nm) [] := by simp [valueLocations]
      rw [hr, hv]
      simpa using locs_res _ (.so2 nm) [] rfl (nodeAt_nil _)
  | .so3 nm, h => by
      have hr : resolve (.so3 nm) = res (.so3 nm) := resolve_eq_res _ (fun _ _ h => nomatch h)
      have hv : valueLocations (.so3 nm) = locs (.so3 nm) [] := by simp [valueLocations]
      rw [hr, hv]
      simpa using locs_res _ (.so3 nm) [] rfl (nodeAt_nil _)
  | .time nm, h => by
      have hr : resolve (.time nm) = res (.time nm) := resolve_eq_res _ (fun _ _ h => nomatch h)
      have hv : valueLocations (.time nm) = locs (.time nm) [] := by simp [valueLocations]
      rw [hr, hv]
      simpa using locs_res _ (.time nm) [] rfl (nodeAt_nil _)
  | .discrete nm, h => by
      have hr : resolve (.discrete nm) = res (.discrete nm) := resolve_eq_res _ (fun _ _ h => nomatch h)
      have hv : valueLocations (.discrete nm) = locs (.discrete nm) [] := by simp [valueLocations]
      rw [hr, hv]
      simpa using locs_res _ (.discrete nm) [] rfl (nodeAt_nil _)

/-! ### the reference addresses are pairwise distinct -/

theorem realAddrsL_head : ∀ (cs : List Sp) (i : Nat) (a : List Nat), a ∈ realAddrsL cs i →
    ∃ k t, a = k :: t ∧ i ≤ k
  | [], i, a, h => by simp [realAddrsL] at h
  | c :: cs, i, a, h => by
      simp only [realAddrsL, List.mem_append, List.mem_map] at h
      rcases h with ⟨t, _, rfl⟩ | h
      · exact ⟨i, t, rfl, Nat.le_refl _⟩
      · obtain ⟨k, t, rfl, hk⟩ := realAddrsL_head cs (i + 1) a h
        exact ⟨k, t, rfl, by omega⟩

theorem nodup_map_cons (i : Nat) (L : List (List Nat)) (h : L.Nodup) : (L.map (i :: ·)).Nodup := by
  unfold List.Nodup at *
  rw [List.pairwise_map]
  exact h.imp (fun hne heq => hne (List.cons.inj heq).2)

mutual
theorem realAddrs_nodup : ∀ (sp : Sp), (realAddrs sp).Nodup
  | .real nm n => by
      rw [realAddrs]
      unfold List.Nodup
      rw [List.pairwise_map]
      exact (List.nodup_range (n := n)).imp (fun hne heq => hne (List.cons.inj heq).1)
  | .so2 nm => by simp [realAddrs]
  | .so3 nm => by simp [realAddrs]
  | .time nm => by simp [realAddrs]
  | .discrete nm => by simp [realAddrs]
  | .compound nm cs => by rw [realAddrs]; exact realAddrsL_nodup cs 0
  | .wrapper nm s => by rw [realAddrs]; exact nodup_map_cons 0 _ (realAddrs_nodup s)
theorem realAddrsL_nodup : ∀ (cs : List Sp) (i : Nat), (realAddrsL cs i).Nodup
  | [], i => by simp [realAddrsL]
  | c :: cs, i => by
      rw [realAddrsL, List.nodup_append]
      refine ⟨nodup_map_cons i _ (realAddrs_nodup c), realAddrsL_nodup cs (i + 1), ?_⟩
      intro a ha b hb hab
      simp only [List.mem_map] at ha
      obtain ⟨t, _, rfl⟩ := ha
      obtain ⟨k, t', rfl, hk⟩ := realAddrsL_head cs (i + 1) b hb
      have := (List.cons.inj hab).1
      omega
end

/-! ### get / set laws on state trees -/

mutual
theorem get_set_same : ∀ (st : St) (p : List Nat) (a a' : Atom), st.get p = some a →
    (st.set p a').get p = some a'
  | .leaf as, p, a, a', h => by
      match p, h with
      | [k], h =>
        simp only [St.get] at h
        have hk : k < as.length := (List.getElem?_eq_some_iff.1 h).1
        simp [St.set, St.get, hk]
      | [], h => simp [St.get] at h
      | _ :: _ :: _, h => simp [St.get] at h
  | .comp cs, p, a, a', h => by
      match p, h with
      | i :: rest, h =>
        simp only [St.get] at h
        simpa [St.set, St.get] using getL_setL_same cs i rest a a' h
      | [], h => simp [St.get] at h
  | .wrap s, p, a, a', h => by
      match p, h with
      | 0 :: rest, h =>
        simp only [St.get] at h
        simpa [St.set, St.get] using get_set_same s rest a a' h
      | [], h => simp [St.get] at h
      | (_ + 1) :: _, h => simp [St.get] at h
theorem getL_setL_same : ∀ (ss : List St) (i : Nat) (p : List Nat) (a a' : Atom),
    St.getL ss i p = some a → St.getL (St.setL ss i p a') i p = some a'
  | [], i, p, a, a', h => by simp [St.getL] at h
  | s :: ss, 0, p, a, a', h => by
      simp only [St.getL] at h
      simpa [St.setL, St.getL] using get_set_same s p a a' h
  | s :: ss, i + 1, p, a, a', h => by
      simp only [St.getL] at h
      simpa [St.setL, St.getL] using getL_setL_same ss i p a a' h
end

mutual
theorem set_get_self : ∀ (st : St) (p : List Nat) (a : Atom), st.get p = some a → st.set p a = st
  | .leaf as, p, a, h => by
      match p, h with
      | [k], h =>
        simp only [St.get] at h
        obtain ⟨hk, he⟩ := List.getElem?_eq_some_iff.1 h
        simp only [St.set, St.leaf.injEq]
        rw [← he]; exact List.set_getElem_self hk
      | [], h => simp [St.get] at h
      | _ :: _ :: _, h => simp [St.get] at h
  | .comp cs, p, a, h => by
      match p, h with
      | i :: rest, h =>
        simp only [St.get] at h
        simpa [St.set] using setL_getL_self cs i rest a h
      | [], h => simp [St.get] at h
  | .wrap s, p, a, h => by
      match p, h with
      | 0 :: rest, h =>
        simp only [St.get] at h
        simpa [St.set] using set_get_self s rest a h
      | [], h => simp [St.get] at h
      | (_ + 1) :: _, h => simp [St.get] at h
theorem setL_getL_self : ∀ (ss : List St) (i : Nat) (p : List Nat) (a : Atom),
    St.getL ss i p = some a → St.setL ss i p a = ss
  | [], i, p, a, h => by simp [St.getL] at h
  | s :: ss, 0, p, a, h => by
      simp only [St.getL] at h
      simpa [St.setL] using set_get_self s p a h
  | s :: ss, i + 1, p, a, h => by
      simp only [St.getL] at h
      simpa [St.setL] using setL_getL_self ss i p a h
end

mutual
theorem get_set_ne : ∀ (st : St) (p q : List Nat) (a : Atom), p ≠ q → (st.set p a).get q = st.get q
  | .leaf as, p, q, a, h => by
      match p, h with
      | [k], h =>
        match q, h with
        | [k'], h =>
          have : k ≠ k' := fun e => h (by rw [e])
          simp [St.set, St.get, List.getElem?_set_ne this]
        | [], h => simp [St.set, St.get]
        | _ :: _ :: _, h => simp [St.set, St.get]
      | [], h => simp [St.set]
      | _ :: _ :: _, h => simp [St.set]
  | .comp cs, p, q, a, h => by
      match p, h with
      | i :: rest, h =>
        match q, h with
        | j :: rest', h =>
          simpa [St.set, St.get] using getL_setL_ne cs i j rest rest' a (fun e => h (by rw [e.1, e.2]))
        | [], h => simp [St.set, St.get]
      | [], h => simp [St.set]
  | .wrap s, p, q, a, h => by
      match p, h with
      | 0 :: rest, h =>
        match q, h with
        | 0 :: rest', h =>
          simpa [St.set, St.get] using get_set_ne s rest rest' a (fun e => h (by rw [e]))
        | [], h => simp [St.set, St.get]
        | (_ + 1) :: _, h => simp [St.set, St.get]
      | [], h => simp [St.set]
      | (_ + 1) :: _, h => simp [St.set]
theorem getL_setL_ne : ∀ (ss : List St) (i j : Nat) (p q : List Nat) (a : Atom), ¬ (i = j ∧ p = q) →
    St.getL (St.setL ss i p a) j q = St.getL ss j q
  | [], i, j, p, q, a, h => by simp [St.setL]
  | s :: ss, 0, 0, p, q, a, h => by
      simpa [St.setL, St.getL] using get_set_ne s p q a (fun e => h ⟨rfl, e⟩)
  | s :: ss, 0, j + 1, p, q, a, h => by simp [St.setL, St.getL]
  | s :: ss, i + 1, 0, p, q, a, h => by simp [St.setL, St.getL]
  | s :: ss, i + 1, j + 1, p, q, a, h => by
      simpa [St.setL, St.getL] using getL_setL_ne ss i j p q a (fun e => h ⟨by rw [e.1], e.2⟩)
end

/-! ### every reference address holds a `double` in a fitting state -/

theorem leaf_get_okF (as : List Atom) (n : Nat) (h : (decide (as.length = n) && as.all Atom.okF) = true)
    (k : Nat) (hk : k < n) : ∃ b, (St.leaf as).get [k] = some (.f64 b) := by
  simp only [Bool.and_eq_true, decide_eq_true_eq, List.all_eq_true] at h
  have hk' : k < as.length := by omega
  have hm := h.2 as[k] (List.getElem_mem hk')
  rw [St.get, List.getElem?_eq_getElem hk']
  cases ha : as[k] with
  | f64 b => exact ⟨b, rfl⟩
  | i32 v => rw [ha] at hm; simp [Atom.okF] at hm

mutual
theorem fits_get : ∀ (sp : Sp) (st : St), fits sp st = true →
    ∀ p ∈ realAddrs sp, ∃ b, st.get p = some (.f64 b)
  | .real nm n, st, h, p, hp => by
      cases st <;> simp only [fits] at h <;> try contradiction
      simp only [realAddrs, List.mem_map, List.mem_range] at hp
      obtain ⟨k, hk, rfl⟩ := hp
      exact leaf_get_okF _ _ h k hk
  | .so2 nm, st, h, p, hp => by
      cases st <;> simp only [fits] at h <;> try contradiction
      simp only [realAddrs, List.mem_singleton] at hp
      subst hp
      exact leaf_get_okF _ _ h 0 (by omega)
  | .so3 nm, st, h, p, hp => by
      cases st <;> simp only [fits] at h <;> try contradiction
      simp only [realAddrs, List.mem_cons, List.not_mem_nil, or_false] at hp
      rcases hp with rfl | rfl | rfl | rfl
      · exact leaf_get_okF _ _ h 0 (by omega)
      · exact leaf_get_okF _ _ h 1 (by omega)
      · exact leaf_get_okF _ _ h 2 (by omega)
      · exact leaf_get_okF _ _ h 3 (by omega)
  | .time nm, st, h, p, hp => by
      cases st <;> simp only [fits] at h <;> try contradiction
      simp only [realAddrs, List.mem_singleton] at hp
      subst hp
      exact leaf_get_okF _ _ h 0 (by omega)
  | .discrete nm, st, h, p, hp => by simp [realAddrs] at hp
  | .compound nm cs, st, h, p, hp => by
      cases st with
      | comp sts =>
        rw [realAddrs] at hp
        obtain ⟨k, rest, rfl, hb⟩ := fits_getL cs sts 0 (by simpa [fits] using h) p hp
        simpa [St.get] using hb
      | _ => simp [fits] at h
  | .wrapper nm s, st, h, p, hp => by
      cases st with
      | wrap st' =>
        simp only [realAddrs, List.mem_map] at hp
        obtain ⟨a, ha, rfl⟩ := hp
        simpa [St.get] using fits_get s st' (by simpa [fits] using h) a ha
      | _ => simp [fits] at h
theorem fits_getL : ∀ (cs : List Sp) (sts : List St) (i : Nat), fitsL cs sts = true →
    ∀ p ∈ realAddrsL cs i, ∃ k rest, p = (i + k) :: rest ∧ ∃ b, St.getL sts k rest = some (.f64 b)
  | [], sts, i, h, p, hp => by simp [realAddrsL] at hp
  | c :: cs, sts, i, h, p, hp => by
      cases sts with
      | nil => simp [fitsL] at h
      | cons s ss =>
        simp only [fitsL, Bool.and_eq_true] at h
        simp only [realAddrsL, List.mem_append, List.mem_map] at hp
        rcases hp with ⟨a, ha, rfl⟩ | hp
        · exact ⟨0, a, rfl, by simpa [St.getL] using fits_get c s h.1 a ha⟩
        · obtain ⟨k, rest, rfl, hb⟩ := fits_getL cs ss (i + 1) h.2 p hp
          exact ⟨k + 1, rest, by congr 1; omega, by simpa [St.getL] using hb⟩
end

/-! ### reals round trip -/

/-- write the reals at a list of addresses, in order -/
def writeP : St → List (List Nat) → List Nat → St
  | st, p :: ps, r :: rs => writeP (st.set p (.f64 r)) ps rs
  | st, _, _ => st

theorem writeAll_of_map (sp : Sp) : ∀ (ls : List Loc) (ps : List (List Nat)) (st : St) (rs : List Nat),
    ls.map (resolve sp) = ps.map some → writeAll sp st ls rs = writeP st ps rs
  | [], ps, st, rs, h => by
      cases ps with
      | nil => simp [writeAll, writeP]
      | cons _ _ => simp at h
  | l :: ls, ps, st, rs, h => by
      cases ps with
      | nil => simp at h
      | cons p ps =>
        simp only [List.map_cons, List.cons.injEq] at h
        cases rs with
        | nil => simp [writeAll, writeP]
        | cons r rs =>
          rw [writeAll, h.1, writeP]
          exact writeAll_of_map sp ls ps _ rs h.2

theorem copyToReals_eq (sp : Sp) (st : St) (hok : sp.ok = true) :
    copyToReals sp st = (realAddrs sp).map (fun p => readBits st (some p)) := by
  have := valueLocations_enumerates sp hok
  unfold copyToReals
  have h2 : (valueLocations sp).map (fun loc => readBits st (resolve sp loc))
      = ((valueLocations sp).map (resolve sp)).map (readBits st) := by
    rw [List.map_map]; rfl
  rw [h2, this, List.map_map]; rfl

theorem copyFromReals_eq (sp : Sp) (st : St) (rs : List Nat) (hok : sp.ok = true) :
    copyFromReals sp st rs = writeP st (realAddrs sp) rs :=
  writeAll_of_map sp _ _ st rs (valueLocations_enumerates sp hok)

theorem writeP_get_notin : ∀ (ps : List (List Nat)) (st : St) (rs : List Nat) (q : List Nat),
    q ∉ ps → (writeP st ps rs).get q = st.get q
  | [], st, rs, q, _ => by simp [writeP]
  | p :: ps, st, [], q, _ => by simp [writeP]
  | p :: ps, st, r :: rs, q, h => by
      simp only [List.mem_cons, not_or] at h
      rw [writeP, writeP_get_notin ps _ rs q h.2, get_set_ne st p q _ (fun e => h.1 e.symm)]

theorem read_writeP : ∀ (ps : List (List Nat)) (st : St) (rs : List Nat), ps.Nodup →
    (∀ p ∈ ps, ∃ b, st.get p = some (.f64 b)) → ps.length = rs.length →
    ps.map (fun p => readBits (writeP st ps rs) (some p)) = rs
  | [], st, rs, _, _, hl => by
      cases rs with
      | nil => rfl
      | cons _ _ => simp at hl
  | p :: ps, st, rs, hnd, hv, hl => by
      cases rs with
      | nil => simp at hl
      | cons r rs =>
        rw [List.nodup_cons] at hnd
        obtain ⟨b, hb⟩ := hv p (List.mem_cons_self)
        have hv' : ∀ q ∈ ps, ∃ b, (st.set p (.f64 r)).get q = some (.f64 b) := by
          intro q hq
          rw [get_set_ne st p q _ (fun e => hnd.1 (e ▸ hq))]
          exact hv q (List.mem_cons_of_mem _ hq)
        have ih := read_writeP ps (st.set p (.f64 r)) rs hnd.2 hv' (by simpa using hl)
        have hp : (writeP (st.set p (.f64 r)) ps rs).get p = some (.f64 r) := by
          rw [writeP_get_notin ps _ rs p hnd.1]
          exact get_set_same st p _ _ hb
        simp only [List.map_cons, writeP, ih, List.cons.injEq, and_true]
        simp [readBits, hp]

theorem writeP_read : ∀ (ps : List (List Nat)) (st : St),
    (∀ p ∈ ps, ∃ b, st.get p = some (.f64 b)) →
    writeP st ps (ps.map (fun p => readBits st (some p))) = st
  | [], st, _ => by simp [writeP]
  | p :: ps, st, hv => by
      obtain ⟨b, hb⟩ := hv p (List.mem_cons_self)
      have hr : readBits st (some p) = b := by simp [readBits, hb]
      rw [List.map_cons, writeP, hr, set_get_self st p _ hb]
      exact writeP_read ps st (fun q hq => hv q (List.mem_cons_of_mem _ hq))

/-- `copyToReals ∘ copyFromReals = id` on a vector of the right length -/
theorem toReals_fromReals (sp : Sp) (st : St) (rs : List Nat) (hok : sp.ok = true)
    (hf : fits sp st = true) (hl : rs.length = nReals sp) :
    copyToReals sp (copyFromReals sp st rs) = rs := by
  rw [copyToReals_eq sp _ hok, copyFromReals_eq sp st rs hok]
  exact read_writeP (realAddrs sp) st rs (realAddrs_nodup sp) (fits_get sp st hf)
    (by rw [realAddrs_length, hl])

/-- `copyFromReals ∘ copyToReals = id` on a fitting state -/
theorem fromReals_toReals (sp : Sp) (st : St) (hok : sp.ok = true) (hf : fits sp st = true) :
    copyFromReals sp st (copyToReals sp st) = st := by
  rw [copyToReals_eq sp _ hok, copyFromReals_eq sp st _ hok]
  exact writeP_read (realAddrs sp) st (fits_get sp st hf)

theorem copyToReals_length (sp : Sp) (st : St) (hok : sp.ok = true) :
    (copyToReals sp st).length = nReals sp := by
  rw [copyToReals_eq sp st hok, List.length_map, realAddrs_length]

/-! ### sanity: `Sp.ok` is satisfiable and necessary -/

example : (Sp.wrapper 9 (Sp.compound 0 [.real 1 2, .wrapper 2 (.so3 3),
    .compound 4 [.so2 5, .discrete 6]])).ok = true := by
  simp [Sp.ok, Sp.okIn, Sp.okInL, Sp.isComp]

/-- without `Sp.ok` the enumeration fails: a wrapped compound used as a component contributes no value
locations (finding F32) although `getValueAddressAtIndex` reaches its `double`. -/
example : (Sp.compound 0 [.wrapper 1 (.compound 2 [.real 3 1])]).ok = false ∧
    valueLocations (Sp.compound 0 [.wrapper 1 (.compound 2 [.real 3 1])]) = [] ∧
    realAddrs (Sp.compound 0 [.wrapper 1 (.compound 2 [.real 3 1])]) = [[0, 0, 0, 0]] := by
  refine ⟨by simp [Sp.ok, Sp.okIn, Sp.okInL, Sp.isComp], ?_, by simp [realAddrs, realAddrsL]⟩
  simp [valueLocations, locs, locsL, leafLocs, Sp.isComp]

end OmplModel.Copy
