import OmplModel.Model.RngPlan
/-!
The fuel of the RRT model always suffices (core Lean only).

`rrtLoop` runs on `budget + 2` iterations of fuel and `checkQueue` on `nd`; both are unreachable limits: against the
environment `envStep` a run of `programM` ends without a result only if an `alloc` could not be answered (the rejection loop
of the seed draw used up its own 4096 rounds — ghost flag `allocFailed`).  Proved by a small Hoare logic for `M` over `exec`.
-/
namespace OmplModel.RngPlan
open OmplModel.Rng OmplModel.Rng.Oracle

theorem runS_cbind {σ Q A R S : Type} (step : σ → Q → A × σ) (c : Comp Q A R) (f : R → Comp Q A S) (s : σ) :
    runS step (cbind c f) s = runS step (f (runS step c s).1) (runS step c s).2 := by
  induction c generalizing s with
  | done r => rfl
  | ask q k ih => simp only [cbind, runS]; exact ih _ _

variable (orc : Vec → Bool)

def exec {R : Type} (c : M R) (e : EnvSt) : Option R × EnvSt := runS (envStep orc) c.run e

theorem exec_pure {R : Type} (a : R) (e : EnvSt) : exec orc (pure a : M R) e = (some a, e) := rfl

theorem exec_failure {R : Type} (e : EnvSt) : exec orc (failure : M R) e = (none, e) := rfl

theorem exec_bind {R S : Type} (c : M R) (f : R → M S) (e : EnvSt) :
    exec orc (c >>= f) e =
      match exec orc c e with
      | (some a, e') => exec orc (f a) e'
      | (none, e') => (none, e') := by
  have h : (c >>= f).run = cbind c.run (fun o => match o with | some a => (f a).run | none => .done none) := rfl
  unfold exec
  rw [h, runS_cbind]
  cases h1 : runS (envStep orc) c.run e with
  | mk o e' => cases o <;> rfl

theorem exec_ask (q : Q) (e : EnvSt) : exec orc (ask q) e = (some (envStep orc e q).1, (envStep orc e q).2) := rfl

/-- `c` run from `e` either returns a value satisfying `post`, or stops because an `alloc` failed -/
def Ok {R : Type} (c : M R) (e : EnvSt) (post : R → EnvSt → Prop) : Prop :=
  match exec orc c e with
  | (some a, e') => post a e'
  | (none, e') => e'.allocFailed = true

theorem Ok_pure {R : Type} (a : R) (e : EnvSt) (post : R → EnvSt → Prop) (h : post a e) : Ok orc (pure a : M R) e post := by
  simp only [Ok, exec_pure]; exact h

theorem Ok_bind {R S : Type} (c : M R) (f : R → M S) (e : EnvSt) (mid : R → EnvSt → Prop) (post : S → EnvSt → Prop)
    (hc : Ok orc c e mid) (hf : ∀ a e', mid a e' → Ok orc (f a) e' post) : Ok orc (c >>= f) e post := by
  unfold Ok at hc ⊢
  rw [exec_bind]
  cases h1 : exec orc c e with
  | mk o e' =>
    rw [h1] at hc
    cases o with
    | none => simpa using hc
    | some a => exact hf a e' hc

theorem Ok_mono {R : Type} (c : M R) (e : EnvSt) (p q : R → EnvSt → Prop) (hc : Ok orc c e p)
    (h : ∀ a e', p a e' → q a e') : Ok orc c e q := by
  unfold Ok at hc ⊢
  cases h1 : exec orc c e with
  | mk o e' =>
    rw [h1] at hc
    cases o with
    | none => exact hc
    | some a => exact h a e' hc

/-! ### frames -/

/-- what draws and evaluations leave alone -/
structure Fr (e e' : EnvSt) : Prop where
  size : e'.rngs.size = e.rngs.size
  ptc : e'.ptc = e.ptc
  kind : e'.iterKind = e.iterKind
  evals : e.evals ≤ e'.evals

theorem Fr.rfl' (e : EnvSt) : Fr e e := ⟨rfl, rfl, rfl, Nat.le_refl _⟩

theorem Fr.trans {a b c : EnvSt} (h1 : Fr a b) (h2 : Fr b c) : Fr a c :=
  ⟨h2.size.trans h1.size, h2.ptc.trans h1.ptc, h2.kind.trans h1.kind, Nat.le_trans h1.evals h2.evals⟩

/-- how far the termination condition is from firing -/
def mu (e : EnvSt) : Nat :=
  match e.ptc with
  | .evals b _ => b - e.evals
  | .iter m t => m - t

def isEvalsK : Ptc → Bool
  | .evals _ _ => true
  | .iter _ _ => false

theorem mu_Fr {e e' : EnvSt} (h : Fr e e') : mu e' ≤ mu e := by
  unfold mu
  rw [h.ptc]
  have := h.evals
  split <;> omega

theorem mu_Fr_lt {e e' : EnvSt} (h : Fr e e') (hk : isEvalsK e.ptc = true) (hp : 0 < mu e) (hl : e.evals < e'.evals) :
    mu e' < mu e := by
  unfold mu at hp ⊢
  rw [h.ptc]
  split
  · rename_i b c hb; rw [hb] at hp; simp only at hp; omega
  · rename_i m t hb; rw [hb] at hk; simp [isEvalsK] at hk

/-! ### primitives -/

theorem Ok_askValid (x : Vec) (e : EnvSt) :
    Ok orc (askValid x) e (fun _ e' => Fr e e' ∧ e.evals < e'.evals) := by
  unfold askValid
  apply Ok_bind orc _ _ _ (fun a e' => a = .val (orc x) ∧ Fr e e' ∧ e.evals < e'.evals)
  · simp only [Ok, exec_ask, envStep]
    exact ⟨trivial, ⟨rfl, rfl, rfl, Nat.le_succ _⟩, Nat.lt_succ_self _⟩
  · intro a e' h
    rw [h.1]
    exact Ok_pure orc _ _ _ h.2

theorem Ok_askReal (k : Nat) (op : Op) (e : EnvSt) (hk : k < e.rngs.size)
    (hop : op = .uniform01 ∨ ∃ lo hi, op = .uniformReal lo hi) :
    Ok orc (askReal k op) e (fun _ e' => Fr e e') := by
  unfold askReal
  apply Ok_bind orc _ _ _ (fun a e' => (∃ x, a = .drew (.real x)) ∧ Fr e e')
  · simp only [Ok, exec_ask, envStep, Array.getElem?_eq_getElem hk]
    refine ⟨?_, ⟨by simp, rfl, rfl, Nat.le_refl _⟩⟩
    rcases hop with h | ⟨lo, hi, h⟩ <;> subst h <;> exact ⟨_, rfl⟩
  · intro a e' h
    obtain ⟨⟨x, hx⟩, hf⟩ := h
    rw [hx]
    exact Ok_pure orc _ _ _ hf

/-! ### sampling -/

theorem Ok_sampleRV (P : Problem) (k : Nat) (n : Nat) (acc : Vec) (e : EnvSt) (hk : k < e.rngs.size) :
    Ok orc (sampleRV P k n acc) e (fun _ e' => Fr e e') := by
  induction n generalizing acc e with
  | zero => exact Ok_pure orc _ _ _ (Fr.rfl' e)
  | succ n ih =>
    unfold sampleRV
    apply Ok_bind orc _ _ _ (fun _ e' => Fr e e') _ (Ok_askReal orc _ _ e hk (Or.inr ⟨_, _, rfl⟩))
    intro x e' h
    exact Ok_mono orc _ _ _ _ (ih _ e' (by rw [h.size]; exact hk)) (fun _ _ h2 => h.trans h2)

theorem samplerWidth_pos (P : Problem) : 1 ≤ samplerWidth P := by
  unfold samplerWidth; split <;> omega

theorem Ok_sampleUniform (P : Problem) (sk : Nat) (e : EnvSt) (hk : sk + samplerWidth P ≤ e.rngs.size) :
    Ok orc (sampleUniform P sk) e (fun _ e' => Fr e e') := by
  unfold sampleUniform
  unfold samplerWidth at hk
  split
  · rename_i hs
    simp only [hs, if_true] at hk
    apply Ok_bind orc _ _ _ (fun _ e' => Fr e e') _ (Ok_sampleRV orc P _ _ _ e (by omega))
    intro rv e' h
    apply Ok_bind orc _ _ _ (fun _ e'' => Fr e e'') _
      (Ok_mono orc _ _ _ _ (Ok_askReal orc _ _ e' (by rw [h.size]; omega) (Or.inr ⟨_, _, rfl⟩)) (fun _ _ h2 => h.trans h2))
    intro y e'' h2
    exact Ok_pure orc _ _ _ h2
  · rename_i hs
    simp only [hs] at hk
    exact Ok_sampleRV orc P _ _ _ e (by simp at hk; omega)

theorem Ok_sampleTarget (P : Problem) (sk : Nat) (ps : PSt) (u : Float) (e : EnvSt)
    (hk : sk + samplerWidth P ≤ e.rngs.size) :
    Ok orc (sampleTarget P sk ps u) e (fun r e' => Fr e e' ∧ r.2.rng = ps.rng ∧ r.2.sampler = ps.sampler) := by
  unfold sampleTarget
  split
  · exact Ok_pure orc _ _ _ ⟨Fr.rfl' e, rfl, rfl⟩
  · apply Ok_bind orc _ _ _ (fun _ e' => Fr e e') _ (Ok_sampleUniform orc P sk e hk)
    intro r e' h
    exact Ok_pure orc _ _ _ ⟨h, rfl, rfl⟩

/-! ### the motion validator -/

/-- number of interior points still to be looked at -/
def qMeasure : List (Nat × Nat) → Nat
  | [] => 0
  | (a, b) :: r => (b + 1 - a) + qMeasure r

theorem qMeasure_append (x y : List (Nat × Nat)) : qMeasure (x ++ y) = qMeasure x + qMeasure y := by
  induction x with
  | nil => simp [qMeasure]
  | cons p x ih => obtain ⟨a, b⟩ := p; simp only [List.cons_append, qMeasure, ih]; omega

theorem Ok_checkQueue (P : Problem) (s1 s2 : Vec) (nd : Nat) (fuel : Nat) (q : List (Nat × Nat)) (e : EnvSt)
    (hq : ∀ p ∈ q, p.1 ≤ p.2) (hm : qMeasure q ≤ fuel) :
    Ok orc (checkQueue P s1 s2 nd fuel q) e (fun _ e' => Fr e e') := by
  induction fuel generalizing q e with
  | zero =>
    cases q with
    | nil => exact Ok_pure orc _ _ _ (Fr.rfl' e)
    | cons p r =>
      obtain ⟨a, b⟩ := p
      have := hq (a, b) (by simp)
      simp only [qMeasure] at hm
      simp only at this
      omega
  | succ fuel ih =>
    cases q with
    | nil => exact Ok_pure orc _ _ _ (Fr.rfl' e)
    | cons p r =>
      obtain ⟨a, b⟩ := p
      have hab : a ≤ b := hq (a, b) (by simp)
      unfold checkQueue
      apply Ok_bind orc _ _ _ (fun _ e' => Fr e e') _ (Ok_mono orc _ _ _ _ (Ok_askValid orc _ e) (fun _ _ h => h.1))
      intro ok e' h
      split
      · exact Ok_pure orc _ _ _ h
      · refine Ok_mono orc _ _ _ _ (ih _ e' ?_ ?_) (fun _ _ h2 => h.trans h2)
        · intro p hp
          simp only [List.mem_append] at hp
          rcases hp with (hp | hp) | hp
          · exact hq p (List.mem_cons_of_mem _ hp)
          · split at hp
            · simp only [List.mem_singleton] at hp; subst hp; simp only; omega
            · simp at hp
          · split at hp
            · simp only [List.mem_singleton] at hp; subst hp; simp only; omega
            · simp at hp
        · simp only [qMeasure_append]
          simp only [qMeasure] at hm
          have h1 : qMeasure (if a < (a + b) / 2 then [(a, (a + b) / 2 - 1)] else []) = (a + b) / 2 - a := by
            split <;> simp [qMeasure] <;> omega
          have h2 : qMeasure (if b > (a + b) / 2 then [((a + b) / 2 + 1, b)] else []) = b - (a + b) / 2 := by
            split <;> simp [qMeasure] <;> omega
          rw [h1, h2]
          omega

theorem Ok_checkMotion (P : Problem) (s1 s2 : Vec) (e : EnvSt) :
    Ok orc (checkMotion P s1 s2) e (fun _ e' => Fr e e' ∧ e.evals < e'.evals) := by
  unfold checkMotion
  apply Ok_bind orc _ _ _ (fun _ e' => Fr e e' ∧ e.evals < e'.evals) _ (Ok_askValid orc _ e)
  intro ok e' h
  split
  · exact Ok_pure orc _ _ _ h
  · simp only []
    split
    · rename_i hnd
      refine Ok_mono orc _ _ _ _ (Ok_checkQueue orc P s1 s2 _ _ _ e' ?_ ?_)
        (fun _ _ h2 => ⟨h.1.trans h2, Nat.lt_of_lt_of_le h.2 h2.evals⟩)
      · intro p hp
        simp only [List.mem_singleton] at hp
        subst hp
        simp only
        omega
      · simp only [qMeasure]; omega
    · exact Ok_pure orc _ _ _ h

/-! ### one iteration, the loop -/

/-- the planner's generator and its sampler are what they were -/
def keeps (ps ps' : PSt) : Prop := ps'.rng = ps.rng ∧ ps'.sampler = ps.sampler

def IterOut.keeps (ps : PSt) : IterOut → Prop
  | .done r => RngPlan.keeps ps r.1
  | .next st' => RngPlan.keeps ps st'.ps

theorem finish_ps (st : LoopSt) : (finish st).1 = st.ps := by
  unfold finish
  split <;> split <;> rfl

theorem judge_keeps (P : Problem) (st : LoopSt) (ps' : PSt) (nm : Nat) (dist : Float) (h : keeps st.ps ps') :
    (judge P st ps' nm dist).keeps st.ps := by
  unfold judge
  split
  · simp only [IterOut.keeps, finish_ps]; exact h
  · split <;> exact h

theorem afterMotion_keeps (P : Problem) (st : LoopSt) (ps : PSt) (ni : Nat) (a b : Vec) (ok : Bool)
    (h : keeps st.ps ps) : (afterMotion P st ps ni a b ok).keeps st.ps := by
  unfold afterMotion
  cases ok with
  | true => simp only [if_true]; exact judge_keeps P st _ _ _ h
  | false => exact h

theorem Ok_iter1 (P : Problem) (sk : Nat) (st : LoopSt) (e : EnvSt) (hr : st.ps.rng < e.rngs.size)
    (hk : sk + samplerWidth P ≤ e.rngs.size) :
    Ok orc (iter1 P sk st) e (fun r e' => Fr e e' ∧ e.evals < e'.evals ∧ r.keeps st.ps) := by
  unfold iter1
  apply Ok_bind orc _ _ _ (fun _ e' => Fr e e') _ (Ok_askReal orc _ _ e hr (Or.inl rfl))
  intro u e1 h1
  apply Ok_bind orc _ _ _ (fun r e' => Fr e e' ∧ keeps st.ps r.2) _
    (Ok_mono orc _ _ _ _ (Ok_sampleTarget orc P sk st.ps u e1 (by rw [h1.size]; exact hk))
      (fun _ _ h2 => ⟨h1.trans h2.1, ⟨h2.2.1, h2.2.2⟩⟩))
  intro tgt e2 h2
  apply Ok_bind orc _ _ _ (fun _ e' => Fr e e' ∧ e.evals < e'.evals) _
    (Ok_mono orc _ _ _ _ (Ok_checkMotion orc P _ _ e2)
      (fun _ _ h3 => ⟨h2.1.trans h3.1, Nat.lt_of_le_of_lt h2.1.evals h3.2⟩))
  intro ok e3 h3
  exact Ok_pure orc _ _ _ ⟨h3.1, h3.2, afterMotion_keeps P st _ _ _ _ ok h2.2⟩

theorem Ok_askPoll (e : EnvSt) :
    Ok orc askPoll e (fun b e' => e'.rngs.size = e.rngs.size ∧ e'.iterKind = e.iterKind ∧ e'.evals = e.evals ∧
      (mu e = 0 → b = true) ∧
      (b = false → mu e' < mu e ∨ (mu e' = mu e ∧ 0 < mu e' ∧ isEvalsK e'.ptc = true))) := by
  unfold askPoll
  apply Ok_bind orc _ _ _ (fun a e' => ∃ b, a = .stop b ∧ e'.rngs.size = e.rngs.size ∧ e'.iterKind = e.iterKind ∧
      e'.evals = e.evals ∧ (mu e = 0 → b = true) ∧
      (b = false → mu e' < mu e ∨ (mu e' = mu e ∧ 0 < mu e' ∧ isEvalsK e'.ptc = true)))
  · simp only [Ok, exec_ask, envStep]
    refine ⟨_, rfl, trivial, trivial, trivial, ?_, ?_⟩
    · intro h0
      unfold mu at h0
      cases hp : e.ptc with
      | evals b c => rw [hp] at h0; simp only at h0; simp only [Ptc.eval, Bool.or_eq_true, decide_eq_true_eq]; left; omega
      | iter m t => rw [hp] at h0; simp only at h0; simp only [Ptc.eval, decide_eq_true_eq]; omega
    · intro hb
      unfold mu
      cases hp : e.ptc with
      | evals b c =>
        rw [hp] at hb
        simp only [Ptc.eval, Bool.or_eq_false_iff, decide_eq_false_iff_not] at hb
        right
        simp only [Ptc.eval, isEvalsK]
        refine ⟨trivial, ?_, trivial⟩; omega
      | iter m t =>
        rw [hp] at hb
        simp only [Ptc.eval, decide_eq_false_iff_not] at hb
        left
        simp only [Ptc.eval]
        omega
  · intro a e' h
    obtain ⟨b, hb, rest⟩ := h
    rw [hb]
    exact Ok_pure orc _ _ _ rest

theorem Ok_rrtLoop (P : Problem) (sk : Nat) (fuel : Nat) (st : LoopSt) (e : EnvSt) (hr : st.ps.rng < e.rngs.size)
    (hk : sk + samplerWidth P ≤ e.rngs.size) (hf : mu e < fuel) :
    Ok orc (rrtLoop P sk fuel st) e
      (fun r e' => e'.rngs.size = e.rngs.size ∧ e'.iterKind = e.iterKind ∧ keeps st.ps r.1) := by
  induction fuel generalizing st e with
  | zero => omega
  | succ fuel ih =>
    unfold rrtLoop
    apply Ok_bind orc _ _ _ _ _ (Ok_askPoll orc e)
    intro b e1 h1
    obtain ⟨hs1, hk1, he1, hz, hd⟩ := h1
    cases b with
    | true =>
      simp only [if_true]
      exact Ok_pure orc _ _ _ ⟨hs1, hk1, by rw [finish_ps]; exact ⟨rfl, rfl⟩⟩
    | false =>
      simp only [Bool.false_eq_true, if_false]
      apply Ok_bind orc _ _ _ _ _ (Ok_iter1 orc P sk st e1 (by rw [hs1]; exact hr) (by rw [hs1]; exact hk))
      intro r e2 h2
      obtain ⟨hfr, hlt, hkeep⟩ := h2
      cases r with
      | done r => exact Ok_pure orc _ _ _ ⟨hfr.size.trans hs1, hfr.kind.trans hk1, hkeep⟩
      | next st' =>
        simp only []
        have hmu : mu e2 < mu e := by
          rcases hd rfl with h | ⟨h, hp, hev⟩
          · exact Nat.lt_of_le_of_lt (mu_Fr hfr) h
          · rw [← h]; exact mu_Fr_lt hfr hev hp hlt
        obtain ⟨hk1', hk2'⟩ := hkeep
        refine Ok_mono orc _ _ _ _ (ih st' e2 (by rw [hk1', hfr.size, hs1]; exact hr) (by rw [hfr.size, hs1]; exact hk)
          (by omega)) ?_
        intro r e3 h3
        exact ⟨h3.1.trans (hfr.size.trans hs1), h3.2.1.trans (hfr.kind.trans hk1),
          h3.2.2.1.trans hk1', h3.2.2.2.trans hk2'⟩

/-! ### set-up, `solve`, histories -/

theorem Ok_addStarts (P : Problem) (l : List Vec) (ps : PSt) (e : EnvSt) :
    Ok orc (addStarts P l ps) e (fun ps' e' => Fr e e' ∧ keeps ps ps') := by
  induction l generalizing ps e with
  | nil => exact Ok_pure orc _ _ _ ⟨Fr.rfl' e, rfl, rfl⟩
  | cons x l ih =>
    unfold addStarts
    simp only []
    split
    · apply Ok_bind orc _ _ _ (fun _ e' => Fr e e') _ (Ok_mono orc _ _ _ _ (Ok_askValid orc _ e) (fun _ _ h => h.1))
      intro ok e1 h1
      split
      · exact Ok_mono orc _ _ _ _ (ih _ e1) (fun _ _ h2 => ⟨h1.trans h2.1, h2.2.1, h2.2.2⟩)
      · exact Ok_mono orc _ _ _ _ (ih _ e1) (fun _ _ h2 => ⟨h1.trans h2.1, h2.2.1, h2.2.2⟩)
    · exact Ok_mono orc _ _ _ _ (ih _ e) (fun _ _ h2 => ⟨h2.1, h2.2.1, h2.2.2⟩)

/-- what creating generators leaves alone -/
structure Al (n : Nat) (e e' : EnvSt) : Prop where
  size : e'.rngs.size = e.rngs.size + n
  ptc : e'.ptc = e.ptc
  kind : e'.iterKind = e.iterKind
  evals : e'.evals = e.evals

theorem mu_Al {n : Nat} {e e' : EnvSt} (h : Al n e e') : mu e' = mu e := by
  unfold mu; rw [h.ptc, h.evals]

theorem Ok_askAlloc (e : EnvSt) : Ok orc askAlloc e (fun h e' => h.1 = e.rngs.size ∧ Al 1 e e') := by
  unfold askAlloc
  apply Ok_bind orc _ _ _ (fun a e' => (∃ s, a = .handle e.rngs.size s ∧ Al 1 e e') ∨ (a = .fail ∧ e'.allocFailed = true))
  · simp only [Ok, exec_ask, envStep]
    split
    · right; exact ⟨rfl, rfl⟩
    · left; exact ⟨_, rfl, ⟨by simp, rfl, rfl, rfl⟩⟩
  · intro a e' h
    rcases h with ⟨s, ha, hal⟩ | ⟨ha, hf⟩
    · rw [ha]; exact Ok_pure orc _ _ _ ⟨rfl, hal⟩
    · rw [ha]; simp only [Ok, exec_failure]; exact hf

theorem Ok_allocN (n : Nat) (e : EnvSt) : Ok orc (allocN n) e (fun _ e' => Al n e e') := by
  induction n generalizing e with
  | zero => exact Ok_pure orc _ _ _ ⟨rfl, rfl, rfl, rfl⟩
  | succ n ih =>
    unfold allocN
    apply Ok_bind orc _ _ _ _ _ (Ok_askAlloc orc e)
    intro h e1 h1
    refine Ok_mono orc _ _ _ _ (ih e1) (fun _ e2 h2 => ?_)
    exact ⟨by rw [h2.size, h1.2.size]; omega, h2.ptc.trans h1.2.ptc, h2.kind.trans h1.2.kind, h2.evals.trans h1.2.evals⟩

theorem Ok_allocSampler (P : Problem) (e : EnvSt) :
    Ok orc (allocSampler P) e (fun h e' => h.1 = e.rngs.size ∧ Al (samplerWidth P) e e') := by
  unfold allocSampler
  apply Ok_bind orc _ _ _ _ _ (Ok_askAlloc orc e)
  intro h e1 h1
  apply Ok_bind orc _ _ _ _ _ (Ok_allocN orc (samplerWidth P - 1) e1)
  intro _ e2 h2
  have hw := samplerWidth_pos P
  exact Ok_pure orc _ _ _ ⟨h1.1, by rw [h2.size, h1.2.size]; omega, h2.ptc.trans h1.2.ptc, h2.kind.trans h1.2.kind,
    h2.evals.trans h1.2.evals⟩

/-- the handles a planner state holds are generators that exist -/
def WFps (P : Problem) (ps : PSt) (e : EnvSt) : Prop :=
  ps.rng < e.rngs.size ∧ ∀ h, ps.sampler = some h → h.1 + samplerWidth P ≤ e.rngs.size

theorem WFps_mono (P : Problem) (ps ps' : PSt) (e e' : EnvSt) (h : WFps P ps e) (hk : keeps ps ps')
    (hs : e.rngs.size ≤ e'.rngs.size) : WFps P ps' e' := by
  obtain ⟨h1, h2⟩ := h
  refine ⟨by rw [hk.1]; omega, fun h hh => ?_⟩
  rw [hk.2] at hh
  have := h2 h hh
  omega

theorem Ok_ensureSampler (P : Problem) (ps : PSt) (e : EnvSt) (hw : WFps P ps e) :
    Ok orc (ensureSampler P ps) e
      (fun r e' => ∃ n, Al n e e' ∧ r.1.rng = ps.rng ∧ r.2 + samplerWidth P ≤ e'.rngs.size ∧ WFps P r.1 e') := by
  unfold ensureSampler
  split
  · rename_i h hs
    exact Ok_pure orc _ _ _ ⟨0, ⟨rfl, rfl, rfl, rfl⟩, rfl, hw.2 h hs, hw⟩
  · apply Ok_bind orc _ _ _ _ _ (Ok_allocSampler orc P e)
    intro h e1 h1
    refine Ok_pure orc _ _ _ ⟨_, h1.2, rfl, by rw [h1.2.size, h1.1]; exact Nat.le_refl _, ?_, ?_⟩
    · show ps.rng < e1.rngs.size
      rw [h1.2.size]; have := hw.1; omega
    · intro h' hh
      simp only [Option.some.injEq] at hh
      subst hh
      rw [h1.2.size, h1.1]
      exact Nat.le_refl _

theorem Ok_solve (P : Problem) (fuel : Nat) (ps : PSt) (e : EnvSt) (hw : WFps P ps e) (hf : mu e < fuel) :
    Ok orc (solve P fuel ps) e (fun r e' => WFps P r.1 e') := by
  unfold solve
  apply Ok_bind orc _ _ _ _ _ (Ok_addStarts orc P _ ps e)
  intro ps1 e1 h1
  have hw1 : WFps P ps1 e1 := WFps_mono P ps ps1 e e1 hw h1.2 (by rw [h1.1.size]; exact Nat.le_refl _)
  split
  · exact Ok_pure orc _ _ _ hw1
  · apply Ok_bind orc _ _ _ _ _ (Ok_ensureSampler orc P ps1 e1 hw1)
    intro r e2 h2
    obtain ⟨n, hal, hrng, hsk, hw2⟩ := h2
    refine Ok_mono orc _ _ _ _ (Ok_rrtLoop orc P r.2 fuel { ps := r.1 } e2 hw2.1 hsk ?_) ?_
    · rw [mu_Al hal]; exact Nat.lt_of_le_of_lt (mu_Fr h1.1) hf
    · intro res e3 h3
      exact WFps_mono P r.1 res.1 e2 e3 hw2 h3.2.2 (by rw [h3.1]; exact Nat.le_refl _)

theorem Ok_askArm (b : Nat) (e : EnvSt) :
    Ok orc (askArm b) e (fun _ e' => e'.rngs.size = e.rngs.size ∧ mu e' = b) := by
  unfold askArm
  apply Ok_bind orc _ _ _ (fun a e' => a = .ok ∧ e'.rngs.size = e.rngs.size ∧ mu e' = b)
  · simp only [Ok, exec_ask, envStep]
    refine ⟨trivial, trivial, ?_⟩
    unfold mu
    cases hk : e.iterKind with
    | true => simp
    | false => simp
  · intro a e' h
    rw [h.1]
    exact Ok_pure orc _ _ _ h.2

theorem Ok_askMark (e : EnvSt) : Ok orc askMark e (fun _ e' => e'.rngs.size = e.rngs.size) := by
  unfold askMark
  apply Ok_bind orc _ _ _ (fun a e' => a = .ok ∧ e'.rngs.size = e.rngs.size)
  · simp only [Ok, exec_ask, envStep]; exact ⟨trivial, trivial⟩
  · intro a e' h
    rw [h.1]
    exact Ok_pure orc _ _ _ h.2

theorem WFps_clear (P : Problem) (ps : PSt) (e : EnvSt) (h : WFps P ps e) : WFps P (clear ps) e :=
  ⟨h.1, fun _ hh => by simp [clear] at hh⟩

theorem Ok_phases (P : Problem) (budget : Nat) (hist : List Phase) (ps : PSt) (acc : List Section) (e : EnvSt)
    (hw : WFps P ps e) : Ok orc (phases P budget hist ps acc) e (fun _ _ => True) := by
  induction hist generalizing ps acc e with
  | nil => exact Ok_pure orc _ _ _ trivial
  | cons ph hist ih =>
    cases ph with
    | clear => unfold phases; exact ih _ _ e (WFps_clear P ps e hw)
    | solve =>
      unfold phases
      apply Ok_bind orc _ _ _ _ _ (Ok_askArm orc budget e)
      intro _ e1 h1
      apply Ok_bind orc _ _ _ _ _ (Ok_solve orc P (budget + 2) ps e1
        (WFps_mono P ps ps e e1 hw ⟨rfl, rfl⟩ (by rw [h1.1]; exact Nat.le_refl _)) (by rw [h1.2]; omega))
      intro r e2 h2
      apply Ok_bind orc _ _ _ _ _ (Ok_askMark orc e2)
      intro _ e3 h3
      exact ih _ _ e3 (WFps_mono P r.1 r.1 e2 e3 h2 ⟨rfl, rfl⟩ (by rw [h3]; exact Nat.le_refl _))

/-- From *every* environment state: the program (space set-up, planner construction, any `solve`/`clear` history) ends
without a result only if a seed draw failed. -/
theorem Ok_programM (P : Problem) (budget : Nat) (hist : List Phase) (e : EnvSt) :
    Ok orc (programM P budget hist) e (fun _ _ => True) := by
  unfold programM
  apply Ok_bind orc _ _ _ _ _ (Ok_allocN orc _ e)
  intro _ e1 _
  apply Ok_bind orc _ _ _ _ _ (Ok_askAlloc orc e1)
  intro h e2 h2
  apply Ok_phases
  exact ⟨by show h.1 < e2.rngs.size; rw [h2.1, h2.2.size]; omega, fun _ hh => by simp at hh⟩

end OmplModel.RngPlan
