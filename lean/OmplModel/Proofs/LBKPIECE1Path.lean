import OmplModel.Proofs.LBKPIECE1Disc
/-!
The path LBKPIECE1 reports is real: both chains were just accepted by `isPathValid`, so every edge is justified.
Core Lean only; arithmetic-free.
-/
namespace OmplModel.LBKPIECE1
open OmplModel OmplModel.Grid OmplModel.Disc OmplModel.PlannerReport

variable {S α : Type} [Num α] [HasLog α]

/-! ### the `solved` field is written in one place only -/

theorem solved_setDisc (st : St S α) (t : Bool) (d : Disc α) : (st.setDisc t d).solved = st.solved := by
  unfold St.setDisc; split <;> rfl

theorem solved_addMotion (cfg : Cfg S α) (st : St S α) (m : Motion S) : (addMotion cfg st m).solved = st.solved := by
  unfold addMotion
  simp only [solved_setDisc]
  split <;> rfl

theorem solved_removeSubtree (cfg : Cfg S α) (t : Bool) : ∀ (fuel i : Nat) (detach : Bool) (st : St S α),
    (removeSubtree cfg t fuel i detach st).solved = st.solved := by
  intro fuel
  induction fuel with
  | zero => intro i detach st; rfl
  | succ f ih =>
    intro i detach st
    unfold removeSubtree
    cases hm : st.ar[i]? with
    | none => rfl
    | some m =>
      simp only []
      have hfold : ∀ (cs : List Nat) (s : St S α),
          (cs.foldl (fun s c => removeSubtree cfg t f c false s) s).solved = s.solved := by
        intro cs
        induction cs with
        | nil => intro s; rfl
        | cons c cs ihc => intro s; simp only [List.foldl]; rw [ihc, ih]
      show (freeMotion _ i).solved = _
      unfold freeMotion
      simp only []
      rw [hfold]
      split
      · unfold detachFrom markDead; simp only [solved_setDisc]
      · unfold markDead; simp only [solved_setDisc]

theorem solved_validateFrom (cfg : Cfg S α) (t : Bool) : ∀ (ids : List Nat) (st : St S α),
    (validateFrom cfg t ids st).2.solved = st.solved := by
  intro ids
  induction ids with
  | nil => intro st; rfl
  | cons i rest ih =>
    intro st
    unfold validateFrom
    cases hm : st.ar[i]? with
    | none => exact ih st
    | some m =>
      simp only []
      split
      · exact ih st
      · split
        · exact ih st
        · split
          · rw [ih]
          · split
            · rw [solved_addMotion, solved_removeSubtree]
            · rw [solved_removeSubtree]

theorem solved_isPathValid (cfg : Cfg S α) (t : Bool) (i : Nat) (st : St S α) :
    (isPathValid cfg t i st).2.solved = st.solved := solved_validateFrom cfg t _ st

theorem solved_goalPhase (cfg : Cfg S α) (st : St S α) : (goalPhase cfg st).1.solved = st.solved := by
  unfold goalPhase
  simp only []
  split
  · rw [solved_addMotion]
  · rfl

/-! ### chains -/

/-- parents precede children (part of `ArInv`) -/
theorem parent_lt {cfg : Cfg S α} {starts : Array S} {ar : Array (Motion S)} (h : ArInv cfg starts ar) {i p : Nat}
    {m : Motion S} (hm : ar[i]? = some m) (hp : m.parent = some p) : p < i := by
  have := h i m hm
  simp only [hp] at this
  exact this.1

/-- with enough fuel the chain does not depend on the fuel -/
theorem chainUp_fuel {cfg : Cfg S α} {starts : Array S} {ar : Array (Motion S)} (h : ArInv cfg starts ar) :
    ∀ (f i : Nat), i < f → chainUp ar f i = chainUp ar (i + 1) i := by
  intro f
  induction f using Nat.strongRecOn with
  | _ f ih =>
    intro i hif
    cases f with
    | zero => omega
    | succ f' =>
      show chainUp ar (f' + 1) i = chainUp ar (i + 1) i
      unfold chainUp
      cases hm : ar[i]? with
      | none => rfl
      | some m =>
        simp only []
        cases hp : m.parent with
        | none => rfl
        | some p =>
          simp only []
          have hpi := parent_lt h hm hp
          rw [ih f' (by omega) p (by omega)]
          by_cases hi0 : i = p + 1
          · subst hi0; rfl
          · rw [ih i (by omega) p hpi]

theorem chainUp_frame {a b : Array (Motion S)} (hf : Frame a b) : ∀ (f i : Nat), chainUp b f i = chainUp a f i := by
  intro f
  induction f with
  | zero => intro i; rfl
  | succ f ih =>
    intro i
    unfold chainUp
    cases hm : a[i]? with
    | none =>
      have : b[i]? = none := by
        have : ¬ i < a.size := fun hlt => by
          have : a[i]? = some a[i] := by simp [hlt]
          rw [hm] at this; cases this
        rw [Array.getElem?_eq_none (by rw [hf.1]; omega)]
      rw [this]
    | some m =>
      obtain ⟨m', e0, _, e2, _, _, _⟩ := hf.2 i m hm
      rw [e0]
      simp only [e2]
      cases m.parent with
      | none => rfl
      | some p => simp only [ih]

/-- the chain of a motion: head, membership closed under "has an arena entry" -/
theorem chainUp_head {ar : Array (Motion S)} {f i : Nat} {m : Motion S} (hm : ar[i]? = some m) :
    ∃ tl, chainUp ar (f + 1) i = i :: tl := by
  unfold chainUp
  rw [hm]
  simp only []
  cases m.parent with
  | none => exact ⟨[], rfl⟩
  | some p => exact ⟨_, rfl⟩

theorem chainUp_cons {ar : Array (Motion S)} {f i p : Nat} {m : Motion S} (hm : ar[i]? = some m) (hp : m.parent = some p) :
    chainUp ar (f + 1) i = i :: chainUp ar f p := by
  conv => lhs; unfold chainUp
  rw [hm]
  simp only [hp]

/-! ### accepted chains are real -/

/-- consecutive elements are related -/
def Chain (R : S → S → Prop) : List S → Prop
  | [] => True
  | [_] => True
  | a :: b :: r => R a b ∧ Chain R (b :: r)

theorem chain_snoc (R : S → S → Prop) (l : List S) (x : S) (h : Chain R l)
    (hl : ∀ z, l.getLast? = some z → R z x) : Chain R (l ++ [x]) := by
  induction l with
  | nil => simp [Chain]
  | cons a r ih =>
    cases r with
    | nil => simpa [Chain] using hl a (by simp)
    | cons b r' =>
      obtain ⟨h1, h2⟩ := h
      refine ⟨h1, ?_⟩
      apply ih h2
      intro z hz
      apply hl z
      simpa [List.getLast?_cons_cons] using hz

theorem chain_reverse (R : S → S → Prop) : ∀ (l : List S), Chain (fun a b => R b a) l → Chain R l.reverse
  | [], _ => trivial
  | [_], _ => trivial
  | a :: b :: r, h => by
    have ih := chain_reverse R (b :: r) h.2
    rw [List.reverse_cons]
    apply chain_snoc R _ a ih
    intro z hz
    have : z = b := by simpa [List.getLast?_reverse] using hz.symm
    subst this
    exact h.1

/-- what a truthful LBKPIECE1 report looks like: a start-tree part from a valid start, every step the justified edge
parent → child; a goal-tree part ending in a valid goal sample, every step the justified edge child ← parent (the goal
tree is traversed leaf to root); and the junction between the two parts was answered valid by `checkMotion` (in the
direction it was asked: from the expanded tree's new motion to the other tree's motion). -/
structure SReal (cfg : Cfg S α) (starts : Array S) (path : List S) : Prop where
  parts : ∃ sPart gPart : List S, path = sPart ++ gPart ∧
    Chain (Link cfg) sPart ∧ Chain (fun a b => Link cfg b a) gPart ∧
    (∃ s0, sPart.head? = some s0 ∧ ValidStart cfg starts s0) ∧
    (∃ g0, gPart.getLast? = some g0 ∧ ValidGoal cfg g0) ∧
    (∃ a b, sPart.getLast? = some a ∧ gPart.head? = some b ∧ (Link cfg a b ∨ Link cfg b a))

/-- the chain of a motion all of whose non-root members are flagged valid -/
theorem chain_spec {cfg : Cfg S α} {starts : Array S} {ar : Array (Motion S)} (h : ArInv cfg starts ar) (hc : Coh ar)
    (t : Bool) : ∀ (f i : Nat) (m : Motion S), ar[i]? = some m → i < f → m.inStart = t →
      (∀ j ∈ chainUp ar f i, ∀ mj, ar[j]? = some mj → mj.parent ≠ none → mj.valid = true) →
      ∃ (tl : List S) (r : Motion S),
        (chainUp ar f i).filterMap (fun j => ar[j]?.map (·.state)) = m.state :: tl ∧
        Chain (fun a b => Link cfg b a) (m.state :: tl) ∧ (m.state :: tl).getLast? = some r.state ∧
        RootOK cfg starts r ∧ r.inStart = t := by
  intro f
  induction f with
  | zero => intro i m _ hf; omega
  | succ f ih =>
    intro i m hm hif hmt hval
    have hi := h i m hm
    cases hp : m.parent with
    | none =>
      simp only [hp] at hi
      refine ⟨[], m, ?_, trivial, rfl, hi, hmt⟩
      unfold chainUp
      rw [hm]; simp [hp, hm]
    | some p =>
      simp only [hp] at hi
      obtain ⟨hpi, pm, hpm, hlink⟩ := hi
      have hch := chainUp_cons (f := f) hm hp
      obtain ⟨pm', hpm', hpt⟩ := (hc i m hm).1 p hp
      rw [hpm] at hpm'; cases hpm'
      have hval' : ∀ j ∈ chainUp ar f p, ∀ mj, ar[j]? = some mj → mj.parent ≠ none → mj.valid = true := by
        intro j hj
        exact hval j (by rw [hch]; exact List.mem_cons_of_mem _ hj)
      obtain ⟨tl, r, e1, e2, e3, e4, e5⟩ := ih p pm hpm (by omega) (by rw [hpt, hmt]) hval'
      have hv : m.valid = true := hval i (by rw [hch]; simp) m hm (by rw [hp]; simp)
      refine ⟨pm.state :: tl, r, ?_, ⟨hlink hv, e2⟩, ?_, e4, e5⟩
      · rw [hch, List.filterMap_cons, hm]; simp [e1]
      · rw [List.getLast?_cons_cons]; exact e3

theorem valid_of_frame {a b : Array (Motion S)} (hf : Frame a b) {j : Nat} {x x' : Motion S} (h1 : a[j]? = some x)
    (h2 : b[j]? = some x') (hv : x.valid = true) : x'.valid = true := by
  obtain ⟨m'', e0, _, _, _, _, e5⟩ := hf.2 j x h1
  rw [h2] at e0; cases e0
  exact e5 hv

/-- the connection case: both walks answered `true` -/
theorem connect_real {cfg : Cfg S α} {starts : Array S} (hcoord : ∀ s, (cfg.coord s).length = cfg.P.dim)
    {st : St S α} (h : LInv cfg starts st) (useStart : Bool) (id : Nat) (mid : Motion S) (hmid : st.ar[id]? = some mid)
    (hmidt : mid.inStart = useStart) (existing : Motion S) {x : Coord} {ocd : CellData α}
    (hl : lookup (st.disc (!useStart)).cdata x = some ocd) {co : Nat} (hco : co ∈ ocd.motions) {cm : Motion S}
    (hcm : st.ar[co]? = some cm)
    (h1t : (isPathValid cfg useStart st.ar.size (addMotion cfg st (mkConnect cm existing id useStart))).1 = true)
    (h2t : (isPathValid cfg (!useStart) co
      (isPathValid cfg useStart st.ar.size (addMotion cfg st (mkConnect cm existing id useStart))).2).1 = true) :
    SReal cfg starts (pathOf useStart (isPathValid cfg (!useStart) co
      (isPathValid cfg useStart st.ar.size (addMotion cfg st (mkConnect cm existing id useStart))).2).2.ar id co) := by
  -- names
  generalize hstc : addMotion cfg st (mkConnect cm existing id useStart) = stc at h1t h2t
  have ha1 : ArInv cfg starts stc.ar := by
    rw [← hstc]; exact addMotion_inv h.1 (mkConnect cm existing id useStart) ⟨mid, hmid, fun hv => by cases hv⟩
  have hd1 : DOK cfg stc := by
    rw [← hstc]
    exact addMotion_dok hcoord h.2 (mkConnect cm existing id useStart) rfl rfl (fun p hp => by
      simp only [mkConnect, Option.some.injEq] at hp; subst hp; exact ⟨mid, hmid, hmidt⟩)
  have hsz : stc.ar.size = st.ar.size + 1 := by
    rw [← hstc, (addMotion_frame cfg st _).1.1]; simp
  have hidlt : id < st.ar.size := lt_of_getElem? hmid
  have hcolt : co < st.ar.size := lt_of_getElem? hcm
  -- the entries of `id`, `co` and the connect motion in `stc`
  obtain ⟨mc1, hmc1, hmc1s, hmc1p, _⟩ : ∃ m', stc.ar[st.ar.size]? = some m' ∧ m'.state = cm.state ∧ m'.parent = some id ∧
      m'.valid = false := by
    rw [← hstc]; exact addMotion_last cfg st (mkConnect cm existing id useStart)
  obtain ⟨mid1, hmid1, _, _, _⟩ : ∃ x', stc.ar[id]? = some x' ∧ x'.state = mid.state ∧ x'.parent = mid.parent ∧
      x'.valid = mid.valid := by
    rw [← hstc]; exact addMotion_old cfg st _ hmid
  obtain ⟨mco1, hmco1, hmco1s, _, _⟩ : ∃ x', stc.ar[co]? = some x' ∧ x'.state = cm.state ∧ x'.parent = cm.parent ∧
      x'.valid = cm.valid := by
    rw [← hstc]; exact addMotion_old cfg st _ hcm
  have hmid1t : ∀ x', stc.ar[id]? = some x' → x'.inStart = useStart := by
    rw [← hstc]; exact addMotion_inStart_old cfg st _ (fun x hx => by rw [hmid] at hx; cases hx; exact hmidt) hidlt
  obtain ⟨mco0, hmco0, _, hmco0t⟩ := cell_motion h.2 (!useStart) hl hco
  have hmco1t : ∀ x', stc.ar[co]? = some x' → x'.inStart = (!useStart) := by
    rw [← hstc]
    exact addMotion_inStart_old cfg st _ (fun x hx => by rw [hmco0] at hx; cases hx; exact hmco0t) hcolt
  -- the two walks
  generalize hr1 : isPathValid cfg useStart st.ar.size stc = r1 at h1t h2t
  have hV1 := validateFrom_inv (starts := starts) useStart (chainUp stc.ar (stc.ar.size + 1) st.ar.size).reverse stc ha1
  have hr1' : r1 = validateFrom cfg useStart (chainUp stc.ar (stc.ar.size + 1) st.ar.size).reverse stc := by
    rw [← hr1]; rfl
  rw [← hr1'] at hV1
  obtain ⟨ha2, hV1t⟩ := hV1
  obtain ⟨F1, _, hval1⟩ := hV1t h1t
  have hd2 : DOK cfg r1.2 := by
    rw [← hr1]
    exact isPathValid_dok hcoord useStart _ ha1 hd1 (by
      intro m hm; rw [hmc1] at hm; cases hm
      have := addMotion_inStart_last cfg st (mkConnect cm existing id useStart)
      rw [hstc] at this
      exact this _ hmc1)
  generalize hr2 : isPathValid cfg (!useStart) co r1.2 = r2 at h2t
  have hV2 := validateFrom_inv (starts := starts) (!useStart) (chainUp r1.2.ar (r1.2.ar.size + 1) co).reverse r1.2 ha2
  have hr2' : r2 = validateFrom cfg (!useStart) (chainUp r1.2.ar (r1.2.ar.size + 1) co).reverse r1.2 := by
    rw [← hr2]; rfl
  rw [← hr2'] at hV2
  obtain ⟨ha3, hV2t⟩ := hV2
  obtain ⟨F2, _, hval2⟩ := hV2t h2t
  have hco2t : ∀ m, r1.2.ar[co]? = some m → m.inStart = (!useStart) := inStart_of_frame F1 hmco1t
  have hd3 : DOK cfg r2.2 := by
    rw [← hr2]; exact isPathValid_dok hcoord (!useStart) co ha2 hd2 hco2t
  -- the final arena
  have F12 : Frame stc.ar r2.2.ar := F1.trans F2
  have hszA : r2.2.ar.size = stc.ar.size := F12.1
  obtain ⟨midA, hmidA, hmidAs, _, hmidAt, _, _⟩ := F12.2 id mid1 hmid1
  obtain ⟨mcoA, hmcoA, hmcoAs, _, hmcoAt, _, _⟩ := F12.2 co mco1 hmco1
  obtain ⟨mcA, hmcA, hmcAs, hmcAp, _, _, _⟩ := F12.2 _ mc1 hmc1
  -- chain of `id` in the final arena: all valid
  have hch1 : chainUp r2.2.ar (r2.2.ar.size + 1) id = chainUp stc.ar (stc.ar.size + 1) id := by
    rw [chainUp_frame F12, hszA]
  have hcid : chainUp stc.ar (stc.ar.size + 1) st.ar.size = st.ar.size :: chainUp stc.ar (stc.ar.size + 1) id := by
    rw [chainUp_cons (f := stc.ar.size) hmc1 hmc1p]
    congr 1
    rw [chainUp_fuel ha1 _ id (by omega), chainUp_fuel ha1 (stc.ar.size + 1) id (by omega)]
  have hvalA1 : ∀ j ∈ chainUp r2.2.ar (r2.2.ar.size + 1) id, ∀ mj, r2.2.ar[j]? = some mj → mj.parent ≠ none → mj.valid = true := by
    intro j hj mj hmj hpj
    rw [hch1] at hj
    have hj1 : j ∈ (chainUp stc.ar (stc.ar.size + 1) st.ar.size).reverse := by
      rw [List.mem_reverse, hcid]; exact List.mem_cons_of_mem _ hj
    -- valid after the first walk, kept by the second
    have hjlt : j < r1.2.ar.size := by rw [F1.1, ← hszA]; exact lt_of_getElem? hmj
    obtain ⟨mj1, hmj1⟩ : ∃ mj1, r1.2.ar[j]? = some mj1 := ⟨r1.2.ar[j], by simp [hjlt]⟩
    obtain ⟨m'', e0, _, e2, _, _, _⟩ := F2.2 j mj1 hmj1
    rw [hmj] at e0; cases e0
    exact valid_of_frame F2 hmj1 hmj (hval1 j hj1 mj1 hmj1 (by rw [← e2]; exact hpj))
  have hvalA2 : ∀ j ∈ chainUp r2.2.ar (r2.2.ar.size + 1) co, ∀ mj, r2.2.ar[j]? = some mj → mj.parent ≠ none → mj.valid = true := by
    intro j hj mj hmj hpj
    rw [chainUp_frame F2, F2.1] at hj
    exact hval2 j (List.mem_reverse.2 hj) mj hmj hpj
  -- the connecting edge: the connect motion is valid after the first walk
  have hlinkc : Link cfg midA.state mcA.state := by
    have hcidmem : st.ar.size ∈ (chainUp stc.ar (stc.ar.size + 1) st.ar.size).reverse := by
      rw [List.mem_reverse, hcid]; simp
    obtain ⟨mc2, hmc2, _, hmc2p, _, _, _⟩ := F1.2 _ mc1 hmc1
    have hv2 : mc2.valid = true := hval1 _ hcidmem mc2 hmc2 (by rw [hmc2p, hmc1p]; simp)
    have hvA : mcA.valid = true := valid_of_frame F2 hmc2 hmcA hv2
    have := ha3 _ mcA hmcA
    rw [hmcAp, hmc1p] at this
    simp only [] at this
    obtain ⟨_, pm, hpm, hl⟩ := this
    rw [hmidA] at hpm; cases hpm
    exact hl hvA
  -- the two chains
  obtain ⟨tl1, r1', e1, c1, l1, ro1, rt1⟩ := chain_spec ha3 hd3.coh useStart (r2.2.ar.size + 1) id midA hmidA
    (by rw [hszA, hsz]; omega) (by rw [hmidAt]; exact hmid1t _ hmid1) hvalA1
  obtain ⟨tl2, r2', e2, c2, l2, ro2, rt2⟩ := chain_spec ha3 hd3.coh (!useStart) (r2.2.ar.size + 1) co mcoA hmcoA
    (by rw [hszA, hsz]; omega) (by rw [hmcoAt]; exact hmco1t _ hmco1) hvalA2
  have hstates : mcA.state = mcoA.state := by rw [hmcAs, hmc1s, hmcoAs, hmco1s]
  unfold pathOf chainStates
  rw [e1, e2]
  cases useStart with
  | true =>
    simp only [if_true]
    refine ⟨(midA.state :: tl1).reverse, mcoA.state :: tl2, rfl, chain_reverse _ _ c1, c2, ?_, ?_, ?_⟩
    · refine ⟨r1'.state, ?_, ?_⟩
      · rw [List.head?_reverse]; exact l1
      · have := ro1.2; rw [rt1] at this; simpa using this
    · refine ⟨r2'.state, l2, ?_⟩
      have := ro2.2; rw [rt2] at this; simpa using this
    · exact ⟨midA.state, mcoA.state, by rw [List.getLast?_reverse]; rfl, rfl, Or.inl (hstates ▸ hlinkc)⟩
  | false =>
    simp only [Bool.false_eq_true, if_false]
    refine ⟨(mcoA.state :: tl2).reverse, midA.state :: tl1, rfl, chain_reverse _ _ c2, c1, ?_, ?_, ?_⟩
    · refine ⟨r2'.state, ?_, ?_⟩
      · rw [List.head?_reverse]; exact l2
      · have := ro2.2; rw [rt2] at this; simpa using this
    · refine ⟨r1'.state, l1, ?_⟩
      have := ro1.2; rw [rt1] at this; simpa using this
    · exact ⟨mcoA.state, midA.state, by rw [List.getLast?_reverse]; rfl, rfl, Or.inr (hstates ▸ hlinkc)⟩

theorem step_sol {cfg : Cfg S α} {starts : Array S} (hcoord : ∀ s, (cfg.coord s).length = cfg.P.dim)
    {st : St S α} (h : LInv cfg starts st) (dr : Draw S α) :
    ∀ p, (step cfg st dr).1.solved = some p → st.solved = some p ∨ SReal cfg starts p := by
  intro p
  unfold step
  simp only []
  have h0 : LInv cfg starts (({ st with startTree := !st.startTree } : St S α).setDisc st.startTree
      (countIteration (({ st with startTree := !st.startTree } : St S α).disc st.startTree))) := by
    apply setDisc_linv (st := ({ st with startTree := !st.startTree } : St S α)) ⟨h.1, ⟨h.2.dS, h.2.dG, h.2.coh⟩⟩
    have := (⟨h.2.dS, h.2.dG, h.2.coh⟩ : DOK cfg ({ st with startTree := !st.startTree } : St S α)).disc st.startTree
    exact ⟨this.ginv, this.sync, this.mot, this.cov, this.size, this.lnd⟩
  have hg := goalPhase_linv hcoord h0
  have hgs : (goalPhase cfg (({ st with startTree := !st.startTree } : St S α).setDisc st.startTree
      (countIteration (({ st with startTree := !st.startTree } : St S α).disc st.startTree)))).1.solved = st.solved := by
    rw [solved_goalPhase, solved_setDisc]
  generalize (goalPhase cfg (({ st with startTree := !st.startTree } : St S α).setDisc st.startTree
      (countIteration (({ st with startTree := !st.startTree } : St S α).disc st.startTree)))) = gp at hg hgs
  split
  · intro hp; left; rw [← hgs]; exact hp
  · have hsel := select_inv (hg.2.disc st.startTree) dr.u dr.pick
    have hs := setDisc_linv hg st.startTree _ hsel.1
    split
    · intro hp; left; rw [← hgs, ← solved_setDisc gp.1 st.startTree]; exact hp
    · rename_i e ecell hsome
      have hmem := hsel.2 e ecell hsome
      obtain ⟨me, hme, _, hmet, _⟩ := (mem_liveAr cfg st.startTree gp.1.ar e ecell).1 hmem
      split
      · intro hp; left; rw [← hgs, ← solved_setDisc gp.1 st.startTree]; exact hp
      · rename_i existing hex
        rw [ar_setDisc] at hex
        rw [hme] at hex; cases hex
        generalize hsa : addMotion cfg (gp.1.setDisc st.startTree (select cfg.P (gp.1.disc st.startTree) dr.u dr.pick).1)
            { state := dr.nearSample, parent := some e, root := me.root, valid := false, children := [], inStart := st.startTree } = sa
        have hadd : LInv cfg starts sa := by
          rw [← hsa]
          refine ⟨addMotion_inv hs.1 _ ⟨me, by rw [ar_setDisc]; exact hme, fun hv => by cases hv⟩, ?_⟩
          refine addMotion_dok hcoord hs.2 _ rfl rfl ?_
          intro p' hp'
          simp only [Option.some.injEq] at hp'; subst hp'
          exact ⟨me, by rw [ar_setDisc]; exact hme, hmet⟩
        have hsas : sa.solved = st.solved := by
          rw [← hsa, solved_addMotion, solved_setDisc, hgs]
        have hidx : ∃ m', sa.ar[(gp.1.setDisc st.startTree (select cfg.P (gp.1.disc st.startTree) dr.u dr.pick).1).ar.size]? = some m' ∧
            m'.inStart = st.startTree := by
          rw [← hsa]
          obtain ⟨m', hm', _⟩ := addMotion_last cfg (gp.1.setDisc st.startTree (select cfg.P (gp.1.disc st.startTree) dr.u dr.pick).1)
            { state := dr.nearSample, parent := some e, root := me.root, valid := false, children := [], inStart := st.startTree }
          exact ⟨m', hm', addMotion_inStart_last cfg _ _ m' hm'⟩
        generalize (gp.1.setDisc st.startTree (select cfg.P (gp.1.disc st.startTree) dr.u dr.pick).1).ar.size = id at hidx
        obtain ⟨mid, hmid, hmidt⟩ := hidx
        intro hp
        rcases tryConnect_cases cfg st.startTree sa id me dr.nearSample dr _ with e0 |
          ⟨ocd, co, cm, hl, hco, hcm, r1, r2, hr1, hr2, hcase⟩
        · rw [e0] at hp; left; rw [← hsas]; exact hp
        · rcases hcase with ⟨_, e0⟩ | ⟨_, _, e0⟩ | ⟨h1t, h2t, e0⟩
          · rw [e0, hr1, solved_isPathValid, solved_addMotion] at hp; left; rw [← hsas]; exact hp
          · rw [e0, hr2, solved_isPathValid, hr1, solved_isPathValid, solved_addMotion] at hp; left; rw [← hsas]; exact hp
          · rw [e0] at hp
            simp only [Option.some.injEq] at hp
            right
            rw [← hp, hr2, hr1]
            rw [hr1] at h1t
            rw [hr2, hr1] at h2t
            exact connect_real hcoord hadd st.startTree id mid hmid hmidt me hl hco hcm h1t h2t

theorem loop_sol {cfg : Cfg S α} {starts : Array S} (hcoord : ∀ s, (cfg.coord s).length = cfg.P.dim) :
    ∀ (script : List (Draw S α)) (st : St S α), LInv cfg starts st →
      (∀ p, st.solved = some p → SReal cfg starts p) → ∀ p, (loop cfg st script).1.solved = some p → SReal cfg starts p
  | [], _, _, hs => hs
  | dr :: rest, st, h, hs => by
    have hstep : ∀ p, (step cfg st dr).1.solved = some p → SReal cfg starts p := by
      intro p hp
      rcases step_sol hcoord h dr p hp with h' | h'
      · exact hs p h'
      · exact h'
    unfold loop
    simp only []
    split
    · exact hstep
    · exact loop_sol hcoord rest _ (step_linv hcoord h dr) hstep

theorem addStarts_solved (cfg : Cfg S α) : ∀ (l : List S) (st : St S α), (addStarts cfg l st).solved = st.solved
  | [], _ => rfl
  | s :: rest, st => by unfold addStarts; rw [addStarts_solved cfg rest, solved_addMotion]

end OmplModel.LBKPIECE1
