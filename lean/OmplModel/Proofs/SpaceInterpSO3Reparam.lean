import OmplModel.Proofs.SpaceInterpSO3Geo
/-!
C07, SO(3) over ℝ: exact re-parameterisation of the coded slerp for exactly-unit quaternions, when
both legs used are above the clamp threshold (or the first leg is in the copy branch).
-/
open scoped OmplModel.SpaceInterp.RealNum
attribute [-instance] OmplModel.Num.instOfNat

namespace OmplModel.SpaceInterp
open OmplModel Real RealNum

/-- one component of the slerp point: `(p sin((1-t)θ) + q σ sin(tθ)) / sin θ` -/
noncomputable def slerpC (p q θ σ t : ℝ) : ℝ :=
  (p * Real.sin ((1 - t) * θ) + q * (σ * Real.sin (t * θ))) * (1 / Real.sin θ)

theorem so3Interp_slerpC {x1 y1 z1 w1 x2 y2 z2 w2 : ℝ} (t : ℝ)
    (h : dblEps < arcLength x1 y1 z1 w1 x2 y2 z2 w2) :
    so3Interp x1 y1 z1 w1 x2 y2 z2 w2 t =
      .so3 (slerpC x1 x2 (arcLength x1 y1 z1 w1 x2 y2 z2 w2) (qsgn (quatDot x1 y1 z1 w1 x2 y2 z2 w2)) t)
        (slerpC y1 y2 (arcLength x1 y1 z1 w1 x2 y2 z2 w2) (qsgn (quatDot x1 y1 z1 w1 x2 y2 z2 w2)) t)
        (slerpC z1 z2 (arcLength x1 y1 z1 w1 x2 y2 z2 w2) (qsgn (quatDot x1 y1 z1 w1 x2 y2 z2 w2)) t)
        (slerpC w1 w2 (arcLength x1 y1 z1 w1 x2 y2 z2 w2) (qsgn (quatDot x1 y1 z1 w1 x2 y2 z2 w2)) t) := by
  rw [so3Interp_closed t h]; rfl

/-- `sin x sin q + sin p sin(x+p+q) = sin(x+p) sin(p+q)` -/
theorem slerp_reparam_id (x p q : ℝ) :
    Real.sin x * Real.sin q + Real.sin p * Real.sin (x + p + q)
      = Real.sin (x + p) * Real.sin (p + q) := by
  have e : x + p + q = (x + p) + q := by ring
  rw [e, Real.sin_add (x + p) q, Real.sin_add p q, Real.sin_add x p, Real.cos_add x p]
  linear_combination (-(Real.sin x * Real.sin q)) * Real.sin_sq_add_cos_sq p

/-- the scalar core: slerp of the slerp point towards `to` over the remaining angle -/
theorem slerpC_reparam (p q θ σ s u : ℝ) (hθ : Real.sin θ ≠ 0) (hθ2 : Real.sin ((1 - s) * θ) ≠ 0) :
    slerpC (slerpC p q θ σ s) q ((1 - s) * θ) σ u = slerpC p q θ σ (s + (1 - s) * u) := by
  obtain ⟨x, hx⟩ : ∃ x, x = s * θ := ⟨_, rfl⟩
  obtain ⟨a, ha⟩ : ∃ a, a = u * ((1 - s) * θ) := ⟨_, rfl⟩
  obtain ⟨b, hb⟩ : ∃ b, b = (1 - u) * ((1 - s) * θ) := ⟨_, rfl⟩
  have e1 : (1 - s) * θ = a + b := by rw [ha, hb]; ring
  have e2 : (1 - (s + (1 - s) * u)) * θ = b := by rw [hb]; ring
  have e3 : (s + (1 - s) * u) * θ = x + a := by rw [hx, ha]; ring
  have e4 : θ = x + a + b := by rw [hx, ha, hb]; ring
  have hid := slerp_reparam_id x a b
  unfold slerpC
  rw [e2, e3, ← ha, ← hb, ← hx]
  rw [e1] at hθ2 ⊢
  rw [e4] at hθ ⊢
  generalize Real.sin (x + a + b) = S at hθ hid ⊢
  generalize Real.sin (a + b) = S2 at hθ2 hid ⊢
  generalize Real.sin (x + a) = Sxa at hid ⊢
  generalize Real.sin x = sx at hid ⊢
  generalize Real.sin a = sa at hid ⊢
  generalize Real.sin b = sb at hid ⊢
  field_simp
  linear_combination (q * σ) * hid

/-! ### the second leg: `⟨slerp s, to⟩ = σ cos((1-s)θ)`, so its angle is `(1-s)θ` and its sign is `σ` -/

theorem quatDot_slerp_to {x1 y1 z1 w1 x2 y2 z2 w2 : ℝ} (s : ℝ)
    (h2 : x2 * x2 + y2 * y2 + z2 * z2 + w2 * w2 = 1)
    (h : dblEps < arcLength x1 y1 z1 w1 x2 y2 z2 w2) :
    quatDot
        (slerpC x1 x2 (arcLength x1 y1 z1 w1 x2 y2 z2 w2) (qsgn (quatDot x1 y1 z1 w1 x2 y2 z2 w2)) s)
        (slerpC y1 y2 (arcLength x1 y1 z1 w1 x2 y2 z2 w2) (qsgn (quatDot x1 y1 z1 w1 x2 y2 z2 w2)) s)
        (slerpC z1 z2 (arcLength x1 y1 z1 w1 x2 y2 z2 w2) (qsgn (quatDot x1 y1 z1 w1 x2 y2 z2 w2)) s)
        (slerpC w1 w2 (arcLength x1 y1 z1 w1 x2 y2 z2 w2) (qsgn (quatDot x1 y1 z1 w1 x2 y2 z2 w2)) s)
        x2 y2 z2 w2
      = qsgn (quatDot x1 y1 z1 w1 x2 y2 z2 w2)
          * Real.cos ((1 - s) * arcLength x1 y1 z1 w1 x2 y2 z2 w2) := by
  have hs := (sin_arcLength_pos h).ne'
  have hc := cos_arcLength h
  have key := slerp_dot_to (arcLength x1 y1 z1 w1 x2 y2 z2 w2) s
  have hq := qsgn_mul (quatDot x1 y1 z1 w1 x2 y2 z2 w2)
  have hqq := qsgn_mul_self (quatDot x1 y1 z1 w1 x2 y2 z2 w2)
  rw [hc, ← hq] at key
  unfold slerpC
  generalize qsgn (quatDot x1 y1 z1 w1 x2 y2 z2 w2) = σ at key hqq ⊢
  rw [quatDot_eq] at key
  rw [quatDot_eq]
  generalize Real.sin ((1 - s) * arcLength x1 y1 z1 w1 x2 y2 z2 w2) = s0 at key ⊢
  generalize Real.sin (s * arcLength x1 y1 z1 w1 x2 y2 z2 w2) = s1 at key ⊢
  generalize Real.cos ((1 - s) * arcLength x1 y1 z1 w1 x2 y2 z2 w2) = c2 at key ⊢
  generalize Real.sin (arcLength x1 y1 z1 w1 x2 y2 z2 w2) = S at key hs ⊢
  field_simp
  linear_combination (σ * s1) * h2 + σ * key
    - (s0 * (x1 * x2 + y1 * y2 + z1 * z2 + w1 * w2)) * hqq

theorem abs_qsgn (D : ℝ) : |qsgn D| = 1 := by unfold qsgn; split_ifs <;> norm_num

/-- the sign flip of the second leg equals that of the first -/
theorem qsgn_second_leg {x1 y1 z1 w1 x2 y2 z2 w2 s : ℝ} (hs0 : 0 ≤ s) (hs1 : s ≤ 1)
    (h : dblEps < arcLength x1 y1 z1 w1 x2 y2 z2 w2) :
    qsgn (qsgn (quatDot x1 y1 z1 w1 x2 y2 z2 w2)
        * Real.cos ((1 - s) * arcLength x1 y1 z1 w1 x2 y2 z2 w2))
      = qsgn (quatDot x1 y1 z1 w1 x2 y2 z2 w2) := by
  have hc := cos_arcLength h
  have h0 := arcLength_nonneg x1 y1 z1 w1 x2 y2 z2 w2
  have h1 := arcLength_le_pi_div_two x1 y1 z1 w1 x2 y2 z2 w2
  have hm : (1 - s) * arcLength x1 y1 z1 w1 x2 y2 z2 w2 ≤ arcLength x1 y1 z1 w1 x2 y2 z2 w2 :=
    mul_le_of_le_one_left h0 (by linarith)
  have hm0 : 0 ≤ (1 - s) * arcLength x1 y1 z1 w1 x2 y2 z2 w2 := mul_nonneg (by linarith) h0
  have hle := Real.cos_le_cos_of_nonneg_of_le_pi hm0 (by linarith [pi_pos]) hm
  by_cases hd : quatDot x1 y1 z1 w1 x2 y2 z2 w2 < 0
  · have hpos : 0 < Real.cos ((1 - s) * arcLength x1 y1 z1 w1 x2 y2 z2 w2) := by
      have : 0 < |quatDot x1 y1 z1 w1 x2 y2 z2 w2| := abs_pos.mpr hd.ne
      linarith
    have hσ : qsgn (quatDot x1 y1 z1 w1 x2 y2 z2 w2) = -1 := if_pos hd
    rw [hσ]; unfold qsgn; rw [if_pos (by linarith)]
  · have hnn : 0 ≤ Real.cos ((1 - s) * arcLength x1 y1 z1 w1 x2 y2 z2 w2) := by
      linarith [abs_nonneg (quatDot x1 y1 z1 w1 x2 y2 z2 w2)]
    have hσ : qsgn (quatDot x1 y1 z1 w1 x2 y2 z2 w2) = 1 := if_neg hd
    rw [hσ]; unfold qsgn; rw [if_neg (by linarith)]

/-- SO(3) re-parameterisation, exact, for unit quaternions: if the first leg is in the slerp branch
then the remaining leg must be above the clamp threshold too (`hleg`); if the first leg is in the
copy branch both sides are `from` -/
theorem so3_reparam_leaf {x1 y1 z1 w1 x2 y2 z2 w2 : ℝ} (s u : ℝ)
    (h2 : x2 * x2 + y2 * y2 + z2 * z2 + w2 * w2 = 1) (hs0 : 0 ≤ s) (hs1 : s ≤ 1)
    (hleg : dblEps < arcLength x1 y1 z1 w1 x2 y2 z2 w2 →
      Real.cos ((1 - s) * arcLength x1 y1 z1 w1 x2 y2 z2 w2) ≤ 1 - 1 / 10 ^ 9) :
    interpolate .so3 (interpolate .so3 (.so3 x1 y1 z1 w1) (.so3 x2 y2 z2 w2) s) (.so3 x2 y2 z2 w2) u
      = interpolate .so3 (.so3 x1 y1 z1 w1) (.so3 x2 y2 z2 w2) (s + (1 - s) * u) := by
  show interpolateW so2Interp so2Wrap .so3 (so3Interp x1 y1 z1 w1 x2 y2 z2 w2 s) (.so3 x2 y2 z2 w2) u
    = so3Interp x1 y1 z1 w1 x2 y2 z2 w2 (s + (1 - s) * u)
  by_cases h : dblEps < arcLength x1 y1 z1 w1 x2 y2 z2 w2
  · have hdot := quatDot_slerp_to s h2 h
    have hσ := qsgn_second_leg hs0 hs1 h
    have h0 := arcLength_nonneg x1 y1 z1 w1 x2 y2 z2 w2
    have h1 := arcLength_le_pi_div_two x1 y1 z1 w1 x2 y2 z2 w2
    have hm : (1 - s) * arcLength x1 y1 z1 w1 x2 y2 z2 w2 ≤ arcLength x1 y1 z1 w1 x2 y2 z2 w2 :=
      mul_le_of_le_one_left h0 (by linarith)
    have hm0 : 0 ≤ (1 - s) * arcLength x1 y1 z1 w1 x2 y2 z2 w2 := mul_nonneg (by linarith) h0
    have hcn : 0 ≤ Real.cos ((1 - s) * arcLength x1 y1 z1 w1 x2 y2 z2 w2) :=
      Real.cos_nonneg_of_neg_pi_div_two_le_of_le (by linarith [pi_pos]) (by linarith)
    rw [so3Interp_slerpC s h, so3Interp_slerpC _ h]
    simp only [interpolateW]
    generalize hcx : slerpC x1 x2 (arcLength x1 y1 z1 w1 x2 y2 z2 w2)
      (qsgn (quatDot x1 y1 z1 w1 x2 y2 z2 w2)) s = cx at hdot ⊢
    generalize hcy : slerpC y1 y2 (arcLength x1 y1 z1 w1 x2 y2 z2 w2)
      (qsgn (quatDot x1 y1 z1 w1 x2 y2 z2 w2)) s = cy at hdot ⊢
    generalize hcz : slerpC z1 z2 (arcLength x1 y1 z1 w1 x2 y2 z2 w2)
      (qsgn (quatDot x1 y1 z1 w1 x2 y2 z2 w2)) s = cz at hdot ⊢
    generalize hcw : slerpC w1 w2 (arcLength x1 y1 z1 w1 x2 y2 z2 w2)
      (qsgn (quatDot x1 y1 z1 w1 x2 y2 z2 w2)) s = cw at hdot ⊢
    have habs : |quatDot cx cy cz cw x2 y2 z2 w2|
        = Real.cos ((1 - s) * arcLength x1 y1 z1 w1 x2 y2 z2 w2) := by
      rw [hdot, abs_mul, abs_qsgn, one_mul, abs_of_nonneg hcn]
    have hbig2 : dblEps < arcLength cx cy cz cw x2 y2 z2 w2 :=
      arcLength_big_of_le (by rw [habs]; exact hleg h)
    have harc : arcLength cx cy cz cw x2 y2 z2 w2
        = (1 - s) * arcLength x1 y1 z1 w1 x2 y2 z2 w2 := by
      rw [(arcLength_big hbig2).2, habs, Real.arccos_cos hm0 (by linarith [pi_pos])]
    have hs := (sin_arcLength_pos h).ne'
    have hs2 := (sin_arcLength_pos hbig2).ne'
    rw [harc] at hs2
    rw [so3Interp_slerpC u hbig2, harc, hdot, hσ, ← hcx, ← hcy, ← hcz, ← hcw]
    simp only [slerpC_reparam _ _ _ _ _ _ hs hs2]
  · rw [so3Interp_small s h, so3Interp_small _ h]
    simp only [interpolateW]
    exact so3Interp_small u h

end OmplModel.SpaceInterp
