import OmplModel.Model.Heap
/-! Helper lemmas for the heap model: sift-up / sift-down restore the heap order from the
one-position-violated invariants (any strict weak order). Core Lean only. -/
namespace OmplModel.Heap
variable {κ : Type}

structure SWO (lt : κ → κ → Bool) : Prop where
  asymm : ∀ a b, lt a b = true → lt b a = false
  negtrans : ∀ a b c, lt a b = false → lt b c = false → lt a c = false

def InvFrom (lt : κ → κ → Bool) (a : Array (Elem κ)) (j : Nat) : Prop :=
  ∀ c, (hc : c < a.size) → 0 < c → j ≤ (c - 1) / 2 → lt a[c].key (a[(c - 1) / 2]'(by omega)).key = false

/-- hypotheses of the sift-down lemma: every edge whose parent is ≥ j holds except those below `i`;
and the children of `i` are not smaller than `i`'s parent. -/
def DownH (lt : κ → κ → Bool) (a : Array (Elem κ)) (i j : Nat) : Prop :=
  ∀ c, (hc : c < a.size) → 0 < c → j ≤ (c - 1) / 2 → (c - 1) / 2 ≠ i →
      lt a[c].key (a[(c - 1) / 2]'(by omega)).key = false
def DownG (lt : κ → κ → Bool) (a : Array (Elem κ)) (i j : Nat) : Prop :=
  ∀ c, (hc : c < a.size) → (_h0 : 0 < c) → (_hp : (c - 1) / 2 = i) → 0 < i → j ≤ (i - 1) / 2 →
      lt a[c].key (a[(i - 1) / 2]'(by omega)).key = false

theorem down_step_H {lt : κ → κ → Bool} (h : SWO lt) (a : Array (Elem κ)) (i j c : Nat) (hji : j ≤ i)
    (hcs : c < a.size) (hci : c = 2 * i + 1 ∨ c = 2 * i + 2)
    (hlt : lt a[c].key (a[i]'(by omega)).key = true)
    (hsib : ∀ s, (hs : s < a.size) → (s - 1) / 2 = i → 0 < s → lt a[s].key a[c].key = false)
    (H : DownH lt a i j) (G : DownG lt a i j) :
    DownH lt (a.swap c i hcs (by omega)) c j := by
  have hA := h.asymm
  intro d hd hd0 hjd hne
  simp only [Array.size_swap] at hd
  simp only [Array.getElem_swap]
  unfold DownH at H
  unfold DownG at G
  grind

theorem down_step_G {lt : κ → κ → Bool} (a : Array (Elem κ)) (i j c : Nat) (hji : j ≤ i)
    (hcs : c < a.size) (hci : c = 2 * i + 1 ∨ c = 2 * i + 2)
    (H : DownH lt a i j) :
    DownG lt (a.swap c i hcs (by omega)) c j := by
  intro e he he0 hpe _ _
  simp only [Array.size_swap] at he
  simp only [Array.getElem_swap]
  unfold DownH at H
  grind

theorem siftDown_inv {lt : κ → κ → Bool} (h : SWO lt) (a : Array (Elem κ)) (i j : Nat) (hji : j ≤ i) (hi : i < a.size)
    (H : DownH lt a i j) (G : DownG lt a i j) :
    InvFrom lt (siftDown lt a i) j := by
  have hA := h.asymm
  have hN := h.negtrans
  fun_induction siftDown lt a i with
  | case1 a i h2 hlr hlt ih =>
    refine ih (by omega) (by simp only [Array.size_swap]; omega) ?_ ?_
    · exact down_step_H h a i j (2 * i + 1) hji (by omega) (Or.inl rfl) hlt (by grind) H G
    · exact down_step_G a i j (2 * i + 1) hji (by omega) (Or.inl rfl) H
  | case2 a i h2 hlr hlt =>
    intro d hd hd0 hjd
    unfold DownH at H
    grind
  | case3 a i h2 hlr hlt ih =>
    refine ih (by omega) (by simp only [Array.size_swap]; omega) ?_ ?_
    · exact down_step_H h a i j (2 * i + 2) hji (by omega) (Or.inr rfl) hlt (by grind) H G
    · exact down_step_G a i j (2 * i + 2) hji (by omega) (Or.inr rfl) H
  | case4 a i h2 hlr hlt =>
    intro d hd hd0 hjd
    unfold DownH at H
    grind
  | case5 a i h2 h3 hlt =>
    have := down_step_H h a i j (2 * i + 1) hji (by omega) (Or.inl rfl) hlt (by grind) H G
    intro d hd hd0 hjd
    simp only [Array.size_swap] at hd
    by_cases hp : (d - 1) / 2 = 2 * i + 1
    · omega
    · exact this d (by simpa using hd) hd0 hjd hp
  | case6 a i h2 h3 hlt =>
    intro d hd hd0 hjd
    unfold DownH at H
    grind
  | case7 a i h2 h3 =>
    intro d hd hd0 hjd
    unfold DownH at H
    grind

/-! ### sift up -/

def UpH (lt : κ → κ → Bool) (a : Array (Elem κ)) (i : Nat) : Prop :=
  ∀ c, (hc : c < a.size) → 0 < c → c ≠ i →
      lt a[c].key (a[(c - 1) / 2]'(by omega)).key = false
def UpG (lt : κ → κ → Bool) (a : Array (Elem κ)) (i : Nat) : Prop :=
  ∀ c, (hc : c < a.size) → (_h0 : 0 < c) → (_hp : (c - 1) / 2 = i) → 0 < i →
      lt a[c].key (a[(i - 1) / 2]'(by omega)).key = false

theorem up_step_H {lt : κ → κ → Bool} (h : SWO lt) (a : Array (Elem κ)) (i : Nat)
    (hi0 : 0 < i) (his : i < a.size)
    (hlt : lt a[i].key (a[(i - 1) / 2]'(by omega)).key = true)
    (H : UpH lt a i) (G : UpG lt a i) :
    UpH lt (a.swap i ((i - 1) / 2) his (by omega)) ((i - 1) / 2) := by
  have hA := h.asymm
  have hN := h.negtrans
  intro d hd hd0 hne
  simp only [Array.size_swap] at hd
  simp only [Array.getElem_swap]
  unfold UpH at H
  unfold UpG at G
  grind

theorem up_step_G {lt : κ → κ → Bool} (h : SWO lt) (a : Array (Elem κ)) (i : Nat)
    (hi0 : 0 < i) (his : i < a.size)
    (hlt : lt a[i].key (a[(i - 1) / 2]'(by omega)).key = true)
    (H : UpH lt a i) :
    UpG lt (a.swap i ((i - 1) / 2) his (by omega)) ((i - 1) / 2) := by
  have hA := h.asymm
  have hN := h.negtrans
  intro e he he0 hpe hp0
  simp only [Array.size_swap] at he
  simp only [Array.getElem_swap]
  unfold UpH at H
  grind

theorem siftUp_inv {lt : κ → κ → Bool} (h : SWO lt) (a : Array (Elem κ)) (i : Nat)
    (H : UpH lt a i) (G : UpG lt a i) :
    InvFrom lt (siftUp lt a i) 0 := by
  fun_induction siftUp lt a i with
  | case1 a i hi hlt ih =>
    exact ih (up_step_H h a i hi.1 hi.2 hlt H G) (up_step_G h a i hi.1 hi.2 hlt H)
  | case2 a i hi hlt =>
    intro d hd hd0 _
    unfold UpH at H
    grind
  | case3 a i hi =>
    intro d hd hd0 _
    unfold UpH at H
    grind
@[simp] theorem size_siftUp (lt : κ → κ → Bool) (a : Array (Elem κ)) (i : Nat) : (siftUp lt a i).size = a.size := by
  fun_induction siftUp lt a i <;> simp_all

@[simp] theorem size_siftDown (lt : κ → κ → Bool) (a : Array (Elem κ)) (i : Nat) : (siftDown lt a i).size = a.size := by
  fun_induction siftDown lt a i <;> simp_all

theorem siftUp_perm (lt : κ → κ → Bool) (a : Array (Elem κ)) (i : Nat) : (siftUp lt a i).Perm a := by
  fun_induction siftUp lt a i with
  | case1 a i hi hlt ih => exact ih.trans (Array.swap_perm _ _)
  | case2 => exact Array.Perm.refl _
  | case3 => exact Array.Perm.refl _

theorem siftDown_perm (lt : κ → κ → Bool) (a : Array (Elem κ)) (i : Nat) : (siftDown lt a i).Perm a := by
  fun_induction siftDown lt a i with
  | case1 a i h2 hlr hlt ih => exact ih.trans (Array.swap_perm _ _)
  | case3 a i h2 hlr hlt ih => exact ih.trans (Array.swap_perm _ _)
  | case5 a i h2 h3 hlt => exact Array.swap_perm _ _
  | _ => exact Array.Perm.refl _

/-- full heap order -/
abbrev HeapInv (lt : κ → κ → Bool) (a : Array (Elem κ)) : Prop := InvFrom lt a 0

theorem siftUp_of_not_lt (lt : κ → κ → Bool) (a : Array (Elem κ)) (i : Nat)
    (h : ∀ (h0 : 0 < i) (hi : i < a.size), lt a[i].key (a[(i - 1) / 2]'(by omega)).key = false) :
    siftUp lt a i = a := by
  unfold siftUp
  split
  · rename_i hc
    simp [h hc.1 hc.2]
  · rfl

/-- sifting down from a heap-ordered array keeps it heap ordered -/
theorem siftDown_of_inv {lt : κ → κ → Bool} (h : SWO lt) (a : Array (Elem κ)) (i : Nat) (hi : i < a.size)
    (H : HeapInv lt a) : HeapInv lt (siftDown lt a i) := by
  have hN := h.negtrans
  apply siftDown_inv h a i 0 (Nat.zero_le _) hi
  · intro c hc hc0 _ _; exact H c hc hc0 (Nat.zero_le _)
  · intro c hc hc0 hp hi0 _
    have h1 := H c hc hc0 (Nat.zero_le _)
    have h2 := H i hi hi0 (Nat.zero_le _)
    subst hp
    exact hN _ _ _ h1 h2

/-- `update`-style repair: if every edge not touching `p` holds and the children of `p` are not
smaller than `p`'s parent, sifting up and then down at `p` restores the heap order. -/
theorem fix_inv {lt : κ → κ → Bool} (h : SWO lt) (a : Array (Elem κ)) (p : Nat) (hp : p < a.size)
    (E : ∀ c, (hc : c < a.size) → 0 < c → c ≠ p → (c - 1) / 2 ≠ p →
      lt a[c].key (a[(c - 1) / 2]'(by omega)).key = false)
    (G : UpG lt a p) :
    HeapInv lt (siftDown lt (siftUp lt a p) p) := by
  have hA := h.asymm
  have hN := h.negtrans
  by_cases hlt : ∃ (h0 : 0 < p), lt a[p].key (a[(p - 1) / 2]'(by omega)).key = true
  · obtain ⟨h0, hlt⟩ := hlt
    apply siftDown_of_inv h _ _ (by simpa using hp)
    apply siftUp_inv h a p _ G
    intro c hc hc0 hne
    by_cases hcp : (c - 1) / 2 = p
    · have := G c hc hc0 hcp h0
      subst hcp
      exact hN _ _ _ this (hA _ _ hlt)
    · exact E c hc hc0 hne hcp
  · have hself : siftUp lt a p = a := by
      apply siftUp_of_not_lt
      intro h0 hi
      cases hq : lt a[p].key (a[(p - 1) / 2]'(by omega)).key
      · rfl
      · exact absurd ⟨h0, hq⟩ hlt
    rw [hself]
    apply siftDown_inv h a p 0 (Nat.zero_le _) hp
    · intro c hc hc0 _ hcp
      by_cases hcp2 : c = p
      · subst hcp2
        cases hq : lt a[c].key (a[(c - 1) / 2]'(by omega)).key
        · rfl
        · exact absurd ⟨hc0, hq⟩ hlt
      · exact E c hc hc0 hcp2 hcp
    · intro c hc hc0 hcp h0 _
      exact G c hc hc0 hcp h0

theorem push_siftUp_inv {lt : κ → κ → Bool} (h : SWO lt) (a : Array (Elem κ)) (e : Elem κ)
    (H : HeapInv lt a) : HeapInv lt (siftUp lt (a.push e) ((a.push e).size - 1)) := by
  apply siftUp_inv h
  · intro c hc hc0 hne
    simp only [Array.size_push] at hc hne
    have hc' : c < a.size := by omega
    have := H c hc' hc0 (Nat.zero_le _)
    simp only [Array.getElem_push]
    grind
  · intro c hc hc0 hp _
    simp only [Array.size_push] at hc hp
    omega

theorem set_fix_inv {lt : κ → κ → Bool} (h : SWO lt) (a : Array (Elem κ)) (p : Nat) (hp : p < a.size) (e : Elem κ)
    (H : HeapInv lt a) : HeapInv lt (siftDown lt (siftUp lt (a.set p e hp) p) p) := by
  have hN := h.negtrans
  apply fix_inv h _ p (by simpa using hp)
  · intro c hc hc0 hne hpne
    simp only [Array.size_set] at hc
    have := H c hc hc0 (Nat.zero_le _)
    simp only [Array.getElem_set]
    grind
  · intro c hc hc0 hcp h0
    simp only [Array.size_set] at hc
    have h1 := H c hc hc0 (Nat.zero_le _)
    have h2 := H p hp h0 (Nat.zero_le _)
    simp only [Array.getElem_set]
    grind

theorem removePos_inv {lt : κ → κ → Bool} (h : SWO lt) (a : Array (Elem κ)) (p : Nat) (hp : p < a.size)
    (H : HeapInv lt a) : HeapInv lt (removePos lt a p) := by
  have hN := h.negtrans
  unfold removePos
  split
  · rename_i hlt
    apply fix_inv h _ p (by simp; omega)
    · intro c hc hc0 hne hpne
      simp only [Array.size_pop, Array.size_swap] at hc
      have := H c (by omega) hc0 (Nat.zero_le _)
      simp only [Array.getElem_pop, Array.getElem_swap]
      grind
    · intro c hc hc0 hcp h0
      simp only [Array.size_pop, Array.size_swap] at hc
      have h1 := H c (by omega) hc0 (Nat.zero_le _)
      have h2 := H p hp h0 (Nat.zero_le _)
      simp only [Array.getElem_pop, Array.getElem_swap]
      grind
  · intro c hc hc0 _
    simp only [Array.size_pop] at hc
    have := H c (by omega) hc0 (Nat.zero_le _)
    simpa [Array.getElem_pop] using this

theorem buildLoop_inv {lt : κ → κ → Bool} (h : SWO lt) (k : Nat) (a : Array (Elem κ)) (hk : 2 * k ≤ a.size)
    (H : InvFrom lt a k) : HeapInv lt (buildLoop lt a k) := by
  induction k generalizing a with
  | zero => exact H
  | succ k ih =>
    unfold buildLoop
    apply ih
    · simp; omega
    · apply siftDown_inv h a k k (Nat.le_refl _) (by omega)
      · intro c hc hc0 hj hne
        exact H c hc hc0 (by omega)
      · intro c hc hc0 hp h0 hj
        omega

theorem build_inv {lt : κ → κ → Bool} (h : SWO lt) (a : Array (Elem κ)) : HeapInv lt (build lt a) := by
  unfold build
  apply buildLoop_inv h _ a (by omega)
  intro c hc hc0 hj
  omega
/-! ### every public operation preserves the heap order -/

theorem insert_inv {lt : κ → κ → Bool} (h : SWO lt) (s : Heap κ) (k : κ) (H : HeapInv lt s.arr) :
    HeapInv lt (s.insert lt k).arr := by
  unfold Heap.insert
  exact push_siftUp_inv h s.arr ⟨s.next, k⟩ H

theorem insertMany_inv {lt : κ → κ → Bool} (h : SWO lt) (ks : List κ) (s : Heap κ) (H : HeapInv lt s.arr) :
    HeapInv lt (s.insertMany lt ks).arr := by
  unfold Heap.insertMany
  induction ks generalizing s with
  | nil => exact H
  | cons k ks ih => exact ih _ (insert_inv h s k H)

theorem findIdx_lt (a : Array (Elem κ)) (hd : Nat) (p : Nat) (h : findIdx a hd = some p) : p < a.size := by
  unfold findIdx at h
  have := Array.findIdx?_eq_some_iff_findIdx_eq.mp h
  exact this.1

theorem remove_inv {lt : κ → κ → Bool} (h : SWO lt) (s : Heap κ) (hd : Nat) (H : HeapInv lt s.arr) :
    HeapInv lt (s.remove lt hd).arr := by
  unfold Heap.remove
  split
  · rename_i p hp
    exact removePos_inv h s.arr p (findIdx_lt _ _ _ hp) H
  · exact H

theorem pop_inv {lt : κ → κ → Bool} (h : SWO lt) (s : Heap κ) (H : HeapInv lt s.arr) :
    HeapInv lt (s.pop lt).arr := by
  unfold Heap.pop
  split
  · exact H
  · exact removePos_inv h s.arr 0 (by omega) H

theorem setKey_inv {lt : κ → κ → Bool} (h : SWO lt) (s : Heap κ) (hd : Nat) (k : κ) (H : HeapInv lt s.arr) :
    HeapInv lt (s.setKey lt hd k).arr := by
  unfold Heap.setKey
  split
  · split
    · rename_i hp
      exact set_fix_inv h s.arr _ hp _ H
    · exact H
  · exact H

theorem step_inv {lt : κ → κ → Bool} (h : SWO lt) (s : Heap κ) (op : Op κ) (H : HeapInv lt s.arr) :
    HeapInv lt (s.step lt op).arr := by
  cases op with
  | insert k => exact insert_inv h s k H
  | insertMany ks => exact insertMany_inv h ks s H
  | remove hd => exact remove_inv h s hd H
  | setKey hd k => exact setKey_inv h s hd k H
  | pop => exact pop_inv h s H
  | pokeRebuild chg => exact build_inv h _
  | buildFrom ks => exact build_inv h _
  | sort ks => exact H
  | clear => intro c hc; exact absurd hc (Nat.not_lt_zero _)

theorem run_inv {lt : κ → κ → Bool} (h : SWO lt) (ops : List (Op κ)) (s : Heap κ) (H : HeapInv lt s.arr) :
    HeapInv lt (s.run lt ops).arr := by
  unfold Heap.run
  induction ops generalizing s with
  | nil => exact H
  | cons op ops ih => exact ih _ (step_inv h s op H)

/-- the root is a minimum -/
theorem top_min {lt : κ → κ → Bool} (h : SWO lt) (a : Array (Elem κ)) (H : HeapInv lt a) :
    ∀ i, (hi : i < a.size) → lt a[i].key (a[0]'(by omega)).key = false := by
  have hN := h.negtrans
  intro i
  induction i using Nat.strongRecOn with
  | _ i ih =>
    intro hi
    by_cases h0 : i = 0
    · subst h0
      cases hq : lt a[0].key a[0].key
      · rfl
      · have := h.asymm _ _ hq; simp_all
    · have h1 := H i hi (by omega) (Nat.zero_le _)
      have h2 := ih ((i - 1) / 2) (by omega) (by omega)
      exact hN _ _ _ h1 h2
/-! ### contents: every operation permutes / adds / deletes exactly what it should -/

theorem pop_toList_concat (b : Array (Elem κ)) (hb : 0 < b.size) :
    b.pop.toList ++ [b[b.size - 1]'(by omega)] = b.toList := by
  have hne : b.toList ≠ [] := by
    intro h
    have h3 : b.toList.length = 0 := by rw [h]; rfl
    rw [Array.length_toList] at h3; omega
  have h1 := List.dropLast_concat_getLast hne
  have h2 : b.toList.getLast hne = b[b.size - 1]'(by omega) := by
    simp [List.getLast_eq_getElem]
  rw [Array.toList_pop, ← h2]
  exact h1

theorem removePos_perm (lt : κ → κ → Bool) (a : Array (Elem κ)) (p : Nat) (hp : p < a.size) :
    (a[p] :: (removePos lt a p).toList).Perm a.toList := by
  unfold removePos
  split
  · rename_i hlt
    have hb : 0 < (a.swap p (a.size - 1) (by omega) (by omega)).size := by simp; omega
    have h1 := pop_toList_concat (a.swap p (a.size - 1) (by omega) (by omega)) hb
    have h2 : (a.swap p (a.size - 1) (by omega) (by omega))[(a.swap p (a.size - 1) (by omega) (by omega)).size - 1]'(by omega) = a[p] := by
      simp
    rw [h2] at h1
    have h3 : (siftDown lt (siftUp lt (a.swap p (a.size - 1) (by omega) (by omega)).pop p) p).toList.Perm
        (a.swap p (a.size - 1) (by omega) (by omega)).pop.toList :=
      ((siftDown_perm lt _ p).trans (siftUp_perm lt _ p)).toList
    have h4 : (a.swap p (a.size - 1) (by omega) (by omega)).toList.Perm a.toList := (Array.swap_perm _ _).toList
    refine List.Perm.trans ?_ h4
    rw [← h1]
    refine List.Perm.trans (List.Perm.cons _ h3) ?_
    exact (List.perm_append_singleton _ _).symm
  · have hb : 0 < a.size := by omega
    have h1 := pop_toList_concat a hb
    have h2 : p = a.size - 1 := by omega
    subst h2
    rw [← h1]
    exact (List.perm_append_singleton _ _).symm


@[simp] theorem size_removePos (lt : κ → κ → Bool) (a : Array (Elem κ)) (p : Nat) :
    (removePos lt a p).size = a.size - 1 := by
  unfold removePos; split <;> simp

theorem insert_perm (lt : κ → κ → Bool) (s : Heap κ) (k : κ) :
    (s.insert lt k).arr.toList.Perm (⟨s.next, k⟩ :: s.arr.toList) := by
  unfold Heap.insert
  refine (siftUp_perm lt _ _).toList.trans ?_
  simp only [Array.toList_push]
  exact List.perm_append_singleton _ _

theorem buildLoop_perm (lt : κ → κ → Bool) (k : Nat) (a : Array (Elem κ)) : (buildLoop lt a k).Perm a := by
  induction k generalizing a with
  | zero => exact Array.Perm.refl _
  | succ k ih => unfold buildLoop; exact (ih _).trans (siftDown_perm lt a k)

theorem build_perm (lt : κ → κ → Bool) (a : Array (Elem κ)) : (build lt a).Perm a := buildLoop_perm lt _ a

/-! ### draining -/

/-- no inversion: a later element is never smaller than an earlier one -/
def Sorted (lt : κ → κ → Bool) (l : List (Elem κ)) : Prop := l.Pairwise (fun x y => lt y.key x.key = false)

theorem drain_perm (lt : κ → κ → Bool) (n : Nat) (a : Array (Elem κ)) (hn : n = a.size) :
    (drain lt n a).Perm a.toList := by
  induction n generalizing a with
  | zero =>
    have : a = #[] := by apply Array.eq_empty_of_size_eq_zero; omega
    subst this; simp [drain]
  | succ n ih =>
    unfold drain
    have h0 : 0 < a.size := by omega
    simp only [h0, ↓reduceDIte]
    refine List.Perm.trans (List.Perm.cons _ (ih (removePos lt a 0) (by simp; omega))) ?_
    exact removePos_perm lt a 0 h0

theorem drain_sorted {lt : κ → κ → Bool} (h : SWO lt) (n : Nat) (a : Array (Elem κ)) (hn : n = a.size)
    (H : HeapInv lt a) : Sorted lt (drain lt n a) := by
  induction n generalizing a with
  | zero => simp [drain, Sorted]
  | succ n ih =>
    unfold drain
    have h0 : 0 < a.size := by omega
    simp only [h0, ↓reduceDIte]
    unfold Sorted
    rw [List.pairwise_cons]
    refine ⟨?_, ih _ (by simp; omega) (removePos_inv h a 0 h0 H)⟩
    intro y hy
    have hy1 : y ∈ (removePos lt a 0).toList := (drain_perm lt n _ (by simp; omega)).mem_iff.mp hy
    have hy2 : y ∈ a.toList := (removePos_perm lt a 0 h0).mem_iff.mp (List.mem_cons_of_mem _ hy1)
    obtain ⟨i, hi, rfl⟩ := List.getElem_of_mem hy2
    simp only [Array.length_toList] at hi
    simpa using top_min h a H i hi

/-! ### sort -/

theorem freshElems_keys (n : Nat) (ks : List κ) : (freshElems n ks).map (·.key) = ks := by
  induction ks generalizing n with
  | nil => rfl
  | cons k ks ih => simp [freshElems, ih]

theorem freshElems_handles (n : Nat) (ks : List κ) : (freshElems n ks).map (·.h) = List.range' n ks.length := by
  induction ks generalizing n with
  | nil => rfl
  | cons k ks ih => simp [freshElems, ih, List.range'_succ]

theorem sort_perm (lt : κ → κ → Bool) (s : Heap κ) (ks : List κ) : (s.sort lt ks).Perm ks := by
  unfold Heap.sort
  have h1 := drain_perm lt _ (build lt (freshElems 0 ks).toArray) rfl
  have h2 := (build_perm lt (freshElems 0 ks).toArray).toList
  have h3 := (h1.trans h2).map (·.key)
  simpa [freshElems_keys] using h3

theorem sort_sorted {lt : κ → κ → Bool} (h : SWO lt) (s : Heap κ) (ks : List κ) :
    (s.sort lt ks).Pairwise (fun x y => lt y x = false) := by
  unfold Heap.sort
  have := drain_sorted h _ (build lt (freshElems 0 ks).toArray) rfl (build_inv h _)
  unfold Sorted at this
  exact List.Pairwise.map _ (fun _ _ h => h) this

/-! ### handles -/

/-- handles are pairwise distinct and below `next` -/
structure Wf (s : Heap κ) : Prop where
  nodup : (s.arr.toList.map (·.h)).Nodup
  bound : ∀ e ∈ s.arr.toList, e.h < s.next

theorem findIdx_spec (a : Array (Elem κ)) (hd p : Nat) (h : findIdx a hd = some p) :
    ∃ hp : p < a.size, a[p].h = hd := by
  unfold findIdx at h
  obtain ⟨hp, h1, _⟩ := Array.findIdx?_eq_some_iff_getElem.mp h
  exact ⟨hp, by simpa using h1⟩

theorem findIdx_none (a : Array (Elem κ)) (hd : Nat) (h : findIdx a hd = none) : ∀ e ∈ a.toList, e.h ≠ hd := by
  unfold findIdx at h
  intro e he
  have := Array.findIdx?_eq_none_iff.mp h e (by simpa using he)
  simpa using this


theorem map_h_set (a : Array (Elem κ)) (p : Nat) (hp : p < a.size) (e : Elem κ) (he : e.h = a[p].h) :
    (a.set p e hp).toList.map (·.h) = a.toList.map (·.h) := by
  rw [Array.toList_set, List.map_set, he]
  have : a[p].h = (a.toList.map (·.h))[p]'(by simpa using hp) := by simp
  rw [this, List.set_getElem_self]

theorem mem_set_bound (a : Array (Elem κ)) (p : Nat) (hp : p < a.size) (e : Elem κ) (n : Nat)
    (hb : ∀ x ∈ a.toList, x.h < n) (he : e.h < n) : ∀ x ∈ (a.set p e hp).toList, x.h < n := by
  intro x hx
  rw [Array.toList_set] at hx
  rcases List.mem_or_eq_of_mem_set hx with h | h
  · exact hb x h
  · exact h ▸ he

theorem wf_of_perm {s s' : Heap κ} (hp : s'.arr.toList.Perm s.arr.toList) (hn : s'.next = s.next) (W : Wf s) :
    Wf s' := by
  refine ⟨(hp.map _).nodup_iff.mpr W.nodup, ?_⟩
  intro e he; rw [hn]; exact W.bound e (hp.mem_iff.mp he)

theorem wf_of_perm_cons {s s' : Heap κ} (e : Elem κ) (hp : (e :: s'.arr.toList).Perm s.arr.toList)
    (hn : s'.next = s.next) (W : Wf s) : Wf s' := by
  have h1 : ((e :: s'.arr.toList).map (·.h)).Nodup := (hp.map _).nodup_iff.mpr W.nodup
  refine ⟨(List.nodup_cons.mp h1).2, ?_⟩
  intro x hx; rw [hn]; exact W.bound x (hp.mem_iff.mp (List.mem_cons_of_mem _ hx))

theorem insert_wf (lt : κ → κ → Bool) (s : Heap κ) (k : κ) (W : Wf s) : Wf (s.insert lt k) := by
  have hp := insert_perm lt s k
  refine ⟨(hp.map _).nodup_iff.mpr ?_, ?_⟩
  · simp only [List.map_cons]
    refine List.nodup_cons.mpr ⟨?_, W.nodup⟩
    intro hmem
    obtain ⟨e, he, heq⟩ := List.mem_map.mp hmem
    have := W.bound e he
    omega
  · intro e he
    have : (s.insert lt k).next = s.next + 1 := rfl
    rw [this]
    rcases List.mem_cons.mp (hp.mem_iff.mp he) with h | h
    · subst h; exact Nat.lt_succ_self _
    · exact Nat.lt_succ_of_lt (W.bound e h)

theorem insertMany_wf (lt : κ → κ → Bool) (ks : List κ) (s : Heap κ) (W : Wf s) : Wf (s.insertMany lt ks) := by
  unfold Heap.insertMany
  induction ks generalizing s with
  | nil => exact W
  | cons k ks ih => exact ih _ (insert_wf lt s k W)

theorem remove_wf (lt : κ → κ → Bool) (s : Heap κ) (hd : Nat) (W : Wf s) : Wf (s.remove lt hd) := by
  unfold Heap.remove
  split
  · rename_i p hp
    obtain ⟨hps, _⟩ := findIdx_spec _ _ _ hp
    exact wf_of_perm_cons (s := s) _ (removePos_perm lt s.arr p hps) rfl W
  · exact W

theorem pop_wf (lt : κ → κ → Bool) (s : Heap κ) (W : Wf s) : Wf (s.pop lt) := by
  unfold Heap.pop
  split
  · exact W
  · exact wf_of_perm_cons (s := s) _ (removePos_perm lt s.arr 0 (by omega)) rfl W

theorem setKey_wf (lt : κ → κ → Bool) (s : Heap κ) (hd : Nat) (k : κ) (W : Wf s) : Wf (s.setKey lt hd k) := by
  unfold Heap.setKey
  split
  · rename_i p hp
    obtain ⟨hps, hh⟩ := findIdx_spec _ _ _ hp
    simp only [hps, ↓reduceDIte]
    have hperm : (siftDown lt (siftUp lt (s.arr.set p ⟨hd, k⟩ hps) p) p).toList.Perm (s.arr.set p ⟨hd, k⟩ hps).toList :=
      ((siftDown_perm lt _ p).trans (siftUp_perm lt _ p)).toList
    refine ⟨(hperm.map _).nodup_iff.mpr ?_, ?_⟩
    · rw [map_h_set _ _ _ _ hh.symm]; exact W.nodup
    · intro e he
      have := hperm.mem_iff.mp he
      exact mem_set_bound s.arr p hps ⟨hd, k⟩ s.next W.bound (by have h9 := W.bound s.arr[p] (by simp); rw [hh] at h9; exact h9) e this
  · exact W


theorem pokeAll_spec (chg : List (Nat × κ)) (a : Array (Elem κ)) (n : Nat) :
    (pokeAll a chg).toList.map (·.h) = a.toList.map (·.h) ∧
    ((∀ x ∈ a.toList, x.h < n) → ∀ x ∈ (pokeAll a chg).toList, x.h < n) := by
  induction chg generalizing a with
  | nil => exact ⟨rfl, fun h => h⟩
  | cons c rest ih =>
    obtain ⟨hd, k⟩ := c
    unfold pokeAll
    split
    · rename_i p hp
      obtain ⟨hps, hh⟩ := findIdx_spec _ _ _ hp
      have e1 : a.setIfInBounds p ⟨hd, k⟩ = a.set p ⟨hd, k⟩ hps := by simp [Array.setIfInBounds, hps]
      rw [e1]
      obtain ⟨i1, i2⟩ := ih (a.set p ⟨hd, k⟩ hps)
      refine ⟨i1.trans (map_h_set _ _ _ _ hh.symm), fun hb => i2 ?_⟩
      exact mem_set_bound a p hps ⟨hd, k⟩ n hb (by have h9 := hb a[p] (by simp); rw [hh] at h9; exact h9)
    · exact ih a

theorem pokeRebuild_wf (lt : κ → κ → Bool) (s : Heap κ) (chg : List (Nat × κ)) (W : Wf s) :
    Wf (s.pokeRebuild lt chg) := by
  unfold Heap.pokeRebuild
  have hp := (build_perm lt (pokeAll s.arr chg)).toList
  obtain ⟨h1, h2⟩ := pokeAll_spec chg s.arr s.next
  refine ⟨(hp.map _).nodup_iff.mpr (h1 ▸ W.nodup), ?_⟩
  intro e he
  exact h2 W.bound e (hp.mem_iff.mp he)

theorem buildFrom_wf (lt : κ → κ → Bool) (s : Heap κ) (ks : List κ) : Wf (s.buildFrom lt ks) := by
  unfold Heap.buildFrom
  have hp := (build_perm lt (freshElems s.next ks).toArray).toList
  refine ⟨(hp.map _).nodup_iff.mpr ?_, ?_⟩
  · simp only [freshElems_handles]; exact List.nodup_range'
  · intro e he
    have hm : e.h ∈ (freshElems s.next ks).map (·.h) := List.mem_map_of_mem (hp.mem_iff.mp he)
    rw [freshElems_handles] at hm
    have := List.mem_range'_1.mp hm
    show e.h < s.next + ks.length
    omega

theorem step_wf (lt : κ → κ → Bool) (s : Heap κ) (op : Op κ) (W : Wf s) : Wf (s.step lt op) := by
  cases op with
  | insert k => exact insert_wf lt s k W
  | insertMany ks => exact insertMany_wf lt ks s W
  | remove hd => exact remove_wf lt s hd W
  | setKey hd k => exact setKey_wf lt s hd k W
  | pop => exact pop_wf lt s W
  | pokeRebuild chg => exact pokeRebuild_wf lt s chg W
  | buildFrom ks => exact buildFrom_wf lt s ks
  | sort ks => exact W
  | clear => exact ⟨by simp [Heap.step, Heap.clear], by simp [Heap.step, Heap.clear]⟩

theorem run_wf (lt : κ → κ → Bool) (ops : List (Op κ)) (s : Heap κ) (W : Wf s) : Wf (s.run lt ops) := by
  unfold Heap.run
  induction ops generalizing s with
  | nil => exact W
  | cons op ops ih => exact ih _ (step_wf lt s op W)

theorem empty_wf : Wf (Heap.empty : Heap κ) := ⟨by simp [Heap.empty], by simp [Heap.empty]⟩

/-- a live handle names exactly one element -/
theorem handle_unique {s : Heap κ} (W : Wf s) (i j : Nat) (hi : i < s.arr.size) (hj : j < s.arr.size)
    (h : s.arr[i].h = s.arr[j].h) : i = j := by
  have hi' : i < (s.arr.toList.map (·.h)).length := by simpa using hi
  have hj' : j < (s.arr.toList.map (·.h)).length := by simpa using hj
  exact (List.getElem_inj (h₀ := hi') (h₁ := hj') W.nodup).mp (by simpa using h)

/-! ### per-operation specifications against the abstract handle → key map -/

theorem remove_spec_live (lt : κ → κ → Bool) (s : Heap κ) (hd : Nat) (W : Wf s)
    (hlive : ∃ e ∈ s.arr.toList, e.h = hd) :
    ∃ e, e.h = hd ∧ (e :: (s.remove lt hd).arr.toList).Perm s.arr.toList ∧
      ∀ x ∈ (s.remove lt hd).arr.toList, x.h ≠ hd := by
  unfold Heap.remove
  split
  · rename_i p hp
    obtain ⟨hps, hh⟩ := findIdx_spec _ _ _ hp
    have hperm := removePos_perm lt s.arr p hps
    refine ⟨s.arr[p], hh, hperm, ?_⟩
    intro x hx hxh
    have h1 : ((s.arr[p] :: (removePos lt s.arr p).toList).map (·.h)).Nodup := (hperm.map _).nodup_iff.mpr W.nodup
    have h2 := (List.nodup_cons.mp h1).1
    apply h2
    show s.arr[p].h ∈ _
    rw [hh, ← hxh]
    exact List.mem_map_of_mem (f := fun x => x.h) hx
  · rename_i hnone
    obtain ⟨e, he, heh⟩ := hlive
    exact absurd heh (findIdx_none _ _ hnone e he)

theorem remove_spec_dead (lt : κ → κ → Bool) (s : Heap κ) (hd : Nat)
    (hdead : ∀ e ∈ s.arr.toList, e.h ≠ hd) : s.remove lt hd = s := by
  unfold Heap.remove
  split
  · rename_i p hp
    obtain ⟨hps, hh⟩ := findIdx_spec _ _ _ hp
    exact absurd hh (hdead _ (by simp))
  · rfl

theorem pop_spec {lt : κ → κ → Bool} (h : SWO lt) (s : Heap κ) (H : HeapInv lt s.arr) (hne : 0 < s.arr.size) :
    ∃ e ∈ s.arr.toList, (∀ x ∈ s.arr.toList, lt x.key e.key = false) ∧
      (e :: (s.pop lt).arr.toList).Perm s.arr.toList := by
  refine ⟨s.arr[0], by simp, ?_, ?_⟩
  · intro x hx
    obtain ⟨i, hi, rfl⟩ := List.getElem_of_mem hx
    simp only [Array.length_toList] at hi
    simpa using top_min h s.arr H i hi
  · unfold Heap.pop
    have : ¬ s.arr.size = 0 := by omega
    simp only [this, ↓reduceIte]
    exact removePos_perm lt s.arr 0 hne

theorem setKey_spec_live (lt : κ → κ → Bool) (s : Heap κ) (hd : Nat) (k : κ) (W : Wf s)
    (hlive : ∃ e ∈ s.arr.toList, e.h = hd) :
    (s.setKey lt hd k).arr.toList.Perm (s.arr.toList.map (fun e => if e.h = hd then ⟨hd, k⟩ else e)) := by
  unfold Heap.setKey
  split
  · rename_i p hp
    obtain ⟨hps, hh⟩ := findIdx_spec _ _ _ hp
    simp only [hps, ↓reduceDIte]
    refine ((siftDown_perm lt _ p).trans (siftUp_perm lt _ p)).toList.trans ?_
    rw [Array.toList_set]
    apply List.Perm.of_eq
    apply List.ext_getElem
    · simp
    · intro i h1 h2
      simp only [List.getElem_set, List.getElem_map, Array.getElem_toList]
      have hi : i < s.arr.size := by simpa using h2
      by_cases hip : p = i
      · subst hip; simp [hh]
      · simp only [hip, ↓reduceIte]
        have : s.arr[i].h ≠ hd := by
          intro hc
          exact hip (handle_unique W p i hps hi (hh.trans hc.symm))
        simp [this]
  · rename_i hnone
    obtain ⟨e, he, heh⟩ := hlive
    exact absurd heh (findIdx_none _ _ hnone e he)

end OmplModel.Heap
