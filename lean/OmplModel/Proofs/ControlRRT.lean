import OmplModel.Proofs.Control
import OmplModel.Model.CRRT
/-! Helper lemmas for `Model/CRRT.lean`: the tree invariant of `control::RRT::solve` and the
replay property of every path extracted from a tree that satisfies it. Core Lean only. -/
namespace OmplModel.CRRT
open OmplModel.Control
variable {S U δ : Type}

/-- the control of a motion is one of the scripted draws, with a whole step count as coded -/
def GoodCtl (P : Problem S U δ) (draws : List (Draw S U)) (u : U) (k : Nat) : Prop :=
  ∃ d ∈ draws, ∃ k0, (u, k0) ∈ d.ctl ∧
    (if P.intermediate then k = 1 else (P.minSteps ≤ k ∧ k ≤ k0))

/-- motion `m` at index `i`: a valid start state, or the exact, all-valid propagation of an
earlier motion under a control/step count accepted by `G` (generic over the planner) -/
def GoodMotionG (step : S → U → S) (valid : S → Bool) (starts : List S) (G : U → Nat → Prop)
    (tree : Array (Motion S U)) (i : Nat) (m : Motion S U) : Prop :=
  (m.parent = none ∧ m.state ∈ starts ∧ valid m.state = true) ∨
  (∃ p pm, m.parent = some p ∧ p < i ∧ tree[p]? = some pm ∧
    m.state = propagate step pm.state m.control m.steps ∧
    (∀ j, 1 ≤ j → j ≤ m.steps → valid (propagate step pm.state m.control j) = true) ∧
    G m.control m.steps)

def TreeInvG (step : S → U → S) (valid : S → Bool) (starts : List S) (G : U → Nat → Prop)
    (tree : Array (Motion S U)) : Prop :=
  ∀ i m, tree[i]? = some m → GoodMotionG step valid starts G tree i m

/-- the RRT instance: the control is one of the scripted `sampleTo` draws -/
abbrev GoodMotion (P : Problem S U δ) (starts : List S) (draws : List (Draw S U))
    (tree : Array (Motion S U)) (i : Nat) (m : Motion S U) : Prop :=
  GoodMotionG P.step P.valid starts (GoodCtl P draws) tree i m

abbrev TreeInv (P : Problem S U δ) (starts : List S) (draws : List (Draw S U))
    (tree : Array (Motion S U)) : Prop :=
  TreeInvG P.step P.valid starts (GoodCtl P draws) tree

def LoopInv (P : Problem S U δ) (st : LoopSt S U δ) : Prop :=
  (∀ i, st.solution = some i → ∃ m, st.tree[i]? = some m ∧ (P.goal m.state).1 = true) ∧
  (∀ i, st.approxsol = some i → i < st.tree.size)

def Inv (P : Problem S U δ) (starts : List S) (draws : List (Draw S U)) (st : LoopSt S U δ) : Prop :=
  TreeInv P starts draws st.tree ∧ LoopInv P st

theorem lt_size_of_getElem? {α : Type} {a : Array α} {i : Nat} {x : α} (h : a[i]? = some x) :
    i < a.size := by
  obtain ⟨h', _⟩ := Array.getElem?_eq_some_iff.mp h
  exact h'

theorem getElem?_push_lt {α : Type} (a : Array α) (x : α) (i : Nat) (h : i < a.size) :
    (a.push x)[i]? = a[i]? := by
  rw [Array.getElem?_push, if_neg (by omega)]

theorem goodMotionG_push (step : S → U → S) (valid : S → Bool) (starts : List S) (G : U → Nat → Prop)
    (tree : Array (Motion S U)) (x : Motion S U) (i : Nat) (m : Motion S U) (hi : i ≤ tree.size)
    (h : GoodMotionG step valid starts G tree i m) : GoodMotionG step valid starts G (tree.push x) i m := by
  cases h with
  | inl h => exact Or.inl h
  | inr h =>
    obtain ⟨p, pm, h1, h2, h3, h4⟩ := h
    exact Or.inr ⟨p, pm, h1, h2, by rw [getElem?_push_lt _ _ _ (by omega)]; exact h3, h4⟩

theorem treeInvG_push (step : S → U → S) (valid : S → Bool) (starts : List S) (G : U → Nat → Prop)
    (tree : Array (Motion S U)) (m : Motion S U) (hT : TreeInvG step valid starts G tree)
    (hm : GoodMotionG step valid starts G tree tree.size m) :
    TreeInvG step valid starts G (tree.push m) := by
  intro i m' hi
  rw [Array.getElem?_push] at hi
  by_cases h : i = tree.size
  · rw [if_pos h] at hi
    cases Option.some.inj hi
    subst h
    exact goodMotionG_push step valid starts G tree m _ m (Nat.le_refl _) hm
  · rw [if_neg h] at hi
    exact goodMotionG_push step valid starts G tree m i m' (Nat.le_of_lt (lt_size_of_getElem? hi))
      (hT i m' hi)

theorem treeInv_push (P : Problem S U δ) (starts : List S) (draws : List (Draw S U))
    (tree : Array (Motion S U)) (m : Motion S U) (hT : TreeInv P starts draws tree)
    (hm : GoodMotion P starts draws tree tree.size m) : TreeInv P starts draws (tree.push m) :=
  treeInvG_push P.step P.valid starts (GoodCtl P draws) tree m hT hm

theorem roots_inv (P : Problem S U δ) (starts : List S) (draws : List (Draw S U)) :
    TreeInv P starts draws (roots P starts) := by
  intro i m hi
  unfold roots at hi
  rw [List.getElem?_toArray] at hi
  have hm := List.mem_of_getElem? hi
  obtain ⟨s, hs, rfl⟩ := List.mem_map.mp hm
  obtain ⟨h1, h2⟩ := List.mem_filter.mp hs
  exact Or.inl ⟨rfl, h1, h2⟩

/-! ## addMotion / addChain / iter / run -/

theorem addMotion_tree (P : Problem S U δ) (st : LoopSt S U δ) (m : Motion S U) :
    (addMotion P st m).1.tree = st.tree.push m := by
  simp only [addMotion]
  split
  · rfl
  · split <;> rfl

theorem addMotion_inv (P : Problem S U δ) (starts : List S) (draws : List (Draw S U))
    (st : LoopSt S U δ) (m : Motion S U) (hI : Inv P starts draws st)
    (hm : GoodMotion P starts draws st.tree st.tree.size m) :
    Inv P starts draws (addMotion P st m).1 := by
  obtain ⟨hT, hS, hA⟩ := hI
  have hT' := treeInv_push P starts draws st.tree m hT hm
  have hS' : ∀ i, st.solution = some i →
      ∃ m', (st.tree.push m)[i]? = some m' ∧ (P.goal m'.state).1 = true := by
    intro i hi
    obtain ⟨m', h1, h2⟩ := hS i hi
    exact ⟨m', by rw [getElem?_push_lt _ _ _ (lt_size_of_getElem? h1)]; exact h1, h2⟩
  have hA' : ∀ i, st.approxsol = some i → i < (st.tree.push m).size := by
    intro i hi
    have := hA i hi
    rw [Array.size_push]; omega
  have hnew : (st.tree.push m)[st.tree.size]? = some m := by
    rw [Array.getElem?_push, if_pos rfl]
  simp only [addMotion]
  split
  · rename_i hg
    refine ⟨hT', ?_, hA'⟩
    intro i hi
    cases Option.some.inj hi
    exact ⟨m, hnew, hg⟩
  · split
    · refine ⟨hT', hS', ?_⟩
      intro i hi
      cases Option.some.inj hi
      show st.tree.size < (st.tree.push m).size
      rw [Array.size_push]; omega
    · exact ⟨hT', hS', hA'⟩

/-- each state is one valid step from the previous one -/
def ChainOK (P : Problem S U δ) (u : U) : S → List S → Prop
  | _, [] => True
  | s, p :: ps => p = P.step s u ∧ P.valid p = true ∧ ChainOK P u p ps

theorem chainOK_range' (P : Problem S U δ) (u : U) (s : S) :
    ∀ n a, (∀ i, a < i → i ≤ a + n → P.valid (propagate P.step s u i) = true) →
      ChainOK P u (propagate P.step s u a)
        ((List.range' a n).map (fun i => propagate P.step s u (i + 1))) := by
  intro n
  induction n with
  | zero => intro a _; trivial
  | succ n ih =>
    intro a h
    simp only [List.range'_succ, List.map_cons, ChainOK]
    refine ⟨rfl, h (a + 1) (by omega) (by omega), ?_⟩
    exact ih (a + 1) (fun i h1 h2 => h i (by omega) (by omega))

theorem addChain_inv (P : Problem S U δ) (starts : List S) (draws : List (Draw S U)) (u : U)
    (hu : GoodCtl P draws u 1) :
    ∀ (ps : List S) (st : LoopSt S U δ) (last : Nat) (pm : Motion S U),
      Inv P starts draws st → st.tree[last]? = some pm → ChainOK P u pm.state ps →
      Inv P starts draws (addChain P u st last ps).1 := by
  intro ps
  induction ps with
  | nil => intro st last pm hI _ _; exact hI
  | cons p ps ih =>
    intro st last pm hI hl hc
    obtain ⟨hp, hv, hc'⟩ := hc
    have hm : GoodMotion P starts draws st.tree st.tree.size
        { state := p, control := u, steps := 1, parent := some last } := by
      refine Or.inr ⟨last, pm, rfl, lt_size_of_getElem? hl, hl, hp, ?_, hu⟩
      intro j h1 h2
      have h2' : j ≤ 1 := h2
      have : j = 1 := by omega
      subst this
      show P.valid (P.step pm.state u) = true
      rw [← hp]; exact hv
    have hI' := addMotion_inv P starts draws st _ hI hm
    simp only [addChain]
    split
    · exact hI'
    · refine ih _ st.tree.size { state := p, control := u, steps := 1, parent := some last }
        hI' ?_ hc'
      rw [addMotion_tree, Array.getElem?_push, if_pos rfl]

theorem iter_inv (P : Problem S U δ) (starts : List S) (draws : List (Draw S U))
    (st : LoopSt S U δ) (d : Draw S U) (hd : d ∈ draws) (hI : Inv P starts draws st) :
    Inv P starts draws (iter P st d).1 := by
  unfold iter
  simp only
  split
  · exact hI
  · rename_i n _
    split
    · exact hI
    · rename_i nm hn
      split
      · exact hI
      · rename_i rctrl cd0 reached hs
        obtain ⟨h1, h2, k0, h3, h4⟩ := sampleTo_ok _ _ _ _ _ _ _ _ hs
        simp only at h1 h2 h3 h4
        by_cases hint : P.intermediate = true
        · rw [if_pos hint]
          split
          · rw [pwvVec_alloc]
            simp only [someStates_map_some]
            have hu : GoodCtl P draws rctrl 1 := ⟨d, hd, k0, h3, by rw [if_pos hint]⟩
            have hspec := pwv_spec' P.step P.valid nm.state rctrl cd0
            have hc := chainOK_range' P rctrl nm.state (pwv P.step P.valid nm.state rctrl cd0).1 0
              (fun i h1 h2 => hspec.2.1 i (by omega) (by omega))
            rw [← List.range_eq_range'] at hc
            exact addChain_inv P starts draws rctrl hu _ st n nm hI hn hc
          · exact hI
        · rw [if_neg hint]
          split
          · rename_i hmin
            refine addMotion_inv P starts draws st _ hI ?_
            refine Or.inr ⟨n, nm, rfl, lt_size_of_getElem? hn, hn, h1, h2, d, hd, k0, h3, ?_⟩
            rw [if_neg hint]
            exact ⟨hmin, h4⟩
          · exact hI

theorem run_inv (P : Problem S U δ) (starts : List S) (draws : List (Draw S U)) :
    ∀ (ds : List (Draw S U)) (st : LoopSt S U δ), (∀ d ∈ ds, d ∈ draws) → Inv P starts draws st →
      Inv P starts draws (run P st ds) := by
  intro ds
  induction ds with
  | nil => intro st _ hI; exact hI
  | cons d ds ih =>
    intro st hsub hI
    have hI' := iter_inv P starts draws st d (hsub d (List.mem_cons_self ..)) hI
    simp only [run]
    split
    · exact hI'
    · exact ih _ (fun d' hd' => hsub d' (List.mem_cons_of_mem _ hd')) hI'

/-! ## path extraction -/

theorem pathOf_snoc (tree : Array (Motion S U)) (i p : Nat) (m : Motion S U)
    (hi : tree[i]? = some m) (hp : m.parent = some p) :
    ∀ l, pathOf tree (l ++ [i]) =
      { states := (pathOf tree l).states ++ [m.state],
        controls := (pathOf tree l).controls ++ [m.control],
        steps := (pathOf tree l).steps ++ [m.steps] } := by
  intro l
  induction l with
  | nil => simp [pathOf, hi, hp]
  | cons j l ih =>
    simp only [List.cons_append, pathOf, ih]
    cases hj : tree[j]? with
    | none => simp
    | some mj =>
      cases hpj : mj.parent <;> simp [hpj]

/-- what a reported path satisfies (`sl` are its segments, `s0` its first state) -/
theorem chain_pathG (step : S → U → S) (valid : S → Bool) (starts : List S) (G : U → Nat → Prop)
    (tree : Array (Motion S U)) (hT : TreeInvG step valid starts G tree) :
    ∀ (fuel i : Nat) (m : Motion S U), i < fuel → tree[i]? = some m →
      ∃ s0 sl, pathOf tree (chain tree fuel i).reverse = ofSegs s0 sl ∧ s0 ∈ starts ∧
        valid s0 = true ∧ ReplayOK step valid s0 sl ∧ endState s0 sl = m.state ∧
        ∀ x ∈ sl, G x.1 x.2.1 := by
  intro fuel
  induction fuel with
  | zero => intro i m h _; omega
  | succ fuel ih =>
    intro i m hif hi
    cases hT i m hi with
    | inl h =>
      obtain ⟨hp, hs, hv⟩ := h
      refine ⟨m.state, [], ?_, hs, hv, trivial, rfl, by simp⟩
      simp [chain, hi, hp, pathOf, ofSegs]
    | inr h =>
      obtain ⟨p, pm, hp, hlt, hpm, hst, hval, hctl⟩ := h
      obtain ⟨s0, sl, e1, e2, e3, e4, e5, e6⟩ := ih p pm (by omega) hpm
      refine ⟨s0, sl ++ [(m.control, m.steps, m.state)], ?_, e2, e3, ?_, ?_, ?_⟩
      · simp only [chain, hi, hp, List.reverse_cons]
        rw [pathOf_snoc tree i p m hi hp, e1]
        simp [ofSegs]
      · rw [replayOK_append]
        refine ⟨e4, ?_⟩
        rw [e5]
        exact ⟨hst.symm, hval, trivial⟩
      · rw [endState_append]; rfl
      · intro x hx
        rcases List.mem_append.mp hx with hx | hx
        · exact e6 x hx
        · cases List.mem_singleton.mp hx
          exact hctl

theorem chain_path (P : Problem S U δ) (starts : List S) (draws : List (Draw S U))
    (tree : Array (Motion S U)) (hT : TreeInv P starts draws tree) :
    ∀ (fuel i : Nat) (m : Motion S U), i < fuel → tree[i]? = some m →
      ∃ s0 sl, pathOf tree (chain tree fuel i).reverse = ofSegs s0 sl ∧ s0 ∈ starts ∧
        P.valid s0 = true ∧ ReplayOK P.step P.valid s0 sl ∧ endState s0 sl = m.state ∧
        ∀ x ∈ sl, GoodCtl P draws x.1 x.2.1 :=
  chain_pathG P.step P.valid starts (GoodCtl P draws) tree hT

theorem solve_inv (P : Problem S U δ) (starts : List S) (draws : List (Draw S U)) :
    Inv P starts draws
      (run P { tree := roots P starts, solution := none, approxsol := none, approxdif := P.inf } draws) := by
  refine run_inv P starts draws draws _ (fun _ h => h) ⟨roots_inv P starts draws, ?_, ?_⟩
  · intro i hi; cases hi
  · intro i hi; cases hi

/-- the master lemma behind the C02 property theorems -/
theorem solve_path (P : Problem S U δ) (starts : List S) (draws : List (Draw S U)) (p : Path S U)
    (h : (solve P starts draws).path = some p) :
    ∃ s0 sl, p = ofSegs s0 sl ∧ s0 ∈ starts ∧ P.valid s0 = true ∧
      ReplayOK P.step P.valid s0 sl ∧ (∀ x ∈ sl, GoodCtl P draws x.1 x.2.1) ∧
      ((solve P starts draws).status = .exact → (P.goal (endState s0 sl)).1 = true) := by
  obtain ⟨hT, hS, hA⟩ := solve_inv P starts draws
  unfold solve at h ⊢
  simp only at h ⊢
  split at h
  · cases h
  · rename_i hsz
    rw [if_neg hsz]
    split at h
    · rename_i i hsol
      obtain ⟨m, hm, hg⟩ := hS i hsol
      obtain ⟨s0, sl, e1, e2, e3, e4, e5, e6⟩ :=
        chain_path P starts draws _ hT _ i m (lt_size_of_getElem? hm) hm
      cases Option.some.inj h
      refine ⟨s0, sl, e1, e2, e3, e4, e6, ?_⟩
      intro _; rw [e5]; exact hg
    · split at h
      · rename_i hsol _ i happ
        have hlt := hA i happ
        obtain ⟨s0, sl, e1, e2, e3, e4, e5, e6⟩ :=
          chain_path P starts draws _ hT _ i _ hlt (Array.getElem?_eq_getElem hlt)
        cases Option.some.inj h
        refine ⟨s0, sl, e1, e2, e3, e4, e6, ?_⟩
        intro hst
        cases hst
      · cases h

theorem solve_status_path (P : Problem S U δ) (starts : List S) (draws : List (Draw S U)) :
    ((solve P starts draws).status = .exact ∨ (solve P starts draws).status = .approximate) ↔
      (solve P starts draws).path.isSome = true := by
  unfold solve
  simp only
  split
  · simp
  · split
    · simp
    · split <;> simp

/-! ## NearestNeighborsLinear::nearest -/

/-- the running best of the linear scan over the prefix `l` -/
def NearInv (dist : S → S → δ) (lt : δ → δ → Bool) (q : S) (strict : Prop) (l : List (Motion S U)) :
    Option (Nat × δ) → Prop
  | none => l = []
  | some (p, d) => ∃ m, l[p]? = some m ∧ d = dist m.state q ∧
      (strict → ∀ m' ∈ l, lt (dist m'.state q) d = false)

theorem nearestGo_inv (dist : S → S → δ) (lt : δ → δ → Bool) (q : S) (strict : Prop)
    (hirr : strict → ∀ a, lt a a = false)
    (htr : strict → ∀ a b c, lt a b = true → lt b c = true → lt a c = true) :
    ∀ (ms pre : List (Motion S U)) (best : Option (Nat × δ)), NearInv dist lt q strict pre best →
      NearInv dist lt q strict (pre ++ ms) (nearestGo dist lt q ms pre.length best) := by
  intro ms
  induction ms with
  | nil => intro pre best h; simpa [nearestGo] using h
  | cons m ms ih =>
    intro pre best h
    have hnew : NearInv dist lt q strict (pre ++ [m]) (some (pre.length, dist m.state q)) → 
        NearInv dist lt q strict (pre ++ m :: ms)
          (nearestGo dist lt q ms (pre.length + 1) (some (pre.length, dist m.state q))) := by
      intro h'
      have := ih (pre ++ [m]) _ h'
      simpa using this
    cases best with
    | none =>
      have hpre : pre = [] := h
      subst hpre
      simp only [nearestGo]
      refine hnew ⟨m, by simp, rfl, ?_⟩
      intro hs m' hm'
      have : m' = m := by simpa using hm'
      subst this
      exact hirr hs _
    | some b =>
      obtain ⟨p, dmin⟩ := b
      obtain ⟨mp, h1, h2, h3⟩ := h
      simp only [nearestGo]
      split
      · rename_i hlt
        refine hnew ⟨m, by simp, rfl, ?_⟩
        intro hs m' hm'
        rcases List.mem_append.mp hm' with hm' | hm'
        · cases hc : lt (dist m'.state q) (dist m.state q) with
          | false => rfl
          | true =>
            have := htr hs _ _ _ hc hlt
            rw [h3 hs m' hm'] at this
            cases this
        · have : m' = m := by simpa using hm'
          subst this
          exact hirr hs _
      · rename_i hlt
        have h' : NearInv dist lt q strict (pre ++ [m]) (some (p, dmin)) := by
          have hp : p < pre.length := (List.getElem?_eq_some_iff.mp h1).1
          refine ⟨mp, by rw [List.getElem?_append_left hp]; exact h1, h2, ?_⟩
          intro hs m' hm'
          rcases List.mem_append.mp hm' with hm' | hm'
          · exact h3 hs m' hm'
          · have : m' = m := by simpa using hm'
            subst this
            simpa using hlt
        have := ih (pre ++ [m]) _ h'
        simpa using this

theorem nearest_spec (P : Problem S U δ) (tree : Array (Motion S U)) (q : S) (strict : Prop)
    (hirr : strict → ∀ a, P.lt a a = false)
    (htr : strict → ∀ a b c, P.lt a b = true → P.lt b c = true → P.lt a c = true) :
    (tree.size = 0 ∧ nearest P tree q = none) ∨
    (∃ n m, nearest P tree q = some n ∧ tree[n]? = some m ∧
      (strict → ∀ m' ∈ tree.toList, P.lt (P.dist m'.state q) (P.dist m.state q) = false)) := by
  have h := nearestGo_inv P.dist P.lt q strict hirr htr tree.toList [] none rfl
  simp only [List.nil_append, List.length_nil] at h
  unfold nearest
  cases hb : nearestGo P.dist P.lt q tree.toList 0 none with
  | none =>
    rw [hb] at h
    have : tree.toList = [] := h
    left
    refine ⟨?_, rfl⟩
    have := congrArg List.length this
    simpa using this
  | some b =>
    rw [hb] at h
    obtain ⟨p, d⟩ := b
    obtain ⟨m, h1, h2, h3⟩ := h
    right
    refine ⟨p, m, rfl, by simpa using h1, ?_⟩
    intro hs m' hm'
    rw [← h2]; exact h3 hs m' hm'

theorem solve_tree_inv (P : Problem S U δ) (starts : List S) (draws : List (Draw S U)) :
    TreeInv P starts draws (solve P starts draws).tree := by
  have h := (solve_inv P starts draws).1
  unfold solve
  simp only
  split
  · exact roots_inv P starts draws
  · split
    · exact h
    · split <;> exact h

/-- every motion's state is valid (by induction on the index: a 0-step motion repeats its parent) -/
theorem treeInvG_valid (step : S → U → S) (valid : S → Bool) (starts : List S) (G : U → Nat → Prop)
    (tree : Array (Motion S U)) (hT : TreeInvG step valid starts G tree) :
    ∀ (n i : Nat) (m : Motion S U), i < n → tree[i]? = some m → valid m.state = true := by
  intro n
  induction n with
  | zero => intro i m h _; omega
  | succ n ih =>
    intro i m hi hm
    cases hT i m hm with
    | inl h => exact h.2.2
    | inr h =>
      obtain ⟨p, pm, _, hlt, hpm, hst, hval, _⟩ := h
      rw [hst]
      cases hk : m.steps with
      | zero => exact ih p pm (by omega) hpm
      | succ k => exact hval (k + 1) (by omega) (by omega)

theorem treeInv_valid (P : Problem S U δ) (starts : List S) (draws : List (Draw S U))
    (tree : Array (Motion S U)) (hT : TreeInv P starts draws tree) :
    ∀ (n i : Nat) (m : Motion S U), i < n → tree[i]? = some m → P.valid m.state = true :=
  treeInvG_valid P.step P.valid starts (GoodCtl P draws) tree hT

end OmplModel.CRRT
