import OmplModel.Model.Pdf
/-! `IdxSync` (arithmetic-free): every element's `index_` equals its position in `data_`, every live
handle's `index_` points at itself, handles not yet created are not live. -/
namespace OmplModel.Pdf
variable {α : Type}

structure IdxSync (s : Pdf α) : Prop where
  fwd : ∀ i (hi : i < s.data.size), s.idx s.data[i] = some i
  bwd : ∀ h i, s.idx h = some i → s.data[i]? = some h
  fresh : ∀ h, s.next ≤ h → s.idx h = none

theorem idxSync_empty : IdxSync (Pdf.empty : Pdf α) := by
  constructor <;> simp [Pdf.empty]

theorem idxSync_clear (s : Pdf α) : IdxSync s.clear := by
  constructor
  · simp [Pdf.clear]
  · simp [Pdf.clear]
  · intro h _; simp [Pdf.clear]

theorem idxSync_add [WOps α] (s : Pdf α) (w : α) (hs : IdxSync s) : IdxSync (s.add w) := by
  unfold Pdf.add
  split
  · exact hs
  · obtain ⟨fwd, bwd, fresh⟩ := hs
    constructor
    · intro i hi
      simp only [Array.size_push] at hi
      simp only [Array.getElem_push, setIdx]
      by_cases h : i < s.data.size
      · have h1 := fwd i h
        have h2 : s.data[i] ≠ s.next := by
          intro e; rw [e, fresh _ (Nat.le_refl _)] at h1; cases h1
        simp [h, h2, h1]
      · have : i = s.data.size := by omega
        simp [this]
    · intro h i hh
      simp only [setIdx] at hh
      by_cases e : h = s.next
      · simp [e] at hh; subst hh; simp [e]
      · simp only [e, if_false] at hh
        have := bwd h i hh
        have hi : i < s.data.size := by
          rcases Nat.lt_or_ge i s.data.size with h | h
          · exact h
          · rw [Array.getElem?_eq_none h] at this; cases this
        rw [Array.getElem?_push_lt hi]
        rw [Array.getElem?_eq_getElem hi] at this; exact this
    · intro h hh
      simp only [setIdx] at hh ⊢
      have : h ≠ s.next := by omega
      simp only [this, if_false]
      exact fresh h (by omega)

theorem idxSync_update [WOps α] (s : Pdf α) (h : Nat) (w : α) (hs : IdxSync s) :
    IdxSync (s.update h w) := by
  unfold Pdf.update
  split
  · exact hs
  · split
    · exact hs
    · split
      · exact hs
      · split
        · exact ⟨hs.fwd, hs.bwd, hs.fresh⟩
        · exact hs

end OmplModel.Pdf
