import OmplModel.Model.Pdf
/-! `IdxSync` (arithmetic-free): every element's `index_` equals its position in `data_`, every live
handle's `index_` points at itself, handles not yet created are not live. -/
namespace OmplModel.Pdf
variable {α : Type}

structure IdxSync (s : Pdf α) : Prop where
  fwd : ∀ i (hi : i < s.data.size), s.idx s.data[i] = some i
  bwd : ∀ h i, s.idx h = some i → s.data[i]? = some h
  fresh : ∀ h, s.next ≤ h → s.idx h = none

theorem idxSync_empty : IdxSync (Pdf.empty : Pdf α) := by
  constructor <;> simp [Pdf.empty]

theorem idxSync_clear (s : Pdf α) : IdxSync s.clear := by
  constructor
  · simp [Pdf.clear]
  · simp [Pdf.clear]
  · intro h _; simp [Pdf.clear]

theorem idxSync_add [WOps α] (s : Pdf α) (w : α) (hs : IdxSync s) : IdxSync (s.add w) := by
  unfold Pdf.add
  split
  · exact hs
  · obtain ⟨fwd, bwd, fresh⟩ := hs
    constructor
    · intro i hi
      simp only [Array.size_push] at hi
      simp only [Array.getElem_push, setIdx]
      by_cases h : i < s.data.size
      · have h1 := fwd i h
        have h2 : s.data[i] ≠ s.next := by
          intro e; rw [e, fresh _ (Nat.le_refl _)] at h1; cases h1
        simp [h, h2, h1]
      · have : i = s.data.size := by omega
        simp [this]
    · intro h i hh
      simp only [setIdx] at hh
      by_cases e : h = s.next
      · simp [e] at hh; subst hh; simp [e]
      · simp only [e, if_false] at hh
        have := bwd h i hh
        have hi : i < s.data.size := by
          rcases Nat.lt_or_ge i s.data.size with h | h
          · exact h
          · rw [Array.getElem?_eq_none h] at this; cases this
        rw [Array.getElem?_push_lt hi]
        rw [Array.getElem?_eq_getElem hi] at this; exact this
    · intro h hh
      simp only [setIdx] at hh ⊢
      have : h ≠ s.next := by omega
      simp only [this, if_false]
      exact fresh h (by omega)

theorem idxSync_update [WOps α] (s : Pdf α) (h : Nat) (w : α) (hs : IdxSync s) :
    IdxSync (s.update h w) := by
  unfold Pdf.update
  split
  · exact hs
  · split
    · exact hs
    · split
      · exact hs
      · split
        · exact ⟨hs.fwd, hs.bwd, hs.fresh⟩
        · exact hs

structure Sync (data : Array Nat) (idx : Nat → Option Nat) (next : Nat) : Prop where
  fwd : ∀ i (hi : i < data.size), idx data[i] = some i
  bwd : ∀ h i, idx h = some i → data[i]? = some h
  fresh : ∀ h, next ≤ h → idx h = none

theorem Sync.lt {data idx next} (hs : Sync data idx next) {h i} (e : idx h = some i) : i < data.size := by
  have := hs.bwd h i e
  rcases Nat.lt_or_ge i data.size with h | h
  · exact h
  · rw [Array.getElem?_eq_none h] at this; cases this

theorem Sync.get {data idx next} (hs : Sync data idx next) {h i} (e : idx h = some i) (hi : i < data.size) :
    data[i] = h := by
  have := hs.bwd h i e
  rw [Array.getElem?_eq_getElem hi] at this
  exact Option.some.inj this

theorem sync_removeLast {data idx next} (hs : Sync data idx next) (hn : 0 < data.size) :
    Sync data.pop (setIdx idx (data[data.size - 1]'(by omega)) none) next := by
  constructor
  · intro i hi
    simp only [Array.size_pop] at hi
    simp only [Array.getElem_pop, setIdx]
    have h1 := hs.fwd i (by omega)
    have h2 := hs.fwd (data.size - 1) (by omega)
    have : data[i] ≠ data[data.size - 1] := by
      intro e; rw [e, h2] at h1; simp at h1; omega
    simp [this, h1]
  · intro h i e
    simp only [setIdx] at e
    split at e
    · cases e
    · rename_i hne
      have hi := hs.lt e
      have hg := hs.get e hi
      have : i ≠ data.size - 1 := by
        intro e2; subst e2; exact hne hg.symm
      rw [Array.getElem?_pop]
      have : i < data.size - 1 := by omega
      simp [this, hg, hi]
  · intro h hh
    simp only [setIdx]
    split
    · rfl
    · exact hs.fresh h hh

theorem sync_removeSwap {data idx next} (hs : Sync data idx next) (i : Nat) (hi : i + 1 < data.size) :
    Sync (data.swap i (data.size - 1) (by omega) (by omega)).pop
      (setIdx (setIdx idx (data[i]'(by omega)) none) (data[data.size - 1]'(by omega)) (some i)) next := by
  have hi0 : i < data.size := by omega
  have hl0 : data.size - 1 < data.size := by omega
  have fi := hs.fwd i hi0
  have fl := hs.fwd (data.size - 1) hl0
  have hne : data[i] ≠ data[data.size - 1] := by
    intro e; rw [e, fl] at fi; simp at fi; omega
  constructor
  · intro j hj
    simp only [Array.size_pop, Array.size_swap] at hj
    simp only [Array.getElem_pop, Array.getElem_swap, setIdx]
    by_cases e : j = i
    · subst e; simp
    · have fj := hs.fwd j (by omega)
      have h1 : j ≠ data.size - 1 := by omega
      have h2 : data[j] ≠ data[data.size - 1] := by
        intro e2; rw [e2, fl] at fj; simp at fj; omega
      have h3 : data[j] ≠ data[i] := by
        intro e2; rw [e2, fi] at fj; simp at fj; omega
      simp [e, h1, h2, h3, fj]
  · intro h j e
    simp only [setIdx] at e
    rw [Array.getElem?_pop]
    simp only [Array.size_swap]
    split at e
    · rename_i hh
      cases e
      have : i < data.size - 1 := by omega
      simp [this, hh, hi0]
    · rename_i hh
      split at e
      · cases e
      · rename_i hh2
        have hj := hs.lt e
        have hg := hs.get e hj
        have h1 : j ≠ data.size - 1 := by
          intro e2; subst e2; exact hh hg.symm
        have h2 : j ≠ i := by
          intro e2; subst e2; exact hh2 hg.symm
        have : j < data.size - 1 := by omega
        simp [this, h1, h2, hj, hg]
  · intro h hh
    simp only [setIdx]
    have := hs.fresh h hh
    split
    · rename_i e
      have := hs.fresh _ (e ▸ hh)
      rw [this] at fl; cases fl
    · split
      · rfl
      · exact this

theorem IdxSync.sync {s : Pdf α} (hs : IdxSync s) : Sync s.data s.idx s.next := ⟨hs.fwd, hs.bwd, hs.fresh⟩

theorem idxSync_remove [WOps α] (s : Pdf α) (h : Nat) (hs : IdxSync s) : IdxSync (s.remove h) := by
  unfold Pdf.remove
  split
  · exact hs
  · rename_i i hi
    split
    · rename_i hd
      split
      · rename_i h1
        have hi0 : i = 0 := by omega
        have hg := hs.sync.get hi hd
        constructor
        · intro j hj; simp at hj
        · intro h' j e
          simp only [setIdx] at e
          split at e
          · cases e
          · rename_i hne
            have hj := hs.sync.lt e
            have := hs.sync.get e hj
            have : j = i := by omega
            subst this
            exact absurd (by assumption : s.data[j] = h').symm hne
        · intro h' hh
          simp only [setIdx]
          split
          · rfl
          · exact hs.fresh h' hh
      · rename_i hne1
        split
        · exact hs
        · split
          · simp only
            split
            · rename_i e
              have hl : s.data[i] = s.data[s.data.size - 1] := by congr 1; omega
              have := sync_removeLast hs.sync (by omega)
              rw [← hl] at this
              exact ⟨this.fwd, this.bwd, this.fresh⟩
            · rename_i e
              have := sync_removeSwap hs.sync i (by omega)
              split <;> exact ⟨this.fwd, this.bwd, this.fresh⟩
          · exact hs
    · exact hs

theorem idxSync_step [WOps α] (s : Pdf α) (op : Op α) (hs : IdxSync s) : IdxSync (s.step op) := by
  cases op with
  | add w => exact idxSync_add s w hs
  | update h w => exact idxSync_update s h w hs
  | remove h => exact idxSync_remove s h hs
  | clear => exact idxSync_clear s
  | sample r => exact hs

theorem idxSync_run [WOps α] (ops : List (Op α)) : ∀ (s : Pdf α), IdxSync s → IdxSync (s.run ops) := by
  induction ops with
  | nil => intro s hs; exact hs
  | cons op ops ih => intro s hs; exact ih _ (idxSync_step s op hs)

/-- positions hold distinct handles -/
theorem IdxSync.inj {s : Pdf α} (hs : IdxSync s) {i j : Nat} (hi : i < s.data.size) (hj : j < s.data.size)
    (e : s.data[i] = s.data[j]) : i = j := by
  have h1 := hs.fwd i hi
  have h2 := hs.fwd j hj
  rw [e, h2] at h1
  exact (Option.some.inj h1).symm

end OmplModel.Pdf
