import OmplModel.Model.InterleaveRound2
import OmplModel.Proofs.InterleaveInst
/-!
Lemmas for the second-round instances: solution set with clear, PRM's two threads, the periodic termination
condition.  Core Lean only.
-/
namespace OmplModel.Interleave

/-! ## a restricted-alphabet version of `runSteps_preserves` -/

theorem runSteps_preserves_of {α σ : Type} (apply : α → σ → σ) (P : σ → Prop) (ok : α → Prop)
    (hstep : ∀ a s, ok a → P s → P (apply a s)) (l : List α) (hl : ∀ a ∈ l, ok a) (s : σ) (h : P s) :
    P (runSteps apply l s) := by
  induction l generalizing s with
  | nil => exact h
  | cons a l ih =>
    exact ih (fun b hb => hl b (List.mem_cons_of_mem _ hb)) _ (hstep a s (hl a (List.mem_cons_self ..)) h)

/-! ## solution set with clear -/

def QOp.toStep : QOp → QStep
  | .add x => .add x
  | .clear => .clear

def QStep.toOp? : QStep → Option QOp
  | .add x => some (.add x)
  | .clear => some .clear
  | _ => none

theorem toOp_toStep (o : QOp) : (o.toStep).toOp? = some o := by cases o <;> rfl

theorem filterMap_toOp_map (l : List QOp) : (l.map QOp.toStep).filterMap QStep.toOp? = l := by
  induction l with
  | nil => rfl
  | cons o l ih => simp [toOp_toStep, ih]

theorem qSteps_guarded (k : Kind) (hk : k ≠ .plain) (t : Nat) (o : QOp) : qSteps k t o = [o.toStep] := by
  cases k <;> cases o <;> simp_all [qSteps, QOp.toStep]

theorem qThread_guarded (k : Kind) (hk : k ≠ .plain) (t : Nat) (ops : List QOp) :
    qThread k t ops = ops.map QOp.toStep := by
  induction ops with
  | nil => rfl
  | cons o ops ih =>
    simp only [qThread, List.map_cons, List.flatten_cons] at ih ⊢
    rw [ih, qSteps_guarded k hk]
    rfl

theorem qThreadsFrom_guarded (k : Kind) (hk : k ≠ .plain) (t : Nat) (opss : List (List QOp)) :
    qThreadsFrom k t opss = opss.map (fun ops => ops.map QOp.toStep) := by
  induction opss generalizing t with
  | nil => rfl
  | cons ops opss ih => rw [qThreadsFrom, ih, qThread_guarded k hk]; rfl

theorem qThreads_guarded (k : Kind) (hk : k ≠ .plain) (opss : List (List QOp)) :
    qThreads k opss = opss.map (fun ops => ops.map QOp.toStep) := qThreadsFrom_guarded k hk 0 opss

theorem runSteps_qops (l : List QOp) (s : SStore) :
    (runSteps QStep.apply (l.map QOp.toStep) s).sols = seqRun l s.sols := by
  induction l generalizing s with
  | nil => rfl
  | cons o l ih =>
    simp only [List.map_cons, runSteps_cons, seqRun, List.foldl_cons]
    rw [ih]
    cases o <;> rfl

theorem exists_map_toStep (tr : List QStep) (h : ∀ a ∈ tr, ∃ o : QOp, a = o.toStep) :
    ∃ l : List QOp, tr = l.map QOp.toStep := by
  induction tr with
  | nil => exact ⟨[], rfl⟩
  | cons a tr ih =>
    obtain ⟨o, rfl⟩ := h a (List.mem_cons_self ..)
    obtain ⟨l, rfl⟩ := ih (fun b hb => h b (List.mem_cons_of_mem _ hb))
    exact ⟨o :: l, rfl⟩

theorem live_perm (r : List QOp) {acc acc' : List Sol} (h : acc.Perm acc') : (live r acc).Perm (live r acc') := by
  induction r generalizing acc acc' with
  | nil => exact h
  | cons o r ih =>
    cases o with
    | add x => exact ih (List.Perm.cons x h)
    | clear => exact List.Perm.refl _

/-- the sequential result holds exactly the solutions added behind the last clear -/
theorem seqRun_perm_live (l : List QOp) (init : List Sol) : (seqRun l init).Perm (live l init) := by
  induction l generalizing init with
  | nil => exact List.Perm.refl _
  | cons o l ih =>
    cases o with
    | add x =>
      simp only [seqRun, List.foldl_cons, live] at ih ⊢
      exact (ih (insertSorted x init)).trans (live_perm l (insertSorted_perm x init))
    | clear =>
      simp only [seqRun, List.foldl_cons, live] at ih ⊢
      exact ih []

theorem seqRun_sorted (l : List QOp) (init : List Sol) (h : Sorted init) : Sorted (seqRun l init) := by
  induction l generalizing init with
  | nil => exact h
  | cons o l ih =>
    cases o with
    | add x =>
      simp only [seqRun, List.foldl_cons] at ih ⊢
      exact ih _ (insertSorted_sorted x init h)
    | clear =>
      simp only [seqRun, List.foldl_cons] at ih ⊢
      exact ih [] trivial

theorem mem_insertSorted {a x : Sol} {l : List Sol} : a ∈ insertSorted x l ↔ a = x ∨ a ∈ l := by
  rw [(insertSorted_perm x l).mem_iff]
  simp

/-! ## PRM -/

variable {S : Type}

def RStep.repaired : RStep S → Prop
  | .grow _ _ => True
  | .check => True
  | _ => False

theorem rstep_consistent (a : RStep S) (s : RStore S) (ha : a.repaired) (h : ∀ p ∈ s.log, p.1 = p.2) :
    ∀ p ∈ (RStep.apply a s).log, p.1 = p.2 := by
  cases a with
  | grow v r => exact h
  | check =>
    intro p hp
    simp only [RStep.apply, List.mem_append, List.mem_singleton] at hp
    rcases hp with hp | rfl
    · exact h p hp
    · rfl
  | checkComp => exact absurd ha id
  | readStates => exact absurd ha id

theorem prmThreads_repaired (vs : List (S × Bool)) (n : Nat) :
    ∀ t ∈ prmThreads true vs n, ∀ a ∈ t, RStep.repaired a := by
  intro t ht a ha
  simp only [prmThreads, if_true, List.mem_cons, List.not_mem_nil, or_false] at ht
  rcases ht with rfl | rfl
  · obtain ⟨v, _, rfl⟩ := List.mem_map.mp ha
    trivial
  · rw [(List.mem_replicate.mp ha).2]
    trivial

/-! ## periodic termination condition -/

def TStep.fixedAlphabet : TStep → Prop
  | .callFn => True
  | .storeCache => True
  | .setT => True
  | .evalFixed => True
  | _ => False

/-- once `terminate_` is set every `eval()` answers true, whatever the evaluation thread stores meanwhile -/
theorem runSteps_T_true (l : List TStep) (hl : ∀ a ∈ l, a.fixedAlphabet) (c r : Bool) (seen : List Bool) :
    (runSteps TStep.apply l ⟨true, c, r, seen⟩).seen =
      seen ++ List.replicate (l.filter (fun a => a == .evalFixed || a == .evalCache)).length true := by
  induction l generalizing c r seen with
  | nil => simp [runSteps]
  | cons a l ih =>
    have hl' : ∀ b ∈ l, b.fixedAlphabet := fun b hb => hl b (List.mem_cons_of_mem _ hb)
    have ha := hl a (List.mem_cons_self ..)
    cases a with
    | callFn => simpa [runSteps_cons, TStep.apply] using ih hl' c false seen
    | storeCache => simpa [runSteps_cons, TStep.apply] using ih hl' r r seen
    | setT => simpa [runSteps_cons, TStep.apply] using ih hl' c r seen
    | evalFixed =>
      simp only [runSteps_cons, TStep.apply, Bool.true_or]
      rw [ih hl']
      simp [List.replicate_succ]
    | setTC => exact absurd ha id
    | evalCache => exact absurd ha id

theorem runSteps_T_false (l : List TStep) (hl : ∀ a ∈ l, a.fixedAlphabet) (seen : List Bool) :
    ∃ a, (runSteps TStep.apply l ⟨false, false, false, seen⟩).seen =
      seen ++ List.replicate a false ++ List.replicate (evalsAfterSet l) true := by
  induction l generalizing seen with
  | nil => exact ⟨0, by simp [runSteps, evalsAfterSet]⟩
  | cons a l ih =>
    have hl' : ∀ b ∈ l, b.fixedAlphabet := fun b hb => hl b (List.mem_cons_of_mem _ hb)
    have ha := hl a (List.mem_cons_self ..)
    cases a with
    | callFn =>
      obtain ⟨n, hn⟩ := ih hl' seen
      exact ⟨n, by simpa [runSteps_cons, TStep.apply, evalsAfterSet] using hn⟩
    | storeCache =>
      obtain ⟨n, hn⟩ := ih hl' seen
      exact ⟨n, by simpa [runSteps_cons, TStep.apply, evalsAfterSet] using hn⟩
    | setT =>
      refine ⟨0, ?_⟩
      simp only [runSteps_cons, TStep.apply, evalsAfterSet]
      rw [runSteps_T_true l hl']
      simp
    | evalFixed =>
      obtain ⟨n, hn⟩ := ih hl' (seen ++ [false])
      refine ⟨n + 1, ?_⟩
      simp only [runSteps_cons, TStep.apply, evalsAfterSet, Bool.or_self]
      rw [hn]
      simp [List.replicate_succ]
    | setTC => exact absurd ha id
    | evalCache => exact absurd ha id

theorem periodicThreads_fixed (m n : Nat) : ∀ t ∈ periodicThreads false m n, ∀ a ∈ t, TStep.fixedAlphabet a := by
  intro t ht a ha
  simp only [periodicThreads, List.mem_cons, List.not_mem_nil, or_false] at ht
  rcases ht with rfl | rfl | rfl
  · simp only [List.mem_flatten, List.mem_replicate] at ha
    obtain ⟨l, ⟨_, rfl⟩, hal⟩ := ha
    simp at hal
    rcases hal with rfl | rfl <;> trivial
  · simp at ha
    subst ha
    trivial
  · simp at ha
    rw [ha.2]
    trivial

/-! ## CForest monitor -/

/-- what holds of the monitor after any sequence of reports: `best` is the last entry of a strictly decreasing history,
`shared` counts its entries, and `best` is at most every cost in `seen` -/
structure MInv (seen : List Nat) (s : MStore) : Prop where
  decreasing : s.hist.Pairwise (fun a b => b < a)
  best_last : s.best = s.hist.getLast?
  shared_len : s.shared = s.hist.length
  hist_ge : ∀ a ∈ s.hist, ∃ b, s.best = some b ∧ b ≤ a
  seen_ge : ∀ c ∈ seen, ∃ b, s.best = some b ∧ b ≤ c
  hist_seen : ∀ a ∈ s.hist, a ∈ seen

theorem minv_init : MInv [] MStore.init :=
  ⟨List.Pairwise.nil, rfl, rfl, by intro a h; simp [MStore.init] at h, by intro c h; simp at h,
    by intro a h; simp [MStore.init] at h⟩

theorem minv_report (seen : List Nat) (s : MStore) (c : Nat) (h : MInv seen s) :
    MInv (seen ++ [c]) (MStep.apply (.report c) s) := by
  by_cases hb : betterThan c s.best = true
  · have happly : MStep.apply (.report c) s =
        { s with best := some c, shared := s.shared + 1, hist := s.hist ++ [c] } := by simp [MStep.apply, hb]
    rw [happly]
    have hlt : ∀ b, s.best = some b → c < b := by
      intro b hbb
      rw [hbb] at hb
      simpa [betterThan] using hb
    refine ⟨?_, by simp, by simp [h.shared_len], ?_, ?_, ?_⟩
    · rw [List.pairwise_append]
      refine ⟨h.decreasing, List.pairwise_singleton _ _, ?_⟩
      intro a ha x hx
      rw [List.mem_singleton.mp hx]
      obtain ⟨b, hbb, hba⟩ := h.hist_ge a ha
      exact Nat.lt_of_lt_of_le (hlt b hbb) hba
    · intro a ha
      rcases List.mem_append.mp ha with ha | ha
      · obtain ⟨b, hbb, hba⟩ := h.hist_ge a ha
        exact ⟨c, rfl, Nat.le_of_lt (Nat.lt_of_lt_of_le (hlt b hbb) hba)⟩
      · rw [List.mem_singleton.mp ha]; exact ⟨c, rfl, Nat.le_refl _⟩
    · intro x hx
      rcases List.mem_append.mp hx with hx | hx
      · obtain ⟨b, hbb, hbx⟩ := h.seen_ge x hx
        exact ⟨c, rfl, Nat.le_of_lt (Nat.lt_of_lt_of_le (hlt b hbb) hbx)⟩
      · rw [List.mem_singleton.mp hx]; exact ⟨c, rfl, Nat.le_refl _⟩
    · intro a ha
      rcases List.mem_append.mp ha with ha | ha
      · exact List.mem_append_left _ (h.hist_seen a ha)
      · exact List.mem_append_right _ ha
  · have happly : MStep.apply (.report c) s = s := by simp [MStep.apply, hb]
    rw [happly]
    have hge : ∃ b, s.best = some b ∧ b ≤ c := by
      cases hbest : s.best with
      | none => rw [hbest] at hb; simp [betterThan] at hb
      | some b => rw [hbest] at hb; exact ⟨b, rfl, by simpa [betterThan] using hb⟩
    refine ⟨h.decreasing, h.best_last, h.shared_len, h.hist_ge, ?_, fun a ha => List.mem_append_left _ (h.hist_seen a ha)⟩
    intro x hx
    rcases List.mem_append.mp hx with hx | hx
    · exact h.seen_ge x hx
    · rw [List.mem_singleton.mp hx]; exact hge

theorem minv_run (cs seen : List Nat) (s : MStore) (h : MInv seen s) :
    MInv (seen ++ cs) (runSteps MStep.apply (cs.map MStep.report) s) := by
  induction cs generalizing seen s with
  | nil => simpa [runSteps] using h
  | cons c cs ih =>
    have := ih (seen ++ [c]) _ (minv_report seen s c h)
    simpa [runSteps_cons] using this

theorem reportThreads_go_monitor (t : Nat) (css : List (List Nat)) :
    reportThreads.go true t css = css.map (fun cs => cs.map MStep.report) := by
  induction css generalizing t with
  | nil => rfl
  | cons cs css ih => simp [reportThreads.go, ih]

theorem reportThreads_monitor (css : List (List Nat)) :
    reportThreads true css = css.map (fun cs => cs.map MStep.report) := reportThreads_go_monitor 0 css

theorem exists_map_report (tr : List MStep) (h : ∀ a ∈ tr, ∃ c, a = MStep.report c) :
    ∃ l : List Nat, tr = l.map MStep.report := by
  induction tr with
  | nil => exact ⟨[], rfl⟩
  | cons a tr ih =>
    obtain ⟨c, rfl⟩ := h a (List.mem_cons_self ..)
    obtain ⟨l, rfl⟩ := ih (fun b hb => h b (List.mem_cons_of_mem _ hb))
    exact ⟨c :: l, rfl⟩

end OmplModel.Interleave
