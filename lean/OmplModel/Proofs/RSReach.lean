import OmplModel.Proofs.RSWordsCCSC
import OmplModel.Proofs.RSFiveAll
import OmplModel.Proofs.RSCCCC
/-!
[EX] what `reedsShepp(x, y, φ)` returns reaches the goal (`reedsShepp_reaches`, unconditional): the
returned path is one of the 48 candidates (`reedsShepp_inv`) and every candidate of every family reaches
the goal — CSC, CCC, CCSC incl. all backwards images (round 2), CCSCC (`Proofs/RSFiveAll.lean`) and CCCC
(`Proofs/RSCCCC.lean`, round 3).  `reedsShepp_reaches_of` is the same with the last two families as
hypotheses.
-/
namespace OmplModel.RS
open OmplModel OmplModel.Dubins DubinsR RSR
attribute [-instance] Num.instOfNat

/-- the stored word type of a member of `four …` is one of the two types passed -/
theorem four_ty {S : ℝ → ℝ → ℝ → Sol ℝ} {key : ℝ → ℝ → ℝ → ℝ} {b : Nat → Bool → ℝ → ℝ → ℝ → RSPath ℝ}
    (hty : ∀ ty f t u v, (b ty f t u v).ty = ty) {tyA tyB : Nat} {x y phi L : ℝ} {Q : RSPath ℝ}
    (h : some (L, Q) ∈ four S key b tyA tyB x y phi) : Q.ty = tyA ∨ Q.ty = tyB := by
  obtain ⟨t, u, v, -, h | h | h | h⟩ := mem_four h
  · left; rw [h.2, hty]
  · left; rw [h.2, hty]
  · right; rw [h.2, hty]
  · right; rw [h.2, hty]

theorem candsCCCC_ty {x y phi L : ℝ} {Q : RSPath ℝ} (h : some (L, Q) ∈ candsCCCC x y phi) :
    Q.ty = 2 ∨ Q.ty = 3 := by
  rcases List.mem_append.mp h with h | h
  · exact four_ty (b := bCCCCa) (fun _ _ _ _ _ => rfl) h
  · exact four_ty (b := bCCCCb) (fun _ _ _ _ _ => rfl) h

theorem candsCCSCC_ty {x y phi L : ℝ} {Q : RSPath ℝ} (h : some (L, Q) ∈ candsCCSCC x y phi) :
    Q.ty = 16 ∨ Q.ty = 17 :=
  four_ty (b := bCCSCC) (fun _ _ _ _ _ => rfl) h

/-- the returned path reaches the goal, given that the CCCC and CCSCC candidates do -/
theorem reedsShepp_reaches_of (x y phi : ℝ)
    (hCCCC : ∀ L Q, some (L, Q) ∈ candsCCCC x y phi → Reaches Q x y phi)
    (hCCSCC : ∀ L Q, some (L, Q) ∈ candsCCSCC x y phi → Reaches Q x y phi)
    (P : RSPath ℝ) (hP : reedsShepp x y phi = some P) : Reaches P x y phi := by
  obtain ⟨L, hm⟩ := (reedsShepp_inv x y phi).1 P hP
  unfold allCands at hm
  simp only [List.mem_append] at hm
  rcases hm with (((h | h) | h) | h) | h
  · exact CSC_candidates_reach x y phi L P h
  · exact CCC_all_candidates_reach x y phi L P h
  · exact hCCCC L P h
  · exact CCSC_all_candidates_reach x y phi L P h
  · exact hCCSCC L P h

/-- **whatever `reedsShepp x y φ` returns reaches the goal** (no hypothesis on the word type) -/
theorem reedsShepp_reaches (x y phi : ℝ) (P : RSPath ℝ) (hP : reedsShepp x y phi = some P) :
    Reaches P x y phi :=
  reedsShepp_reaches_of x y phi (fun L Q h => CCCC_candidates_reach x y phi L Q h)
    (fun L Q h => CCSCC_candidates_reach x y phi L Q h) P hP

end OmplModel.RS
