import OmplModel.Model.PdfChecked
import OmplModel.Proofs.PdfShape
import OmplModel.Proofs.PdfIdx
/-! The checked twins of `add` / `update` / `remove` (`Model/PdfChecked.lean`) never produce `none` on a state that
satisfies `ShapeInv` (and `IdxSync` for `remove`), and compute exactly the guarded originals.  Arithmetic-free: holds for
every weight type, in particular the `Float` instance the driver runs (index safety does not depend on rounding). -/
namespace OmplModel.Pdf
variable {α : Type}

theorem shapeSizes_pos : ∀ (ks : List Nat) (n : Nat), ShapeSizes n ks → ∀ k ∈ ks, 0 < k
  | [], _, _, k, hk => by cases hk
  | k0 :: ks, n, h, k, hk => by
    rw [shapeSizes_cons] at h
    obtain ⟨h1, h2, h3⟩ := h
    rcases List.mem_cons.mp hk with e | hm
    · omega
    · unfold Above at h3
      by_cases hn : n = 1
      · simp only [hn, if_true] at h3; subst h3; cases hm
      · simp only [hn, if_false] at h3
        exact shapeSizes_pos ks _ h3 k hm

theorem allNonempty_of_pos (rs : List (Array α)) (h : ∀ k ∈ sizes rs, 0 < k) : allNonempty rs = true := by
  unfold allNonempty
  rw [List.all_eq_true]
  intro r hr
  have := h r.size (by unfold sizes; exact List.mem_map_of_mem hr)
  simpa using this

theorem bumpC_eq [WOps α] (d : α) : ∀ (rs : List (Array α)) (n i : Nat), 0 < n → Above n (sizes rs) → i < n →
    bumpC d rs (i / 2) = some (bump d rs (i / 2))
  | [], _, _, _, _, _ => rfl
  | r :: rs, n, i, hn, ha, hi => by
    rw [sizes_cons, above_cons] at ha
    obtain ⟨hn1, hr, hpos, hab⟩ := ha
    have hlt : i / 2 < r.size := by omega
    unfold bumpC bump
    rw [if_pos hlt, bumpC_eq d rs ((n + 1) / 2) (i / 2) hpos hab (by omega)]

theorem addRowsC_eq [WOps α] (w : α) : ∀ (rs : List (Array α)) (prev : Array α) (n : Nat),
    1 ≤ n → prev.size = n + 1 → Above n (sizes rs) → addRowsC w prev rs = some (addRows w prev rs)
  | [], prev, n, hn, hp, ha => by
    have h1 : n = 1 := (above_nil n (by omega)).mp ha
    subst h1
    have h0 : prev[0]? = some prev[0] := by simp [hp]
    have h1 : prev[1]? = some prev[1] := by simp [hp]
    simp [addRowsC, addRows, h0, h1]
  | r :: rs, prev, n, hn, hp, ha => by
    have hall : ∀ k ∈ sizes (r :: rs), 0 < k := by
      unfold Above at ha
      by_cases h1 : n = 1
      · simp [h1] at ha
      · simp only [h1, if_false] at ha
        exact shapeSizes_pos _ _ ha
    rw [sizes_cons, above_cons] at ha
    obtain ⟨hn1, hr, hpos, hab⟩ := ha
    unfold addRowsC addRows
    by_cases hodd : prev.size % 2 = 1
    · rw [if_pos hodd, if_pos hodd,
        addRowsC_eq w rs (r.push w) ((n + 1) / 2) (by omega) (by simp [hr]) hab]
    · rw [if_neg hodd, if_neg hodd, if_pos (allNonempty_of_pos _ hall)]

theorem addC_eq [WOps α] (s : Pdf α) (w : α) (hs : ShapeInv s) : s.addC w = some (s.add w) := by
  unfold Pdf.addC Pdf.add
  by_cases hw : WOps.lt w (WOps.zero : α) = true
  · simp [hw]
  · simp only [hw, Bool.false_eq_true, if_false]
    by_cases h0 : s.data.size = 0
    · simp [h0]
    · simp only [h0, if_false]
      unfold ShapeInv at hs
      cases ht : s.tree with
      | nil =>
        rw [ht] at hs
        exact absurd (by simpa [ShapeSizes] using hs : s.data.size = 0) h0
      | cons r0 rs =>
        rw [ht, sizes_cons, shapeSizes_cons] at hs
        obtain ⟨hr, hn, hab⟩ := hs
        simp only
        rw [addRowsC_eq w rs (r0.push w) s.data.size (by omega) (by simp [hr]) hab]

theorem updateC_eq [WOps α] (s : Pdf α) (h : Nat) (w : α) (hs : ShapeInv s) :
    s.updateC h w = some (s.update h w) := by
  unfold Pdf.updateC Pdf.update
  cases hi : s.idx h with
  | none => rfl
  | some i =>
    simp only
    by_cases hle : s.data.size ≤ i
    · simp [hle]
    · simp only [hle, if_false]
      unfold ShapeInv at hs
      cases ht : s.tree with
      | nil =>
        rw [ht] at hs
        have : s.data.size = 0 := by simpa [ShapeSizes] using hs
        omega
      | cons r0 rs =>
        rw [ht, sizes_cons, shapeSizes_cons] at hs
        obtain ⟨hr, hn, hab⟩ := hs
        have hir : i < r0.size := by omega
        simp only [hir, dite_true]
        rw [bumpC_eq _ rs s.data.size i hn hab (by omega)]

theorem popLoopC_eq [WOps α] (w : α) : ∀ (rs : List (Array α)) (n k : Nat), 2 ≤ n → k = n - 1 →
    Above n (sizes rs) → popLoopC w k rs = some (popLoop w k rs)
  | [], _, _, _, _, _ => rfl
  | r :: rs, n, k, hn, hk, ha => by
    subst hk
    have hall : ∀ k ∈ sizes (r :: rs), 0 < k := by
      unfold Above at ha
      have h1 : n ≠ 1 := by omega
      simp only [h1, if_false] at ha
      exact shapeSizes_pos _ _ ha
    rw [sizes_cons, above_cons] at ha
    obtain ⟨hn1, hr, hpos, hab⟩ := ha
    unfold popLoopC popLoop
    by_cases h1 : 1 < n - 1
    · rw [if_pos h1, if_pos h1]
      by_cases hev : (n - 1) % 2 = 0
      · rw [if_pos hev, if_pos hev, if_pos (by omega : 0 < r.size),
          popLoopC_eq w rs ((n + 1) / 2) r.pop.size (by omega) (by simp [hr]) hab]
      · rw [if_neg hev, if_neg hev, if_pos (allNonempty_of_pos _ hall)]
    · rw [if_neg h1, if_neg h1]

theorem popPhaseC_eq [WOps α] (w : α) (r0 : Array α) (rs : List (Array α)) (n : Nat) (hn : 2 ≤ n)
    (h : ShapeSizes n (sizes (r0 :: rs))) : popPhaseC w r0 rs = some (popPhase w r0 rs) := by
  rw [sizes_cons, shapeSizes_cons] at h
  obtain ⟨hr, _, hab⟩ := h
  unfold popPhaseC popPhase
  rw [if_pos (by omega : 0 < r0.size), popLoopC_eq w rs n r0.pop.size hn (by simp [hr]) hab]

theorem removeC_eq [WOps α] (s : Pdf α) (h : Nat) (hs : ShapeInv s) (hix : IdxSync s) :
    s.removeC h = some (s.remove h) := by
  unfold Pdf.removeC Pdf.remove
  cases hi : s.idx h with
  | none => rfl
  | some i =>
    have hd : i < s.data.size := hix.sync.lt hi
    simp only [hd, dite_true]
    by_cases h1 : s.data.size = 1
    · simp [h1]
    · simp only [h1, if_false]
      unfold ShapeInv at hs
      cases ht : s.tree with
      | nil =>
        rw [ht] at hs
        have : s.data.size = 0 := by simpa [ShapeSizes] using hs
        omega
      | cons r0 rs =>
        rw [ht] at hs
        have hs' := hs
        rw [sizes_cons, shapeSizes_cons] at hs'
        obtain ⟨hr, hn, hab⟩ := hs'
        have hir : i < r0.size := by omega
        have hn2 : 2 ≤ s.data.size := by omega
        simp only [hir, dite_true]
        by_cases hlast : i + 1 = s.data.size
        · simp only [hlast, if_true]
          rw [popPhaseC_eq _ r0 rs _ hn2 hs]
        · simp only [hlast, if_false]
          by_cases hsib : i + 2 = s.data.size ∧ i % 2 = 0
          · simp only [hsib, and_self, if_true]
            rw [popPhaseC_eq _ _ rs s.data.size hn2 (by simpa using hs)]
          · simp only [hsib, if_false]
            rw [bumpC_eq _ rs s.data.size i hn hab hd]
            simp only
            rw [popPhaseC_eq _ _ _ s.data.size hn2 (by simpa [sizes_bump] using hs)]

theorem stepC_eq [WOps α] (s : Pdf α) (op : Op α) (hs : ShapeInv s) (hix : IdxSync s) :
    s.stepC op = some (s.step op) := by
  cases op with
  | add w => exact addC_eq s w hs
  | update h w => exact updateC_eq s h w hs
  | remove h => exact removeC_eq s h hs hix
  | clear => rfl
  | sample r => rfl

theorem runC_eq [WOps α] : ∀ (ops : List (Op α)) (s : Pdf α), ShapeInv s → IdxSync s →
    s.runC ops = some (s.run ops)
  | [], _, _, _ => rfl
  | op :: ops, s, hs, hix => by
    unfold Pdf.runC
    rw [stepC_eq s op hs hix]
    simp only
    rw [runC_eq ops (s.step op) (shapeInv_step s op hs) (idxSync_step s op hix)]
    rfl

end OmplModel.Pdf
