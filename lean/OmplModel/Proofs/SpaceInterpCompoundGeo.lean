import OmplModel.Proofs.SpaceInterpCompoundSO3
import OmplModel.Proofs.SpaceInterpSO3Reparam
/-!
C07, all spaces over ℝ: re-parameterisation and proportional (coded) distance lifted to compounds
that contain SO(3) leaves, for exactly-unit quaternions and away from the clamp of `arcLength`
(structural predicates `so3ReparamOk`, `so3OutsideBand`).
-/
open scoped OmplModel.SpaceInterp.RealNum
attribute [-instance] OmplModel.Num.instOfNat

namespace OmplModel.SpaceInterp
open OmplModel OmplModel.Space Real RealNum

/-- as `reparamOk`, but SO(3) leaves are allowed -/
def reparamOk3 {α : Type} : Space α → Bool
  | .klein => false
  | .mobius _ _ => false
  | .disc _ _ => false
  | .ccons _ h tl => reparamOk3 h && reparamOk3 tl
  | .wrap s => reparamOk3 s
  | _ => true

/-- every SO(3) leaf: if the leg `from → to` is in the slerp branch (`|dq| ≤ 1 - 1e-9`), then the
remaining leg `(1-s)θ` is above the clamp threshold as well -/
def so3ReparamOk : Space ℝ → St ℝ → St ℝ → ℝ → Prop
  | .so3, .so3 x1 y1 z1 w1, .so3 x2 y2 z2 w2, s =>
    |quatDot x1 y1 z1 w1 x2 y2 z2 w2| ≤ 1 - 1 / 10 ^ 9 →
      Real.cos ((1 - s) * Real.arccos |quatDot x1 y1 z1 w1 x2 y2 z2 w2|) ≤ 1 - 1 / 10 ^ 9
  | .ccons _ h tl, .ccons ah at', .ccons bh bt, s => so3ReparamOk h ah bh s ∧ so3ReparamOk tl at' bt s
  | .wrap sp, a, b, s => so3ReparamOk sp a b s
  | _, _, _, _ => True

/-- every SO(3) leaf: the point at `t` is outside the clamp band of the coded distance
(`cos(t θ) ≤ 1 - 1e-9` whenever the leg is in the slerp branch) -/
def so3OutsideBand : Space ℝ → St ℝ → St ℝ → ℝ → Prop
  | .so3, .so3 x1 y1 z1 w1, .so3 x2 y2 z2 w2, t =>
    |quatDot x1 y1 z1 w1 x2 y2 z2 w2| ≤ 1 - 1 / 10 ^ 9 →
      Real.cos (t * Real.arccos |quatDot x1 y1 z1 w1 x2 y2 z2 w2|) ≤ 1 - 1 / 10 ^ 9
  | .ccons _ h tl, .ccons ah at', .ccons bh bt, t => so3OutsideBand h ah bh t ∧ so3OutsideBand tl at' bt t
  | .wrap sp, a, b, t => so3OutsideBand sp a b t
  | _, _, _, _ => True

/-- the user-facing hypothesis (in terms of `|dq|`) gives the internal one (in terms of `arcLength`) -/
theorem band_hyp_of {x1 y1 z1 w1 x2 y2 z2 w2 : ℝ} (f : ℝ → ℝ)
    (hyp : |quatDot x1 y1 z1 w1 x2 y2 z2 w2| ≤ 1 - 1 / 10 ^ 9 →
      Real.cos (f (Real.arccos |quatDot x1 y1 z1 w1 x2 y2 z2 w2|)) ≤ 1 - 1 / 10 ^ 9)
    (h : dblEps < arcLength x1 y1 z1 w1 x2 y2 z2 w2) :
    Real.cos (f (arcLength x1 y1 z1 w1 x2 y2 z2 w2)) ≤ 1 - 1 / 10 ^ 9 := by
  obtain ⟨h1, h2⟩ := arcLength_big h
  rw [h2]; exact hyp h1

theorem interpolate_reparam_so3 (sp : Space ℝ) (a b : St ℝ) (s u : ℝ) (hsp : reparamOk3 sp = true)
    (hwa : wellTyped sp a = true) (hwb : wellTyped sp b = true)
    (hba : inBounds sp a = true) (hbb : inBounds sp b = true)
    (hub : unitQuats sp b) (hok : so3ReparamOk sp a b s)
    (hs0 : 0 ≤ s) (hs1 : s ≤ 1) (hu0 : 0 ≤ u) (hu1 : u ≤ 1) :
    interpolate sp (interpolate sp a b s) b u = interpolate sp a b (s + (1 - s) * u) := by
  induction sp generalizing a b with
  | so3 =>
    obtain ⟨x1, y1, z1, w1, rfl⟩ := wellTyped_so3 hwa
    obtain ⟨x2, y2, z2, w2, rfl⟩ := wellTyped_so3 hwb
    simp only [unitQuats] at hub
    simp only [so3ReparamOk] at hok
    exact so3_reparam_leaf s u hub hs0 hs1 (band_hyp_of (fun θ => (1 - s) * θ) hok)
  | klein => simp [reparamOk3] at hsp
  | mobius i r => simp [reparamOk3] at hsp
  | disc lo hi => simp [reparamOk3] at hsp
  | ccons w h tl ih1 ih2 =>
    obtain ⟨ah, at', rfl, ha1, ha2⟩ := wellTyped_ccons hwa
    obtain ⟨bh, bt, rfl, hb1, hb2⟩ := wellTyped_ccons hwb
    simp only [reparamOk3, inBounds, Bool.and_eq_true, unitQuats, so3ReparamOk] at hsp hba hbb hub hok
    simp only [interpolateW, ih1 ah bh hsp.1 ha1 hb1 hba.1 hbb.1 hub.1 hok.1,
      ih2 at' bt hsp.2 ha2 hb2 hba.2 hbb.2 hub.2 hok.2]
  | wrap s' ih =>
    simp only [reparamOk3, wellTyped, inBounds, unitQuats, so3ReparamOk] at hsp hwa hwb hba hbb hub hok
    simp only [interpolateW]; exact ih a b hsp hwa hwb hba hbb hub hok
  | _ => exact interpolate_reparam _ a b s u (by simp [reparamOk]) hwa hwb hba hbb hs0 hs1 hu0 hu1

theorem interpolate_dist_prop_so3 (sp : Space ℝ) (a b : St ℝ) (t : ℝ) (hsp : geodesic true sp = true)
    (hwa : wellTyped sp a = true) (hwb : wellTyped sp b = true)
    (hba : inBounds sp a = true) (hbb : inBounds sp b = true)
    (hua : unitQuats sp a) (hband : so3OutsideBand sp a b t) (ht0 : 0 ≤ t) (ht1 : t ≤ 1) :
    dist sp a (interpolate sp a b t) = t * dist sp a b := by
  induction sp generalizing a b with
  | so3 =>
    obtain ⟨x1, y1, z1, w1, rfl⟩ := wellTyped_so3 hwa
    obtain ⟨x2, y2, z2, w2, rfl⟩ := wellTyped_so3 hwb
    simp only [unitQuats] at hua
    simp only [so3OutsideBand] at hband
    have := so3Interp_dist_band (x2 := x2) (y2 := y2) (z2 := z2) (w2 := w2) hua ht0 ht1
      (band_hyp_of (fun θ => t * θ) hband)
    simp only [interpolateW, this, dist]
  | klein => simp [geodesic] at hsp
  | mobius i r => simp [geodesic] at hsp
  | disc lo hi => simp [geodesic] at hsp
  | sphere r => simp [geodesic] at hsp
  | ccons w h tl ih1 ih2 =>
    obtain ⟨ah, at', rfl, ha1, ha2⟩ := wellTyped_ccons hwa
    obtain ⟨bh, bt, rfl, hb1, hb2⟩ := wellTyped_ccons hwb
    simp only [geodesic, inBounds, Bool.and_eq_true, unitQuats, so3OutsideBand] at hsp hba hbb hua hband
    simp only [interpolateW, dist, ih1 ah bh hsp.1 ha1 hb1 hba.1 hbb.1 hua.1 hband.1,
      ih2 at' bt hsp.2 ha2 hb2 hba.2 hbb.2 hua.2 hband.2]
    ring
  | wrap s' ih =>
    simp only [geodesic, wellTyped, inBounds, unitQuats, so3OutsideBand] at hsp hwa hwb hba hbb hua hband
    simp only [interpolateW, dist]; exact ih a b hsp hwa hwb hba hbb hua hband
  | _ => exact interpolate_dist_prop _ a b t (by simp [geodesic]) hwa hwb hba hbb ht0 ht1

end OmplModel.SpaceInterp
