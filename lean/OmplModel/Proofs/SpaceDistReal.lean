import OmplModel.Model.SpaceDist
import Mathlib.Analysis.SpecialFunctions.Trigonometric.Inverse
import Mathlib.Analysis.SpecialFunctions.Complex.Arg
import Mathlib.Analysis.SpecialFunctions.Sqrt
/-!
`Num ℝ` (and `SphereNum ℝ`): the instantiation of the C06 model at the real numbers, where the
metric laws are proved.  What this leaves unverified is exactly IEEE rounding of the `Float` run.
Unfolding lemmas (`simp` set `numR`) turn the class operations into the ordinary real ones.
-/
namespace OmplModel
open Real

noncomputable instance instNumReal : Num ℝ where
  ofNat n := (n : ℝ)
  ofDec m e := (m : ℝ) / (10 : ℝ) ^ e
  pi := Real.pi
  abs x := |x|
  sqrt := Real.sqrt
  sin := Real.sin
  cos := Real.cos
  acos := Real.arccos
  atan2 y x := Complex.arg ⟨x, y⟩
  floor x := (⌊x⌋ : ℝ)
  ceil x := (⌈x⌉ : ℝ)
  fmod x y := x - y * ((if 0 ≤ x / y then ⌊x / y⌋ else ⌈x / y⌉ : ℤ) : ℝ)
  decLt a b := Classical.propDecidable _
  decLe a b := Classical.propDecidable _
  toInt x := if 0 ≤ x then ⌊x⌋ else ⌈x⌉
  ofInt i := (i : ℝ)

/-- the real great-circle (haversine) formula of SphereStateSpace::distance, without the `float` narrowing -/
noncomputable def sphereDistReal (r t1 p1 t2 p2 : ℝ) : ℝ :=
  let phi1 := p1 - Real.pi / 2
  let phi2 := p2 - Real.pi / 2
  let s := (1 / 2 : ℝ) * (phi1 - phi2)
  let t := (1 / 2 : ℝ) * (t1 - t2)
  2 * r * Real.arcsin (Real.sqrt (Real.sin s * Real.sin s + Real.cos phi1 * Real.cos phi2 * Real.sin t * Real.sin t))

noncomputable instance : SpaceDist.SphereNum ℝ := ⟨sphereDistReal⟩

namespace NumR
@[simp] theorem ofNat_eq (n : Nat) : (Num.ofNat n : ℝ) = (n : ℝ) := rfl
theorem ofNat_lit (n : Nat) : (@OfNat.ofNat ℝ n (Num.instOfNat n) : ℝ) = (n : ℝ) := rfl
@[simp] theorem ofDec_eq (m e : Nat) : (Num.ofDec m e : ℝ) = (m : ℝ) / (10 : ℝ) ^ e := rfl
@[simp] theorem pi_eq : (Num.pi : ℝ) = Real.pi := rfl
@[simp] theorem abs_eq (x : ℝ) : Num.abs x = |x| := rfl
@[simp] theorem sqrt_eq (x : ℝ) : Num.sqrt x = Real.sqrt x := rfl
@[simp] theorem acos_eq (x : ℝ) : Num.acos x = Real.arccos x := rfl
@[simp] theorem ofInt_eq (i : Int) : (Num.ofInt i : ℝ) = (i : ℝ) := rfl
theorem lt_iff (a b : ℝ) : @LT.lt ℝ instNumReal.toLT a b ↔ a < b := Iff.rfl
theorem le_iff (a b : ℝ) : @LE.le ℝ instNumReal.toLE a b ↔ a ≤ b := Iff.rfl
end NumR
end OmplModel
