import OmplModel.Proofs.SpaceInterpSO2
import OmplModel.Proofs.SpaceInterpLeaf
/-!
C07, Klein bottle over ℝ with the *fixed* wrap (`kleinInterp so2Interp so2Wrap`), for inputs whose
u coordinate lies in the exact range `0 ≤ u ≤ π` (the coded bounds predicate has a ±eps slack, and a
state with `u ∈ [-eps, 0)` "crosses" already at t = 0, so the slack range is excluded).
-/
open scoped OmplModel.SpaceInterp.RealNum
attribute [-instance] OmplModel.Num.instOfNat

namespace OmplModel.SpaceInterp
open OmplModel Real RealNum

theorem kleinMirror_eq (v : ℝ) : kleinMirror v = if 0 < v then π - v else -π - v := by
  simp [kleinMirror]

theorem kleinMirror_inB {v : ℝ} (h1 : -π ≤ v) (h2 : v < π) :
    -π ≤ kleinMirror v ∧ kleinMirror v < π := by
  rw [kleinMirror_eq]; split_ifs <;> constructor <;> linarith [pi_pos]

theorem kleinInterp_short {u1 u2 : ℝ} (v1 v2 t : ℝ) (h : |u2 - u1| ≤ 1 / 2 * π) :
    kleinInterp so2Interp so2Wrap u1 v1 u2 v2 t = (lerp u1 u2 t, so2Interp v1 v2 t) := by
  simp only [kleinInterp, abs_eq, half_eq, pi_eq, if_pos h]

/-- the seam branch: the v coordinate is the SO(2) interpolation of the (possibly mirrored) ends -/
theorem kleinInterp_long {u1 u2 : ℝ} (v1 v2 t : ℝ) (h : ¬ |u2 - u1| ≤ 1 / 2 * π) :
    kleinInterp so2Interp so2Wrap u1 v1 u2 v2 t =
      (let u := u1 - (if 0 < u2 - u1 then π - (u2 - u1) else -π - (u2 - u1)) * t
       let crossed : Bool := decide (π < u) || decide (u < 0)
       (if π < u then u - π else if u < 0 then u + π else u,
        so2Interp (if crossed then kleinMirror v1 else v1) (if crossed then v2 else kleinMirror v2) t)) := by
  simp only [kleinInterp, so2Interp, abs_eq, half_eq, pi_eq, if_neg h, ofNat_zero]

theorem kleinInterp_inB {u1 v1 u2 v2 t : ℝ} (hu1 : 0 ≤ u1) (hu1' : u1 ≤ π) (hu2 : 0 ≤ u2)
    (hu2' : u2 ≤ π) (hv1 : -π ≤ v1) (hv1' : v1 < π) (hv2 : -π ≤ v2) (hv2' : v2 < π)
    (ht0 : 0 ≤ t) (ht1 : t ≤ 1) :
    (0 ≤ (kleinInterp so2Interp so2Wrap u1 v1 u2 v2 t).1 ∧
      (kleinInterp so2Interp so2Wrap u1 v1 u2 v2 t).1 ≤ π) ∧
    (-π ≤ (kleinInterp so2Interp so2Wrap u1 v1 u2 v2 t).2 ∧
      (kleinInterp so2Interp so2Wrap u1 v1 u2 v2 t).2 < π) := by
  by_cases h : |u2 - u1| ≤ 1 / 2 * π
  · rw [kleinInterp_short _ _ _ h]
    exact ⟨⟨le_lerp hu1 hu2 ht0 ht1, lerp_le hu1' hu2' ht0 ht1⟩,
      so2Interp_inB hv1 hv1' hv2 hv2' ht0 ht1⟩
  · rw [kleinInterp_long _ _ _ h]
    simp only []
    have m1 := kleinMirror_inB hv1 hv1'
    have m2 := kleinMirror_inB hv2 hv2'
    refine ⟨?_, ?_⟩
    · -- the u coordinate
      rw [not_le, lt_abs] at h
      by_cases hd : 0 < u2 - u1
      · rw [if_pos hd]
        have hD : 0 ≤ π - (u2 - u1) := by linarith
        have p0 : 0 ≤ (π - (u2 - u1)) * t := mul_nonneg hD ht0
        have p1 : (π - (u2 - u1)) * t ≤ π - (u2 - u1) := mul_le_of_le_one_right hD ht1
        split_ifs <;> constructor <;> linarith
      · rw [if_neg hd]
        have hD : 0 ≤ π + (u2 - u1) := by linarith
        have p0 : 0 ≤ (π + (u2 - u1)) * t := mul_nonneg hD ht0
        have p1 : (π + (u2 - u1)) * t ≤ π + (u2 - u1) := mul_le_of_le_one_right hD ht1
        have e : u1 - (-π - (u2 - u1)) * t = u1 + (π + (u2 - u1)) * t := by ring
        rw [e]
        split_ifs <;> constructor <;> linarith
    · -- the v coordinate: SO(2) interpolation of in-bounds ends
      split_ifs <;> first
        | exact so2Interp_inB m1.1 m1.2 hv2 hv2' ht0 ht1
        | exact so2Interp_inB hv1 hv1' m2.1 m2.2 ht0 ht1

theorem kleinInterp_zero {u1 v1 u2 v2 : ℝ} (hu1 : 0 ≤ u1) (hu1' : u1 ≤ π)
    (hv1 : -π ≤ v1) (hv1' : v1 < π) :
    kleinInterp so2Interp so2Wrap u1 v1 u2 v2 0 = (u1, v1) := by
  by_cases h : |u2 - u1| ≤ 1 / 2 * π
  · rw [kleinInterp_short _ _ _ h, lerp_zero, so2Interp_zero hv1 hv1']
  · rw [kleinInterp_long _ _ _ h]
    simp only [mul_zero, sub_zero, not_lt.mpr hu1', not_lt.mpr hu1, decide_false, Bool.or_self,
      if_false, Bool.false_eq_true, so2Interp_zero hv1 hv1']

/-- t = 1 on the seam branch needs `to.u` strictly inside `(0, π)`: for `to.u ∈ {0, π}` the code
returns the other representative of the same point (`u = π - to.u`, mirrored `v`) -/
theorem kleinInterp_one {u1 v1 u2 v2 : ℝ} (hu2 : 0 < u2)
    (hu2' : u2 < π) (hv2 : -π ≤ v2) (hv2' : v2 < π) :
    kleinInterp so2Interp so2Wrap u1 v1 u2 v2 1 = (u2, v2) := by
  by_cases h : |u2 - u1| ≤ 1 / 2 * π
  · rw [kleinInterp_short _ _ _ h, lerp_one, so2Interp_one hv2 hv2']
  · rw [kleinInterp_long _ _ _ h]
    rw [not_le, lt_abs] at h
    by_cases hd : 0 < u2 - u1
    · have e : u1 - (π - (u2 - u1)) * 1 = u2 - π := by ring
      have c1 : ¬ π < u2 - π := by linarith
      have c2 : u2 - π < 0 := by linarith
      simp only [if_pos hd, e, c1, c2, decide_false, decide_true, Bool.false_or, if_true, if_false,
        so2Interp_one hv2 hv2', sub_add_cancel]
    · have e : u1 - (-π - (u2 - u1)) * 1 = u2 + π := by ring
      have c1 : π < u2 + π := by linarith
      simp only [if_neg hd, e, c1, decide_true, Bool.true_or, if_true, so2Interp_one hv2 hv2',
        add_sub_cancel_right]

end OmplModel.SpaceInterp
