import OmplModel.Model.PathOpsGeom
namespace OmplModel.PathOps

variable {σ α : Type}

theorem closestGo_bound (lt : α → α → Bool) (dist : σ → σ → α) (q : σ) :
    ∀ (r : List σ) (i best : Nat) (m : α), best < i → closestGo lt dist q r i best m < i + r.length := by
  intro r
  induction r with
  | nil => intro i best m h; simpa [closestGo] using h
  | cons s r ih =>
    intro i best m h
    simp only [closestGo, List.length_cons]
    split
    · have := ih (i + 1) i (dist s q) (by omega); omega
    · have := ih (i + 1) best m (by omega); omega

/-- `getClosestIndex` is -1 exactly for the empty path and otherwise a valid index -/
theorem closestIndex_lt (lt : α → α → Bool) (dist : σ → σ → α) (q : σ) (l : List σ) (i : Nat)
    (h : closestIndex lt dist q l = some i) : i < l.length := by
  cases l with
  | nil => simp [closestIndex] at h
  | cons s r =>
    simp only [closestIndex, Option.some.injEq] at h
    have := closestGo_bound lt dist q r 1 0 (dist s q) (by omega)
    simp only [List.length_cons]; omega

theorem closestIndex_none (lt : α → α → Bool) (dist : σ → σ → α) (q : σ) (l : List σ) :
    closestIndex lt dist q l = none ↔ l = [] := by
  cases l <;> simp [closestIndex]

/-- `keepAfter` keeps a NON-EMPTY SUFFIX of a non-empty path (so the last state is kept) -/
theorem keepAfter_suffix (lt : α → α → Bool) (dist : σ → σ → α) (q : σ) (l : List σ) :
    ∃ k, keepAfter lt dist q l = l.drop k ∧ (l ≠ [] → k < l.length) := by
  unfold keepAfter
  split
  · next h => exact ⟨0, by simp, fun hl => by cases l <;> simp_all⟩
  · next i h =>
    have hi := closestIndex_lt lt dist q l i h
    split
    · split
      · next p n hp hn =>
        have hn' : i + 1 < l.length := (List.getElem?_eq_some_iff.mp hn).1
        split
        · exact ⟨i + 1, rfl, fun _ => hn'⟩
        · exact ⟨i, rfl, fun _ => hi⟩
      · exact ⟨i, rfl, fun _ => hi⟩
    · exact ⟨0, by simp, fun _ => by omega⟩

theorem keepAfter_getLast? (lt : α → α → Bool) (dist : σ → σ → α) (q : σ) (l : List σ) :
    (keepAfter lt dist q l).getLast? = l.getLast? := by
  obtain ⟨k, hk, hlt⟩ := keepAfter_suffix lt dist q l
  rw [hk]
  cases l with
  | nil => simp
  | cons a r =>
    have hk' := hlt (by simp)
    simp only [List.length_cons] at hk'
    simp only [List.getLast?_drop, List.length_cons]
    rw [if_neg (by omega)]

/-- `keepBefore` keeps a NON-EMPTY PREFIX of a non-empty path (so the first state is kept) -/
theorem keepBefore_prefix (lt : α → α → Bool) (dist : σ → σ → α) (q : σ) (l : List σ) :
    ∃ k, keepBefore lt dist q l = l.take (k + 1) ∨ (l = [] ∧ keepBefore lt dist q l = []) := by
  unfold keepBefore
  split
  · next h => exact ⟨0, Or.inr ⟨(closestIndex_none lt dist q l).mp h, (closestIndex_none lt dist q l).mp h⟩⟩
  · exact ⟨_, Or.inl rfl⟩

theorem keepBefore_head? (lt : α → α → Bool) (dist : σ → σ → α) (q : σ) (l : List σ) :
    (keepBefore lt dist q l).head? = l.head? := by
  obtain ⟨k, h | ⟨h1, h2⟩⟩ := keepBefore_prefix lt dist q l
  · rw [h]; cases l <;> simp
  · rw [h2, h1]

/-! ### perturbPath on paths with fewer than two states (F172) -/

/-- a toy environment over `Nat` -/
def ppToy : PpEnv Nat Nat Nat :=
  { N := { add := (· + ·), sub := (· - ·), mul := (· * ·), div := (· / ·), lt := fun a b => decide (a < b),
           le := fun a b => decide (a ≤ b), zero := 0, two := 2, negOne := 0, eps := 0 },
    O := { identity := 0, combine := (· + ·), motion := fun a b => (a - b) + (b - a), better := fun a b => decide (a < b) },
    cm := fun _ _ => true, dist := fun a b => (a - b) + (b - a), interp := fun a _ _ => a,
    hn := fun _ => 0, samp := fun _ => 0, stepSize := 1, snap := 0 }

/-- F172: as coded (no size guard) the routine indexes out of range on a one-state and on an empty path -/
theorem perturbPath_short_fails : perturbPath ppToy 1 1 [5] = none ∧ perturbPath ppToy 0 0 ([] : List Nat) = some ([], false) ∧
    perturbPath ppToy 1 1 ([] : List Nat) = none := by decide

/-- with the proposed guard a path of fewer than two states is returned unchanged, `false` -/
theorem perturbPathGuarded_short {γ : Type} (E : PpEnv σ α γ) (ms me : Nat) (path : List σ) (h : path.length < 2) :
    perturbPathGuarded E ms me path = some (path, false) := by
  unfold perturbPathGuarded; rw [if_pos h]

theorem perturbPathGuarded_long {γ : Type} (E : PpEnv σ α γ) (ms me : Nat) (path : List σ) (h : 2 ≤ path.length) :
    perturbPathGuarded E ms me path = perturbPath E ms me path := by
  unfold perturbPathGuarded; rw [if_neg (by omega)]

/-- the guarded routine either returns a short path unchanged or IS the unguarded routine: every `perturb_*` theorem
transfers through this case split -/
theorem perturbPathGuarded_cases {γ : Type} {E : PpEnv σ α γ} {ms me : Nat} {path out : List σ} {r : Bool}
    (h : perturbPathGuarded E ms me path = some (out, r)) :
    (path.length < 2 ∧ out = path ∧ r = false) ∨ (2 ≤ path.length ∧ perturbPath E ms me path = some (out, r)) := by
  unfold perturbPathGuarded at h
  split at h
  · next hl =>
    simp only [Option.some.injEq, Prod.mk.injEq] at h
    exact Or.inl ⟨hl, h.1.symm, h.2.symm⟩
  · next hl => exact Or.inr ⟨by omega, h⟩

end OmplModel.PathOps
