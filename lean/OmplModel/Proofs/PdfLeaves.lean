import OmplModel.Proofs.PdfShape
import OmplModel.Proofs.PdfIdx
/-! Row 0 of the tree (the stored weights, in element order) after each operation, and the
refinement of `getWeight` / `size` / handles to an abstract handle → weight map.  Arithmetic-free. -/
namespace OmplModel.Pdf
variable {α : Type}

/-- row 0 of the tree: the current weights in element order -/
def row0 (s : Pdf α) : Array α := s.tree.head?.getD #[]

theorem row0_size (s : Pdf α) (h : ShapeInv s) : (row0 s).size = s.data.size := by
  unfold ShapeInv at h
  unfold row0
  cases ht : s.tree with
  | nil => rw [ht, sizes_nil] at h; have : s.data.size = 0 := h; simp [this]
  | cons c rs => rw [ht, sizes_cons, shapeSizes_cons] at h; simp [h.1]

theorem getWeight_eq (s : Pdf α) (h : Nat) : s.getWeight h = (s.idx h).bind (fun i => (row0 s)[i]?) := by
  unfold Pdf.getWeight row0
  cases s.idx h with
  | none => rfl
  | some i => cases s.tree <;> simp

theorem popPhase_head [WOps α] (w : α) (c : Array α) (r : Array α) (rs : List (Array α)) :
    (popPhase w c (r :: rs)).head? = some c.pop := by
  unfold popPhase
  have := popLoop_ne_nil w c.pop.size r rs
  split
  · rw [List.dropLast_cons_of_ne_nil this]; rfl
  · rfl

theorem row0_add [WOps α] (s : Pdf α) (w : α) (hs : ShapeInv s) (hw : WOps.lt w (WOps.zero : α) = false) :
    row0 (s.add w) = (row0 s).push w := by
  unfold Pdf.add row0
  rw [hw]
  simp only [Bool.false_eq_true, if_false]
  unfold ShapeInv at hs
  by_cases h0 : s.data.size = 0
  · rw [h0, shapeSizes_zero_iff, sizes_eq_nil] at hs
    simp [h0, hs]
  · simp only [h0, if_false]
    cases ht : s.tree with
    | nil => rw [ht, sizes_nil] at hs; exact absurd hs h0
    | cons c rs => simp

theorem row0_update [WOps α] (s : Pdf α) (h i : Nat) (w : α) (hs : ShapeInv s) (hi : s.idx h = some i)
    (hd : i < s.data.size) : row0 (s.update h w) = (row0 s).setIfInBounds i w := by
  have hsz := row0_size s hs
  unfold Pdf.update
  rw [hi]
  simp only
  rw [if_neg (by omega)]
  unfold row0 at hsz ⊢
  cases ht : s.tree with
  | nil => simp [ht]
  | cons c rs =>
    rw [ht] at hsz
    simp only [List.head?_cons, Option.getD_some] at hsz ⊢
    have : i < c.size := by omega
    simp [this, ht, Array.setIfInBounds]

theorem row0_remove [WOps α] (s : Pdf α) (h i : Nat) (hs : ShapeInv s) (hi : s.idx h = some i)
    (hd : i < s.data.size) :
    row0 (s.remove h) = if i + 1 = s.data.size then (row0 s).pop
      else ((row0 s).swapIfInBounds i (s.data.size - 1)).pop := by
  have hsz := row0_size s hs
  unfold Pdf.remove
  rw [hi]
  simp only [hd, dite_true]
  unfold ShapeInv at hs
  unfold row0 at hsz ⊢
  cases ht : s.tree with
  | nil =>
    rw [ht, sizes_nil] at hs
    have : s.data.size = 0 := hs
    omega
  | cons c rs =>
    rw [ht] at hsz hs
    simp only [List.head?_cons, Option.getD_some] at hsz ⊢
    by_cases h1 : s.data.size = 1
    · simp only [h1, if_true, List.head?_nil, Option.getD_none]
      have : i + 1 = 1 := by omega
      simp only [this, if_true]
      apply Array.ext
      · simp [hsz, h1]
      · intro k hk; simp at hk
    · simp only [h1, if_false]
      have hic : i < c.size := by omega
      simp only [hic, dite_true]
      rw [sizes_cons, shapeSizes_cons] at hs
      have hrs : rs ≠ [] := by
        intro e
        rw [e, sizes_nil, above_nil _ hs.2.1] at hs
        omega
      obtain ⟨r, rs2, e⟩ := List.exists_cons_of_ne_nil hrs
      subst e
      split
      · rw [popPhase_head]; rfl
      · have e2 : s.data.size - 1 = c.size - 1 := by omega
        have hl : c.size - 1 < c.size := by omega
        split
        · rw [popPhase_head]
          simp [Array.swapIfInBounds, hic, e2, hl]
        · simp only [bump]
          rw [popPhase_head]
          simp [Array.swapIfInBounds, hic, e2, hl]

/-- the abstract structure: a handle → weight map and the number of handles ever created -/
structure Abs (α : Type) where
  m : Nat → Option α := fun _ => none
  next : Nat := 0

def Abs.step [WOps α] (a : Abs α) : Op α → Abs α
  | .add w => if WOps.lt w (WOps.zero : α) then a
              else { m := fun k => if k = a.next then some w else a.m k, next := a.next + 1 }
  | .update h w => if (a.m h).isSome then { a with m := fun k => if k = h then some w else a.m k } else a
  | .remove h => { a with m := fun k => if k = h then none else a.m k }
  | .clear => { a with m := fun _ => none }
  | .sample _ => a

def Abs.run [WOps α] (a : Abs α) (ops : List (Op α)) : Abs α := ops.foldl Abs.step a

def Refines (s : Pdf α) (a : Abs α) : Prop := (∀ h, s.getWeight h = a.m h) ∧ s.next = a.next

theorem update_idx [WOps α] (s : Pdf α) (h : Nat) (w : α) :
    (s.update h w).idx = s.idx ∧ (s.update h w).next = s.next := by
  unfold Pdf.update
  split
  · exact ⟨rfl, rfl⟩
  · split
    · exact ⟨rfl, rfl⟩
    · split
      · exact ⟨rfl, rfl⟩
      · split <;> exact ⟨rfl, rfl⟩

theorem remove_idx [WOps α] (s : Pdf α) (h i : Nat) (hs : ShapeInv s) (hi : s.idx h = some i)
    (hd : i < s.data.size) :
    (s.remove h).next = s.next ∧
    (s.remove h).idx = if i + 1 = s.data.size then setIdx s.idx s.data[i] none
      else setIdx (setIdx s.idx s.data[i] none) (s.data[s.data.size - 1]'(by omega)) (some i) := by
  have hsz := row0_size s hs
  unfold Pdf.remove
  rw [hi]
  simp only [hd, dite_true]
  unfold row0 at hsz
  cases ht : s.tree with
  | nil =>
    rw [ht] at hsz
    simp at hsz
    omega
  | cons c rs =>
    rw [ht] at hsz
    simp only [List.head?_cons, Option.getD_some] at hsz
    by_cases h1 : s.data.size = 1
    · have : i + 1 = s.data.size := by omega
      rw [if_pos h1, if_pos this]
      exact ⟨rfl, rfl⟩
    · simp only [h1, if_false]
      have hic : i < c.size := by omega
      simp only [hic, dite_true]
      split
      · exact ⟨rfl, rfl⟩
      · split <;> exact ⟨rfl, rfl⟩

theorem refines_add [WOps α] (s : Pdf α) (a : Abs α) (w : α) (hsh : ShapeInv s) (hix : IdxSync s)
    (hr : Refines s a) : Refines (s.add w) (a.step (.add w)) := by
  obtain ⟨hw, hn⟩ := hr
  by_cases hlt : WOps.lt w (WOps.zero : α) = true
  · have : s.add w = s := by unfold Pdf.add; simp [hlt]
    rw [this]; simp only [Abs.step, hlt, if_true]; exact ⟨hw, hn⟩
  · have hlt' : WOps.lt w (WOps.zero : α) = false := by simpa using hlt
    have hrow := row0_add s w hsh hlt'
    have hsz := row0_size s hsh
    have hidx : (s.add w).idx = setIdx s.idx s.next (some s.data.size) ∧ (s.add w).next = s.next + 1 := by
      unfold Pdf.add; simp [hlt']
    simp only [Abs.step, hlt', Bool.false_eq_true, if_false]
    refine ⟨?_, by rw [hidx.2, hn]⟩
    intro k
    rw [getWeight_eq, hrow, hidx.1, ← hn]
    simp only [setIdx]
    split
    · simp [← hsz]
    · rw [← hw k, getWeight_eq]
      cases hk : s.idx k with
      | none => rfl
      | some j =>
        have := hix.sync.lt hk
        simp only [Option.bind_some]
        rw [Array.getElem?_push_lt (by omega)]
        rw [Array.getElem?_eq_getElem (by omega)]

theorem refines_update [WOps α] (s : Pdf α) (a : Abs α) (h : Nat) (w : α) (hsh : ShapeInv s)
    (hix : IdxSync s) (hr : Refines s a) : Refines (s.update h w) (a.step (.update h w)) := by
  obtain ⟨hw, hn⟩ := hr
  have hsz := row0_size s hsh
  obtain ⟨hidx, hnext⟩ := update_idx s h w
  cases hi : s.idx h with
  | none =>
    have : s.update h w = s := by unfold Pdf.update; simp [hi]
    have hm : a.m h = none := by rw [← hw h, getWeight_eq, hi]; rfl
    rw [this]; simp only [Abs.step, hm, Option.isSome_none, Bool.false_eq_true, if_false]
    exact ⟨hw, hn⟩
  | some i =>
    have hd := hix.sync.lt hi
    have hm : (a.m h).isSome = true := by
      rw [← hw h, getWeight_eq, hi]; simp [hsz, hd]
    simp only [Abs.step, hm, if_true]
    refine ⟨?_, by rw [hnext, hn]⟩
    intro k
    rw [getWeight_eq, row0_update s h i w hsh hi hd, hidx]
    simp only
    by_cases e : k = h
    · subst e; rw [hi]; simp [hsz, hd]
    · simp only [e, if_false]
      rw [← hw k, getWeight_eq]
      cases hk : s.idx k with
      | none => rfl
      | some j =>
        have hj := hix.sync.lt hk
        have : i ≠ j := by
          intro e2; subst e2
          exact e ((hix.sync.get hk hj).symm.trans (hix.sync.get hi hd))
        simp [Array.getElem?_setIfInBounds, this]

theorem refines_remove [WOps α] (s : Pdf α) (a : Abs α) (h : Nat) (hsh : ShapeInv s)
    (hix : IdxSync s) (hr : Refines s a) : Refines (s.remove h) (a.step (.remove h)) := by
  obtain ⟨hw, hn⟩ := hr
  have hsz := row0_size s hsh
  cases hi : s.idx h with
  | none =>
    have : s.remove h = s := by unfold Pdf.remove; simp [hi]
    have hm : a.m h = none := by rw [← hw h, getWeight_eq, hi]; rfl
    rw [this]
    refine ⟨?_, hn⟩
    intro k; simp only [Abs.step]
    split
    · rename_i e; rw [e, hw h, hm]
    · exact hw k
  | some i =>
    have hd := hix.sync.lt hi
    have hg := hix.sync.get hi hd
    obtain ⟨hnext, hidx⟩ := remove_idx s h i hsh hi hd
    refine ⟨?_, by rw [hnext, hn]; rfl⟩
    intro k
    simp only [Abs.step]
    rw [getWeight_eq, row0_remove s h i hsh hi hd, hidx, hg]
    by_cases hl : i + 1 = s.data.size
    · simp only [hl, if_true, setIdx]
      split
      · rfl
      · rename_i e
        rw [← hw k, getWeight_eq]
        cases hk : s.idx k with
        | none => rfl
        | some j =>
          have hj := hix.sync.lt hk
          have : j ≠ i := by
            intro e2; subst e2
            exact e ((hix.sync.get hk hj).symm.trans hg)
          simp only [Option.bind_some]
          rw [Array.getElem?_pop]
          have : j < (row0 s).size - 1 := by omega
          simp [this]
    · simp only [hl, if_false, setIdx]
      have hl0 : s.data.size - 1 < s.data.size := by omega
      have fl := hix.fwd (s.data.size - 1) hl0
      have hml : s.data[s.data.size - 1] ≠ h := by
        intro e; rw [e, hi] at fl; simp at fl; omega
      by_cases e1 : k = s.data[s.data.size - 1]
      · have : ¬ k = h := by rw [e1]; exact hml
        simp only [e1, if_true, Option.bind_some, hml, if_false]
        rw [← hw, getWeight_eq, fl]
        simp only [Option.bind_some]
        rw [Array.getElem?_pop]
        have h1 : i < (row0 s).size - 1 := by omega
        have h2 : i < (row0 s).size := by omega
        have h3 : s.data.size - 1 < (row0 s).size := by omega
        simp [h1, Array.swapIfInBounds, h2, h3]
      · simp only [e1, if_false]
        split
        · rfl
        · rename_i e
          rw [← hw k, getWeight_eq]
          cases hk : s.idx k with
          | none => rfl
          | some j =>
            have hj := hix.sync.lt hk
            have hgk := hix.sync.get hk hj
            have n1 : j ≠ i := by
              intro e2; subst e2; exact e (hgk.symm.trans hg)
            have n2 : j ≠ s.data.size - 1 := by
              intro e2; subst e2; exact e1 hgk.symm
            simp only [Option.bind_some]
            rw [Array.getElem?_pop]
            have h1 : j < (row0 s).size - 1 := by omega
            have h2 : i < (row0 s).size := by omega
            have h3 : s.data.size - 1 < (row0 s).size := by omega
            have h4 : j < (row0 s).size := by omega
            simp [h1, Array.swapIfInBounds, h2, h3, h4, n1, n2]

theorem refines_step [WOps α] (s : Pdf α) (a : Abs α) (op : Op α) (hsh : ShapeInv s) (hix : IdxSync s)
    (hr : Refines s a) : Refines (s.step op) (a.step op) := by
  cases op with
  | add w => exact refines_add s a w hsh hix hr
  | update h w => exact refines_update s a h w hsh hix hr
  | remove h => exact refines_remove s a h hsh hix hr
  | clear => exact ⟨fun k => by simp [Pdf.step, Pdf.clear, Pdf.getWeight, Abs.step], hr.2⟩
  | sample r => exact hr

theorem refines_run [WOps α] : ∀ (ops : List (Op α)) (s : Pdf α) (a : Abs α), ShapeInv s → IdxSync s →
    Refines s a → Refines (s.run ops) (a.run ops)
  | [], _, _, _, _, hr => hr
  | op :: ops, s, a, hsh, hix, hr =>
    refines_run ops (s.step op) (a.step op) (shapeInv_step s op hsh) (idxSync_step s op hix)
      (refines_step s a op hsh hix hr)

end OmplModel.Pdf
