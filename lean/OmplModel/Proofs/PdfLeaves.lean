import OmplModel.Proofs.PdfShape
import OmplModel.Proofs.PdfIdx
/-! Row 0 of the tree (the stored weights, in element order) after each operation, and the
refinement of `getWeight` / `size` / handles to an abstract handle → weight map.  Arithmetic-free. -/
namespace OmplModel.Pdf
variable {α : Type}

/-- row 0 of the tree: the current weights in element order -/
def row0 (s : Pdf α) : Array α := s.tree.head?.getD #[]

theorem row0_size (s : Pdf α) (h : ShapeInv s) : (row0 s).size = s.data.size := by
  unfold ShapeInv at h
  unfold row0
  cases ht : s.tree with
  | nil => rw [ht, sizes_nil] at h; have : s.data.size = 0 := h; simp [this]
  | cons c rs => rw [ht, sizes_cons, shapeSizes_cons] at h; simp [h.1]

theorem getWeight_eq (s : Pdf α) (h : Nat) : s.getWeight h = (s.idx h).bind (fun i => (row0 s)[i]?) := by
  unfold Pdf.getWeight row0
  cases s.idx h with
  | none => rfl
  | some i => cases s.tree <;> simp

theorem popPhase_head [WOps α] (w : α) (c : Array α) (r : Array α) (rs : List (Array α)) :
    (popPhase w c (r :: rs)).head? = some c.pop := by
  unfold popPhase
  have := popLoop_ne_nil w c.pop.size r rs
  split
  · rw [List.dropLast_cons_of_ne_nil this]; rfl
  · rfl

theorem row0_add [WOps α] (s : Pdf α) (w : α) (hs : ShapeInv s) (hw : WOps.lt w (WOps.zero : α) = false) :
    row0 (s.add w) = (row0 s).push w := by
  unfold Pdf.add row0
  rw [hw]
  simp only [Bool.false_eq_true, if_false]
  unfold ShapeInv at hs
  by_cases h0 : s.data.size = 0
  · rw [h0, shapeSizes_zero_iff, sizes_eq_nil] at hs
    simp [h0, hs]
  · simp only [h0, if_false]
    cases ht : s.tree with
    | nil => rw [ht, sizes_nil] at hs; exact absurd hs h0
    | cons c rs => simp

theorem row0_update [WOps α] (s : Pdf α) (h i : Nat) (w : α) (hs : ShapeInv s) (hi : s.idx h = some i)
    (hd : i < s.data.size) : row0 (s.update h w) = (row0 s).setIfInBounds i w := by
  have hsz := row0_size s hs
  unfold Pdf.update
  rw [hi]
  simp only
  rw [if_neg (by omega)]
  unfold row0 at hsz ⊢
  cases ht : s.tree with
  | nil => simp [ht]
  | cons c rs =>
    rw [ht] at hsz
    simp only [List.head?_cons, Option.getD_some] at hsz ⊢
    have : i < c.size := by omega
    simp [this, ht, Array.setIfInBounds]

theorem row0_remove [WOps α] (s : Pdf α) (h i : Nat) (hs : ShapeInv s) (hi : s.idx h = some i)
    (hd : i < s.data.size) :
    row0 (s.remove h) = if i + 1 = s.data.size then (row0 s).pop
      else ((row0 s).swapIfInBounds i (s.data.size - 1)).pop := by
  have hsz := row0_size s hs
  unfold Pdf.remove
  rw [hi]
  simp only [hd, dite_true]
  unfold ShapeInv at hs
  unfold row0 at hsz ⊢
  cases ht : s.tree with
  | nil =>
    rw [ht, sizes_nil] at hs
    have : s.data.size = 0 := hs
    omega
  | cons c rs =>
    rw [ht] at hsz hs
    simp only [List.head?_cons, Option.getD_some] at hsz ⊢
    by_cases h1 : s.data.size = 1
    · simp only [h1, if_true, List.head?_nil, Option.getD_none]
      have : i + 1 = 1 := by omega
      simp only [this, if_true]
      apply Array.ext
      · simp [hsz, h1]
      · intro k hk; simp at hk
    · simp only [h1, if_false]
      have hic : i < c.size := by omega
      simp only [hic, dite_true]
      rw [sizes_cons, shapeSizes_cons] at hs
      have hrs : rs ≠ [] := by
        intro e
        rw [e, sizes_nil, above_nil _ hs.2.1] at hs
        omega
      obtain ⟨r, rs2, e⟩ := List.exists_cons_of_ne_nil hrs
      subst e
      split
      · rw [popPhase_head]; rfl
      · have e2 : s.data.size - 1 = c.size - 1 := by omega
        have hl : c.size - 1 < c.size := by omega
        split
        · rw [popPhase_head]
          simp [Array.swapIfInBounds, hic, e2, hl]
        · simp only [bump]
          rw [popPhase_head]
          simp [Array.swapIfInBounds, hic, e2, hl]

end OmplModel.Pdf
