import OmplModel.Proofs.SpaceInterpReal
import Mathlib.Tactic.FieldSimp
import Mathlib.Tactic.LinearCombination
/-!
C07, SO(3) over ℝ (slerp as coded, with the `dq < 0` sign flip and the `theta <= eps` copy branch):
`t = 0` returns `from` exactly (any quaternions); for exactly-unit quaternions the result is
exactly unit (hence in bounds), and `t = 1` returns `±to` (equal states as coded).
-/
open scoped OmplModel.SpaceInterp.RealNum
attribute [-instance] OmplModel.Num.instOfNat

namespace OmplModel.SpaceInterp
open OmplModel Real RealNum

theorem quatDot_eq (x1 y1 z1 w1 x2 y2 z2 w2 : ℝ) :
    quatDot x1 y1 z1 w1 x2 y2 z2 w2 = x1 * x2 + y1 * y2 + z1 * z2 + w1 * w2 := rfl

theorem arcLength_eq (x1 y1 z1 w1 x2 y2 z2 w2 : ℝ) :
    arcLength x1 y1 z1 w1 x2 y2 z2 w2 =
      if 1 - 1 / 10 ^ 9 < |quatDot x1 y1 z1 w1 x2 y2 z2 w2| then 0
      else Real.arccos |quatDot x1 y1 z1 w1 x2 y2 z2 w2| := by
  simp [arcLength]

/-- what `dblEps < arcLength` says: no clamp, `theta = arccos |dq|` with `|dq| ≤ 1 - 1e-9` -/
theorem arcLength_big {x1 y1 z1 w1 x2 y2 z2 w2 : ℝ}
    (h : dblEps < arcLength x1 y1 z1 w1 x2 y2 z2 w2) :
    |quatDot x1 y1 z1 w1 x2 y2 z2 w2| ≤ 1 - 1 / 10 ^ 9 ∧
      arcLength x1 y1 z1 w1 x2 y2 z2 w2 = Real.arccos |quatDot x1 y1 z1 w1 x2 y2 z2 w2| := by
  rw [arcLength_eq] at h ⊢
  split_ifs at h ⊢ with hc
  · exact absurd h (not_lt.mpr dblEps_pos.le)
  · exact ⟨not_lt.mp hc, rfl⟩

theorem cos_arcLength {x1 y1 z1 w1 x2 y2 z2 w2 : ℝ}
    (h : dblEps < arcLength x1 y1 z1 w1 x2 y2 z2 w2) :
    Real.cos (arcLength x1 y1 z1 w1 x2 y2 z2 w2) = |quatDot x1 y1 z1 w1 x2 y2 z2 w2| := by
  obtain ⟨h1, h2⟩ := arcLength_big h
  rw [h2, Real.cos_arccos (by linarith [abs_nonneg (quatDot x1 y1 z1 w1 x2 y2 z2 w2)])
    (by norm_num at h1 ⊢; linarith)]

theorem sin_arcLength_pos {x1 y1 z1 w1 x2 y2 z2 w2 : ℝ}
    (h : dblEps < arcLength x1 y1 z1 w1 x2 y2 z2 w2) :
    0 < Real.sin (arcLength x1 y1 z1 w1 x2 y2 z2 w2) := by
  obtain ⟨h1, h2⟩ := arcLength_big h
  have h0 := abs_nonneg (quatDot x1 y1 z1 w1 x2 y2 z2 w2)
  rw [h2, Real.sin_arccos]
  apply Real.sqrt_pos.mpr
  have : |quatDot x1 y1 z1 w1 x2 y2 z2 w2| < 1 := by norm_num at h1 ⊢; linarith
  nlinarith

/-- `so3Interp` in the slerp branch -/
theorem so3Interp_big {x1 y1 z1 w1 x2 y2 z2 w2 : ℝ} (t : ℝ)
    (h : dblEps < arcLength x1 y1 z1 w1 x2 y2 z2 w2) :
    so3Interp x1 y1 z1 w1 x2 y2 z2 w2 t =
      (let θ := arcLength x1 y1 z1 w1 x2 y2 z2 w2
       let d := 1 / Real.sin θ
       let s0 := Real.sin ((1 - t) * θ)
       let s1 := if quatDot x1 y1 z1 w1 x2 y2 z2 w2 < 0 then -Real.sin (t * θ) else Real.sin (t * θ)
       .so3 ((x1 * s0 + x2 * s1) * d) ((y1 * s0 + y2 * s1) * d) ((z1 * s0 + z2 * s1) * d)
         ((w1 * s0 + w2 * s1) * d)) := by
  simp only [so3Interp, if_pos h, sin_eq, ofNat_zero, ofNat_one]

theorem so3Interp_small {x1 y1 z1 w1 x2 y2 z2 w2 : ℝ} (t : ℝ)
    (h : ¬ dblEps < arcLength x1 y1 z1 w1 x2 y2 z2 w2) :
    so3Interp x1 y1 z1 w1 x2 y2 z2 w2 t = .so3 x1 y1 z1 w1 := by
  simp only [so3Interp, if_neg h]

/-! ### t = 0 -/

theorem so3Interp_zero (x1 y1 z1 w1 x2 y2 z2 w2 : ℝ) :
    so3Interp x1 y1 z1 w1 x2 y2 z2 w2 0 = .so3 x1 y1 z1 w1 := by
  by_cases h : dblEps < arcLength x1 y1 z1 w1 x2 y2 z2 w2
  · rw [so3Interp_big 0 h]
    have hs := (sin_arcLength_pos h).ne'
    simp only [sub_zero, one_mul, zero_mul, Real.sin_zero, neg_zero, ite_self, mul_zero, add_zero]
    congr 1 <;> field_simp
  · exact so3Interp_small 0 h

/-! ### unit quaternions stay unit -/

/-- the slerp identity: with `A + B = θ`, `sin²A + sin²B + 2 sinA sinB cos θ = sin² θ` -/
theorem slerp_identity (A B : ℝ) :
    Real.sin A ^ 2 + Real.sin B ^ 2 + 2 * Real.sin A * Real.sin B * Real.cos (A + B)
      = Real.sin (A + B) ^ 2 := by
  rw [Real.sin_add, Real.cos_add]
  linear_combination (-(Real.sin A) ^ 2) * Real.sin_sq_add_cos_sq B
    - (Real.sin B) ^ 2 * Real.sin_sq_add_cos_sq A

/-- numerator of the squared norm in the slerp branch -/
theorem slerp_num {x1 y1 z1 w1 x2 y2 z2 w2 : ℝ} (t : ℝ)
    (h : dblEps < arcLength x1 y1 z1 w1 x2 y2 z2 w2) :
    let θ := arcLength x1 y1 z1 w1 x2 y2 z2 w2
    let s0 := Real.sin ((1 - t) * θ)
    let s1 := if quatDot x1 y1 z1 w1 x2 y2 z2 w2 < 0 then -Real.sin (t * θ) else Real.sin (t * θ)
    s0 ^ 2 + s1 ^ 2 + 2 * s0 * s1 * quatDot x1 y1 z1 w1 x2 y2 z2 w2 = Real.sin θ ^ 2 := by
  intro θ s0 s1
  have hc := cos_arcLength h
  have key := slerp_identity ((1 - t) * θ) (t * θ)
  have e : (1 - t) * θ + t * θ = θ := by ring
  rw [e] at key
  change Real.cos θ = _ at hc
  rw [hc] at key
  by_cases hd : quatDot x1 y1 z1 w1 x2 y2 z2 w2 < 0
  · have : s1 = -Real.sin (t * θ) := if_pos hd
    rw [this, ← key, abs_of_neg hd]; ring
  · have : s1 = Real.sin (t * θ) := if_neg hd
    rw [this, ← key, abs_of_nonneg (not_lt.mp hd)]

theorem so3Interp_unit {x1 y1 z1 w1 x2 y2 z2 w2 : ℝ} (t : ℝ)
    (h1 : x1 * x1 + y1 * y1 + z1 * z1 + w1 * w1 = 1)
    (h2 : x2 * x2 + y2 * y2 + z2 * z2 + w2 * w2 = 1) :
    ∃ x y z w, so3Interp x1 y1 z1 w1 x2 y2 z2 w2 t = .so3 x y z w ∧
      x * x + y * y + z * z + w * w = 1 := by
  by_cases h : dblEps < arcLength x1 y1 z1 w1 x2 y2 z2 w2
  · rw [so3Interp_big t h]
    refine ⟨_, _, _, _, rfl, ?_⟩
    have hs := (sin_arcLength_pos h).ne'
    have hn := slerp_num t h
    simp only [] at hn
    generalize (if quatDot x1 y1 z1 w1 x2 y2 z2 w2 < 0
      then -Real.sin (t * arcLength x1 y1 z1 w1 x2 y2 z2 w2)
      else Real.sin (t * arcLength x1 y1 z1 w1 x2 y2 z2 w2)) = s1 at hn ⊢
    generalize Real.sin ((1 - t) * arcLength x1 y1 z1 w1 x2 y2 z2 w2) = s0 at hn ⊢
    generalize Real.sin (arcLength x1 y1 z1 w1 x2 y2 z2 w2) = S at hn hs ⊢
    rw [quatDot_eq] at hn
    field_simp
    linear_combination s0 ^ 2 * h1 + s1 ^ 2 * h2 + hn
  · rw [so3Interp_small t h]
    exact ⟨_, _, _, _, rfl, h1⟩

/-- exactly-unit quaternions satisfy the bounds as coded (`norm()` returns exactly 1) -/
theorem so3InB_of_unit {x y z w : ℝ} (h : x * x + y * y + z * z + w * w = 1) :
    so3InB x y z w = true := by
  simp [so3InB, so3Norm, h]

theorem so3Interp_inB {x1 y1 z1 w1 x2 y2 z2 w2 : ℝ} (t : ℝ)
    (h1 : x1 * x1 + y1 * y1 + z1 * z1 + w1 * w1 = 1)
    (h2 : x2 * x2 + y2 * y2 + z2 * z2 + w2 * w2 = 1) :
    inBounds .so3 (so3Interp x1 y1 z1 w1 x2 y2 z2 w2 t) = true := by
  obtain ⟨x, y, z, w, e, hn⟩ := so3Interp_unit t h1 h2
  rw [e]; exact so3InB_of_unit hn

/-! ### t = 1: `±to`, equal states as coded -/

/-- below the clamp the arc length is far above `eps`: `cos eps ≥ 1 - eps²/2 > 1 - 1e-9` -/
theorem arcLength_small {x1 y1 z1 w1 x2 y2 z2 w2 : ℝ}
    (h : ¬ dblEps < arcLength x1 y1 z1 w1 x2 y2 z2 w2) :
    arcLength x1 y1 z1 w1 x2 y2 z2 w2 = 0 := by
  rw [arcLength_eq] at h ⊢
  split_ifs at h ⊢ with hc
  · rfl
  · exfalso
    have hc' := not_lt.mp hc
    have h0 := abs_nonneg (quatDot x1 y1 z1 w1 x2 y2 z2 w2)
    have hle := not_lt.mp h
    have hcos : Real.cos dblEps ≤ |quatDot x1 y1 z1 w1 x2 y2 z2 w2| := by
      have := Real.cos_le_cos_of_nonneg_of_le_pi (Real.arccos_nonneg _)
        (by rw [dblEps_eq]; linarith [pi_gt_three]) hle
      rwa [Real.cos_arccos (by linarith) (by norm_num at hc' ⊢; linarith)] at this
    have hb := Real.one_sub_sq_div_two_le_cos (x := dblEps)
    rw [dblEps_eq] at hb hcos
    norm_num at hb hcos hc'
    linarith

theorem arcLength_self_unit {x y z w : ℝ} (h : x * x + y * y + z * z + w * w = 1) :
    arcLength x y z w x y z w = 0 ∧ arcLength (-x) (-y) (-z) (-w) x y z w = 0 := by
  constructor
  · rw [arcLength_eq, quatDot_eq, h, if_pos (by norm_num)]
  · have e : -x * x + -y * y + -z * z + -w * w = -1 := by linarith
    rw [arcLength_eq, quatDot_eq, e, if_pos (by norm_num)]

theorem so3Interp_one {x1 y1 z1 w1 x2 y2 z2 w2 : ℝ}
    (h2 : x2 * x2 + y2 * y2 + z2 * z2 + w2 * w2 = 1) :
    eqStates .so3 (so3Interp x1 y1 z1 w1 x2 y2 z2 w2 1) (.so3 x2 y2 z2 w2) = true := by
  by_cases h : dblEps < arcLength x1 y1 z1 w1 x2 y2 z2 w2
  · rw [so3Interp_big 1 h]
    have hs := (sin_arcLength_pos h).ne'
    simp only [sub_self, zero_mul, Real.sin_zero, mul_zero, zero_add, one_mul, eqStates,
      decide_eq_true_eq]
    generalize Real.sin (arcLength x1 y1 z1 w1 x2 y2 z2 w2) = S at hs ⊢
    have e1 : ∀ q : ℝ, q * -S * (1 / S) = -q := fun q => by field_simp
    have e2 : ∀ q : ℝ, q * S * (1 / S) = q := fun q => by field_simp
    split_ifs
    · simp only [e1, (arcLength_self_unit h2).2, dblEps_pos]
    · simp only [e2, (arcLength_self_unit h2).1, dblEps_pos]
  · rw [so3Interp_small 1 h]
    simp only [eqStates, decide_eq_true_eq, arcLength_small h, dblEps_pos]

end OmplModel.SpaceInterp
