import OmplModel.Proofs.PathOpsDensify
import Mathlib.Algebra.Order.Monoid.Defs
/-!
# Vertex-removing routines (`reduceVertices`, `collapseCloseVertices`) as shortcut sequences

Both loops only ever replace the current vector `l` by `eraseRange l (a + 1) b` for indices
`a + 1 ≤ b < l.length` whose states were joined by a `checkMotion` that answered `true`
(`Shortcut`).  Everything the property says about them follows from that refinement.
-/
namespace OmplModel.PathOps

variable {σ : Type}

/-- one vertex removal: indices `a < b` of `l` are joined, the vertices strictly between are
erased, and `checkMotion` answered `true` for the joined pair -/
inductive Shortcut (cm : σ → σ → Bool) : List σ → List σ → Prop
  | mk (l : List σ) (a b : Nat) (sa sb : σ) (ha : l[a]? = some sa) (hb : l[b]? = some sb)
      (hab : a + 1 ≤ b) (hcm : cm sa sb = true) : Shortcut cm l (eraseRange l (a + 1) b)

inductive Shortcuts (cm : σ → σ → Bool) : List σ → List σ → Prop
  | refl (l : List σ) : Shortcuts cm l l
  | step {l m n : List σ} : Shortcuts cm l m → Shortcut cm m n → Shortcuts cm l n

theorem Shortcuts.trans {cm : σ → σ → Bool} {l m n : List σ} (h1 : Shortcuts cm l m)
    (h2 : Shortcuts cm m n) : Shortcuts cm l n := by
  induction h2 with
  | refl => exact h1
  | step _ s ih => exact .step ih s

theorem Shortcuts.head {cm : σ → σ → Bool} {l m n : List σ} (s : Shortcut cm l m)
    (h : Shortcuts cm m n) : Shortcuts cm l n :=
  Shortcuts.trans (.step (.refl l) s) h

/-! ### one step -/

theorem Shortcut.spec {cm : σ → σ → Bool} {l m : List σ} (h : Shortcut cm l m) :
    m.head? = l.head? ∧ m.getLast? = l.getLast? ∧ m.Sublist l ∧
    (2 ≤ l.length → 2 ≤ m.length) ∧ (∀ p ∈ adj m, p ∈ adj l ∨ cm p.1 p.2 = true) := by
  cases h with
  | mk a b sa sb ha hb hab hcm =>
    obtain ⟨hal, hae⟩ := List.getElem?_eq_some_iff.mp ha
    obtain ⟨hbl, hbe⟩ := List.getElem?_eq_some_iff.mp hb
    have hs := splice_aux l a b [] hal hbl
    simp only [List.append_nil] at hs
    refine ⟨hs.1, hs.2.1, ?_, ?_, ?_⟩
    · unfold eraseRange
      have : l.take (a + 1) ++ l.drop b = l.take (a + 1) ++ (l.drop (a + 1)).drop (b - (a + 1)) := by
        rw [List.drop_drop]; congr 2; omega
      rw [this]
      conv => rhs; rw [← List.take_append_drop (a + 1) l]
      exact List.Sublist.append_left (List.drop_sublist _ _) _
    · intro _
      unfold eraseRange
      simp only [List.length_append, List.length_take, List.length_drop]
      omega
    · intro p hp
      rcases hs.2.2 p hp with h | h
      · exact Or.inl h
      · right
        simp [adj] at h
        subst h
        simp only [hae, hbe, hcm]

theorem Shortcuts.head? {cm : σ → σ → Bool} {l m : List σ} (h : Shortcuts cm l m) :
    m.head? = l.head? := by
  induction h with
  | refl => rfl
  | step _ s ih => rw [s.spec.1, ih]

theorem Shortcuts.getLast? {cm : σ → σ → Bool} {l m : List σ} (h : Shortcuts cm l m) :
    m.getLast? = l.getLast? := by
  induction h with
  | refl => rfl
  | step _ s ih => rw [s.spec.2.1, ih]

theorem Shortcuts.sublist {cm : σ → σ → Bool} {l m : List σ} (h : Shortcuts cm l m) :
    m.Sublist l := by
  induction h with
  | refl => exact List.Sublist.refl _
  | step _ s ih => exact s.spec.2.2.1.trans ih

theorem Shortcuts.two_le {cm : σ → σ → Bool} {l m : List σ} (h : Shortcuts cm l m)
    (h2 : 2 ≤ l.length) : 2 ≤ m.length := by
  induction h with
  | refl => exact h2
  | step _ s ih => exact s.spec.2.2.2.1 ih

/-- every motion of the result is a motion of the input or was validated -/
theorem Shortcuts.adj {cm : σ → σ → Bool} {l m : List σ} (h : Shortcuts cm l m) :
    ∀ p ∈ adj m, p ∈ adj l ∨ cm p.1 p.2 = true := by
  induction h with
  | refl => exact fun p hp => Or.inl hp
  | step _ s ih =>
    intro p hp
    rcases s.spec.2.2.2.2 p hp with h | h
    · exact ih p h
    · exact Or.inr h

/-! ### never longer -/

/-- path length: sum of `dist` over the motions -/
def pathLen {α : Type} [Add α] [Zero α] (dist : σ → σ → α) : List σ → α
  | a :: b :: r => dist a b + pathLen dist (b :: r)
  | _ => 0

section Len
variable {α : Type} [AddCommMonoid α] [PartialOrder α] [IsOrderedAddMonoid α]

theorem pathLen_drop_le (dist : σ → σ → α) (tri : ∀ a b c, dist a c ≤ dist a b + dist b c) :
    ∀ (k : Nat) (x : σ) (r : List σ), k < r.length →
      pathLen dist (x :: r.drop k) ≤ pathLen dist (x :: r) := by
  intro k
  induction k with
  | zero => intro x r _; simp
  | succ k ih =>
    intro x r hk
    cases r with
    | nil => simp at hk
    | cons y r' =>
      simp only [List.length_cons, Nat.add_lt_add_iff_right] at hk
      simp only [List.drop_succ_cons]
      have h1 := ih y r' hk
      rcases hd : r'.drop k with _ | ⟨z, t⟩
      · have : (r'.drop k).length = 0 := by rw [hd]; rfl
        simp only [List.length_drop] at this
        omega
      · rw [hd] at h1
        show pathLen dist (x :: z :: t) ≤ pathLen dist (x :: y :: r')
        simp only [pathLen] at h1 ⊢
        calc dist x z + pathLen dist (z :: t)
            ≤ (dist x y + dist y z) + pathLen dist (z :: t) := add_le_add (tri x y z) (le_refl _)
          _ = dist x y + (dist y z + pathLen dist (z :: t)) := add_assoc _ _ _
          _ ≤ dist x y + pathLen dist (y :: r') := add_le_add (le_refl _) h1

theorem pathLen_eraseRange_le (dist : σ → σ → α) (tri : ∀ a b c, dist a c ≤ dist a b + dist b c) :
    ∀ (l : List σ) (a b : Nat), a + 1 ≤ b → b < l.length →
      pathLen dist (eraseRange l (a + 1) b) ≤ pathLen dist l := by
  intro l
  induction l with
  | nil => intro a b _ hb; simp at hb
  | cons x r ih =>
    intro a b hab hb
    obtain ⟨b', rfl⟩ : ∃ b', b = b' + 1 := ⟨b - 1, by omega⟩
    simp only [List.length_cons, Nat.add_lt_add_iff_right] at hb
    cases a with
    | zero =>
      simp only [eraseRange, Nat.zero_add, List.take_succ_cons, List.take_zero, List.drop_succ_cons,
        List.singleton_append]
      exact pathLen_drop_le dist tri b' x r hb
    | succ a =>
      have h := ih a b' (by omega) hb
      simp only [eraseRange, List.take_succ_cons, List.drop_succ_cons, List.cons_append] at h ⊢
      cases r with
      | nil => simp at hb
      | cons y r' =>
        simp only [List.take_succ_cons, List.cons_append, pathLen] at h ⊢
        exact add_le_add (le_refl _) h

theorem Shortcuts.pathLen_le {cm : σ → σ → Bool} (dist : σ → σ → α)
    (tri : ∀ a b c, dist a c ≤ dist a b + dist b c) {l m : List σ} (h : Shortcuts cm l m) :
    pathLen dist m ≤ pathLen dist l := by
  induction h with
  | refl => exact le_refl _
  | step _ s ih =>
    refine le_trans ?_ ih
    cases s with
    | mk a b sa sb ha hb hab hcm =>
      exact pathLen_eraseRange_le dist tri _ a b hab (List.getElem?_eq_some_iff.mp hb).1

end Len

/-! ### length preserved by subdivision (geodesic midpoint hypothesis) -/

theorem subdivideGo_pathLen {α : Type} [AddCommMonoid α] (dist : σ → σ → α) (mid : σ → σ → σ)
    (hmid : ∀ a b, dist a (mid a b) + dist (mid a b) b = dist a b) :
    ∀ (r : List σ) (a : σ), pathLen dist (a :: subdivideGo mid a r) = pathLen dist (a :: r) := by
  intro r
  induction r with
  | nil => intro a; simp [subdivideGo, pathLen]
  | cons b r ih =>
    intro a
    simp only [subdivideGo, pathLen]
    rw [ih b, ← add_assoc, hmid]

theorem subdivide_pathLen {α : Type} [AddCommMonoid α] (dist : σ → σ → α) (mid : σ → σ → σ)
    (hmid : ∀ a b, dist a (mid a b) + dist (mid a b) b = dist a b) (l : List σ) :
    pathLen dist (subdivide mid l) = pathLen dist l := by
  cases l with
  | nil => simp [subdivide]
  | cons a r => simp only [subdivide]; exact subdivideGo_pathLen dist mid hmid r a

/-! ### the loops -/

theorem pick_le (lo hi raw : Nat) (h : lo ≤ hi) : pick lo hi raw ≤ hi := by
  unfold pick
  have := Nat.mod_lt raw (show 0 < hi - lo + 1 by omega)
  omega

theorem rvRepair_spec {maxN p1 p2 a b : Nat} (h1 : p1 ≤ maxN) (h2 : p2 ≤ maxN)
    (h : rvRepair maxN p1 p2 = some (a, b)) : a + 2 ≤ b ∧ b ≤ maxN := by
  unfold rvRepair at h
  split at h
  · cases h; omega
  · split at h
    · cases h; omega
    · split at h
      · cases h; omega
      · split at h
        · cases h; omega
        · cases h

theorem eraseChk_eq {l l' : List σ} {a b : Nat} (h : eraseChk l a b = some l') :
    l' = eraseRange l a b ∧ a ≤ b ∧ b ≤ l.length := by
  unfold eraseChk at h
  split at h
  · next hc => cases h; exact ⟨rfl, hc.1, hc.2⟩
  · cases h

theorem rvLoop_shortcuts (cm : σ → σ → Bool) (rangeOf draw : Nat → Nat) (maxEmpty : Nat) :
    ∀ (fuel i nochange : Nat) (st : List σ) (res : Bool) (out : List σ) (r : Bool),
      rvLoop cm rangeOf draw maxEmpty fuel i nochange st res = some (out, r) →
      Shortcuts cm st out ∧ (r = false → res = false ∧ out = st) := by
  intro fuel
  induction fuel with
  | zero =>
    intro i nochange st res out r h
    simp only [rvLoop, Option.some.injEq, Prod.mk.injEq] at h
    obtain ⟨rfl, rfl⟩ := h
    exact ⟨.refl _, fun h => ⟨h, rfl⟩⟩
  | succ fuel ih =>
    intro i nochange st res out r h
    simp only [rvLoop] at h
    split at h
    · split at h
      · exact ih _ _ _ _ _ _ h
      · next a b _ =>
        split at h
        · next sa sb ha hb =>
          split at h
          · next hcm =>
            split at h
            · next st' he =>
              obtain ⟨rfl, hab, _⟩ := eraseChk_eq he
              obtain ⟨h1, h2⟩ := ih _ _ _ _ _ _ h
              refine ⟨Shortcuts.head (.mk st a b sa sb ha hb hab hcm) h1, fun hr => ?_⟩
              have := (h2 hr).1
              cases this
            · cases h
          · exact ih _ _ _ _ _ _ h
        · cases h
    · simp only [Option.some.injEq, Prod.mk.injEq] at h
      obtain ⟨rfl, rfl⟩ := h
      exact ⟨.refl _, fun h => ⟨h, rfl⟩⟩

theorem rvLoop_isSome (cm : σ → σ → Bool) (rangeOf draw : Nat → Nat) (maxEmpty : Nat) :
    ∀ (fuel i nochange : Nat) (st : List σ) (res : Bool), 2 ≤ st.length →
      (rvLoop cm rangeOf draw maxEmpty fuel i nochange st res).isSome = true := by
  intro fuel
  induction fuel with
  | zero => intro i nochange st res _; simp [rvLoop]
  | succ fuel ih =>
    intro i nochange st res h2
    simp only [rvLoop]
    split
    · have hp1 : pick 0 (st.length - 1) (draw (2 * i)) ≤ st.length - 1 := pick_le _ _ _ (Nat.zero_le _)
      have hp2 : pick (pick 0 (st.length - 1) (draw (2 * i)) - rangeOf st.length)
          (min (st.length - 1) (pick 0 (st.length - 1) (draw (2 * i)) + rangeOf st.length))
          (draw (2 * i + 1)) ≤ st.length - 1 :=
        le_trans (pick_le _ _ _ (by omega)) (Nat.min_le_left _ _)
      split
      · exact ih _ _ _ _ h2
      · next a b hrep =>
        obtain ⟨hab, hb⟩ := rvRepair_spec hp1 hp2 hrep
        have hal : a < st.length := by omega
        have hbl : b < st.length := by omega
        split
        · next sa sb ha hb' =>
          split
          · have he : eraseChk st (a + 1) b = some (eraseRange st (a + 1) b) := by
              unfold eraseChk; rw [if_pos ⟨by omega, by omega⟩]
            rw [he]
            refine ih _ _ _ _ ?_
            unfold eraseRange
            simp only [List.length_append, List.length_take, List.length_drop]
            omega
          · exact ih _ _ _ _ h2
        · next hne =>
          exact absurd (List.getElem?_eq_getElem hbl) (hne _ _ (List.getElem?_eq_getElem hal))
    · rfl

theorem head_getLast_eraseRange (path : List σ) (f l : σ) (h3 : 3 ≤ path.length)
    (hf : path.head? = some f) (hl : path.getLast? = some l) :
    [f, l] = eraseRange path 1 (path.length - 1) ∧ path[0]? = some f ∧ path[path.length - 1]? = some l := by
  refine ⟨?_, ?_, ?_⟩
  · unfold eraseRange
    cases path with
    | nil => simp at h3
    | cons x r =>
      simp only [List.head?_cons, Option.some.injEq] at hf
      subst hf
      simp only [List.take_succ_cons, List.take_zero, List.length_cons, Nat.add_sub_cancel,
        List.singleton_append, List.cons.injEq, true_and]
      have hr : r.length - 1 < r.length := by simp at h3; omega
      have : (x :: r).drop r.length = [l] := by
        rw [List.getLast?_eq_getElem?] at hl
        simp only [List.length_cons, Nat.add_sub_cancel] at hl
        have hlt : r.length < (x :: r).length := by simp
        rw [List.getElem?_eq_getElem hlt, Option.some.injEq] at hl
        rw [List.drop_eq_getElem_cons hlt, hl]
        simp
      rw [this]
  · rw [← List.head?_eq_getElem?]; exact hf
  · rw [← List.getLast?_eq_getElem?]; exact hl

/-- `reduceVertices` is a sequence of validated vertex removals, for every `checkMotion`, range
function, draw stream, step bounds and input path; `false` is returned only for an unchanged path -/
theorem reduceVertices_spec {cm : σ → σ → Bool} {rangeOf draw : Nat → Nat} {ms me : Nat}
    {path out : List σ} {r : Bool}
    (h : reduceVertices cm rangeOf draw ms me path = some (out, r)) :
    Shortcuts cm path out ∧ (r = false → out = path) := by
  unfold reduceVertices at h
  split at h
  · simp only [Option.some.injEq, Prod.mk.injEq] at h
    obtain ⟨rfl, rfl⟩ := h
    exact ⟨.refl _, fun _ => rfl⟩
  · next h3 =>
    simp only at h
    split at h
    · next f l hf hl =>
      split at h
      · next hcm =>
        simp only [Option.some.injEq, Prod.mk.injEq] at h
        obtain ⟨rfl, rfl⟩ := h
        obtain ⟨he, h0, hn⟩ := head_getLast_eraseRange path f l (by omega) hf hl
        rw [he]
        exact ⟨.step (.refl _) (.mk path 0 (path.length - 1) f l h0 hn (by omega) hcm), fun h => by cases h⟩
      · obtain ⟨h1, h2⟩ := rvLoop_shortcuts cm rangeOf draw _ _ _ _ _ _ _ _ h
        exact ⟨h1, fun hr => (h2 hr).2⟩
    · cases h

theorem reduceVertices_shortcuts {cm : σ → σ → Bool} {rangeOf draw : Nat → Nat} {ms me : Nat}
    {path out : List σ} {r : Bool}
    (h : reduceVertices cm rangeOf draw ms me path = some (out, r)) : Shortcuts cm path out :=
  (reduceVertices_spec h).1

theorem reduceVertices_false_unchanged {cm : σ → σ → Bool} {rangeOf draw : Nat → Nat} {ms me : Nat}
    {path out : List σ}
    (h : reduceVertices cm rangeOf draw ms me path = some (out, false)) : out = path :=
  (reduceVertices_spec h).2 rfl

/-- checked indexing never fails in `reduceVertices` -/
theorem reduceVertices_isSome (cm : σ → σ → Bool) (rangeOf draw : Nat → Nat) (ms me : Nat)
    (path : List σ) : (reduceVertices cm rangeOf draw ms me path).isSome = true := by
  unfold reduceVertices
  split
  · rfl
  · next h3 =>
    simp only
    split
    · split
      · rfl
      · exact rvLoop_isSome cm rangeOf draw _ _ _ _ _ _ (by omega)
    · next hne =>
      cases path with
      | nil => simp at h3
      | cons x r =>
        exact absurd (List.getLast?_eq_getElem? ▸ List.getElem?_eq_getElem (by simp)) (hne x _ rfl)

/-! ### collapseCloseVertices -/

theorem mem_farPairs {n i j : Nat} (h : (i, j) ∈ farPairs n) : i + 2 ≤ j ∧ j < n := by
  unfold farPairs at h
  simp only [List.mem_flatMap, List.mem_range, List.mem_map, List.mem_range'_1, Prod.mk.injEq] at h
  obtain ⟨i', _, j', hj, rfl, rfl⟩ := h
  omega

theorem closest_mem {α : Type} (lt : α → α → Bool) (d : Nat × Nat → α) (ps : List (Nat × Nat)) :
    ∀ (acc : Option (Nat × Nat) × α) (p : Nat × Nat),
      (ps.foldl (fun acc p => if lt (d p) acc.2 then (some p, d p) else acc) acc).1 = some p →
      p ∈ ps ∨ acc.1 = some p := by
  induction ps with
  | nil => intro acc p h; exact Or.inr h
  | cons q qs ih =>
    intro acc p h
    simp only [List.foldl_cons] at h
    rcases ih _ p h with h | h
    · exact Or.inl (List.mem_cons_of_mem _ h)
    · split at h
      · simp only [Option.some.injEq] at h
        subst h
        exact Or.inl (List.mem_cons_self)
      · exact Or.inr h

theorem ccLoop_shortcuts {α : Type} [BEq σ] (cm : σ → σ → Bool) (dist : σ → σ → α) (lt : α → α → Bool)
    (inf : α) (maxEmpty : Nat) :
    ∀ (fuel nochange : Nat) (st : List σ) (bl : List (σ × σ)) (res : Bool) (out : List σ) (r : Bool),
      ccLoop cm dist lt inf maxEmpty fuel nochange st bl res = some (out, r) →
      Shortcuts cm st out ∧ (r = false → res = false ∧ out = st) := by
  intro fuel
  induction fuel with
  | zero =>
    intro nochange st bl res out r h
    simp only [ccLoop, Option.some.injEq, Prod.mk.injEq] at h
    obtain ⟨rfl, rfl⟩ := h
    exact ⟨.refl _, fun h => ⟨h, rfl⟩⟩
  | succ fuel ih =>
    intro nochange st bl res out r h
    simp only [ccLoop] at h
    split at h
    · split at h
      · simp only [Option.some.injEq, Prod.mk.injEq] at h
        obtain ⟨rfl, rfl⟩ := h
        exact ⟨.refl _, fun h => ⟨h, rfl⟩⟩
      · next p1 p2 _ =>
        split at h
        · next a b ha hb =>
          split at h
          · next hcm =>
            split at h
            · next st' he =>
              obtain ⟨rfl, hab, _⟩ := eraseChk_eq he
              obtain ⟨h1, h2⟩ := ih _ _ _ _ _ _ h
              refine ⟨Shortcuts.head (.mk st p1 p2 a b ha hb hab hcm) h1, fun hr => ?_⟩
              have := (h2 hr).1
              cases this
            · cases h
          · exact ih _ _ _ _ _ _ h
        · cases h
    · simp only [Option.some.injEq, Prod.mk.injEq] at h
      obtain ⟨rfl, rfl⟩ := h
      exact ⟨.refl _, fun h => ⟨h, rfl⟩⟩

theorem ccLoop_isSome {α : Type} [BEq σ] (cm : σ → σ → Bool) (dist : σ → σ → α) (lt : α → α → Bool)
    (inf : α) (maxEmpty : Nat) :
    ∀ (fuel nochange : Nat) (st : List σ) (bl : List (σ × σ)) (res : Bool),
      (ccLoop cm dist lt inf maxEmpty fuel nochange st bl res).isSome = true := by
  intro fuel
  induction fuel with
  | zero => intro nochange st bl res; simp [ccLoop]
  | succ fuel ih =>
    intro nochange st bl res
    simp only [ccLoop]
    split
    · split
      · rfl
      · next p1 p2 hc =>
        have hm : (p1, p2) ∈ farPairs st.length := by
          rcases closest_mem lt _ _ (none, inf) (p1, p2) hc with h | h
          · exact h
          · cases h
        obtain ⟨h12, h2⟩ := mem_farPairs hm
        split
        · split
          · have he : eraseChk st (p1 + 1) p2 = some (eraseRange st (p1 + 1) p2) := by
              unfold eraseChk; rw [if_pos ⟨by omega, by omega⟩]
            rw [he]
            exact ih _ _ _ _
          · exact ih _ _ _ _
        · next hne =>
          exact absurd (List.getElem?_eq_getElem h2) (hne _ _ (List.getElem?_eq_getElem (by omega)))
    · rfl

theorem collapse_spec {α : Type} [BEq σ] {cm : σ → σ → Bool} {dist : σ → σ → α} {lt : α → α → Bool}
    {inf : α} {ms me : Nat} {path out : List σ} {r : Bool}
    (h : collapseCloseVertices cm dist lt inf ms me path = some (out, r)) :
    Shortcuts cm path out ∧ (r = false → out = path) := by
  unfold collapseCloseVertices at h
  split at h
  · simp only [Option.some.injEq, Prod.mk.injEq] at h
    obtain ⟨rfl, rfl⟩ := h
    exact ⟨.refl _, fun _ => rfl⟩
  · obtain ⟨h1, h2⟩ := ccLoop_shortcuts cm dist lt inf _ _ _ _ _ _ _ _ h
    exact ⟨h1, fun hr => (h2 hr).2⟩

theorem collapse_shortcuts {α : Type} [BEq σ] {cm : σ → σ → Bool} {dist : σ → σ → α}
    {lt : α → α → Bool} {inf : α} {ms me : Nat} {path out : List σ} {r : Bool}
    (h : collapseCloseVertices cm dist lt inf ms me path = some (out, r)) : Shortcuts cm path out :=
  (collapse_spec h).1

theorem collapse_false_unchanged {α : Type} [BEq σ] {cm : σ → σ → Bool} {dist : σ → σ → α}
    {lt : α → α → Bool} {inf : α} {ms me : Nat} {path out : List σ}
    (h : collapseCloseVertices cm dist lt inf ms me path = some (out, false)) : out = path :=
  (collapse_spec h).2 rfl

/-- checked indexing never fails in `collapseCloseVertices` -/
theorem collapse_isSome {α : Type} [BEq σ] (cm : σ → σ → Bool) (dist : σ → σ → α) (lt : α → α → Bool)
    (inf : α) (ms me : Nat) (path : List σ) :
    (collapseCloseVertices cm dist lt inf ms me path).isSome = true := by
  unfold collapseCloseVertices
  split
  · rfl
  · exact ccLoop_isSome cm dist lt inf _ _ _ _ _ _

end OmplModel.PathOps
