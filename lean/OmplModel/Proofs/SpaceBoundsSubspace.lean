import OmplModel.Proofs.SpaceBoundsSamplers
/-!
C08 helper lemmas, part 4: the SubspaceStateSampler's copy-back (`setAt`) keeps bounds and touches nothing else;
the first-accepted-iteration characterisation of the rejection loops.
-/
namespace OmplModel.SpaceBounds
open OmplModel
attribute [-instance] Num.instOfNat

noncomputable instance : NumPow ℝ := ⟨fun x n => x ^ n⟩

/-! ### frame lemmas (any number type) -/
section frame
variable {α : Type} [Num α]

theorem stGet_stSet_same : ∀ (k : Nat) (s w : OmplModel.St α), stGet (stSet s k w) k = w
  | 0, s, w => by simp [stGet, stSet]
  | k + 1, s, w => by simp [stGet, stSet, stGet_stSet_same k]

theorem stGet_stSet_other : ∀ (k j : Nat) (s w : OmplModel.St α), j ≠ k → stGet (stSet s k w) j = stGet s j
  | 0, 0, _, _, h => absurd rfl h
  | 0, j + 1, s, w, _ => by simp [stGet, stSet]
  | k + 1, 0, s, w, _ => by simp [stGet, stSet]
  | k + 1, j + 1, s, w, h => by
    simp only [stGet, stSet, tl_ccons]
    exact stGet_stSet_other k j _ w (by omega)

/-- reading back what was written -/
theorem getAt_setAt_same : ∀ (p : List Nat) (s w : OmplModel.St α), getAt (setAt s p w) p = w
  | [], _, _ => rfl
  | k :: ks, s, w => by simp [getAt, setAt, stGet_stSet_same, getAt_setAt_same ks]

/-- two component paths that part ways at some level -/
inductive Diverge : List Nat → List Nat → Prop where
  | apart (i j : Nat) (p q : List Nat) : i ≠ j → Diverge (i :: p) (j :: q)
  | under (i : Nat) (p q : List Nat) : Diverge p q → Diverge (i :: p) (i :: q)

/-- the copy-back touches nothing but the sampled subspace -/
theorem getAt_setAt_other {p q : List Nat} (h : Diverge p q) :
    ∀ (s w : OmplModel.St α), getAt (setAt s p w) q = getAt s q := by
  induction h with
  | apart i j p q hij => intro s w; simp [getAt, setAt, stGet_stSet_other i j _ _ (Ne.symm hij)]
  | under i p q _ ih => intro s w; simp [getAt, setAt, stGet_stSet_same, ih]

end frame

/-! ### bounds -/
theorem sat_stGet : ∀ (k : Nat) (sp : Space ℝ) (s : OmplModel.St ℝ), hasComp sp k = true →
    satisfiesBounds sp s = true → satisfiesBounds (comp sp k) (stGet s k) = true
  | 0, sp, s, hc, hs => by
    cases sp <;> simp [hasComp] at hc
    simp only [satisfiesBounds, Bool.and_eq_true] at hs
    simpa [comp, stGet] using hs.1
  | k + 1, sp, s, hc, hs => by
    cases sp <;> simp [hasComp] at hc
    simp only [satisfiesBounds, Bool.and_eq_true] at hs
    simpa [comp, stGet] using sat_stGet k _ _ hc hs.2

theorem sat_stSet : ∀ (k : Nat) (sp : Space ℝ) (s w : OmplModel.St ℝ), hasComp sp k = true →
    satisfiesBounds sp s = true → satisfiesBounds (comp sp k) w = true → satisfiesBounds sp (stSet s k w) = true
  | 0, sp, s, w, hc, hs, hw => by
    cases sp <;> simp [hasComp] at hc
    simp only [satisfiesBounds, Bool.and_eq_true] at hs
    simp only [comp] at hw
    simp [stSet, satisfiesBounds, hw, hs.2]
  | k + 1, sp, s, w, hc, hs, hw => by
    cases sp <;> simp [hasComp] at hc
    simp only [satisfiesBounds, Bool.and_eq_true] at hs
    simp only [comp] at hw
    simp [stSet, satisfiesBounds, hs.1, sat_stSet k _ _ w hc hs.2 hw]

theorem sat_getAt : ∀ (p : List Nat) (sp : Space ℝ) (s : OmplModel.St ℝ), validPath sp p = true →
    satisfiesBounds sp s = true → satisfiesBounds (subAt sp p) (getAt s p) = true
  | [], _, _, _, hs => hs
  | k :: ks, sp, s, hv, hs => by
    simp only [validPath, Bool.and_eq_true] at hv
    exact sat_getAt ks _ _ hv.2 (sat_stGet k sp s hv.1 hs)

/-- an in-bounds full state stays in bounds when the substate at a valid path is overwritten by an in-bounds substate -/
theorem sat_setAt : ∀ (p : List Nat) (sp : Space ℝ) (s w : OmplModel.St ℝ), validPath sp p = true →
    satisfiesBounds sp s = true → satisfiesBounds (subAt sp p) w = true → satisfiesBounds sp (setAt s p w) = true
  | [], _, _, _, _, _, hw => hw
  | k :: ks, sp, s, w, hv, hs, hw => by
    simp only [validPath, Bool.and_eq_true] at hv
    exact sat_stSet k sp s _ hv.1 hs (sat_setAt ks _ _ w hv.2 (sat_stGet k sp s hv.1 hs) hw)

theorem boundsOk_comp : ∀ (k : Nat) (sp : Space ℝ), boundsOk sp → boundsOk (comp sp k)
  | 0, sp, h => by cases sp <;> simp_all [comp, boundsOk]
  | k + 1, sp, h => by
    cases sp <;> simp_all [comp, boundsOk]
    exact boundsOk_comp k _ h.2

theorem boundsOk_subAt : ∀ (p : List Nat) (sp : Space ℝ), boundsOk sp → boundsOk (subAt sp p)
  | [], _, h => h
  | k :: ks, sp, h => boundsOk_subAt ks _ (boundsOk_comp k sp h)

/-- every weight of the (top-level) compound is non-negative (OMPL's addSubspace rejects negative weights) -/
def weightsNonneg : Space ℝ → Prop
  | .ccons w _ t => 0 ≤ w ∧ weightsNonneg t
  | _ => True

theorem compWeight_nonneg : ∀ (k : Nat) (sp : Space ℝ), weightsNonneg sp → 0 ≤ compWeight sp k
  | 0, sp, h => by cases sp <;> simp_all [compWeight, weightsNonneg, Num.ofNat]
  | k + 1, sp, h => by
    cases sp <;> simp_all [compWeight, weightsNonneg, Num.ofNat]
    exact compWeight_nonneg k _ h.2

theorem importance_nonneg {ws w : ℝ} (hw : 0 ≤ w) : 0 ≤ importance ws w := by
  unfold importance
  split_ifs with h
  · simp [Num.ofNat]
  · push Not at h
    exact div_nonneg hw (le_trans eps_pos.le h)

theorem subWeight_nonneg (sp : Space ℝ) (h : weightsNonneg sp) (p : List Nat) : 0 ≤ subWeight sp p := by
  unfold subWeight
  split
  · exact importance_nonneg (compWeight_nonneg _ sp h)
  · simp [Num.ofNat]

/-! ### rejection loops -/
/-- the loop returns at the FIRST accepted iteration: all earlier ones rejected (none threw), it is within the fuel -/
theorem rejFirst_found_iff (step : Nat → Option Bool) : ∀ (f i j : Nat),
    rejFirst step f i = .found j ↔
      (i ≤ j ∧ j < i + f ∧ step j = some true ∧ ∀ m, i ≤ m → m < j → step m = some false)
  | 0, i, j => by simp [rejFirst]; omega
  | f + 1, i, j => by
    simp only [rejFirst]
    cases hs : step i with
    | none =>
      simp only [reduceCtorEq, false_iff, not_and]
      intro h1 _ h3 h4
      rcases Nat.eq_or_lt_of_le h1 with rfl | hlt
      · simp [hs] at h3
      · have := h4 i (le_refl _) hlt; simp [hs] at this
    | some b =>
      cases b with
      | true =>
        simp only [RejRes.found.injEq]
        constructor
        · rintro rfl; exact ⟨le_refl _, by omega, hs, fun m h1 h2 => by omega⟩
        · rintro ⟨h1, _, _, h4⟩
          rcases Nat.eq_or_lt_of_le h1 with rfl | hlt
          · rfl
          · have := h4 i (le_refl _) hlt; simp [hs] at this
      | false =>
        rw [rejFirst_found_iff step f (i + 1) j]
        constructor
        · rintro ⟨h1, h2, h3, h4⟩
          refine ⟨by omega, by omega, h3, fun m hm1 hm2 => ?_⟩
          rcases Nat.eq_or_lt_of_le hm1 with rfl | hlt
          · exact hs
          · exact h4 m (by omega) hm2
        · rintro ⟨h1, h2, h3, h4⟩
          have hne : i ≠ j := by rintro rfl; simp [hs] at h3
          exact ⟨by omega, by omega, h3, fun m hm1 hm2 => h4 m (by omega) hm2⟩

/-- out of fuel exactly when every iteration within the fuel rejected -/
theorem rejFirst_exhausted_iff (step : Nat → Option Bool) : ∀ (f i : Nat),
    rejFirst step f i = .exhausted ↔ ∀ m, i ≤ m → m < i + f → step m = some false
  | 0, i => by simp [rejFirst]; intro m h1 h2; omega
  | f + 1, i => by
    simp only [rejFirst]
    cases hs : step i with
    | none =>
      simp only [reduceCtorEq, false_iff, not_forall]
      exact ⟨i, le_refl _, by omega, by simp [hs]⟩
    | some b =>
      cases b with
      | true =>
        simp only [reduceCtorEq, false_iff, not_forall]
        exact ⟨i, le_refl _, by omega, by simp [hs]⟩
      | false =>
        rw [rejFirst_exhausted_iff step f (i + 1)]
        constructor
        · intro h m hm1 hm2
          rcases Nat.eq_or_lt_of_le hm1 with rfl | hlt
          · exact hs
          · exact h m (by omega) (by omega)
        · intro h m hm1 hm2
          exact h m (by omega) (by omega)

/-! ### `RNG::uniformInt` under rounding -/

/-- `uniformInt` with the two roundings of `uniformReal` made explicit: `rm` rounds the product `(b - a) * u`, `ra` the
sum `… + a` (`(double)hi + 1.0 - (double)lo` is exact for `int` arguments); then `floor`, then the clamp -/
noncomputable def uniformIntRnd (rm ra : ℝ → ℝ) (lo hi : Int) (u : ℝ) : Int :=
  let r := ⌊ra (rm (((hi : ℝ) + 1 - lo) * u) + lo)⌋
  if hi < r then hi else r

/-- the same without the final clamp (seeded change s4) -/
noncomputable def uniformIntRndNoClamp (rm ra : ℝ → ℝ) (lo hi : Int) (u : ℝ) : Int :=
  ⌊ra (rm (((hi : ℝ) + 1 - lo) * u) + lo)⌋

/-- round to the nearest multiple of 2⁻²² (the spacing of the doubles in [2³⁰, 2³¹)), halves up -/
noncomputable def rndGrid22 (x : ℝ) : ℝ := (⌊x * 4194304 + 1 / 2⌋ : ℝ) / 4194304

theorem rndGrid22_mono : Monotone rndGrid22 := by
  intro x y h
  unfold rndGrid22
  have : ⌊x * 4194304 + 1 / 2⌋ ≤ ⌊y * 4194304 + 1 / 2⌋ := Int.floor_le_floor (by linarith)
  have hc : (⌊x * 4194304 + 1 / 2⌋ : ℝ) ≤ (⌊y * 4194304 + 1 / 2⌋ : ℝ) := by exact_mod_cast this
  exact div_le_div_of_nonneg_right hc (by norm_num)

theorem rndGrid22_two30 : rndGrid22 1073741824 = 1073741824 := by
  unfold rndGrid22
  have : ⌊(1073741824 : ℝ) * 4194304 + 1 / 2⌋ = 4503599627370496 := by
    rw [Int.floor_eq_iff]; constructor <;> norm_num
  rw [this]; norm_num

end OmplModel.SpaceBounds
