import OmplModel.Model.PlannerProtoPrm
/-! C03, PRM query bookkeeping: helper lemmas.  Core Lean only. -/
namespace OmplModel.PlannerProto.Prm
open OmplModel.PlannerProto

def countValid (ss : List Bool) : Nat := (ss.filter id).length

theorem consume_spec : ∀ (ss : List Bool) (v : Nat) (acc : List Nat),
    (consume ss v acc).1 = v + countValid ss ∧ (consume ss v acc).2.length = acc.length + countValid ss ∧
      (∀ i ∈ (consume ss v acc).2, i ∈ acc ∨ v ≤ i) := by
  intro ss
  induction ss with
  | nil => intro v acc; exact ⟨by simp [consume, countValid], by simp [consume, countValid], fun i hi => Or.inl hi⟩
  | cons b r ih =>
    intro v acc
    cases b with
    | false =>
      have := ih v acc
      simpa [consume, countValid] using this
    | true =>
      have h := ih (v + 1) (acc ++ [v])
      simp only [consume]
      refine ⟨?_, ?_, ?_⟩
      · rw [h.1]; simp [countValid]; omega
      · rw [h.2.1]; simp [countValid]; omega
      · intro i hi
        rcases h.2.2 i hi with h1 | h1
        · rcases List.mem_append.mp h1 with h2 | h2
          · exact Or.inl h2
          · simp at h2; exact Or.inr (by omega)
        · exact Or.inr (by omega)

theorem setPD_fields (p : Prm) (pd : PrmPdef) :
    (setProblemDefinition p pd).startM = [] ∧ (setProblemDefinition p pd).goalM = [] ∧
    (setProblemDefinition p pd).pis.added = 0 ∧ (setProblemDefinition p pd).pis.sampledGoals = 0 ∧
    (setProblemDefinition p pd).pdef = some pd ∧ (setProblemDefinition p pd).vertices = p.vertices := by
  simp [setProblemDefinition, clearQuery]

end OmplModel.PlannerProto.Prm
