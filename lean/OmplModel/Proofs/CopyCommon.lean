import OmplModel.Proofs.CopyArchive
import OmplModel.Proofs.CopyState

/-
`StateSpace::getCommonSubspaces` and `copyStateData(dest, src, names)` (`OmplModel.Model.Copy`: `cslLess`, `cslInsert`,
`erasePass`, `eraseCovered`, `commonSubspaces`, `csdNames`).  Core Lean only.

G1  the `std::set` under `CompareSubstateLocation` loses no name: `cslLess_equiv` (equivalent ⇒ same name and
    dimension), `mem_cslInsert`, `mem_cslInsert_of_names_ne`, `cslInsert_names` (unconditional), `cslInsert_sorted`,
    `CslSorted.names_nodup`; a dimension-only comparator does lose one (`cslInsertWith dimOnlyLess`, `example`).
    Trees: `Sp.indC` (induction over genuine compounds), `IsNode`, `chain_unique` / `IsNode.eq_of_name` (with pairwise
    distinct names the name determines chain and node), `covers_refl`, `covers_trans` (on the nodes of one such tree).
G2  the erase loop (`erasePass` = one pass of the `for it / for jt` double loop, `eraseCovered` = `while (found)`):
    `eraseCovered_sublist` (a), `eraseCovered_covered` / `eraseCovered_mem_or_covered` (b), `eraseCovered_minimal` (c).
G3  `commonSubspaces_spec` (= `_sound`, `_complete`, `_minimal`, `_names_nodup`), `commonSubspaces_complete_node`,
    `commonSubspaces_sorted`; the substate map: `findSub_mem`, `findSub_isSome_iff`, `mem_subLocs`, `subLocs_keys`,
    `findSub_node`, `findSub_of_node`; the set before the erase loop: `mem_commonInter`.
G4  `csdNames_common_all`.
G5  `csdNames_state` (any list of names whose copied entries are pairwise non-nested), `csdNames_common_state`
    (the sampler's call) and `csdNames_common_complete` (every node of the destination whose name is a key of the
    source's map ends up with the source's substate, also the nodes erased from the set as covered).
-/

namespace OmplModel.Copy

/-! ## G1 -/

theorem cslLess_irrefl (a : Sp) : cslLess a a = false := by
  simp [cslLess]

theorem cslLess_equiv {a b : Sp} (h1 : cslLess a b = false) (h2 : cslLess b a = false) :
    a.name = b.name ∧ dim a = dim b := by
  unfold cslLess at h1 h2
  split at h1 <;> split at h2 <;> simp at h1 h2 <;> omega

theorem cslLess_trans {a b c : Sp} (h1 : cslLess a b = true) (h2 : cslLess b c = true) :
    cslLess a c = true := by
  unfold cslLess at *
  split at h1 <;> split at h2 <;> split <;> simp at * <;> omega

theorem cslLess_asymm {a b : Sp} (h1 : cslLess a b = true) : cslLess b a = false := by
  unfold cslLess at *
  split at h1 <;> split <;> simp at * <;> omega

theorem mem_cslInsert (x : Sp) : ∀ (l : List Sp), (∀ y ∈ l, y.name = x.name → y = x) →
    ∀ y, y ∈ cslInsert x l ↔ y = x ∨ y ∈ l
  | [], _, y => by simp [cslInsert]
  | z :: zs, h, y => by
    unfold cslInsert
    split
    · simp
    · next h1 =>
      split
      · next h2 =>
        have ih := mem_cslInsert x zs (fun y hy => h y (by simp [hy])) y
        simp only [List.mem_cons, ih]
        constructor
        · rintro (h | h | h) <;> simp [h]
        · rintro (h | h | h) <;> simp [h]
      · next h2 =>
        have hz : z = x := h z (by simp) (cslLess_equiv (by simpa using h2) (by simpa using h1)).1
        subst hz
        simp

theorem mem_cslInsert_of_names_ne (x : Sp) (l : List Sp) (h : ∀ y ∈ l, y.name ≠ x.name) :
    ∀ y, y ∈ cslInsert x l ↔ y = x ∨ y ∈ l :=
  mem_cslInsert x l (fun y hy e => absurd e (h y hy))

theorem cslInsert_names (x : Sp) : ∀ (l : List Sp) (n : Nat),
    n ∈ (cslInsert x l).map Sp.name ↔ n = x.name ∨ n ∈ l.map Sp.name
  | [], n => by simp [cslInsert]
  | z :: zs, n => by
    unfold cslInsert
    split
    · simp
    · next h1 =>
      split
      · next h2 =>
        have ih := cslInsert_names x zs n
        simp only [List.map_cons, List.mem_cons, ih]
        constructor
        · rintro (h | h | h) <;> simp [h]
        · rintro (h | h | h) <;> simp [h]
      · next h2 =>
        have hz := (cslLess_equiv (a := z) (b := x) (by simpa using h2) (by simpa using h1)).1
        simp only [List.map_cons, List.mem_cons]
        constructor
        · intro h; exact Or.inr h
        · rintro (h | h)
          · exact Or.inl (h.trans hz.symm)
          · exact h

theorem mem_cslInsert_sub (x : Sp) : ∀ (l : List Sp) (y : Sp), y ∈ cslInsert x l → y = x ∨ y ∈ l
  | [], y, h => by simpa [cslInsert] using h
  | z :: zs, y, h => by
    unfold cslInsert at h
    split at h
    · simpa using h
    · split at h
      · rcases List.mem_cons.mp h with h | h
        · simp [h]
        · rcases mem_cslInsert_sub x zs y h with h | h <;> simp [h]
      · exact Or.inr h

/-- the list is strictly ascending in the set order -/
def CslSorted (l : List Sp) : Prop := l.Pairwise (fun a b => cslLess a b = true)

theorem cslInsert_sorted (x : Sp) : ∀ (l : List Sp), CslSorted l → CslSorted (cslInsert x l)
  | [], _ => by simp [cslInsert, CslSorted]
  | z :: zs, h => by
    unfold CslSorted at *
    rw [List.pairwise_cons] at h
    unfold cslInsert
    split
    · next h1 =>
      refine List.pairwise_cons.mpr ⟨?_, List.pairwise_cons.mpr h⟩
      intro w hw
      rcases List.mem_cons.mp hw with rfl | hw
      · exact h1
      · exact cslLess_trans h1 (h.1 w hw)
    · split
      · next h2 =>
        refine List.pairwise_cons.mpr ⟨?_, cslInsert_sorted x zs h.2⟩
        intro w hw
        rcases mem_cslInsert_sub x zs w hw with rfl | hw
        · exact h2
        · exact h.1 w hw
      · exact List.pairwise_cons.mpr h

/-- in a sorted list equal elements cannot occur twice; with name coherence the names are pairwise distinct -/
theorem CslSorted.names_nodup {l : List Sp} (hs : CslSorted l)
    (hc : ∀ a ∈ l, ∀ b ∈ l, a.name = b.name → a = b) : (l.map Sp.name).Nodup := by
  unfold CslSorted at hs
  induction l with
  | nil => simp
  | cons a as ih =>
    rw [List.pairwise_cons] at hs
    rw [List.map_cons, List.nodup_cons]
    refine ⟨?_, ih hs.2 (fun a ha b hb => hc a (by simp [ha]) b (by simp [hb]))⟩
    intro hmem
    obtain ⟨b, hb, hn⟩ := List.mem_map.mp hmem
    have := hc b (by simp [hb]) a (by simp) hn
    subst this
    have := hs.1 b hb
    rw [cslLess_irrefl] at this
    cases this

/-! #### non-vacuity: a comparator that ignores the name loses a common subspace

`cslInsertWith less` is `cslInsert` for an arbitrary comparator; with the dimension-only comparator the second of two
one-dimensional subspaces is *equivalent* to the first and `std::set::insert` drops it. -/

def cslInsertWith (less : Sp → Sp → Bool) (x : Sp) : List Sp → List Sp
  | [] => [x]
  | y :: ys =>
    if less x y then x :: y :: ys
    else if less y x then y :: cslInsertWith less x ys
    else y :: ys

theorem cslInsertWith_cslLess (x : Sp) : ∀ l, cslInsertWith cslLess x l = cslInsert x l
  | [] => rfl
  | y :: ys => by simp [cslInsertWith, cslInsert, cslInsertWith_cslLess x ys]

/-- the seeded comparator: dimension only -/
def dimOnlyLess (a b : Sp) : Bool := decide (dim a > dim b)

example : (cslInsertWith dimOnlyLess (.so2 1) [.time 2]).map Sp.name = [2] := by decide
example : (cslInsert (.so2 1) [.time 2]).map Sp.name = [2, 1] := by decide

/-! ## the tree of genuine compounds: an induction principle and the nodes of a space -/

def Sp.isLeaf : Sp → Bool
  | .compound _ _ => false
  | _ => true

mutual
theorem Sp.indC_aux {P : Sp → Prop} (leaf : ∀ s, s.isLeaf = true → P s)
    (comp : ∀ nm cs, (∀ c ∈ cs, P c) → P (.compound nm cs)) : ∀ s, P s
  | .compound nm cs => comp nm cs (Sp.indC_auxL leaf comp cs)
  | .real _ _ => leaf _ rfl
  | .so2 _ => leaf _ rfl
  | .so3 _ => leaf _ rfl
  | .time _ => leaf _ rfl
  | .discrete _ => leaf _ rfl
  | .wrapper _ _ => leaf _ rfl
theorem Sp.indC_auxL {P : Sp → Prop} (leaf : ∀ s, s.isLeaf = true → P s)
    (comp : ∀ nm cs, (∀ c ∈ cs, P c) → P (.compound nm cs)) : ∀ (cs : List Sp), ∀ c ∈ cs, P c
  | [], c, h => by simp at h
  | c :: cs, c', h => by
    rcases List.mem_cons.mp h with h | h
    · rw [h]; exact Sp.indC_aux leaf comp c
    · exact Sp.indC_auxL leaf comp cs c' h
end

/-- structural induction over the tree of genuine compounds (wrappers are leaves) -/
@[elab_as_elim] theorem Sp.indC {P : Sp → Prop} (leaf : ∀ s, s.isLeaf = true → P s)
    (comp : ∀ nm cs, (∀ c ∈ cs, P c) → P (.compound nm cs)) (s : Sp) : P s :=
  Sp.indC_aux leaf comp s

theorem spNames_leaf (s : Sp) (h : s.isLeaf = true) : spNames s = [s.name] := by
  cases s <;> simp [Sp.isLeaf] at h <;> simp [spNames, Sp.name]

theorem nodeAt_leaf (s : Sp) (h : s.isLeaf = true) (i : Nat) (r : List Nat) : nodeAt s (i :: r) = none := by
  cases s <;> simp [Sp.isLeaf] at h <;> simp [nodeAt]

theorem nodeAt_compound (nm : Nat) (cs : List Sp) (i : Nat) (r : List Nat) :
    nodeAt (.compound nm cs) (i :: r) = (cs[i]?).bind (nodeAt · r) := by
  simp [nodeAt, nodeAtL_eq]

theorem covers_leaf (a s : Sp) (h : s.isLeaf = true) : covers a s = includes a s := by
  cases s <;> simp [Sp.isLeaf] at h <;> simp [covers]

theorem coversL_eq (a : Sp) : ∀ cs, coversL a cs = cs.all (covers a)
  | [] => rfl
  | c :: cs => by simp [coversL, coversL_eq a cs]

theorem name_mem_spNames (x : Sp) : x.name ∈ spNames x := by
  cases x <;> simp [spNames, Sp.name]

theorem includes_iff (a b : Sp) : includes a b = true ↔ b.name ∈ spNames a := by
  simp [includes]

theorem covers_of_includes (a b : Sp) (h : includes a b = true) : covers a b = true := by
  cases b <;> simp [covers, h]

theorem covers_refl (a : Sp) : covers a a = true :=
  covers_of_includes a a ((includes_iff a a).mpr (name_mem_spNames a))

theorem mem_spNamesL_of_mem : ∀ (cs : List Sp) (c : Sp) (n : Nat), c ∈ cs → n ∈ spNames c → n ∈ spNamesL cs
  | [], _, _, h, _ => by simp at h
  | c :: cs, c', n, h, hn => by
    simp only [spNamesL, List.mem_append]
    rcases List.mem_cons.mp h with h | h
    · exact Or.inl (h ▸ hn)
    · exact Or.inr (mem_spNamesL_of_mem cs c' n h hn)

theorem mem_spNamesL : ∀ (cs : List Sp) (n : Nat), n ∈ spNamesL cs → ∃ c ∈ cs, n ∈ spNames c
  | [], _, h => by simp [spNamesL] at h
  | c :: cs, n, h => by
    simp only [spNamesL, List.mem_append] at h
    rcases h with h | h
    · exact ⟨c, by simp, h⟩
    · obtain ⟨c', hc', hn⟩ := mem_spNamesL cs n h
      exact ⟨c', by simp [hc'], hn⟩

/-- `x` is a node of the tree `D` (reached by a chain of genuine-compound component indices) -/
def IsNode (D x : Sp) : Prop := ∃ chain, nodeAt D chain = some x

theorem IsNode.refl (D : Sp) : IsNode D D := ⟨[], nodeAt_nil D⟩

theorem IsNode.child {D : Sp} {nm : Nat} {cs : List Sp} {c : Sp} (h : IsNode D (.compound nm cs)) (hc : c ∈ cs) :
    IsNode D c := by
  obtain ⟨chain, h⟩ := h
  obtain ⟨k, hk, rfl⟩ := List.getElem_of_mem hc
  exact ⟨chain ++ [k], by rw [nodeAt_snoc _ _ _ _ h]; simp [hk]⟩

theorem IsNode.trans {D x y : Sp} (h1 : IsNode D x) (h2 : IsNode x y) : IsNode D y := by
  obtain ⟨c1, h1⟩ := h1
  obtain ⟨c2, h2⟩ := h2
  exact ⟨c1 ++ c2, by rw [nodeAt_append, h1]; simpa using h2⟩

/-- the names below a node are names of the tree -/
theorem nodeAt_spNames_sub (D : Sp) : ∀ (chain : List Nat) (x : Sp), nodeAt D chain = some x →
    ∀ n ∈ spNames x, n ∈ spNames D := by
  induction D using Sp.indC with
  | leaf s hs =>
    intro chain x h n hn
    cases chain with
    | nil => rw [nodeAt_nil] at h; cases h; exact hn
    | cons i r => rw [nodeAt_leaf s hs] at h; cases h
  | comp nm cs ih =>
    intro chain x h n hn
    cases chain with
    | nil => rw [nodeAt_nil] at h; cases h; exact hn
    | cons i r =>
      rw [nodeAt_compound] at h
      cases hc : cs[i]? with
      | none => simp [hc] at h
      | some c =>
        simp only [hc, Option.bind_some] at h
        have hmem : c ∈ cs := List.mem_of_getElem? hc
        simp only [spNames, List.mem_cons]
        exact Or.inr (mem_spNamesL_of_mem cs c n hmem (ih c hmem r x h n hn))

theorem nodeAt_name_mem {D : Sp} {chain : List Nat} {x : Sp} (h : nodeAt D chain = some x) : x.name ∈ spNames D :=
  nodeAt_spNames_sub D chain x h _ (name_mem_spNames x)

/-- every name of the tree is the name of a node -/
theorem exists_node_of_mem_spNames (D : Sp) : ∀ n ∈ spNames D, ∃ chain x, nodeAt D chain = some x ∧ x.name = n := by
  induction D using Sp.indC with
  | leaf s hs =>
    intro n hn
    rw [spNames_leaf s hs] at hn
    simp only [List.mem_singleton] at hn
    exact ⟨[], s, nodeAt_nil s, hn.symm⟩
  | comp nm cs ih =>
    intro n hn
    simp only [spNames, List.mem_cons] at hn
    rcases hn with hn | hn
    · exact ⟨[], _, nodeAt_nil _, by simp [Sp.name, hn]⟩
    · obtain ⟨c, hc, hn⟩ := mem_spNamesL cs n hn
      obtain ⟨chain, x, hx, hxn⟩ := ih c hc n hn
      obtain ⟨k, hk, rfl⟩ := List.getElem_of_mem hc
      exact ⟨k :: chain, x, by rw [nodeAt_compound]; simp [hk, hx], hxn⟩

/-- with pairwise distinct names, the name determines the chain (hence the node) -/
theorem chain_unique_L (r1 r2 : List Nat) (x y : Sp) (hxy : x.name = y.name) : ∀ (cs : List Sp),
    (∀ c ∈ cs, ∀ c1 c2 x y, (spNames c).Nodup → nodeAt c c1 = some x → nodeAt c c2 = some y →
      x.name = y.name → c1 = c2) →
    (spNamesL cs).Nodup → ∀ (i j : Nat) (ci cj : Sp), cs[i]? = some ci → cs[j]? = some cj →
      nodeAt ci r1 = some x → nodeAt cj r2 = some y → i = j ∧ r1 = r2
  | [], _, _, i, j, ci, cj, hi, _, _, _ => by simp at hi
  | c :: cs, ih, hnd, i, j, ci, cj, hi, hj, h1, h2 => by
    simp only [spNamesL, List.nodup_append] at hnd
    obtain ⟨hc, hcs, hdis⟩ := hnd
    cases i with
    | zero =>
      cases j with
      | zero =>
        simp only [List.getElem?_cons_zero, Option.some.injEq] at hi hj
        subst hi; subst hj
        exact ⟨rfl, ih c (by simp) r1 r2 x y hc h1 h2 hxy⟩
      | succ j =>
        simp only [List.getElem?_cons_zero, Option.some.injEq, List.getElem?_cons_succ] at hi hj
        subst hi
        exfalso
        exact hdis x.name (nodeAt_name_mem h1) y.name
          (mem_spNamesL_of_mem cs cj _ (List.mem_of_getElem? hj) (nodeAt_name_mem h2)) hxy
    | succ i =>
      cases j with
      | zero =>
        simp only [List.getElem?_cons_zero, Option.some.injEq, List.getElem?_cons_succ] at hi hj
        subst hj
        exfalso
        exact hdis y.name (nodeAt_name_mem h2) x.name
          (mem_spNamesL_of_mem cs ci _ (List.mem_of_getElem? hi) (nodeAt_name_mem h1)) hxy.symm
      | succ j =>
        simp only [List.getElem?_cons_succ] at hi hj
        have := chain_unique_L r1 r2 x y hxy cs (fun c hc => ih c (by simp [hc])) hcs i j ci cj hi hj h1 h2
        exact ⟨by omega, this.2⟩

theorem chain_unique (D : Sp) : ∀ (c1 c2 : List Nat) (x y : Sp), (spNames D).Nodup →
    nodeAt D c1 = some x → nodeAt D c2 = some y → x.name = y.name → c1 = c2 := by
  induction D using Sp.indC with
  | leaf s hs =>
    intro c1 c2 x y _ h1 h2 _
    cases c1 with
    | cons i r => rw [nodeAt_leaf s hs] at h1; cases h1
    | nil =>
      cases c2 with
      | cons i r => rw [nodeAt_leaf s hs] at h2; cases h2
      | nil => rfl
  | comp nm cs ih =>
    intro c1 c2 x y hnd h1 h2 hxy
    simp only [spNames, List.nodup_cons] at hnd
    obtain ⟨hnm, hnd⟩ := hnd
    have key : ∀ (i : Nat) (r : List Nat) (z : Sp), nodeAt (.compound nm cs) (i :: r) = some z →
        z.name ∈ spNamesL cs := by
      intro i r z hz
      rw [nodeAt_compound] at hz
      cases hc : cs[i]? with
      | none => simp [hc] at hz
      | some c =>
        simp only [hc, Option.bind_some] at hz
        exact mem_spNamesL_of_mem cs c _ (List.mem_of_getElem? hc) (nodeAt_name_mem hz)
    cases c1 with
    | nil =>
      cases c2 with
      | nil => rfl
      | cons j r2 =>
        exfalso
        rw [nodeAt_nil] at h1; cases h1
        have := key j r2 y h2
        rw [← hxy] at this
        exact hnm this
    | cons i r1 =>
      cases c2 with
      | nil =>
        exfalso
        rw [nodeAt_nil] at h2; cases h2
        have := key i r1 x h1
        rw [hxy] at this
        exact hnm this
      | cons j r2 =>
        rw [nodeAt_compound] at h1 h2
        cases hci : cs[i]? with
        | none => simp [hci] at h1
        | some ci =>
          cases hcj : cs[j]? with
          | none => simp [hcj] at h2
          | some cj =>
            simp only [hci, hcj, Option.bind_some] at h1 h2
            have := chain_unique_L r1 r2 x y hxy cs ih hnd i j ci cj hci hcj h1 h2
            rw [this.1, this.2]

/-- name coherence of the nodes of one tree with pairwise distinct names -/
theorem IsNode.eq_of_name {D x y : Sp} (hD : (spNames D).Nodup) (hx : IsNode D x) (hy : IsNode D y)
    (h : x.name = y.name) : x = y := by
  obtain ⟨c1, h1⟩ := hx
  obtain ⟨c2, h2⟩ := hy
  have := chain_unique D c1 c2 x y hD h1 h2 h
  subst this
  rw [h1] at h2
  exact Option.some.inj h2

/-! ### `StateSpaceCovers` is transitive on the nodes of one tree -/

/-- `covers a b`, and `c` is the node of `b` with a name of `b`'s tree: then `covers a c` -/
theorem covers_of_mem_spNames {D : Sp} (hD : (spNames D).Nodup) (a : Sp) (ha : IsNode D a) (b : Sp) :
    IsNode D b → ∀ c, IsNode D c → covers a b = true → c.name ∈ spNames b → covers a c = true := by
  -- the node of `a` named like a node `b` of `D` is `b`, so `spNames b ⊆ spNames a`
  have hincl : ∀ b, IsNode D b → includes a b = true → ∀ n ∈ spNames b, n ∈ spNames a := by
    intro b hb hab n hn
    rw [includes_iff] at hab
    obtain ⟨chain, b', hb', hname⟩ := exists_node_of_mem_spNames a _ hab
    have : b' = b := IsNode.eq_of_name hD (ha.trans ⟨chain, hb'⟩) hb hname
    subst this
    exact nodeAt_spNames_sub a chain b' hb' n hn
  induction b using Sp.indC with
  | leaf s hs =>
    intro hb c hc hab hcn
    rw [spNames_leaf s hs, List.mem_singleton] at hcn
    have : c = s := IsNode.eq_of_name hD hc hb hcn
    rw [this]; exact hab
  | comp nm cs ih =>
    intro hb c hc hab hcn
    by_cases hinc : includes a (.compound nm cs) = true
    · exact covers_of_includes a c ((includes_iff a c).mpr (hincl _ hb hinc _ hcn))
    · simp only [covers, hinc, Bool.false_or, coversL_eq, List.all_eq_true] at hab
      simp only [spNames, List.mem_cons] at hcn
      rcases hcn with hcn | hcn
      · have : c = .compound nm cs := IsNode.eq_of_name hD hc hb hcn
        subst this
        simp only [covers, coversL_eq, Bool.or_eq_true, List.all_eq_true]
        exact Or.inr hab
      · obtain ⟨ch, hch, hn⟩ := mem_spNamesL cs _ hcn
        exact ih ch hch (hb.child hch) c hc (hab ch hch) hn

theorem covers_trans {D : Sp} (hD : (spNames D).Nodup) {a b : Sp} (ha : IsNode D a) (hb : IsNode D b)
    (hab : covers a b = true) (c : Sp) : IsNode D c → covers b c = true → covers a c = true := by
  induction c using Sp.indC with
  | leaf s hs =>
    intro hc hbc
    rw [covers_leaf b s hs, includes_iff] at hbc
    exact covers_of_mem_spNames hD a ha b hb s hc hab hbc
  | comp nm cs ih =>
    intro hc hbc
    by_cases hinc : includes b (.compound nm cs) = true
    · exact covers_of_mem_spNames hD a ha b hb _ hc hab ((includes_iff _ _).mp hinc)
    · simp only [covers, hinc, Bool.false_or, coversL_eq, List.all_eq_true] at hbc
      simp only [covers, coversL_eq, Bool.or_eq_true, List.all_eq_true]
      exact Or.inr (fun ch hch => ih ch hch (hc.child hch) (hbc ch hch))

/-! ## G2: the erase loop -/

theorem erasePass_zero (done rest : List Sp) (found : Bool) :
    erasePass 0 done rest found = (done ++ rest, found) := by
  cases rest <;> simp [erasePass]

theorem erasePass_nil (fuel : Nat) (done : List Sp) (found : Bool) :
    erasePass fuel done [] found = (done, found) := by
  cases fuel <;> simp [erasePass]

/-- the set after erasing `jt` (`it` itself is never erased) -/
theorem erase_step_eq (done rest : List Sp) (it jt : Sp) (h : (jt.name != it.name) = true) :
    done.filter (fun x => x.name != jt.name) ++ [it] ++ rest.filter (fun x => x.name != jt.name) =
      (done ++ it :: rest).filter (fun x => x.name != jt.name) := by
  have : (it.name != jt.name) = true := by
    simp only [bne_iff_ne, ne_eq] at h ⊢
    exact fun e => h e.symm
  simp [this]

theorem erasePass_some (fuel : Nat) (done rest : List Sp) (it jt : Sp) (found : Bool)
    (h : (done ++ it :: rest).find? (fun jt => jt.name != it.name && covers it jt) = some jt) :
    erasePass (fuel + 1) done (it :: rest) found =
      erasePass fuel (done.filter (fun x => x.name != jt.name) ++ [it])
        (rest.filter (fun x => x.name != jt.name)) true := by
  rw [erasePass]; simp only [h]

theorem erasePass_none (fuel : Nat) (done rest : List Sp) (it : Sp) (found : Bool)
    (h : (done ++ it :: rest).find? (fun jt => jt.name != it.name && covers it jt) = none) :
    erasePass (fuel + 1) done (it :: rest) found = erasePass fuel (done ++ [it]) rest found := by
  rw [erasePass]; simp only [h]

/-- (a) a pass only erases: the result is a sublist (set order kept) of the current set -/
theorem erasePass_sublist : ∀ (fuel : Nat) (done rest : List Sp) (found : Bool),
    (erasePass fuel done rest found).1.Sublist (done ++ rest) := by
  intro fuel
  induction fuel with
  | zero => intro done rest found; rw [erasePass_zero]; exact List.Sublist.refl _
  | succ fuel ih =>
    intro done rest found
    cases rest with
    | nil => rw [erasePass_nil]; simp
    | cons it rest =>
      cases hf : (done ++ it :: rest).find? (fun jt => jt.name != it.name && covers it jt) with
      | none =>
        rw [erasePass_none _ _ _ _ _ hf]
        have := ih (done ++ [it]) rest found
        simpa using this
      | some jt =>
        rw [erasePass_some _ _ _ _ _ _ hf]
        have hp := List.find?_some hf
        simp only [Bool.and_eq_true] at hp
        refine (ih _ _ true).trans ?_
        rw [erase_step_eq done rest it jt hp.1]
        exact List.filter_sublist

theorem erasePass_found_true : ∀ (fuel : Nat) (done rest : List Sp),
    (erasePass fuel done rest true).2 = true := by
  intro fuel
  induction fuel with
  | zero => intro done rest; rw [erasePass_zero]
  | succ fuel ih =>
    intro done rest
    cases rest with
    | nil => rw [erasePass_nil]
    | cons it rest =>
      cases hf : (done ++ it :: rest).find? (fun jt => jt.name != it.name && covers it jt) with
      | none => rw [erasePass_none _ _ _ _ _ hf]; exact ih _ _
      | some jt => rw [erasePass_some _ _ _ _ _ _ hf]; exact ih _ _

/-- a pass that reports `found` has made the set strictly smaller -/
theorem erasePass_length_lt : ∀ (fuel : Nat) (done rest : List Sp),
    (erasePass fuel done rest false).2 = true →
      (erasePass fuel done rest false).1.length < (done ++ rest).length := by
  intro fuel
  induction fuel with
  | zero => intro done rest h; rw [erasePass_zero] at h; cases h
  | succ fuel ih =>
    intro done rest h
    cases rest with
    | nil => rw [erasePass_nil] at h; cases h
    | cons it rest =>
      cases hf : (done ++ it :: rest).find? (fun jt => jt.name != it.name && covers it jt) with
      | none =>
        rw [erasePass_none _ _ _ _ _ hf] at h ⊢
        have := ih _ _ h
        simpa using this
      | some jt =>
        rw [erasePass_some _ _ _ _ _ _ hf]
        have hp := List.find?_some hf
        have hmem := List.mem_of_find?_eq_some hf
        simp only [Bool.and_eq_true] at hp
        have h1 := (erasePass_sublist fuel (done.filter (fun x => x.name != jt.name) ++ [it])
          (rest.filter (fun x => x.name != jt.name)) true).length_le
        rw [erase_step_eq done rest it jt hp.1] at h1
        have h2 : ((done ++ it :: rest).filter (fun x => x.name != jt.name)).length <
            (done ++ it :: rest).length := by
          apply List.length_filter_lt_length_iff_exists.mpr
          exact ⟨jt, hmem, by simp⟩
        omega

/-- (c) a pass that reports nothing found has not changed the set, and no `it` it visited covers a different-named
element -/
theorem erasePass_false : ∀ (fuel : Nat) (done rest : List Sp), rest.length ≤ fuel →
    (erasePass fuel done rest false).2 = false →
      (erasePass fuel done rest false).1 = done ++ rest ∧
      ∀ it ∈ rest, ∀ jt ∈ done ++ rest, jt.name ≠ it.name → covers it jt = false := by
  intro fuel
  induction fuel with
  | zero =>
    intro done rest hl _
    have : rest = [] := List.length_eq_zero_iff.mp (by omega)
    subst this
    simp [erasePass_zero]
  | succ fuel ih =>
    intro done rest hl h
    cases rest with
    | nil => simp [erasePass_nil]
    | cons it rest =>
      cases hf : (done ++ it :: rest).find? (fun jt => jt.name != it.name && covers it jt) with
      | none =>
        rw [erasePass_none _ _ _ _ _ hf] at h ⊢
        obtain ⟨h1, h2⟩ := ih (done ++ [it]) rest (by simpa using hl) h
        refine ⟨by simpa using h1, ?_⟩
        intro it' hit' jt hjt hne
        rcases List.mem_cons.mp hit' with rfl | hit'
        · have := List.find?_eq_none.mp hf jt hjt
          simpa [hne] using this
        · exact h2 it' hit' jt (by simpa using hjt) hne
      | some jt =>
        rw [erasePass_some _ _ _ _ _ _ hf, erasePass_found_true] at h
        cases h

/-- (b) a pass keeps every space covered: what some element of the current set covers is covered by an element of
the set after the pass (erasing `jt` leaves the `it` that covers it, and `covers` is transitive) -/
theorem erasePass_covered {D : Sp} (hD : (spNames D).Nodup) (x : Sp) (hx : IsNode D x) :
    ∀ (fuel : Nat) (done rest : List Sp) (found : Bool), (∀ y ∈ done ++ rest, IsNode D y) →
      (∃ r ∈ done ++ rest, covers r x = true) → ∃ r ∈ (erasePass fuel done rest found).1, covers r x = true := by
  intro fuel
  induction fuel with
  | zero => intro done rest found _ h; rw [erasePass_zero]; exact h
  | succ fuel ih =>
    intro done rest found hall h
    cases rest with
    | nil => rw [erasePass_nil]; simpa using h
    | cons it rest =>
      cases hf : (done ++ it :: rest).find? (fun jt => jt.name != it.name && covers it jt) with
      | none =>
        rw [erasePass_none _ _ _ _ _ hf]
        exact ih (done ++ [it]) rest found (by simpa using hall) (by simpa using h)
      | some jt =>
        rw [erasePass_some _ _ _ _ _ _ hf]
        have hp := List.find?_some hf
        have hmem := List.mem_of_find?_eq_some hf
        simp only [Bool.and_eq_true] at hp
        have hne : it.name ≠ jt.name := by
          have := hp.1
          simp only [bne_iff_ne, ne_eq] at this
          exact fun e => this e.symm
        have heq := erase_step_eq done rest it jt hp.1
        apply ih
        · intro y hy
          rw [heq] at hy
          exact hall y (List.mem_filter.mp hy).1
        · obtain ⟨r, hr, hrx⟩ := h
          rw [heq]
          by_cases hrn : r.name = jt.name
          · have : r = jt := IsNode.eq_of_name hD (hall r hr) (hall jt hmem) hrn
            subst this
            refine ⟨it, List.mem_filter.mpr ⟨by simp, by simpa using hne⟩, ?_⟩
            exact covers_trans hD (hall it (by simp)) (hall r hmem) hp.2 x hx hrx
          · exact ⟨r, List.mem_filter.mpr ⟨hr, by simpa using hrn⟩, hrx⟩

theorem eraseCovered_succ (fuel : Nat) (l : List Sp) :
    eraseCovered (fuel + 1) l =
      if (erasePass (l.length + 1) [] l false).2 = true then eraseCovered fuel (erasePass (l.length + 1) [] l false).1
      else (erasePass (l.length + 1) [] l false).1 := by
  rw [eraseCovered]
  generalize erasePass (l.length + 1) [] l false = r
  obtain ⟨l', f⟩ := r
  cases f <;> simp

/-- G2 (a): the loop only erases; the result is a sublist of the set (set order kept) -/
theorem eraseCovered_sublist : ∀ (fuel : Nat) (l : List Sp), (eraseCovered fuel l).Sublist l := by
  intro fuel
  induction fuel with
  | zero => intro l; simp [eraseCovered]
  | succ fuel ih =>
    intro l
    rw [eraseCovered_succ]
    have h1 := erasePass_sublist (l.length + 1) [] l false
    simp only [List.nil_append] at h1
    split
    · exact (ih _).trans h1
    · exact h1

theorem eraseCovered_subset (fuel : Nat) (l : List Sp) : ∀ x ∈ eraseCovered fuel l, x ∈ l :=
  fun _ hx => (eraseCovered_sublist fuel l).subset hx

/-- G2 (b), general form: whatever an element of the set covers is covered by an element of the result -/
theorem eraseCovered_covered {D : Sp} (hD : (spNames D).Nodup) (x : Sp) (hx : IsNode D x) :
    ∀ (fuel : Nat) (l : List Sp), (∀ y ∈ l, IsNode D y) → (∃ r ∈ l, covers r x = true) →
      ∃ r ∈ eraseCovered fuel l, covers r x = true := by
  intro fuel
  induction fuel with
  | zero => intro l _ h; simpa [eraseCovered] using h
  | succ fuel ih =>
    intro l hl h
    rw [eraseCovered_succ]
    have h1 := erasePass_covered hD x hx (l.length + 1) [] l false (by simpa using hl) (by simpa using h)
    split
    · apply ih _ _ h1
      intro y hy
      have := (erasePass_sublist (l.length + 1) [] l false).subset hy
      exact hl y (by simpa using this)
    · exact h1

/-- G2 (b): every element of the set is in the result or covered by an element of the result with a different name -/
theorem eraseCovered_mem_or_covered {D : Sp} (hD : (spNames D).Nodup) (fuel : Nat) (l : List Sp)
    (hl : ∀ y ∈ l, IsNode D y) : ∀ x ∈ l, x ∈ eraseCovered fuel l ∨
      ∃ r ∈ eraseCovered fuel l, r.name ≠ x.name ∧ covers r x = true := by
  intro x hx
  obtain ⟨r, hr, hrx⟩ := eraseCovered_covered hD x (hl x hx) fuel l hl ⟨x, hx, covers_refl x⟩
  by_cases hn : r.name = x.name
  · have : r = x := IsNode.eq_of_name hD (hl r (eraseCovered_subset fuel l r hr)) (hl x hx) hn
    exact Or.inl (this ▸ hr)
  · exact Or.inr ⟨r, hr, hn, hrx⟩

/-- G2 (c): with enough fuel the loop ends after a pass that erased nothing: no element of the result is covered by a
different-named element of the result -/
theorem eraseCovered_minimal : ∀ (fuel : Nat) (l : List Sp), l.length ≤ fuel →
    ∀ it ∈ eraseCovered fuel l, ∀ jt ∈ eraseCovered fuel l, jt.name ≠ it.name → covers it jt = false := by
  intro fuel
  induction fuel with
  | zero =>
    intro l hl
    have : l = [] := List.length_eq_zero_iff.mp (by omega)
    subst this
    simp [eraseCovered]
  | succ fuel ih =>
    intro l hl
    rw [eraseCovered_succ]
    split
    · next hfound =>
      have := erasePass_length_lt (l.length + 1) [] l hfound
      simp only [List.nil_append] at this
      exact ih _ (by omega)
    · next hfound =>
      have := erasePass_false (l.length + 1) [] l (by omega) (by simpa using hfound)
      rw [this.1]
      simpa using this.2

/-! ## G3: `getCommonSubspaces` -/

/-! ### the substate map -/

theorem findSub_foldl_mem (n : Nat) : ∀ (m : List (Nat × List Nat)) (acc : Option (List Nat)) (c : List Nat),
    m.foldl (fun acc e => if e.1 = n then some e.2 else acc) acc = some c → acc = some c ∨ (n, c) ∈ m
  | [], acc, c, h => Or.inl (by simpa using h)
  | e :: m, acc, c, h => by
    rw [List.foldl_cons] at h
    rcases findSub_foldl_mem n m _ c h with h | h
    · split at h
      · next he =>
        refine Or.inr ?_
        cases h
        rw [← he]
        simp
      · exact Or.inl h
    · exact Or.inr (by simp [h])

/-- `std::map::find` returns an entry of the map -/
theorem findSub_mem {m : List (Nat × List Nat)} {n : Nat} {c : List Nat} (h : findSub m n = some c) :
    (n, c) ∈ m := by
  rcases findSub_foldl_mem n m none c h with h | h
  · cases h
  · exact h

theorem findSub_foldl_isSome (n : Nat) : ∀ (m : List (Nat × List Nat)) (acc : Option (List Nat)),
    (m.foldl (fun acc e => if e.1 = n then some e.2 else acc) acc).isSome = true ↔
      acc.isSome = true ∨ n ∈ m.map Prod.fst
  | [], acc => by simp
  | e :: m, acc => by
    rw [List.foldl_cons, findSub_foldl_isSome n m]
    by_cases he : e.1 = n
    · simp [he]
    · have : ¬ n = e.1 := fun h => he h.symm
      simp [he, this]

/-- a name is found iff it is a key -/
theorem findSub_isSome_iff (m : List (Nat × List Nat)) (n : Nat) :
    (findSub m n).isSome = true ↔ n ∈ m.map Prod.fst := by
  unfold findSub
  rw [findSub_foldl_isSome]
  simp

theorem subLocs_leaf (s : Sp) (h : s.isLeaf = true) (chain : List Nat) : subLocs s chain = [(s.name, chain)] := by
  cases s <;> simp [Sp.isLeaf] at h <;> simp [subLocs, Sp.name]

theorem mem_subLocsL : ∀ (cs : List Sp) (chain : List Nat) (i : Nat) (e : Nat × List Nat),
    e ∈ subLocsL cs chain i → ∃ (k : Nat) (c : Sp), cs[k]? = some c ∧ e ∈ subLocs c (chain ++ [i + k])
  | [], _, _, _, h => by simp [subLocsL] at h
  | c :: cs, chain, i, e, h => by
    simp only [subLocsL, List.mem_append] at h
    rcases h with h | h
    · exact ⟨0, c, by simp, by simpa using h⟩
    · obtain ⟨k, c', hk, he⟩ := mem_subLocsL cs chain (i + 1) e h
      refine ⟨k + 1, c', by simpa using hk, ?_⟩
      have : i + (k + 1) = i + 1 + k := by omega
      rw [this]; exact he

/-- every entry of the map is (name of a node, its chain) -/
theorem mem_subLocs (D : Sp) : ∀ (chain : List Nat) (e : Nat × List Nat), e ∈ subLocs D chain →
    ∃ p x, nodeAt D p = some x ∧ e = (x.name, chain ++ p) := by
  induction D using Sp.indC with
  | leaf s hs =>
    intro chain e he
    rw [subLocs_leaf s hs, List.mem_singleton] at he
    exact ⟨[], s, nodeAt_nil s, by simpa using he⟩
  | comp nm cs ih =>
    intro chain e he
    simp only [subLocs, List.mem_cons] at he
    rcases he with he | he
    · exact ⟨[], _, nodeAt_nil _, by simpa [Sp.name] using he⟩
    · obtain ⟨k, c, hk, he⟩ := mem_subLocsL cs chain 0 e he
      obtain ⟨p, x, hx, hex⟩ := ih c (List.mem_of_getElem? hk) _ e he
      refine ⟨k :: p, x, ?_, ?_⟩
      · rw [nodeAt_compound]; simp [hk, hx]
      · simpa using hex

theorem subLocsL_keys : ∀ (cs : List Sp), (∀ c ∈ cs, ∀ chain, (subLocs c chain).map Prod.fst = spNames c) →
    ∀ (chain : List Nat) (i : Nat), (subLocsL cs chain i).map Prod.fst = spNamesL cs
  | [], _, _, _ => by simp [subLocsL, spNamesL]
  | c :: cs, h, chain, i => by
    simp only [subLocsL, spNamesL, List.map_append]
    rw [h c (by simp), subLocsL_keys cs (fun c hc => h c (by simp [hc]))]

/-- the keys of the map are the names of the tree -/
theorem subLocs_keys (D : Sp) : ∀ (chain : List Nat), (subLocs D chain).map Prod.fst = spNames D := by
  induction D using Sp.indC with
  | leaf s hs => intro chain; rw [subLocs_leaf s hs, spNames_leaf s hs]; rfl
  | comp nm cs ih =>
    intro chain
    simp only [subLocs, spNames, List.map_cons, subLocsL_keys cs ih]

theorem substateLocs_eq (D : Sp) (hDw : ∀ nm s, D ≠ .wrapper nm s) : substateLocs D = subLocs D [] := by
  cases D <;> first | rfl | exact absurd rfl (hDw _ _)

/-- `substateMap.find(n)` gives the chain of a node named `n` -/
theorem findSub_node {D : Sp} (hDw : ∀ nm s, D ≠ .wrapper nm s) {n : Nat} {chain : List Nat}
    (h : findSub (substateLocs D) n = some chain) : ∃ x, nodeAt D chain = some x ∧ x.name = n := by
  have := findSub_mem h
  rw [substateLocs_eq D hDw] at this
  obtain ⟨p, x, hx, he⟩ := mem_subLocs D [] _ this
  simp only [List.nil_append, Prod.mk.injEq] at he
  exact ⟨x, he.2 ▸ hx, he.1.symm⟩

/-- every node's name is a key, and with distinct names the entry is the node's own chain -/
theorem findSub_of_node {D : Sp} (hDw : ∀ nm s, D ≠ .wrapper nm s) (hD : (spNames D).Nodup) {chain : List Nat} {x : Sp}
    (h : nodeAt D chain = some x) : findSub (substateLocs D) x.name = some chain := by
  have hk : (findSub (substateLocs D) x.name).isSome = true := by
    rw [findSub_isSome_iff, substateLocs_eq D hDw, subLocs_keys]
    exact nodeAt_name_mem h
  obtain ⟨c, hc⟩ := Option.isSome_iff_exists.mp hk
  obtain ⟨y, hy, hyn⟩ := findSub_node hDw hc
  rw [hc, chain_unique D c chain y x hD hy h hyn]

/-! ### the set before the erase loop -/

/-- the node of `destS` the loop inserts for a key `n` (none if `n` is not a key of both maps) -/
def commonNode (destS srcS : Sp) (n : Nat) : Option Sp :=
  match findSub (substateLocs srcS) n, findSub (substateLocs destS) n with
  | some _, some chain => nodeAt destS chain
  | _, _ => none

/-- the `std::set` after the insertion loop -/
def commonInter (destS srcS : Sp) : List Sp :=
  (substateLocs destS).foldl (fun acc e =>
    match commonNode destS srcS e.1 with
    | some node => cslInsert node acc
    | none => acc) []

theorem commonSubspaces_eq (destS srcS : Sp) :
    commonSubspaces destS srcS = eraseCovered (commonInter destS srcS).length (commonInter destS srcS) := by
  have : ∀ (acc : List Sp) (e : Nat × List Nat),
      (match findSub (substateLocs srcS) e.1, findSub (substateLocs destS) e.1 with
        | some _, some chain =>
          match nodeAt destS chain with
          | some node => cslInsert node acc
          | none => acc
        | _, _ => acc) =
      (match commonNode destS srcS e.1 with
        | some node => cslInsert node acc
        | none => acc) := by
    intro acc e
    unfold commonNode
    cases findSub (substateLocs srcS) e.1 <;> cases findSub (substateLocs destS) e.1 <;> rfl
  have hfun : (fun (acc : List Sp) (e : Nat × List Nat) =>
      match findSub (substateLocs srcS) e.1, findSub (substateLocs destS) e.1 with
        | some _, some chain =>
          match nodeAt destS chain with
          | some node => cslInsert node acc
          | none => acc
        | _, _ => acc) =
      (fun acc e => match commonNode destS srcS e.1 with
        | some node => cslInsert node acc
        | none => acc) := funext fun acc => funext fun e => this acc e
  exact congrArg (fun f => eraseCovered (List.foldl f [] (substateLocs destS)).length
    (List.foldl f [] (substateLocs destS))) hfun

theorem commonNode_some {D S : Sp} (hDw : ∀ nm s, D ≠ .wrapper nm s) {n : Nat} {x : Sp}
    (h : commonNode D S n = some x) :
    x.name = n ∧ nameFound D S n = true ∧ ∃ chain, findSub (substateLocs D) n = some chain ∧ nodeAt D chain = some x := by
  unfold commonNode at h
  unfold nameFound
  cases h1 : findSub (substateLocs S) n with
  | none => simp [h1] at h
  | some sc =>
    cases h2 : findSub (substateLocs D) n with
    | none => simp [h1, h2] at h
    | some chain =>
      simp only [h1, h2] at h
      obtain ⟨y, hy, hyn⟩ := findSub_node hDw h2
      rw [hy] at h
      cases h
      exact ⟨hyn, by simp, chain, rfl, hy⟩

theorem commonNode_of_found {D S : Sp} (hDw : ∀ nm s, D ≠ .wrapper nm s) {n : Nat}
    (h : nameFound D S n = true) : ∃ chain x, findSub (substateLocs D) n = some chain ∧ nodeAt D chain = some x ∧
      x.name = n ∧ commonNode D S n = some x := by
  unfold nameFound at h
  simp only [Bool.and_eq_true] at h
  obtain ⟨chain, hc⟩ := Option.isSome_iff_exists.mp h.1
  obtain ⟨sc, hs⟩ := Option.isSome_iff_exists.mp h.2
  obtain ⟨x, hx, hxn⟩ := findSub_node hDw hc
  exact ⟨chain, x, hc, hx, hxn, by simp [commonNode, hc, hs, hx]⟩

theorem foldl_cslInsert_spec (g : Nat → Option Sp) (hg : ∀ n x, g n = some x → x.name = n) :
    ∀ (m : List (Nat × List Nat)) (acc : List Sp), (∀ y ∈ acc, g y.name = some y) → CslSorted acc →
      (∀ y, y ∈ m.foldl (fun acc e => match g e.1 with
          | some node => cslInsert node acc
          | none => acc) acc ↔ y ∈ acc ∨ ∃ e ∈ m, g e.1 = some y) ∧
      CslSorted (m.foldl (fun acc e => match g e.1 with
          | some node => cslInsert node acc
          | none => acc) acc)
  | [], acc, _, hs => by simp [hs]
  | e :: m, acc, hacc, hs => by
    rw [List.foldl_cons]
    cases hge : g e.1 with
    | none =>
      simp only []
      obtain ⟨h1, h2⟩ := foldl_cslInsert_spec g hg m acc hacc hs
      refine ⟨fun y => ?_, h2⟩
      rw [h1 y]
      constructor
      · rintro (h | ⟨e', he', h⟩)
        · exact Or.inl h
        · exact Or.inr ⟨e', by simp [he'], h⟩
      · rintro (h | ⟨e', he', h⟩)
        · exact Or.inl h
        · rcases List.mem_cons.mp he' with rfl | he'
          · rw [hge] at h; cases h
          · exact Or.inr ⟨e', he', h⟩
    | some node =>
      simp only []
      have hnn := hg _ _ hge
      have hins : ∀ y, y ∈ cslInsert node acc ↔ y = node ∨ y ∈ acc := by
        apply mem_cslInsert
        intro y hy hyn
        have := hacc y hy
        rw [hyn, hnn, hge] at this
        exact (Option.some.inj this).symm
      obtain ⟨h1, h2⟩ := foldl_cslInsert_spec g hg m (cslInsert node acc)
        (by
          intro y hy
          rcases (hins y).mp hy with rfl | hy
          · rw [hnn]; exact hge
          · exact hacc y hy)
        (cslInsert_sorted node acc hs)
      refine ⟨fun y => ?_, h2⟩
      rw [h1 y, hins y]
      constructor
      · rintro ((h | h) | ⟨e', he', h⟩)
        · exact Or.inr ⟨e, by simp, by rw [h]; exact hge⟩
        · exact Or.inl h
        · exact Or.inr ⟨e', by simp [he'], h⟩
      · rintro (h | ⟨e', he', h⟩)
        · exact Or.inl (Or.inr h)
        · rcases List.mem_cons.mp he' with rfl | he'
          · rw [hge] at h; exact Or.inl (Or.inl (Option.some.inj h).symm)
          · exact Or.inr ⟨e', he', h⟩

/-- the set before the erase loop holds exactly the nodes of `D` whose name is a key of both maps — none is lost to
comparator equivalence -/
theorem mem_commonInter {D S : Sp} (hDw : ∀ nm s, D ≠ .wrapper nm s) (x : Sp) :
    x ∈ commonInter D S ↔ commonNode D S x.name = some x := by
  have hg : ∀ n x, commonNode D S n = some x → x.name = n := fun n x h => (commonNode_some hDw h).1
  have := (foldl_cslInsert_spec (commonNode D S) hg (substateLocs D) [] (by simp) (by simp [CslSorted])).1 x
  unfold commonInter
  rw [this]
  constructor
  · rintro (h | ⟨e, _, h⟩)
    · simp at h
    · rw [hg _ _ h]; exact h
  · intro h
    obtain ⟨_, _, chain, hc, _⟩ := commonNode_some hDw h
    exact Or.inr ⟨(x.name, chain), findSub_mem hc, h⟩

theorem commonInter_sorted {D S : Sp} (hDw : ∀ nm s, D ≠ .wrapper nm s) : CslSorted (commonInter D S) := by
  have hg : ∀ n x, commonNode D S n = some x → x.name = n := fun n x h => (commonNode_some hDw h).1
  exact (foldl_cslInsert_spec (commonNode D S) hg (substateLocs D) [] (by simp) (by simp [CslSorted])).2

/-! ### the specification -/

theorem commonInter_isNode {D S : Sp} (hDw : ∀ nm s, D ≠ .wrapper nm s) : ∀ x ∈ commonInter D S, IsNode D x := by
  intro x hx
  obtain ⟨_, _, chain, _, hn⟩ := commonNode_some hDw ((mem_commonInter hDw x).mp hx)
  exact ⟨chain, hn⟩

/-- G3 (a) soundness: every returned space is the node of `D` at the chain the substate map of `D` has for its name,
and that name is a key of both maps -/
theorem commonSubspaces_sound {D S : Sp} (hDw : ∀ nm s, D ≠ .wrapper nm s) :
    ∀ x ∈ commonSubspaces D S, nameFound D S x.name = true ∧
      ∃ chain, findSub (substateLocs D) x.name = some chain ∧ nodeAt D chain = some x := by
  intro x hx
  rw [commonSubspaces_eq] at hx
  have := (mem_commonInter hDw x).mp (eraseCovered_subset _ _ x hx)
  exact (commonNode_some hDw this).2

theorem commonSubspaces_isNode {D S : Sp} (hDw : ∀ nm s, D ≠ .wrapper nm s) :
    ∀ x ∈ commonSubspaces D S, IsNode D x := by
  intro x hx
  obtain ⟨_, chain, _, h⟩ := commonSubspaces_sound hDw x hx
  exact ⟨chain, h⟩

/-- G3 (b) completeness: the node of `D` for any name that is a key of both maps is covered by a returned space -/
theorem commonSubspaces_complete {D S : Sp} (hDw : ∀ nm s, D ≠ .wrapper nm s) (hD : (spNames D).Nodup) :
    ∀ n, nameFound D S n = true →
      ∃ chain node, findSub (substateLocs D) n = some chain ∧ nodeAt D chain = some node ∧ node.name = n ∧
        ∃ r ∈ commonSubspaces D S, covers r node = true := by
  intro n hn
  obtain ⟨chain, x, hc, hx, hxn, hcn⟩ := commonNode_of_found hDw hn
  refine ⟨chain, x, hc, hx, hxn, ?_⟩
  rw [commonSubspaces_eq]
  have hmem : x ∈ commonInter D S := (mem_commonInter hDw x).mpr (by rw [hxn]; exact hcn)
  exact eraseCovered_covered hD x ⟨chain, hx⟩ _ _ (commonInter_isNode hDw) ⟨x, hmem, covers_refl x⟩

/-- G3 (b), on nodes: every node of `D` whose name is a key of the source's map is returned or covered by a returned
space with another name -/
theorem commonSubspaces_complete_node {D S : Sp} (hDw : ∀ nm s, D ≠ .wrapper nm s) (hD : (spNames D).Nodup)
    (chain : List Nat) (x : Sp) (hx : nodeAt D chain = some x)
    (hS : (findSub (substateLocs S) x.name).isSome = true) :
    x ∈ commonSubspaces D S ∨ ∃ r ∈ commonSubspaces D S, r.name ≠ x.name ∧ covers r x = true := by
  have hf := findSub_of_node hDw hD hx
  have hcn : commonNode D S x.name = some x := by
    obtain ⟨sc, hs⟩ := Option.isSome_iff_exists.mp hS
    simp [commonNode, hf, hs, hx]
  rw [commonSubspaces_eq]
  exact eraseCovered_mem_or_covered hD _ _ (commonInter_isNode hDw) x ((mem_commonInter hDw x).mpr hcn)

/-- G3 (c) minimality: no returned space is covered by another returned space -/
theorem commonSubspaces_minimal (D S : Sp) :
    ∀ it ∈ commonSubspaces D S, ∀ jt ∈ commonSubspaces D S, jt.name ≠ it.name → covers it jt = false := by
  rw [commonSubspaces_eq]
  exact eraseCovered_minimal _ _ (Nat.le_refl _)

/-- the result is in set order, and no name occurs twice -/
theorem commonSubspaces_sorted {D S : Sp} (hDw : ∀ nm s, D ≠ .wrapper nm s) : CslSorted (commonSubspaces D S) := by
  rw [commonSubspaces_eq]
  exact (commonInter_sorted hDw).sublist (eraseCovered_sublist _ _)

theorem commonSubspaces_names_nodup {D S : Sp} (hDw : ∀ nm s, D ≠ .wrapper nm s) :
    ((commonSubspaces D S).map Sp.name).Nodup := by
  apply (commonSubspaces_sorted hDw).names_nodup
  intro a ha b hb hab
  obtain ⟨_, ca, hca, hna⟩ := commonSubspaces_sound hDw a ha
  obtain ⟨_, cb, hcb, hnb⟩ := commonSubspaces_sound hDw b hb
  rw [hab, hcb] at hca
  cases hca
  rw [hna] at hnb
  exact Option.some.inj hnb

/-- G3: the specification of `getCommonSubspaces` in one statement -/
theorem commonSubspaces_spec {D S : Sp} (hDw : ∀ nm s, D ≠ .wrapper nm s) (hD : (spNames D).Nodup) :
    (∀ x ∈ commonSubspaces D S, IsNode D x ∧ nameFound D S x.name = true) ∧
    (∀ n, nameFound D S n = true → ∃ chain node, findSub (substateLocs D) n = some chain ∧
      nodeAt D chain = some node ∧ node.name = n ∧ ∃ r ∈ commonSubspaces D S, covers r node = true) ∧
    (∀ it ∈ commonSubspaces D S, ∀ jt ∈ commonSubspaces D S, jt.name ≠ it.name → covers it jt = false) ∧
    ((commonSubspaces D S).map Sp.name).Nodup :=
  ⟨fun x hx => ⟨commonSubspaces_isNode hDw x hx, (commonSubspaces_sound hDw x hx).1⟩,
   commonSubspaces_complete hDw hD, commonSubspaces_minimal D S, commonSubspaces_names_nodup hDw⟩

/-! ## G4: the copy of the common subspaces reports `ALL_DATA_COPIED` -/

theorem csdNames_common_all {D S : Sp} (hDw : ∀ nm s, D ≠ .wrapper nm s) (d s : St) :
    (csdNames D d S s ((commonSubspaces D S).map Sp.name)).2 = .all := by
  rw [csdNames_all]
  intro nm hnm
  obtain ⟨x, hx, rfl⟩ := List.mem_map.mp hnm
  exact (commonSubspaces_sound hDw x hx).1

/-! ## G5: the state written by `copyStateData(dest, src, names)` -/

/-! ### substates -/

theorem St.subL_eq : ∀ (cs : List St) (i : Nat) (rest : List Nat),
    St.subL cs i rest = (cs[i]?).bind (·.sub rest)
  | [], i, rest => by simp [St.subL]
  | c :: cs, 0, rest => by simp [St.subL]
  | c :: cs, i + 1, rest => by simp [St.subL, St.subL_eq cs i rest]

theorem St.sub_nil (st : St) : st.sub [] = some st := by cases st <;> simp [St.sub]

theorem St.setSub_nil (st x : St) : st.setSub [] x = x := by cases st <;> simp [St.setSub]

theorem St.sub_comp (cs : List St) (i : Nat) (rest : List Nat) :
    (St.comp cs).sub (i :: rest) = (cs[i]?).bind (·.sub rest) := by
  simp [St.sub, St.subL_eq]

theorem St.setSubL_length : ∀ (cs : List St) (i : Nat) (rest : List Nat) (x : St),
    (St.setSubL cs i rest x).length = cs.length
  | [], i, rest, x => by simp [St.setSubL]
  | c :: cs, 0, rest, x => by simp [St.setSubL]
  | c :: cs, i + 1, rest, x => by simp [St.setSubL, St.setSubL_length cs i rest x]

theorem St.setSubL_getElem? : ∀ (cs : List St) (i : Nat) (rest : List Nat) (x : St) (j : Nat),
    (St.setSubL cs i rest x)[j]? = if j = i then (cs[i]?).map (·.setSub rest x) else cs[j]?
  | [], i, rest, x, j => by simp [St.setSubL]
  | c :: cs, 0, rest, x, j => by
    cases j <;> simp [St.setSubL]
  | c :: cs, i + 1, rest, x, j => by
    cases j with
    | zero => simp [St.setSubL]
    | succ j => simp [St.setSubL, St.setSubL_getElem? cs i rest x j]

/-- the two chains lead into different subtrees: neither is a prefix of the other -/
def Incomp (p q : List Nat) : Prop := ¬ p <+: q ∧ ¬ q <+: p

theorem Incomp.symm {p q : List Nat} (h : Incomp p q) : Incomp q p := ⟨h.2, h.1⟩

theorem Incomp.tail {i : Nat} {p q : List Nat} (h : Incomp (i :: p) (i :: q)) : Incomp p q := by
  unfold Incomp at *
  simpa [List.cons_prefix_cons] using h

/-- reading back the substate just written -/
theorem St.sub_setSub_same : ∀ (p : List Nat) (st x y : St), st.sub p = some y → (st.setSub p x).sub p = some x
  | [], st, x, y, _ => by rw [St.setSub_nil, St.sub_nil]
  | i :: r, st, x, y, h => by
    cases st with
    | comp cs =>
      rw [St.sub_comp] at h
      simp only [St.setSub]
      rw [St.sub_comp, St.setSubL_getElem?]
      cases hc : cs[i]? with
      | none => simp [hc] at h
      | some c =>
        simp only [hc, Option.bind_some] at h
        simp only [if_true, Option.map_some, Option.bind_some]
        exact St.sub_setSub_same r c x y h
    | leaf _ => simp [St.sub] at h
    | wrap _ => simp [St.sub] at h

/-- a write does not change what lies in another subtree -/
theorem St.sub_setSub_incomp : ∀ (p q : List Nat) (st x : St), Incomp p q → (st.setSub p x).sub q = st.sub q
  | [], q, st, x, h => absurd (List.nil_prefix) h.1
  | i :: r, [], st, x, h => absurd (List.nil_prefix) h.2
  | i :: r, j :: r', st, x, h => by
    cases st with
    | comp cs =>
      simp only [St.setSub]
      rw [St.sub_comp, St.sub_comp, St.setSubL_getElem?]
      by_cases hji : j = i
      · subst hji
        simp only [if_true]
        cases hc : cs[j]? with
        | none => simp
        | some c =>
          simp only [Option.map_some, Option.bind_some]
          exact St.sub_setSub_incomp r r' c x h.tail
      · simp [hji]
    | leaf _ => simp [St.setSub]
    | wrap _ => simp [St.setSub]

/-! ### shape -/

theorem fitsL_iff : ∀ (cs : List Sp) (sts : List St), fitsL cs sts = true ↔
    cs.length = sts.length ∧ ∀ (i : Nat) (c : Sp) (st : St), cs[i]? = some c → sts[i]? = some st → fits c st = true
  | [], [] => by simp [fitsL]
  | [], s :: ss => by simp [fitsL]
  | c :: cs, [] => by simp [fitsL]
  | c :: cs, s :: ss => by
    simp only [fitsL, Bool.and_eq_true, fitsL_iff cs ss, List.length_cons]
    constructor
    · rintro ⟨h1, h2, h3⟩
      refine ⟨by omega, ?_⟩
      intro i c' st' hc hs
      cases i with
      | zero =>
        simp only [List.getElem?_cons_zero, Option.some.injEq] at hc hs
        subst hc; subst hs; exact h1
      | succ i =>
        simp only [List.getElem?_cons_succ] at hc hs
        exact h3 i c' st' hc hs
    · rintro ⟨h1, h2⟩
      exact ⟨h2 0 c s (by simp) (by simp), by omega,
        fun i c' st' hc hs => h2 (i + 1) c' st' (by simpa using hc) (by simpa using hs)⟩

theorem fits_compoundC {nm : Nat} {cs : List Sp} {st : St} (h : fits (.compound nm cs) st = true) :
    ∃ sts, st = .comp sts ∧ fitsL cs sts = true := by
  cases st with
  | comp sts => exact ⟨sts, rfl, by simpa [fits] using h⟩
  | leaf _ => simp [fits] at h
  | wrap _ => simp [fits] at h

theorem nodeAt_cons_some {D : Sp} {i : Nat} {r : List Nat} {node : Sp} (h : nodeAt D (i :: r) = some node) :
    ∃ nm cs c, D = .compound nm cs ∧ cs[i]? = some c ∧ nodeAt c r = some node := by
  cases D with
  | compound nm cs =>
    rw [nodeAt_compound] at h
    cases hc : cs[i]? with
    | none => simp [hc] at h
    | some c => exact ⟨nm, cs, c, rfl, hc, by simpa [hc] using h⟩
  | _ => simp [nodeAt] at h

/-- a fitting state has a fitting substate at every node -/
theorem fits_sub : ∀ (p : List Nat) (D : Sp) (st : St) (node : Sp), fits D st = true → nodeAt D p = some node →
    ∃ y, st.sub p = some y ∧ fits node y = true
  | [], D, st, node, hf, hn => by
    rw [nodeAt_nil] at hn; cases hn
    exact ⟨st, St.sub_nil st, hf⟩
  | i :: r, D, st, node, hf, hn => by
    obtain ⟨nm, cs, c, rfl, hc, hn⟩ := nodeAt_cons_some hn
    obtain ⟨sts, rfl, hfl⟩ := fits_compoundC hf
    obtain ⟨hlen, hall⟩ := (fitsL_iff cs sts).mp hfl
    have hi : i < sts.length := by
      have := (List.getElem?_eq_some_iff.mp hc).1
      omega
    have hs : sts[i]? = some sts[i] := List.getElem?_eq_getElem hi
    obtain ⟨y, hy, hfy⟩ := fits_sub r c sts[i] node (hall i c _ hc hs) hn
    exact ⟨y, by rw [St.sub_comp, hs]; simpa using hy, hfy⟩

/-- writing a fitting substate at a node keeps the state fitting -/
theorem fits_setSub : ∀ (p : List Nat) (D : Sp) (st x : St) (node : Sp), fits D st = true → nodeAt D p = some node →
    fits node x = true → fits D (st.setSub p x) = true
  | [], D, st, x, node, _, hn, hx => by
    rw [nodeAt_nil] at hn; cases hn
    rw [St.setSub_nil]; exact hx
  | i :: r, D, st, x, node, hf, hn, hx => by
    obtain ⟨nm, cs, c, rfl, hc, hn'⟩ := nodeAt_cons_some hn
    obtain ⟨sts, rfl, hfl⟩ := fits_compoundC hf
    obtain ⟨hlen, hall⟩ := (fitsL_iff cs sts).mp hfl
    simp only [St.setSub, fits]
    rw [fitsL_iff]
    refine ⟨by rw [St.setSubL_length]; exact hlen, ?_⟩
    intro j c' st' hc' hs'
    rw [St.setSubL_getElem?] at hs'
    by_cases hji : j = i
    · subst hji
      simp only [if_true] at hs'
      rw [hc] at hc'; cases hc'
      cases hs : sts[j]? with
      | none => simp [hs] at hs'
      | some sj =>
        simp only [hs, Option.map_some, Option.some.injEq] at hs'
        rw [← hs']
        exact fits_setSub r c sj x node (hall j c sj hc hs) hn' hx
    · simp only [hji, if_false] at hs'
      exact hall j c' st' hc' hs'

/-! ### one name, then the loop -/

/-- the body of the loop over the requested names -/
def csdStep (destS srcS : Sp) (src : St) (acc : St × Nat) (nm : Nat) : St × Nat :=
  match findSub (substateLocs destS) nm, findSub (substateLocs srcS) nm with
  | some dc, some sc =>
    match nodeAt destS dc, acc.1.sub dc, src.sub sc with
    | some node, some dsub, some ssub => (acc.1.setSub dc (copyState node dsub ssub), acc.2 + 1)
    | _, _, _ => (acc.1, acc.2 + 1)
  | _, _ => acc

theorem csdNames_fst (destS : Sp) (dest : St) (srcS : Sp) (src : St) (names : List Nat) :
    (csdNames destS dest srcS src names).1 = (names.foldl (csdStep destS srcS src) (dest, 0)).1 := rfl

/-- the standing assumptions: neither space is a top-level wrapper, nodes of the two spaces with the same name are the
same space, and the source state was allocated by the source space -/
structure CopyCtx (D S : Sp) (s : St) : Prop where
  hDw : ∀ nm sp, D ≠ .wrapper nm sp
  hSw : ∀ nm sp, S ≠ .wrapper nm sp
  coh : ∀ x y, IsNode D x → IsNode S y → x.name = y.name → x = y
  fitS : fits S s = true

/-- a name that is a key of both maps: the destination substate is overwritten by the source substate -/
theorem csdStep_found {D S : Sp} {s : St} (ctx : CopyCtx D S s) (acc : St × Nat) (n : Nat) (dc sc : List Nat)
    (hd : findSub (substateLocs D) n = some dc) (hs : findSub (substateLocs S) n = some sc)
    (hf : fits D acc.1 = true) :
    ∃ ssub, s.sub sc = some ssub ∧ (csdStep D S s acc n).1 = acc.1.setSub dc ssub ∧
      fits D (csdStep D S s acc n).1 = true := by
  obtain ⟨x, hx, hxn⟩ := findSub_node ctx.hDw hd
  obtain ⟨y, hy, hyn⟩ := findSub_node ctx.hSw hs
  have hxy : x = y := ctx.coh x y ⟨dc, hx⟩ ⟨sc, hy⟩ (hxn.trans hyn.symm)
  subst hxy
  obtain ⟨dsub, hdsub, hfd⟩ := fits_sub dc D acc.1 x hf hx
  obtain ⟨ssub, hssub, hfs⟩ := fits_sub sc S s x ctx.fitS hy
  have hstep : (csdStep D S s acc n).1 = acc.1.setSub dc ssub := by
    simp only [csdStep, hd, hs, hx, hdsub, hssub, copy_equal x dsub ssub hfs hfd]
  exact ⟨ssub, hssub, hstep, by rw [hstep]; exact fits_setSub dc D acc.1 ssub x hf hx hfs⟩

theorem csdStep_not_found {D S : Sp} {s : St} (acc : St × Nat) (n : Nat) (h : nameFound D S n = false) :
    (csdStep D S s acc n).1 = acc.1 := by
  unfold nameFound at h
  unfold csdStep
  cases hd : findSub (substateLocs D) n <;> cases hs : findSub (substateLocs S) n <;> simp [hd, hs] at h ⊢

/-- the requested names that are copied lie in pairwise different subtrees of the destination -/
def NonNested (D S : Sp) (names : List Nat) : Prop :=
  ∀ n ∈ names, ∀ m ∈ names, n ≠ m → nameFound D S n = true → nameFound D S m = true →
    ∀ cn cm, findSub (substateLocs D) n = some cn → findSub (substateLocs D) m = some cm → Incomp cn cm

theorem csd_fold_spec {D S : Sp} {s : St} (ctx : CopyCtx D S s) : ∀ (names : List Nat) (acc : St × Nat),
    fits D acc.1 = true → NonNested D S names →
    fits D (names.foldl (csdStep D S s) acc).1 = true ∧
    (∀ n ∈ names, ∀ dc sc, findSub (substateLocs D) n = some dc → findSub (substateLocs S) n = some sc →
      (names.foldl (csdStep D S s) acc).1.sub dc = s.sub sc) ∧
    (∀ q, (∀ n ∈ names, nameFound D S n = true → ∀ dc, findSub (substateLocs D) n = some dc → Incomp dc q) →
      (names.foldl (csdStep D S s) acc).1.sub q = acc.1.sub q)
  | [], acc, hf, _ => by simp [hf]
  | n :: rest, acc, hf, hnn => by
    rw [List.foldl_cons]
    have hnn' : NonNested D S rest := fun a ha b hb => hnn a (by simp [ha]) b (by simp [hb])
    by_cases hfound : nameFound D S n = true
    · have hfound' := hfound
      unfold nameFound at hfound'
      simp only [Bool.and_eq_true] at hfound'
      obtain ⟨dcn, hdn⟩ := Option.isSome_iff_exists.mp hfound'.1
      obtain ⟨scn, hsn⟩ := Option.isSome_iff_exists.mp hfound'.2
      obtain ⟨ssub, hssub, hstep, hfit⟩ := csdStep_found ctx acc n dcn scn hdn hsn hf
      obtain ⟨ih1, ih2, ih3⟩ := csd_fold_spec ctx rest (csdStep D S s acc n) hfit hnn'
      obtain ⟨xn, hxn, _⟩ := findSub_node ctx.hDw hdn
      obtain ⟨dsub, hdsub, _⟩ := fits_sub dcn D acc.1 xn hf hxn
      refine ⟨ih1, ?_, ?_⟩
      · intro m hm dc sc hd hs
        by_cases hmr : m ∈ rest
        · exact ih2 m hmr dc sc hd hs
        · have hmn : m = n := by simpa [hmr] using hm
          subst hmn
          rw [hdn] at hd; rw [hsn] at hs; cases hd; cases hs
          rw [ih3 dcn, hstep, hssub]
          · exact St.sub_setSub_same dcn acc.1 ssub dsub hdsub
          · intro k hk hkf dck hdk
            have hkm : k ≠ m := fun e => hmr (e ▸ hk)
            exact hnn k (by simp [hk]) m (by simp) hkm hkf hfound dck dcn hdk hdn
      · intro q hq
        rw [ih3 q (fun k hk => hq k (by simp [hk])), hstep]
        exact St.sub_setSub_incomp dcn q acc.1 ssub (hq n (by simp) hfound dcn hdn)
    · have hfound : nameFound D S n = false := by simpa using hfound
      have hstep := csdStep_not_found (s := s) acc n hfound
      obtain ⟨ih1, ih2, ih3⟩ := csd_fold_spec ctx rest (csdStep D S s acc n) (by rw [hstep]; exact hf) hnn'
      refine ⟨ih1, ?_, ?_⟩
      · intro m hm dc sc hd hs
        by_cases hmr : m ∈ rest
        · exact ih2 m hmr dc sc hd hs
        · have hmn : m = n := by simpa [hmr] using hm
          subst hmn
          simp [nameFound, hd, hs] at hfound
      · intro q hq
        rw [ih3 q (fun k hk => hq k (by simp [hk])), hstep]

/-- G5: the destination after `copyStateData(dest, src, names)`: it still fits; at every requested name that is a key
of both maps the destination substate equals the source substate; substates in subtrees away from all copied ones are
unchanged -/
theorem csdNames_state {D S : Sp} {d s : St} (ctx : CopyCtx D S s) (hd : fits D d = true) (names : List Nat)
    (hnn : NonNested D S names) :
    fits D (csdNames D d S s names).1 = true ∧
    (∀ n ∈ names, ∀ dc sc, findSub (substateLocs D) n = some dc → findSub (substateLocs S) n = some sc →
      (csdNames D d S s names).1.sub dc = s.sub sc) ∧
    (∀ q, (∀ n ∈ names, nameFound D S n = true → ∀ dc, findSub (substateLocs D) n = some dc → Incomp dc q) →
      (csdNames D d S s names).1.sub q = d.sub q) := by
  rw [csdNames_fst]
  exact csd_fold_spec ctx names (d, 0) hd hnn

/-! ### the sampler's call: `copyStateData(dest, src, getCommonSubspaces(...))` -/

/-- a node covers everything below it -/
theorem covers_of_prefix {D : Sp} {p q : List Nat} {x y : Sp} (hx : nodeAt D p = some x) (hy : nodeAt D q = some y)
    (hpq : p <+: q) : covers x y = true := by
  obtain ⟨t, rfl⟩ := hpq
  rw [nodeAt_append, hx] at hy
  simp only [Option.bind_some] at hy
  exact covers_of_includes x y ((includes_iff x y).mpr (nodeAt_name_mem hy))

/-- the returned spaces lie in pairwise different subtrees of `D` -/
theorem commonSubspaces_nonNested {D S : Sp} (hDw : ∀ nm s, D ≠ .wrapper nm s) :
    NonNested D S ((commonSubspaces D S).map Sp.name) := by
  intro n hn m hm hnm _ _ cn cm hcn hcm
  obtain ⟨a, ha, rfl⟩ := List.mem_map.mp hn
  obtain ⟨b, hb, rfl⟩ := List.mem_map.mp hm
  obtain ⟨_, ca, hca, hna⟩ := commonSubspaces_sound hDw a ha
  obtain ⟨_, cb, hcb, hnb⟩ := commonSubspaces_sound hDw b hb
  rw [hcn] at hca; rw [hcm] at hcb; cases hca; cases hcb
  constructor
  · intro hp
    have h1 := covers_of_prefix hna hnb hp
    rw [commonSubspaces_minimal D S a ha b hb (fun e => hnm e.symm)] at h1
    cases h1
  · intro hp
    have h1 := covers_of_prefix hnb hna hp
    rw [commonSubspaces_minimal D S b hb a ha hnm] at h1
    cases h1

/-- G4 + G5 for the sampler's call: everything is reported copied, the destination still fits, and the destination
substate of every returned space equals the source substate of the same name -/
theorem csdNames_common_state {D S : Sp} {d s : St} (ctx : CopyCtx D S s) (hd : fits D d = true) :
    (csdNames D d S s ((commonSubspaces D S).map Sp.name)).2 = .all ∧
    fits D (csdNames D d S s ((commonSubspaces D S).map Sp.name)).1 = true ∧
    (∀ x ∈ commonSubspaces D S, ∃ dc sc, findSub (substateLocs D) x.name = some dc ∧
      findSub (substateLocs S) x.name = some sc ∧ nodeAt D dc = some x ∧ nodeAt S sc = some x ∧
      (csdNames D d S s ((commonSubspaces D S).map Sp.name)).1.sub dc = s.sub sc) ∧
    (∀ q, (∀ x ∈ commonSubspaces D S, ∀ dc, findSub (substateLocs D) x.name = some dc → Incomp dc q) →
      (csdNames D d S s ((commonSubspaces D S).map Sp.name)).1.sub q = d.sub q) := by
  obtain ⟨h1, h2, h3⟩ := csdNames_state ctx hd _ (commonSubspaces_nonNested ctx.hDw)
  refine ⟨csdNames_common_all ctx.hDw d s, h1, ?_, ?_⟩
  · intro x hx
    obtain ⟨hf, dc, hdc, hnx⟩ := commonSubspaces_sound ctx.hDw x hx
    unfold nameFound at hf
    simp only [Bool.and_eq_true] at hf
    obtain ⟨sc, hsc⟩ := Option.isSome_iff_exists.mp hf.2
    obtain ⟨y, hy, hyn⟩ := findSub_node ctx.hSw hsc
    have : x = y := ctx.coh x y ⟨dc, hnx⟩ ⟨sc, hy⟩ hyn.symm
    subst this
    exact ⟨dc, sc, hdc, hsc, hnx, hy, h2 x.name (List.mem_map.mpr ⟨x, hx, rfl⟩) dc sc hdc hsc⟩
  · intro q hq
    apply h3
    intro n hn _ dc hdc
    obtain ⟨x, hx, rfl⟩ := List.mem_map.mp hn
    exact hq x hx dc hdc

/-! ### all common data is copied

After the sampler's call the destination substate of *every* node of `D` whose name is a key of the source's map equals
the source substate of that name — also of the nodes that were erased from the set because another one covers them. -/

theorem St.sub_append : ∀ (p q : List Nat) (st : St), st.sub (p ++ q) = (st.sub p).bind (·.sub q)
  | [], q, st => by simp [St.sub_nil]
  | i :: r, q, st => by
    cases st with
    | comp cs =>
      simp only [List.cons_append, St.sub_comp]
      cases cs[i]? with
      | none => simp
      | some c => simp [St.sub_append r q c]
    | leaf _ => simp [St.sub]
    | wrap _ => simp [St.sub]

/-- the copied space includes the node: the node's substate came along -/
theorem sub_eq_of_includes {D S : Sp} (hD : (spNames D).Nodup) (hS : (spNames S).Nodup) {r x : Sp}
    {dc sc q sq : List Nat} (hrD : nodeAt D dc = some r) (hrS : nodeAt S sc = some r)
    (hxD : nodeAt D q = some x) (hxS : nodeAt S sq = some x) (hinc : includes r x = true) (R s : St)
    (hR : R.sub dc = s.sub sc) : R.sub q = s.sub sq := by
  obtain ⟨t, x', hx', hn⟩ := exists_node_of_mem_spNames r x.name ((includes_iff r x).mp hinc)
  have hD' : nodeAt D (dc ++ t) = some x' := by rw [nodeAt_append, hrD]; simpa using hx'
  have hS' : nodeAt S (sc ++ t) = some x' := by rw [nodeAt_append, hrS]; simpa using hx'
  have : x' = x := IsNode.eq_of_name hD ⟨_, hD'⟩ ⟨q, hxD⟩ hn
  subst this
  rw [chain_unique D q (dc ++ t) x' x' hD hxD hD' rfl, chain_unique S sq (sc ++ t) x' x' hS hxS hS' rfl,
    St.sub_append, St.sub_append, hR]

/-- the copied space covers the node: the node's substate came along (piecewise, if the node is a compound covered
through its components) -/
theorem sub_eq_of_covers {D S : Sp} (hD : (spNames D).Nodup) (hS : (spNames S).Nodup) {r : Sp}
    {dc sc : List Nat} (hrD : nodeAt D dc = some r) (hrS : nodeAt S sc = some r) (R s : St)
    (hfR : fits D R = true) (hfs : fits S s = true) (hR : R.sub dc = s.sub sc) (x : Sp) :
    ∀ (q sq : List Nat), nodeAt D q = some x → nodeAt S sq = some x → covers r x = true → R.sub q = s.sub sq := by
  induction x using Sp.indC with
  | leaf x hx =>
    intro q sq hxD hxS hc
    rw [covers_leaf r x hx] at hc
    exact sub_eq_of_includes hD hS hrD hrS hxD hxS hc R s hR
  | comp nm cs ih =>
    intro q sq hxD hxS hc
    by_cases hinc : includes r (.compound nm cs) = true
    · exact sub_eq_of_includes hD hS hrD hrS hxD hxS hinc R s hR
    · simp only [covers, hinc, Bool.false_or, coversL_eq, List.all_eq_true] at hc
      obtain ⟨a, ha, hfa⟩ := fits_sub q D R _ hfR hxD
      obtain ⟨b, hb, hfb⟩ := fits_sub sq S s _ hfs hxS
      obtain ⟨as, rfl, hfas⟩ := fits_compoundC hfa
      obtain ⟨bs, rfl, hfbs⟩ := fits_compoundC hfb
      obtain ⟨hla, _⟩ := (fitsL_iff cs as).mp hfas
      obtain ⟨hlb, _⟩ := (fitsL_iff cs bs).mp hfbs
      rw [ha, hb]
      congr 2
      apply List.ext_getElem?
      intro k
      by_cases hk : k < cs.length
      · have hck : cs[k]? = some cs[k] := List.getElem?_eq_getElem hk
        have hmem : cs[k] ∈ cs := List.getElem_mem hk
        have h1 : nodeAt D (q ++ [k]) = some cs[k] := by rw [nodeAt_snoc D q nm cs hxD k, hck]
        have h2 : nodeAt S (sq ++ [k]) = some cs[k] := by rw [nodeAt_snoc S sq nm cs hxS k, hck]
        have := ih cs[k] hmem (q ++ [k]) (sq ++ [k]) h1 h2 (hc cs[k] hmem)
        rw [St.sub_append, St.sub_append, ha, hb] at this
        simp only [Option.bind_some, St.sub_comp] at this
        have hak : as[k]? = some as[k] := List.getElem?_eq_getElem (by omega)
        have hbk : bs[k]? = some bs[k] := List.getElem?_eq_getElem (by omega)
        rw [hak, hbk] at this ⊢
        simpa [St.sub_nil] using this
      · rw [List.getElem?_eq_none (by omega), List.getElem?_eq_none (by omega)]

/-- the end-to-end statement for `copyStateData(dest, src, getCommonSubspaces(...))`: for every node of `D` (at chain
`q`) whose name is a key of the source's map (at chain `sq`), the destination substate at `q` is the source substate
at `sq` -/
theorem csdNames_common_complete {D S : Sp} {d s : St} (ctx : CopyCtx D S s) (hD : (spNames D).Nodup)
    (hS : (spNames S).Nodup) (hd : fits D d = true) (q sq : List Nat) (x : Sp) (hx : nodeAt D q = some x)
    (hsq : findSub (substateLocs S) x.name = some sq) :
    (csdNames D d S s ((commonSubspaces D S).map Sp.name)).1.sub q = s.sub sq := by
  obtain ⟨_, hfit, hcopied, _⟩ := csdNames_common_state ctx hd
  -- the source's node of that name is the same space
  obtain ⟨y, hy, hyn⟩ := findSub_node ctx.hSw hsq
  have hxy : x = y := ctx.coh x y ⟨q, hx⟩ ⟨sq, hy⟩ hyn.symm
  subst hxy
  -- some returned space covers it
  have hfound : nameFound D S x.name = true := by
    simp [nameFound, findSub_of_node ctx.hDw hD hx, hsq]
  obtain ⟨chain, node, _, hnode, hnn, r, hr, hcov⟩ := commonSubspaces_complete ctx.hDw hD x.name hfound
  have : node = x := IsNode.eq_of_name hD ⟨chain, hnode⟩ ⟨q, hx⟩ hnn
  subst this
  obtain ⟨dc, sc, _, _, hrD, hrS, hR⟩ := hcopied r hr
  exact sub_eq_of_covers hD hS hrD hrS _ s hfit ctx.fitS hR node q sq hx hy hcov

/-! ### non-vacuity -/

/-- the standing assumptions hold for a space copied onto itself -/
theorem CopyCtx.self {D : Sp} {s : St} (hDw : ∀ nm sp, D ≠ .wrapper nm sp) (hD : (spNames D).Nodup)
    (hs : fits D s = true) : CopyCtx D D s :=
  ⟨hDw, hDw, fun _ _ hx hy h => IsNode.eq_of_name hD hx hy h, hs⟩

/-- SE2-like destination and a source sharing the compound `N1 = [N2, N3]`: the components 2 and 3 are erased because
1 covers them, and 4 is not a key of the source's map -/
example : (commonSubspaces (.compound 0 [.compound 1 [.real 2 2, .so2 3], .so3 4])
    (.compound 9 [.compound 1 [.real 2 2, .so2 3], .real 7 1])).map Sp.name = [1] := by decide

/-- two common subspaces of equal dimension (`N2`, `N3`, both of dimension 1) are both returned -/
example : (commonSubspaces (.compound 0 [.so2 2, .time 3, .so3 4])
    (.compound 9 [.time 3, .so2 2])).map Sp.name = [3, 2] := by decide

/-- a compound with a single component and that component cover each other; exactly one of them is kept -/
example : (commonSubspaces (.compound 0 [.compound 1 [.real 2 1]])
    (.compound 9 [.compound 1 [.real 2 1]])).map Sp.name = [2] := by decide

end OmplModel.Copy
