import OmplModel.Model.GoalStates
/-! `GoalStates`: the sampling order and what `distanceGoal` can return.  Arithmetic-free. -/
namespace OmplModel.GoalStates

variable {S D : Type}

/-- after `k` calls from `samplePosition_ = pos` (with `pos ≤ size`, true initially and kept by every call) the `j`-th
state handed out is `states[(pos + j) % size]` -/
theorem sampleMany_spec (states : Array S) (dflt : S) (k : Nat) :
    ∀ pos, (sampleMany states dflt k pos).1.length = k ∧
      ∀ j (hj : j < (sampleMany states dflt k pos).1.length),
        (sampleMany states dflt k pos).1[j] = states.getD ((pos + j) % states.size) dflt := by
  induction k with
  | zero => intro pos; simp [sampleMany]
  | succ k ih =>
    intro pos
    obtain ⟨h1, h2⟩ := ih (pos % states.size + 1)
    simp only [sampleMany, sampleGoal, List.length_cons, h1, true_and]
    intro j hj
    cases j with
    | zero => rfl
    | succ j =>
      simp only [List.getElem_cons_succ]
      rw [h2 j (by rw [h1]; omega)]
      have : pos % states.size + 1 + j = pos % states.size + (j + 1) := by omega
      rw [this, Nat.mod_add_mod]

/-- **the `k`-th sample of a `GoalStates` whose counter started at 0 is `states[k % size]`** -/
theorem kth_eq_iterate (states : Array S) (dflt : S) (n k : Nat) (hk : k < n) :
    (sampleMany states dflt n 0).1[k]? = some (kth states dflt k) := by
  obtain ⟨h1, h2⟩ := sampleMany_spec states dflt n 0
  rw [List.getElem?_eq_getElem (by rw [h1]; exact hk), h2 k (by rw [h1]; exact hk)]
  simp [kth]

/-- every sample of a non-empty goal is one of its states -/
theorem kth_mem (states : Array S) (dflt : S) (k : Nat) (h : 0 < states.size) : kth states dflt k ∈ states := by
  have hlt : k % states.size < states.size := Nat.mod_lt _ h
  simp only [kth, Array.getD, dif_pos hlt]
  exact Array.getElem_mem hlt

/-- `distanceGoal` returns the initial `inf` or the distance to one of the goal states -/
theorem distanceGoal_mem (dist : S → S → D) (lt : D → D → Bool) (inf : D) (states : Array S) (st : S) :
    distanceGoal dist lt inf states st = inf ∨ ∃ s ∈ states, distanceGoal dist lt inf states st = dist st s := by
  unfold distanceGoal
  rw [← Array.foldl_toList]
  have key : ∀ (l : List S) (acc : D), (acc = inf ∨ ∃ s ∈ states, acc = dist st s) → (∀ s ∈ l, s ∈ states) →
      (l.foldl (fun acc s => if lt (dist st s) acc = true then dist st s else acc) acc = inf ∨
        ∃ s ∈ states, l.foldl (fun acc s => if lt (dist st s) acc = true then dist st s else acc) acc = dist st s) := by
    intro l
    induction l with
    | nil => intro acc h _; exact h
    | cons a r ih =>
      intro acc h hm
      simp only [List.foldl_cons]
      apply ih
      · split
        · exact Or.inr ⟨a, hm a (by simp), rfl⟩
        · exact h
      · intro s hs; exact hm s (List.mem_cons_of_mem _ hs)
  exact key states.toList inf (Or.inl rfl) (fun s hs => Array.mem_toList_iff.1 hs)

end OmplModel.GoalStates
