import OmplModel.Model.HeapPos
import OmplModel.Proofs.Heap
/-! `Element::position` stays equal to the element's index, and driving `remove`/`update` through it computes
exactly what the handle-search model of `Model/Heap.lean` computes.  Core Lean only. -/
namespace OmplModel.Heap
variable {κ : Type}

def Hdist (a : Array (Elem κ)) : Prop :=
  ∀ i j, (hi : i < a.size) → (hj : j < a.size) → a[i].h = a[j].h → i = j

theorem getD_setIfInBounds (p : Array Nat) (x v y : Nat) :
    (p.setIfInBounds x v).getD y 0 = if x = y ∧ x < p.size then v else p.getD y 0 := by
  simp only [Array.getD_eq_getD_getElem?, Array.getElem?_setIfInBounds]
  split <;> split <;> simp_all <;> omega

theorem swapP_sync (a : Array (Elem κ)) (pos : Array Nat) (i j : Nat) (hi : i < a.size) (hj : j < a.size)
    (S : PosSync a pos) (D : Hdist a) :
    PosSync (swapP a pos i j hi hj).1 (swapP a pos i j hi hj).2 ∧ Hdist (swapP a pos i j hi hj).1 ∧
      (swapP a pos i j hi hj).1 = a.swap i j hi hj ∧ (swapP a pos i j hi hj).2.size = pos.size := by
  unfold swapP
  refine ⟨?_, ?_, rfl, by simp⟩
  · intro k hk
    simp only [Array.size_swap] at hk
    simp only [Array.getElem_swap, Array.size_setIfInBounds, getD_setIfInBounds]
    have Si := S i hi
    have Sj := S j hj
    have Sk := S k hk
    have Dik := D i k hi hk
    have Djk := D j k hj hk
    have Dij := D i j hi hj
    grind
  · intro x y hx hy
    simp only [Array.size_swap] at hx hy
    simp only [Array.getElem_swap]
    have := D
    unfold Hdist at this
    grind

/-- what every position-tracking step preserves, and that its array is the search-model's array -/
structure Tracks (a : Array (Elem κ)) (pos : Array Nat) (r : Array (Elem κ) × Array Nat) (b : Array (Elem κ)) : Prop where
  arr : r.1 = b
  sync : PosSync r.1 r.2
  dist : Hdist r.1
  psize : r.2.size = pos.size

theorem siftUpP_tracks (lt : κ → κ → Bool) (a : Array (Elem κ)) (pos : Array Nat) (i : Nat)
    (S : PosSync a pos) (D : Hdist a) : Tracks a pos (siftUpP lt a pos i) (siftUp lt a i) := by
  fun_induction siftUpP lt a pos i with
  | case1 a pos i h hlt r hr ih =>
    obtain ⟨s1, s2, s3, s4⟩ := swapP_sync a pos i ((i - 1) / 2) h.2 (by omega) S D
    have := ih s1 s2
    conv => enter [4]; unfold siftUp
    simp only [h, and_self, ↓reduceDIte, hlt, ↓reduceIte]
    rw [← s3]
    exact ⟨this.arr, this.sync, this.dist, this.psize.trans s4⟩
  | case2 a pos i h hlt =>
    conv => enter [4]; unfold siftUp
    simp only [h, and_self, ↓reduceDIte, hlt, Bool.false_eq_true, ↓reduceIte]
    exact ⟨rfl, S, D, rfl⟩
  | case3 a pos i h =>
    conv => enter [4]; unfold siftUp
    simp only [h, ↓reduceDIte]
    exact ⟨rfl, S, D, rfl⟩

theorem siftDownP_tracks (lt : κ → κ → Bool) (a : Array (Elem κ)) (pos : Array Nat) (i : Nat)
    (S : PosSync a pos) (D : Hdist a) : Tracks a pos (siftDownP lt a pos i) (siftDown lt a i) := by
  fun_induction siftDownP lt a pos i with
  | case1 a pos i h hlr hlt r ih =>
    obtain ⟨s1, s2, s3, s4⟩ := swapP_sync a pos (2 * i + 1) i (by omega) (by omega) S D
    have := ih s1 s2
    conv => enter [4]; unfold siftDown
    simp only [h, ↓reduceDIte, hlr, hlt, ↓reduceIte]
    rw [← s3]
    exact ⟨this.arr, this.sync, this.dist, this.psize.trans s4⟩
  | case2 a pos i h hlr hlt =>
    conv => enter [4]; unfold siftDown
    simp only [h, ↓reduceDIte, hlr, hlt, Bool.false_eq_true, ↓reduceIte]
    exact ⟨rfl, S, D, rfl⟩
  | case3 a pos i h hlr hlt r ih =>
    obtain ⟨s1, s2, s3, s4⟩ := swapP_sync a pos (2 * i + 2) i (by omega) (by omega) S D
    have := ih s1 s2
    conv => enter [4]; unfold siftDown
    simp only [h, ↓reduceDIte, hlr, hlt, Bool.false_eq_true, ↓reduceIte]
    rw [← s3]
    exact ⟨this.arr, this.sync, this.dist, this.psize.trans s4⟩
  | case4 a pos i h hlr hlt =>
    conv => enter [4]; unfold siftDown
    simp only [h, ↓reduceDIte, hlr, hlt, Bool.false_eq_true, ↓reduceIte]
    exact ⟨rfl, S, D, rfl⟩
  | case5 a pos i h h2 hlt =>
    obtain ⟨s1, s2, s3, s4⟩ := swapP_sync a pos (2 * i + 1) i h2 (by omega) S D
    conv => enter [4]; unfold siftDown
    simp only [h, h2, ↓reduceDIte, hlt, ↓reduceIte]
    exact ⟨s3, s1, s2, s4⟩
  | case6 a pos i h h2 hlt =>
    conv => enter [4]; unfold siftDown
    simp only [h, h2, ↓reduceDIte, hlt, Bool.false_eq_true, ↓reduceIte]
    exact ⟨rfl, S, D, rfl⟩
  | case7 a pos i h h2 =>
    conv => enter [4]; unfold siftDown
    simp only [h, h2, ↓reduceDIte]
    exact ⟨rfl, S, D, rfl⟩

theorem pop_sync (a : Array (Elem κ)) (pos : Array Nat) (S : PosSync a pos) (D : Hdist a) :
    PosSync a.pop pos ∧ Hdist a.pop := by
  constructor
  · intro i hi
    simp only [Array.size_pop] at hi
    simpa [Array.getElem_pop] using S i (by omega)
  · intro i j hi hj h
    simp only [Array.size_pop] at hi hj
    simp only [Array.getElem_pop] at h
    exact D i j (by omega) (by omega) h

theorem removePosP_tracks (lt : κ → κ → Bool) (a : Array (Elem κ)) (pos : Array Nat) (p : Nat)
    (S : PosSync a pos) (D : Hdist a) : Tracks a pos (removePosP lt a pos p) (removePos lt a p) := by
  unfold removePosP removePos
  split
  · rename_i h
    obtain ⟨s1, s2, s3, s4⟩ := swapP_sync a pos p (a.size - 1) (by omega) (by omega) S D
    obtain ⟨p1, p2⟩ := pop_sync _ _ s1 s2
    have u := siftUpP_tracks lt _ _ p p1 p2
    have d := siftDownP_tracks lt _ _ p u.sync u.dist
    simp only
    refine ⟨?_, d.sync, d.dist, d.psize.trans (u.psize.trans s4)⟩
    rw [d.arr, u.arr, s3]
  · obtain ⟨p1, p2⟩ := pop_sync a pos S D
    exact ⟨rfl, p1, p2, rfl⟩

theorem findIdx_of_sync (a : Array (Elem κ)) (D : Hdist a) (i : Nat) (hi : i < a.size) :
    findIdx a a[i].h = some i := by
  unfold findIdx
  rw [Array.findIdx?_eq_some_iff_getElem]
  refine ⟨hi, by simp, ?_⟩
  intro j hj hp
  have := D j i (by omega) hi (by simpa using hp)
  omega

/-- the position-tracking heap and the search-based heap of `Model/Heap.lean` are in step -/
structure Rel (P : PHeap κ) (H : Heap κ) : Prop where
  arr : P.arr = H.arr
  next : P.next = H.next
  sync : PosSync P.arr P.pos
  dist : Hdist P.arr

theorem hdist_of_wf (H : Heap κ) (W : Wf H) : Hdist H.arr := by
  intro i j hi hj h
  exact handle_unique W i j hi hj h

theorem remove_rel (lt : κ → κ → Bool) (P : PHeap κ) (H : Heap κ) (R : Rel P H) (h : Nat)
    (hlive : ∃ i, ∃ hi : i < H.arr.size, H.arr[i].h = h) : Rel (P.remove lt h) (H.remove lt h) := by
  obtain ⟨i, hi, hh⟩ := hlive
  have hi' : i < P.arr.size := by rw [R.arr]; exact hi
  have hpos : P.pos.getD h 0 = i := by
    have := (R.sync i hi').2
    have e : P.arr[i].h = h := by simp only [R.arr]; exact hh
    rw [e] at this; exact this
  have hf : findIdx H.arr h = some i := by
    have := findIdx_of_sync H.arr (R.arr ▸ R.dist) i hi
    rw [hh] at this; exact this
  have t := removePosP_tracks lt P.arr P.pos i R.sync R.dist
  unfold PHeap.remove Heap.remove
  simp only [hpos, hf]
  exact ⟨by rw [t.arr, R.arr], R.next, t.sync, t.dist⟩

theorem pop_rel (lt : κ → κ → Bool) (P : PHeap κ) (H : Heap κ) (R : Rel P H) : Rel (P.pop lt) (H.pop lt) := by
  have t := removePosP_tracks lt P.arr P.pos 0 R.sync R.dist
  unfold PHeap.pop Heap.pop
  by_cases h0 : P.arr.size = 0
  · have h0' : H.arr.size = 0 := by rw [← R.arr]; exact h0
    simp only [h0, h0', ↓reduceIte]
    exact R
  · have h0' : ¬ H.arr.size = 0 := by rw [← R.arr]; exact h0
    simp only [h0, h0', ↓reduceIte]
    exact ⟨by show (removePosP lt P.arr P.pos 0).1 = removePos lt H.arr 0; rw [t.arr, R.arr], R.next, t.sync, t.dist⟩

theorem setKey_rel (lt : κ → κ → Bool) (P : PHeap κ) (H : Heap κ) (R : Rel P H) (h : Nat) (k : κ)
    (hlive : ∃ i, ∃ hi : i < H.arr.size, H.arr[i].h = h) : Rel (P.setKey lt h k) (H.setKey lt h k) := by
  obtain ⟨i, hi, hh⟩ := hlive
  have hi' : i < P.arr.size := by rw [R.arr]; exact hi
  have e : P.arr[i].h = h := by simp only [R.arr]; exact hh
  have hpos : P.pos.getD h 0 = i := by
    have := (R.sync i hi').2
    rw [e] at this; exact this
  have hf : findIdx H.arr h = some i := by
    have := findIdx_of_sync H.arr (R.arr ▸ R.dist) i hi
    rw [hh] at this; exact this
  -- the re-keyed array is still in sync: the element keeps its handle
  have S' : PosSync (P.arr.set i ⟨h, k⟩ hi') P.pos := by
    intro j hj
    simp only [Array.size_set] at hj
    simp only [Array.getElem_set]
    by_cases hij : i = j
    · subst hij; simp only [↓reduceIte]; have := R.sync i hi'; rw [e] at this; exact this
    · simp only [hij, ↓reduceIte]; exact R.sync j hj
  have D' : Hdist (P.arr.set i ⟨h, k⟩ hi') := by
    intro x y hx hy hxy
    simp only [Array.size_set] at hx hy
    simp only [Array.getElem_set] at hxy
    have := R.dist
    unfold Hdist at this
    grind
  have u := siftUpP_tracks lt _ _ i S' D'
  have d := siftDownP_tracks lt _ _ i u.sync u.dist
  unfold PHeap.setKey Heap.setKey
  simp only [hpos, hf, hi', hi, ↓reduceDIte]
  refine ⟨?_, R.next, d.sync, d.dist⟩
  show (siftDownP lt _ _ i).1 = _
  rw [d.arr, u.arr]
  simp only [R.arr]

theorem insert_rel (lt : κ → κ → Bool) (P : PHeap κ) (H : Heap κ) (R : Rel P H) (W : Wf H) (k : κ) :
    Rel (P.insert lt k) (H.insert lt k) := by
  have hb : ∀ i, (hi : i < P.arr.size) → P.arr[i].h < P.next := by
    intro i hi
    have := W.bound (H.arr[i]'(by rw [← R.arr]; exact hi)) (by simp)
    simp only [R.arr, R.next]; exact this
  -- the extended position table
  generalize hpos : ((if P.pos.size ≤ P.next then P.pos ++ Array.replicate (P.next + 1 - P.pos.size) 0 else P.pos).setIfInBounds
      P.next ((P.arr.push ⟨P.next, k⟩).size - 1)) = pos'
  have hsz : P.next < pos'.size := by
    rw [← hpos]; simp only [Array.size_setIfInBounds]; split
    · simp only [Array.size_append, Array.size_replicate]; omega
    · omega
  have hget : ∀ x, x < P.next → x < P.pos.size → pos'.getD x 0 = P.pos.getD x 0 := by
    intro x hx hx2
    rw [← hpos, getD_setIfInBounds]
    have hne : ¬ (P.next = x) := by omega
    simp only [hne, false_and, ↓reduceIte]
    by_cases hle : P.pos.size ≤ P.next
    · simp only [hle, ↓reduceIte]
      rw [Array.getD_eq_getD_getElem?, Array.getD_eq_getD_getElem?, Array.getElem?_append_left hx2]
    · simp only [hle, ↓reduceIte]
  have hnew : pos'.getD P.next 0 = P.arr.size := by
    rw [← hpos, getD_setIfInBounds]
    have : P.next = P.next ∧ P.next < (if P.pos.size ≤ P.next then P.pos ++ Array.replicate (P.next + 1 - P.pos.size) 0 else P.pos).size := by
      refine ⟨rfl, ?_⟩
      split
      · simp only [Array.size_append, Array.size_replicate]; omega
      · omega
    simp only [this, and_self, ↓reduceIte, Array.size_push]; omega
  have S' : PosSync (P.arr.push ⟨P.next, k⟩) pos' := by
    intro j hj
    simp only [Array.size_push] at hj
    simp only [Array.getElem_push]
    by_cases hjl : j < P.arr.size
    · simp only [hjl, ↓reduceDIte]
      have s := R.sync j hjl
      have b := hb j hjl
      exact ⟨by omega, by rw [hget _ b s.1]; exact s.2⟩
    · simp only [hjl, ↓reduceDIte]
      exact ⟨hsz, by rw [hnew]; omega⟩
  have D' : Hdist (P.arr.push ⟨P.next, k⟩) := by
    intro x y hx hy hxy
    simp only [Array.size_push] at hx hy
    simp only [Array.getElem_push] at hxy
    have := R.dist
    unfold Hdist at this
    have bx := hb x
    have by' := hb y
    grind
  have u := siftUpP_tracks lt _ pos' ((P.arr.push ⟨P.next, k⟩).size - 1) S' D'
  unfold PHeap.insert Heap.insert
  simp only [hpos]
  refine ⟨?_, by simp [R.next], u.sync, u.dist⟩
  show (siftUpP lt _ _ _).1 = _
  rw [u.arr]
  simp only [R.arr, R.next]

/-- the handle-addressed part of the API, driven through the position field -/
def PHeap.step (lt : κ → κ → Bool) (P : PHeap κ) : Op κ → PHeap κ
  | .insert k => P.insert lt k
  | .remove h => P.remove lt h
  | .setKey h k => P.setKey lt h k
  | .pop => P.pop lt
  | _ => P

def PHeap.run (lt : κ → κ → Bool) (P : PHeap κ) (ops : List (Op κ)) : PHeap κ := ops.foldl (PHeap.step lt) P

/-- the API contract: `remove`/`update` are only called with handles of live elements (and this file
covers insert / remove / update / pop) -/
def LiveRun (lt : κ → κ → Bool) : Heap κ → List (Op κ) → Prop
  | _, [] => True
  | H, op :: rest =>
    (match op with
      | .remove h => ∃ i, ∃ hi : i < H.arr.size, H.arr[i].h = h
      | .setKey h _ => ∃ i, ∃ hi : i < H.arr.size, H.arr[i].h = h
      | .insert _ => True
      | .pop => True
      | _ => False) ∧ LiveRun lt (H.step lt op) rest

theorem run_rel (lt : κ → κ → Bool) (ops : List (Op κ)) (P : PHeap κ) (H : Heap κ) (R : Rel P H) (W : Wf H)
    (L : LiveRun lt H ops) : Rel (P.run lt ops) (H.run lt ops) := by
  induction ops generalizing P H with
  | nil => exact R
  | cons op rest ih =>
    obtain ⟨l1, l2⟩ := L
    have W' := step_wf lt H op W
    unfold PHeap.run Heap.run
    simp only [List.foldl_cons]
    refine ih _ _ ?_ W' l2
    cases op with
    | insert k => exact insert_rel lt P H R W k
    | remove h => exact remove_rel lt P H R h l1
    | setKey h k => exact setKey_rel lt P H R h k l1
    | pop => exact pop_rel lt P H R
    | insertMany ks => exact absurd l1 (by simp)
    | pokeRebuild c => exact absurd l1 (by simp)
    | buildFrom ks => exact absurd l1 (by simp)
    | sort ks => exact absurd l1 (by simp)
    | clear => exact absurd l1 (by simp)

theorem empty_rel : Rel ({} : PHeap κ) (Heap.empty : Heap κ) :=
  ⟨rfl, rfl, fun i hi => absurd hi (Nat.not_lt_zero _), fun i j hi _ _ => absurd hi (Nat.not_lt_zero _)⟩
end OmplModel.Heap
