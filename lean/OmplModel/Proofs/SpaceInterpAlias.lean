import OmplModel.Model.SpaceInterp
/-!
C07, aliasing micro-model (core Lean only): soundness of the syntactic check.  If a body is `safe`
(no input field is read after the same-named output field was written, and an output field is only
read back after it was written), then running it with the output aliased to `from` (mode 1) or to
`to` (mode 2) writes exactly the values of the un-aliased run (mode 0): `modesAgree`.
-/
namespace OmplModel.SpaceInterp.Alias

/-- the cell of the aliased input that an unwritten output field still holds in mode `k` (1 | 2) -/
def cell (k f : Nat) : Val := if k = 1 then [(0, f)] else [(1, f)]

/-- the invariant relating the un-aliased memory `m0` and the mode-`k` memory `mk`, with `W` the
fields written so far -/
structure Rel (k : Nat) (W : List Nat) (m0 mk : Mem) : Prop where
  frm0 : ∀ f, m0.frm f = [(0, f)]
  frmk : ∀ f, mk.frm f = [(0, f)]
  to0 : ∀ f, m0.to f = [(1, f)]
  tok : ∀ f, mk.to f = [(1, f)]
  written : ∀ f, f ∈ W → m0.out f = mk.out f
  unwritten : ∀ f, f ∉ W → mk.out f = cell k f

theorem exec_agree (k : Nat) (hk : k = 1 ∨ k = 2) (rest : List Acc) :
    ∀ (W : List Nat) (m0 mk : Mem) (seen : Val), safeAux W rest = true → Rel k W m0 mk →
      ∀ f, (f ∈ W ∨ f ∈ writes rest) → (exec 0 m0 seen rest).out f = (exec k mk seen rest).out f := by
  induction rest with
  | nil =>
    intro W m0 mk seen _ hR f hf
    simp only [exec]
    rcases hf with hf | hf
    · exact hR.written f hf
    · simp [writes] at hf
  | cons acc rest ih =>
    intro W m0 mk seen hs hR f hf
    cases acc with
    | wr g =>
      simp only [safeAux] at hs
      simp only [exec]
      apply ih (g :: W) _ _ seen hs
      · exact {
          frm0 := hR.frm0, frmk := hR.frmk, to0 := hR.to0, tok := hR.tok
          written := by
            intro x hx
            by_cases hxg : x = g
            · simp [hxg]
            · have : x ∈ W := by simpa [hxg] using hx
              simp [hxg, hR.written x this]
          unwritten := by
            intro x hx
            have hxg : x ≠ g := fun h => hx (by simp [h])
            have hxW : x ∉ W := fun h => hx (by simp [h])
            simp [hxg, hR.unwritten x hxW] }
      · rcases hf with hf | hf
        · exact Or.inl (by simp [hf])
        · simp only [writes, List.mem_cons] at hf
          rcases hf with hf | hf
          · exact Or.inl (by simp [hf])
          · exact Or.inr hf
    | rd src g =>
      have hread : m0.read 0 src g = mk.read k src g := by
        cases src with
        | out =>
          simp only [safeAux, Bool.and_eq_true, List.contains_eq_mem, decide_eq_true_eq] at hs
          simp only [Mem.read]
          exact hR.written g hs.1
        | «from» =>
          simp only [safeAux, Bool.and_eq_true, Bool.not_eq_true', List.contains_eq_mem,
            decide_eq_false_iff_not] at hs
          simp only [Mem.read]
          rcases hk with hk | hk
          · subst hk
            simp [hR.frm0, hR.unwritten g hs.1, cell]
          · subst hk
            simp [hR.frm0, hR.frmk]
        | to =>
          simp only [safeAux, Bool.and_eq_true, Bool.not_eq_true', List.contains_eq_mem,
            decide_eq_false_iff_not] at hs
          simp only [Mem.read]
          rcases hk with hk | hk
          · subst hk
            simp [hR.to0, hR.tok]
          · subst hk
            simp [hR.to0, hR.unwritten g hs.1, cell]
      have hs' : safeAux W rest = true := by
        cases src <;> simp only [safeAux, Bool.and_eq_true] at hs <;> exact hs.2
      simp only [exec, hread]
      apply ih W m0 mk _ hs' hR
      rcases hf with hf | hf
      · exact Or.inl hf
      · exact Or.inr (by simpa [writes] using hf)

theorem rel_init (k : Nat) (hk : k = 1 ∨ k = 2) : Rel k [] (initMem 0) (initMem k) := by
  refine ⟨fun _ => rfl, fun _ => rfl, fun _ => rfl, fun _ => rfl, fun f hf => by simp at hf, ?_⟩
  intro f _
  rcases hk with hk | hk <;> subst hk <;> simp [initMem, cell]

theorem run_eq (k : Nat) (hk : k = 1 ∨ k = 2) (body : List Acc) (h : safe body = true) :
    run 0 body = run k body := by
  unfold run
  simp only []
  apply List.map_congr_left
  intro f hf
  exact exec_agree k hk body [] _ _ [] h (rel_init k hk) f (Or.inr hf)

/-- soundness of the syntactic aliasing check: a `safe` body writes the same values in all three
alias modes -/
theorem safe_modesAgree (body : List Acc) (h : safe body = true) : modesAgree body = true := by
  unfold modesAgree
  rw [← run_eq 1 (Or.inl rfl) body h, ← run_eq 2 (Or.inr rfl) body h]
  simp

end OmplModel.SpaceInterp.Alias
