import OmplModel.Model.Control
/-! Helper lemmas for `Model/Control.lean` (propagateWhileValid, sampleTo, interpolate, check).
Core Lean only; arithmetic-free (`S`, `U` arbitrary types). -/
namespace OmplModel.Control
variable {S U : Type}

/-! ## pwv / pwvLoop -/

theorem pwv_eq_loop (step : S → U → S) (valid : S → Bool) (s : S) (u : U) (n : Nat) :
    pwv step valid s u n = pwvLoop step valid u n 0 s := by
  cases n with
  | zero => rfl
  | succ n =>
    simp only [pwv, pwvLoop]

/-- the loop started at `propagate s u i` -/
theorem pwvLoop_spec (step : S → U → S) (valid : S → Bool) (s : S) (u : U) :
    ∀ fuel i,
      (pwvLoop step valid u fuel i (propagate step s u i)).2 =
          propagate step s u (pwvLoop step valid u fuel i (propagate step s u i)).1 ∧
      i ≤ (pwvLoop step valid u fuel i (propagate step s u i)).1 ∧
      (pwvLoop step valid u fuel i (propagate step s u i)).1 ≤ i + fuel ∧
      (∀ j, i < j → j ≤ (pwvLoop step valid u fuel i (propagate step s u i)).1 →
          valid (propagate step s u j) = true) ∧
      ((pwvLoop step valid u fuel i (propagate step s u i)).1 < i + fuel →
          valid (propagate step s u ((pwvLoop step valid u fuel i (propagate step s u i)).1 + 1)) = false) := by
  intro fuel
  induction fuel with
  | zero =>
    intro i
    simp only [pwvLoop]
    refine ⟨trivial, Nat.le_refl _, Nat.le_refl _, ?_, ?_⟩
    · intro j h1 h2; omega
    · intro h; omega
  | succ fuel ih =>
    intro i
    simp only [pwvLoop]
    by_cases hv : valid (step (propagate step s u i) u) = true
    · rw [if_pos hv]
      have h := ih (i + 1)
      simp only [propagate] at h
      obtain ⟨h1, h2, h3, h4, h5⟩ := h
      refine ⟨h1, by omega, by omega, ?_, ?_⟩
      · intro j hj1 hj2
        by_cases hj : j = i + 1
        · subst hj; exact hv
        · exact h4 j (by omega) hj2
      · intro h; exact h5 (by omega)
    · rw [if_neg hv]
      refine ⟨rfl, Nat.le_refl _, by omega, ?_, ?_⟩
      · intro j h1 h2; omega
      · intro _; simpa [propagate] using hv

theorem pwv_spec' (step : S → U → S) (valid : S → Bool) (s : S) (u : U) (steps : Nat) :
    (pwv step valid s u steps).2 = propagate step s u (pwv step valid s u steps).1 ∧
    (∀ i, 1 ≤ i → i ≤ (pwv step valid s u steps).1 → valid (propagate step s u i) = true) ∧
    ((pwv step valid s u steps).1 < steps →
        valid (propagate step s u ((pwv step valid s u steps).1 + 1)) = false) ∧
    (pwv step valid s u steps).1 ≤ steps := by
  rw [pwv_eq_loop]
  have h := pwvLoop_spec step valid s u steps 0
  simp only [propagate, Nat.zero_add] at h
  obtain ⟨h1, _, h3, h4, h5⟩ := h
  exact ⟨h1, fun i hi => h4 i (by omega), h5, h3⟩

/-! ## pwvVec, alloc -/

/-- the states `propagate s u (i+1)` for `i ∈ [a, a+n)` as written slots -/
def slots (step : S → U → S) (s : S) (u : U) (a n : Nat) : List (Option S) :=
  (List.range' a n).map (fun i => some (propagate step s u (i + 1)))

theorem resize_length (l : List (Option S)) (n : Nat) : (resize l n).length = n := by
  simp only [resize, List.length_append, List.length_take, List.length_replicate]; omega

theorem resize_prefix (pre rest : List (Option S)) : resize (pre ++ rest) pre.length = pre := by
  simp [resize]

theorem pwvVecLoop_alloc (step : S → U → S) (valid : S → Bool) (s : S) (u : U) :
    ∀ fuel st (pre rest : List (Option S)), pre.length = st → rest.length = fuel →
      pwvVecLoop step valid u true fuel st (propagate step s u st) (pre ++ rest) =
        ((pwvLoop step valid u fuel st (propagate step s u st)).1,
          pre ++ slots step s u st ((pwvLoop step valid u fuel st (propagate step s u st)).1 - st)) := by
  intro fuel
  induction fuel with
  | zero =>
    intro st pre rest hp hr
    have : rest = [] := List.eq_nil_of_length_eq_zero hr
    subst this
    simp [pwvVecLoop, pwvLoop, slots]
  | succ fuel ih =>
    intro st pre rest hp hr
    match rest, hr with
    | x :: rest', hr =>
      have hr' : rest'.length = fuel := by simpa using hr
      have hset : (pre ++ x :: rest').set st (some (step (propagate step s u st) u)) =
          (pre ++ [some (step (propagate step s u st) u)]) ++ rest' := by
        subst hp; simp
      simp only [pwvVecLoop, pwvLoop]
      by_cases hv : valid (step (propagate step s u st) u) = true
      · rw [if_pos hv, if_pos hv, hset]
        have h := ih (st + 1) (pre ++ [some (step (propagate step s u st) u)]) rest'
          (by simp [hp]) hr'
        simp only [propagate] at h
        rw [h]
        have hle := (pwvLoop_spec step valid s u fuel (st + 1)).2.1
        simp only [propagate] at hle
        generalize (pwvLoop step valid u fuel (st + 1) (step (propagate step s u st) u)).1 = r at hle ⊢
        have : r - st = (r - (st + 1)) + 1 := by omega
        rw [this]
        simp [slots, List.range'_succ, propagate]
      · rw [if_neg hv, if_neg hv, hset]
        simp only [if_true, Nat.sub_self]
        have : resize (pre ++ [some (step (propagate step s u st) u)] ++ rest') st = pre := by
          rw [List.append_assoc, ← hp]; exact resize_prefix _ _
        rw [this]; simp [slots]

theorem pwvVec_alloc (step : S → U → S) (valid : S → Bool) (s : S) (u : U) (steps : Nat)
    (result : List (Option S)) :
    pwvVec step valid s u steps result true =
      ((pwv step valid s u steps).1,
        (List.range (pwv step valid s u steps).1).map (fun i => some (propagate step s u (i + 1)))) := by
  have h := pwvVecLoop_alloc step valid s u steps 0 [] (resize result steps) rfl (resize_length _ _)
  rw [show propagate step s u 0 = s from rfl] at h
  simp only [List.nil_append, Nat.sub_zero, slots] at h
  simp only [pwvVec, if_true, h, pwv_eq_loop, List.range_eq_range']

theorem someStates_map_some {α : Type} (f : α → S) (l : List α) :
    someStates (l.map (fun i => some (f i))) = l.map f := by
  induction l with
  | nil => rfl
  | cons a l ih => simp [someStates]

/-! ## pwvVec, no alloc -/

theorem pwvVecLoop_noalloc (step : S → U → S) (valid : S → Bool) (s : S) (u : U) :
    ∀ fuel st (res : List (Option S)), st + fuel ≤ res.length →
      (pwvVecLoop step valid u false fuel st (propagate step s u st) res).1 =
          (pwvLoop step valid u fuel st (propagate step s u st)).1 ∧
      (pwvVecLoop step valid u false fuel st (propagate step s u st) res).2.length = res.length ∧
      (∀ i, i < st → (pwvVecLoop step valid u false fuel st (propagate step s u st) res).2[i]? = res[i]?) ∧
      (∀ i, st ≤ i → i < (pwvLoop step valid u fuel st (propagate step s u st)).1 →
          (pwvVecLoop step valid u false fuel st (propagate step s u st) res).2[i]? =
            some (some (propagate step s u (i + 1)))) ∧
      ((pwvLoop step valid u fuel st (propagate step s u st)).1 < st + fuel →
          (pwvVecLoop step valid u false fuel st (propagate step s u st) res).2[
              (pwvLoop step valid u fuel st (propagate step s u st)).1]? =
            some (some (propagate step s u ((pwvLoop step valid u fuel st (propagate step s u st)).1 + 1)))) ∧
      (∀ i, ((pwvLoop step valid u fuel st (propagate step s u st)).1 < i ∨
            (i = (pwvLoop step valid u fuel st (propagate step s u st)).1 ∧
              (pwvLoop step valid u fuel st (propagate step s u st)).1 = st + fuel)) →
          (pwvVecLoop step valid u false fuel st (propagate step s u st) res).2[i]? = res[i]?) := by
  intro fuel
  induction fuel with
  | zero =>
    intro st res _
    simp only [pwvVecLoop, pwvLoop]
    refine ⟨trivial, trivial, fun _ _ => trivial, ?_, ?_, fun _ _ => trivial⟩
    · intro i h1 h2; omega
    · intro h; omega
  | succ fuel ih =>
    intro st res hlen
    simp only [pwvVecLoop, pwvLoop]
    by_cases hv : valid (step (propagate step s u st) u) = true
    · rw [if_pos hv, if_pos hv]
      have h := ih (st + 1) (res.set st (some (step (propagate step s u st) u)))
        (by simp only [List.length_set]; omega)
      have hle := (pwvLoop_spec step valid s u fuel (st + 1)).2.1
      simp only [propagate] at h hle
      generalize (pwvLoop step valid u fuel (st + 1) (step (propagate step s u st) u)).1 = r at h hle ⊢
      generalize (pwvVecLoop step valid u false fuel (st + 1) (step (propagate step s u st) u)
        (res.set st (some (step (propagate step s u st) u)))) = out at h ⊢
      obtain ⟨h1, h2, h3, h4, h5, h6⟩ := h
      simp only [List.length_set] at h2
      refine ⟨h1, h2, ?_, ?_, ?_, ?_⟩
      · intro i hi
        rw [h3 i (by omega), List.getElem?_set_ne (by omega)]
      · intro i hi1 hi2
        by_cases hi : i = st
        · subst hi
          rw [h3 i (by omega), List.getElem?_set_self (by omega)]
          rfl
        · exact h4 i (by omega) hi2
      · intro hr; exact h5 (by omega)
      · intro i hi
        rw [h6 i (by omega), List.getElem?_set_ne (by omega)]
    · rw [if_neg hv, if_neg hv]
      simp only [Bool.false_eq_true, if_false, List.length_set]
      refine ⟨trivial, trivial, ?_, ?_, ?_, ?_⟩
      · intro i hi; rw [List.getElem?_set_ne (by omega)]
      · intro i h1 h2; omega
      · intro _; rw [List.getElem?_set_self (by omega)]; rfl
      · intro i hi; rw [List.getElem?_set_ne (by omega)]

/-! ## sampleTo -/

/-- what `sampleTo` guarantees about its answer -/
def SampleOK (step : S → U → S) (valid : S → Bool) (src : S) (draws : List (U × Nat))
    (x : U × Nat × S) : Prop :=
  x.2.2 = propagate step src x.1 x.2.1 ∧
    (∀ i, 1 ≤ i → i ≤ x.2.1 → valid (propagate step src x.1 i) = true) ∧
    ∃ k, (x.1, k) ∈ draws ∧ x.2.1 ≤ k

theorem sampleOK_pwv (step : S → U → S) (valid : S → Bool) (src : S) (draws : List (U × Nat))
    (u : U) (k : Nat) (h : (u, k) ∈ draws) :
    SampleOK step valid src draws (u, (pwv step valid src u k).1, (pwv step valid src u k).2) := by
  obtain ⟨h1, h2, _, h4⟩ := pwv_spec' step valid src u k
  exact ⟨h1, h2, k, h, h4⟩

theorem bestLoop_ok {δ : Type} (step : S → U → S) (valid : S → Bool) (dist : S → S → δ)
    (lt : δ → δ → Bool) (src dest : S) (draws : List (U × Nat)) :
    ∀ (rest : List (U × Nat)) (best : U × Nat × S) (bestD : δ),
      (∀ x ∈ rest, x ∈ draws) → SampleOK step valid src draws best →
      SampleOK step valid src draws (bestLoop step valid dist lt src dest rest best bestD) := by
  intro rest
  induction rest with
  | nil => intro best bestD _ hb; exact hb
  | cons x rest ih =>
    intro best bestD hsub hb
    obtain ⟨u, k⟩ := x
    simp only [bestLoop]
    have hsub' : ∀ x ∈ rest, x ∈ draws := fun x hx => hsub x (List.mem_cons_of_mem _ hx)
    split
    · exact ih _ _ hsub' (sampleOK_pwv step valid src draws u k (hsub _ (List.mem_cons_self ..)))
    · exact ih _ _ hsub' hb

theorem sampleTo_ok {δ : Type} (step : S → U → S) (valid : S → Bool) (dist : S → S → δ)
    (lt : δ → δ → Bool) (src dest : S) (draws : List (U × Nat)) (x : U × Nat × S)
    (h : sampleTo step valid dist lt src dest draws = some x) :
    SampleOK step valid src draws x := by
  match draws, h with
  | (u0, k0) :: rest, h =>
    have h0 := sampleOK_pwv step valid src ((u0, k0) :: rest) u0 k0 (List.mem_cons_self ..)
    cases rest with
    | nil =>
      simp only [sampleTo] at h
      exact Option.some.inj h ▸ h0
    | cons y rest =>
      simp only [sampleTo] at h
      rw [← Option.some.inj h]
      exact bestLoop_ok step valid dist lt src dest _ _ _ _
        (fun x hx => List.mem_cons_of_mem _ hx) h0

theorem sampleTo_none_iff {δ : Type} (step : S → U → S) (valid : S → Bool) (dist : S → S → δ)
    (lt : δ → δ → Bool) (src dest : S) (draws : List (U × Nat)) :
    sampleTo step valid dist lt src dest draws = none ↔ draws = [] := by
  cases draws with
  | nil => simp [sampleTo]
  | cons x rest =>
    obtain ⟨u0, k0⟩ := x
    cases rest <;> simp [sampleTo]

/-! ## paths as a start state plus a list of segments -/

/-- the path with first state `s0` and segments `sl` -/
def ofSegs (s0 : S) (sl : List (U × Nat × S)) : Path S U :=
  { states := s0 :: sl.map (·.2.2), controls := sl.map (·.1), steps := sl.map (·.2.1) }

/-- the state a segment list ends in -/
def endState (s0 : S) : List (U × Nat × S) → S
  | [] => s0
  | (_, _, s') :: rest => endState s' rest

theorem segs_map (sl : List (U × Nat × S)) :
    segs (sl.map (·.2.2)) (sl.map (·.1)) (sl.map (·.2.1)) = sl := by
  induction sl with
  | nil => rfl
  | cons x sl ih =>
    obtain ⟨u, k, s'⟩ := x
    simp only [List.map_cons, segs, ih]

/-- a well-formed path is `ofSegs` of its `segs` -/
theorem maps_segs : ∀ (rest : List S) (us : List U) (ks : List Nat),
    rest.length = us.length → ks.length = us.length →
    (segs rest us ks).map (·.2.2) = rest ∧ (segs rest us ks).map (·.1) = us ∧
      (segs rest us ks).map (·.2.1) = ks := by
  intro rest
  induction rest with
  | nil =>
    intro us ks h1 h2
    cases us with
    | nil =>
      cases ks with
      | nil => exact ⟨rfl, rfl, rfl⟩
      | cons _ _ => simp at h2
    | cons _ _ => simp at h1
  | cons s' rest ih =>
    intro us ks h1 h2
    cases us with
    | nil => simp at h1
    | cons u us =>
      cases ks with
      | nil => simp at h2
      | cons k ks =>
        obtain ⟨a, b, c⟩ := ih us ks (by simpa using h1) (by simpa using h2)
        simp only [segs, List.map_cons, a, b, c, and_self]

theorem endState_append (s : S) (l1 l2 : List (U × Nat × S)) :
    endState s (l1 ++ l2) = endState (endState s l1) l2 := by
  induction l1 generalizing s with
  | nil => rfl
  | cons x l1 ih =>
    obtain ⟨u, k, s'⟩ := x
    simp only [List.cons_append, endState, ih]

theorem replayOK_append (step : S → U → S) (valid : S → Bool) (s : S) (l1 l2 : List (U × Nat × S)) :
    ReplayOK step valid s (l1 ++ l2) ↔
      ReplayOK step valid s l1 ∧ ReplayOK step valid (endState s l1) l2 := by
  induction l1 generalizing s with
  | nil => simp [ReplayOK, endState]
  | cons x l1 ih =>
    obtain ⟨u, k, s'⟩ := x
    simp only [List.cons_append, ReplayOK, endState, ih, and_assoc]

theorem getLast?_states (s0 : S) (sl : List (U × Nat × S)) :
    (s0 :: sl.map (·.2.2)).getLast? = some (endState s0 sl) := by
  induction sl generalizing s0 with
  | nil => rfl
  | cons x sl ih =>
    obtain ⟨u, k, s'⟩ := x
    simp only [List.map_cons, List.getLast?_cons_cons, endState]
    exact ih s'

/-! ## propagate (vector, alloc) and interpolate -/

theorem propagateVecLoop_alloc (step : S → U → S) (s : S) (u : U) :
    ∀ fuel st (pre rest : List (Option S)), pre.length = st → rest.length = fuel →
      propagateVecLoop step u fuel st (propagate step s u st) (pre ++ rest) =
        pre ++ slots step s u st fuel := by
  intro fuel
  induction fuel with
  | zero =>
    intro st pre rest _ hr
    have : rest = [] := List.eq_nil_of_length_eq_zero hr
    subst this
    simp [propagateVecLoop, slots]
  | succ fuel ih =>
    intro st pre rest hp hr
    match rest, hr with
    | x :: rest', hr =>
      have hr' : rest'.length = fuel := by simpa using hr
      have hset : (pre ++ x :: rest').set st (some (step (propagate step s u st) u)) =
          (pre ++ [some (step (propagate step s u st) u)]) ++ rest' := by
        subst hp; simp
      simp only [propagateVecLoop]
      rw [hset]
      have h := ih (st + 1) (pre ++ [some (step (propagate step s u st) u)]) rest'
        (by simp [hp]) hr'
      rw [show propagate step s u (st + 1) = step (propagate step s u st) u from rfl] at h
      rw [h]
      simp [slots, List.range'_succ, propagate]

theorem propagateVec_alloc (step : S → U → S) (s : S) (u : U) (k : Nat) :
    propagateVec step s u k [] true =
      (List.range k).map (fun i => some (propagate step s u (i + 1))) := by
  have h := propagateVecLoop_alloc step s u k 0 [] ((resize ([] : List (Option S)) k).map (fun _ => none))
    rfl (by rw [List.length_map, resize_length])
  rw [show propagate step s u 0 = s from rfl] at h
  simp only [List.nil_append, slots] at h
  simp only [propagateVec, if_true, h, List.range_eq_range']

theorem replayOK_unroll (step : S → U → S) (valid : S → Bool) (s : S) (u : U)
    (tl : List (U × Nat × S)) :
    ∀ n a, (∀ i, a < i → i ≤ a + n → valid (propagate step s u i) = true) →
      ReplayOK step valid (propagate step s u (a + n)) tl →
      ReplayOK step valid (propagate step s u a)
        ((List.range' a n).map (fun i => (u, 1, propagate step s u (i + 1))) ++ tl) := by
  intro n
  induction n with
  | zero => intro a _ h; simpa using h
  | succ n ih =>
    intro a hv h
    simp only [List.range'_succ, List.map_cons, List.cons_append, ReplayOK]
    refine ⟨rfl, ?_, ?_⟩
    · intro i h1 h2
      have : i = 1 := by omega
      subst this
      exact hv (a + 1) (by omega) (by omega)
    · refine ih (a + 1) (fun i h1 h2 => hv i (by omega) (by omega)) ?_
      have : a + 1 + n = a + (n + 1) := by omega
      rw [this]; exact h

theorem endState_unroll (step : S → U → S) (s : S) (u : U) :
    ∀ n a, endState (propagate step s u a)
        ((List.range' a n).map (fun i => (u, 1, propagate step s u (i + 1)))) =
      propagate step s u (a + n) := by
  intro n
  induction n with
  | zero => intro a; rfl
  | succ n ih =>
    intro a
    simp only [List.range'_succ, List.map_cons, endState]
    rw [ih (a + 1)]
    have : a + 1 + n = a + (n + 1) := by omega
    rw [this]

theorem sum_replicate_one (n : Nat) : (List.replicate n 1).sum = n := by
  induction n with
  | zero => rfl
  | succ n ih => simp [List.replicate_succ, ih]; omega

theorem map_const_range' {α : Type} (x : α) : ∀ n a, (List.range' a n).map (fun _ => x) = List.replicate n x := by
  intro n
  induction n with
  | zero => intro a; rfl
  | succ n ih => intro a; simp only [List.range'_succ, List.map_cons, List.replicate_succ, ih]

theorem drop_states (sl : List (U × Nat × S)) (s0 : S) :
    (s0 :: sl.map (·.2.2)).drop sl.length = [endState s0 sl] := by
  induction sl generalizing s0 with
  | nil => rfl
  | cons x sl ih =>
    obtain ⟨u, k, s'⟩ := x
    simp only [List.map_cons, List.length_cons, List.drop_succ_cons, endState]
    exact ih s'

theorem interpLoop_spec (step : S → U → S) (valid : S → Bool) :
    ∀ (sl : List (U × Nat × S)) (s0 : S), ReplayOK step valid s0 sl →
      ∃ (sl' : List (U × Nat × S)) (rs : List S),
        interpLoop step (s0 :: sl.map (·.2.2)) (sl.map (·.1)) (sl.map (·.2.1)) =
          (rs, sl'.map (·.1), sl'.map (·.2.1)) ∧
        rs ++ [endState s0 sl] = s0 :: sl'.map (·.2.2) ∧
        ReplayOK step valid s0 sl' ∧ endState s0 sl' = endState s0 sl ∧
        (∀ x ∈ sl', x.2.1 ≤ 1) ∧ (sl'.map (·.2.1)).sum = (sl.map (·.2.1)).sum ∧
        (∀ x ∈ sl', x.1 ∈ sl.map (·.1)) ∧
        sl'.length = (sl.map (fun x => max 1 x.2.1)).sum := by
  intro sl
  induction sl with
  | nil =>
    intro s0 _
    exact ⟨[], [], by simp [interpLoop], rfl, trivial, rfl, by simp, rfl, by simp, rfl⟩
  | cons x tl ih =>
    intro s0 h
    obtain ⟨u, k, s'⟩ := x
    obtain ⟨hs', hval, htl⟩ := h
    obtain ⟨sl', rs, e1, e2, e3, e4, e5, e6, e7, e8⟩ := ih s' htl
    by_cases hk : k ≤ 1
    · refine ⟨(u, k, s') :: sl', s0 :: rs, ?_, ?_, ⟨hs', hval, e3⟩, ?_, ?_, ?_, ?_, ?_⟩
      · simp only [List.map_cons, interpLoop, e1, if_pos hk]
      · simp only [List.cons_append, endState, e2, List.map_cons]
      · simp only [endState, e4]
      · intro x hx
        rcases List.mem_cons.mp hx with hx | hx
        · subst hx; exact hk
        · exact e5 x hx
      · simp only [List.map_cons, List.sum_cons, e6]
      · intro x hx
        rcases List.mem_cons.mp hx with hx | hx
        · subst hx; exact List.mem_cons_self ..
        · exact List.mem_cons_of_mem _ (e7 x hx)
      · simp only [List.length_cons, List.map_cons, List.sum_cons, e8]; omega
    · obtain ⟨k', rfl⟩ : ∃ k', k = k' + 1 := ⟨k - 1, by omega⟩
      refine ⟨(List.range' 0 (k' + 1)).map (fun i => (u, 1, propagate step s0 u (i + 1))) ++ sl',
        s0 :: ((List.range k').map (fun i => propagate step s0 u (i + 1)) ++ rs), ?_, ?_, ?_, ?_, ?_, ?_, ?_, ?_⟩
      · have hA : (someStates (propagateVec step s0 u (k' + 1) [] true)).dropLast =
            (List.range k').map (fun i => propagate step s0 u (i + 1)) := by
          rw [propagateVec_alloc, someStates_map_some, List.range_succ, List.map_append]
          exact List.dropLast_concat
        have hB : ((List.range' 0 (k' + 1)).map (fun i => ((u, 1, propagate step s0 u (i + 1)) : U × Nat × S)) ++ sl').map (·.1) =
            List.replicate (k' + 1) u ++ sl'.map (·.1) := by
          rw [List.map_append, List.map_map]
          exact congrArg (· ++ _) (map_const_range' u (k' + 1) 0)
        have hC : ((List.range' 0 (k' + 1)).map (fun i => ((u, 1, propagate step s0 u (i + 1)) : U × Nat × S)) ++ sl').map (·.2.1) =
            List.replicate (k' + 1) 1 ++ sl'.map (·.2.1) := by
          rw [List.map_append, List.map_map]
          exact congrArg (· ++ _) (map_const_range' 1 (k' + 1) 0)
        rw [hB, hC]
        simp only [List.map_cons, interpLoop, e1, if_neg hk, hA, List.cons_append]
      · simp only [List.cons_append, endState, List.append_assoc, e2, List.map_append, List.map_map,
          ← List.range_eq_range', List.range_succ, List.map_cons, List.map_nil, Function.comp_def]
        rw [← hs']
        simp
      · have := replayOK_unroll step valid s0 u sl' (k' + 1) 0
          (fun i h1 h2 => hval i (by omega) (by omega)) (by
            rw [Nat.zero_add, hs']; exact e3)
        exact this
      · rw [endState_append]
        have := endState_unroll step s0 u (k' + 1) 0
        rw [show propagate step s0 u 0 = s0 from rfl] at this
        rw [this, Nat.zero_add, hs']
        simp only [endState, e4]
      · intro x hx
        rcases List.mem_append.mp hx with hx | hx
        · obtain ⟨i, _, rfl⟩ := List.mem_map.mp hx
          exact Nat.le_refl _
        · exact e5 x hx
      · simp only [List.map_append, List.map_map, Function.comp_def, List.sum_append, e6,
          List.map_cons, List.sum_cons, map_const_range', sum_replicate_one]
      · intro x hx
        rcases List.mem_append.mp hx with hx | hx
        · obtain ⟨i, _, rfl⟩ := List.mem_map.mp hx
          exact List.mem_cons_self ..
        · exact List.mem_cons_of_mem _ (e7 x hx)
      · simp only [List.length_append, List.length_map, List.length_range', List.map_cons,
          List.sum_cons, e8]
        omega

theorem interpolate_ofSegs (step : S → U → S) (valid : S → Bool) (s0 : S) (sl : List (U × Nat × S))
    (h : ReplayOK step valid s0 sl) :
    ∃ sl', (ofSegs s0 sl).interpolate step = ofSegs s0 sl' ∧ ReplayOK step valid s0 sl' ∧
      endState s0 sl' = endState s0 sl ∧ (∀ x ∈ sl', x.2.1 ≤ 1) ∧
      (sl'.map (·.2.1)).sum = (sl.map (·.2.1)).sum ∧
      (∀ x ∈ sl', x.1 ∈ sl.map (·.1)) ∧
      sl'.length = (sl.map (fun x => max 1 x.2.1)).sum := by
  obtain ⟨sl', rs, e1, e2, e3, e4, e5, e6, e7, e8⟩ := interpLoop_spec step valid sl s0 h
  refine ⟨sl', ?_, e3, e4, e5, e6, e7, e8⟩
  have hlen : ¬ ((ofSegs s0 sl).states.length ≤ (ofSegs s0 sl).controls.length) := by
    simp [ofSegs]
  unfold Path.interpolate
  rw [if_neg hlen]
  simp only [ofSegs] at e1 ⊢
  rw [e1]
  simp only [List.length_map, drop_states, List.take_succ_cons, List.take_zero, e2]

/-! ## PathControl::check with exact closeness -/

theorem checkLoop_sound [DecidableEq S] (step : S → U → S) (valid : S → Bool) :
    ∀ (sl : List (U × Nat × S)) (s0 : S),
      checkLoop step valid (fun a b => decide (a = b)) (s0 :: sl.map (·.2.2)) (sl.map (·.1))
          (sl.map (·.2.1)) = true →
      ReplayOK step valid s0 sl ∧ (sl ≠ [] → valid s0 = true) := by
  intro sl
  induction sl with
  | nil => intro s0 _; exact ⟨trivial, fun h => absurd rfl h⟩
  | cons x tl ih =>
    intro s0 h
    obtain ⟨u, k, s'⟩ := x
    simp only [List.map_cons, checkLoop] at h
    split at h
    · cases h
    · rename_i hc
      simp only [Bool.or_eq_true, Bool.not_eq_eq_eq_not, Bool.not_true, bne_iff_ne, ne_eq,
        decide_eq_false_iff_not, not_or, Bool.not_eq_false, Decidable.not_not] at hc
      obtain ⟨⟨hv, hr⟩, hcl⟩ := hc
      obtain ⟨p1, p2, _, _⟩ := pwv_spec' step valid s0 u k
      rw [hr] at p1 p2
      refine ⟨⟨?_, p2, (ih s' h).1⟩, fun _ => hv⟩
      rw [← p1]; exact hcl

theorem checkLoop_complete [DecidableEq S] (step : S → U → S) (valid : S → Bool) :
    ∀ (sl : List (U × Nat × S)) (s0 : S), ReplayOK step valid s0 sl →
      (∀ s ∈ s0 :: sl.map (·.2.2), valid s = true) →
      checkLoop step valid (fun a b => decide (a = b)) (s0 :: sl.map (·.2.2)) (sl.map (·.1))
          (sl.map (·.2.1)) = true := by
  intro sl
  induction sl with
  | nil => intro s0 _ _; simp [checkLoop]
  | cons x tl ih =>
    intro s0 h hv
    obtain ⟨u, k, s'⟩ := x
    obtain ⟨hs', hval, htl⟩ := h
    obtain ⟨p1, _, p3, p4⟩ := pwv_spec' step valid s0 u k
    have hr : (pwv step valid s0 u k).1 = k := by
      by_cases hlt : (pwv step valid s0 u k).1 < k
      · have := hval _ (by omega) hlt
        rw [p3 hlt] at this
        cases this
      · omega
    rw [hr] at p1
    have h0 : valid s0 = true := hv s0 (List.mem_cons_self ..)
    have ih' := ih s' htl (fun s hs => hv s (List.mem_cons_of_mem _ hs))
    simp only [List.map_cons, checkLoop, h0, hr, p1, hs', ih']
    simp

/-- on a replayable path validity of the first state propagates to every state (a 0-step segment
repeats its start state; a longer one ends in a checked state) -/
theorem replayOK_states_valid (step : S → U → S) (valid : S → Bool) :
    ∀ (sl : List (U × Nat × S)) (s0 : S), ReplayOK step valid s0 sl → valid s0 = true →
      ∀ s ∈ s0 :: sl.map (·.2.2), valid s = true := by
  intro sl
  induction sl with
  | nil =>
    intro s0 _ h0 s hs
    have : s = s0 := by simpa using hs
    rw [this]; exact h0
  | cons x tl ih =>
    intro s0 h h0 s hs
    obtain ⟨u, k, s'⟩ := x
    obtain ⟨hs', hval, htl⟩ := h
    rcases List.mem_cons.mp hs with hs | hs
    · rw [hs]; exact h0
    · have hv' : valid s' = true := by
        rw [← hs']
        cases k with
        | zero => exact h0
        | succ k => exact hval (k + 1) (by omega) (Nat.le_refl _)
      exact ih s' htl hv' s (by simpa using hs)

/-! ## the executable replay oracle -/

theorem allValidUpTo_iff (step : S → U → S) (valid : S → Bool) (s : S) (u : U) :
    ∀ k, allValidUpTo step valid s u k = true ↔
      ∀ i, 1 ≤ i → i ≤ k → valid (propagate step s u i) = true := by
  intro k
  induction k with
  | zero =>
    simp only [allValidUpTo, true_iff]
    intro i h1 h2; omega
  | succ k ih =>
    simp only [allValidUpTo, Bool.and_eq_true, ih]
    constructor
    · intro ⟨h1, h2⟩ i hi1 hi2
      by_cases hi : i = k + 1
      · rw [hi]; exact h2
      · exact h1 i hi1 (by omega)
    · intro h
      exact ⟨fun i h1 h2 => h i h1 (by omega), h (k + 1) (by omega) (Nat.le_refl _)⟩

theorem replayFirstBad_none_iff [DecidableEq S] (step : S → U → S) (valid : S → Bool) :
    ∀ (sl : List (U × Nat × S)) (s : S) (i : Nat),
      replayFirstBad step valid (fun a b => decide (a = b)) s sl i = none ↔
        ReplayOK step valid s sl := by
  intro sl
  induction sl with
  | nil => intro s i; simp [replayFirstBad, ReplayOK]
  | cons x tl ih =>
    intro s i
    obtain ⟨u, k, s'⟩ := x
    simp only [replayFirstBad, ReplayOK]
    by_cases hc : (decide (propagate step s u k = s') && allValidUpTo step valid s u k) = true
    · rw [if_pos hc, ih]
      simp only [Bool.and_eq_true, decide_eq_true_eq, allValidUpTo_iff] at hc
      exact ⟨fun h => ⟨hc.1, hc.2, h⟩, fun h => h.2.2⟩
    · rw [if_neg hc]
      simp only [Bool.and_eq_true, decide_eq_true_eq, allValidUpTo_iff] at hc
      constructor
      · intro h; cases h
      · intro h; exact absurd ⟨h.1, h.2.1⟩ hc

theorem replayFirstBad_some_bound (step : S → U → S) (valid : S → Bool) (close : S → S → Bool) :
    ∀ (sl : List (U × Nat × S)) (s : S) (i j : Nat),
      replayFirstBad step valid close s sl i = some j → i ≤ j ∧ j < i + sl.length := by
  intro sl
  induction sl with
  | nil => intro s i j h; simp [replayFirstBad] at h
  | cons x tl ih =>
    intro s i j h
    obtain ⟨u, k, s'⟩ := x
    simp only [replayFirstBad] at h
    split at h
    · have := ih _ _ _ h
      simp only [List.length_cons]; omega
    · cases Option.some.inj h
      simp only [List.length_cons]; omega

/-- on a replayable path whose segments have at most one step, consecutive states are one
propagation step apart (under the segment's control) or equal -/
theorem adjacent_ofSegs (step : S → U → S) (valid : S → Bool) :
    ∀ (sl : List (U × Nat × S)) (s0 : S), ReplayOK step valid s0 sl → (∀ x ∈ sl, x.2.1 ≤ 1) →
      ∀ (i : Nat) (a b : S), (s0 :: sl.map (·.2.2))[i]? = some a →
        (s0 :: sl.map (·.2.2))[i + 1]? = some b → (∃ x ∈ sl, b = step a x.1) ∨ b = a := by
  intro sl
  induction sl with
  | nil => intro s0 _ _ i a b _ hb; simp at hb
  | cons x tl ih =>
    intro s0 h hk i a b ha hb
    obtain ⟨u, k, s'⟩ := x
    obtain ⟨hs', _, htl⟩ := h
    cases i with
    | zero =>
      have ha' : a = s0 := by simpa using ha.symm
      have hb' : b = s' := by simpa using hb.symm
      have hk1 : k ≤ 1 := hk (u, k, s') (List.mem_cons_self ..)
      rw [ha', hb', ← hs']
      cases k with
      | zero => exact Or.inr rfl
      | succ k =>
        have : k = 0 := by omega
        subst this
        exact Or.inl ⟨_, List.mem_cons_self .., rfl⟩
    | succ i =>
      have := ih s' htl (fun x hx => hk x (List.mem_cons_of_mem _ hx)) i a b
        (by simpa using ha) (by simpa using hb)
      rcases this with ⟨x, hx, hxb⟩ | h
      · exact Or.inl ⟨x, List.mem_cons_of_mem _ hx, hxb⟩
      · exact Or.inr h

/-- `check_sound` for a path with at least one control (helper) -/
theorem check_sound_ne [DecidableEq S] (step : S → U → S) (valid : S → Bool) (p : Path S U)
    (s0 : S) (rest : List S) (hs : p.states = s0 :: rest) (hl1 : rest.length = p.controls.length)
    (hl2 : p.steps.length = p.controls.length) (hne : p.controls ≠ [])
    (hc : p.check step valid (fun a b => decide (a = b)) = true) :
    valid s0 = true ∧ ReplayOK step valid s0 (segs rest p.controls p.steps) := by
  obtain ⟨a, b, c⟩ := maps_segs rest p.controls p.steps hl1 hl2
  have hemp : p.controls.isEmpty = false := by
    cases hcs : p.controls with
    | nil => exact absurd hcs hne
    | cons _ _ => rfl
  unfold Path.check at hc
  rw [hemp] at hc
  simp only [Bool.false_eq_true, if_false] at hc
  rw [hs] at hc
  have hc' : checkLoop step valid (fun a b => decide (a = b))
      (s0 :: (segs rest p.controls p.steps).map (·.2.2)) ((segs rest p.controls p.steps).map (·.1))
      ((segs rest p.controls p.steps).map (·.2.1)) = true := by
    rw [a, b, c]; exact hc
  obtain ⟨h1, h2⟩ := checkLoop_sound step valid _ s0 hc'
  refine ⟨h2 ?_, h1⟩
  intro hnil
  rw [hnil] at b
  exact hne b.symm

end OmplModel.Control
