import OmplModel.Proofs.PdfSum
import OmplModel.Proofs.PdfLeaves
/-! The selection rule of `sample` (exact arithmetic, ordered commutative ring). -/
set_option linter.unusedSectionVars false
set_option linter.unusedSimpArgs false
namespace OmplModel.Pdf
open Exact

section group
variable {α : Type} [AddCommGroup α] [LinearOrder α]

/-- prefix sum of the first `k` cells of a row -/
def pre (r : Array α) : Nat → α
  | 0 => 0
  | k + 1 => pre r k + cell r k

theorem pre_parent (c p : Array α) (h : SumRel c p) : ∀ j, pre p j = pre c (2 * j)
  | 0 => rfl
  | j + 1 => by
    have e : 2 * (j + 1) = (2 * j + 1) + 1 := by omega
    rw [e]
    simp only [pre]
    rw [pre_parent c p h j, h j]
    abel

theorem pre_sat (r : Array α) : ∀ k, r.size ≤ k → pre r k = pre r r.size := by
  intro k hk
  induction k with
  | zero => have : r.size = 0 := by omega
            rw [this]
  | succ k ih =>
    by_cases e : r.size = k + 1
    · rw [e]
    · simp only [pre]
      rw [ih (by omega), cell_ge r k (by omega)]
      simp

theorem chain_total : ∀ (rs : List (Array α)) (c : Array α) (n : Nat), ShapeSizes n (sizes (c :: rs)) →
    SumChain (c :: rs) → total? (c :: rs) = some (pre c c.size)
  | [], c, n, hs, _ => by
    rw [sizes_cons, shapeSizes_cons, sizes_nil, above_nil] at hs
    · obtain ⟨hc, _, h1⟩ := hs
      have : c.size = 1 := by omega
      simp only [total?, List.getLast?_singleton]
      rw [this]
      simp [pre, cell, this]
    · exact hs.2.1
  | p :: rs, c, n, hs, hc => by
    rw [sizes_cons, shapeSizes_cons, sizes_cons, above_cons] at hs
    obtain ⟨hcs, _, _, hp, _, hab⟩ := hs
    rw [sumChain_cons2] at hc
    have ih := chain_total rs p ((n + 1) / 2)
      (by rw [sizes_cons, shapeSizes_cons]; exact ⟨hp, by omega, hab⟩) hc.2
    have : total? (c :: p :: rs) = total? (p :: rs) := by simp [total?, List.getLast?_cons_cons]
    rw [this, ih, pre_parent c p hc.1, pre_sat c (2 * p.size) (by omega)]

end group

section ring
variable {α : Type} [CommRing α] [LinearOrder α] [IsStrictOrderedRing α]

/-- descent invariant at node `j` of row `r` with remaining value `x` for the target `X` -/
def DInv (r : Array α) (j : Nat) (x X : α) : Prop :=
  x ≤ cell r j ∧ pre r j + x = X ∧ (0 < j → 0 < x)

theorem wlt (a b : α) : (WOps.lt a b = true) ↔ a < b := by
  simp [WOps.lt]

theorem dinv_stepDown (c p : Array α) (j : Nat) (x X : α) (h : SumRel c p) (hd : DInv p j x X) :
    DInv c (stepDown c j x).1 (stepDown c j x).2 X := by
  obtain ⟨h1, h2, h3⟩ := hd
  have hpre := pre_parent c p h j
  have hj := h j
  unfold stepDown
  split
  · rename_i hlt
    have hc0 : cell c (2 * j) = c[2 * j] := cell_lt _ _ (by omega)
    split
    · rename_i hcmp
      rw [wlt] at hcmp
      simp only [wsub]
      refine ⟨?_, ?_, ?_⟩
      · rw [← hc0]; linarith
      · simp only [pre]; rw [← hc0]; linarith
      · intro _; linarith
    · rename_i hcmp
      rw [wlt] at hcmp
      refine ⟨?_, ?_, ?_⟩
      · rw [hc0]; exact not_lt.mp hcmp
      · simp only; linarith
      · intro hpos; exact h3 (by omega)
  · rename_i hge
    have : cell c (2 * j + 1) = 0 := cell_ge _ _ (by omega)
    refine ⟨?_, ?_, ?_⟩
    · simp only; linarith
    · simp only; linarith
    · intro hpos; exact h3 (by simp at hpos; omega)

theorem dinv_walk : ∀ (rs : List (Array α)) (c : Array α) (X : α) (tot : α), SumChain (c :: rs) →
    total? (c :: rs) = some tot → 0 ≤ X → X ≤ tot → (∀ k, c.size ≤ k → True) →
    DInv c (walk (c :: rs) X).1 (walk (c :: rs) X).2 X
  | [], c, X, tot, _, ht, _, hX, _ => by
    simp only [walk]
    simp only [total?, List.getLast?_singleton] at ht
    refine ⟨?_, by simp [pre], by intro h; omega⟩
    simp only [cell, ht, Option.getD_some]; exact hX
  | p :: rs, c, X, tot, hc, ht, h0, hX, _ => by
    rw [sumChain_cons2] at hc
    have ht' : total? (p :: rs) = some tot := by
      simpa [total?, List.getLast?_cons_cons] using ht
    have ih := dinv_walk rs p X tot hc.2 ht' h0 hX (fun _ _ => trivial)
    simp only [walk]
    exact dinv_stepDown c p _ _ X hc.1 ih

theorem pre_nonneg (c : Array α) (hnn : ∀ k, 0 ≤ cell c k) : ∀ k, 0 ≤ pre c k
  | 0 => le_refl _
  | k + 1 => by simp only [pre]; linarith [pre_nonneg c hnn k, hnn k]

theorem pre_mono (c : Array α) (hnn : ∀ k, 0 ≤ cell c k) : ∀ a b, a ≤ b → pre c a ≤ pre c b := by
  intro a b hab
  induction b with
  | zero => have : a = 0 := by omega
            rw [this]
  | succ b ih =>
    by_cases e : a = b + 1
    · rw [e]
    · have := ih (by omega)
      simp only [pre]; linarith [hnn b]

/-- the selection rule: for `r ∈ [0,1]` the fixed `sample` returns the element at a position `i` with
`prefix i < r·total ≤ prefix (i+1)` (the first clause only for `i > 0`). -/
theorem sample_interval (s : Pdf α) (r : α) (hsh : ShapeInv s) (hsum : SumInv s) (hn : 0 < s.data.size)
    (h0 : 0 ≤ r) (h1 : r ≤ 1) (hnn : ∀ k, 0 ≤ cell (row0 s) k) :
    ∃ i, ∃ hi : i < s.data.size, s.sample r = .ok s.data[i] ∧
      r * pre (row0 s) s.data.size ≤ pre (row0 s) (i + 1) ∧
      (0 < i → pre (row0 s) i < r * pre (row0 s) s.data.size) := by
  unfold ShapeInv at hsh
  unfold SumInv at hsum
  cases ht : s.tree with
  | nil =>
    rw [ht, sizes_nil] at hsh
    have : s.data.size = 0 := hsh
    omega
  | cons c rs =>
    rw [ht] at hsh hsum
    have hl : row0 s = c := by simp [row0, ht]
    rw [hl] at hnn ⊢
    have hcs : c.size = s.data.size := by
      rw [sizes_cons, shapeSizes_cons] at hsh; exact hsh.1
    have htot := chain_total rs c _ hsh hsum
    rw [hcs] at htot
    have htn := pre_nonneg c hnn s.data.size
    have hX0 : 0 ≤ r * pre c s.data.size := mul_nonneg h0 htn
    have hX1 : r * pre c s.data.size ≤ pre c s.data.size := by nlinarith
    have hd := dinv_walk rs c (r * pre c s.data.size) _ hsum htot hX0 hX1 (fun _ _ => trivial)
    have hlt := walk_lt (c :: rs) s.data.size (r * pre c s.data.size) hn hsh
    refine ⟨(walk (c :: rs) (r * pre c s.data.size)).1, hlt, ?_, ?_, ?_⟩
    · unfold Pdf.sample
      have e0 : ¬ s.data.size = 0 := by omega
      have e1 : (WOps.lt r (WOps.zero : α) || WOps.lt (WScale.one : α) r) = false := by
        simp only [Bool.or_eq_false_iff]
        constructor
        · simpa [WOps.lt, WOps.zero] using h0
        · simpa [WOps.lt, WScale.one] using h1
      rw [if_neg e0, e1]
      simp only [Bool.false_eq_true, if_false, ht, htot]
      have : WScale.mul r (pre c s.data.size) = r * pre c s.data.size := rfl
      rw [this, Array.getElem?_eq_getElem hlt]
    · obtain ⟨a, b, _⟩ := hd
      simp only [pre]; linarith
    · intro hpos
      obtain ⟨a, b, c'⟩ := hd
      have := c' hpos
      linarith

/-! ### the stored weights stay non-negative (needed for "least index") -/

def LeavesNonneg (s : Pdf α) : Prop := ∀ k, 0 ≤ cell (row0 s) k

/-- the API contract on weights: `add` rejects negatives itself; `update` must be given `w ≥ 0`. -/
def OpOk : Op α → Prop
  | .update _ w => 0 ≤ w
  | _ => True

theorem cell_setIfInBounds (r : Array α) (i : Nat) (w : α) (k : Nat) :
    cell (r.setIfInBounds i w) k = if k = i ∧ i < r.size then w else cell r k := by
  unfold cell
  rw [Array.getElem?_setIfInBounds]
  by_cases e : i = k
  · subst e
    by_cases h : i < r.size
    · simp [h]
    · simp [h]
  · have : ¬ k = i := fun x => e x.symm
    simp [e, this]

theorem nonneg_swapIfInBounds (r : Array α) (i j : Nat) (h : ∀ k, 0 ≤ cell r k) :
    ∀ k, 0 ≤ cell (r.swapIfInBounds i j) k := by
  intro k
  unfold Array.swapIfInBounds
  split
  · split
    · rw [cell_swap]; split
      · exact h _
      · split <;> exact h _
    · exact h k
  · exact h k

theorem nonneg_pop (r : Array α) (h : ∀ k, 0 ≤ cell r k) : ∀ k, 0 ≤ cell r.pop k := by
  intro k; rw [cell_pop]; split
  · exact le_refl _
  · exact h k

theorem leavesNonneg_empty : LeavesNonneg (Pdf.empty : Pdf α) := by
  intro k; simp [row0, Pdf.empty, cell]

theorem leavesNonneg_step (s : Pdf α) (op : Op α) (hsh : ShapeInv s) (hn : LeavesNonneg s) (hop : OpOk op) :
    LeavesNonneg (s.step op) := by
  cases op with
  | add w =>
    simp only [Pdf.step]
    by_cases hw : WOps.lt w (WOps.zero : α) = true
    · have : s.add w = s := by unfold Pdf.add; simp [hw]
      rw [this]; exact hn
    · have hw' : WOps.lt w (WOps.zero : α) = false := by simpa using hw
      intro k
      rw [row0_add s w hsh hw', cell_push]
      split
      · have : ¬ w < 0 := by simpa [WOps.lt, WOps.zero] using hw'
        exact not_lt.mp this
      · exact hn k
  | update h w =>
    simp only [Pdf.step]
    cases hi : s.idx h with
    | none => have : s.update h w = s := by unfold Pdf.update; simp [hi]
              rw [this]; exact hn
    | some i =>
      by_cases hd : i < s.data.size
      · intro k
        rw [row0_update s h i w hsh hi hd, cell_setIfInBounds]
        split
        · exact hop
        · exact hn k
      · have : s.update h w = s := by
          unfold Pdf.update; simp only [hi]; rw [if_pos (by omega)]
        rw [this]; exact hn
  | remove h =>
    simp only [Pdf.step]
    cases hi : s.idx h with
    | none => have : s.remove h = s := by unfold Pdf.remove; simp [hi]
              rw [this]; exact hn
    | some i =>
      by_cases hd : i < s.data.size
      · unfold LeavesNonneg
        rw [row0_remove s h i hsh hi hd]
        split
        · exact nonneg_pop _ hn
        · exact nonneg_pop _ (nonneg_swapIfInBounds _ _ _ hn)
      · have : s.remove h = s := by
          unfold Pdf.remove; simp only [hi, hd, dite_false]
        rw [this]; exact hn
  | clear => intro k; simp [Pdf.step, Pdf.clear, row0, cell]
  | sample r => exact hn

end ring
section ring
variable {α : Type} [CommRing α] [LinearOrder α] [IsStrictOrderedRing α]

theorem stepDownOld_eq (c p : Array α) (j : Nat) (x X : α) (h : SumRel c p) (hd : DInv p j x X)
    (hj : 2 * j < c.size) : stepDownOld c j x = some (stepDown c j x) := by
  unfold stepDownOld stepDown
  rw [Array.getElem?_eq_getElem hj]
  simp only
  by_cases h1 : 2 * j + 1 < c.size
  · simp only [h1, dite_true]
    split <;> rfl
  · simp only [h1, dite_false]
    have hz : cell c (2 * j + 1) = 0 := cell_ge _ _ (by omega)
    have hc : cell c (2 * j) = c[2 * j] := cell_lt _ _ hj
    have hle : x ≤ c[2 * j] := by
      have := hd.1
      rw [h j, hz, hc] at this
      linarith
    have : WOps.lt c[2 * j] x = false := by
      have : ¬ c[2 * j] < x := not_lt.mpr hle
      simpa [WOps.lt] using this
    rw [this]; rfl

theorem walkOld_eq : ∀ (rs : List (Array α)) (c : Array α) (n : Nat) (X tot : α), 0 < n →
    ShapeSizes n (sizes (c :: rs)) → SumChain (c :: rs) → total? (c :: rs) = some tot → 0 ≤ X → X ≤ tot →
    walkOld (c :: rs) X = some (walk (c :: rs) X)
  | [], c, n, X, tot, _, _, _, _, _, _ => by simp [walkOld, walk]
  | p :: rs, c, n, X, tot, hn, hs, hc, ht, h0, hX => by
    rw [sizes_cons, shapeSizes_cons, sizes_cons, above_cons] at hs
    obtain ⟨hcs, _, hn1, hp, hpos, hab⟩ := hs
    have hs' : ShapeSizes ((n + 1) / 2) (sizes (p :: rs)) := by
      rw [sizes_cons, shapeSizes_cons]; exact ⟨hp, hpos, hab⟩
    rw [sumChain_cons2] at hc
    have ht' : total? (p :: rs) = some tot := by
      simpa [total?, List.getLast?_cons_cons] using ht
    have ih := walkOld_eq rs p ((n + 1) / 2) X tot hpos hs' hc.2 ht' h0 hX
    have hd := dinv_walk rs p X tot hc.2 ht' h0 hX (fun _ _ => trivial)
    have hlt := walk_lt (p :: rs) ((n + 1) / 2) X hpos hs'
    simp only [walkOld, ih, walk]
    exact stepDownOld_eq c p _ _ X hc.1 hd (by omega)

/-- in exact arithmetic the descent before fix F2 and the guarded descent agree on every reachable state:
the guard only matters once rounding has broken `SumInv` -/
theorem sampleOld_eq_sample (s : Pdf α) (r : α) (hsh : ShapeInv s) (hsum : SumInv s)
    (hnn : ∀ k, 0 ≤ cell (row0 s) k) (h0 : 0 ≤ r) (h1 : r ≤ 1) : s.sampleOld r = s.sample r := by
  unfold Pdf.sampleOld Pdf.sample
  by_cases hn : s.data.size = 0
  · simp [hn]
  · rw [if_neg hn, if_neg hn]
    split
    · rfl
    · unfold ShapeInv at hsh
      unfold SumInv at hsum
      cases ht : s.tree with
      | nil => rw [ht, sizes_nil] at hsh; exact absurd hsh hn
      | cons c rs =>
        rw [ht] at hsh hsum
        have hl : row0 s = c := by simp [row0, ht]
        rw [hl] at hnn
        have hcs : c.size = s.data.size := by
          rw [sizes_cons, shapeSizes_cons] at hsh; exact hsh.1
        have htot := chain_total rs c _ hsh hsum
        rw [htot]
        simp only
        have htn := pre_nonneg c hnn c.size
        have hX0 : 0 ≤ r * pre c c.size := mul_nonneg h0 htn
        have hX1 : r * pre c c.size ≤ pre c c.size := by nlinarith
        have hw := walkOld_eq rs c s.data.size (r * pre c c.size) _ (by omega) hsh hsum htot hX0 hX1
        have : WScale.mul r (pre c c.size) = r * pre c c.size := rfl
        rw [this, hw]

end ring

/-- the number of stored elements is the number of live handles -/
theorem size_counts_live {β : Type} (s : Pdf β) (h : IdxSync s) :
    s.data.size = ((List.range s.next).filter (fun k => (s.idx k).isSome)).length := by
  have hnd : s.data.toList.Nodup := by
    rw [List.nodup_iff_pairwise_ne, List.pairwise_iff_getElem]
    intro i j hi hj hij e
    have := h.inj (by simpa using hi) (by simpa using hj) (by simpa using e)
    omega
  have hnd2 : ((List.range s.next).filter (fun k => (s.idx k).isSome)).Nodup :=
    List.Nodup.sublist List.filter_sublist List.nodup_range
  have hperm : s.data.toList.Perm ((List.range s.next).filter (fun k => (s.idx k).isSome)) := by
    rw [List.perm_ext_iff_of_nodup hnd hnd2]
    intro k
    simp only [Array.mem_toList_iff, List.mem_filter, List.mem_range]
    constructor
    · intro hm
      obtain ⟨i, hi, e⟩ := Array.getElem_of_mem hm
      have hk := h.fwd i hi
      rw [e] at hk
      refine ⟨?_, by simp [hk]⟩
      rcases Nat.lt_or_ge k s.next with hlt | hge
      · exact hlt
      · have := h.fresh k hge; rw [this] at hk; cases hk
    · intro ⟨_, hl⟩
      obtain ⟨i, hi⟩ := Option.isSome_iff_exists.mp hl
      exact Array.mem_of_getElem? (h.bwd k i hi)
  rw [← Array.length_toList, hperm.length_eq]


end OmplModel.Pdf
