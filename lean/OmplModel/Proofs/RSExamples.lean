import OmplModel.Proofs.RSReal
import OmplModel.Proofs.RSInteg
import Mathlib.Analysis.SpecialFunctions.Complex.Arg
/-!
Concrete evaluations of the Reeds–Shepp model over ℝ (C14, round 2), used as non-vacuity witnesses by
`Props/C14RS.lean`: the premises of the reach / minimality theorems are satisfiable.
These are tests on instances, not properties.
-/
namespace OmplModel.RS
open OmplModel OmplModel.Dubins DubinsR RSR
attribute [-instance] Num.instOfNat

theorem neg_rzero_le_zero : -(rzero : ℝ) ≤ 0 := (neg_lt_zero.mpr rzero_pos).le

theorem neg_rzero_le_of_nonneg {a : ℝ} (h : 0 ≤ a) : -(rzero : ℝ) ≤ a := le_trans neg_rzero_le_zero h

/-- the straight path: `LpSpLp(3, 0, 0) = (0, 3, 0)` -/
theorem LpSpLp_3_0_0 : LpSpLp (3 : ℝ) 0 0 = some (0, 3, 0) := by
  unfold LpSpLp polar
  simp only [sin_eq, cos_eq, sqrt_eq, atan2_eq, ofNat_one, Real.sin_zero, Real.cos_zero]
  have hX : (3 : ℝ) - 0 = 3 := by norm_num
  have hY : (0 : ℝ) - 1 + 1 = 0 := by norm_num
  have hs : Real.sqrt (3 * 3 + 0 * 0) = 3 := by
    rw [show (3 : ℝ) * 3 + 0 * 0 = 3 ^ 2 by norm_num]; exact Real.sqrt_sq (by norm_num)
  have ha : Complex.arg ⟨3, 0⟩ = 0 := Complex.arg_ofReal_of_nonneg (x := 3) (by norm_num)
  rw [hX, hY, hs, ha, sub_zero, rmod2pi_zero]
  rw [if_pos neg_rzero_le_zero, if_pos neg_rzero_le_zero]

/-- `LpSpRp(4, 2, 0)` has a solution (`L π/6 · S √12 · R π/6`) -/
theorem LpSpRp_4_2_0 : ∃ t u v : ℝ, LpSpRp (4 : ℝ) 2 0 = some (t, u, v) := by
  unfold LpSpRp polar
  simp only [sin_eq, cos_eq, sqrt_eq, atan2_eq, ofNat_one, ofNat_two, ofNat_four, Real.sin_zero, Real.cos_zero]
  have hX : (4 : ℝ) + 0 = 4 := by norm_num
  have hY : (2 : ℝ) - 1 - 1 = 0 := by norm_num
  have hs : Real.sqrt (4 * 4 + 0 * 0) = 4 := by
    rw [show (4 : ℝ) * 4 + 0 * 0 = 4 ^ 2 by norm_num]; exact Real.sqrt_sq (by norm_num)
  have ha : Complex.arg ⟨4, 0⟩ = 0 := Complex.arg_ofReal_of_nonneg (x := 4) (by norm_num)
  rw [hX, hY, hs, ha, zero_add, sub_zero]
  have hθ0 : 0 ≤ Complex.arg ⟨Real.sqrt (4 * 4 - 4), 2⟩ := Complex.arg_nonneg_iff.mpr (by norm_num)
  have hθ1 : Complex.arg ⟨Real.sqrt (4 * 4 - 4), 2⟩ ≤ Real.pi := Complex.arg_le_pi _
  have hpi := Real.pi_pos
  generalize Complex.arg ⟨Real.sqrt (4 * 4 - 4), 2⟩ = θ at *
  rw [rmod2pi_of_mem θ (by linarith) hθ1, rmod2pi_of_mem θ (by linarith) hθ1]
  rw [if_pos (show (4 : ℝ) ≤ 4 * 4 by norm_num),
    if_pos ⟨neg_rzero_le_of_nonneg hθ0, neg_rzero_le_of_nonneg hθ0⟩]
  exact ⟨_, _, _, rfl⟩

/-- `LpRmL(0, 0, 0) = (π, 0, -π)` (turn on the spot: a degenerate but accepted solution) -/
theorem LpRmL_0_0_0 : LpRmL (0 : ℝ) 0 0 = some (Real.pi, 0, -Real.pi) := by
  unfold LpRmL polar
  simp only [sin_eq, cos_eq, sqrt_eq, atan2_eq, asin_eq, ofNat_one, ofNat_two, ofNat_four, ofDec_25_2,
    rhalf_eq, rpi_eq, Real.sin_zero, Real.cos_zero]
  have hY : (0 : ℝ) - 1 + 1 = 0 := by norm_num
  have ha : Complex.arg ⟨0, 0⟩ = 0 := Complex.arg_zero
  have hpi := Real.pi_pos
  rw [sub_zero, hY, ha]
  simp only [mul_zero, add_zero, Real.sqrt_zero, Real.arcsin_zero, zero_add]
  rw [rmod2pi_of_mem Real.pi (by linarith) le_rfl, zero_sub, rmod2pi_of_mem (-Real.pi) le_rfl (by linarith)]
  rw [if_pos (show (0 : ℝ) ≤ 4 by norm_num), if_pos ⟨neg_rzero_le_of_nonneg hpi.le, rzero_pos.le⟩]

/-- `LpRmSmRm(-1, -2, π/2) = (0, -1, 0)`: quarter turn backwards to the right, then 1 straight back -/
theorem LpRmSmRm_ex : LpRmSmRm (-1 : ℝ) (-2) (Real.pi / 2) = some (0, -1, 0) := by
  unfold LpRmSmRm polar
  simp only [sin_eq, cos_eq, sqrt_eq, atan2_eq, ofNat_one, ofNat_two, rhalf_eq, rpi_eq,
    Real.sin_pi_div_two, Real.cos_pi_div_two]
  have hξ : (-1 : ℝ) + 1 = 0 := by norm_num
  have hη : -((-2 : ℝ) - 1 - 0) = 3 := by norm_num
  have hs : Real.sqrt (3 * 3 + 0 * 0) = 3 := by
    rw [show (3 : ℝ) * 3 + 0 * 0 = 3 ^ 2 by norm_num]; exact Real.sqrt_sq (by norm_num)
  have ha : Complex.arg ⟨3, 0⟩ = 0 := Complex.arg_ofReal_of_nonneg (x := 3) (by norm_num)
  have hv : (0 : ℝ) + 1 / 2 * Real.pi - Real.pi / 2 = 0 := by ring
  rw [hξ, hη, hs, ha, hv, rmod2pi_zero, show (2 : ℝ) - 3 = -1 by norm_num]
  rw [if_pos (show (2 : ℝ) ≤ 3 by norm_num),
    if_pos ⟨neg_rzero_le_zero, le_trans (by norm_num : (-1 : ℝ) ≤ 0) rzero_pos.le, rzero_pos.le⟩]

/-- `LpRmSmLm(-1, -2, π/2) = (0, -1, 0)` (the same curve: the final arc has length 0) -/
theorem LpRmSmLm_ex : LpRmSmLm (-1 : ℝ) (-2) (Real.pi / 2) = some (0, -1, 0) := by
  unfold LpRmSmLm polar
  simp only [sin_eq, cos_eq, sqrt_eq, atan2_eq, ofNat_one, ofNat_two, ofNat_four, rhalf_eq, rpi_eq,
    Real.sin_pi_div_two, Real.cos_pi_div_two]
  have hξ : (-1 : ℝ) - 1 = -2 := by norm_num
  have hη : (-2 : ℝ) - 1 + 0 = -3 := by norm_num
  have h13 : (-2 : ℝ) * -2 + -3 * -3 = 13 := by norm_num
  have hρ : Real.sqrt 13 * Real.sqrt 13 - 4 = 3 ^ 2 := by
    rw [Real.mul_self_sqrt (by norm_num)]; norm_num
  have hr : Real.sqrt (3 ^ 2) = 3 := Real.sqrt_sq (by norm_num)
  have hconj : (⟨-2, -3⟩ : ℂ) = (starRingEnd ℂ) ⟨-2, 3⟩ := by
    apply Complex.ext <;> simp
  have hne : ¬ Complex.arg ⟨-2, 3⟩ = Real.pi := by
    rw [Complex.arg_eq_pi_iff]; norm_num
  have hA : Complex.arg ⟨-2, -3⟩ + Complex.arg ⟨-2, 3⟩ = 0 := by
    rw [hconj, Complex.arg_conj, if_neg hne, neg_add_cancel]
  have hg : (2 : ℝ) ≤ Real.sqrt 13 := Real.le_sqrt_of_sq_le (by norm_num)
  have hv : Real.pi / 2 - 1 / 2 * Real.pi - 0 = 0 := by ring
  rw [hξ, hη, h13, hρ, hr, hA, rmod2pi_zero, hv, rmod2pi_zero, show (2 : ℝ) - 3 = -1 by norm_num]
  rw [if_pos hg,
    if_pos ⟨neg_rzero_le_zero, le_trans (by norm_num : (-1 : ℝ) ≤ 0) rzero_pos.le, rzero_pos.le⟩]

/-- the CSC family has a candidate for `(3, 0, 0)` -/
theorem candsCSC_3_0_0 : some (key3 (0 : ℝ) 3 0, bCSC 14 false (0 : ℝ) 3 0) ∈ candsCSC (3 : ℝ) 0 0 := by
  unfold candsCSC four
  rw [LpSpLp_3_0_0]
  simp [mkCand]

/-- hence `reedsShepp(3, 0, 0)` returns a path -/
theorem reedsShepp_3_0_0 : ∃ P, reedsShepp (3 : ℝ) 0 0 = some P := by
  have hm : some (key3 (0 : ℝ) 3 0, bCSC 14 false (0 : ℝ) 3 0) ∈ allCands 3 0 0 := by
    unfold allCands
    simp only [List.mem_append]
    exact Or.inl (Or.inl (Or.inl (Or.inl candsCSC_3_0_0)))
  obtain ⟨q, hq, -⟩ := (reedsShepp_inv 3 0 0).2 _ _ hm
  exact ⟨q, hq⟩

end OmplModel.RS
