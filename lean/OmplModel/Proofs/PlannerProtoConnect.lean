import OmplModel.Model.PlannerProtoConnect
import OmplModel.Proofs.PlannerProtoControl
/-!
C03, round 10 (second lap): the bidirectional core `rrtConnectCore` (geometric::RRTConnect) is lawful: every motion either
tree gains in one loop body is allocated exactly once (consecutive fresh ids, in the order of the pushes), nothing is
freed inside the loop, both trees only grow, a reported index exists.  Core Lean only, arithmetic-free.
-/
namespace OmplModel.PlannerProto

variable {σ δ : Type}

def ownedB (c : BiTree σ) : List Nat := ownedT c.ts ++ ownedT c.tg

theorem freshIds_snoc (i n : Nat) : freshIds i (n + 1) = freshIds i n ++ [i + n] := by
  simp [freshIds, List.range_succ]

/-- relation between the trees before a loop body (`c0`, fresh id `i`) and an intermediate state `(c, nx)` -/
def Grown (c0 : BiTree σ) (i : Nat) (c : BiTree σ) (nx : Nat) : Prop :=
  ∃ n, nx = i + n ∧ (ownedB c).Perm (ownedB c0 ++ freshIds i n) ∧ c0.ts.size ≤ c.ts.size ∧ c0.tg.size ≤ c.tg.size ∧
    c.conn = c0.conn ∧ c0.ts.toList <+: c.ts.toList ∧ c0.tg.toList <+: c.tg.toList

theorem grown_push (c0 : BiTree σ) (i : Nat) (c : BiTree σ) (nx : Nat) (h : Grown c0 i c nx) (side : Bool) (st : σ)
    (p : Option Nat) : Grown c0 i (c.push side st p nx) (nx + 1) := by
  obtain ⟨n, hn, hp, h1, h2, h3, h4, h5⟩ := h
  refine ⟨n + 1, by omega, ?_, ?_, ?_, ?_, ?_, ?_⟩
  · rw [freshIds_snoc, ← hn]
    cases side with
    | true =>
      simp only [BiTree.push, if_true, ownedB, ownedT_push]
      have : (ownedT c.ts ++ [nx] ++ ownedT c.tg).Perm ((ownedT c.ts ++ ownedT c.tg) ++ [nx]) := by
        simp only [List.append_assoc]
        exact List.Perm.append_left _ List.perm_append_comm
      refine this.trans ?_
      rw [← List.append_assoc]
      exact hp.append_right _
    | false =>
      simp only [BiTree.push, Bool.false_eq_true, if_false, ownedB, ownedT_push]
      rw [← List.append_assoc, ← List.append_assoc]
      exact hp.append_right _
  · cases side <;> simp [BiTree.push] <;> omega
  · cases side <;> simp [BiTree.push] <;> omega
  · cases side <;> simp [BiTree.push, h3]
  · cases side with
    | true =>
      simp only [BiTree.push, if_true, Array.toList_push]
      exact h4.trans (List.prefix_append _ _)
    | false => simpa [BiTree.push] using h4
  · cases side with
    | true => simpa [BiTree.push] using h5
    | false =>
      simp only [BiTree.push, Bool.false_eq_true, if_false, Array.toList_push]
      exact h5.trans (List.prefix_append _ _)

theorem grown_connectLoop (c0 : BiTree σ) (i : Nat) (side : Bool) : ∀ (l : List (Grow σ)) (c : BiTree σ) (nx : Nat),
    Grown c0 i c nx → Grown c0 i (connectLoop side c nx l).1 (connectLoop side c nx l).2.1 := by
  intro l
  induction l with
  | nil => intro c nx h; simpa [connectLoop] using h
  | cons g r ih =>
    intro c nx h
    cases g with
    | trapped => simpa [connectLoop] using h
    | added near st reached =>
      simp only [connectLoop]
      split
      · cases reached with
        | true => simp only [if_true]; exact grown_push c0 i c nx h side st (some near)
        | false =>
          simp only [Bool.false_eq_true, if_false]
          exact ih _ _ (grown_push c0 i c nx h side st (some near))
      · exact h

theorem connValid_of_grown (c0 c : BiTree σ) (h1 : c0.ts.size ≤ c.ts.size) (h2 : c0.tg.size ≤ c.tg.size) (h3 : c.conn = c0.conn)
    (hv : c0.connValid = true) : c.connValid = true := by
  unfold BiTree.connValid at *
  rw [h3]
  cases hc : c0.conn with
  | none => simp [hc] at hv
  | some ab =>
    obtain ⟨a, b⟩ := ab
    simp only [hc, Bool.and_eq_true, decide_eq_true_eq] at hv ⊢
    exact ⟨Nat.lt_of_lt_of_le hv.1 h1, Nat.lt_of_lt_of_le hv.2 h2⟩

def bsize (c : BiTree σ) : Nat := c.ts.size + (if c.connValid then 1 else 0)

/-- what one loop body does, in one statement -/
def IterOk (c : BiTree σ) (i : Nat) (o : IterOut δ (BiTree σ)) : Prop :=
  ∃ n, o.next = i + n ∧ o.evs = (freshIds i n).map Ev.alloc ∧ (ownedB o.core).Perm (ownedB c ++ freshIds i n) ∧
    bsize c ≤ bsize o.core ∧ c.ts.size ≤ o.core.ts.size ∧ c.tg.size ≤ o.core.tg.size ∧ (∀ r ∈ o.res, r.1 < bsize o.core) ∧
    c.ts.toList <+: o.core.ts.toList ∧ c.tg.toList <+: o.core.tg.toList

theorem biOut_ok (c c' : BiTree σ) (i nx : Nat) (res : List (Nat × Bool × δ)) (h : Grown c i c' nx)
    (hr : ∀ r ∈ res, r.1 < bsize c') : IterOk c i (biOut c' i nx res) := by
  obtain ⟨n, hn, hp, h1, h2, h3, h4, h5⟩ := h
  refine ⟨n, by simp [biOut, hn], by simp [biOut, hn], hp, ?_, h1, h2, hr, h4, h5⟩
  show c.ts.size + (if c.connValid then 1 else 0) ≤ c'.ts.size + (if c'.connValid then 1 else 0)
  by_cases hv : c.connValid = true
  · rw [connValid_of_grown c c' h1 h2 h3 hv, hv]; simp; exact h1
  · simp only [hv, Bool.false_eq_true, if_false]
    split <;> omega

theorem biOut_conn_ok (c c' : BiTree σ) (i nx : Nat) (sg : Nat × Nat) (d : δ) (h : Grown c i c' nx)
    (hv : ({ c' with conn := some sg } : BiTree σ).connValid = true) :
    IterOk c i (biOut ({ c' with conn := some sg } : BiTree σ) i nx [(c'.ts.size, true, d)]) := by
  obtain ⟨n, hn, hp, h1, h2, h3, h4, h5⟩ := h
  refine ⟨n, by simp [biOut, hn], by simp [biOut, hn], hp, ?_, h1, h2, ?_, h4, h5⟩
  · show c.ts.size + (if c.connValid then 1 else 0) ≤
      c'.ts.size + (if ({ c' with conn := some sg } : BiTree σ).connValid then 1 else 0)
    rw [hv]
    simp only [if_true]
    split <;> omega
  · intro r hr
    simp only [biOut, List.mem_singleton] at hr
    subst hr
    show c'.ts.size < c'.ts.size + (if ({ c' with conn := some sg } : BiTree σ).connValid then 1 else 0)
    rw [hv]; simp

theorem grown_refl_turn (c : BiTree σ) (i : Nat) (b : Bool) : Grown c i ({ c with turn := b } : BiTree σ) i :=
  ⟨0, rfl, by simp [ownedB, freshIds], Nat.le_refl _, Nat.le_refl _, rfl, List.prefix_refl _, List.prefix_refl _⟩

theorem growStep_ok (c : BiTree σ) (startSide : Bool) (i : Nat) (c1 : BiTree σ) (i1 : Nat) (d : BDraw σ δ)
    (G1 : Grown c i c1 i1) : IterOk c i (growStep startSide i c1 i1 d) := by
  unfold growStep
  cases d.first with
  | trapped => exact biOut_ok c c1 i i1 [] G1 (by simp)
  | added near st reached =>
    simp only
    split
    · have G2 := grown_push c i c1 i1 G1 startSide st (some near)
      have G3 := grown_connectLoop c i (!startSide) d.connect _ _ G2
      generalize connectLoop (!startSide) (c1.push startSide st (some near) i1) (i1 + 1) d.connect = o at G3 ⊢
      repeat' split
      all_goals first
        | exact biOut_ok c o.1 i o.2.1 [] G3 (by simp)
        | exact biOut_conn_ok c o.1 i o.2.1 _ d.dist G3 (by assumption)
        | (refine biOut_ok c o.1 i o.2.1 _ G3 ?_
           intro r hr
           simp only [List.mem_singleton] at hr
           subst hr
           simp only [Bool.and_eq_true, decide_eq_true_eq] at *
           show _ < o.1.ts.size + _
           omega)
    · exact biOut_ok c c1 i i1 [] G1 (by simp)

theorem connectIterate_ok (c : BiTree σ) (i : Nat) (d : BDraw σ δ) : IterOk c i (connectIterate c i d) := by
  unfold connectIterate
  apply growStep_ok
  cases d.newGoal with
  | none => exact grown_refl_turn c i _
  | some s => exact grown_push c i _ i (grown_refl_turn c i _) false s none

theorem rrtConnect_lawful : LawfulCore (rrtConnectCore : CoreSpec σ δ (BDraw σ δ) (BiTree σ)) where
  owned_init := by simp [rrtConnectCore]
  owned_addRoot := by
    intro c i s
    have := grown_push c i c i ⟨0, rfl, by simp [freshIds], Nat.le_refl _, Nat.le_refl _, rfl, List.prefix_refl _, List.prefix_refl _⟩ true s none
    obtain ⟨n, hn, hp, _⟩ := this
    have h1 : n = 1 := by omega
    subst h1
    have : freshIds i 1 = [i] := by simp [freshIds]
    rw [this] at hp
    show (ownedB (c.push true s none i)).Perm (i :: ownedB c)
    exact hp.trans List.perm_append_comm
  iterate_replay := by
    intro c n d L X h
    obtain ⟨k, hnx, hev, hp, _⟩ := connectIterate_ok c n d
    obtain ⟨L1, r1, p1⟩ := fresh_replay k n L
    refine ⟨L1, ?_, ?_⟩
    · show replay (L, n) (connectIterate c n d).evs = some (L1, (connectIterate c n d).next)
      rw [hev, hnx]; exact r1
    · show L1.Perm (ownedB (connectIterate c n d).core ++ X)
      refine p1.trans ?_
      have h1 : (L ++ freshIds n k).Perm ((ownedB c ++ X) ++ freshIds n k) := h.append_right _
      refine h1.trans ?_
      have h2 : ((ownedB c ++ X) ++ freshIds n k).Perm ((ownedB c ++ freshIds n k) ++ X) := by
        simp only [List.append_assoc]
        exact List.Perm.append_left _ List.perm_append_comm
      exact h2.trans (hp.symm.append_right X)
  size_iterate := by
    intro c i d
    obtain ⟨_, _, _, _, hs, _⟩ := connectIterate_ok c i d
    exact hs
  idx_iterate := by
    intro c i d r hr
    obtain ⟨_, _, _, _, _, _, _, hres, _⟩ := connectIterate_ok c i d
    exact hres r hr
  path_nonempty := by
    intro c i h
    show (if i < c.ts.size then walk c.ts i [] else c.joined) ≠ []
    split
    · rename_i hi; exact walk_ne_nil c.ts i [] hi
    · rename_i hi
      have hv : c.connValid = true := by
        have : i < c.ts.size + (if c.connValid then 1 else 0) := h
        cases hc : c.connValid with
        | true => rfl
        | false => simp [hc] at this; omega
      unfold BiTree.connValid at hv
      unfold BiTree.joined
      cases hc : c.conn with
      | none => simp [hc] at hv
      | some ab =>
        obtain ⟨a, b⟩ := ab
        simp only [hc, Bool.and_eq_true, decide_eq_true_eq] at hv
        simp only
        intro h0
        have := walk_ne_nil c.ts a [] hv.1
        simp at h0
        exact this h0.1


/-! ## a resumed solve keeps both trees -/

/-- both trees of `c` are prefixes of the trees of `c'` -/
def BiTree.le (c c' : BiTree σ) : Prop := c.ts.toList <+: c'.ts.toList ∧ c.tg.toList <+: c'.tg.toList

theorem BiTree.le_refl (c : BiTree σ) : c.le c := ⟨List.prefix_refl _, List.prefix_refl _⟩
theorem BiTree.le_trans {a b c : BiTree σ} (h1 : a.le b) (h2 : b.le c) : a.le c := ⟨h1.1.trans h2.1, h1.2.trans h2.2⟩

theorem connect_iterate_le (c : BiTree σ) (i : Nat) (d : BDraw σ δ) : c.le (connectIterate c i d).core := by
  obtain ⟨_, _, _, _, _, _, _, _, h1, h2⟩ := connectIterate_ok c i d
  exact ⟨h1, h2⟩

theorem connect_addRoot_le (c : BiTree σ) (i : Nat) (s : σ) : c.le (c.push true s none i) := by
  refine ⟨?_, by simp [BiTree.push]⟩
  simp only [BiTree.push, if_true, Array.toList_push]
  exact List.prefix_append _ _

abbrev rcc : CoreSpec σ δ (BDraw σ δ) (BiTree σ) := rrtConnectCore

theorem connect_consumeStarts_le : ∀ (ss : List (σ × Bool)) (c : BiTree σ) (n : Nat),
    c.le (consumeStarts (rcc (δ := δ)) ss c n).1 := by
  intro ss
  induction ss with
  | nil => intro c n; exact BiTree.le_refl c
  | cons a r ih =>
    intro c n
    obtain ⟨s, v⟩ := a
    cases v with
    | false => simpa [consumeStarts] using ih c n
    | true =>
      simp only [consumeStarts]
      exact BiTree.le_trans (connect_addRoot_le c n s) (ih _ _)

theorem connect_loop_le (ltD : δ → δ → Bool) : ∀ (k : Nat) (ds : List (BDraw σ δ)) (c : BiTree σ) (s : Search δ) (n : Nat),
    c.le (loop rcc ltD k ds c s n).core := by
  intro k
  induction k with
  | zero => intro ds c s n; simpa [loop] using BiTree.le_refl c
  | succ k ih =>
    intro ds c s n
    cases ds with
    | nil => simpa [loop] using BiTree.le_refl c
    | cons d ds =>
      simp only [loop]
      split
      · exact connect_iterate_le c n d
      · exact BiTree.le_trans (connect_iterate_le c n d) (ih ds _ _ _)

end OmplModel.PlannerProto
