import OmplModel.Proofs.SpaceDistSphere
import OmplModel.Proofs.SpaceDistDom
/-!
The sphere's REAL great-circle formula at the level of `Space ℝ` / `St ℝ`: `dist (.sphere r)` is
`r · ∠(u(a), u(b))` for the unit vectors of the two states, hence a metric on the sphere's points.
What separates this from the code: float32 arithmetic (rounding), the many-to-one parameterisation
at the poles (`equalStates` is componentwise on (θ, φ)), and the reported extent `2π` (vs `π·r`).
-/
namespace OmplModel.SpaceDist
open OmplModel InnerProductGeometry
attribute [-instance] OmplModel.Num.instOfNat

/-- the unit vector of a sphere state `[so2 θ, rv [φ]]` (`SphereStateSpace::toVector` / radius) -/
noncomputable def sphereVec : St ℝ → EuclideanSpace ℝ (Fin 3)
  | .ccons (.so2 t) (.ccons (.rv [p]) .cnil) => Sphere.uvec t p
  | _ => 0

/-- the state is not at a pole: `0 < φ < π` -/
def sphereOffPole : St ℝ → Prop
  | .ccons (.so2 _) (.ccons (.rv [p]) .cnil) => 0 < p ∧ p < Real.pi
  | _ => False

theorem sphere_dist_eq (r : ℝ) (t1 p1 t2 p2 : ℝ) :
    dist (.sphere r : Space ℝ) (.ccons (.so2 t1) (.ccons (.rv [p1]) .cnil)) (.ccons (.so2 t2) (.ccons (.rv [p2]) .cnil))
      = sphereDistReal r t1 p1 t2 p2 := by
  simp only [dist]; rfl

theorem sphere_is_angle (r : ℝ) (a b : St ℝ) (ha : inDom (.sphere r) a) (hb : inDom (.sphere r) b) :
    dist (.sphere r) a b = r * angle (sphereVec a) (sphereVec b) := by
  obtain ⟨t1, p1, rfl, _, _⟩ := sphere_shape ha
  obtain ⟨t2, p2, rfl, _, _⟩ := sphere_shape hb
  rw [sphere_dist_eq]
  exact Sphere.sphere_haversine_is_angle_all r t1 p1 t2 p2

theorem sphereVec_norm (r : ℝ) (a : St ℝ) (ha : inDom (.sphere r) a) : ‖sphereVec a‖ = 1 := by
  obtain ⟨t1, p1, rfl, _, _⟩ := sphere_shape ha
  exact Sphere.uvec_norm t1 p1

theorem sphere_nonneg' {r : ℝ} (hr : 0 ≤ r) (a b : St ℝ) (ha : inDom (.sphere r) a) (hb : inDom (.sphere r) b) :
    0 ≤ dist (.sphere r) a b := by
  rw [sphere_is_angle r a b ha hb]; exact mul_nonneg hr (angle_nonneg _ _)

theorem sphere_self' (r : ℝ) (a : St ℝ) (ha : inDom (.sphere r) a) : dist (.sphere r) a a = 0 := by
  obtain ⟨t1, p1, rfl, _, _⟩ := sphere_shape ha
  rw [sphere_dist_eq]; exact Sphere.sphere_self r t1 p1

theorem sphere_symm' (r : ℝ) (a b : St ℝ) (ha : inDom (.sphere r) a) (hb : inDom (.sphere r) b) :
    dist (.sphere r) a b = dist (.sphere r) b a := by
  rw [sphere_is_angle r a b ha hb, sphere_is_angle r b a hb ha, angle_comm]

theorem sphere_triangle' {r : ℝ} (hr : 0 ≤ r) (a b c : St ℝ) (ha : inDom (.sphere r) a) (hb : inDom (.sphere r) b)
    (hc : inDom (.sphere r) c) : dist (.sphere r) a c ≤ dist (.sphere r) a b + dist (.sphere r) b c := by
  rw [sphere_is_angle r a c ha hc, sphere_is_angle r a b ha hb, sphere_is_angle r b c hb hc, ← mul_add]
  exact mul_le_mul_of_nonneg_left (angle_le_angle_add_angle _ _ _) hr

theorem sphere_le_pi_r' {r : ℝ} (hr : 0 ≤ r) (a b : St ℝ) (ha : inDom (.sphere r) a) (hb : inDom (.sphere r) b) :
    dist (.sphere r) a b ≤ Real.pi * r := by
  rw [sphere_is_angle r a b ha hb, mul_comm Real.pi r]
  exact mul_le_mul_of_nonneg_left (angle_le_pi _ _) hr

theorem sphere_zero_iff' {r : ℝ} (hr : 0 < r) (a b : St ℝ) (ha : inDom (.sphere r) a) (hb : inDom (.sphere r) b) :
    dist (.sphere r) a b = 0 ↔ sphereVec a = sphereVec b := by
  obtain ⟨t1, p1, rfl, _, _⟩ := sphere_shape ha
  obtain ⟨t2, p2, rfl, _, _⟩ := sphere_shape hb
  rw [sphere_dist_eq]; exact Sphere.sphere_zero_iff hr t1 p1 t2 p2

/-- off the poles the parameterisation is injective, so positivity holds w.r.t. the code's own `equalStates` -/
theorem sphere_pos_off_pole {r : ℝ} (hr : 0 < r) (a b : St ℝ) (ha : inDom (.sphere r) a) (hb : inDom (.sphere r) b)
    (hoff : sphereOffPole a) (hne : equalStates (.sphere r) a b = false) : 0 < dist (.sphere r) a b := by
  obtain ⟨t1, p1, rfl, ht1, hp1⟩ := sphere_shape ha
  obtain ⟨t2, p2, rfl, ht2, hp2⟩ := sphere_shape hb
  rw [sphere_dist_eq]
  apply Sphere.sphere_pos_of_vec_ne hr
  intro hv
  rw [so2InBounds_real] at ht1 ht2
  simp only [sphereOffPole] at hoff
  obtain ⟨e1, e2⟩ := Sphere.uvec_inj_off_poles hoff.1 hoff.2 ht1.2 ht1.1 ht2.2 ht2.1 hp2.1 hp2.2 hv
  subst e1 e2
  simp only [equalStates] at hne
  have h1 : so2Equal t1 t1 = true := by
    rw [so2Equal_real]; simp only [sub_self, abs_zero]; exact mul_pos eps_pos (by norm_num)
  rw [h1, rvEqual_self] at hne
  exact absurd hne (by simp)

end OmplModel.SpaceDist
