import OmplModel.Proofs.DubinsAF
/-!
The symmetric Dubins variant (C14, round 3), arithmetic-free part.  Core Lean only, generic over `[DNum α]`.

* `distance_spec`: `distance` is `rho * L(a→b)`, and `rho * min(L(a→b), L(b→a))` when symmetric, as coded.
* `choosePath_sym`: which path `interpolate` stores: the `b→a` path marked `reverse_` iff it is strictly shorter.
* `segList_reversed`, `segList_reversed_word`: a path marked `reverse_` is driven through its segments in
  reversed order, each *type* paired with its *own* length (types read at `2 - i`, lengths at `2 - i`).
* `interpolate_reversed`: hence `interpolate(t)` drives the truncated reversed word with `stepRev`.
-/
namespace OmplModel.Dubins
open OmplModel

section
variable {α : Type} [DNum α]

/-- `distance(s1, s2)` as coded: `rho * length`, or `rho * std::min(l12, l21)` for the symmetric variant -/
theorem distance_spec (rho : α) (s1 s2 : Pose α) (l12 l21 : α)
    (h1 : (dubinsStates rho s1 s2).len = some l12) (h2 : (dubinsStates rho s2 s1).len = some l21) :
    distance rho false s1 s2 = some (rho * l12) ∧
    distance rho true s1 s2 = some (rho * Num.min l12 l21) := by
  unfold distance
  rw [h1, h2]
  exact ⟨rfl, rfl⟩

/-- the path `interpolate` stores for the symmetric variant: the `to → from` path, marked `reverse_`, iff it
is strictly shorter than the `from → to` path -/
theorem choosePath_sym (rho : α) (frm to : Pose α) (P P2 : Path α)
    (h1 : dubinsStates rho frm to = .path P) (h2 : dubinsStates rho to frm = .path P2) :
    choosePath rho true frm to = if P2.len < P.len then .path { P2 with rev := true } else .path P := by
  unfold choosePath
  rw [h1, h2]
  rfl

/-- the plain variant never reverses -/
theorem choosePath_plain (rho : α) (frm to : Pose α) (P : Path α) (h1 : dubinsStates rho frm to = .path P) :
    choosePath rho false frm to = .path P := by
  unfold choosePath
  rw [h1]
  rfl

/-- a path marked `reverse_` is driven through the reversed list of (type, length) pairs -/
theorem segList_reversed (P : Path α) :
    Path.segList { P with rev := true } = (P.w.segs.zip [P.t, P.p, P.q]).reverse := by
  simp [Path.segList]

/-- explicitly: third letter with `q` first, then second with `p`, then first with `t` -/
theorem segList_reversed_word (w : Word) (t p q : α) :
    Path.segList (⟨w, t, p, q, true⟩ : Path α) =
      match w.segs with
      | [s1, s2, s3] => [(s3, q), (s2, p), (s1, t)]
      | _ => [] := by
  cases w <;> rfl

theorem word_segs_three (w : Word) : ∃ s1 s2 s3, w.segs = [s1, s2, s3] := by
  cases w <;> exact ⟨_, _, _, rfl⟩

/-- `interpolate(from, to, t)` for `0 < t < 1` when the stored path is marked `reverse_`: the reversed word,
truncated to `t * length`, driven with `stepRev` from `(0, 0, yaw(from))`, then scaled, translated, wrapped -/
theorem interpolate_reversed (rho : α) (sym : Bool) (frm to : Pose α) (t : α) (P : Path α)
    (ht1 : ¬ 1 ≤ t) (ht0 : ¬ t ≤ 0) (hc : choosePath rho sym frm to = .path P) (hrev : P.rev = true) :
    interpolate rho sym frm to t =
      some ⟨(integFull stepRev (truncate ((P.w.segs.zip [P.t, P.p, P.q]).reverse) (t * P.len)) ⟨0, 0, frm.th⟩).x * rho + frm.x,
            (integFull stepRev (truncate ((P.w.segs.zip [P.t, P.p, P.q]).reverse) (t * P.len)) ⟨0, 0, frm.th⟩).y * rho + frm.y,
            so2Enforce (integFull stepRev (truncate ((P.w.segs.zip [P.t, P.p, P.q]).reverse) (t * P.len)) ⟨0, 0, frm.th⟩).th⟩ := by
  unfold interpolate
  rw [if_neg ht1, if_neg ht0, hc]
  simp only
  rw [interpPath_eq]
  simp [Path.segList, hrev]

end
end OmplModel.Dubins
