import OmplModel.Model.SpaceBounds
/-!
C08 helper lemmas, part 2 (core Lean only, `[AF]`: no arithmetic law of any number type is used, so
everything here holds for the `Float` instantiation that the driver runs): soundness of the six
valid-state sampler loops over an arbitrary oracle, by induction over the attempt counter.
-/
namespace OmplModel.SpaceBounds
variable {σ κ : Type}

/-- the queries recorded between oracle states `s` and `s'` contain `(x, true, c)`: the validity checker was
asked about `x` during this call and answered `true` (with clearance `c`) -/
def Validated (s s' : OS σ κ) (x : σ) (c : κ) : Prop :=
  ∃ new, s'.log = new ++ s.log ∧ (x, true, c) ∈ new

/-- `s'` extends `s` by further recorded queries -/
def Ext (s s' : OS σ κ) : Prop := ∃ new, s'.log = new ++ s.log

theorem Ext.refl (s : OS σ κ) : Ext s s := ⟨[], by simp⟩
theorem Ext.trans {a b c : OS σ κ} (h1 : Ext a b) (h2 : Ext b c) : Ext a c := by
  obtain ⟨n1, e1⟩ := h1; obtain ⟨n2, e2⟩ := h2
  exact ⟨n2 ++ n1, by rw [e2, e1, List.append_assoc]⟩

theorem Validated.ext_left {a b c : OS σ κ} {x : σ} {k : κ} (h1 : Ext a b) (h2 : Validated b c x k) :
    Validated a c x k := by
  obtain ⟨n1, e1⟩ := h1; obtain ⟨n2, e2, m⟩ := h2
  exact ⟨n2 ++ n1, by rw [e2, e1, List.append_assoc], List.mem_append_left _ m⟩

theorem Validated.ext_right {a b c : OS σ κ} {x : σ} {k : κ} (h1 : Validated a b x k) (h2 : Ext b c) :
    Validated a c x k := by
  obtain ⟨n1, e1, m⟩ := h1; obtain ⟨n2, e2⟩ := h2
  exact ⟨n2 ++ n1, by rw [e2, e1, List.append_assoc], List.mem_append_right _ m⟩

theorem Validated.ext {a b : OS σ κ} {x : σ} {k : κ} (h : Validated a b x k) : Ext a b := by
  obtain ⟨n, e, _⟩ := h; exact ⟨n, e⟩

theorem ext_draw (o : Orc σ κ) (c : Call) (s : OS σ κ) : Ext s (draw o c s).2 := ⟨[], by simp [draw]⟩
theorem ext_ask (o : Orc σ κ) (x : σ) (s : OS σ κ) : Ext s (ask o x s).2 :=
  ⟨[(x, (o.ans s.ai).1, (o.ans s.ai).2)], by simp [ask]⟩

/-- asking about `x` and getting `true` validates `x` -/
theorem validated_ask (o : Orc σ κ) (x : σ) (s : OS σ κ) (h : (ask o x s).1.1 = true) :
    Validated s (ask o x s).2 x (ask o x s).1.2 := by
  refine ⟨[(x, (o.ans s.ai).1, (o.ans s.ai).2)], by simp [ask], ?_⟩
  simp only [ask] at h
  simp [ask, h]

/-- one `sample; isValid` step: the oracle state after drawing and asking -/
def step1 (o : Orc σ κ) (c : Call) (s : OS σ κ) : OS σ κ := (ask o (draw o c s).1 (draw o c s).2).2

theorem ext_step1 (o : Orc σ κ) (c : Call) (s : OS σ κ) : Ext s (step1 o c s) :=
  (ext_draw o c s).trans (ext_ask o _ _)

/-! ### Uniform -/
theorem uniformV_sound (o : Orc σ κ) (c : Call) : ∀ (n : Nat) (s : OS σ κ),
    (uniformV o c n s).ok = true → ∃ k, Validated s (uniformV o c n s).os (uniformV o c n s).st k
  | 0, s => by
    intro h
    simp only [uniformV] at h ⊢
    exact ⟨_, (validated_ask o _ _ h).ext_left (ext_draw o c s)⟩
  | n + 1, s => by
    intro h
    simp only [uniformV] at h ⊢
    split at h
    · rename_i hv
      simp only [hv, if_true]
      exact ⟨_, (validated_ask o _ _ hv).ext_left (ext_draw o c s)⟩
    · rename_i hv
      simp only [hv] at h ⊢
      obtain ⟨k, hk⟩ := uniformV_sound o c n _ h
      exact ⟨k, hk.ext_left (ext_step1 o c s)⟩

theorem uniformV_ext (o : Orc σ κ) (c : Call) : ∀ (n : Nat) (s : OS σ κ), Ext s (uniformV o c n s).os
  | 0, s => by simp only [uniformV]; exact ext_step1 o c s
  | n + 1, s => by
    simp only [uniformV]
    split
    · exact ext_step1 o c s
    · exact (ext_step1 o c s).trans (uniformV_ext o c n _)

/-! ### Gaussian -/
/-- oracle state after one Gaussian iteration (`sample, isValid, sampleGaussian, isValid`) -/
def step2 (o : Orc σ κ) (c : Call) (s : OS σ κ) : OS σ κ := step1 o .gauss (step1 o c s)

theorem ext_step2 (o : Orc σ κ) (c : Call) (s : OS σ κ) : Ext s (step2 o c s) :=
  (ext_step1 o c s).trans (ext_step1 o .gauss _)

theorem gauss_body (o : Orc σ κ) (c : Call) (s : OS σ κ)
    (h : ((ask o (draw o c s).1 (draw o c s).2).1.1 !=
          (ask o (draw o .gauss (step1 o c s)).1 (draw o .gauss (step1 o c s)).2).1.1) = true) :
    ∃ k, Validated s (step2 o c s)
      (if (ask o (draw o .gauss (step1 o c s)).1 (draw o .gauss (step1 o c s)).2).1.1 = true
        then (draw o .gauss (step1 o c s)).1 else (draw o c s).1) k := by
  by_cases h2 : (ask o (draw o .gauss (step1 o c s)).1 (draw o .gauss (step1 o c s)).2).1.1 = true
  · rw [if_pos h2]
    exact ⟨_, ((validated_ask o _ _ h2).ext_left (ext_draw o .gauss _)).ext_left (ext_step1 o c s)⟩
  · rw [if_neg h2]
    have h1 : (ask o (draw o c s).1 (draw o c s).2).1.1 = true := by
      cases hh : (ask o (draw o c s).1 (draw o c s).2).1.1 <;> simp_all
    exact ⟨_, ((validated_ask o _ _ h1).ext_left (ext_draw o c s)).ext_right (ext_step1 o .gauss _)⟩

theorem gaussV_sound (o : Orc σ κ) (c : Call) : ∀ (n : Nat) (s : OS σ κ),
    (gaussV o c n s).ok = true → ∃ k, Validated s (gaussV o c n s).os (gaussV o c n s).st k
  | 0, s => by
    intro h
    simp only [gaussV] at h ⊢
    split at h
    · rename_i hv
      simp only [hv, if_true]
      exact gauss_body o c s hv
    · simp at h
  | n + 1, s => by
    intro h
    simp only [gaussV] at h ⊢
    split at h
    · rename_i hv
      simp only [hv, if_true]
      exact gauss_body o c s hv
    · rename_i hv
      simp only [hv] at h ⊢
      obtain ⟨k, hk⟩ := gaussV_sound o c n _ h
      exact ⟨k, hk.ext_left (ext_step2 o c s)⟩

/-! ### MinimumClearance -/
theorem minClearV_sound (o : Orc σ κ) (lt : κ → κ → Bool) (cl : κ) (c : Call) : ∀ (n : Nat) (s : OS σ κ),
    (minClearV o lt cl c n s).ok = true →
    ∃ k, Validated s (minClearV o lt cl c n s).os (minClearV o lt cl c n s).st k ∧ lt k cl = false
  | 0, s => by
    intro h
    simp only [minClearV] at h ⊢
    split at h
    · simp at h
    · rename_i hl
      exact ⟨_, (validated_ask o _ _ h).ext_left (ext_draw o c s), by simpa using hl⟩
  | n + 1, s => by
    intro h
    simp only [minClearV] at h ⊢
    by_cases hc : (if lt (ask o (draw o c s).1 (draw o c s).2).1.2 cl = true then false
        else (ask o (draw o c s).1 (draw o c s).2).1.1) = true
    · rw [if_pos hc]
      by_cases hl : lt (ask o (draw o c s).1 (draw o c s).2).1.2 cl = true
      · simp [hl] at hc
      · rw [if_neg hl] at hc
        exact ⟨_, (validated_ask o _ _ hc).ext_left (ext_draw o c s), by simpa using hl⟩
    · rw [if_neg hc] at h ⊢
      obtain ⟨k, hk, hl⟩ := minClearV_sound o lt cl c n _ h
      exact ⟨k, hk.ext_left (ext_step1 o c s), hl⟩

/-! ### MaximizeClearance -/
theorem maxClearFirst_sound (o : Orc σ κ) (c : Call) : ∀ (n : Nat) (s : OS σ κ),
    (maxClearFirst o c n s).1.ok = true →
    Validated s (maxClearFirst o c n s).1.os (maxClearFirst o c n s).1.st (maxClearFirst o c n s).2
  | 0, s => by
    intro h
    simp only [maxClearFirst] at h ⊢
    exact (validated_ask o _ _ h).ext_left (ext_draw o c s)
  | n + 1, s => by
    intro h
    simp only [maxClearFirst] at h ⊢
    split at h
    · rename_i hv
      simp only [hv, if_true]
      exact (validated_ask o _ _ hv).ext_left (ext_draw o c s)
    · rename_i hv
      simp only [hv] at h ⊢
      exact (maxClearFirst_sound o c n _ h).ext_left (ext_step1 o c s)

/-- the improvement loop keeps "the current `state` was validated with clearance `dist`" -/
theorem maxClearImprove_sound (o : Orc σ κ) (lt : κ → κ → Bool) (c : Call) (s0 : OS σ κ) :
    ∀ (k : Nat) (st : σ) (dist : κ) (s : OS σ κ), Validated s0 s st dist →
    ∃ d, Validated s0 (maxClearImprove o lt c k st dist s).2 (maxClearImprove o lt c k st dist s).1 d
  | 0, st, dist, s, h => ⟨dist, by simpa [maxClearImprove] using h⟩
  | k + 1, st, dist, s, h => by
    simp only [maxClearImprove]
    split
    · rename_i hv
      simp only [Bool.and_eq_true] at hv
      exact maxClearImprove_sound o lt c s0 k _ _ _
        (((validated_ask o _ _ hv.1).ext_left (ext_draw o c s)).ext_left h.ext)
    · exact maxClearImprove_sound o lt c s0 k _ _ _ (h.ext_right (ext_step1 o c s))

theorem maxClearV_sound (o : Orc σ κ) (lt : κ → κ → Bool) (c : Call) (n improve : Nat) (s : OS σ κ) :
    (maxClearV o lt c n improve s).ok = true →
    ∃ k, Validated s (maxClearV o lt c n improve s).os (maxClearV o lt c n improve s).st k := by
  intro h
  simp only [maxClearV] at h ⊢
  split at h
  · rename_i hv
    simp only [hv, if_true]
    exact maxClearImprove_sound o lt c s improve _ _ _ (maxClearFirst_sound o c n s hv)
  · simp at h

/-! ### BridgeTest -/
theorem bridge_body (o : Orc σ κ) (m : σ) (s0 s : OS σ κ) (he : Ext s0 s) (h : (ask o m s).1.1 = true) :
    ∃ k, Validated s0 (ask o m s).2 m k := ⟨_, (validated_ask o m s h).ext_left he⟩

theorem bridgeV_ext_sound (o : Orc σ κ) (mid : σ → σ → σ) (c : Call) : ∀ (n : Nat) (s : OS σ κ),
    Ext s (bridgeV o mid c n s).os ∧
    ((bridgeV o mid c n s).ok = true → ∃ k, Validated s (bridgeV o mid c n s).os (bridgeV o mid c n s).st k)
  | 0, s => by
    simp only [bridgeV]
    split
    · split
      · refine ⟨(ext_step2 o c s).trans (ext_ask o _ _), fun h => ?_⟩
        exact bridge_body o _ s _ (ext_step2 o c s) h
      · exact ⟨ext_step2 o c s, fun h => by simp at h⟩
    · exact ⟨ext_step1 o c s, fun h => by simp at h⟩
  | n + 1, s => by
    simp only [bridgeV]
    split
    · split
      · split
        · rename_i hv
          refine ⟨(ext_step2 o c s).trans (ext_ask o _ _), fun _ => ?_⟩
          exact bridge_body o _ s _ (ext_step2 o c s) hv
        · have ih := bridgeV_ext_sound o mid c n (ask o (mid (draw o .gauss (step1 o c s)).1 (draw o c s).1) (step2 o c s)).2
          have e : Ext s (ask o (mid (draw o .gauss (step1 o c s)).1 (draw o c s).1) (step2 o c s)).2 :=
            (ext_step2 o c s).trans (ext_ask o _ _)
          exact ⟨e.trans ih.1, fun h => by obtain ⟨k, hk⟩ := ih.2 h; exact ⟨k, hk.ext_left e⟩⟩
      · have ih := bridgeV_ext_sound o mid c n (step2 o c s)
        exact ⟨(ext_step2 o c s).trans ih.1, fun h => by
          obtain ⟨k, hk⟩ := ih.2 h; exact ⟨k, hk.ext_left (ext_step2 o c s)⟩⟩
    · have ih := bridgeV_ext_sound o mid c n (step1 o c s)
      exact ⟨(ext_step1 o c s).trans ih.1, fun h => by
        obtain ⟨k, hk⟩ := ih.2 h; exact ⟨k, hk.ext_left (ext_step1 o c s)⟩⟩

/-! ### ObstacleBased -/
theorem findInvalid_ext (o : Orc σ κ) (c : Call) : ∀ (n : Nat) (s : OS σ κ), Ext s (findInvalid o c n s).os
  | 0, s => by simp only [findInvalid]; exact ext_step1 o c s
  | n + 1, s => by
    simp only [findInvalid]
    split
    · exact (ext_step1 o c s).trans (findInvalid_ext o c n _)
    · exact ext_step1 o c s

/-- the `for (j = 1; j < nd; ++j)` loop: on failure `state` holds the interpolated state just before the failing one,
which is either the one at index `j-1` on entry or one that was answered `true` inside this loop; on success every
test state up to index `j + k - 1` was answered `true` -/
theorem motionLoop_spec (o : Orc σ κ) (interp : σ → σ → Nat → Nat → σ) (s1 s2 : σ) (nd : Nat) :
    ∀ (k j : Nat) (s : OS σ κ),
    Ext s (motionLoop o interp s1 s2 nd k j s).os ∧
    ((motionLoop o interp s1 s2 nd k j s).ok = false →
      ((motionLoop o interp s1 s2 nd k j s).st = interp s1 s2 (j - 1) nd ∨
       ∃ c, Validated s (motionLoop o interp s1 s2 nd k j s).os (motionLoop o interp s1 s2 nd k j s).st c)) ∧
    ((motionLoop o interp s1 s2 nd k j s).ok = true →
      ((motionLoop o interp s1 s2 nd k j s).st = s2 ∧
       (k = 0 ∨ ∃ c, Validated s (motionLoop o interp s1 s2 nd k j s).os (interp s1 s2 (j + k - 1) nd) c)))
  | 0, j, s => by
    simp only [motionLoop]
    exact ⟨Ext.refl s, fun h => by simp at h, fun _ => by simp⟩
  | k + 1, j, s => by
    simp only [motionLoop]
    split
    · rename_i hv
      have ih := motionLoop_spec o interp s1 s2 nd k (j + 1) (ask o (interp s1 s2 j nd) s).2
      have hval := validated_ask o (interp s1 s2 j nd) s hv
      refine ⟨(ext_ask o _ s).trans ih.1, fun h => Or.inr ?_, fun h => ⟨(ih.2.2 h).1, Or.inr ?_⟩⟩
      · rcases ih.2.1 h with he | ⟨c, hc⟩
        · rw [he]; simp only [Nat.add_sub_cancel]
          exact ⟨_, hval.ext_right ih.1⟩
        · exact ⟨c, hc.ext_left (ext_ask o _ s)⟩
      · rcases (ih.2.2 h).2 with hk | ⟨c, hc⟩
        · subst hk
          simp only [Nat.zero_add, Nat.add_sub_cancel]
          exact ⟨_, hval.ext_right ih.1⟩
        · have e : j + 1 + k - 1 = j + (k + 1) - 1 := by omega
          rw [e] at hc
          exact ⟨c, hc.ext_left (ext_ask o _ s)⟩
    · exact ⟨ext_ask o _ s, fun _ => Or.inl rfl, fun h => by simp at h⟩

/-- `checkMotion(temp, state, lastValid = state)`: afterwards `state` holds `temp` itself or a state that was
answered `true` during the call (assuming `interpolate(a, b, 0) = a`) -/
theorem checkMotionLV_spec (o : Orc σ κ) (segs : σ → σ → Nat) (interp : σ → σ → Nat → Nat → σ)
    (h0 : ∀ a b n, interp a b 0 n = a) (s1 s2 : σ) (s : OS σ κ) :
    Ext s (checkMotionLV o segs interp s1 s2 s).os ∧
    ((checkMotionLV o segs interp s1 s2 s).st = s1 ∨
      ∃ c, Validated s (checkMotionLV o segs interp s1 s2 s).os (checkMotionLV o segs interp s1 s2 s).st c) := by
  simp only [checkMotionLV]
  have sp := motionLoop_spec o interp s1 s2 (segs s1 s2) (segs s1 s2 - 1) 1 s
  split
  · rename_i hok
    have hs := sp.2.2 hok
    split
    · rename_i hv
      exact ⟨sp.1.trans (ext_ask o _ _), Or.inr ⟨_, (validated_ask o s2 _ hv).ext_left sp.1⟩⟩
    · refine ⟨sp.1.trans (ext_ask o _ _), ?_⟩
      rcases hs.2 with hk | ⟨c, hc⟩
      · rw [hk, h0]; exact Or.inl rfl
      · have e : 1 + (segs s1 s2 - 1) - 1 = segs s1 s2 - 1 := by omega
        rw [e] at hc
        exact Or.inr ⟨c, hc.ext_right (ext_ask o _ _)⟩
  · rename_i hok
    refine ⟨sp.1, ?_⟩
    rcases sp.2.1 (by simpa using hok) with he | hc
    · rw [he]; simp only [Nat.sub_self]; rw [h0]; exact Or.inl rfl
    · exact Or.inr hc

theorem obstacleVOld_sound (o : Orc σ κ) (segs : σ → σ → Nat) (interp : σ → σ → Nat → Nat → σ)
    (h0 : ∀ a b n, interp a b 0 n = a) (c : Call) (n : Nat) (s : OS σ κ) :
    (obstacleVOld o segs interp c n s).ok = true →
    ∃ k, Validated s (obstacleVOld o segs interp c n s).os (obstacleVOld o segs interp c n s).st k := by
  intro h
  simp only [obstacleVOld] at h ⊢
  split at h
  · simp at h
  · rename_i h1
    simp only [h1] at h ⊢
    split at h
    · rename_i h2
      simp only [h2, if_true]
      have e1 := findInvalid_ext o c n s
      obtain ⟨k, hk⟩ := uniformV_sound o .uniform n _ h2
      have sp := checkMotionLV_spec o segs interp h0 (uniformV o .uniform n (findInvalid o c n s).os).st
        (findInvalid o c n s).st (uniformV o .uniform n (findInvalid o c n s).os).os
      rcases sp.2 with he | ⟨c', hc⟩
      · rw [he]; exact ⟨k, (hk.ext_left e1).ext_right sp.1⟩
      · exact ⟨c', hc.ext_left (e1.trans hk.ext)⟩
    · simp at h

/-! ### ObstacleBased as fixed by 96c4da7bb -/

/-- the loop with the `lastValid.second` numerator: on failure either it failed at the entry index (numerator `j - 1`,
`state = interp (j-1)`) or the state written to `state` was answered `true` inside the loop; on success the numerator
is untouched (0) and every test state up to index `j + k - 1` was answered `true` -/
theorem motionLoopF_spec (o : Orc σ κ) (interp : σ → σ → Nat → Nat → σ) (s1 s2 : σ) (nd : Nat) :
    ∀ (k j : Nat) (s : OS σ κ),
    Ext s (motionLoopF o interp s1 s2 nd k j s).1.os ∧
    ((motionLoopF o interp s1 s2 nd k j s).1.ok = false →
      (((motionLoopF o interp s1 s2 nd k j s).2 = (j : Int) - 1 ∧
        (motionLoopF o interp s1 s2 nd k j s).1.st = interp s1 s2 (j - 1) nd) ∨
       ∃ c, Validated s (motionLoopF o interp s1 s2 nd k j s).1.os (motionLoopF o interp s1 s2 nd k j s).1.st c)) ∧
    ((motionLoopF o interp s1 s2 nd k j s).1.ok = true →
      ((motionLoopF o interp s1 s2 nd k j s).2 = 0 ∧
       (k = 0 ∨ ∃ c, Validated s (motionLoopF o interp s1 s2 nd k j s).1.os (interp s1 s2 (j + k - 1) nd) c)))
  | 0, j, s => by
    simp only [motionLoopF]
    exact ⟨Ext.refl s, fun h => by simp at h, fun _ => by simp⟩
  | k + 1, j, s => by
    simp only [motionLoopF]
    split
    · rename_i hv
      have ih := motionLoopF_spec o interp s1 s2 nd k (j + 1) (ask o (interp s1 s2 j nd) s).2
      have hval := validated_ask o (interp s1 s2 j nd) s hv
      refine ⟨(ext_ask o _ s).trans ih.1, fun h => Or.inr ?_, fun h => ⟨(ih.2.2 h).1, Or.inr ?_⟩⟩
      · rcases ih.2.1 h with ⟨_, he⟩ | ⟨c, hc⟩
        · rw [he]; simp only [Nat.add_sub_cancel]
          exact ⟨_, hval.ext_right ih.1⟩
        · exact ⟨c, hc.ext_left (ext_ask o _ s)⟩
      · rcases (ih.2.2 h).2 with hk | ⟨c, hc⟩
        · subst hk
          simp only [Nat.zero_add, Nat.add_sub_cancel]
          exact ⟨_, hval.ext_right ih.1⟩
        · have e : j + 1 + k - 1 = j + (k + 1) - 1 := by omega
          rw [e] at hc
          exact ⟨c, hc.ext_left (ext_ask o _ s)⟩
    · exact ⟨ext_ask o _ s, fun _ => Or.inl ⟨rfl, rfl⟩, fun h => by simp at h⟩

/-- after `checkMotion(temp, state, fail = (state, 0.0))` with at least one segment: `fail.second == 0.0`, or `state`
holds a state that was answered `true` during the call.  No assumption on `interpolate`. -/
theorem checkMotionF_spec (o : Orc σ κ) (segs : σ → σ → Nat) (interp : σ → σ → Nat → Nat → σ)
    (s1 s2 : σ) (hseg : 1 ≤ segs s1 s2) (s : OS σ κ) :
    Ext s (checkMotionF o segs interp s1 s2 s).1.os ∧
    ((checkMotionF o segs interp s1 s2 s).2 = 0 ∨
      ∃ c, Validated s (checkMotionF o segs interp s1 s2 s).1.os (checkMotionF o segs interp s1 s2 s).1.st c) := by
  simp only [checkMotionF]
  have sp := motionLoopF_spec o interp s1 s2 (segs s1 s2) (segs s1 s2 - 1) 1 s
  split
  · rename_i hok
    have hs := sp.2.2 hok
    split
    · exact ⟨sp.1.trans (ext_ask o _ _), Or.inl rfl⟩
    · refine ⟨sp.1.trans (ext_ask o _ _), ?_⟩
      rcases hs.2 with hk | ⟨c, hc⟩
      · left; omega
      · have e : 1 + (segs s1 s2 - 1) - 1 = segs s1 s2 - 1 := by omega
        rw [e] at hc
        exact Or.inr ⟨c, hc.ext_right (ext_ask o _ _)⟩
  · rename_i hok
    refine ⟨sp.1, ?_⟩
    rcases sp.2.1 (by simpa using hok) with ⟨he, _⟩ | hc
    · left; rw [he]; simp
    · exact Or.inr hc

/-- the fixed ObstacleBased sampler is sound for every interpolation function; what remains assumed is that
`validSegmentCount` of the pair is at least 1 (it is 0 only for two states at distance 0, where the code computes
`lastValid.second = -1/0`) -/
theorem obstacleV_sound (o : Orc σ κ) (segs : σ → σ → Nat) (interp : σ → σ → Nat → Nat → σ)
    (hseg : ∀ a b, 1 ≤ segs a b) (c : Call) (n : Nat) (s : OS σ κ) :
    (obstacleV o segs interp c n s).ok = true →
    ∃ k, Validated s (obstacleV o segs interp c n s).os (obstacleV o segs interp c n s).st k := by
  intro h
  simp only [obstacleV] at h ⊢
  split at h
  · simp at h
  · rename_i h1
    simp only [h1] at h ⊢
    split at h
    · rename_i h2
      simp only [h2, if_true]
      have e1 := findInvalid_ext o c n s
      obtain ⟨k, hk⟩ := uniformV_sound o .uniform n _ h2
      have sp := checkMotionF_spec o segs interp (uniformV o .uniform n (findInvalid o c n s).os).st
        (findInvalid o c n s).st (hseg _ _) (uniformV o .uniform n (findInvalid o c n s).os).os
      by_cases hz : (checkMotionF o segs interp (uniformV o .uniform n (findInvalid o c n s).os).st
          (findInvalid o c n s).st (uniformV o .uniform n (findInvalid o c n s).os).os).2 = 0
      · rw [if_pos hz]
        exact ⟨k, (hk.ext_left e1).ext_right sp.1⟩
      · rw [if_neg hz]
        rcases sp.2 with he | ⟨c', hc⟩
        · exact absurd he hz
        · exact ⟨c', hc.ext_left (e1.trans hk.ext)⟩
    · simp at h

end OmplModel.SpaceBounds
