import OmplModel.Model.SpaceBounds
/-!
C08 helper lemmas, part 2 (core Lean only, `[AF]`: no arithmetic law of any number type is used, so
everything here holds for the `Float` instantiation that the driver runs): soundness of the six
valid-state sampler loops over an arbitrary oracle, by induction over the attempt counter.
-/
namespace OmplModel.SpaceBounds
variable {σ δ κ : Type}

/-- the queries recorded between oracle states `s` and `s'` contain `(x, true, c)`: the validity checker was
asked about `x` during this call and answered `true` (with clearance `c`) -/
def Validated (s s' : OS σ δ κ) (x : σ) (c : κ) : Prop :=
  ∃ new, s'.log = new ++ s.log ∧ (x, true, c) ∈ new

/-- `s'` extends `s` by further recorded queries -/
def Ext (s s' : OS σ δ κ) : Prop := ∃ new, s'.log = new ++ s.log

theorem Ext.refl (s : OS σ δ κ) : Ext s s := ⟨[], by simp⟩
theorem Ext.trans {a b c : OS σ δ κ} (h1 : Ext a b) (h2 : Ext b c) : Ext a c := by
  obtain ⟨n1, e1⟩ := h1; obtain ⟨n2, e2⟩ := h2
  exact ⟨n2 ++ n1, by rw [e2, e1, List.append_assoc]⟩

theorem Validated.ext_left {a b c : OS σ δ κ} {x : σ} {k : κ} (h1 : Ext a b) (h2 : Validated b c x k) :
    Validated a c x k := by
  obtain ⟨n1, e1⟩ := h1; obtain ⟨n2, e2, m⟩ := h2
  exact ⟨n2 ++ n1, by rw [e2, e1, List.append_assoc], List.mem_append_left _ m⟩

theorem Validated.ext_right {a b c : OS σ δ κ} {x : σ} {k : κ} (h1 : Validated a b x k) (h2 : Ext b c) :
    Validated a c x k := by
  obtain ⟨n1, e1, m⟩ := h1; obtain ⟨n2, e2⟩ := h2
  exact ⟨n2 ++ n1, by rw [e2, e1, List.append_assoc], List.mem_append_right _ m⟩

theorem Validated.ext {a b : OS σ δ κ} {x : σ} {k : κ} (h : Validated a b x k) : Ext a b := by
  obtain ⟨n, e, _⟩ := h; exact ⟨n, e⟩

theorem ext_draw (o : Orc σ δ κ) (c : Call σ δ) (s : OS σ δ κ) : Ext s (draw o c s).2 := ⟨[], by simp [draw]⟩
theorem ext_ask (o : Orc σ δ κ) (x : σ) (s : OS σ δ κ) : Ext s (ask o x s).2 :=
  ⟨[(x, (o.ans s.ai).1, (o.ans s.ai).2)], by simp [ask]⟩

/-- asking about `x` and getting `true` validates `x` -/
theorem validated_ask (o : Orc σ δ κ) (x : σ) (s : OS σ δ κ) (h : (ask o x s).1.1 = true) :
    Validated s (ask o x s).2 x (ask o x s).1.2 := by
  refine ⟨[(x, (o.ans s.ai).1, (o.ans s.ai).2)], by simp [ask], ?_⟩
  simp only [ask] at h
  simp [ask, h]

/-- one `sample; isValid` step: the oracle state after drawing and asking -/
def step1 (o : Orc σ δ κ) (c : Call σ δ) (s : OS σ δ κ) : OS σ δ κ := (ask o (draw o c s).1 (draw o c s).2).2

theorem ext_step1 (o : Orc σ δ κ) (c : Call σ δ) (s : OS σ δ κ) : Ext s (step1 o c s) :=
  (ext_draw o c s).trans (ext_ask o _ _)

/-! ### Uniform -/
theorem uniformV_sound (o : Orc σ δ κ) (c : Call σ δ) : ∀ (n : Nat) (s : OS σ δ κ),
    (uniformV o c n s).ok = true → ∃ k, Validated s (uniformV o c n s).os (uniformV o c n s).st k
  | 0, s => by
    intro h
    simp only [uniformV] at h ⊢
    exact ⟨_, (validated_ask o _ _ h).ext_left (ext_draw o c s)⟩
  | n + 1, s => by
    intro h
    simp only [uniformV] at h ⊢
    split at h
    · rename_i hv
      simp only [hv, if_true]
      exact ⟨_, (validated_ask o _ _ hv).ext_left (ext_draw o c s)⟩
    · rename_i hv
      simp only [hv] at h ⊢
      obtain ⟨k, hk⟩ := uniformV_sound o c n _ h
      exact ⟨k, hk.ext_left (ext_step1 o c s)⟩

theorem uniformV_ext (o : Orc σ δ κ) (c : Call σ δ) : ∀ (n : Nat) (s : OS σ δ κ), Ext s (uniformV o c n s).os
  | 0, s => by simp only [uniformV]; exact ext_step1 o c s
  | n + 1, s => by
    simp only [uniformV]
    split
    · exact ext_step1 o c s
    · exact (ext_step1 o c s).trans (uniformV_ext o c n _)

/-! ### Gaussian -/
/-- oracle state after one Gaussian iteration (`sample, isValid, sampleGaussian, isValid`) -/
def step2 (o : Orc σ δ κ) (c : Call σ δ) (sd : δ) (s : OS σ δ κ) : OS σ δ κ :=
  step1 o (.gauss (draw o c s).1 sd) (step1 o c s)

theorem ext_step2 (o : Orc σ δ κ) (c : Call σ δ) (sd : δ) (s : OS σ δ κ) : Ext s (step2 o c sd s) :=
  (ext_step1 o c s).trans (ext_step1 o _ _)

theorem gauss_body (o : Orc σ δ κ) (c : Call σ δ) (sd : δ) (s : OS σ δ κ)
    (h : ((ask o (draw o c s).1 (draw o c s).2).1.1 !=
          (ask o (draw o (.gauss (draw o c s).1 sd) (step1 o c s)).1
                 (draw o (.gauss (draw o c s).1 sd) (step1 o c s)).2).1.1) = true) :
    ∃ k, Validated s (step2 o c sd s)
      (if (ask o (draw o (.gauss (draw o c s).1 sd) (step1 o c s)).1
                 (draw o (.gauss (draw o c s).1 sd) (step1 o c s)).2).1.1 = true
        then (draw o (.gauss (draw o c s).1 sd) (step1 o c s)).1 else (draw o c s).1) k := by
  by_cases h2 : (ask o (draw o (.gauss (draw o c s).1 sd) (step1 o c s)).1
                       (draw o (.gauss (draw o c s).1 sd) (step1 o c s)).2).1.1 = true
  · rw [if_pos h2]
    exact ⟨_, ((validated_ask o _ _ h2).ext_left (ext_draw o _ _)).ext_left (ext_step1 o c s)⟩
  · rw [if_neg h2]
    have h1 : (ask o (draw o c s).1 (draw o c s).2).1.1 = true := by
      cases hh : (ask o (draw o c s).1 (draw o c s).2).1.1 <;> simp_all
    exact ⟨_, ((validated_ask o _ _ h1).ext_left (ext_draw o c s)).ext_right (ext_step1 o _ _)⟩

theorem gaussV_sound (o : Orc σ δ κ) (c : Call σ δ) (sd : δ) : ∀ (n : Nat) (s : OS σ δ κ),
    (gaussV o c sd n s).ok = true → ∃ k, Validated s (gaussV o c sd n s).os (gaussV o c sd n s).st k
  | 0, s => by
    intro h
    simp only [gaussV] at h ⊢
    split at h
    · rename_i hv
      simp only [hv, if_true]
      exact gauss_body o c sd s hv
    · simp at h
  | n + 1, s => by
    intro h
    simp only [gaussV] at h ⊢
    split at h
    · rename_i hv
      simp only [hv, if_true]
      exact gauss_body o c sd s hv
    · rename_i hv
      simp only [hv] at h ⊢
      obtain ⟨k, hk⟩ := gaussV_sound o c sd n _ h
      exact ⟨k, hk.ext_left (ext_step2 o c sd s)⟩

/-! ### MinimumClearance -/
theorem minClearV_sound (o : Orc σ δ κ) (lt : κ → κ → Bool) (cl : κ) (c : Call σ δ) : ∀ (n : Nat) (s : OS σ δ κ),
    (minClearV o lt cl c n s).ok = true →
    ∃ k, Validated s (minClearV o lt cl c n s).os (minClearV o lt cl c n s).st k ∧ lt k cl = false
  | 0, s => by
    intro h
    simp only [minClearV] at h ⊢
    split at h
    · simp at h
    · rename_i hl
      exact ⟨_, (validated_ask o _ _ h).ext_left (ext_draw o c s), by simpa using hl⟩
  | n + 1, s => by
    intro h
    simp only [minClearV] at h ⊢
    by_cases hc : (if lt (ask o (draw o c s).1 (draw o c s).2).1.2 cl = true then false
        else (ask o (draw o c s).1 (draw o c s).2).1.1) = true
    · rw [if_pos hc]
      by_cases hl : lt (ask o (draw o c s).1 (draw o c s).2).1.2 cl = true
      · simp [hl] at hc
      · rw [if_neg hl] at hc
        exact ⟨_, (validated_ask o _ _ hc).ext_left (ext_draw o c s), by simpa using hl⟩
    · rw [if_neg hc] at h ⊢
      obtain ⟨k, hk, hl⟩ := minClearV_sound o lt cl c n _ h
      exact ⟨k, hk.ext_left (ext_step1 o c s), hl⟩

/-! ### MaximizeClearance -/
theorem maxClearFirst_sound (o : Orc σ δ κ) (c : Call σ δ) : ∀ (n : Nat) (s : OS σ δ κ),
    (maxClearFirst o c n s).1.ok = true →
    Validated s (maxClearFirst o c n s).1.os (maxClearFirst o c n s).1.st (maxClearFirst o c n s).2
  | 0, s => by
    intro h
    simp only [maxClearFirst] at h ⊢
    exact (validated_ask o _ _ h).ext_left (ext_draw o c s)
  | n + 1, s => by
    intro h
    simp only [maxClearFirst] at h ⊢
    split at h
    · rename_i hv
      simp only [hv, if_true]
      exact (validated_ask o _ _ hv).ext_left (ext_draw o c s)
    · rename_i hv
      simp only [hv] at h ⊢
      exact (maxClearFirst_sound o c n _ h).ext_left (ext_step1 o c s)

/-- the improvement loop keeps "the current `state` was validated with clearance `dist`" -/
theorem maxClearImprove_sound (o : Orc σ δ κ) (lt : κ → κ → Bool) (c : Call σ δ) (s0 : OS σ δ κ) :
    ∀ (k : Nat) (st : σ) (dist : κ) (s : OS σ δ κ), Validated s0 s st dist →
    ∃ d, Validated s0 (maxClearImprove o lt c k st dist s).2 (maxClearImprove o lt c k st dist s).1 d
  | 0, st, dist, s, h => ⟨dist, by simpa [maxClearImprove] using h⟩
  | k + 1, st, dist, s, h => by
    simp only [maxClearImprove]
    split
    · rename_i hv
      simp only [Bool.and_eq_true] at hv
      exact maxClearImprove_sound o lt c s0 k _ _ _
        (((validated_ask o _ _ hv.1).ext_left (ext_draw o c s)).ext_left h.ext)
    · exact maxClearImprove_sound o lt c s0 k _ _ _ (h.ext_right (ext_step1 o c s))

theorem maxClearV_sound (o : Orc σ δ κ) (lt : κ → κ → Bool) (c : Call σ δ) (n improve : Nat) (s : OS σ δ κ) :
    (maxClearV o lt c n improve s).ok = true →
    ∃ k, Validated s (maxClearV o lt c n improve s).os (maxClearV o lt c n improve s).st k := by
  intro h
  simp only [maxClearV] at h ⊢
  split at h
  · rename_i hv
    simp only [hv, if_true]
    exact maxClearImprove_sound o lt c s improve _ _ _ (maxClearFirst_sound o c n s hv)
  · simp at h

/-! ### BridgeTest -/
theorem bridge_body (o : Orc σ δ κ) (m : σ) (s0 s : OS σ δ κ) (he : Ext s0 s) (h : (ask o m s).1.1 = true) :
    ∃ k, Validated s0 (ask o m s).2 m k := ⟨_, (validated_ask o m s h).ext_left he⟩

theorem bridgeV_ext_sound (o : Orc σ δ κ) (mid : σ → σ → σ) (c : Call σ δ) (sd : δ) : ∀ (n : Nat) (s : OS σ δ κ),
    Ext s (bridgeV o mid c sd n s).os ∧
    ((bridgeV o mid c sd n s).ok = true →
      ∃ k, Validated s (bridgeV o mid c sd n s).os (bridgeV o mid c sd n s).st k)
  | 0, s => by
    simp only [bridgeV]
    split
    · split
      · refine ⟨(ext_step2 o c sd s).trans (ext_ask o _ _), fun h => ?_⟩
        exact bridge_body o _ s _ (ext_step2 o c sd s) h
      · exact ⟨ext_step2 o c sd s, fun h => by simp at h⟩
    · exact ⟨ext_step1 o c s, fun h => by simp at h⟩
  | n + 1, s => by
    simp only [bridgeV]
    split
    · split
      · split
        · rename_i hv
          refine ⟨(ext_step2 o c sd s).trans (ext_ask o _ _), fun _ => ?_⟩
          exact bridge_body o _ s _ (ext_step2 o c sd s) hv
        · have ih := bridgeV_ext_sound o mid c sd n (ask o (mid (draw o (.gauss (draw o c s).1 sd) (step1 o c s)).1 (draw o c s).1) (step2 o c sd s)).2
          have e : Ext s (ask o (mid (draw o (.gauss (draw o c s).1 sd) (step1 o c s)).1 (draw o c s).1) (step2 o c sd s)).2 :=
            (ext_step2 o c sd s).trans (ext_ask o _ _)
          exact ⟨e.trans ih.1, fun h => by obtain ⟨k, hk⟩ := ih.2 h; exact ⟨k, hk.ext_left e⟩⟩
      · have ih := bridgeV_ext_sound o mid c sd n (step2 o c sd s)
        exact ⟨(ext_step2 o c sd s).trans ih.1, fun h => by
          obtain ⟨k, hk⟩ := ih.2 h; exact ⟨k, hk.ext_left (ext_step2 o c sd s)⟩⟩
    · have ih := bridgeV_ext_sound o mid c sd n (step1 o c s)
      exact ⟨(ext_step1 o c s).trans ih.1, fun h => by
        obtain ⟨k, hk⟩ := ih.2 h; exact ⟨k, hk.ext_left (ext_step1 o c s)⟩⟩

/-! ### ObstacleBased -/
theorem findInvalid_ext (o : Orc σ δ κ) (c : Call σ δ) : ∀ (n : Nat) (s : OS σ δ κ), Ext s (findInvalid o c n s).os
  | 0, s => by simp only [findInvalid]; exact ext_step1 o c s
  | n + 1, s => by
    simp only [findInvalid]
    split
    · exact (ext_step1 o c s).trans (findInvalid_ext o c n _)
    · exact ext_step1 o c s

/-- the `for (j = 1; j < nd; ++j)` loop: on failure `state` holds the interpolated state just before the failing one,
which is either the one at index `j-1` on entry or one that was answered `true` inside this loop; on success every
test state up to index `j + k - 1` was answered `true` -/
theorem motionLoop_spec (o : Orc σ δ κ) (interp : σ → σ → Nat → Nat → σ) (s1 s2 : σ) (nd : Nat) :
    ∀ (k j : Nat) (s : OS σ δ κ),
    Ext s (motionLoop o interp s1 s2 nd k j s).os ∧
    ((motionLoop o interp s1 s2 nd k j s).ok = false →
      ((motionLoop o interp s1 s2 nd k j s).st = interp s1 s2 (j - 1) nd ∨
       ∃ c, Validated s (motionLoop o interp s1 s2 nd k j s).os (motionLoop o interp s1 s2 nd k j s).st c)) ∧
    ((motionLoop o interp s1 s2 nd k j s).ok = true →
      ((motionLoop o interp s1 s2 nd k j s).st = s2 ∧
       (k = 0 ∨ ∃ c, Validated s (motionLoop o interp s1 s2 nd k j s).os (interp s1 s2 (j + k - 1) nd) c)))
  | 0, j, s => by
    simp only [motionLoop]
    exact ⟨Ext.refl s, fun h => by simp at h, fun _ => by simp⟩
  | k + 1, j, s => by
    simp only [motionLoop]
    split
    · rename_i hv
      have ih := motionLoop_spec o interp s1 s2 nd k (j + 1) (ask o (interp s1 s2 j nd) s).2
      have hval := validated_ask o (interp s1 s2 j nd) s hv
      refine ⟨(ext_ask o _ s).trans ih.1, fun h => Or.inr ?_, fun h => ⟨(ih.2.2 h).1, Or.inr ?_⟩⟩
      · rcases ih.2.1 h with he | ⟨c, hc⟩
        · rw [he]; simp only [Nat.add_sub_cancel]
          exact ⟨_, hval.ext_right ih.1⟩
        · exact ⟨c, hc.ext_left (ext_ask o _ s)⟩
      · rcases (ih.2.2 h).2 with hk | ⟨c, hc⟩
        · subst hk
          simp only [Nat.zero_add, Nat.add_sub_cancel]
          exact ⟨_, hval.ext_right ih.1⟩
        · have e : j + 1 + k - 1 = j + (k + 1) - 1 := by omega
          rw [e] at hc
          exact ⟨c, hc.ext_left (ext_ask o _ s)⟩
    · exact ⟨ext_ask o _ s, fun _ => Or.inl rfl, fun h => by simp at h⟩

/-- `checkMotion(temp, state, lastValid = state)`: afterwards `state` holds `temp` itself or a state that was
answered `true` during the call (assuming `interpolate(a, b, 0) = a`) -/
theorem checkMotionLV_spec (o : Orc σ δ κ) (segs : σ → σ → Nat) (interp : σ → σ → Nat → Nat → σ)
    (h0 : ∀ a b n, interp a b 0 n = a) (s1 s2 : σ) (s : OS σ δ κ) :
    Ext s (checkMotionLV o segs interp s1 s2 s).os ∧
    ((checkMotionLV o segs interp s1 s2 s).st = s1 ∨
      ∃ c, Validated s (checkMotionLV o segs interp s1 s2 s).os (checkMotionLV o segs interp s1 s2 s).st c) := by
  simp only [checkMotionLV]
  have sp := motionLoop_spec o interp s1 s2 (segs s1 s2) (segs s1 s2 - 1) 1 s
  split
  · rename_i hok
    have hs := sp.2.2 hok
    split
    · rename_i hv
      exact ⟨sp.1.trans (ext_ask o _ _), Or.inr ⟨_, (validated_ask o s2 _ hv).ext_left sp.1⟩⟩
    · refine ⟨sp.1.trans (ext_ask o _ _), ?_⟩
      rcases hs.2 with hk | ⟨c, hc⟩
      · rw [hk, h0]; exact Or.inl rfl
      · have e : 1 + (segs s1 s2 - 1) - 1 = segs s1 s2 - 1 := by omega
        rw [e] at hc
        exact Or.inr ⟨c, hc.ext_right (ext_ask o _ _)⟩
  · rename_i hok
    refine ⟨sp.1, ?_⟩
    rcases sp.2.1 (by simpa using hok) with he | hc
    · rw [he]; simp only [Nat.sub_self]; rw [h0]; exact Or.inl rfl
    · exact Or.inr hc

theorem obstacleVOld_sound (o : Orc σ δ κ) (segs : σ → σ → Nat) (interp : σ → σ → Nat → Nat → σ)
    (h0 : ∀ a b n, interp a b 0 n = a) (c : Call σ δ) (n : Nat) (s : OS σ δ κ) :
    (obstacleVOld o segs interp c n s).ok = true →
    ∃ k, Validated s (obstacleVOld o segs interp c n s).os (obstacleVOld o segs interp c n s).st k := by
  intro h
  simp only [obstacleVOld] at h ⊢
  split at h
  · simp at h
  · rename_i h1
    simp only [h1] at h ⊢
    split at h
    · rename_i h2
      simp only [h2, if_true]
      have e1 := findInvalid_ext o c n s
      obtain ⟨k, hk⟩ := uniformV_sound o .uniform n _ h2
      have sp := checkMotionLV_spec o segs interp h0 (uniformV o .uniform n (findInvalid o c n s).os).st
        (findInvalid o c n s).st (uniformV o .uniform n (findInvalid o c n s).os).os
      rcases sp.2 with he | ⟨c', hc⟩
      · rw [he]; exact ⟨k, (hk.ext_left e1).ext_right sp.1⟩
      · exact ⟨c', hc.ext_left (e1.trans hk.ext)⟩
    · simp at h

/-! ### ObstacleBased as fixed by 96c4da7bb -/

/-- the loop with the `lastValid.second` numerator: on failure either it failed at the entry index (numerator `j - 1`,
`state = interp (j-1)`) or the state written to `state` was answered `true` inside the loop; on success the numerator
is untouched (0) and every test state up to index `j + k - 1` was answered `true` -/
theorem motionLoopF_spec (o : Orc σ δ κ) (interp : σ → σ → Nat → Nat → σ) (s1 s2 : σ) (nd : Nat) :
    ∀ (k j : Nat) (s : OS σ δ κ),
    Ext s (motionLoopF o interp s1 s2 nd k j s).1.os ∧
    ((motionLoopF o interp s1 s2 nd k j s).1.ok = false →
      (((motionLoopF o interp s1 s2 nd k j s).2 = (j : Int) - 1 ∧
        (motionLoopF o interp s1 s2 nd k j s).1.st = interp s1 s2 (j - 1) nd) ∨
       ∃ c, Validated s (motionLoopF o interp s1 s2 nd k j s).1.os (motionLoopF o interp s1 s2 nd k j s).1.st c)) ∧
    ((motionLoopF o interp s1 s2 nd k j s).1.ok = true →
      ((motionLoopF o interp s1 s2 nd k j s).2 = 0 ∧
       (k = 0 ∨ ∃ c, Validated s (motionLoopF o interp s1 s2 nd k j s).1.os (interp s1 s2 (j + k - 1) nd) c)))
  | 0, j, s => by
    simp only [motionLoopF]
    exact ⟨Ext.refl s, fun h => by simp at h, fun _ => by simp⟩
  | k + 1, j, s => by
    simp only [motionLoopF]
    split
    · rename_i hv
      have ih := motionLoopF_spec o interp s1 s2 nd k (j + 1) (ask o (interp s1 s2 j nd) s).2
      have hval := validated_ask o (interp s1 s2 j nd) s hv
      refine ⟨(ext_ask o _ s).trans ih.1, fun h => Or.inr ?_, fun h => ⟨(ih.2.2 h).1, Or.inr ?_⟩⟩
      · rcases ih.2.1 h with ⟨_, he⟩ | ⟨c, hc⟩
        · rw [he]; simp only [Nat.add_sub_cancel]
          exact ⟨_, hval.ext_right ih.1⟩
        · exact ⟨c, hc.ext_left (ext_ask o _ s)⟩
      · rcases (ih.2.2 h).2 with hk | ⟨c, hc⟩
        · subst hk
          simp only [Nat.zero_add, Nat.add_sub_cancel]
          exact ⟨_, hval.ext_right ih.1⟩
        · have e : j + 1 + k - 1 = j + (k + 1) - 1 := by omega
          rw [e] at hc
          exact ⟨c, hc.ext_left (ext_ask o _ s)⟩
    · exact ⟨ext_ask o _ s, fun _ => Or.inl ⟨rfl, rfl⟩, fun h => by simp at h⟩

/-- after `checkMotion(temp, state, fail = (state, 0.0))` with at least one segment: `fail.second == 0.0`, or `state`
holds a state that was answered `true` during the call.  No assumption on `interpolate`. -/
theorem checkMotionF_spec (o : Orc σ δ κ) (segs : σ → σ → Nat) (interp : σ → σ → Nat → Nat → σ)
    (s1 s2 : σ) (hseg : 1 ≤ segs s1 s2) (s : OS σ δ κ) :
    Ext s (checkMotionF o segs interp s1 s2 s).1.os ∧
    ((checkMotionF o segs interp s1 s2 s).2 = 0 ∨
      ∃ c, Validated s (checkMotionF o segs interp s1 s2 s).1.os (checkMotionF o segs interp s1 s2 s).1.st c) := by
  simp only [checkMotionF]
  have sp := motionLoopF_spec o interp s1 s2 (segs s1 s2) (segs s1 s2 - 1) 1 s
  split
  · rename_i hok
    have hs := sp.2.2 hok
    split
    · exact ⟨sp.1.trans (ext_ask o _ _), Or.inl rfl⟩
    · refine ⟨sp.1.trans (ext_ask o _ _), ?_⟩
      rcases hs.2 with hk | ⟨c, hc⟩
      · left; omega
      · have e : 1 + (segs s1 s2 - 1) - 1 = segs s1 s2 - 1 := by omega
        rw [e] at hc
        exact Or.inr ⟨c, hc.ext_right (ext_ask o _ _)⟩
  · rename_i hok
    refine ⟨sp.1, ?_⟩
    rcases sp.2.1 (by simpa using hok) with ⟨he, _⟩ | hc
    · left; rw [he]; simp
    · exact Or.inr hc

/-- the fixed ObstacleBased sampler is sound for every interpolation function; what remains assumed is that
`validSegmentCount` of the pair is at least 1 (it is 0 only for two states at distance 0, where the code computes
`lastValid.second = -1/0`) -/
theorem obstacleV_sound (o : Orc σ δ κ) (segs : σ → σ → Nat) (interp : σ → σ → Nat → Nat → σ)
    (hseg : ∀ a b, 1 ≤ segs a b) (c : Call σ δ) (n : Nat) (s : OS σ δ κ) :
    (obstacleV o segs interp c n s).ok = true →
    ∃ k, Validated s (obstacleV o segs interp c n s).os (obstacleV o segs interp c n s).st k := by
  intro h
  simp only [obstacleV] at h ⊢
  split at h
  · simp at h
  · rename_i h1
    simp only [h1] at h ⊢
    split at h
    · rename_i h2
      simp only [h2, if_true]
      have e1 := findInvalid_ext o c n s
      obtain ⟨k, hk⟩ := uniformV_sound o .uniform n _ h2
      have sp := checkMotionF_spec o segs interp (uniformV o .uniform n (findInvalid o c n s).os).st
        (findInvalid o c n s).st (hseg _ _) (uniformV o .uniform n (findInvalid o c n s).os).os
      by_cases hz : (checkMotionF o segs interp (uniformV o .uniform n (findInvalid o c n s).os).st
          (findInvalid o c n s).st (uniformV o .uniform n (findInvalid o c n s).os).os).2 = 0
      · rw [if_pos hz]
        exact ⟨k, (hk.ext_left e1).ext_right sp.1⟩
      · rw [if_neg hz]
        rcases sp.2 with he | ⟨c', hc⟩
        · exact absurd he hz
        · exact ⟨c', hc.ext_left (e1.trans hk.ext)⟩
    · simp at h

/-! ### round 10: what the inner sampler is handed, and the in-bounds clause

`P` = "satisfies the bounds", `D` = "is an acceptable near-distance" (non-negative).  The inner `StateSampler` keeps its
contract (`SamplerOk`): handed an in-bounds near / mean state and an acceptable distance, it writes an in-bounds state
(`sampler_inbounds_*` prove exactly this for the modelled default samplers).  The lemmas show that every state a
valid-state sampler leaves in `state` satisfies `P`, AND that every call it makes hands the inner sampler acceptable
arguments (`CallsExt`) — the precondition of the near / Gaussian sampler theorems is established, not assumed. -/

def CallOk (P : σ → Prop) (D : δ → Prop) : Call σ δ → Prop
  | .uniform => True
  | .near c d => P c ∧ D d
  | .gauss m _ => P m

def SamplerOk (P : σ → Prop) (D : δ → Prop) (o : Orc σ δ κ) : Prop :=
  ∀ k c, CallOk P D c → P (o.samp k c)

/-- `s'` extends `s` by recorded inner-sampler calls that all had acceptable arguments -/
def CallsExt (P : σ → Prop) (D : δ → Prop) (s s' : OS σ δ κ) : Prop :=
  ∃ new, s'.calls = new ++ s.calls ∧ ∀ c ∈ new, CallOk P D c

section Inb
variable {P : σ → Prop} {D : δ → Prop}

theorem CallsExt.refl (s : OS σ δ κ) : CallsExt P D s s := ⟨[], by simp, by simp⟩

theorem CallsExt.trans {a b c : OS σ δ κ} (h1 : CallsExt P D a b) (h2 : CallsExt P D b c) : CallsExt P D a c := by
  obtain ⟨n1, e1, m1⟩ := h1; obtain ⟨n2, e2, m2⟩ := h2
  refine ⟨n2 ++ n1, by rw [e2, e1, List.append_assoc], fun x hx => ?_⟩
  rcases List.mem_append.1 hx with h | h
  · exact m2 x h
  · exact m1 x h

theorem CallsExt.of_eq {a b : OS σ δ κ} (h : b.calls = a.calls) : CallsExt P D a b := ⟨[], by simp [h], by simp⟩

theorem callsExt_draw (o : Orc σ δ κ) (c : Call σ δ) (s : OS σ δ κ) (h : CallOk P D c) :
    CallsExt P D s (draw o c s).2 := ⟨[c], by simp [draw], by simpa using h⟩

theorem callsExt_ask (o : Orc σ δ κ) (x : σ) (s : OS σ δ κ) : CallsExt P D s (ask o x s).2 :=
  CallsExt.of_eq (by simp [ask])

theorem draw_ok {o : Orc σ δ κ} (ho : SamplerOk P D o) {c : Call σ δ} (h : CallOk P D c) (s : OS σ δ κ) :
    P (draw o c s).1 := ho _ _ h

theorem callsExt_step1 (o : Orc σ δ κ) (c : Call σ δ) (s : OS σ δ κ) (h : CallOk P D c) :
    CallsExt P D s (step1 o c s) := (callsExt_draw o c s h).trans (callsExt_ask o _ _)

theorem callsExt_step2 {o : Orc σ δ κ} (ho : SamplerOk P D o) (c : Call σ δ) (sd : δ) (s : OS σ δ κ)
    (h : CallOk P D c) : CallsExt P D s (step2 o c sd s) :=
  (callsExt_step1 o c s h).trans (callsExt_step1 o _ _ (draw_ok ho h s))

theorem uniformV_inb {o : Orc σ δ κ} (ho : SamplerOk P D o) {c : Call σ δ} (hc : CallOk P D c) :
    ∀ (n : Nat) (s : OS σ δ κ), P (uniformV o c n s).st ∧ CallsExt P D s (uniformV o c n s).os
  | 0, s => by simp only [uniformV]; exact ⟨draw_ok ho hc s, callsExt_step1 o c s hc⟩
  | n + 1, s => by
    simp only [uniformV]
    split
    · exact ⟨draw_ok ho hc s, callsExt_step1 o c s hc⟩
    · have ih := uniformV_inb ho hc n (step1 o c s)
      exact ⟨ih.1, (callsExt_step1 o c s hc).trans ih.2⟩

theorem findInvalid_inb {o : Orc σ δ κ} (ho : SamplerOk P D o) {c : Call σ δ} (hc : CallOk P D c) :
    ∀ (n : Nat) (s : OS σ δ κ), P (findInvalid o c n s).st ∧ CallsExt P D s (findInvalid o c n s).os
  | 0, s => by simp only [findInvalid]; exact ⟨draw_ok ho hc s, callsExt_step1 o c s hc⟩
  | n + 1, s => by
    simp only [findInvalid]
    split
    · have ih := findInvalid_inb ho hc n (step1 o c s)
      exact ⟨ih.1, (callsExt_step1 o c s hc).trans ih.2⟩
    · exact ⟨draw_ok ho hc s, callsExt_step1 o c s hc⟩

theorem minClearV_inb {o : Orc σ δ κ} (ho : SamplerOk P D o) (lt : κ → κ → Bool) (cl : κ) {c : Call σ δ}
    (hc : CallOk P D c) :
    ∀ (n : Nat) (s : OS σ δ κ), P (minClearV o lt cl c n s).st ∧ CallsExt P D s (minClearV o lt cl c n s).os
  | 0, s => by simp only [minClearV]; exact ⟨draw_ok ho hc s, callsExt_step1 o c s hc⟩
  | n + 1, s => by
    simp only [minClearV]
    by_cases hcnd : (if lt (ask o (draw o c s).1 (draw o c s).2).1.2 cl = true then false
        else (ask o (draw o c s).1 (draw o c s).2).1.1) = true
    · rw [if_pos hcnd]
      exact ⟨draw_ok ho hc s, callsExt_step1 o c s hc⟩
    · rw [if_neg hcnd]
      have ih := minClearV_inb ho lt cl hc n (step1 o c s)
      exact ⟨ih.1, (callsExt_step1 o c s hc).trans ih.2⟩

theorem maxClearFirst_inb {o : Orc σ δ κ} (ho : SamplerOk P D o) {c : Call σ δ} (hc : CallOk P D c) :
    ∀ (n : Nat) (s : OS σ δ κ), P (maxClearFirst o c n s).1.st ∧ CallsExt P D s (maxClearFirst o c n s).1.os
  | 0, s => by simp only [maxClearFirst]; exact ⟨draw_ok ho hc s, callsExt_step1 o c s hc⟩
  | n + 1, s => by
    simp only [maxClearFirst]
    split
    · exact ⟨draw_ok ho hc s, callsExt_step1 o c s hc⟩
    · have ih := maxClearFirst_inb ho hc n (step1 o c s)
      exact ⟨ih.1, (callsExt_step1 o c s hc).trans ih.2⟩

theorem maxClearImprove_inb {o : Orc σ δ κ} (ho : SamplerOk P D o) (lt : κ → κ → Bool) {c : Call σ δ}
    (hc : CallOk P D c) :
    ∀ (k : Nat) (st : σ) (dist : κ) (s : OS σ δ κ), P st →
      P (maxClearImprove o lt c k st dist s).1 ∧ CallsExt P D s (maxClearImprove o lt c k st dist s).2
  | 0, st, dist, s, h => by simp only [maxClearImprove]; exact ⟨h, CallsExt.refl s⟩
  | k + 1, st, dist, s, h => by
    simp only [maxClearImprove]
    split
    · have ih := maxClearImprove_inb ho lt hc k (draw o c s).1 (ask o (draw o c s).1 (draw o c s).2).1.2
        (step1 o c s) (draw_ok ho hc s)
      exact ⟨ih.1, (callsExt_step1 o c s hc).trans ih.2⟩
    · have ih := maxClearImprove_inb ho lt hc k st dist (step1 o c s) h
      exact ⟨ih.1, (callsExt_step1 o c s hc).trans ih.2⟩

theorem maxClearV_inb {o : Orc σ δ κ} (ho : SamplerOk P D o) (lt : κ → κ → Bool) {c : Call σ δ}
    (hc : CallOk P D c) (n improve : Nat) (s : OS σ δ κ) :
    P (maxClearV o lt c n improve s).st ∧ CallsExt P D s (maxClearV o lt c n improve s).os := by
  have h1 := maxClearFirst_inb ho hc n s
  simp only [maxClearV]
  split
  · have h2 := maxClearImprove_inb ho lt hc improve _ (maxClearFirst o c n s).2 (maxClearFirst o c n s).1.os h1.1
    exact ⟨h2.1, h1.2.trans h2.2⟩
  · exact h1

theorem gaussV_inb {o : Orc σ δ κ} (ho : SamplerOk P D o) {c : Call σ δ} (hc : CallOk P D c) (sd : δ) :
    ∀ (n : Nat) (s : OS σ δ κ), P (gaussV o c sd n s).st ∧ CallsExt P D s (gaussV o c sd n s).os
  | 0, s => by
    have hx := draw_ok ho hc s
    have ht : P (draw o (.gauss (draw o c s).1 sd) (step1 o c s)).1 := draw_ok ho (c := .gauss _ sd) hx _
    simp only [gaussV]
    split
    · refine ⟨?_, callsExt_step2 ho c sd s hc⟩
      split
      · exact ht
      · exact hx
    · exact ⟨hx, callsExt_step2 ho c sd s hc⟩
  | n + 1, s => by
    have hx := draw_ok ho hc s
    have ht : P (draw o (.gauss (draw o c s).1 sd) (step1 o c s)).1 := draw_ok ho (c := .gauss _ sd) hx _
    simp only [gaussV]
    split
    · refine ⟨?_, callsExt_step2 ho c sd s hc⟩
      split
      · exact ht
      · exact hx
    · have ih := gaussV_inb ho hc sd n (step2 o c sd s)
      exact ⟨ih.1, (callsExt_step2 ho c sd s hc).trans ih.2⟩

theorem bridgeV_inb {o : Orc σ δ κ} (ho : SamplerOk P D o) (mid : σ → σ → σ)
    (hmid : ∀ e x, P e → P x → P (mid e x)) {c : Call σ δ} (hc : CallOk P D c) (sd : δ) :
    ∀ (n : Nat) (s : OS σ δ κ), P (bridgeV o mid c sd n s).st ∧ CallsExt P D s (bridgeV o mid c sd n s).os
  | 0, s => by
    have hx := draw_ok ho hc s
    have he : P (draw o (.gauss (draw o c s).1 sd) (step1 o c s)).1 := draw_ok ho (c := .gauss _ sd) hx _
    simp only [bridgeV]
    split
    · split
      · exact ⟨hmid _ _ he hx, (callsExt_step2 ho c sd s hc).trans (callsExt_ask o _ _)⟩
      · exact ⟨hx, callsExt_step2 ho c sd s hc⟩
    · exact ⟨hx, callsExt_step1 o c s hc⟩
  | n + 1, s => by
    have hx := draw_ok ho hc s
    have he : P (draw o (.gauss (draw o c s).1 sd) (step1 o c s)).1 := draw_ok ho (c := .gauss _ sd) hx _
    simp only [bridgeV]
    split
    · split
      · split
        · exact ⟨hmid _ _ he hx, (callsExt_step2 ho c sd s hc).trans (callsExt_ask o _ _)⟩
        · have ih := bridgeV_inb ho mid hmid hc sd n
            (ask o (mid (draw o (.gauss (draw o c s).1 sd) (step1 o c s)).1 (draw o c s).1) (step2 o c sd s)).2
          exact ⟨ih.1, ((callsExt_step2 ho c sd s hc).trans (callsExt_ask o _ _)).trans ih.2⟩
      · have ih := bridgeV_inb ho mid hmid hc sd n (step2 o c sd s)
        exact ⟨ih.1, (callsExt_step2 ho c sd s hc).trans ih.2⟩
    · have ih := bridgeV_inb ho mid hmid hc sd n (step1 o c s)
      exact ⟨ih.1, (callsExt_step1 o c s hc).trans ih.2⟩

/-- the `for` loop of checkMotion makes no sampler call and leaves in `state` either `s2` or an interpolated state
with index `≤ nd` -/
theorem motionLoopF_inb (o : Orc σ δ κ) (interp : σ → σ → Nat → Nat → σ)
    (hint : ∀ a b j n, j ≤ n → P a → P b → P (interp a b j n)) (s1 s2 : σ) (h1 : P s1) (h2 : P s2) (nd : Nat) :
    ∀ (k j : Nat) (s : OS σ δ κ), (k = 0 ∨ j + k ≤ nd) →
      P (motionLoopF o interp s1 s2 nd k j s).1.st ∧ (motionLoopF o interp s1 s2 nd k j s).1.os.calls = s.calls
  | 0, j, s, _ => by simp only [motionLoopF]; exact ⟨h2, trivial⟩
  | k + 1, j, s, hk => by
    have hj : j + (k + 1) ≤ nd := by rcases hk with h | h; · omega
                                     · exact h
    simp only [motionLoopF]
    split
    · have ih := motionLoopF_inb o interp hint s1 s2 h1 h2 nd k (j + 1) (ask o (interp s1 s2 j nd) s).2
        (Or.inr (by omega))
      exact ⟨ih.1, by rw [ih.2]; simp [ask]⟩
    · exact ⟨hint _ _ _ _ (by omega) h1 h2, by simp [ask]⟩

theorem checkMotionF_inb (o : Orc σ δ κ) (segs : σ → σ → Nat) (interp : σ → σ → Nat → Nat → σ)
    (hint : ∀ a b j n, j ≤ n → P a → P b → P (interp a b j n)) (s1 s2 : σ) (h1 : P s1) (h2 : P s2) (s : OS σ δ κ) :
    P (checkMotionF o segs interp s1 s2 s).1.st ∧ (checkMotionF o segs interp s1 s2 s).1.os.calls = s.calls := by
  have sp := motionLoopF_inb o interp hint s1 s2 h1 h2 (segs s1 s2) (segs s1 s2 - 1) 1 s (by omega)
  simp only [checkMotionF]
  split
  · split
    · exact ⟨h2, by simp [ask, sp.2]⟩
    · exact ⟨hint _ _ _ _ (by omega) h1 h2, by simp [ask, sp.2]⟩
  · exact sp

theorem obstacleV_inb {o : Orc σ δ κ} (ho : SamplerOk P D o) (segs : σ → σ → Nat) (interp : σ → σ → Nat → Nat → σ)
    (hint : ∀ a b j n, j ≤ n → P a → P b → P (interp a b j n)) {c : Call σ δ} (hc : CallOk P D c) (n : Nat)
    (s : OS σ δ κ) :
    P (obstacleV o segs interp c n s).st ∧ CallsExt P D s (obstacleV o segs interp c n s).os := by
  have r1 := findInvalid_inb ho hc n s
  have r2 := uniformV_inb ho (c := .uniform) trivial n (findInvalid o c n s).os
  simp only [obstacleV]
  split
  · exact r1
  · split
    · have r3 := checkMotionF_inb o segs interp hint _ _ r2.1 r1.1 (uniformV o .uniform n (findInvalid o c n s).os).os
      refine ⟨?_, (r1.2.trans r2.2).trans (CallsExt.of_eq r3.2)⟩
      split
      · exact r2.1
      · exact r3.1
    · exact ⟨r1.1, r1.2.trans r2.2⟩

end Inb

/-! ### SpaceInformation::searchValidNearby -/

theorem searchNearbyV_sound (o : Orc σ δ κ) (sat : σ → Bool) (enforce : σ → σ)
    (vss : σ → δ → OS σ δ κ → VRes σ δ κ)
    (hv : ∀ c d s, (vss c d s).ok = true → ∃ k, Validated s (vss c d s).os (vss c d s).st k)
    (near : σ) (d : δ) (s : OS σ δ κ) :
    (searchNearbyV o sat enforce vss near d s).ok = true →
    ∃ k, Validated s (searchNearbyV o sat enforce vss near d s).os (searchNearbyV o sat enforce vss near d s).st k := by
  intro h
  simp only [searchNearbyV] at h ⊢
  generalize (if sat near = true then near else enforce near) = st at h ⊢
  split at h
  · rename_i hq
    simp only [hq, if_true]
    exact ⟨_, validated_ask o _ s hq⟩
  · rename_i hq
    simp only [hq] at h ⊢
    obtain ⟨k, hk⟩ := hv _ _ _ h
    exact ⟨k, hk.ext_left (ext_ask o _ s)⟩

theorem searchNearbyV_inb {D : δ → Prop} (o : Orc σ δ κ) (sat : σ → Bool) (enforce : σ → σ)
    (hE : ∀ x, sat (enforce x) = true) (vss : σ → δ → OS σ δ κ → VRes σ δ κ)
    (hv : ∀ c d s, sat c = true → D d →
      sat (vss c d s).st = true ∧ CallsExt (fun x => sat x = true) D s (vss c d s).os)
    (near : σ) (d : δ) (hd : D d) (s : OS σ δ κ) :
    sat (searchNearbyV o sat enforce vss near d s).st = true ∧
    CallsExt (fun x => sat x = true) D s (searchNearbyV o sat enforce vss near d s).os := by
  have h0 : sat (if sat near = true then near else enforce near) = true := by
    split
    · assumption
    · exact hE near
  simp only [searchNearbyV]
  generalize (if sat near = true then near else enforce near) = st at h0 ⊢
  split
  · exact ⟨h0, callsExt_ask o _ s⟩
  · have r := hv st d (ask o st s).2 h0 hd
    exact ⟨r.1, (callsExt_ask o _ s).trans r.2⟩

theorem searchNearbyAttempts_sound (o : Orc σ δ κ) (sat : σ → Bool) (enforce : σ → σ) (near : σ) (d : δ)
    (attempts : Nat) (s : OS σ δ κ) :
    (searchNearbyAttempts o sat enforce near d attempts s).ok = true →
    ∃ k, Validated s (searchNearbyAttempts o sat enforce near d attempts s).os
      (searchNearbyAttempts o sat enforce near d attempts s).st k := by
  intro h
  have hv : ∀ (c : σ) (d : δ) (s : OS σ δ κ), (uniformV o (.near c d) (attempts - 1) s).ok = true →
      ∃ k, Validated s (uniformV o (.near c d) (attempts - 1) s).os (uniformV o (.near c d) (attempts - 1) s).st k :=
    fun c d s => uniformV_sound o _ _ s
  simp only [searchNearbyAttempts] at h ⊢
  split at h
  · rename_i hs
    simp only [hs, if_true] at h ⊢
    split at h
    · rename_i hq
      simp only [hq, if_true]
      exact ⟨_, validated_ask o _ s hq⟩
    · rename_i hq
      simp only [hq] at h ⊢
      obtain ⟨k, hk⟩ := searchNearbyV_sound o sat enforce _ hv near d _ h
      exact ⟨k, hk.ext_left (ext_ask o _ s)⟩
  · rename_i hs
    simp only [hs] at h ⊢
    exact searchNearbyV_sound o sat enforce _ hv near d s h

theorem searchNearbyAttempts_inb {D : δ → Prop} (o : Orc σ δ κ) (sat : σ → Bool) (enforce : σ → σ)
    (hE : ∀ x, sat (enforce x) = true) (ho : SamplerOk (fun x => sat x = true) D o)
    (near : σ) (d : δ) (hd : D d) (attempts : Nat) (s : OS σ δ κ) :
    sat (searchNearbyAttempts o sat enforce near d attempts s).st = true ∧
    CallsExt (fun x => sat x = true) D s (searchNearbyAttempts o sat enforce near d attempts s).os := by
  have hv : ∀ (c : σ) (d : δ) (s : OS σ δ κ), sat c = true → D d →
      sat (uniformV o (.near c d) (attempts - 1) s).st = true ∧
      CallsExt (fun x => sat x = true) D s (uniformV o (.near c d) (attempts - 1) s).os :=
    fun c d s hc hd => uniformV_inb ho (c := .near c d) ⟨hc, hd⟩ _ s
  simp only [searchNearbyAttempts]
  split
  · rename_i hs
    split
    · exact ⟨hs, callsExt_ask o _ s⟩
    · have r := searchNearbyV_inb o sat enforce hE _ hv near d hd (ask o near s).2
      exact ⟨r.1, (callsExt_ask o _ s).trans r.2⟩
  · exact searchNearbyV_inb o sat enforce hE _ hv near d hd s

end OmplModel.SpaceBounds
