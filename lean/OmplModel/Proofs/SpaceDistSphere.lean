import OmplModel.Proofs.SpaceDistSeam
import Mathlib.Tactic.Linarith
import Mathlib.Tactic.NormNum
import Mathlib.Tactic.LinearCombination
import Mathlib.Analysis.SpecialFunctions.Trigonometric.Inverse
import Mathlib.Analysis.SpecialFunctions.Trigonometric.Angle
import Mathlib.Analysis.InnerProductSpace.PiL2
import Mathlib.Geometry.Euclidean.Angle.Unoriented.TriangleInequality
/-!
C06, the sphere (`SphereStateSpace::distance`) at `ℝ`: the haversine formula as coded is `r` times the
angle between the unit vectors of the two states (`SphereStateSpace::toVector` without the radius).
Hence it is a metric on the *points of the sphere* (`uvec θ φ`), i.e. a pseudometric on the states
`(θ, φ)`: the map `uvec` is many-to-one exactly at the poles (`uvec_pole_zero`, `uvec_pole_pi`,
`uvec_inj_off_poles`), which is the first half of finding F12.
-/
namespace OmplModel.SpaceDist.Sphere
open OmplModel OmplModel.SpaceDist
attribute [-instance] OmplModel.Num.instOfNat

/-- the unit vector of the state `(θ, φ)`: azimuth `θ`, polar angle `φ` -/
noncomputable def uvec (θ φ : ℝ) : EuclideanSpace ℝ (Fin 3) :=
  !₂[Real.sin φ * Real.cos θ, Real.sin φ * Real.sin θ, Real.cos φ]

theorem uvec_inner (θ1 φ1 θ2 φ2 : ℝ) :
    inner ℝ (uvec θ1 φ1) (uvec θ2 φ2) =
      Real.sin φ1 * Real.sin φ2 * Real.cos (θ1 - θ2) + Real.cos φ1 * Real.cos φ2 := by
  simp [uvec, PiLp.inner_apply, Fin.sum_univ_three, Real.cos_sub]
  ring

theorem uvec_norm (θ φ : ℝ) : ‖uvec θ φ‖ = 1 := by
  have h2 : ‖uvec θ φ‖ ^ 2 = 1 := by
    rw [← real_inner_self_eq_norm_sq, uvec_inner, sub_self, Real.cos_zero]
    nlinarith [Real.sin_sq_add_cos_sq φ]
  have := norm_nonneg (uvec θ φ)
  nlinarith

theorem uvec_ne_zero (θ φ : ℝ) : uvec θ φ ≠ 0 := by
  intro h
  have := uvec_norm θ φ
  rw [h, norm_zero] at this
  exact zero_ne_one this

/-! ### the haversine argument -/

/-- the argument of the square root in `sphereDistReal`, in the form of the source -/
noncomputable def hav (θ1 φ1 θ2 φ2 : ℝ) : ℝ :=
  Real.sin (1 / 2 * ((φ1 - Real.pi / 2) - (φ2 - Real.pi / 2))) *
      Real.sin (1 / 2 * ((φ1 - Real.pi / 2) - (φ2 - Real.pi / 2))) +
    Real.cos (φ1 - Real.pi / 2) * Real.cos (φ2 - Real.pi / 2) *
      Real.sin (1 / 2 * (θ1 - θ2)) * Real.sin (1 / 2 * (θ1 - θ2))

theorem sphereDistReal_hav (r θ1 φ1 θ2 φ2 : ℝ) :
    sphereDistReal r θ1 φ1 θ2 φ2 = 2 * r * Real.arcsin (Real.sqrt (hav θ1 φ1 θ2 φ2)) :=
  Seam.sphereDistReal_r r θ1 φ1 θ2 φ2

theorem sin_half_mul_self (a x : ℝ) (h : x = 2 * a) :
    Real.sin a * Real.sin a = (1 - Real.cos x) / 2 := by
  subst h
  have h1 := Real.cos_two_mul a
  have h2 := Real.sin_sq_add_cos_sq a
  nlinarith

/-- the haversine in the usual form: `sin²(Δφ/2) + sin φ₁ sin φ₂ sin²(Δθ/2)` -/
theorem hav_eq (θ1 φ1 θ2 φ2 : ℝ) :
    hav θ1 φ1 θ2 φ2 =
      Real.sin ((φ1 - φ2) / 2) ^ 2 + Real.sin φ1 * Real.sin φ2 * Real.sin ((θ1 - θ2) / 2) ^ 2 := by
  unfold hav
  rw [Real.cos_sub_pi_div_two, Real.cos_sub_pi_div_two]
  have e1 : 1 / 2 * ((φ1 - Real.pi / 2) - (φ2 - Real.pi / 2)) = (φ1 - φ2) / 2 := by ring
  have e2 : 1 / 2 * (θ1 - θ2) = (θ1 - θ2) / 2 := by ring
  rw [e1, e2]
  ring

/-- key identity: `⟪u₁, u₂⟫ = 1 - 2·hav` -/
theorem uvec_inner_hav (θ1 φ1 θ2 φ2 : ℝ) :
    inner ℝ (uvec θ1 φ1) (uvec θ2 φ2) = 1 - 2 * hav θ1 φ1 θ2 φ2 := by
  rw [uvec_inner]
  unfold hav
  rw [Real.cos_sub_pi_div_two, Real.cos_sub_pi_div_two]
  have hS := sin_half_mul_self (1 / 2 * ((φ1 - Real.pi / 2) - (φ2 - Real.pi / 2))) (φ1 - φ2)
    (by ring)
  have hT := sin_half_mul_self (1 / 2 * (θ1 - θ2)) (θ1 - θ2) (by ring)
  rw [Real.cos_sub] at hS
  linear_combination 2 * hS + 2 * Real.sin φ1 * Real.sin φ2 * hT

theorem hav_nonneg (θ1 φ1 θ2 φ2 : ℝ) : 0 ≤ hav θ1 φ1 θ2 φ2 := by
  have h := real_inner_le_norm (uvec θ1 φ1) (uvec θ2 φ2)
  rw [uvec_norm, uvec_norm, uvec_inner_hav] at h
  linarith

theorem hav_le_one (θ1 φ1 θ2 φ2 : ℝ) : hav θ1 φ1 θ2 φ2 ≤ 1 := by
  have h := (abs_le.mp (abs_real_inner_le_norm (uvec θ1 φ1) (uvec θ2 φ2))).1
  rw [uvec_norm, uvec_norm, uvec_inner_hav] at h
  linarith

/-! ### `2·arcsin √h = arccos (1 - 2h)` -/

theorem two_arcsin_sqrt {h : ℝ} (h0 : 0 ≤ h) (h1 : h ≤ 1) :
    2 * Real.arcsin (Real.sqrt h) = Real.arccos (1 - 2 * h) := by
  have hs0 : 0 ≤ Real.sqrt h := Real.sqrt_nonneg h
  have hs1 : Real.sqrt h ≤ 1 := Real.sqrt_le_one.mpr h1
  have ha0 : 0 ≤ Real.arcsin (Real.sqrt h) := Real.arcsin_nonneg.mpr hs0
  have ha1 : Real.arcsin (Real.sqrt h) ≤ Real.pi / 2 := Real.arcsin_le_pi_div_two _
  have hsin : Real.sin (Real.arcsin (Real.sqrt h)) = Real.sqrt h :=
    Real.sin_arcsin (by linarith) hs1
  have hcos : Real.cos (2 * Real.arcsin (Real.sqrt h)) = 1 - 2 * h := by
    have c := Real.cos_two_mul (Real.arcsin (Real.sqrt h))
    have d := Real.sin_sq_add_cos_sq (Real.arcsin (Real.sqrt h))
    rw [hsin, Real.sq_sqrt h0] at d
    linarith
  rw [← hcos, Real.arccos_cos (by linarith) (by linarith)]

/-! ### the distance is `r` times the angle -/
section Angle
open InnerProductGeometry

theorem angle_of_unit {V : Type*} [NormedAddCommGroup V] [InnerProductSpace ℝ V] {p q : V}
    (hp : ‖p‖ = 1) (hq : ‖q‖ = 1) : angle p q = Real.arccos (inner ℝ p q) := by
  unfold angle
  rw [hp, hq, mul_one, div_one]

/-- the haversine distance is `r` times the angle between the unit vectors (no range hypotheses needed:
`cos (φ - π/2) = sin φ` for every `φ`) -/
theorem sphere_haversine_is_angle_all (r θ1 φ1 θ2 φ2 : ℝ) :
    sphereDistReal r θ1 φ1 θ2 φ2 = r * angle (uvec θ1 φ1) (uvec θ2 φ2) := by
  rw [sphereDistReal_hav, angle_of_unit (uvec_norm _ _) (uvec_norm _ _), uvec_inner_hav,
    ← two_arcsin_sqrt (hav_nonneg _ _ _ _) (hav_le_one _ _ _ _)]
  ring

theorem sphere_haversine_is_angle (r θ1 φ1 θ2 φ2 : ℝ) (_h1 : 0 ≤ φ1 ∧ φ1 ≤ Real.pi)
    (_h2 : 0 ≤ φ2 ∧ φ2 ≤ Real.pi) :
    sphereDistReal r θ1 φ1 θ2 φ2 = r * angle (uvec θ1 φ1) (uvec θ2 φ2) :=
  sphere_haversine_is_angle_all r θ1 φ1 θ2 φ2

/-! ### metric laws (on the points `uvec θ φ` of the sphere) -/

theorem sphere_nonneg {r : ℝ} (hr : 0 ≤ r) (θ1 φ1 θ2 φ2 : ℝ) :
    0 ≤ sphereDistReal r θ1 φ1 θ2 φ2 := by
  rw [sphere_haversine_is_angle_all]
  exact mul_nonneg hr (angle_nonneg _ _)

theorem sphere_self (r θ φ : ℝ) : sphereDistReal r θ φ θ φ = 0 := by
  rw [sphere_haversine_is_angle_all, angle_self (uvec_ne_zero θ φ), mul_zero]

theorem sphere_symm (r θ1 φ1 θ2 φ2 : ℝ) :
    sphereDistReal r θ1 φ1 θ2 φ2 = sphereDistReal r θ2 φ2 θ1 φ1 := by
  rw [sphere_haversine_is_angle_all, sphere_haversine_is_angle_all, angle_comm]

theorem sphere_triangle {r : ℝ} (hr : 0 ≤ r) (θ1 φ1 θ2 φ2 θ3 φ3 : ℝ) :
    sphereDistReal r θ1 φ1 θ3 φ3 ≤
      sphereDistReal r θ1 φ1 θ2 φ2 + sphereDistReal r θ2 φ2 θ3 φ3 := by
  rw [sphere_haversine_is_angle_all, sphere_haversine_is_angle_all, sphere_haversine_is_angle_all,
    ← mul_add]
  exact mul_le_mul_of_nonneg_left (angle_le_angle_add_angle _ _ _) hr

theorem sphere_le_pi_r {r : ℝ} (hr : 0 ≤ r) (θ1 φ1 θ2 φ2 : ℝ) :
    sphereDistReal r θ1 φ1 θ2 φ2 ≤ Real.pi * r := by
  rw [sphere_haversine_is_angle_all, mul_comm Real.pi r]
  exact mul_le_mul_of_nonneg_left (angle_le_pi _ _) hr

/-- for unit vectors, angle `0` means equality -/
theorem angle_unit_eq_zero_iff {V : Type*} [NormedAddCommGroup V] [InnerProductSpace ℝ V] {p q : V}
    (hp : ‖p‖ = 1) (hq : ‖q‖ = 1) : angle p q = 0 ↔ p = q := by
  rw [angle_of_unit hp hq, Real.arccos_eq_zero, ← inner_eq_one_iff_of_norm_eq_one (𝕜 := ℝ) hp hq]
  constructor
  · intro h
    have := real_inner_le_norm p q
    rw [hp, hq, mul_one] at this
    exact le_antisymm this h
  · intro h
    exact h.ge

theorem sphere_zero_iff {r : ℝ} (hr : 0 < r) (θ1 φ1 θ2 φ2 : ℝ) :
    sphereDistReal r θ1 φ1 θ2 φ2 = 0 ↔ uvec θ1 φ1 = uvec θ2 φ2 := by
  rw [sphere_haversine_is_angle_all, mul_eq_zero,
    angle_unit_eq_zero_iff (uvec_norm _ _) (uvec_norm _ _)]
  constructor
  · rintro (h | h)
    · exact absurd h hr.ne'
    · exact h
  · exact Or.inr

theorem sphere_pos_of_vec_ne {r : ℝ} (hr : 0 < r) (θ1 φ1 θ2 φ2 : ℝ)
    (hne : uvec θ1 φ1 ≠ uvec θ2 φ2) : 0 < sphereDistReal r θ1 φ1 θ2 φ2 := by
  rcases (sphere_nonneg hr.le θ1 φ1 θ2 φ2).lt_or_eq with h | h
  · exact h
  · exact absurd ((sphere_zero_iff hr θ1 φ1 θ2 φ2).mp h.symm) hne

end Angle

/-! ### where states and points differ: the poles (F12, first half) -/

theorem uvec_pole_zero (θ θ' : ℝ) : uvec θ 0 = uvec θ' 0 := by
  simp [uvec]

theorem uvec_pole_pi (θ θ' : ℝ) : uvec θ Real.pi = uvec θ' Real.pi := by
  simp [uvec]

/-- many-to-one at the poles -/
theorem uvec_pole (θ θ' : ℝ) : uvec θ 0 = uvec θ' 0 ∧ uvec θ Real.pi = uvec θ' Real.pi :=
  ⟨uvec_pole_zero θ θ', uvec_pole_pi θ θ'⟩

theorem uvec_components {θ1 φ1 θ2 φ2 : ℝ} (h : uvec θ1 φ1 = uvec θ2 φ2) :
    Real.sin φ1 * Real.cos θ1 = Real.sin φ2 * Real.cos θ2 ∧
      Real.sin φ1 * Real.sin θ1 = Real.sin φ2 * Real.sin θ2 ∧ Real.cos φ1 = Real.cos φ2 := by
  have h0 := congrArg (fun v : EuclideanSpace ℝ (Fin 3) => v 0) h
  have h1 := congrArg (fun v : EuclideanSpace ℝ (Fin 3) => v 1) h
  have h2 := congrArg (fun v : EuclideanSpace ℝ (Fin 3) => v 2) h
  simp [uvec] at h0 h1 h2
  exact ⟨h0, h1, h2⟩

/-- away from the poles the state is determined by the point -/
theorem uvec_inj_off_poles {θ1 φ1 θ2 φ2 : ℝ} (hφ0 : 0 < φ1) (hφ1 : φ1 < Real.pi)
    (ht1 : -Real.pi ≤ θ1) (ht1' : θ1 < Real.pi) (ht2 : -Real.pi ≤ θ2) (ht2' : θ2 < Real.pi)
    (hp0 : 0 ≤ φ2) (hp1 : φ2 ≤ Real.pi) (h : uvec θ1 φ1 = uvec θ2 φ2) :
    θ1 = θ2 ∧ φ1 = φ2 := by
  obtain ⟨hx, hy, hz⟩ := uvec_components h
  have hφ : φ1 = φ2 := Real.injOn_cos ⟨hφ0.le, hφ1.le⟩ ⟨hp0, hp1⟩ hz
  subst hφ
  have hs : 0 < Real.sin φ1 := Real.sin_pos_of_pos_of_lt_pi hφ0 hφ1
  have hc : Real.cos θ1 = Real.cos θ2 := mul_left_cancel₀ hs.ne' hx
  have hsn : Real.sin θ1 = Real.sin θ2 := mul_left_cancel₀ hs.ne' hy
  refine ⟨?_, rfl⟩
  have ha : ((-θ1 : ℝ) : Real.Angle) = ((-θ2 : ℝ) : Real.Angle) :=
    Real.Angle.cos_sin_inj (by rw [Real.cos_neg, Real.cos_neg, hc])
      (by rw [Real.sin_neg, Real.sin_neg, hsn])
  have hb := congrArg Real.Angle.toReal ha
  rw [Real.Angle.toReal_coe_eq_self_iff.mpr ⟨by linarith, by linarith⟩,
    Real.Angle.toReal_coe_eq_self_iff.mpr ⟨by linarith, by linarith⟩] at hb
  linarith

end OmplModel.SpaceDist.Sphere
