import OmplModel.Proofs.CopyState
/-! `ScopedState::reals()` and `operator=(reals)`: the walk over `getValueAddressAtIndex` until null. -/
namespace OmplModel.Copy

theorem scopedReals_eq (sp : Sp) (st : St) :
    scopedReals sp st = (realAddrs sp).map (fun p => readBits st (some p)) := by
  unfold scopedReals
  rw [countFrom_spec (addrAtIndex sp) (nReals sp) (addrAtIndex_none_iff sp)]
  have hmin : min (nReals sp + 1) (nReals sp - 0) = (realAddrs sp).length := by
    rw [realAddrs_length]; omega
  rw [hmin]
  have h1 : (List.range (realAddrs sp).length).map (fun i => readBits st (addrAtIndex sp i))
      = ((List.range (realAddrs sp).length).map (fun k => (realAddrs sp)[k]?)).map (readBits st) := by
    rw [List.map_map]
    apply List.map_congr_left
    intro i _
    simp [addrAtIndex_spec]
  rw [h1, range_map_getElem?, List.map_map]
  rfl

/-- the first `rs.length` addresses (from index `i`) are written in order; values beyond the end of the state are ignored -/
theorem scopedAssign_eq (sp : Sp) : ∀ (rs : List Nat) (st : St) (i : Nat),
    scopedAssign sp st i rs = writeP st ((realAddrs sp).drop i) rs
  | [], st, i => by
      cases h : (realAddrs sp).drop i <;> simp [scopedAssign, writeP]
  | r :: rs, st, i => by
      rw [scopedAssign, addrAtIndex_spec]
      cases h : (realAddrs sp)[i]? with
      | none =>
        have : (realAddrs sp).drop i = [] := by
          rw [List.drop_eq_nil_iff]; exact List.getElem?_eq_none_iff.mp h
        simp [this, writeP]
      | some p =>
        have hi : i < (realAddrs sp).length := by
          rcases Nat.lt_or_ge i (realAddrs sp).length with h' | h'
          · exact h'
          · rw [List.getElem?_eq_none_iff.mpr h'] at h; cases h
        have hp : (realAddrs sp)[i] = p := by
          rw [List.getElem?_eq_getElem hi] at h; exact Option.some.inj h
        have hd : (realAddrs sp).drop i = p :: (realAddrs sp).drop (i + 1) := by
          rw [← hp]; exact List.drop_eq_getElem_cons hi
        simp only [hd, writeP]
        exact scopedAssign_eq sp rs _ (i + 1)

end OmplModel.Copy
