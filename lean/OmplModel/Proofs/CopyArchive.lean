import OmplModel.Model.Copy

/-
Proofs about the archive part (StateStorage / PlannerDataStorage at record granularity) and the
`copyStateData` result codes of `OmplModel.Model.Copy`.

A  StateStorage: store/load round trip, marker / signature rejection, every proper record prefix is
   `.truncated`, and what the real loader has kept by then is a prefix of the stored states.
B  PlannerData: `std::binary_search` correctness on sorted input (B1), store/load is the identity on graphs
   satisfying `Graph.WF`, `StartsOK`, `GoalsOK`, `Disjoint` (B2), rejection (B3), truncation (B4), the two
   witnesses showing that `GoalsOK` (ascending goals) and `Disjoint` cannot be dropped (B5), and preservation
   of `WF` / `StartsOK` by `addVertex`, `addEdge`, `markStart`.
C  `csdNames` result code (C1); `csd … = .all ↔ covered D S` (C2, `.all` half only).
-/

namespace OmplModel.Copy

/-! ## A. StateStorage -/

theorem readStates_map (imgs : List (List Nat)) (rest : List Rec) :
    readStates imgs.length (imgs.map .state ++ rest) = .ok imgs := by
  induction imgs with
  | nil => simp [readStates]
  | cons a as ih => simp [readStates, ih]

theorem readStates_short (n : Nat) (imgs : List (List Nat)) (h : imgs.length < n) :
    readStates n (imgs.map .state) = .error .truncated := by
  induction imgs generalizing n with
  | nil => cases n with
    | zero => omega
    | succ n => simp [readStates]
  | cons a as ih =>
    cases n with
    | zero => simp at h
    | succ n =>
      have := ih n (by simpa using h)
      simp [readStates, this]

theorem load_store_states (sig : List Int) (imgs : List (List Nat)) :
    loadStates sig (storeStates sig imgs) = .ok imgs := by
  have := readStates_map imgs []
  simp at this
  simp [loadStates, storeStates, this]

theorem loadStates_rejects_marker (sig : List Int) (h : Header) (rest : List Rec)
    (hm : h.marker ≠ markerStates) : loadStates sig (.header h :: rest) = .error .marker := by
  simp [loadStates, hm]

theorem loadStates_rejects_signature (sig sig' : List Int) (imgs : List (List Nat))
    (hs : sig' ≠ sig) : loadStates sig (storeStates sig' imgs) = .error .signature := by
  simp [loadStates, storeStates, hs]

theorem loadStates_truncated (sig : List Int) (imgs : List (List Nat)) :
    ∀ k, k < (storeStates sig imgs).length →
      loadStates sig ((storeStates sig imgs).take k) = .error .truncated := by
  intro k hk
  cases k with
  | zero => simp [loadStates]
  | succ k =>
    simp [storeStates] at hk
    have := readStates_short imgs.length (imgs.take k) (by simp; omega)
    simp [storeStates, loadStates, ← List.map_take, this]

theorem readPrefix_map (imgs : List (List Nat)) : readPrefix (imgs.map .state) = imgs := by
  induction imgs with
  | nil => simp [readPrefix]
  | cons a as ih => simp [readPrefix, ih]

theorem readPrefix_truncated (sig : List Int) (imgs : List (List Nat)) :
    ∀ k, 1 ≤ k → k ≤ imgs.length + 1 →
      readPrefix (((storeStates sig imgs).take k).drop 1) = imgs.take (k - 1) := by
  intro k h1 _
  cases k with
  | zero => omega
  | succ k =>
    simp [storeStates, ← List.map_take, readPrefix_map]


/-! ## B. PlannerData archives -/

/-! ### B1: `std::lower_bound` / `std::binary_search` on sorted input -/


theorem lowerBound_spec (a : Array Nat) (x : Nat)
    (hmono : ∀ i j, i ≤ j → j < a.size → a.getD i 0 ≤ a.getD j 0) :
    ∀ (fuel first len : Nat), len < fuel → first + len ≤ a.size →
      (∀ i, i < first → a.getD i 0 < x) →
      (∀ i, first + len ≤ i → i < a.size → x ≤ a.getD i 0) →
      lowerBound a x fuel first len ≤ a.size ∧
      (∀ i, i < lowerBound a x fuel first len → a.getD i 0 < x) ∧
      (∀ i, lowerBound a x fuel first len ≤ i → i < a.size → x ≤ a.getD i 0) := by
  intro fuel
  induction fuel with
  | zero => intro first len h; omega
  | succ fuel ih =>
    intro first len hf hsz hlo hhi
    unfold lowerBound
    split
    · next h0 =>
      subst h0
      exact ⟨by omega, hlo, fun i hi his => hhi i (by omega) his⟩
    · next h0 =>
      simp only []
      split
      · next hlt =>
        apply ih
        · omega
        · omega
        · intro i hi
          have := hmono i (first + len / 2) (by omega) (by omega)
          omega
        · intro i hi his
          exact hhi i (by omega) his
      · next hge =>
        apply ih
        · omega
        · omega
        · exact hlo
        · intro i hi his
          have := hmono (first + len / 2) i (by omega) his
          omega

theorem binSearch_sorted_le (l : List Nat) (x : Nat) (hs : l.Pairwise (· ≤ ·)) :
    binSearch l x = true ↔ x ∈ l := by
  have hget : ∀ i, l.toArray.getD i 0 = l.getD i 0 := by intro i; simp
  have hmono : ∀ i j, i ≤ j → j < l.toArray.size → l.toArray.getD i 0 ≤ l.toArray.getD j 0 := by
    intro i j hij hj
    simp at hj
    rw [hget, hget]
    rcases Nat.lt_or_eq_of_le hij with h | h
    · have := (List.pairwise_iff_getElem.mp hs) i j (by omega) hj h
      simpa [List.getD, List.getElem?_eq_getElem, hj, (by omega : i < l.length)] using this
    · subst h; exact Nat.le_refl _
  have spec := lowerBound_spec l.toArray x hmono (l.toArray.size + 1) 0 l.toArray.size
    (by omega) (by omega) (by intro i hi; omega) (by intro i h1 h2; omega)
  obtain ⟨h1, h2, h3⟩ := spec
  unfold binSearch
  simp only []
  generalize lowerBound l.toArray x (l.toArray.size + 1) 0 l.toArray.size = r at *
  simp only [Bool.and_eq_true, decide_eq_true_eq, Bool.not_eq_true', decide_eq_false_iff_not]
  constructor
  · rintro ⟨hr, hx⟩
    have := h3 r (Nat.le_refl _) hr
    have heq : l.toArray.getD r 0 = x := by omega
    rw [hget] at heq
    simp at hr
    simp [List.getD, hr] at heq
    rw [← heq]; exact List.getElem_mem _
  · intro hx
    obtain ⟨j, hj, rfl⟩ := List.getElem_of_mem hx
    have hjv : l.toArray.getD j 0 = l[j] := by
      rw [hget]; simp [List.getD, hj]
    have hrj : r ≤ j := by
      apply Nat.le_of_not_lt
      intro hlt
      have := h2 j hlt
      omega
    have hr : r < l.toArray.size := by simp; omega
    refine ⟨hr, ?_⟩
    have := hmono r j hrj (by simp; omega)
    omega

theorem binSearch_sorted (l : List Nat) (x : Nat) (hs : l.Pairwise (· < ·)) :
    binSearch l x = true ↔ x ∈ l :=
  binSearch_sorted_le l x (hs.imp (fun h => Nat.le_of_lt h))


/-! ### B2: store/load round trip -/



def Graph.WF (g : Graph) : Prop :=
  (∀ e ∈ g.edges, e.src < g.verts.length ∧ e.dst < g.verts.length) ∧
  g.edges.Pairwise (fun a b => ¬(a.src = b.src ∧ a.dst = b.dst)) ∧
  g.edges.Pairwise (fun a b => a.src ≤ b.src)

def StartsOK (g : Graph) : Prop := g.starts.Pairwise (· < ·) ∧ ∀ i ∈ g.starts, i < g.verts.length
def GoalsOK (g : Graph) : Prop := g.goals.Pairwise (· < ·) ∧ ∀ i ∈ g.goals, i < g.verts.length
def Disjoint (g : Graph) : Prop := ∀ i, ¬(i ∈ g.starts ∧ i ∈ g.goals)

theorem readVerts_map (vs : List VRec) (rest : List Rec) :
    readVerts vs.length (vs.map .vertex ++ rest) = .ok (vs, rest) := by
  induction vs with
  | nil => simp [readVerts]
  | cons a as ih => simp [readVerts, ih]

theorem readEdges_map (es : List ERec) (rest : List Rec) :
    readEdges es.length (es.map .edge ++ rest) = .ok es := by
  induction es with
  | nil => simp [readEdges]
  | cons a as ih => simp [readEdges, ih]

theorem insertSorted_append (k : Nat) (l : List Nat) (h : ∀ y ∈ l, y < k) :
    insertSorted k l = l ++ [k] := by
  induction l with
  | nil => rfl
  | cons y ys ih =>
    have hy := h y (by simp)
    have := ih (fun z hz => h z (by simp [hz]))
    simp [insertSorted, this]; omega

theorem filter_lt_succ_mem (l : List Nat) (k : Nat) (hs : l.Pairwise (· < ·)) (hk : k ∈ l) :
    l.filter (· < k + 1) = l.filter (· < k) ++ [k] := by
  induction l with
  | nil => simp at hk
  | cons y ys ih =>
    rw [List.pairwise_cons] at hs
    obtain ⟨hy, hys⟩ := hs
    by_cases hyk : y = k
    · subst hyk
      have h1 : ys.filter (· < y + 1) = [] := by
        simp only [List.filter_eq_nil_iff, decide_eq_true_eq]
        intro a ha; have := hy a ha; omega
      have h2 : ys.filter (· < y) = [] := by
        simp only [List.filter_eq_nil_iff, decide_eq_true_eq]
        intro a ha; have := hy a ha; omega
      simp [h1, h2]
    · have hk' : k ∈ ys := by simpa [Ne.symm hyk] using hk
      have := hy k hk'
      have ih' := ih hys hk'
      have a1 : y < k + 1 := by omega
      have a2 : y < k := by omega
      simp [a1, a2, ih']

theorem filter_lt_succ_not_mem (l : List Nat) (k : Nat) (hk : k ∉ l) :
    l.filter (· < k + 1) = l.filter (· < k) := by
  apply List.filter_congr
  intro x hx
  have : x ≠ k := fun h => hk (h ▸ hx)
  simp; omega

theorem vrecs_length (g : Graph) : (vrecs g).length = g.verts.length := by
  simp [vrecs]

theorem vrecs_getElem (g : Graph) (k : Nat) (hk : k < g.verts.length) :
    (vrecs g)[k]'(by simp [vrecs_length, hk]) =
      { tag := g.verts[k].tag, type := vtype g k, img := g.verts[k].img } := by
  simp [vrecs]

theorem foldl_addLoaded_take (g : Graph) (hS : StartsOK g) (hG : GoalsOK g) (hD : Disjoint g) :
    ∀ k, k ≤ g.verts.length →
      ((vrecs g).take k).foldl addLoaded {} =
        { verts := g.verts.take k, edges := [],
          starts := g.starts.filter (· < k), goals := g.goals.filter (· < k) } := by
  intro k
  induction k with
  | zero => intro _; simp
  | succ k ih =>
    intro hk
    have hk' : k < g.verts.length := by omega
    have hkv : k < (vrecs g).length := by simp [vrecs_length, hk']
    rw [List.take_succ_eq_append_getElem hkv, List.foldl_append, ih (by omega)]
    rw [vrecs_getElem g k hk']
    simp only [List.foldl_cons, List.foldl_nil]
    have hlen : (g.verts.take k).length = k := by simp; omega
    have hvt : g.verts.take k ++ [{ tag := g.verts[k].tag, img := g.verts[k].img }]
        = g.verts.take (k + 1) := by
      rw [List.take_succ_eq_append_getElem hk']
    have hisS : g.isStart k = true ↔ k ∈ g.starts := binSearch_sorted _ _ hS.1
    have hisG : g.isGoal k = true ↔ k ∈ g.goals := binSearch_sorted _ _ hG.1
    have hfS : binSearch (g.starts.filter (· < k)) k = false := by
      rw [Bool.eq_false_iff]; intro h
      have := (binSearch_sorted _ _ (hS.1.filter _)).mp h
      simp at this
    have hfG : binSearch (g.goals.filter (· < k)) k = false := by
      rw [Bool.eq_false_iff]; intro h
      have := (binSearch_sorted _ _ (hG.1.filter _)).mp h
      simp at this
    unfold addLoaded vtype
    simp only [Graph.addVertex, hlen, hvt]
    by_cases hs : k ∈ g.starts
    · have hng : k ∉ g.goals := fun h => hD k ⟨hs, h⟩
      simp only [hisS.mpr hs, if_true]
      simp only [Graph.markStart, Graph.isStart, hfS]
      have : k < (g.verts.take (k+1)).length := by simp; omega
      simp only [this, if_true]
      rw [insertSorted_append _ _ (by intro y hy; simpa using (List.mem_filter.mp hy).2)]
      rw [filter_lt_succ_mem _ _ hS.1 hs, filter_lt_succ_not_mem _ _ hng]
      simp
    · have hs' : g.isStart k = false := by
        rw [Bool.eq_false_iff]; exact fun h => hs (hisS.mp h)
      by_cases hg : k ∈ g.goals
      · simp only [hs', hisG.mpr hg]
        simp only [Graph.markGoal, Graph.isGoal, hfG]
        have : k < (g.verts.take (k+1)).length := by simp; omega
        simp only [this, if_true]
        rw [insertSorted_append _ _ (by intro y hy; simpa using (List.mem_filter.mp hy).2)]
        rw [filter_lt_succ_mem _ _ hG.1 hg, filter_lt_succ_not_mem _ _ hs]
        simp
      · have hg' : g.isGoal k = false := by
          rw [Bool.eq_false_iff]; exact fun h => hg (hisG.mp h)
        simp [hs', hg']
        rw [filter_lt_succ_not_mem _ _ hg, filter_lt_succ_not_mem _ _ hs]
        simp

theorem insertEdge_append (e : ERec) (l : List ERec) (h : ∀ a ∈ l, a.src ≤ e.src) :
    insertEdge e l = l ++ [e] := by
  induction l with
  | nil => rfl
  | cons y ys ih =>
    have hy := h y (by simp)
    have := ih (fun z hz => h z (by simp [hz]))
    simp [insertEdge, this]; omega

theorem addLoadedEdges_rebuild (vs : List Vertex) (ss gs : List Nat) (suf : List ERec) :
    ∀ (pre : List ERec),
      (∀ e ∈ pre ++ suf, e.src < vs.length ∧ e.dst < vs.length) →
      (pre ++ suf).Pairwise (fun a b => ¬(a.src = b.src ∧ a.dst = b.dst)) →
      (pre ++ suf).Pairwise (fun a b => a.src ≤ b.src) →
      addLoadedEdges { verts := vs, edges := pre, starts := ss, goals := gs } suf =
        { verts := vs, edges := pre ++ suf, starts := ss, goals := gs } := by
  induction suf with
  | nil => intro pre _ _ _; simp [addLoadedEdges]
  | cons e suf ih =>
    intro pre hr hnd hso
    have hre := hr e (by simp)
    have hex : Graph.edgeExists { verts := vs, edges := pre, starts := ss, goals := gs } e.src e.dst
        = false := by
      rw [Bool.eq_false_iff]; intro h
      simp only [Graph.edgeExists, List.any_eq_true, Bool.and_eq_true, beq_iff_eq] at h
      obtain ⟨a, ha, h1, h2⟩ := h
      rw [List.pairwise_append] at hnd
      exact hnd.2.2 a ha e (by simp) ⟨h1, h2⟩
    have hins : insertEdge e pre = pre ++ [e] := by
      apply insertEdge_append
      intro a ha
      rw [List.pairwise_append] at hso
      exact hso.2.2 a ha e (by simp)
    have hstep : (Graph.addEdge { verts := vs, edges := pre, starts := ss, goals := gs } e).1 =
        { verts := vs, edges := pre ++ [e], starts := ss, goals := gs } := by
      unfold Graph.addEdge
      rw [hex]
      have h1 : ¬ (e.src ≥ vs.length) := by omega
      have h2 : ¬ (e.dst ≥ vs.length) := by omega
      simp [h1, h2, hins]
    have := ih (pre ++ [e]) (by simpa using hr) (by simpa using hnd) (by simpa using hso)
    simp only [addLoadedEdges, List.foldl_cons] at this ⊢
    rw [hstep, this]
    simp

/-- B2, strongest form: under the lookup-accuracy hypotheses the loaded graph *is* the stored one. -/
theorem load_store_graph_eq (m : Nat) (sig csig : List Int) (g : Graph)
    (hW : g.WF) (hS : StartsOK g) (hG : GoalsOK g) (hD : Disjoint g) :
    loadGraph m sig csig (storeGraph m sig csig g) = .ok g := by
  have hv := readVerts_map (vrecs g) (g.edges.map .edge)
  have he := readEdges_map g.edges []
  rw [vrecs_length] at hv
  simp only [List.append_nil] at he
  have hfold := foldl_addLoaded_take g hS hG hD g.verts.length (Nat.le_refl _)
  rw [← vrecs_length, List.take_length, vrecs_length] at hfold
  have hfs : g.starts.filter (· < g.verts.length) = g.starts := by
    rw [List.filter_eq_self]; intro a ha; simpa using hS.2 a ha
  have hfg : g.goals.filter (· < g.verts.length) = g.goals := by
    rw [List.filter_eq_self]; intro a ha; simpa using hG.2 a ha
  rw [hfs, hfg, List.take_length] at hfold
  have hedges := addLoadedEdges_rebuild g.verts g.starts g.goals g.edges []
    (by simpa using hW.1) (by simpa using hW.2.1) (by simpa using hW.2.2)
  simp only [loadGraph, storeGraph, hv, he, hfold, ne_eq, not_true_eq_false, if_false]
  simpa using hedges

theorem load_store_graph (m : Nat) (sig csig : List Int) (g : Graph)
    (hW : g.WF) (hS : StartsOK g) (hG : GoalsOK g) (hD : Disjoint g) :
    ∃ g', loadGraph m sig csig (storeGraph m sig csig g) = .ok g' ∧
      g'.verts = g.verts ∧ g'.edges = g.edges ∧ g'.starts = g.starts ∧ g'.goals = g.goals :=
  ⟨g, load_store_graph_eq m sig csig g hW hS hG hD, rfl, rfl, rfl, rfl⟩

/-! ### B3/B4: rejection and truncation -/

theorem loadGraph_rejects_marker (m : Nat) (sig csig : List Int) (h : Header) (rest : List Rec)
    (hm : h.marker ≠ m) : loadGraph m sig csig (.header h :: rest) = .error .marker := by
  simp [loadGraph, hm]

theorem loadGraph_rejects_signature (m : Nat) (sig sig' csig : List Int) (g : Graph)
    (hs : sig' ≠ sig) : loadGraph m sig csig (storeGraph m sig' csig g) = .error .signature := by
  simp [loadGraph, storeGraph, hs]

theorem loadGraph_rejects_ctrl_signature (m : Nat) (sig csig csig' : List Int) (g : Graph)
    (hs : csig' ≠ csig) :
    loadGraph m sig csig (storeGraph m sig csig' g) = .error .ctrlSignature := by
  simp [loadGraph, storeGraph, hs]

theorem readVerts_short (n : Nat) (vs : List VRec) (h : vs.length < n) :
    readVerts n (vs.map .vertex) = .error .truncated := by
  induction vs generalizing n with
  | nil => cases n with
    | zero => omega
    | succ n => simp [readVerts]
  | cons a as ih =>
    cases n with
    | zero => simp at h
    | succ n =>
      have := ih n (by simpa using h)
      simp [readVerts, this]

theorem readEdges_short (n : Nat) (es : List ERec) (h : es.length < n) :
    readEdges n (es.map .edge) = .error .truncated := by
  induction es generalizing n with
  | nil => cases n with
    | zero => omega
    | succ n => simp [readEdges]
  | cons a as ih =>
    cases n with
    | zero => simp at h
    | succ n =>
      have := ih n (by simpa using h)
      simp [readEdges, this]

theorem loadGraph_truncated (m : Nat) (sig csig : List Int) (g : Graph) :
    ∀ k, k < (storeGraph m sig csig g).length →
      loadGraph m sig csig ((storeGraph m sig csig g).take k) = .error .truncated := by
  intro k hk
  cases k with
  | zero => simp [loadGraph]
  | succ k =>
    simp [storeGraph, vrecs_length] at hk
    simp only [storeGraph, List.take_succ_cons, loadGraph, ne_eq, not_true_eq_false, if_false]
    rw [List.take_append]
    by_cases hkv : k < g.verts.length
    · have h0 : k - ((vrecs g).map Rec.vertex).length = 0 := by simp [vrecs_length]; omega
      rw [h0, List.take_zero, List.append_nil, ← List.map_take,
        readVerts_short _ _ (by simp [vrecs_length]; omega)]
    · have h1 : ((vrecs g).map Rec.vertex).take k = (vrecs g).map Rec.vertex := by
        apply List.take_of_length_le; simp [vrecs_length]; omega
      have hv := readVerts_map (vrecs g) ((g.edges.map Rec.edge).take (k - ((vrecs g).map Rec.vertex).length))
      rw [vrecs_length] at hv
      rw [h1, hv]
      simp only []
      rw [← List.map_take, readEdges_short _ _ (by simp [vrecs_length]; omega)]


/-! ### B5: the two defects reproduced by the model (witnesses against the unrestricted round trip) -/

/-- deciding `x = .ok y` through `DecidableEq` of the payload (core has no `DecidableEq (Except ε α)`) -/
theorem except_eq_ok_of_decide {ε α : Type} [DecidableEq α] (x : Except ε α) (y : α)
    (h : (match x with | .ok v => decide (v = y) | .error _ => false) = true) : x = .ok y := by
  cases x with
  | ok v => simp at h; rw [h]
  | error e => simp at h

/-- three vertices, goals marked in the order 2, 0 with the operation as it was before fix 4a60b3f19
(`markGoalState` did not sort `goalVertexIndices_`) -/
def gUnsortedGoals : Graph :=
  ((((({} : Graph).addVertex ⟨0, []⟩).addVertex ⟨0, []⟩).addVertex ⟨0, []⟩).markGoalOld 2).markGoalOld 0

/-- one vertex that is both start and goal -/
def gStartAndGoal : Graph :=
  ((({} : Graph).addVertex ⟨0, []⟩).markStart 0).markGoal 0

theorem gUnsortedGoals_eq :
    gUnsortedGoals = { verts := [⟨0, []⟩, ⟨0, []⟩, ⟨0, []⟩], edges := [], starts := [], goals := [2, 0] } := by
  decide

theorem gStartAndGoal_eq :
    gStartAndGoal = { verts := [⟨0, []⟩], edges := [], starts := [0], goals := [0] } := by
  decide

/-- Defect (a) of the code before 4a60b3f19: all hypotheses of `load_store_graph` hold except that the goal list is not ascending
(it is still duplicate-free and in range); both goals are lost on the round trip. -/
theorem load_store_unsorted_goals_old_fails (m : Nat) (sig csig : List Int) :
    gUnsortedGoals.WF ∧ StartsOK gUnsortedGoals ∧ Disjoint gUnsortedGoals ∧
    gUnsortedGoals.goals = [2, 0] ∧ (∀ i ∈ gUnsortedGoals.goals, i < gUnsortedGoals.verts.length) ∧
    loadGraph m sig csig (storeGraph m sig csig gUnsortedGoals) = .ok { gUnsortedGoals with goals := [] } := by
  rw [gUnsortedGoals_eq]
  refine ⟨?_, ?_, ?_, rfl, ?_, ?_⟩
  · simp [Graph.WF]
  · simp [StartsOK]
  · simp [Disjoint]
  · decide
  · simp only [loadGraph, storeGraph, ne_eq, not_true_eq_false, if_false]
    apply except_eq_ok_of_decide
    decide

/-- Defect (b): all hypotheses of `load_store_graph` hold except `Disjoint`; the vertex comes back as a
start only. -/
theorem load_store_start_and_goal_fails (m : Nat) (sig csig : List Int) :
    gStartAndGoal.WF ∧ StartsOK gStartAndGoal ∧ GoalsOK gStartAndGoal ∧
    0 ∈ gStartAndGoal.starts ∧ 0 ∈ gStartAndGoal.goals ∧
    loadGraph m sig csig (storeGraph m sig csig gStartAndGoal) = .ok { gStartAndGoal with goals := [] } := by
  rw [gStartAndGoal_eq]
  refine ⟨?_, ?_, ?_, ?_, ?_, ?_⟩
  · simp [Graph.WF]
  · simp [StartsOK]
  · simp [GoalsOK]
  · simp
  · simp
  · simp only [loadGraph, storeGraph, ne_eq, not_true_eq_false, if_false]
    apply except_eq_ok_of_decide
    decide

/-- the `GoalsOK` hypothesis of `load_store_graph` cannot be weakened to "in range" -/
theorem load_store_graph_needs_sorted_goals :
    ¬ ∀ (m : Nat) (sig csig : List Int) (g : Graph), g.WF → StartsOK g → Disjoint g →
        (∀ i ∈ g.goals, i < g.verts.length) →
        ∃ g', loadGraph m sig csig (storeGraph m sig csig g) = .ok g' ∧
          g'.verts = g.verts ∧ g'.edges = g.edges ∧ g'.starts = g.starts ∧ g'.goals = g.goals := by
  intro h
  obtain ⟨hW, hS, hD, hg, hr, hl⟩ := load_store_unsorted_goals_old_fails 0 [] []
  obtain ⟨g', h1, _, _, _, h5⟩ := h 0 [] [] gUnsortedGoals hW hS hD hr
  rw [hl] at h1
  injection h1 with h1
  rw [← h1, hg] at h5
  simp at h5

/-- the `Disjoint` hypothesis of `load_store_graph` cannot be dropped -/
theorem load_store_graph_needs_disjoint :
    ¬ ∀ (m : Nat) (sig csig : List Int) (g : Graph), g.WF → StartsOK g → GoalsOK g →
        ∃ g', loadGraph m sig csig (storeGraph m sig csig g) = .ok g' ∧
          g'.verts = g.verts ∧ g'.edges = g.edges ∧ g'.starts = g.starts ∧ g'.goals = g.goals := by
  intro h
  obtain ⟨hW, hS, hG, _, hg, hl⟩ := load_store_start_and_goal_fails 0 [] []
  obtain ⟨g', h1, _, _, _, h5⟩ := h 0 [] [] gStartAndGoal hW hS hG
  rw [hl] at h1
  injection h1 with h1
  rw [← h1] at h5
  rw [← h5] at hg
  simp at hg

/-! ### the hypotheses of B2 are maintained by the model's own operations -/

theorem mem_insertEdge (e x : ERec) (l : List ERec) : x ∈ insertEdge e l ↔ x = e ∨ x ∈ l := by
  induction l with
  | nil => simp [insertEdge]
  | cons y ys ih =>
    simp only [insertEdge]
    split
    · simp
    · simp only [List.mem_cons, ih]
      constructor
      · rintro (h | h | h) <;> simp [h]
      · rintro (h | h | h) <;> simp [h]

theorem insertEdge_sorted (e : ERec) (l : List ERec) (h : l.Pairwise (fun a b => a.src ≤ b.src)) :
    (insertEdge e l).Pairwise (fun a b => a.src ≤ b.src) := by
  induction l with
  | nil => simp [insertEdge]
  | cons y ys ih =>
    rw [List.pairwise_cons] at h
    simp only [insertEdge]
    split
    · next hlt =>
      refine List.Pairwise.cons ?_ (List.Pairwise.cons h.1 h.2)
      intro a ha
      rcases List.mem_cons.mp ha with rfl | ha
      · omega
      · have := h.1 a ha; omega
    · next hge =>
      refine List.Pairwise.cons ?_ (ih h.2)
      intro a ha
      rcases (mem_insertEdge e a ys).mp ha with rfl | ha
      · omega
      · exact h.1 a ha

theorem insertEdge_nodup (e : ERec) (l : List ERec)
    (h : l.Pairwise (fun a b => ¬(a.src = b.src ∧ a.dst = b.dst)))
    (he : ∀ a ∈ l, ¬(a.src = e.src ∧ a.dst = e.dst)) :
    (insertEdge e l).Pairwise (fun a b => ¬(a.src = b.src ∧ a.dst = b.dst)) := by
  induction l with
  | nil => simp [insertEdge]
  | cons y ys ih =>
    rw [List.pairwise_cons] at h
    simp only [insertEdge]
    split
    · refine List.Pairwise.cons ?_ (List.Pairwise.cons h.1 h.2)
      intro a ha hh
      exact he a ha ⟨hh.1.symm, hh.2.symm⟩
    · refine List.Pairwise.cons ?_ (ih h.2 (fun a ha => he a (by simp [ha])))
      intro a ha
      rcases (mem_insertEdge e a ys).mp ha with rfl | ha
      · exact he y (by simp)
      · exact h.1 a ha

theorem WF_addEdge (g : Graph) (e : ERec) (h : g.WF) : (g.addEdge e).1.WF := by
  unfold Graph.addEdge
  split
  · exact h
  · next hr =>
    split
    · exact h
    · next hex =>
      simp only [Bool.or_eq_true, decide_eq_true_eq, not_or, Nat.not_le, ge_iff_le] at hr
      obtain ⟨h1, h2, h3⟩ := h
      refine ⟨?_, ?_, ?_⟩
      · intro x hx
        rcases (mem_insertEdge e x g.edges).mp hx with rfl | hx
        · exact hr
        · exact h1 x hx
      · apply insertEdge_nodup _ _ h2
        intro a ha hh
        apply hex
        simp only [Graph.edgeExists, List.any_eq_true, Bool.and_eq_true, beq_iff_eq]
        exact ⟨a, ha, hh⟩
      · exact insertEdge_sorted _ _ h3

theorem WF_addVertex (g : Graph) (v : Vertex) (h : g.WF) : (g.addVertex v).WF := by
  obtain ⟨h1, h2, h3⟩ := h
  refine ⟨?_, h2, h3⟩
  intro e he
  have := h1 e he
  simp [Graph.addVertex]; omega

theorem mem_insertSorted (x y : Nat) (l : List Nat) : y ∈ insertSorted x l ↔ y = x ∨ y ∈ l := by
  induction l with
  | nil => simp [insertSorted]
  | cons z zs ih =>
    simp only [insertSorted]
    split
    · simp
    · simp only [List.mem_cons, ih]
      constructor
      · rintro (h | h | h) <;> simp [h]
      · rintro (h | h | h) <;> simp [h]

theorem insertSorted_sorted (x : Nat) (l : List Nat) (h : l.Pairwise (· < ·)) (hx : x ∉ l) :
    (insertSorted x l).Pairwise (· < ·) := by
  induction l with
  | nil => simp [insertSorted]
  | cons z zs ih =>
    rw [List.pairwise_cons] at h
    have hxz : x ≠ z := fun hh => hx (by simp [hh])
    simp only [insertSorted]
    split
    · refine List.Pairwise.cons ?_ (List.Pairwise.cons h.1 h.2)
      intro a ha
      rcases List.mem_cons.mp ha with rfl | ha
      · omega
      · have := h.1 a ha; omega
    · refine List.Pairwise.cons ?_ (ih h.2 (fun hh => hx (by simp [hh])))
      intro a ha
      rcases (mem_insertSorted x a zs).mp ha with rfl | ha
      · omega
      · exact h.1 a ha

theorem StartsOK_markStart (g : Graph) (i : Nat) (h : StartsOK g) : StartsOK (g.markStart i) := by
  unfold Graph.markStart
  split
  · next hi =>
    split
    · exact h
    · next hns =>
      have hni : i ∉ g.starts := fun hm => hns ((binSearch_sorted _ _ h.1).mpr hm)
      refine ⟨insertSorted_sorted _ _ h.1 hni, ?_⟩
      intro a ha
      rcases (mem_insertSorted i a g.starts).mp ha with rfl | ha
      · exact hi
      · exact h.2 a ha
  · exact h

theorem StartsOK_addVertex (g : Graph) (v : Vertex) (h : StartsOK g) : StartsOK (g.addVertex v) := by
  refine ⟨h.1, ?_⟩
  intro a ha
  have := h.2 a ha
  simp [Graph.addVertex]; omega

theorem GoalsOK_markGoal (g : Graph) (i : Nat) (h : GoalsOK g) : GoalsOK (g.markGoal i) := by
  unfold Graph.markGoal
  split
  · next hi =>
    split
    · exact h
    · next hns =>
      have hni : i ∉ g.goals := fun hm => hns ((binSearch_sorted _ _ h.1).mpr hm)
      refine ⟨insertSorted_sorted _ _ h.1 hni, ?_⟩
      intro a ha
      rcases (mem_insertSorted i a g.goals).mp ha with rfl | ha
      · exact hi
      · exact h.2 a ha
  · exact h

theorem GoalsOK_addVertex (g : Graph) (v : Vertex) (h : GoalsOK g) : GoalsOK (g.addVertex v) := by
  refine ⟨h.1, ?_⟩
  intro a ha
  have := h.2 a ha
  simp [Graph.addVertex]; omega

/-- everything the round trip needs about a graph -/
def Graph.Inv (g : Graph) : Prop := g.WF ∧ StartsOK g ∧ GoalsOK g

theorem Inv_empty : ({} : Graph).Inv := by
  simp [Graph.Inv, Graph.WF, StartsOK, GoalsOK]

theorem Inv_addVertex (g : Graph) (v : Vertex) (h : g.Inv) : (g.addVertex v).Inv :=
  ⟨WF_addVertex g v h.1, StartsOK_addVertex g v h.2.1, GoalsOK_addVertex g v h.2.2⟩

theorem Inv_addEdge (g : Graph) (e : ERec) (h : g.Inv) : (g.addEdge e).1.Inv := by
  refine ⟨WF_addEdge g e h.1, ?_, ?_⟩
  · unfold Graph.addEdge; split
    · exact h.2.1
    · split
      · exact h.2.1
      · exact h.2.1
  · unfold Graph.addEdge; split
    · exact h.2.2
    · split
      · exact h.2.2
      · exact h.2.2

theorem Inv_markStart (g : Graph) (i : Nat) (h : g.Inv) : (g.markStart i).Inv := by
  refine ⟨?_, StartsOK_markStart g i h.2.1, ?_⟩
  · unfold Graph.markStart; split
    · split
      · exact h.1
      · exact h.1
    · exact h.1
  · unfold Graph.markStart; split
    · split
      · exact h.2.2
      · exact h.2.2
    · exact h.2.2

theorem Inv_markGoal (g : Graph) (i : Nat) (h : g.Inv) : (g.markGoal i).Inv := by
  refine ⟨?_, ?_, GoalsOK_markGoal g i h.2.2⟩
  · unfold Graph.markGoal; split
    · split
      · exact h.1
      · exact h.1
    · exact h.1
  · unfold Graph.markGoal; split
    · split
      · exact h.2.1
      · exact h.2.1
    · exact h.2.1

theorem Inv_setTag (g : Graph) (i : Nat) (t : Int) (h : g.Inv) : (g.setTag i t).Inv := by
  obtain ⟨⟨h1, h2, h3⟩, hs, hg⟩ := h
  refine ⟨⟨?_, h2, h3⟩, ⟨hs.1, ?_⟩, ⟨hg.1, ?_⟩⟩
  · intro e he; simpa [Graph.setTag] using h1 e he
  · intro a ha; simpa [Graph.setTag] using hs.2 a ha
  · intro a ha; simpa [Graph.setTag] using hg.2 a ha

theorem Inv_removeEdge (g : Graph) (a b : Nat) (h : g.Inv) : (g.removeEdge a b).1.Inv := by
  unfold Graph.removeEdge
  split
  · exact h
  · split
    · obtain ⟨⟨h1, h2, h3⟩, hs, hg⟩ := h
      refine ⟨⟨?_, h2.filter _, h3.filter _⟩, hs, hg⟩
      intro e he
      exact h1 e (List.mem_filter.mp he).1
    · exact h

theorem shift_lt (v a b : Nat) (ha : a ≠ v) (hb : b ≠ v) (h : a < b) : shiftIdx v a < shiftIdx v b := by
  unfold shiftIdx; split <;> split <;> omega

theorem shift_le (v a b : Nat) (_ha : a ≠ v) (_hb : b ≠ v) (h : a ≤ b) : shiftIdx v a ≤ shiftIdx v b := by
  unfold shiftIdx; split <;> split <;> omega

theorem shift_inj (v a b : Nat) (ha : a ≠ v) (hb : b ≠ v) (h : shiftIdx v a = shiftIdx v b) : a = b := by
  unfold shiftIdx at h; split at h <;> split at h <;> omega

theorem shift_bound (v a n : Nat) (ha : a ≠ v) (hv : v < n) (h : a < n) : shiftIdx v a < n - 1 := by
  unfold shiftIdx; split <;> omega

theorem idxList_remove (l : List Nat) (v n : Nat) (hv : v < n) (hs : l.Pairwise (· < ·)) (hb : ∀ i ∈ l, i < n) :
    ((l.erase v).map (shiftIdx v)).Pairwise (· < ·) ∧ ∀ i ∈ (l.erase v).map (shiftIdx v), i < n - 1 := by
  have hnd : l.Nodup := hs.imp (fun h => Nat.ne_of_lt h)
  have hmem : ∀ a, a ∈ l.erase v → a ∈ l ∧ a ≠ v := by
    intro a ha
    have := (List.Nodup.mem_erase_iff hnd).mp ha
    exact ⟨this.2, this.1⟩
  constructor
  · rw [List.pairwise_map]
    have hsub : (l.erase v).Pairwise (· < ·) := hs.sublist List.erase_sublist
    exact hsub.imp_of_mem (fun {a b} ha hb' hab => shift_lt v a b (hmem a ha).2 (hmem b hb').2 hab)
  · intro i hi
    obtain ⟨a, ha, rfl⟩ := List.mem_map.mp hi
    exact shift_bound v a n (hmem a ha).2 hv (hb a (hmem a ha).1)

theorem Inv_removeVertex (g : Graph) (v : Nat) (h : g.Inv) : (g.removeVertex v).1.Inv := by
  unfold Graph.removeVertex
  split
  · exact h
  · next hv =>
    have hv' : v < g.verts.length := by omega
    obtain ⟨⟨h1, h2, h3⟩, hs, hg⟩ := h
    have hlen : (g.verts.eraseIdx v).length = g.verts.length - 1 := by
      rw [List.length_eraseIdx]; simp [hv']
    have hS := idxList_remove g.starts v g.verts.length hv' hs.1 hs.2
    have hG := idxList_remove g.goals v g.verts.length hv' hg.1 hg.2
    have hf : ∀ e, e ∈ g.edges.filter (fun e => e.src != v && e.dst != v) → e ∈ g.edges ∧ e.src ≠ v ∧ e.dst ≠ v := by
      intro e he
      have := List.mem_filter.mp he
      simp only [Bool.and_eq_true, bne_iff_ne, ne_eq] at this
      exact ⟨this.1, this.2.1, this.2.2⟩
    refine ⟨⟨?_, ?_, ?_⟩, ⟨hS.1, by simpa [hlen] using hS.2⟩, ⟨hG.1, by simpa [hlen] using hG.2⟩⟩
    · intro e he
      simp only at he
      obtain ⟨e0, he0, rfl⟩ := List.mem_map.mp he
      obtain ⟨hm, hs0, hd0⟩ := hf e0 he0
      have := h1 e0 hm
      simp only [hlen]
      exact ⟨shift_bound v _ _ hs0 hv' this.1, shift_bound v _ _ hd0 hv' this.2⟩
    · simp only
      rw [List.pairwise_map]
      refine (h2.filter _).imp_of_mem ?_
      intro a b ha hb hab hh
      obtain ⟨_, has, had⟩ := hf a ha
      obtain ⟨_, hbs, hbd⟩ := hf b hb
      simp only at hh
      exact hab ⟨shift_inj v _ _ has hbs hh.1, shift_inj v _ _ had hbd hh.2⟩
    · simp only
      rw [List.pairwise_map]
      refine (h3.filter _).imp_of_mem ?_
      intro a b ha hb hab
      obtain ⟨_, has, _⟩ := hf a ha
      obtain ⟨_, hbs, _⟩ := hf b hb
      simp only
      exact shift_le v _ _ has hbs hab

/-- graphs reachable from the empty `PlannerData` by the (fixed) operations -/
inductive Built : Graph → Prop
  | empty : Built {}
  | addVertex {g} (v : Vertex) : Built g → Built (g.addVertex v)
  | addEdge {g} (e : ERec) : Built g → Built (g.addEdge e).1
  | markStart {g} (i : Nat) : Built g → Built (g.markStart i)
  | markGoal {g} (i : Nat) : Built g → Built (g.markGoal i)
  | setTag {g} (i : Nat) (t : Int) : Built g → Built (g.setTag i t)
  | removeEdge {g} (a b : Nat) : Built g → Built (g.removeEdge a b).1
  | removeVertex {g} (v : Nat) : Built g → Built (g.removeVertex v).1

theorem Built.inv {g : Graph} (h : Built g) : g.Inv := by
  induction h with
  | empty => exact Inv_empty
  | addVertex v _ ih => exact Inv_addVertex _ v ih
  | addEdge e _ ih => exact Inv_addEdge _ e ih
  | markStart i _ ih => exact Inv_markStart _ i ih
  | markGoal i _ ih => exact Inv_markGoal _ i ih
  | setTag i t _ ih => exact Inv_setTag _ i t ih
  | removeEdge a b _ ih => exact Inv_removeEdge _ a b ih
  | removeVertex v _ ih => exact Inv_removeVertex _ v ih

/-- the round trip for every graph the fixed operations can build, in which no vertex is both start and goal -/
theorem load_store_graph_built (m : Nat) (sig csig : List Int) (g : Graph) (hb : Built g) (hD : Disjoint g) :
    loadGraph m sig csig (storeGraph m sig csig g) = .ok g :=
  load_store_graph_eq m sig csig g hb.inv.1 hb.inv.2.1 hb.inv.2.2 hD

/-! ## C. copyStateData

### C1: result code of the overload with a list of names -/


/-- the requested name is a key of both substate maps -/
def nameFound (destS srcS : Sp) (nm : Nat) : Bool :=
  (findSub (substateLocs destS) nm).isSome && (findSub (substateLocs srcS) nm).isSome

theorem csdNames_count (destS : Sp) (dest : St) (srcS : Sp) (src : St) (names : List Nat) :
    (csdNames destS dest srcS src names).2 =
      if names.countP (nameFound destS srcS) = names.length then .all
      else if names.countP (nameFound destS srcS) > 0 then .some else .none := by
  unfold csdNames
  simp only []
  generalize hstep : (fun (acc : St × Nat) (nm : Nat) =>
    match findSub (substateLocs destS) nm, findSub (substateLocs srcS) nm with
    | some dc, some sc =>
      match nodeAt destS dc, acc.1.sub dc, src.sub sc with
      | some node, some dsub, some ssub => (acc.1.setSub dc (copyState node dsub ssub), acc.2 + 1)
      | _, _, _ => (acc.1, acc.2 + 1)
    | _, _ => acc) = step
  have key : ∀ (ns : List Nat) (acc : St × Nat),
      (ns.foldl step acc).2 = acc.2 + ns.countP (nameFound destS srcS) := by
    intro ns
    induction ns with
    | nil => intro acc; simp
    | cons n ns ih =>
      intro acc
      rw [List.foldl_cons, ih, List.countP_cons]
      have : (step acc n).2 = acc.2 + (if nameFound destS srcS n = true then 1 else 0) := by
        subst hstep
        unfold nameFound
        dsimp only
        cases h1 : findSub (substateLocs destS) n <;> cases h2 : findSub (substateLocs srcS) n <;>
          simp only [Option.isSome_none, Option.isSome_some, Bool.and_self, Bool.and_false,
            Bool.false_and, Bool.false_eq_true, if_false, if_true, Nat.add_zero]
        split <;> rfl
      rw [this]; omega
  rw [key]
  simp

theorem csdNames_all (destS : Sp) (dest : St) (srcS : Sp) (src : St) (names : List Nat) :
    (csdNames destS dest srcS src names).2 = .all ↔ ∀ nm ∈ names, nameFound destS srcS nm = true := by
  rw [csdNames_count, ← List.countP_eq_length]
  split
  · simp [*]
  · split <;> simp [*]

theorem csdNames_none (destS : Sp) (dest : St) (srcS : Sp) (src : St) (names : List Nat)
    (hne : names ≠ []) :
    (csdNames destS dest srcS src names).2 = .none ↔ ∀ nm ∈ names, nameFound destS srcS nm = false := by
  rw [csdNames_count]
  have h0 : List.countP (nameFound destS srcS) names = 0 ↔ ∀ nm ∈ names, nameFound destS srcS nm = false := by
    rw [List.countP_eq_zero]; simp
  have hl : 0 < names.length := List.length_pos_iff.mpr hne
  constructor
  · intro h
    apply h0.mp
    by_cases hc : List.countP (nameFound destS srcS) names = names.length
    · simp [hc] at h
    · by_cases hp : List.countP (nameFound destS srcS) names > 0
      · simp [hc, hp] at h
      · omega
  · intro h
    rw [h0.mpr h]
    have : ¬ (0 = names.length) := by omega
    simp [this]

theorem csdNames_some (destS : Sp) (dest : St) (srcS : Sp) (src : St) (names : List Nat) :
    (csdNames destS dest srcS src names).2 = .some ↔
      (∃ nm ∈ names, nameFound destS srcS nm = true) ∧ (∃ nm ∈ names, nameFound destS srcS nm = false) := by
  rw [csdNames_count]
  have h0 : List.countP (nameFound destS srcS) names > 0 ↔ ∃ nm ∈ names, nameFound destS srcS nm = true := by
    rw [gt_iff_lt, List.countP_pos_iff]
  have h1 : List.countP (nameFound destS srcS) names = names.length ↔ ¬ ∃ nm ∈ names, nameFound destS srcS nm = false := by
    rw [List.countP_eq_length]; simp
  rw [← h0]
  by_cases hc : List.countP (nameFound destS srcS) names = names.length
  · have := h1.mp hc
    simp only [hc, if_true]
    constructor
    · intro h; cases h
    · intro h; exact absurd h.2 this
  · by_cases hp : List.countP (nameFound destS srcS) names > 0
    · simp only [hc, hp, if_false, if_true, true_and]
      have := Classical.not_not.mp (mt h1.mpr hc)
      simp [this]
    · simp only [hc, hp, if_false, false_and]
      constructor
      · intro h; cases h
      · intro h; exact h.elim



/-! ### C2 -/

mutual
/-- the state has the compound skeleton of the space (all that the result code depends on) -/
def skel : Sp → St → Bool
  | .compound _ cs, .comp sts => skelL cs sts
  | .compound _ _, _ => false
  | _, _ => true
def skelL : List Sp → List St → Bool
  | [], [] => true
  | c :: cs, s :: ss => skel c s && skelL cs ss
  | _, _ => false
end

mutual
/-- names of the nodes of the genuine-compound tree (a wrapper is opaque) -/
def names : Sp → List Nat
  | .compound nm cs => nm :: namesL cs
  | .real nm _ => [nm] | .so2 nm => [nm] | .so3 nm => [nm] | .time nm => [nm] | .discrete nm => [nm]
  | .wrapper nm _ => [nm]
def namesL : List Sp → List Nat
  | [] => []
  | c :: cs => names c ++ namesL cs
end

mutual
/-- `P` holds at the node, or the node is a genuine compound all of whose components are covered -/
def cov (P : Sp → Prop) : Sp → Prop
  | .compound nm cs => P (.compound nm cs) ∨ covL P cs
  | .real nm n => P (.real nm n) | .so2 nm => P (.so2 nm) | .so3 nm => P (.so3 nm)
  | .time nm => P (.time nm) | .discrete nm => P (.discrete nm) | .wrapper nm s => P (.wrapper nm s)
def covL (P : Sp → Prop) : List Sp → Prop
  | [] => True
  | c :: cs => cov P c ∧ covL P cs
end

def covered (D S : Sp) : Prop := cov (fun S' => S'.name ∈ names D) S

theorem cov_of (P : Sp → Prop) (S : Sp) (h : P S) : cov P S := by
  cases S <;> simp [cov, h]

mutual
theorem cov_mono (P P' : Sp → Prop) (h : ∀ S, P S → P' S) : ∀ S, cov P S → cov P' S
  | .compound nm cs => by
    intro hc; simp only [cov] at hc ⊢
    exact hc.imp (h _) (covL_mono P P' h cs)
  | .real .. => by simpa [cov] using h _
  | .so2 .. => by simpa [cov] using h _
  | .so3 .. => by simpa [cov] using h _
  | .time .. => by simpa [cov] using h _
  | .discrete .. => by simpa [cov] using h _
  | .wrapper .. => by simpa [cov] using h _
theorem covL_mono (P P' : Sp → Prop) (h : ∀ S, P S → P' S) : ∀ cs, covL P cs → covL P' cs
  | [] => by simp [covL]
  | c :: cs => by
    intro hc; simp only [covL] at hc ⊢
    exact ⟨cov_mono P P' h c hc.1, covL_mono P P' h cs hc.2⟩
end

theorem skel_noncomp (c : Sp) (x : St) (h : c.children = none) : skel c x = true := by
  cases c <;> simp [Sp.children] at h <;> simp [skel]

mutual
theorem skel_copyState : ∀ (c : Sp) (d s : St), skel c d = true → skel c (copyState c d s) = true
  | .compound nm cs, d, s, h => by
    cases d with
    | comp ds =>
      cases s with
      | comp ss =>
        simp only [copyState, skel] at h ⊢
        exact skelL_copyStateL cs ds ss h
      | _ => simpa [copyState] using h
    | _ => simp [skel] at h
  | .real .., _, _, _ => by simp [skel]
  | .so2 .., _, _, _ => by simp [skel]
  | .so3 .., _, _, _ => by simp [skel]
  | .time .., _, _, _ => by simp [skel]
  | .discrete .., _, _, _ => by simp [skel]
  | .wrapper .., _, _, _ => by simp [skel]
theorem skelL_copyStateL : ∀ (cs : List Sp) (ds ss : List St), skelL cs ds = true →
    skelL cs (copyStateL cs ds ss) = true
  | [], ds, ss, h => by simpa [copyStateL] using h
  | c :: cs, [], ss, h => by simp [skelL] at h
  | c :: cs, d :: ds, [], h => by simpa [copyStateL] using h
  | c :: cs, d :: ds, s :: ss, h => by
    simp only [copyStateL, skelL, Bool.and_eq_true] at h ⊢
    exact ⟨skel_copyState c d s h.1, skelL_copyStateL cs ds ss h.2⟩
end


/-- the specification of a destination's "if destS is compound" block that the source recursion needs -/
structure BlkSpec (blk : Sp → St → St → St × CopyRes × Bool) (Q : St → Prop) (B : Sp → Prop) : Prop where
  pres : ∀ S s d, Q d → skel S s = true → Q (blk S s d).1
  flag : ∀ S s d, Q d → skel S s = true → ((blk S s d).2.2 = true ↔ B S)
  code : ∀ S s d, Q d → skel S s = true → (blk S s d).2.1 = .all → (blk S s d).2.2 = true

theorem csdHead_spec (dn : Nat) (cp : St → St → St) (blk : Sp → St → St → St × CopyRes × Bool)
    (Q : St → Prop) (B : Sp → Prop) (hcp : ∀ d s, Q d → Q (cp d s)) (hb : BlkSpec blk Q B)
    (S : Sp) (s d : St) (k : St → CopyRes → St × CopyRes) (K : Prop)
    (hQ : Q d) (hs : skel S s = true)
    (hk : ∀ d1 r1, Q d1 → r1 ≠ .all → Q (k d1 r1).1 ∧ ((k d1 r1).2 = .all ↔ K)) :
    Q (csdHead dn cp blk S s d k).1 ∧
      ((csdHead dn cp blk S s d k).2 = .all ↔ (dn = S.name ∨ B S) ∨ K) := by
  unfold csdHead
  by_cases h1 : dn = S.name
  · simp [h1, hcp d s hQ]
  · simp only [h1, if_false, false_or]
    have hp := hb.pres S s d hQ hs
    have hf := hb.flag S s d hQ hs
    have hc := hb.code S s d hQ hs
    by_cases h2 : (blk S s d).2.2 = true
    · simp [h2, hp, hf.mp h2]
    · have hnB : ¬ B S := fun h => h2 (hf.mpr h)
      have hna : (blk S s d).2.1 ≠ .all := fun h => h2 (hc h)
      have := hk _ _ hp hna
      simp only [h2]
      simp [hnB, this]

mutual
theorem csdS_spec (dn : Nat) (cp : St → St → St) (blk : Sp → St → St → St × CopyRes × Bool)
    (Q : St → Prop) (B : Sp → Prop) (hcp : ∀ d s, Q d → Q (cp d s)) (hb : BlkSpec blk Q B) :
    ∀ (S : Sp) (s d : St), Q d → skel S s = true →
      Q (csdS dn cp blk S s d).1 ∧
        ((csdS dn cp blk S s d).2 = .all ↔ cov (fun S' => dn = S'.name ∨ B S') S)
  | .compound nm scs, s, d, hQ, hs => by
    unfold csdS
    simp only [cov]
    apply csdHead_spec dn cp blk Q B hcp hb _ s d _ _ hQ hs
    intro d1 r1 hQ1 hr1
    cases s with
    | comp ss =>
      simp only [skel] at hs
      have := csdSL_spec dn cp blk Q B hcp hb scs ss d1 hQ1 hs
      simp only [St.children]
      refine ⟨this.1, ?_⟩
      rw [← this.2.2]
      by_cases hc : (csdSL dn cp blk scs ss d1).2.1 = scs.length
      · simp [hc]
      · simp only [hc, if_false, iff_false]
        by_cases hfl : (csdSL dn cp blk scs ss d1).2.2 = true <;> simp [hfl, hr1]
    | _ => simp [skel] at hs
  | .real .., s, d, hQ, hs => by
    unfold csdS; simp only [cov]
    have := csdHead_spec dn cp blk Q B hcp hb _ s d (fun d1 res1 => (d1, res1)) False hQ hs
      (by intro d1 r1 h1 h2; simp [h1, h2])
    simpa using this
  | .so2 .., s, d, hQ, hs => by
    unfold csdS; simp only [cov]
    have := csdHead_spec dn cp blk Q B hcp hb _ s d (fun d1 res1 => (d1, res1)) False hQ hs
      (by intro d1 r1 h1 h2; simp [h1, h2])
    simpa using this
  | .so3 .., s, d, hQ, hs => by
    unfold csdS; simp only [cov]
    have := csdHead_spec dn cp blk Q B hcp hb _ s d (fun d1 res1 => (d1, res1)) False hQ hs
      (by intro d1 r1 h1 h2; simp [h1, h2])
    simpa using this
  | .time .., s, d, hQ, hs => by
    unfold csdS; simp only [cov]
    have := csdHead_spec dn cp blk Q B hcp hb _ s d (fun d1 res1 => (d1, res1)) False hQ hs
      (by intro d1 r1 h1 h2; simp [h1, h2])
    simpa using this
  | .discrete .., s, d, hQ, hs => by
    unfold csdS; simp only [cov]
    have := csdHead_spec dn cp blk Q B hcp hb _ s d (fun d1 res1 => (d1, res1)) False hQ hs
      (by intro d1 r1 h1 h2; simp [h1, h2])
    simpa using this
  | .wrapper .., s, d, hQ, hs => by
    unfold csdS; simp only [cov]
    have := csdHead_spec dn cp blk Q B hcp hb _ s d (fun d1 res1 => (d1, res1)) False hQ hs
      (by intro d1 r1 h1 h2; simp [h1, h2])
    simpa using this
theorem csdSL_spec (dn : Nat) (cp : St → St → St) (blk : Sp → St → St → St × CopyRes × Bool)
    (Q : St → Prop) (B : Sp → Prop) (hcp : ∀ d s, Q d → Q (cp d s)) (hb : BlkSpec blk Q B) :
    ∀ (scs : List Sp) (ss : List St) (d : St), Q d → skelL scs ss = true →
      Q (csdSL dn cp blk scs ss d).1 ∧ (csdSL dn cp blk scs ss d).2.1 ≤ scs.length ∧
        ((csdSL dn cp blk scs ss d).2.1 = scs.length ↔ covL (fun S' => dn = S'.name ∨ B S') scs)
  | [], ss, d, hQ, hs => by
    unfold csdSL; simp [covL, hQ]
  | c :: cs, [], d, hQ, hs => by simp [skelL] at hs
  | c :: cs, s :: ss, d, hQ, hs => by
    simp only [skelL, Bool.and_eq_true] at hs
    have h1 := csdS_spec dn cp blk Q B hcp hb c s d hQ hs.1
    have h2 := csdSL_spec dn cp blk Q B hcp hb cs ss (csdS dn cp blk c s d).1 h1.1 hs.2
    unfold csdSL
    simp only [covL, List.length_cons]
    refine ⟨h2.1, ?_, ?_⟩
    · split <;> omega
    · rw [← h1.2, ← h2.2.2]
      have := h2.2.1
      by_cases hc : (csdS dn cp blk c s d).2 = .all
      · simp only [hc, if_true, true_and]; omega
      · simp only [hc, if_false, false_and, iff_false]; omega
end


mutual
theorem cov_bind (P P' : Sp → Prop) (h : ∀ S, P S → cov P' S) : ∀ S, cov P S → cov P' S
  | .compound nm cs => by
    intro hc; simp only [cov] at hc
    rcases hc with hc | hc
    · exact h _ hc
    · simp only [cov]; exact Or.inr (covL_bind P P' h cs hc)
  | .real .. => by intro hc; exact h _ (by simpa [cov] using hc)
  | .so2 .. => by intro hc; exact h _ (by simpa [cov] using hc)
  | .so3 .. => by intro hc; exact h _ (by simpa [cov] using hc)
  | .time .. => by intro hc; exact h _ (by simpa [cov] using hc)
  | .discrete .. => by intro hc; exact h _ (by simpa [cov] using hc)
  | .wrapper .. => by intro hc; exact h _ (by simpa [cov] using hc)
theorem covL_bind (P P' : Sp → Prop) (h : ∀ S, P S → cov P' S) : ∀ cs, covL P cs → covL P' cs
  | [] => by simp [covL]
  | c :: cs => by
    intro hc; simp only [covL] at hc ⊢
    exact ⟨cov_bind P P' h c hc.1, covL_bind P P' h cs hc.2⟩
end

theorem mem_namesL (n : Nat) (cs : List Sp) : n ∈ namesL cs ↔ ∃ c ∈ cs, n ∈ names c := by
  induction cs with
  | nil => simp [namesL]
  | cons c cs ih => simp [namesL, ih]

theorem name_mem_names (D : Sp) : D.name ∈ names D := by
  cases D <;> simp [names, Sp.name]

/-- some component of the (genuine compound) destination covers the source -/
def BD (D S : Sp) : Prop := ∃ c ∈ D.children.getD [], covered c S

theorem mem_names_iff (D : Sp) (n : Nat) :
    n ∈ names D ↔ n = D.name ∨ ∃ c ∈ D.children.getD [], n ∈ names c := by
  cases D <;> simp [names, Sp.name, Sp.children, mem_namesL]

theorem cov_bridge (D S : Sp) : cov (fun S' => D.name = S'.name ∨ BD D S') S ↔ covered D S := by
  constructor
  · apply cov_bind
    intro S' h
    rcases h with h | ⟨c, hc, hcov⟩
    · apply cov_of; rw [← h]; exact name_mem_names D
    · apply cov_mono _ _ _ S' hcov
      intro S'' h''
      exact (mem_names_iff D _).mpr (Or.inr ⟨c, hc, h''⟩)
  · apply cov_bind
    intro S' h
    apply cov_of
    rcases (mem_names_iff D _).mp h with h | ⟨c, hc, hn⟩
    · exact Or.inl h.symm
    · exact Or.inr ⟨c, hc, cov_of _ _ hn⟩

theorem findChild_some (cs : List Sp) (nm : Nat) : ∀ (i j : Nat), findChild cs nm i = some j →
    ∃ c ∈ cs, c.name = nm := by
  induction cs with
  | nil => intro i j h; simp [findChild] at h
  | cons c cs ih =>
    intro i j h
    simp only [findChild] at h
    by_cases hc : c.name = nm
    · exact ⟨c, by simp, hc⟩
    · simp only [hc, if_false] at h
      obtain ⟨c', h1, h2⟩ := ih _ _ h
      exact ⟨c', by simp [h1], h2⟩

theorem skelL_set_copy (s : St) : ∀ (cs : List Sp) (ds : List St) (i : Nat), skelL cs ds = true →
    skelL cs (ds.set i (copyState (cs.getD i default) (ds.getD i default) s)) = true
  | [], ds, i, h => by cases ds <;> simp_all [skelL]
  | c :: cs, [], i, h => by simp [skelL] at h
  | c :: cs, d :: ds, 0, h => by
    simp only [skelL, Bool.and_eq_true, List.set_cons_zero, List.getD_cons_zero] at h ⊢
    exact ⟨skel_copyState c d s h.1, h.2⟩
  | c :: cs, d :: ds, i + 1, h => by
    simp only [skelL, Bool.and_eq_true, List.set_cons_succ, List.getD_cons_succ] at h ⊢
    exact ⟨h.1, skelL_set_copy s cs ds i h.2⟩

mutual
theorem csdBlk_spec : ∀ (D : Sp), BlkSpec (csdBlk D) (fun d => skel D d = true) (BD D)
  | .compound nm dcs => by
    constructor
    · intro S s d hQ hs
      cases d with
      | comp ds =>
        simp only [skel] at hQ
        simp only [csdBlk, St.children]
        split
        · simp only [skel]; exact skelL_set_copy s dcs ds _ hQ
        · simp only [skel]; exact (csdDL_spec dcs S s ds hQ hs).1
      | _ => simp [skel] at hQ
    · intro S s d hQ hs
      cases d with
      | comp ds =>
        simp only [skel] at hQ
        simp only [csdBlk, St.children, BD, Sp.children, Option.getD_some]
        split
        · next i hi =>
          obtain ⟨c, hc, hn⟩ := findChild_some _ _ _ _ hi
          simp only [true_iff]
          exact ⟨c, hc, cov_of _ _ (by rw [← hn]; exact name_mem_names c)⟩
        · exact (csdDL_spec dcs S s ds hQ hs).2.1
      | _ => simp [skel] at hQ
    · intro S s d hQ hs
      cases d with
      | comp ds =>
        simp only [skel] at hQ
        simp only [csdBlk, St.children]
        split
        · simp
        · exact (csdDL_spec dcs S s ds hQ hs).2.2
      | _ => simp [skel] at hQ
  | .real .. => by constructor <;> simp [csdBlk, BD, Sp.children, skel]
  | .so2 .. => by constructor <;> simp [csdBlk, BD, Sp.children, skel]
  | .so3 .. => by constructor <;> simp [csdBlk, BD, Sp.children, skel]
  | .time .. => by constructor <;> simp [csdBlk, BD, Sp.children, skel]
  | .discrete .. => by constructor <;> simp [csdBlk, BD, Sp.children, skel]
  | .wrapper .. => by constructor <;> simp [csdBlk, BD, Sp.children, skel]
theorem csdDL_spec : ∀ (dcs : List Sp) (S : Sp) (s : St) (ds : List St),
    skelL dcs ds = true → skel S s = true →
      skelL dcs (csdDL dcs S s ds).1 = true ∧
      ((csdDL dcs S s ds).2.2 = true ↔ ∃ c ∈ dcs, covered c S) ∧
      ((csdDL dcs S s ds).2.1 = .all → (csdDL dcs S s ds).2.2 = true)
  | [], S, s, ds, hd, hs => by
    unfold csdDL; simp [hd]
  | c :: cs, S, s, [], hd, hs => by simp [skelL] at hd
  | c :: cs, S, s, d :: ds, hd, hs => by
    simp only [skelL, Bool.and_eq_true] at hd
    have h1 := csdS_spec c.name (copyState c) (csdBlk c) (fun d => skel c d = true) (BD c)
      (fun d s h => skel_copyState c d s h) (csdBlk_spec c) S s d hd.1 hs
    rw [cov_bridge] at h1
    have h2 := csdDL_spec cs S s ds hd.2 hs
    unfold csdDL
    by_cases hall : (csdS c.name (copyState c) (csdBlk c) S s d).2 = .all
    · simp only [hall, if_true, skelL, Bool.and_eq_true]
      refine ⟨⟨h1.1, hd.2⟩, ?_, fun _ => trivial⟩
      simp only [true_iff]
      exact ⟨c, by simp, h1.2.mp hall⟩
    · simp only [hall, if_false, skelL, Bool.and_eq_true]
      refine ⟨⟨h1.1, h2.1⟩, ?_, ?_⟩
      · rw [h2.2.1]
        have hnc : ¬ covered c S := fun h => hall (h1.2.mpr h)
        simp [hnc]
      · intro h
        apply h2.2.2
        by_cases hne : ((csdS c.name (copyState c) (csdBlk c) S s d).2 != CopyRes.none) = true
        · simp [hne] at h
        · simpa [hne] using h
end

theorem csd_all (D : Sp) (d : St) (S : Sp) (s : St) (hd : skel D d = true) (hs : skel S s = true) :
    (csd D d S s).2 = .all ↔ covered D S := by
  unfold csd
  rw [← cov_bridge]
  exact (csdS_spec D.name (copyState D) (csdBlk D) (fun d => skel D d = true) (BD D)
    (fun d s h => skel_copyState D d s h) (csdBlk_spec D) S s d hd hs).2


mutual
theorem skel_of_fits : ∀ (c : Sp) (st : St), fits c st = true → skel c st = true
  | .compound nm cs, st, h => by
    cases st with
    | comp sts => simp only [fits, skel] at h ⊢; exact skelL_of_fitsL cs sts h
    | _ => simp [fits] at h
  | .real .., _, _ => by simp [skel]
  | .so2 .., _, _ => by simp [skel]
  | .so3 .., _, _ => by simp [skel]
  | .time .., _, _ => by simp [skel]
  | .discrete .., _, _ => by simp [skel]
  | .wrapper .., _, _ => by simp [skel]
theorem skelL_of_fitsL : ∀ (cs : List Sp) (sts : List St), fitsL cs sts = true → skelL cs sts = true
  | [], [], _ => by simp [skelL]
  | [], _ :: _, h => by simp [fitsL] at h
  | _ :: _, [], h => by simp [fitsL] at h
  | c :: cs, s :: ss, h => by
    simp only [fitsL, skelL, Bool.and_eq_true] at h ⊢
    exact ⟨skel_of_fits c s h.1, skelL_of_fitsL cs ss h.2⟩
end

/-- C2 for states allocated by their spaces -/
theorem csd_all_fits (D : Sp) (d : St) (S : Sp) (s : St) (hd : fits D d = true) (hs : fits S s = true) :
    (csd D d S s).2 = .all ↔ covered D S :=
  csd_all D d S s (skel_of_fits D d hd) (skel_of_fits S s hs)


/- Dropped (not proved): the `.none` half of C2,
     `(csd D d S s).2 = .none ↔ ∀ n ∈ names S, n ∉ names D`.
   As stated it is false: an empty compound source yields `.all` (witness below), so it needs the extra
   hypothesis "no empty compound node in `S`"; the proof would repeat the `csdS_spec`/`csdBlk_spec` double
   induction with a second component in `BlkSpec` (block code = `.none` iff no component of the destination
   reports anything) and was left out for time. -/

/-- an empty compound *source* is reported as `ALL_DATA_COPIED` whatever the destination: the
"`.none` iff the name sets are disjoint" characterisation needs "no empty compound in the source" -/
theorem csd_empty_compound_source_all :
    (csd (.real 1 1) (.leaf [.f64 0]) (.compound 2 []) (.comp [])).2 = .all := by
  decide


end OmplModel.Copy
