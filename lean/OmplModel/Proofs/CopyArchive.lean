import OmplModel.Model.Copy

namespace OmplModel.Copy

/-! ## A. StateStorage -/

theorem readStates_map (imgs : List (List Nat)) (rest : List Rec) :
    readStates imgs.length (imgs.map .state ++ rest) = .ok imgs := by
  induction imgs with
  | nil => simp [readStates]
  | cons a as ih => simp [readStates, ih]

theorem readStates_short (n : Nat) (imgs : List (List Nat)) (h : imgs.length < n) :
    readStates n (imgs.map .state) = .error .truncated := by
  induction imgs generalizing n with
  | nil => cases n with
    | zero => omega
    | succ n => simp [readStates]
  | cons a as ih =>
    cases n with
    | zero => simp at h
    | succ n =>
      have := ih n (by simpa using h)
      simp [readStates, this]

theorem load_store_states (sig : List Int) (imgs : List (List Nat)) :
    loadStates sig (storeStates sig imgs) = .ok imgs := by
  have := readStates_map imgs []
  simp at this
  simp [loadStates, storeStates, this]

theorem loadStates_rejects_marker (sig : List Int) (h : Header) (rest : List Rec)
    (hm : h.marker ≠ markerStates) : loadStates sig (.header h :: rest) = .error .marker := by
  simp [loadStates, hm]

theorem loadStates_rejects_signature (sig sig' : List Int) (imgs : List (List Nat))
    (hs : sig' ≠ sig) : loadStates sig (storeStates sig' imgs) = .error .signature := by
  simp [loadStates, storeStates, hs]

theorem loadStates_truncated (sig : List Int) (imgs : List (List Nat)) :
    ∀ k, k < (storeStates sig imgs).length →
      loadStates sig ((storeStates sig imgs).take k) = .error .truncated := by
  intro k hk
  cases k with
  | zero => simp [loadStates]
  | succ k =>
    simp [storeStates] at hk
    have := readStates_short imgs.length (imgs.take k) (by simp; omega)
    simp [storeStates, loadStates, ← List.map_take, this]

theorem readPrefix_map (imgs : List (List Nat)) : readPrefix (imgs.map .state) = imgs := by
  induction imgs with
  | nil => simp [readPrefix]
  | cons a as ih => simp [readPrefix, ih]

theorem readPrefix_truncated (sig : List Int) (imgs : List (List Nat)) :
    ∀ k, 1 ≤ k → k ≤ imgs.length + 1 →
      readPrefix (((storeStates sig imgs).take k).drop 1) = imgs.take (k - 1) := by
  intro k h1 _
  cases k with
  | zero => omega
  | succ k =>
    simp [storeStates, ← List.map_take, readPrefix_map]

end OmplModel.Copy
