import OmplModel.Proofs.DubinsReach
/-!
The two arguments at which each Dubins word solver evaluates the angle normalisation (`solverArgs`), the congruence of `solve` in
`m2p` at those two arguments (`solve_congr_args`), and the reach theorem with exactness assumed ONLY there (`solve_reaches_at`).
-/
namespace OmplModel.Dubins
open OmplModel

section
variable {α : Type} [DNum α]

/-- the arguments of the two `mod2pi(...)` calls of `dubins<w>(d, alpha, beta)`, as coded (the second one of RLR / LRL contains the
result `t` of the first) -/
def solverArgs (m2p : α → α) (w : Word) (d alpha beta : α) : α × α :=
  let ca := Num.cos alpha; let sa := Num.sin alpha; let cb := Num.cos beta; let sb := Num.sin beta
  match w with
  | .LSL =>
    let theta := Num.atan2 (cb - ca) (d + sa - sb)
    (-alpha + theta, beta - theta)
  | .RSR =>
    let theta := Num.atan2 (ca - cb) (d - sa + sb)
    (alpha - theta, -beta + theta)
  | .RSL =>
    let tmp := d * d - 2 + 2 * (ca * cb + sa * sb - d * (sa + sb))
    let p := Num.sqrt (Num.max tmp 0)
    let theta := Num.atan2 (ca + cb) (d - sa - sb) - Num.atan2 2 p
    (alpha - theta, beta - theta)
  | .LSR =>
    let tmp := -2 + d * d + 2 * (ca * cb + sa * sb + d * (sa + sb))
    let p := Num.sqrt (Num.max tmp 0)
    let theta := Num.atan2 (-ca - cb) (d + sa + sb) - Num.atan2 (-2) p
    (-alpha + theta, -beta + theta)
  | .RLR =>
    let tmp := Num.ofDec 125 3 * (6 - d * d + 2 * (ca * cb + sa * sb + d * (sa - sb)))
    let p := twopi - Num.acos tmp
    let theta := Num.atan2 (ca - cb) (d - sa + sb)
    let a1 := alpha - theta + half * p
    (a1, alpha - beta - m2p a1 + p)
  | .LRL =>
    let tmp := Num.ofDec 125 3 * (6 - d * d + 2 * (ca * cb + sa * sb - d * (sa - sb)))
    let p := twopi - Num.acos tmp
    let theta := Num.atan2 (-ca + cb) (d + sa - sb)
    let a1 := -alpha + theta + half * p
    (a1, beta - alpha - m2p a1 + p)

/-- [AF] `solve` depends on the normalisation only through its values at `solverArgs` -/
theorem solve_congr_args (m m' : α → α) (w : Word) (d alpha beta : α)
    (h1 : m' (solverArgs m w d alpha beta).1 = m (solverArgs m w d alpha beta).1)
    (h2 : m' (solverArgs m w d alpha beta).2 = m (solverArgs m w d alpha beta).2) :
    solve m' w d alpha beta = solve m w d alpha beta := by
  cases w <;>
    simp only [solverArgs] at h1 h2 <;>
    simp only [solve, dubinsLSL, dubinsRSR, dubinsRSL, dubinsLSR, dubinsRLR, dubinsLRL] <;>
    split <;> simp_all
end

attribute [-instance] Num.instOfNat

/-- exact modulo 2π at one argument -/
def ExactAt (m2p : ℝ → ℝ) (x : ℝ) : Prop := ∃ k : ℤ, m2p x = x + k * (2 * Real.pi)

/-- **reach theorem with exactness only at the two evaluated arguments** -/
theorem solve_reaches_at (m2p : ℝ → ℝ) (w : Word) (d α β : ℝ) (P : Path ℝ)
    (h1 : ExactAt m2p (solverArgs m2p w d α β).1) (h2 : ExactAt m2p (solverArgs m2p w d α β).2)
    (hb : NoClamp w d α β) (h : solve m2p w d α β = some P) : Reaches P w d α β := by
  classical
  let x1 := (solverArgs m2p w d α β).1
  let x2 := (solverArgs m2p w d α β).2
  let m' : ℝ → ℝ := fun x => if x = x1 ∨ x = x2 then m2p x else mod2piExact x
  have hm' : Exact m' := by
    intro x
    by_cases hx : x = x1 ∨ x = x2
    · simp only [m', hx, if_true]
      rcases hx with rfl | rfl
      · exact h1
      · exact h2
    · simp only [m', hx, if_false]
      exact mod2piExact_exact x
  have e1 : m' x1 = m2p x1 := by simp [m']
  have e2 : m' x2 = m2p x2 := by simp [m']
  have hs : solve m' w d α β = solve m2p w d α β := solve_congr_args m2p m' w d α β e1 e2
  exact solve_reaches m' hm' w d α β P hb (hs ▸ h)

end OmplModel.Dubins
