import OmplModel.Model.EST
import OmplModel.Proofs.PlannerReport
import OmplModel.Proofs.RRT
/-!
Tree / report invariants of the EST model.  Arithmetic-free: every statement holds for every `Cfg`
(distance, validity predicate, motion validator, goal, weight formulas) and every weight type, hence for
the `Float` instantiation the driver runs.  `Chain` is the one of `Proofs/RRT.lean`.
-/
namespace OmplModel.EST
open OmplModel.PlannerReport OmplModel.Pdf
open OmplModel.RRT (Chain chain_snoc)

variable {S D : Type}

/-- `s` is one of the problem definition's start states and passed the input filter -/
def ValidStart (cfg : Cfg S D) (starts : Array S) (s : S) : Prop :=
  ∃ k, ∃ h : k < starts.size, starts[k] = s ∧ cfg.bounds s = true ∧ cfg.valid s = true

/-- every root is a valid start; every other motion's parent was inserted earlier and
`checkMotion(parent, child)` returned true -/
def TreeInv (cfg : Cfg S D) (starts : Array S) (tree : Array (Node S)) : Prop :=
  ∀ (i : Nat) (nd : Node S), tree[i]? = some nd →
    match nd.parent with
    | none => ValidStart cfg starts nd.state
    | some p => p < i ∧ ∃ np, tree[p]? = some np ∧ cfg.checkMotion np.state nd.state = true

theorem getElem?_push_old (tree : Array (Node S)) (nd : Node S) (i : Nat) (x : Node S)
    (h : tree[i]? = some x) : (tree.push nd)[i]? = some x := by
  have hi : i < tree.size := by
    rcases Nat.lt_or_ge i tree.size with h1 | h1
    · exact h1
    · rw [Array.getElem?_eq_none h1] at h; cases h
  rw [Array.getElem?_push_lt hi]
  rw [Array.getElem?_eq_getElem hi] at h; exact h

theorem treeInv_push (cfg : Cfg S D) (starts : Array S) (tree : Array (Node S)) (nd : Node S)
    (h : TreeInv cfg starts tree)
    (hnd : match nd.parent with
      | none => ValidStart cfg starts nd.state
      | some p => p < tree.size ∧ ∃ np, tree[p]? = some np ∧ cfg.checkMotion np.state nd.state = true) :
    TreeInv cfg starts (tree.push nd) := by
  intro i x hx
  by_cases hi : i < tree.size
  · rw [Array.getElem?_push_lt hi] at hx
    have hx' : tree[i]? = some x := by rw [Array.getElem?_eq_getElem hi]; exact hx
    have := h i x hx'
    cases hp : x.parent with
    | none => simpa [hp] using this
    | some p =>
      simp only [hp] at this ⊢
      obtain ⟨h1, np, h2, h3⟩ := this
      exact ⟨h1, np, getElem?_push_old tree nd p np h2, h3⟩
  · have hsz : i < (tree.push nd).size := by
      rcases Nat.lt_or_ge i (tree.push nd).size with h1 | h1
      · exact h1
      · rw [Array.getElem?_eq_none h1] at hx; cases hx
    have hi2 : i = tree.size := by simp at hsz; omega
    subst hi2
    simp at hx
    subst hx
    cases hp : nd.parent with
    | none => simpa [hp] using hnd
    | some p =>
      simp only [hp] at hnd ⊢
      obtain ⟨h1, np, h2, h3⟩ := hnd
      exact ⟨h1, np, getElem?_push_old tree nd p np h2, h3⟩

/-- loop invariant of `solve`'s bookkeeping -/
structure StInv (cfg : Cfg S D) (starts : Array S) (st : St S D) : Prop where
  tree : TreeInv cfg starts st.tree
  sol : ∀ i, st.solution = some i → ∃ nd, st.tree[i]? = some nd ∧
    cfg.lt (cfg.goalDist nd.state) cfg.threshold = true ∧ st.approxdif = cfg.goalDist nd.state
  approx : st.solution = none → ∀ i, st.approxsol = some i → ∃ nd, st.tree[i]? = some nd ∧
    cfg.lt (cfg.goalDist nd.state) cfg.threshold = false ∧ st.approxdif = cfg.goalDist nd.state

section
variable [WOps D]

@[simp] theorem addMotion_tree (cfg : Cfg S D) (st : St S D) (nd : Node S) (nbrs : List Nat) :
    (addMotion cfg st nd nbrs).tree = st.tree.push nd := rfl
@[simp] theorem addMotion_solution (cfg : Cfg S D) (st : St S D) (nd : Node S) (nbrs : List Nat) :
    (addMotion cfg st nd nbrs).solution = st.solution := rfl
@[simp] theorem addMotion_approxsol (cfg : Cfg S D) (st : St S D) (nd : Node S) (nbrs : List Nat) :
    (addMotion cfg st nd nbrs).approxsol = st.approxsol := rfl
@[simp] theorem addMotion_approxdif (cfg : Cfg S D) (st : St S D) (nd : Node S) (nbrs : List Nat) :
    (addMotion cfg st nd nbrs).approxdif = st.approxdif := rfl

theorem tryAdd_inv (cfg : Cfg S D) (starts : Array S) (st : St S D) (ex : Nat) (exn : Node S) (x : S)
    (nbrs : List Nat) (h : StInv cfg starts st) (hs : st.solution = none) (hex : st.tree[ex]? = some exn) :
    StInv cfg starts (tryAdd cfg st ex exn.state x nbrs).1 ∧
      ((tryAdd cfg st ex exn.state x nbrs).2 = Flow.cont → (tryAdd cfg st ex exn.state x nbrs).1.solution = none) := by
  unfold tryAdd
  split
  · next hcm =>
    have hexlt : ex < st.tree.size := by
      rcases Nat.lt_or_ge ex st.tree.size with h1 | h1
      · exact h1
      · rw [Array.getElem?_eq_none h1] at hex; cases hex
    have htree : TreeInv cfg starts (st.tree.push ⟨x, some ex⟩) :=
      treeInv_push cfg starts st.tree ⟨x, some ex⟩ h.tree ⟨hexlt, exn, hex, hcm⟩
    have hnew : (st.tree.push (⟨x, some ex⟩ : Node S))[st.tree.size]? = some ⟨x, some ex⟩ := by simp
    simp only
    split
    · next hsat =>
      refine ⟨⟨htree, ?_, ?_⟩, fun hc => by cases hc⟩
      · intro i hi
        simp only [Option.some.injEq] at hi; subst hi
        exact ⟨_, hnew, hsat, rfl⟩
      · intro hn; simp at hn
    · next hsat =>
      split
      · refine ⟨⟨htree, ?_, ?_⟩, fun _ => hs⟩
        · intro i hi; simp only [addMotion_solution] at hi; rw [hs] at hi; cases hi
        · intro _ i hi
          simp only [Option.some.injEq] at hi; subst hi
          exact ⟨_, hnew, by simpa using hsat, rfl⟩
      · refine ⟨⟨htree, ?_, ?_⟩, fun _ => hs⟩
        · intro i hi; simp only [addMotion_solution] at hi; rw [hs] at hi; cases hi
        · intro hn i hi
          obtain ⟨nd, h1, h2, h3⟩ := h.approx hs i hi
          exact ⟨nd, getElem?_push_old _ _ _ _ h1, h2, h3⟩
  · exact ⟨h, fun _ => hs⟩

end

section
variable [WScale D]

theorem step_inv (cfg : Cfg S D) (starts : Array S) (st : St S D) (h : StInv cfg starts st)
    (hs : st.solution = none) :
    StInv cfg starts (step cfg st).1 ∧ ((step cfg st).2 = Flow.cont → (step cfg st).1.solution = none) := by
  have keep : ∀ sc', StInv cfg starts { st with sc := sc' } := fun sc' => ⟨h.tree, h.sol, h.approx⟩
  unfold step
  split
  · exact ⟨h, fun _ => hs⟩
  · split
    · next ex _ =>
      split
      · exact ⟨h, fun _ => hs⟩
      · next exn hex =>
        split
        · exact ⟨h, fun _ => hs⟩
        · split
          · split
            · exact ⟨h, fun _ => hs⟩
            · exact tryAdd_inv cfg starts _ ex exn _ _ (keep _) hs hex
          · split
            · exact ⟨h, fun _ => hs⟩
            · split
              · exact ⟨keep _, fun _ => hs⟩
              · split
                · exact tryAdd_inv cfg starts _ ex exn _ _ (keep _) hs hex
                · split
                  · exact ⟨h, fun _ => hs⟩
                  · split
                    · exact ⟨keep _, fun _ => hs⟩
                    · exact tryAdd_inv cfg starts _ ex exn _ _ (keep _) hs hex
    · exact ⟨h, fun _ => hs⟩

theorem loop_inv (cfg : Cfg S D) (starts : Array S) : ∀ (n : Nat) (st : St S D), StInv cfg starts st →
    st.solution = none → StInv cfg starts (loop cfg n st)
  | 0, st, h, _ => h
  | n + 1, st, h, hs => by
    unfold loop
    have := step_inv cfg starts st h hs
    generalize step cfg st = r at this ⊢
    obtain ⟨st', fl⟩ := r
    cases fl with
    | cont => exact loop_inv cfg starts n st' this.1 (this.2 rfl)
    | done => exact this.1
    | halt => exact this.1

end

section
variable [WOps D]

theorem addStarts_inv (cfg : Cfg S D) (starts : Array S) : ∀ (l : List S) (st : St S D),
    (∀ s ∈ l, ValidStart cfg starts s) → StInv cfg starts st → st.solution = none → st.approxsol = none →
    StInv cfg starts (addStarts cfg st l) ∧ (addStarts cfg st l).solution = none ∧
      (addStarts cfg st l).approxsol = none
  | [], st, _, h, hs, ha => ⟨h, hs, ha⟩
  | s :: rest, st, hl, h, hs, ha => by
    unfold addStarts
    apply addStarts_inv cfg starts rest _ (fun x hx => hl x (List.mem_cons_of_mem _ hx))
    · refine ⟨treeInv_push cfg starts st.tree ⟨s, none⟩ h.tree (hl s List.mem_cons_self), ?_, ?_⟩
      · intro i hi; simp only [addMotion_solution] at hi; rw [hs] at hi; cases hi
      · intro _ i hi; simp only [addMotion_approxsol] at hi; rw [ha] at hi; cases hi
    · exact hs
    · exact ha

theorem initSt_inv (cfg : Cfg S D) (starts : Array S) (sc : Script S D) :
    StInv cfg starts (initSt cfg starts sc).1 ∧ (initSt cfg starts sc).1.solution = none := by
  have hspec := (drainStarts_spec cfg.bounds cfg.valid starts (starts.size + 1) {}).1
  have := addStarts_inv cfg starts ((drainStarts cfg.bounds cfg.valid starts (starts.size + 1) {}).1.map (·.2))
    ⟨#[], {}, none, none, cfg.inf, sc⟩
    (by
      intro s hs
      simp only [List.mem_map] at hs
      obtain ⟨x, hx, rfl⟩ := hs
      obtain ⟨hi, h1, h2, h3, _⟩ := hspec x hx
      exact ⟨x.1, hi, h1, h2, h3⟩)
    ⟨fun i nd hnd => by simp at hnd, fun i hi => by simp at hi, fun _ i hi => by simp at hi⟩ rfl rfl
  exact ⟨this.1, this.2.1⟩

end

/-- walking the parents from a tree node yields a path from a valid start along checked edges -/
theorem pathTo_spec (cfg : Cfg S D) (starts : Array S) (tree : Array (Node S)) (hinv : TreeInv cfg starts tree) :
    ∀ (fuel i : Nat) (nd : Node S) (acc : List S), tree[i]? = some nd → i < fuel →
      ∃ l : List S, pathTo tree fuel i acc = l ++ acc ∧ (∃ s0, l.head? = some s0 ∧ ValidStart cfg starts s0) ∧
        Chain (fun a b => cfg.checkMotion a b = true) l ∧ l.getLast? = some nd.state := by
  intro fuel
  induction fuel with
  | zero => intro i nd acc _ hf; omega
  | succ f ih =>
    intro i nd acc hnd hf
    simp only [pathTo, hnd]
    have hi := hinv i nd hnd
    split
    · next hpar =>
      simp only [hpar] at hi
      exact ⟨[nd.state], rfl, ⟨nd.state, rfl, hi⟩, trivial, rfl⟩
    · next p hpar =>
      simp only [hpar] at hi
      obtain ⟨hp, np, hnp, hlink⟩ := hi
      obtain ⟨l, h1, h2, h3, h4⟩ := ih p np (nd.state :: acc) hnp (by omega)
      refine ⟨l ++ [nd.state], by simp [h1], ?_, ?_, by simp⟩
      · obtain ⟨s0, hs0, hv⟩ := h2
        refine ⟨s0, ?_, hv⟩
        cases l with
        | nil => simp at hs0
        | cons a r => simpa using hs0
      · apply chain_snoc _ _ _ h3
        intro z hz
        rw [h4] at hz
        simp only [Option.some.injEq] at hz
        subst hz
        exact hlink

end OmplModel.EST
