import OmplModel.Proofs.DiscInv
import OmplModel.Proofs.GridFresh
/-!
`Discretization`: the `importance` of every cell is `computeImportance` of the cell's CURRENT score, coverage and
neighbour count, with a selection count that is at most the current one (`selectMotion` does `++selections` without
`grid_.update`; everything else that moves an input of the formula re-runs it).  For every history, without any
validity assumption.  Core Lean only; arithmetic-free (any `Num α`).
-/
set_option linter.unusedSectionVars false
namespace OmplModel.Disc
open OmplModel OmplModel.Grid OmplModel.GridS

variable {α : Type} [Num α] [HasLog α]

/-! ### table lookups -/

theorem lookup_cons (e : Coord × CellData α) (tbl : List (Coord × CellData α)) (y : Coord) :
    lookup (e :: tbl) y = if e.1 == y then some e.2 else lookup tbl y := by
  unfold lookup
  rw [List.find?_cons]
  by_cases h : (e.1 == y) = true
  · simp [h]
  · simp [h]

theorem lookup_setData_ne (tbl : List (Coord × CellData α)) (x : Coord) (cd : CellData α) {y : Coord} (h : y ≠ x) :
    lookup (setData tbl x cd) y = lookup tbl y := by
  induction tbl with
  | nil => rfl
  | cons e tbl ih =>
    unfold setData at ih ⊢
    rw [List.map_cons, lookup_cons, lookup_cons, ih]
    by_cases he : (e.1 == x) = true
    · have hex : e.1 = x := by simpa using he
      have h1 : (x == y) = false := by simpa using (Ne.symm h)
      have h2 : (e.1 == y) = false := by rw [hex]; exact h1
      simp [he, h1, h2]
    · simp [he]

theorem lookup_setData_eq (tbl : List (Coord × CellData α)) (x : Coord) (cd cd0 : CellData α)
    (h : lookup tbl x = some cd0) : lookup (setData tbl x cd) x = some cd := by
  induction tbl with
  | nil => cases h
  | cons e tbl ih =>
    unfold setData at ih ⊢
    rw [List.map_cons, lookup_cons]
    rw [lookup_cons] at h
    by_cases he : (e.1 == x) = true
    · simp [he]
    · simp only [he] at h ⊢
      simpa [he] using ih (by simpa using h)

theorem lookup_eraseData_ne (tbl : List (Coord × CellData α)) (x : Coord) {y : Coord} (h : y ≠ x) :
    lookup (eraseData tbl x) y = lookup tbl y := by
  induction tbl with
  | nil => rfl
  | cons e tbl ih =>
    unfold eraseData at ih ⊢
    rw [List.filter_cons]
    by_cases he : (e.1 == x) = true
    · have hex : e.1 = x := by simpa using he
      have h2 : (e.1 == y) = false := by rw [hex]; simpa using (Ne.symm h)
      simp only [he, Bool.not_true, Bool.false_eq_true, if_false]
      rw [ih, lookup_cons, h2]; rfl
    · simp only [he, Bool.not_false, if_true]
      rw [lookup_cons, lookup_cons, ih]

theorem lookup_append_ne (tbl : List (Coord × CellData α)) (x : Coord) (cd : CellData α) {y : Coord} (h : y ≠ x) :
    lookup (tbl ++ [(x, cd)]) y = lookup tbl y := by
  induction tbl with
  | nil =>
    have : (x == y) = false := by simpa using (Ne.symm h)
    rw [List.nil_append, lookup_cons]; simp [this, lookup]
  | cons e tbl ih => rw [List.cons_append, lookup_cons, lookup_cons, ih]

theorem lookup_bump (tbl : List (Coord × CellData α)) (y : Coord) :
    lookup (bumpScores tbl) y = (lookup tbl y).map
      (fun cd => { cd with score := cd.score + (Num.ofNat 1 + HasLog.log (Num.ofNat cd.iteration)) }) := by
  induction tbl with
  | nil => rfl
  | cons e tbl ih =>
    unfold bumpScores at ih ⊢
    rw [List.map_cons, lookup_cons, lookup_cons, ih]
    by_cases he : (e.1 == y) = true
    · simp [he]
    · simp [he]

/-! ### the invariant -/

/-- the grid cell `c` carries `computeImportance` of its current `CellData` (up to a stale selection count) and its
current neighbour counter -/
def IQ (P : Params α) (tbl : List (Coord × CellData α)) (c : Cell) : Prop :=
  ∀ cd, lookup tbl c.coord = some cd →
    ∃ s, s ≤ cd.selections ∧ c.data = P.enc (importance { cd with selections := s } c.nbrs)

theorem fresh_IQ (P : Params α) (tbl : List (Coord × CellData α)) (c : Cell) (h : Fresh (gcfg P tbl) c) : IQ P tbl c := by
  intro cd hl
  obtain ⟨d0, h0, hd⟩ := h
  refine ⟨cd.selections, Nat.le_refl _, ?_⟩
  rw [hd]
  show (match lookup tbl c.coord with
    | some cd => P.enc (importance cd c.nbrs)
    | none => d0) = _
  rw [hl]

theorem IQ.congr {P : Params α} {tbl tbl' : List (Coord × CellData α)} {c : Cell}
    (hl : lookup tbl' c.coord = lookup tbl c.coord) (h : IQ P tbl c) : IQ P tbl' c := by
  intro cd hcd; rw [hl] at hcd; exact h cd hcd

/-- a table change at `x` that keeps score and coverage and does not lower the selection count -/
theorem IQ.setData {P : Params α} {tbl : List (Coord × CellData α)} {c : Cell} {x : Coord} {cd cd' : CellData α}
    (hx : lookup tbl x = some cd) (hs : cd'.score = cd.score) (hc : cd'.coverage = cd.coverage)
    (hsel : cd.selections ≤ cd'.selections) (h : IQ P tbl c) : IQ P (setData tbl x cd') c := by
  by_cases hcx : c.coord = x
  · intro cd1 h1
    rw [hcx, lookup_setData_eq tbl x cd' cd hx] at h1
    cases h1
    obtain ⟨s, hs1, hd⟩ := h cd (hcx ▸ hx)
    refine ⟨s, Nat.le_trans hs1 hsel, ?_⟩
    rw [hd]; unfold importance; simp only [hs, hc]
  · exact h.congr (lookup_setData_ne tbl x cd' hcx)

def DFresh (P : Params α) (d : Disc α) : Prop := AllQ (IQ P d.cdata) d.grid.cells

theorem add_fresh {P : Params α} {d : Disc α} (h : DFresh P d) (m : Nat) (x : Coord) (dist w off : α) :
    DFresh P (add P d m x dist w off).1 := by
  unfold add
  cases hl : lookup d.cdata x with
  | some cd =>
    simp only []
    split
    · show AllQ (IQ P _) (update (gcfg P _) d.grid x 0).cells
      refine update_pred (fresh_IQ P _) x 0 ?_
      intro c hc hne
      exact (h c hc).congr (lookup_setData_ne _ _ _ hne)
    · exact h
  | none =>
    simp only []
    split
    · exact h
    · rename_i hhas
      refine gstep_pred (fresh_IQ P _) (.new x 0) ?_
      intro c hc
      have hne : c.coord ≠ x := by
        rintro rfl
        exact hhas (has_coord_of_mem hc)
      exact (h c hc).congr (lookup_append_ne _ _ _ hne)

theorem updScore_fresh {P : Params α} {d : Disc α} (h : DFresh P d) (x : Coord) (s : α) :
    DFresh P (updScore P d x s) := by
  unfold updScore
  cases hl : lookup d.cdata x with
  | none => exact h
  | some cd =>
    show AllQ (IQ P _) (update (gcfg P _) d.grid x 0).cells
    refine update_pred (fresh_IQ P _) x 0 ?_
    intro c hc hne
    exact (h c hc).congr (lookup_setData_ne _ _ _ hne)

theorem bump_fresh (P : Params α) (d : Disc α) :
    DFresh P { d with cdata := bumpScores d.cdata,
                      grid := Grid.step (gcfg P (bumpScores d.cdata)) d.grid (.updAll []) } :=
  updateAll_fresh (fresh_IQ P _) []

theorem select_fresh {P : Params α} {d : Disc α} (h : DFresh P d) (u : α) (pick : Nat → Nat) :
    DFresh P (select P d u pick).1 := by
  unfold select
  simp only []
  split
  · exact h
  · split
    · exact h
    · rename_i c _
      split
      · exact h
      · rename_i cd0 _
        have h1 : DFresh P (if cd0.score < P.eps then
            { d with cdata := bumpScores d.cdata,
                     grid := Grid.step (gcfg P (bumpScores d.cdata)) d.grid (.updAll []) } else d) := by
          split
          · exact bump_fresh P d
          · exact h
        split
        · exact h1
        · rename_i cd hl
          have h2 : DFresh P { (if cd0.score < P.eps then
              { d with cdata := bumpScores d.cdata,
                       grid := Grid.step (gcfg P (bumpScores d.cdata)) d.grid (.updAll []) } else d) with
              cdata := setData (if cd0.score < P.eps then
                { d with cdata := bumpScores d.cdata,
                         grid := Grid.step (gcfg P (bumpScores d.cdata)) d.grid (.updAll []) } else d).cdata c.coord
                { cd with selections := cd.selections + 1 } } := by
            intro e he
            exact (h1 e he).setData hl rfl rfl (Nat.le_succ _)
          split
          · exact h2
          · exact h2

theorem remove_fresh {P : Params α} {d : Disc α} (h : DFresh P d) (m : Nat) (x : Coord) :
    DFresh P (remove P d m x).1 := by
  unfold remove
  cases hl : lookup d.cdata x with
  | none => exact h
  | some cd =>
    simp only []
    split
    · -- the emptied cell leaves the grid; its neighbours are re-evaluated by `GridB::remove`
      have h1 : AllQ (IQ P d.cdata) (Grid.step (gcfg P d.cdata) d.grid (.rm x)).cells :=
        gstep_pred (fresh_IQ P _) (.rm x) h
      intro c hc
      by_cases hcx : c.coord = x
      · intro cd1 h1'
        have : lookup (eraseData d.cdata x) x = none := by
          rw [lookup_none_iff, keys_eraseData]; simp
        rw [hcx, this] at h1'; cases h1'
      · exact (h1 c hc).congr (lookup_eraseData_ne _ _ hcx)
    · intro c hc
      exact (h c hc).setData hl rfl rfl (Nat.le_refl _)

theorem dstep_fresh {P : Params α} {d : Disc α} (h : DFresh P d) (op : DOp α) : DFresh P (dstep P d op) := by
  cases op with
  | add m x dist => exact add_fresh h m x dist _ _
  | addW m x dist w off => exact add_fresh h m x dist w off
  | select u pick => exact select_fresh h u pick
  | updScore x s => exact updScore_fresh h x s
  | remove m x => exact remove_fresh h m x
  | countIteration => exact h
  | setBorderFraction bp =>
    show DFresh P (setBorderFraction P d bp).1
    unfold setBorderFraction
    split
    · exact h
    · exact h
  | clear => intro c hc; cases hc

theorem drun_fresh (P : Params α) (bf : α) (ops : List (DOp α)) : DFresh P (drun P bf ops) := by
  unfold drun
  have : ∀ (ops : List (DOp α)) (d : Disc α), DFresh P d → DFresh P (ops.foldl (dstep P) d) := by
    intro ops
    induction ops with
    | nil => intro d h; exact h
    | cons op ops ih => intro d h; exact ih _ (dstep_fresh h op)
  exact this ops _ (fun c hc => by cases hc)

end OmplModel.Disc
