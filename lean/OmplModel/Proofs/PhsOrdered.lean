import OmplModel.Model.Phs
/-!
`OrderedInfSampler` with its persistent queue (`orderedRun`, fixed code): arithmetic-free soundness
with a queue invariant, so that it composes over successive calls.  Core Lean only; no law of `α`.
-/
namespace OmplModel.Phs
open OmplModel

namespace PhsOrdered

variable {α : Type} [Num α] {σ : Type}

/-- `popBest` splits the queue into one element and the rest (a permutation) -/
theorem popBest_perm (h : σ → α) : ∀ (q : List σ) (t : σ) (rest : List σ),
    popBest h q = some (t, rest) → q.Perm (t :: rest) := by
  intro q
  induction q with
  | nil => intro t rest hp; simp [popBest] at hp
  | cons x xs ih =>
    intro t rest hp
    rw [popBest] at hp
    split at hp
    · injection hp with hp
      injection hp with e1 e2
      subst e1 e2
      rename_i hnone
      cases xs with
      | nil => exact List.Perm.refl _
      | cons y ys =>
        rw [popBest] at hnone
        split at hnone
        · cases hnone
        · split at hnone <;> cases hnone
    · rename_i b r hsome
      have hperm := ih b r hsome
      split at hp
      · injection hp with hp
        injection hp with e1 e2
        subst e1 e2
        exact (List.Perm.cons x hperm).trans (List.Perm.swap _ _ _)
      · injection hp with hp
        injection hp with e1 e2
        subst e1 e2
        exact List.Perm.refl _

/-- the popped element and the rest come from the queue; one element is removed -/
theorem popBest_mem (h : σ → α) (q : List σ) (t : σ) (rest : List σ)
    (hp : popBest h q = some (t, rest)) :
    t ∈ q ∧ (∀ x ∈ rest, x ∈ q) ∧ rest.length + 1 = q.length := by
  have hperm := popBest_perm h q t rest hp
  refine ⟨hperm.mem_iff.2 List.mem_cons_self,
    fun x hx => hperm.mem_iff.2 (List.mem_cons_of_mem _ hx), ?_⟩
  rw [hperm.length_eq, List.length_cons]

/-- `popBest` fails only on the empty queue -/
theorem popBest_eq_none (h : σ → α) (q : List σ) (hn : popBest h q = none) : q = [] := by
  cases q with
  | nil => rfl
  | cons x xs =>
    rw [popBest] at hn
    split at hn
    · cases hn
    · split at hn <;> cases hn

/-- what a fresh batch yields -/
theorem orderedFresh_sound {S : Type} (h : σ → α) (c : α) (mk : S → Option (List (Wrapped σ) × S))
    (good : σ → Prop)
    (hmk : ∀ s b s', mk s = some (b, s') → ∀ w ∈ b, w.1 = true → good w.2)
    (s : S) (t : σ) (rest : List σ) (s' : S) (hr : orderedFresh h c mk s = .found t rest s') :
    good t ∧ h t < c ∧ ∀ x ∈ rest, good x := by
  unfold orderedFresh at hr
  split at hr
  · cases hr
  · rename_i b s1 hmks
    have hgood : ∀ x ∈ (b.filter (·.1)).map (·.2), good x := by
      intro x hx
      obtain ⟨w, hw, e⟩ := List.mem_map.1 hx
      obtain ⟨hwb, hflag⟩ := List.mem_filter.1 hw
      exact e ▸ hmk s b s1 hmks w hwb hflag
    split at hr
    · cases hr
    · rename_i t1 r1 hpop
      obtain ⟨ht1, hr1, _⟩ := popBest_mem h _ t1 r1 hpop
      split at hr
      · rename_i hlt
        injection hr with e1 e2 e3
        subst e1 e2 e3
        exact ⟨hgood _ ht1, hlt, fun x hx => hgood x (hr1 x hx)⟩
      · cases hr

/-- **Soundness of `OrderedInfSampler` with its queue** (fixed, fuel-free code): if the queue holds
good states and every successful wrapped call produces a good state, a true return yields a good
state below the cost bound, and the queue left over still holds good states only. -/
theorem orderedRun_sound {S : Type} (h : σ → α) (c : α) (mk : S → Option (List (Wrapped σ) × S))
    (good : σ → Prop)
    (hmk : ∀ s b s', mk s = some (b, s') → ∀ w ∈ b, w.1 = true → good w.2) :
    ∀ (q : List σ) (s : S), (∀ x ∈ q, good x) →
      ∀ (t : σ) (rest : List σ) (s' : S), orderedRun h c mk q s = .found t rest s' →
        good t ∧ h t < c ∧ ∀ x ∈ rest, good x := by
  intro q s hq t rest s' hr
  unfold orderedRun at hr
  split at hr
  · exact orderedFresh_sound h c mk good hmk s t rest s' hr
  · rename_i t1 r1 hpop
    obtain ⟨ht1, hr1, _⟩ := popBest_mem h _ t1 r1 hpop
    split at hr
    · rename_i hlt
      injection hr with e1 e2 e3
      subst e1 e2 e3
      exact ⟨hq _ ht1, hlt, fun x hx => hq x (hr1 x hx)⟩
    · exact orderedFresh_sound h c mk good hmk s t rest s' hr

/-- a fresh batch returns false only when all its wrapped calls failed or its best is not below
the bound -/
theorem orderedFresh_failed {S : Type} (h : σ → α) (c : α) (mk : S → Option (List (Wrapped σ) × S))
    (s s' : S) (hr : orderedFresh h c mk s = .failed s') :
    ∃ b, mk s = some (b, s') ∧
      ((∀ w ∈ b, w.1 = false) ∨
        ∃ t rest, popBest h ((b.filter (·.1)).map (·.2)) = some (t, rest) ∧ ¬ h t < c) := by
  unfold orderedFresh at hr
  split at hr
  · cases hr
  · rename_i b s1 hmks
    split at hr
    · rename_i hnone
      injection hr with e
      subst e
      refine ⟨b, hmks, Or.inl fun w hw => ?_⟩
      have hq := popBest_eq_none h _ hnone
      have hfil : b.filter (·.1) = [] := List.map_eq_nil_iff.1 hq
      cases hflag : w.1 with
      | false => rfl
      | true =>
        have : w ∈ b.filter (·.1) := List.mem_filter.2 ⟨hw, hflag⟩
        rw [hfil] at this
        cases this
    · rename_i t1 r1 hpop
      split at hr
      · cases hr
      · rename_i hnlt
        injection hr with e
        subst e
        exact ⟨b, hmks, Or.inr ⟨t1, r1, hpop, hnlt⟩⟩

/-- the fixed wrapper returns false only after drawing a fresh batch (from the current wrapped
state) whose wrapped calls all failed or whose best is not below the bound -/
theorem orderedRun_failed {S : Type} (h : σ → α) (c : α) (mk : S → Option (List (Wrapped σ) × S))
    (q : List σ) (s s' : S) (hr : orderedRun h c mk q s = .failed s') :
    ∃ s0 b, mk s0 = some (b, s') ∧
      ((∀ w ∈ b, w.1 = false) ∨
        ∃ t rest, popBest h ((b.filter (·.1)).map (·.2)) = some (t, rest) ∧ ¬ h t < c) := by
  unfold orderedRun at hr
  split at hr
  · obtain ⟨b, hb⟩ := orderedFresh_failed h c mk s s' hr
    exact ⟨s, b, hb⟩
  · split at hr
    · cases hr
    · obtain ⟨b, hb⟩ := orderedFresh_failed h c mk s s' hr
      exact ⟨s, b, hb⟩

/-- Witness for the loop BEFORE the `freshBatch` fix: when no wrapped sample beats the bound the old
loop is still looping after any number of passes. -/
theorem orderedRunOld_loops (h : σ → α) (c : α) (t : σ) (ht : ¬ h t < c) :
    ∀ fuel : Nat,
      orderedRunOld h c (fun _ : Unit => some ([(true, t)], ())) fuel [] () = .starved := by
  intro fuel
  induction fuel with
  | zero => rfl
  | succ fuel ih =>
    rw [orderedRunOld]
    simp [popBest, ht, ih]

/-- Contrast (after the fix): the same situation returns false at once. -/
theorem orderedRun_returns_false (h : σ → α) (c : α) (t : σ) (ht : ¬ h t < c) :
    orderedRun h c (fun _ : Unit => some ([(true, t)], ())) [] () = .failed () := by
  simp [orderedRun, orderedFresh, popBest, ht]

/-- The same soundness for the loop BEFORE the `freshBatch` fix (fuel-indexed): if the queue holds good states and every
successful wrapped call produces a good state, a true return yields a good state below the cost
bound, and the queue left over still holds good states only. -/
theorem orderedRunOld_sound {S : Type} (h : σ → α) (c : α) (mk : S → Option (List (Wrapped σ) × S))
    (good : σ → Prop)
    (hmk : ∀ s b s', mk s = some (b, s') → ∀ w ∈ b, w.1 = true → good w.2) :
    ∀ (fuel : Nat) (q : List σ) (s : S), (∀ x ∈ q, good x) →
      ∀ (t : σ) (rest : List σ) (s' : S), orderedRunOld h c mk fuel q s = .found t rest s' →
        good t ∧ h t < c ∧ ∀ x ∈ rest, good x := by
  intro fuel
  induction fuel with
  | zero => intro q s _ t rest s' hr; simp [orderedRunOld] at hr
  | succ fuel ih =>
    intro q s hq t rest s' hr
    cases q with
    | nil =>
      rw [orderedRunOld] at hr
      split at hr
      · cases hr
      · rename_i b s1 hmks
        have hgood : ∀ x ∈ (b.filter (·.1)).map (·.2), good x := by
          intro x hx
          obtain ⟨w, hw, e⟩ := List.mem_map.1 hx
          obtain ⟨hwb, hflag⟩ := List.mem_filter.1 hw
          exact e ▸ hmk s b s1 hmks w hwb hflag
        split at hr
        · cases hr
        · rename_i t1 r1 hpop
          obtain ⟨ht1, hr1, _⟩ := popBest_mem h _ t1 r1 hpop
          split at hr
          · rename_i hlt
            injection hr with e1 e2 e3
            subst e1 e2 e3
            exact ⟨hgood _ ht1, hlt, fun x hx => hgood x (hr1 x hx)⟩
          · exact ih [] s1 (fun x hx => by cases hx) t rest s' hr
    | cons y ys =>
      rw [orderedRunOld] at hr
      split at hr
      · cases hr
      · rename_i t1 r1 hpop
        obtain ⟨ht1, hr1, _⟩ := popBest_mem h _ t1 r1 hpop
        split at hr
        · rename_i hlt
          injection hr with e1 e2 e3
          subst e1 e2 e3
          exact ⟨hq _ ht1, hlt, fun x hx => hq x (hr1 x hx)⟩
        · exact ih [] s (fun x hx => by cases hx) t rest s' hr

/-- the old loop returns false only when a whole batch of wrapped calls failed -/
theorem orderedRunOld_failed {S : Type} (h : σ → α) (c : α) (mk : S → Option (List (Wrapped σ) × S)) :
    ∀ (fuel : Nat) (q : List σ) (s s' : S), orderedRunOld h c mk fuel q s = .failed s' →
      ∃ s0 b, mk s0 = some (b, s') ∧ ∀ w ∈ b, w.1 = false := by
  intro fuel
  induction fuel with
  | zero => intro q s s' hr; simp [orderedRunOld] at hr
  | succ fuel ih =>
    intro q s s' hr
    cases q with
    | nil =>
      rw [orderedRunOld] at hr
      split at hr
      · cases hr
      · rename_i b s1 hmks
        split at hr
        · rename_i hnone
          injection hr with e
          subst e
          refine ⟨s, b, hmks, fun w hw => ?_⟩
          have hq := popBest_eq_none h _ hnone
          have hfil : b.filter (·.1) = [] := List.map_eq_nil_iff.1 hq
          cases hflag : w.1 with
          | false => rfl
          | true =>
            have : w ∈ b.filter (·.1) := List.mem_filter.2 ⟨hw, hflag⟩
            rw [hfil] at this
            cases this
        · split at hr
          · cases hr
          · exact ih [] s1 s' hr
    | cons y ys =>
      rw [orderedRunOld] at hr
      split at hr
      · cases hr
      · split at hr
        · cases hr
        · exact ih [] s s' hr

end PhsOrdered
end OmplModel.Phs
