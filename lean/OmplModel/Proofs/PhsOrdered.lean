import OmplModel.Model.Phs
/-!
`OrderedInfSampler` with its persistent queue (`orderedRun`, fixed code): arithmetic-free soundness
with a queue invariant, so that it composes over successive calls.  Core Lean only; no law of `α`.
-/
namespace OmplModel.Phs
open OmplModel

namespace PhsOrdered

variable {α : Type} [Num α] {σ : Type}

/-- `popBest` splits the queue into one element and the rest (a permutation) -/
theorem popBest_perm (h : σ → α) : ∀ (q : List σ) (t : σ) (rest : List σ),
    popBest h q = some (t, rest) → q.Perm (t :: rest) := by
  intro q
  induction q with
  | nil => intro t rest hp; simp [popBest] at hp
  | cons x xs ih =>
    intro t rest hp
    rw [popBest] at hp
    split at hp
    · injection hp with hp
      injection hp with e1 e2
      subst e1 e2
      rename_i hnone
      cases xs with
      | nil => exact List.Perm.refl _
      | cons y ys =>
        rw [popBest] at hnone
        split at hnone
        · cases hnone
        · split at hnone <;> cases hnone
    · rename_i b r hsome
      have hperm := ih b r hsome
      split at hp
      · injection hp with hp
        injection hp with e1 e2
        subst e1 e2
        exact (List.Perm.cons x hperm).trans (List.Perm.swap _ _ _)
      · injection hp with hp
        injection hp with e1 e2
        subst e1 e2
        exact List.Perm.refl _

/-- the popped element and the rest come from the queue; one element is removed -/
theorem popBest_mem (h : σ → α) (q : List σ) (t : σ) (rest : List σ)
    (hp : popBest h q = some (t, rest)) :
    t ∈ q ∧ (∀ x ∈ rest, x ∈ q) ∧ rest.length + 1 = q.length := by
  have hperm := popBest_perm h q t rest hp
  refine ⟨hperm.mem_iff.2 List.mem_cons_self,
    fun x hx => hperm.mem_iff.2 (List.mem_cons_of_mem _ hx), ?_⟩
  rw [hperm.length_eq, List.length_cons]

/-- `popBest` fails only on the empty queue -/
theorem popBest_eq_none (h : σ → α) (q : List σ) (hn : popBest h q = none) : q = [] := by
  cases q with
  | nil => rfl
  | cons x xs =>
    rw [popBest] at hn
    split at hn
    · cases hn
    · split at hn <;> cases hn

/-- **Soundness of `OrderedInfSampler` with its queue**: if the queue holds good states and every
successful wrapped call produces a good state, a true return yields a good state below the cost
bound, and the queue left over still holds good states only. -/
theorem orderedRun_sound {S : Type} (h : σ → α) (c : α) (mk : S → Option (List (Wrapped σ) × S))
    (good : σ → Prop)
    (hmk : ∀ s b s', mk s = some (b, s') → ∀ w ∈ b, w.1 = true → good w.2) :
    ∀ (fuel : Nat) (q : List σ) (s : S), (∀ x ∈ q, good x) →
      ∀ (t : σ) (rest : List σ) (s' : S), orderedRun h c mk fuel q s = .found t rest s' →
        good t ∧ h t < c ∧ ∀ x ∈ rest, good x := by
  intro fuel
  induction fuel with
  | zero => intro q s _ t rest s' hr; simp [orderedRun] at hr
  | succ fuel ih =>
    intro q s hq t rest s' hr
    cases q with
    | nil =>
      rw [orderedRun] at hr
      split at hr
      · cases hr
      · rename_i b s1 hmks
        have hgood : ∀ x ∈ (b.filter (·.1)).map (·.2), good x := by
          intro x hx
          obtain ⟨w, hw, e⟩ := List.mem_map.1 hx
          obtain ⟨hwb, hflag⟩ := List.mem_filter.1 hw
          exact e ▸ hmk s b s1 hmks w hwb hflag
        split at hr
        · cases hr
        · rename_i t1 r1 hpop
          obtain ⟨ht1, hr1, _⟩ := popBest_mem h _ t1 r1 hpop
          split at hr
          · rename_i hlt
            injection hr with e1 e2 e3
            subst e1 e2 e3
            exact ⟨hgood _ ht1, hlt, fun x hx => hgood x (hr1 x hx)⟩
          · exact ih [] s1 (fun x hx => by cases hx) t rest s' hr
    | cons y ys =>
      rw [orderedRun] at hr
      split at hr
      · cases hr
      · rename_i t1 r1 hpop
        obtain ⟨ht1, hr1, _⟩ := popBest_mem h _ t1 r1 hpop
        split at hr
        · rename_i hlt
          injection hr with e1 e2 e3
          subst e1 e2 e3
          exact ⟨hq _ ht1, hlt, fun x hx => hq x (hr1 x hx)⟩
        · exact ih [] s (fun x hx => by cases hx) t rest s' hr

/-- the wrapper returns false only when a whole batch of wrapped calls failed -/
theorem orderedRun_failed {S : Type} (h : σ → α) (c : α) (mk : S → Option (List (Wrapped σ) × S)) :
    ∀ (fuel : Nat) (q : List σ) (s s' : S), orderedRun h c mk fuel q s = .failed s' →
      ∃ s0 b, mk s0 = some (b, s') ∧ ∀ w ∈ b, w.1 = false := by
  intro fuel
  induction fuel with
  | zero => intro q s s' hr; simp [orderedRun] at hr
  | succ fuel ih =>
    intro q s s' hr
    cases q with
    | nil =>
      rw [orderedRun] at hr
      split at hr
      · cases hr
      · rename_i b s1 hmks
        split at hr
        · rename_i hnone
          injection hr with e
          subst e
          refine ⟨s, b, hmks, fun w hw => ?_⟩
          have hq := popBest_eq_none h _ hnone
          have hfil : b.filter (·.1) = [] := List.map_eq_nil_iff.1 hq
          cases hflag : w.1 with
          | false => rfl
          | true =>
            have : w ∈ b.filter (·.1) := List.mem_filter.2 ⟨hw, hflag⟩
            rw [hfil] at this
            cases this
        · split at hr
          · cases hr
          · exact ih [] s1 s' hr
    | cons y ys =>
      rw [orderedRun] at hr
      split at hr
      · cases hr
      · split at hr
        · cases hr
        · exact ih [] s s' hr

end PhsOrdered
end OmplModel.Phs
