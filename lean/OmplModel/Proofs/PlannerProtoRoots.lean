import OmplModel.Proofs.PlannerProtoPath
/-!
C03, RRT-like core: the tree stays well-founded (`parent < index`), every root is a valid start state of the
current problem definition as long as the problem definition was not replaced on a non-empty tree without a
`clear()` since, hence reported paths begin at a start state; and `lastGoalMotion_` never dangles.
Core Lean only, arithmetic-free.
-/
namespace OmplModel.PlannerProto

variable {σ δ : Type}

def TreeWf (t : Tree σ) : Prop := ∀ i (h : i < t.size) p, t[i].parent = some p → p < i

def RootsIn (t : Tree σ) (S : σ → Prop) : Prop := ∀ i (h : i < t.size), t[i].parent = none → S t[i].state

theorem wf_empty : TreeWf (#[] : Tree σ) := by intro i h; simp at h
theorem roots_empty (S : σ → Prop) : RootsIn (#[] : Tree σ) S := by intro i h; simp at h

theorem wf_push_root (t : Tree σ) (s : σ) (n : Nat) (h : TreeWf t) : TreeWf (t.push ⟨s, none, n⟩) := by
  intro j hj p hp
  rw [Array.getElem_push] at hp
  split at hp
  · rename_i hlt; exact h j hlt p hp
  · simp at hp

theorem roots_push_root (t : Tree σ) (s : σ) (n : Nat) (S : σ → Prop) (h : RootsIn t S) (hs : S s) :
    RootsIn (t.push ⟨s, none, n⟩) S := by
  intro j hj hp
  rw [Array.getElem_push] at hp ⊢
  split
  · rename_i hlt; simp only [hlt, dite_true] at hp; exact h j hlt hp
  · exact hs

theorem wf_push_child (t : Tree σ) (s : σ) (near n : Nat) (hn : near < t.size) (h : TreeWf t) :
    TreeWf (t.push ⟨s, some near, n⟩) := by
  intro j hj p hp
  rw [Array.getElem_push] at hp
  split at hp
  · rename_i hlt; exact h j hlt p hp
  · rename_i hge
    simp at hp
    simp at hj
    omega

theorem roots_push_child (t : Tree σ) (s : σ) (near n : Nat) (S : σ → Prop) (h : RootsIn t S) :
    RootsIn (t.push ⟨s, some near, n⟩) S := by
  intro j hj hp
  rw [Array.getElem_push] at hp ⊢
  split
  · rename_i hlt; simp only [hlt, dite_true] at hp; exact h j hlt hp
  · rename_i hge; simp only [hge, dite_false] at hp; simp at hp

/-- the reported path begins at a root of the tree -/
theorem walk_head (t : Tree σ) (hw : TreeWf t) :
    ∀ (i : Nat) (acc : List σ), i < t.size →
      ∃ j, ∃ hj : j < t.size, t[j].parent = none ∧ (walk t i acc).head? = some t[j].state := by
  intro i
  induction i using Nat.strongRecOn with
  | _ i ih =>
    intro acc h
    unfold walk
    simp only [h, dite_true]
    split
    · rename_i hp
      exact ⟨i, h, hp, by simp⟩
    · rename_i p hp
      have hlt := hw i h p hp
      simp only [hlt, if_true]
      exact ih p hlt _ (Nat.lt_trans hlt h)

abbrev rc : CoreSpec σ δ (Draw σ δ) (Tree σ) := rrtCore

theorem consumeStarts_inv (S : σ → Prop) (ss : List (σ × Bool)) :
    ∀ (c : Tree σ) (n : Nat), TreeWf c → RootsIn c S → (∀ s, (s, true) ∈ ss → S s) →
      TreeWf (consumeStarts (rc (δ := δ)) ss c n).1 ∧ RootsIn (consumeStarts (rc (δ := δ)) ss c n).1 S ∧
        c.size ≤ (consumeStarts (rc (δ := δ)) ss c n).1.size := by
  induction ss with
  | nil => intro c n h1 h2 _; exact ⟨h1, h2, Nat.le_refl _⟩
  | cons a r ih =>
    intro c n h1 h2 h3
    obtain ⟨s, v⟩ := a
    cases v with
    | false =>
      simp only [consumeStarts]
      exact ih c n h1 h2 (fun s hs => h3 s (List.mem_cons_of_mem _ hs))
    | true =>
      simp only [consumeStarts]
      have := ih (c.push ⟨s, none, n⟩) (n + 1) (wf_push_root c s n h1)
        (roots_push_root c s n S h2 (h3 s List.mem_cons_self)) (fun s hs => h3 s (List.mem_cons_of_mem _ hs))
      refine ⟨this.1, this.2.1, ?_⟩
      have h := this.2.2
      have e : (c.push (⟨s, none, n⟩ : Motion σ)).size = c.size + 1 := Array.size_push _
      exact Nat.le_trans (by omega) h

theorem loop_inv (S : σ → Prop) (ltD : δ → δ → Bool) :
    ∀ (k : Nat) (ds : List (Draw σ δ)) (c : Tree σ) (s : Search δ) (n : Nat), TreeWf c → RootsIn c S →
      TreeWf (loop rc ltD k ds c s n).core ∧ RootsIn (loop rc ltD k ds c s n).core S := by
  intro k
  induction k with
  | zero => intro ds c s n h1 h2; exact ⟨by simpa [loop] using h1, by simpa [loop] using h2⟩
  | succ k ih =>
    intro ds c s n h1 h2
    cases ds with
    | nil => exact ⟨by simpa [loop] using h1, by simpa [loop] using h2⟩
    | cons d ds =>
      have I : TreeWf ((rc (σ := σ) (δ := δ)).iterate c n d).core ∧
          RootsIn ((rc (σ := σ) (δ := δ)).iterate c n d).core S := by
        by_cases hv : (d.valid && decide (d.near < c.size)) = true
        · have hn : d.near < c.size := by
            simp only [Bool.and_eq_true, decide_eq_true_eq] at hv; exact hv.2
          simp only [rc, rrtCore, hv, if_true]
          exact ⟨wf_push_child c d.st d.near n hn h1, roots_push_child c d.st d.near n S h2⟩
        · simp only [rc, rrtCore, hv, if_false, Bool.false_eq_true]
          exact ⟨h1, h2⟩
      simp only [loop]
      split
      · exact I
      · exact ih ds _ _ _ I.1 I.2

section generic
variable {D C : Type}

theorem finish_pdef (cs : CoreSpec σ δ D C) (P : Params σ δ) (m1 : M σ δ C) (pd : Pdef σ δ)
    (e12 : List Ev) (rm xs : Nat) (r : LoopOut δ C) (h : m1.pdef = some pd) :
    ∃ pd', (finish cs P m1 pd e12 rm xs r).m.pdef = some pd' ∧ pd'.starts = pd.starts := by
  unfold finish
  split
  · exact ⟨_, rfl, rfl⟩
  · exact ⟨pd, h, rfl⟩

theorem solve_shape (cs : CoreSpec σ δ D C) (hl : LawfulCore cs) (P : Params σ δ) (m : M σ δ C) (k : Nat) (ds : List D) :
    (m.pdef = none ∧ (solve cs P m k ds).m = m ∧ (solve cs P m k ds).added = []) ∨
    ∃ pd, m.pdef = some pd ∧
      (((solve cs P m k ds).m.core = (prologue cs m pd).1.core ∧ (solve cs P m k ds).m.lastGoal = m.lastGoal ∧
          (solve cs P m k ds).m.pdef = some pd ∧ (solve cs P m k ds).added = []) ∨
       (∃ r : LoopOut δ C,
          r = loop cs P.ltD k ds (prologue cs m pd).1.core ⟨none, none, P.inf⟩ ((prologue cs m pd).1.next + 2) ∧
          (solve cs P m k ds).m.core = r.core ∧
          (∃ pd', (solve cs P m k ds).m.pdef = some pd' ∧ pd'.starts = pd.starts) ∧
          (∀ j, (solve cs P m k ds).m.lastGoal = some j → m.lastGoal = some j ∨ j < cs.size r.core) ∧
          (∀ s ∈ (solve cs P m k ds).added, ∃ i, i < cs.size r.core ∧ s.path = cs.pathTo r.core i))) := by
  unfold solve
  cases hpd : m.pdef with
  | none => exact Or.inl ⟨rfl, rfl, rfl⟩
  | some pd =>
    refine Or.inr ⟨pd, rfl, ?_⟩
    simp only
    split
    · exact Or.inl ⟨rfl, by simp [prologue], by simp [prologue, hpd], rfl⟩
    · refine Or.inr ⟨_, rfl, ?_⟩
      have L := loop_idx cs hl P.ltD k ds (prologue cs m pd).1.core ⟨none, none, P.inf⟩ ((prologue cs m pd).1.next + 2)
        (by simp) (by simp)
      have F := finish_added cs hl P
        { (prologue cs m pd).1 with log := (prologue cs m pd).1.log ++
            [Ev.alloc (prologue cs m pd).1.next, Ev.alloc ((prologue cs m pd).1.next + 1)] } pd
        ((prologue cs m pd).2 ++ [Ev.alloc (prologue cs m pd).1.next, Ev.alloc ((prologue cs m pd).1.next + 1)])
        (prologue cs m pd).1.next ((prologue cs m pd).1.next + 1) _ L.1 L.2.1
      have Q := finish_pdef cs P
        { (prologue cs m pd).1 with log := (prologue cs m pd).1.log ++
            [Ev.alloc (prologue cs m pd).1.next, Ev.alloc ((prologue cs m pd).1.next + 1)] } pd
        ((prologue cs m pd).2 ++ [Ev.alloc (prologue cs m pd).1.next, Ev.alloc ((prologue cs m pd).1.next + 1)])
        (prologue cs m pd).1.next ((prologue cs m pd).1.next + 1)
        (loop cs P.ltD k ds (prologue cs m pd).1.core ⟨none, none, P.inf⟩ ((prologue cs m pd).1.next + 2))
        (by simp [prologue, hpd])
      refine ⟨F.2.2, Q, ?_, ?_⟩
      · intro j hj
        rcases F.2.1 j hj with h | h
        · exact Or.inl (by simpa [prologue] using h)
        · exact Or.inr (by rw [F.2.2] at h; exact h)
      · intro s hs
        obtain ⟨_, i, hi, hp, _⟩ := F.1 s hs
        exact ⟨i, by rw [F.2.2] at hi; exact hi, by rw [F.2.2] at hp; exact hp⟩

end generic

abbrev RM (σ δ : Type) := M σ δ (Tree σ)

/-- `s` is a valid start state of the planner's current problem definition -/
def validStart (m : RM σ δ) (s : σ) : Prop := ∃ pd, m.pdef = some pd ∧ (s, true) ∈ pd.starts

/-- every root motion of the tree is a valid start state of the current problem definition -/
def Pure (m : RM σ δ) : Prop := RootsIn m.core (validStart m)

/-- `lastGoalMotion_` is null or points into the tree -/
def LGok (m : RM σ δ) : Prop := ∀ i, m.lastGoal = some i → i < m.core.size

theorem roots_mono (t : Tree σ) (S T : σ → Prop) (h : RootsIn t S) (hst : ∀ s, S s → T s) : RootsIn t T :=
  fun i hi hp => hst _ (h i hi hp)

theorem prologue_core (m : RM σ δ) (pd : Pdef σ δ) :
    (prologue rc m pd).1.core = (consumeStarts (rc (δ := δ)) (pd.starts.drop m.pis.added) m.core m.next).1 := rfl

theorem solve_wf (P : Params σ δ) (m : RM σ δ) (k : Nat) (ds : List (Draw σ δ)) (h : TreeWf m.core) :
    TreeWf (solve rc P m k ds).m.core := by
  rcases solve_shape rc rrt_lawful P m k ds with ⟨_, hm, _⟩ | ⟨pd, hpd, hc | ⟨r, hr, hc, _⟩⟩
  · rw [hm]; exact h
  · rw [hc.1, prologue_core]
    exact (consumeStarts_inv (fun _ => True) _ m.core m.next h (fun _ _ _ => trivial) (fun _ _ => trivial)).1
  · rw [hc, hr]
    have c := consumeStarts_inv (δ := δ) (fun _ => True) (pd.starts.drop m.pis.added) m.core m.next h
      (fun _ _ _ => trivial) (fun _ _ => trivial)
    exact (loop_inv (fun _ => True) P.ltD k ds _ _ _ (by rw [prologue_core]; exact c.1)
      (by rw [prologue_core]; exact c.2.1)).1

theorem solve_lg (P : Params σ δ) (m : RM σ δ) (k : Nat) (ds : List (Draw σ δ)) (hw : TreeWf m.core) (h : LGok m) :
    LGok (solve rc P m k ds).m := by
  rcases solve_shape rc rrt_lawful P m k ds with ⟨_, hm, _⟩ | ⟨pd, hpd, hc | ⟨r, hr, hc, _, hl, _⟩⟩
  · rw [hm]; exact h
  · intro i hi
    rw [hc.2.1] at hi
    rw [hc.1, prologue_core]
    have c := consumeStarts_inv (δ := δ) (fun _ => True) (pd.starts.drop m.pis.added) m.core m.next hw
      (fun _ _ _ => trivial) (fun _ _ => trivial)
    exact Nat.lt_of_lt_of_le (h i hi) c.2.2
  · intro i hi
    rw [hc]
    rcases hl i hi with h1 | h1
    · have c := consumeStarts_inv (δ := δ) (fun _ => True) (pd.starts.drop m.pis.added) m.core m.next hw
        (fun _ _ _ => trivial) (fun _ _ => trivial)
      have L := loop_idx rc rrt_lawful P.ltD k ds (prologue rc m pd).1.core ⟨none, none, P.inf⟩
        ((prologue rc m pd).1.next + 2) (by simp) (by simp)
      rw [hr]
      have a : i < (prologue rc m pd).1.core.size := by
        rw [prologue_core]; exact Nat.lt_of_lt_of_le (h i h1) c.2.2
      exact Nat.lt_of_lt_of_le a L.2.2
    · exact h1

theorem solve_pure (P : Params σ δ) (m : RM σ δ) (k : Nat) (ds : List (Draw σ δ)) (hw : TreeWf m.core) (h : Pure m) :
    Pure (solve rc P m k ds).m := by
  rcases solve_shape rc rrt_lawful P m k ds with ⟨_, hm, _⟩ | ⟨pd, hpd, hc | ⟨r, hr, hc, ⟨pd', hp', hs'⟩, _, _⟩⟩
  · rw [hm]; exact h
  · have h0 : RootsIn m.core (fun s => (s, true) ∈ pd.starts) :=
      roots_mono _ _ _ h (by
        rintro s ⟨pd0, h1, h2⟩
        rw [hpd] at h1
        cases h1
        exact h2)
    have c := consumeStarts_inv (δ := δ) (fun s => (s, true) ∈ pd.starts) (pd.starts.drop m.pis.added) m.core m.next hw h0
      (fun s hs => List.mem_of_mem_drop hs)
    unfold Pure
    rw [hc.1, prologue_core]
    exact roots_mono _ _ _ c.2.1 (fun s hs => ⟨pd, hc.2.2.1, hs⟩)
  · have h0 : RootsIn m.core (fun s => (s, true) ∈ pd.starts) :=
      roots_mono _ _ _ h (by
        rintro s ⟨pd0, h1, h2⟩
        rw [hpd] at h1
        cases h1
        exact h2)
    have c := consumeStarts_inv (δ := δ) (fun s => (s, true) ∈ pd.starts) (pd.starts.drop m.pis.added) m.core m.next hw h0
      (fun s hs => List.mem_of_mem_drop hs)
    have l := loop_inv (fun s => (s, true) ∈ pd.starts) P.ltD k ds (prologue rc m pd).1.core ⟨none, none, P.inf⟩
      ((prologue rc m pd).1.next + 2) (by rw [prologue_core]; exact c.1) (by rw [prologue_core]; exact c.2.1)
    unfold Pure
    rw [hc, hr]
    exact roots_mono _ _ _ l.2 (fun s hs => ⟨pd', hp', by rw [hs']; exact hs⟩)

/-- a reported path begins at a valid start state of the current problem definition -/
theorem solve_head (P : Params σ δ) (m : RM σ δ) (k : Nat) (ds : List (Draw σ δ)) (hw : TreeWf m.core) (h : Pure m) :
    ∀ s ∈ (solve rc P m k ds).added, ∃ st, s.path.head? = some st ∧ validStart (solve rc P m k ds).m st := by
  intro s hs
  obtain ⟨_, i, hi, hp⟩ := solve_added rc rrt_lawful P m k ds s hs
  obtain ⟨j, hj, hroot, hh⟩ := walk_head _ (solve_wf P m k ds hw) i [] hi
  refine ⟨_, by rw [hp]; exact hh, ?_⟩
  exact solve_pure P m k ds hw h j hj hroot

/-- `clear()`, `clearQuery()`, destructor -/
def Op.clears {D : Type} : Op σ D → Bool
  | .clear | .clearQuery | .destroy => true
  | _ => false

/-- the problem definition object or its start states are replaced -/
def Op.replacesQuery {D : Type} : Op σ D → Bool
  | .setProblemDefinition .. | .setStartGoal .. => true
  | _ => false

/-- `true` iff, after the history, the tree may still hold motions of a query that was replaced
(`setProblemDefinition` / `setStartAndGoalStates` on a non-empty tree) with no `clear()` since. -/
def dirtyAfter (P : Params σ δ) : RM σ δ → Bool → List (Op σ (Draw σ δ)) → Bool
  | _, d, [] => d
  | m, d, op :: r =>
    dirtyAfter P (step rc P m op)
      (if op.clears then false else if op.replacesQuery then d || decide (m.core.size ≠ 0) else d) r

theorem pure_of_empty (m : RM σ δ) (h : m.core.size = 0) : Pure m := by
  intro i hi; omega

theorem step_wf (P : Params σ δ) (m : RM σ δ) (op : Op σ (Draw σ δ)) (h : TreeWf m.core) :
    TreeWf (step rc P m op).core := by
  cases op with
  | solve k ds => exact solve_wf P m k ds h
  | clear => exact wf_empty
  | clearQuery => exact wf_empty
  | destroy => exact wf_empty
  | setProblemDefinition id ss =>
    simp only [step, setProblemDefinition]
    split
    · split <;> exact h
    · exact h
  | getPlannerData => exact h
  | addStart s v => exact h
  | setStartGoal ss => exact h
  | clearSolutionPaths => exact h

theorem step_lg (P : Params σ δ) (m : RM σ δ) (op : Op σ (Draw σ δ)) (hw : TreeWf m.core) (h : LGok m) :
    LGok (step rc P m op) := by
  cases op with
  | solve k ds => exact solve_lg P m k ds hw h
  | clear => intro i hi; simp [step, clear] at hi
  | clearQuery => intro i hi; simp [step, clear] at hi
  | destroy => intro i hi; simp [step] at hi
  | setProblemDefinition id ss =>
    simp only [step, setProblemDefinition]
    split
    · split <;> exact h
    · exact h
  | getPlannerData => exact h
  | addStart s v => exact h
  | setStartGoal ss => exact h
  | clearSolutionPaths => exact h

theorem step_core_of_not_solve (P : Params σ δ) (m : RM σ δ) (op : Op σ (Draw σ δ)) (h1 : op.clears = false)
    (h2 : ∀ k ds, op ≠ .solve k ds) : (step rc P m op).core = m.core := by
  cases op with
  | solve k ds => exact absurd rfl (h2 k ds)
  | clear => simp [Op.clears] at h1
  | clearQuery => simp [Op.clears] at h1
  | destroy => simp [Op.clears] at h1
  | setProblemDefinition id ss =>
    simp only [step, setProblemDefinition]
    split
    · split <;> rfl
    · rfl
  | getPlannerData => rfl
  | addStart s v => rfl
  | setStartGoal ss => rfl
  | clearSolutionPaths => rfl

theorem step_pure (P : Params σ δ) (m : RM σ δ) (op : Op σ (Draw σ δ)) (hw : TreeWf m.core)
    (hp : Pure m ∨ (op.clears = true) ∨ (op.replacesQuery = true ∧ m.core.size = 0))
    (hq : op.replacesQuery = true → m.core.size = 0 ∨ op.clears = true) :
    Pure (step rc P m op) := by
  cases op with
  | solve k ds =>
    rcases hp with hp | hp | hp
    · exact solve_pure P m k ds hw hp
    · simp [Op.clears] at hp
    · simp [Op.replacesQuery] at hp
  | clear => exact pure_of_empty _ rfl
  | clearQuery => exact pure_of_empty _ rfl
  | destroy => exact pure_of_empty _ rfl
  | setProblemDefinition id ss =>
    have h0 : m.core.size = 0 := by
      rcases hq rfl with h | h
      · exact h
      · simp [Op.clears] at h
    apply pure_of_empty
    rw [step_core_of_not_solve P m _ rfl (by intro k ds h; cases h)]
    exact h0
  | setStartGoal ss =>
    have h0 : m.core.size = 0 := by
      rcases hq rfl with h | h
      · exact h
      · simp [Op.clears] at h
    exact pure_of_empty _ h0
  | getPlannerData =>
    rcases hp with hp | hp | hp
    · exact hp
    · simp [Op.clears] at hp
    · simp [Op.replacesQuery] at hp
  | addStart s v =>
    rcases hp with hp | hp | hp
    · intro i hi hr
      obtain ⟨pd, h1, h2⟩ := hp i hi hr
      exact ⟨{ pd with starts := pd.starts ++ [(s, v)] }, by simp [step, h1], List.mem_append_left _ h2⟩
    · simp [Op.clears] at hp
    · simp [Op.replacesQuery] at hp
  | clearSolutionPaths =>
    rcases hp with hp | hp | hp
    · intro i hi hr
      obtain ⟨pd, h1, h2⟩ := hp i hi hr
      exact ⟨{ pd with sols := [] }, by simp [step, h1], h2⟩
    · simp [Op.clears] at hp
    · simp [Op.replacesQuery] at hp

theorem run_inv (P : Params σ δ) (ops : List (Op σ (Draw σ δ))) :
    ∀ (m : RM σ δ) (d : Bool), TreeWf m.core → LGok m → (d = false → Pure m) →
      TreeWf (run rc P m ops).core ∧ LGok (run rc P m ops) ∧
        (dirtyAfter P m d ops = false → Pure (run rc P m ops)) := by
  induction ops with
  | nil => intro m d h1 h2 h3; exact ⟨h1, h2, by simpa [dirtyAfter, run] using h3⟩
  | cons op r ih =>
    intro m d h1 h2 h3
    have := ih (step rc P m op)
      (if op.clears then false else if op.replacesQuery then d || decide (m.core.size ≠ 0) else d)
      (step_wf P m op h1) (step_lg P m op h1 h2)
      (by
        intro hd
        by_cases hc : op.clears = true
        · exact step_pure P m op h1 (Or.inr (Or.inl hc)) (fun _ => Or.inr hc)
        · simp only [hc, Bool.false_eq_true, if_false] at hd
          by_cases hq : op.replacesQuery = true
          · simp only [hq, if_true, Bool.or_eq_false_iff, decide_eq_false_iff_not, ne_eq, Decidable.not_not] at hd
            exact step_pure P m op h1 (Or.inr (Or.inr ⟨hq, hd.2⟩)) (fun _ => Or.inl hd.2)
          · simp only [hq, Bool.false_eq_true, if_false] at hd
            exact step_pure P m op h1 (Or.inl (h3 hd)) (fun h => absurd h hq))
    simpa [run, dirtyAfter] using this

end OmplModel.PlannerProto
