import OmplModel.Proofs.PhsBridge
import OmplModel.Proofs.PhsLogic
import OmplModel.Proofs.PhsCap
import OmplModel.Proofs.PhsMeasure
/-!
Further facts for informed sampling (C15): the closed unit ball is mapped into the closed PHS, the
three-argument samplers return costs in `[minCost, maxCost)` over `ℝ`, the `InformedStateSampler`
wrapper, `nBallMeasure`, and the model's own 2-D rotation `rot2` (which makes the 2-D theorems
unconditional).
-/
namespace OmplModel.Phs
open OmplModel
attribute [-instance] Num.instOfNat

namespace PhsMore
open PhsBridge PhsLogic PhsCap PhsGeom
open scoped InnerProductSpace

/-! ## A. the closed ball -/

section closed
variable {E : Type*} [NormedAddCommGroup E] [InnerProductSpace ℝ E]

/-- The closed unit ball is mapped into the closed PHS: the focal distances sum to at most `2a`. -/
theorem phs_closed {e : E} (he : ‖e‖ = 1) {a b f : ℝ} (hb : b ^ 2 = a ^ 2 - f ^ 2)
    (hf0 : 0 ≤ f) (hfa : f ≤ a) {w : E} (hw : ‖w‖ ≤ 1) :
    ‖img a b e w + f • e‖ + ‖img a b e w - f • e‖ ≤ 2 * a := by
  have ht := abs_le.1 ((abs_inner_le he w).trans hw)
  have h1 : 0 ≤ a + f * ⟪w, e⟫_ℝ := by nlinarith [ht.1, ht.2]
  have h2 : 0 ≤ a - f * ⟪w, e⟫_ℝ := by nlinarith [ht.1, ht.2]
  have hneg : b ^ 2 * (‖w‖ ^ 2 - 1) ≤ 0 := by
    have : ‖w‖ ^ 2 ≤ 1 := by nlinarith [norm_nonneg w]
    nlinarith [sq_nonneg b]
  have hp : ‖img a b e w + f • e‖ ≤ a + f * ⟪w, e⟫_ℝ := by
    refine (abs_le_of_sq_le_sq' ?_ h1).2
    rw [core_plus he hb]; linarith
  have hm : ‖img a b e w - f • e‖ ≤ a - f * ⟪w, e⟫_ℝ := by
    refine (abs_le_of_sq_le_sq' ?_ h2).2
    rw [core_minus he hb]; linarith
  linarith

/-- Columns form of `phs_closed`. -/
theorem phs_closed_cols {n : ℕ} {col : Fin (n + 1) → E} (hcol : Orthonormal ℝ col)
    {F1 F2 : E} (hne : F1 ≠ F2) (h0 : col 0 = (1 / ‖F2 - F1‖) • (F2 - F1))
    {c : ℝ} (hc : ‖F2 - F1‖ ≤ c) {u : Fin (n + 1) → ℝ} (hu : ∑ j, (u j) ^ 2 ≤ 1) :
    ‖(1 / 2 : ℝ) • (F1 + F2)
        + ∑ j, ((if j = 0 then c / 2 else Real.sqrt (c ^ 2 - ‖F2 - F1‖ ^ 2) / 2) * u j) • col j
        - F1‖
      + ‖(1 / 2 : ℝ) • (F1 + F2)
        + ∑ j, ((if j = 0 then c / 2 else Real.sqrt (c ^ 2 - ‖F2 - F1‖ ^ 2) / 2) * u j) • col j
        - F2‖ ≤ c := by
  have hw : ‖∑ j, u j • col j‖ ≤ 1 := by
    refine (abs_le_of_sq_le_sq' ?_ zero_le_one).2
    rw [cols_norm_sq hcol]; simpa using hu
  rw [cols_img hcol, h0, sub_F1 hne, sub_F2 hne]
  have := phs_closed (axis_norm hne) (conj_sq (norm_nonneg _) hc) (by positivity)
    (by linarith : ‖F2 - F1‖ / 2 ≤ c / 2) hw
  linarith

end closed

variable {n : ℕ} {f1 f2 : List ℝ} {rot : List (List ℝ)}

/-- The PHS transform maps the closed unit ball into `{x | d(x,f1) + d(x,f2) ≤ c}`. -/
theorem model_phs_closed_ball (hs : Setup n f1 f2 rot) (id : ℕ) (c : ℝ) {u : List ℝ}
    (hu : u.length = n + 1) (hsq : sumSq u ≤ 1)
    (hc : ((Phs.mk' id f1 f2 rot).setC c).cmin ≤ c) :
    ∃ x, ((Phs.mk' id f1 f2 rot).setC c).transform u = some x ∧ x.length = n + 1 ∧
      ((Phs.mk' id f1 f2 rot).setC c).pathLength x ≤ c := by
  obtain ⟨x, hx, hl, he⟩ := model_transform_eq hs id c hu
  rw [model_cmin_eq hs] at hc
  rw [sumSq_eq hu] at hsq
  refine ⟨x, hx, hl, ?_⟩
  rw [model_pathLength_eq hs id c hl, he]
  simp only [diagE]
  exact phs_closed_cols hs.orth hs.ne hs.axis hc hsq

/-! ## B. three-argument forms over `ℝ` -/

/-- Direct sampler, three-argument form, finite bound: a success has heuristic cost in
`[minCost, c)`. -/
theorem direct3_success_cost_between {ρ : Type} (s : Sampler ℝ) (inB : List ℝ × ρ → Bool)
    (minC c : ℝ) (ds : List (Draw ℝ ρ)) (cur : List ℝ × ρ)
    (hall : ∀ p ∈ (s.update c).phss, p.c = c)
    (hf : (s.sample3 inB true minC c ds cur).2.found = true) :
    ∃ sc, (s.update c).hcost (s.sample3 inB true minC c ds cur).2.st.1 = some sc ∧
      minC ≤ sc ∧ sc < c := by
  obtain ⟨_, h2, _, _, _⟩ := sample3_sound s inB true minC c ds cur
  obtain ⟨hok, sc, hsc, hlow⟩ := h2 hf
  have hsc' : (s.update c).hcost (s.sample3 inB true minC c ds cur).2.st.1 = some sc := hsc
  have hany : (s.update c).isInAny (s.sample3 inB true minC c ds cur).2.st.1 = true := by
    cases hb : (s.update c).useBoundsBranch with
    | true => exact ((hok.2 rfl).1 hb).1
    | false => exact ((hok.2 rfl).2 hb).2.1
  obtain ⟨h, hh, hlt⟩ := hcost_lt_real _ _ c hall hany
  have e : h = sc := by rw [hsc'] at hh; injection hh with hh; exact hh.symm
  subst e
  refine ⟨h, hsc', ?_, hlt⟩
  rcases (lowerOk_true_iff minC h).1 hlow with hl | hl
  · exact not_lt.mp hl
  · exact le_of_lt hl

/-- Direct sampler, three-argument form: if the base sampler stays in bounds, so does a success. -/
theorem direct3_success_in_bounds {ρ : Type} (s : Sampler ℝ) (inB : List ℝ × ρ → Bool)
    (minC c : ℝ) (ds : List (Draw ℝ ρ)) (cur : List ℝ × ρ)
    (hbase : ∀ d ∈ ds, inB (d.baseInf, d.baseRest) = true)
    (hf : (s.sample3 inB true minC c ds cur).2.found = true) :
    inB (s.sample3 inB true minC c ds cur).2.st = true := by
  obtain ⟨_, h2, _, _, _⟩ := sample3_sound s inB true minC c ds cur
  obtain ⟨hok, _⟩ := h2 hf
  cases hb : (s.update c).useBoundsBranch with
  | true =>
    obtain ⟨_, d, hd, e⟩ := (hok.2 rfl).1 hb
    rw [e]; exact hbase d hd
  | false => exact ((hok.2 rfl).2 hb).1

/-- Rejection sampler, three-argument form over `ℝ`: a success has cost in `[minCost, c)`. -/
theorem rej_success_cost_between {ρ : Type} (h : List ℝ × ρ → ℝ) (lim : ℕ) (minC c : ℝ)
    (ds : List (Draw ℝ ρ)) (cur : List ℝ × ρ)
    (hf : (rejSample3 h lim minC c ds cur).found = true) :
    minC ≤ h (rejSample3 h lim minC c ds cur).st ∧ h (rejSample3 h lim minC c ds cur).st < c := by
  obtain ⟨hlt, _, hlow⟩ := (rejSample3_sound h lim minC c ds cur).1 hf
  refine ⟨?_, hlt⟩
  rcases (lowerOk_true_iff minC _).1 hlow with hl | hl
  · exact not_lt.mp hl
  · exact le_of_lt hl

/-- Rejection sampler, two-argument form over `ℝ`: a success has cost below `c`. -/
theorem rej2_success_cost_below {ρ : Type} (h : List ℝ × ρ → ℝ) (lim : ℕ) (c : ℝ)
    (ds : List (Draw ℝ ρ)) (cur : List ℝ × ρ)
    (hf : (rejSample2 h lim c ds cur).found = true) :
    h (rejSample2 h lim c ds cur).st < c :=
  ((rejSample2_sound h lim c ds cur).1 hf).1

/-! ## C. the `InformedStateSampler` wrapper (arithmetic-free) -/

section wrapper
variable {α : Type} [Num α] {ρ : Type}

omit [Num α] in
/-- The wrapper returns the informed success, else the base part of the next draw. -/
theorem informedStateSample_spec (o : Out α ρ) (st : List α × ρ) (rest : List (Draw α ρ))
    (flag : Bool) (h : informedStateSample o = some (st, rest, flag)) :
    (flag = true → o.found = true ∧ st = o.st ∧ rest = o.rest) ∧
    (flag = false → o.found = false ∧ ∃ d, o.rest = d :: rest ∧ st = (d.baseInf, d.baseRest)) := by
  unfold informedStateSample at h
  split at h
  · rename_i hfound
    injection h with h
    injection h with e1 h
    injection h with e2 e3
    subst e1 e2 e3
    exact ⟨fun _ => ⟨hfound, rfl, rfl⟩, fun hfl => (by cases hfl)⟩
  · rename_i hnf
    split at h
    · cases h
    · rename_i d ds' hrest
      injection h with h
      injection h with e1 h
      injection h with e2 e3
      subst e1 e2 e3
      refine ⟨fun hfl => (by cases hfl), fun _ => ⟨?_, d, hrest, rfl⟩⟩
      cases hfo : o.found with
      | false => rfl
      | true => exact absurd hfo hnf

omit [Num α] in
/-- The wrapper always returns an in-bounds state, if informed successes and base draws are. -/
theorem informedStateSample_in_bounds (inB : List α × ρ → Bool) (o : Out α ρ)
    (hfound : o.found = true → inB o.st = true)
    (hbase : ∀ d ∈ o.rest, inB (d.baseInf, d.baseRest) = true)
    (st : List α × ρ) (rest : List (Draw α ρ)) (flag : Bool)
    (h : informedStateSample o = some (st, rest, flag)) : inB st = true := by
  obtain ⟨h1, h2⟩ := informedStateSample_spec o st rest flag h
  cases flag with
  | true =>
    obtain ⟨hf, e, _⟩ := h1 rfl
    rw [e]; exact hfound hf
  | false =>
    obtain ⟨_, d, hr, e⟩ := h2 rfl
    rw [e]; exact hbase d (by rw [hr]; exact List.mem_cons_self)

end wrapper

/-! ## D. `nBallMeasure` -/

/-- `nBallMeasure n r = unitNBallMeasure n · rⁿ` -/
theorem nBallMeasure_eq (n : ℕ) (r : ℝ) :
    (nBallMeasure n r : ℝ) = unitNBallMeasure n * r ^ n := by
  simp only [nBallMeasure, unitNBallMeasure, PhsMeasure.powNat_eq, PhsR.sqrt_eq, PhsR.pi_eq]
  rw [mul_pow]
  ring

/-- `nBallMeasure (n+1) r` is the Lebesgue volume of the Euclidean ball of radius `r` -/
theorem nBallMeasure_volume_succ (n : ℕ) (r : ℝ) (hr : 0 ≤ r) :
    MeasureTheory.volume (Metric.ball (0 : EuclideanSpace ℝ (Fin (n + 1))) r)
      = ENNReal.ofReal (nBallMeasure (n + 1) r) := by
  rw [nBallMeasure_eq, EuclideanSpace.volume_ball, Fintype.card_fin, PhsMeasure.unitNBall_eq,
    ← ENNReal.ofReal_pow hr, ← ENNReal.ofReal_mul (pow_nonneg hr _), mul_comm]

/-! ## E. the model's own 2-D rotation -/

/-- `rot2` on two-element lists -/
theorem rot2_eq (x1 y1 x2 y2 : ℝ) :
    rot2 [x1, y1] [x2, y2]
      = [[(x2 - x1) / vnorm (vsub [x1, y1] [x2, y2]), (y2 - y1) / vnorm (vsub [x1, y1] [x2, y2])],
         [-((y2 - y1) / vnorm (vsub [x1, y1] [x2, y2])),
          (x2 - x1) / vnorm (vsub [x1, y1] [x2, y2])]] := rfl

/-- squared distance between the foci in the plane -/
theorem vnorm_sq_2d (x1 y1 x2 y2 : ℝ) :
    vnorm (vsub [x1, y1] [x2, y2]) ^ 2 = (x1 - x2) ^ 2 + (y1 - y2) ^ 2 := by
  have hl : (vsub [x1, y1] [x2, y2]).length = 2 := rfl
  rw [vnorm, PhsR.sqrt_eq, sumSq_eq hl, Real.sq_sqrt (Finset.sum_nonneg fun _ _ => sq_nonneg _),
    Fin.sum_univ_two]
  rfl

/-- In the plane the model's `rot2` satisfies the set-up hypotheses as soon as the foci differ. -/
theorem rot2_setup (x1 y1 x2 y2 : ℝ) (hne : vnorm (vsub [x1, y1] [x2, y2]) ≠ 0) :
    Setup 1 [x1, y1] [x2, y2] (rot2 [x1, y1] [x2, y2]) := by
  have hsq := vnorm_sq_2d x1 y1 x2 y2
  rw [rot2_eq]
  obtain ⟨m, hm⟩ : ∃ m, vnorm (vsub [x1, y1] [x2, y2]) = m := ⟨_, rfl⟩
  rw [hm] at hne hsq ⊢
  have hone : ((x2 - x1) / m) ^ 2 + ((y2 - y1) / m) ^ 2 = 1 := by
    rw [div_pow, div_pow, ← add_div, div_eq_one_iff_eq (pow_ne_zero 2 hne), hsq]; ring
  refine setup_of_lists rfl rfl rfl ?_ ?_ ?_ ?_
  · intro col hcol
    simp only [List.mem_cons, List.not_mem_nil, or_false] at hcol
    rcases hcol with rfl | rfl <;> rfl
  · intro i j
    rw [Fin.sum_univ_two]
    fin_cases i <;> fin_cases j
    · show (x2 - x1) / m * ((x2 - x1) / m) + (y2 - y1) / m * ((y2 - y1) / m) = 1
      rw [← hone]; ring
    · show (x2 - x1) / m * -((y2 - y1) / m) + (y2 - y1) / m * ((x2 - x1) / m) = 0
      ring
    · show -((y2 - y1) / m) * ((x2 - x1) / m) + (x2 - x1) / m * ((y2 - y1) / m) = 0
      ring
    · show -((y2 - y1) / m) * -((y2 - y1) / m) + (x2 - x1) / m * ((x2 - x1) / m) = 1
      rw [← hone]; ring
  · rw [hm]; exact hne
  · intro k
    rw [hm]
    fin_cases k <;> rfl

/-- distinct lists of the same length are at positive distance -/
theorem vnorm_ne_zero_of_ne {m : ℕ} {a b : List ℝ} (ha : a.length = m) (hb : b.length = m)
    (hne : a ≠ b) : vnorm (vsub a b) ≠ 0 := by
  intro h
  rw [vnorm_eq (vsub_length ha hb), toE_vsub ha hb, norm_eq_zero, sub_eq_zero] at h
  exact hne (toE_inj ha hb h)

/-- `rot2_setup` for arbitrary distinct lists of length 2 -/
theorem rot2_setup_of_ne {f1 f2 : List ℝ} (h1 : f1.length = 2) (h2 : f2.length = 2)
    (hne : f1 ≠ f2) : Setup 1 f1 f2 (rot2 f1 f2) := by
  have hv := vnorm_ne_zero_of_ne h1 h2 hne
  match f1, f2, h1, h2, hv with
  | [x1, y1], [x2, y2], _, _, hv => exact rot2_setup x1 y1 x2 y2 hv

/-- 2-D, unconditional: a unit coefficient pair is sent onto the PHS. -/
theorem phs2d_surface {f1 f2 : List ℝ} (h1 : f1.length = 2) (h2 : f2.length = 2) (hne : f1 ≠ f2)
    (id : ℕ) (c : ℝ) {u : List ℝ} (hu : u.length = 2) (hsq : sumSq u = 1)
    (hc : ((Phs.mk' id f1 f2 (rot2 f1 f2)).setC c).cmin ≤ c) :
    ∃ x, ((Phs.mk' id f1 f2 (rot2 f1 f2)).setC c).transform u = some x ∧ x.length = 2 ∧
      ((Phs.mk' id f1 f2 (rot2 f1 f2)).setC c).pathLength x = c ∧
      ((Phs.mk' id f1 f2 (rot2 f1 f2)).setC c).isOn x = true ∧
      ((Phs.mk' id f1 f2 (rot2 f1 f2)).setC c).isIn x = false :=
  model_phs_surface (rot2_setup_of_ne h1 h2 hne) id c hu hsq hc

/-- 2-D, unconditional: a coefficient pair of the open unit disc is sent strictly inside. -/
theorem phs2d_interior {f1 f2 : List ℝ} (h1 : f1.length = 2) (h2 : f2.length = 2) (hne : f1 ≠ f2)
    (id : ℕ) (c : ℝ) {u : List ℝ} (hu : u.length = 2) (hsq : sumSq u < 1)
    (hc : ((Phs.mk' id f1 f2 (rot2 f1 f2)).setC c).cmin < c) :
    ∃ x, ((Phs.mk' id f1 f2 (rot2 f1 f2)).setC c).transform u = some x ∧ x.length = 2 ∧
      ((Phs.mk' id f1 f2 (rot2 f1 f2)).setC c).isIn x = true :=
  model_phs_interior (rot2_setup_of_ne h1 h2 hne) id c hu hsq hc

/-- 2-D, unconditional: every point strictly inside is the transform of a pair of the open disc. -/
theorem phs2d_onto {f1 f2 : List ℝ} (h1 : f1.length = 2) (h2 : f2.length = 2) (hne : f1 ≠ f2)
    (id : ℕ) (c : ℝ) (hc : ((Phs.mk' id f1 f2 (rot2 f1 f2)).setC c).cmin < c)
    (x : List ℝ) (hx : x.length = 2)
    (hin : ((Phs.mk' id f1 f2 (rot2 f1 f2)).setC c).isIn x = true) :
    ∃ u : List ℝ, u.length = 2 ∧ sumSq u < 1 ∧
      ((Phs.mk' id f1 f2 (rot2 f1 f2)).setC c).transform u = some x :=
  model_phs_onto (rot2_setup_of_ne h1 h2 hne) id c hc x hx hin

end PhsMore
end OmplModel.Phs
