import OmplModel.Proofs.PathOpsRopeLen
import OmplModel.Proofs.PathOpsSpliceLen
/-
ropeShortcutPath under its OWN additive objective (round 10, second lap).

* `SpliceStableC` / `ropeInnerC_pres` / `ropeOuterC_pres` / `ropeC_pres`: an invariant that survives every shortcut step WHICH PASSED THE
  ROUTINE'S COST TEST (`isCostBetterThan(shortcutCost, costs[j] - costs[i])`, tree variant `fixed = true`, re-densification with
  `nInter` of the two ends) survives the whole routine.  (`SpliceStable` of Proofs/PathOpsRopeLen.lean quantifies over ALL splices and
  cannot use the test.)
* `cumCostsFrom_getElem?`: `costs[k]` is the cost of the first `k + 1` states.
* `pathLen_splice_le_of_cost`, `rope_never_worse_additive`: cost(out) ≤ cost(path) for the whole routine, from the routine's own test.
-/
namespace OmplModel.PathOps
variable {σ γ : Type}

/-- `P` survives every shortcut step of the TREE's routine that passed its cost test
(`isCostBetterThan(shortcutCost, costs[j] - costs[i])`) -/
def SpliceStableC (E : RopeEnv σ γ) (P : List σ → Prop) : Prop :=
  ∀ (st : List σ) (i d : Nat) (hi : i < st.length) (hd : d < st.length) (ci cj : γ), i + 1 ≤ d →
    (cumCosts E st)[d]? = some cj → (cumCosts E st)[i]? = some ci →
    E.better (E.chord st[i] st[d]) (E.subtract cj ci) = true → P st →
    P (st.take (i + 1) ++ inters E st[i] st[d] (E.nInter st[i] st[d]) ++ st.drop d)

theorem ropeInnerC_pres (E : RopeEnv σ γ) (P : List σ → Prop)
    (hS : SpliceStableC E P) (st : List σ) (i : Nat) (hP : P st) :
    ∀ j, j < st.length → JP P (ropeInnerG E true st i j) := by
  intro j
  induction j with
  | zero => intro _; simp [ropeInnerG, JP]
  | succ j ih =>
    intro hj
    have ihj := ih (by omega)
    rw [ropeInnerG]
    split
    · trivial
    · rename_i hij
      have hi : i < st.length := by omega
      have hc : (cumCosts E st).length = st.length := cumCosts_length E st
      rw [List.getElem?_eq_getElem hi, List.getElem?_eq_getElem hj]
      dsimp only
      split
      · rw [List.getElem?_eq_getElem (show j + 1 < (cumCosts E st).length by omega),
          List.getElem?_eq_getElem (show i < (cumCosts E st).length by omega)]
        dsimp only
        split
        · split
          · exact hP
          · trivial
        · split
          · next hb =>
            rw [eraseChk_ok st (i + 1) (j + 1) (by omega) (by omega)]
            dsimp only
            rw [erase_get_i st i (j + 1) hi, erase_get_succ st i (j + 1) hi hj]
            dsimp only
            rw [erase_take st i (j + 1) hi, erase_drop st i (j + 1) hi]
            have hgood := hS st i (j + 1) hi hj _ _ (by omega)
              (List.getElem?_eq_getElem (show j + 1 < (cumCosts E st).length by omega))
              (List.getElem?_eq_getElem (show i < (cumCosts E st).length by omega)) hb hP
            simp only [if_true]
            exact JP_ite P _ _ _ hgood
          · exact ihj
      · exact ihj

theorem ropeOuterC_pres (E : RopeEnv σ γ) (P : List σ → Prop) (hS : SpliceStableC E P) :
    ∀ (fuel : Nat) (st : List σ) (i : Nat) (res oob : Bool) (out : List σ) (r o fo : Bool), P st →
      ropeOuterG E true fuel st i res oob = some (out, r, o, fo) → P out := by
  intro fuel
  induction fuel with
  | zero =>
    intro st i res oob out r o fo hP h
    rw [ropeOuterG] at h
    simp only [Option.some.injEq, Prod.mk.injEq] at h
    exact h.1 ▸ hP
  | succ fuel ih =>
    intro st i res oob out r o fo hP h
    rw [ropeOuterG] at h
    split at h
    · have hk := ropeInnerC_pres E P hS st i hP (st.length - 1) (by omega)
      generalize ropeInnerG E true st i (st.length - 1) = jr at hk h
      cases jr with
      | ret st' changed o' =>
        simp only [Option.some.injEq, Prod.mk.injEq] at h
        exact h.1 ▸ hk
      | next => exact ih st (i + 1) res oob out r o fo hP h
      | restart st' o' => exact ih st' 0 true (oob || o') out r o fo hk h
      | err => simp at h
    · simp only [Option.some.injEq, Prod.mk.injEq] at h
      exact h.1 ▸ hP

theorem ropeC_pres (E : RopeEnv σ γ) (P : List σ → Prop) (hS : SpliceStableC E P)
    {fuel : Nat} {path out : List σ} {r oob fo : Bool}
    (hpath : P path) (hdens : P (ropeDensify E path))
    (h : ropeShortcutPath E fuel path = some (out, r, oob, fo)) : P out := by
  rw [ropeShortcutPath, ropeShortcutPathG] at h
  split at h
  · simp only [Option.some.injEq, Prod.mk.injEq] at h
    exact h.1 ▸ hpath
  · exact ropeOuterC_pres E P hS fuel _ 0 false false out r oob fo hdens h

section Cost
variable {κ : Type} [AddCommMonoid κ] [PartialOrder κ] [IsOrderedAddMonoid κ]

/-- `costs[k]` is the cost of the first `k + 1` states (additive objective) -/
theorem cumCostsFrom_getElem? (E : RopeEnv σ κ) (hcomb : ∀ a b, E.combine a b = a + b) :
    ∀ (l : List σ) (acc : κ) (k : Nat), k < l.length →
      (cumCostsFrom E acc l)[k]? = some (acc + pathLen E.motion (l.take (k + 1))) := by
  intro l
  induction l with
  | nil => intro acc k hk; simp at hk
  | cons a r ih =>
    intro acc k hk
    cases r with
    | nil =>
      have : k = 0 := by simpa using hk
      subst this
      simp [cumCostsFrom, pathLen]
    | cons b r' =>
      cases k with
      | zero => simp [cumCostsFrom, pathLen]
      | succ k' =>
        have := ih (E.combine acc (E.motion a b)) k' (by simpa using hk)
        rw [hcomb] at this
        simp only [cumCostsFrom, List.getElem?_cons_succ, hcomb, List.take_succ_cons, pathLen]
        rw [this, List.take_succ_cons, add_assoc]

/-- a shortcut `i → dd` whose price (the chain it is densified into costs `motion i dd`: `geo`) is at most the cost of the sub-path it
replaces does not make the path costlier -/
theorem pathLen_splice_le_of_cost (d : σ → σ → κ) (E : RopeEnv σ κ)
    (geo : ∀ a b n, pathLen d (a :: (inters E a b n ++ [b])) = d a b)
    (st : List σ) (i dd n : Nat) (hi : i < st.length) (hd : dd < st.length) (hid : i + 1 ≤ dd)
    (hcost : d st[i] st[dd] ≤ pathLen d (st[i] :: ((st.take dd).drop (i + 1) ++ [st[dd]]))) :
    pathLen d (st.take (i + 1) ++ inters E st[i] st[dd] n ++ st.drop dd) ≤ pathLen d st := by
  have h1 : st.take (i + 1) = st.take i ++ [st[i]] := List.take_succ_eq_append_getElem hi
  have h2 : st.drop dd = st[dd] :: st.drop (dd + 1) := List.drop_eq_getElem_cons hd
  have hst : st.take (i + 1) ++ ((st.take dd).drop (i + 1) ++ st.drop dd) = st := by
    rw [← List.append_assoc, take_append_mid st (i + 1) dd (by omega), List.take_append_drop]
  have hle := pathLen_chord_seam d (st.take (i + 1)) ((st.take dd).drop (i + 1)) (st.drop dd) st[i] st[dd]
    (by rw [h1, List.getLast?_append]; rfl) (by rw [h2]; rfl) hcost
  rw [hst] at hle
  refine le_trans (le_of_eq ?_) hle
  rw [h1, h2]
  simp only [List.append_assoc, List.cons_append, List.nil_append]
  rw [pathLen_insert_geo d _ _ _ _ _ (geo st[i] st[dd] n)]

/-- **ropeShortcutPath never makes the path costlier under its own ADDITIVE objective** (whole routine, the tree's variant): identity 0,
combine `+`, `subtract (x + y) x = y`, `isCostBetterThan a b → a ≤ b`, the states a motion is densified into are cost-additive
(`geo`), the shortcut is priced by the pieces it is densified into (`hchord`: the tree since fix F173).  No triangle inequality: the
routine's own comparison `shortcutCost < costs[j] - costs[i]` carries the claim. -/
theorem rope_never_worse_additive (E : RopeEnv σ κ)
    (hid : E.identity = 0) (hcomb : ∀ a b, E.combine a b = a + b) (hsub : ∀ x y, E.subtract (x + y) x = y)
    (hlink : ∀ a b, E.better a b = true → a ≤ b)
    (geo : ∀ a b n, pathLen E.motion (a :: (inters E a b n ++ [b])) = E.motion a b)
    (hchord : ∀ a b, E.chord a b = pathLen E.motion (a :: (inters E a b (E.nInter a b) ++ [b])))
    {fuel : Nat} {path out : List σ} {r oob fo : Bool}
    (h : ropeShortcutPath E fuel path = some (out, r, oob, fo)) :
    pathLen E.motion out ≤ pathLen E.motion path := by
  refine ropeC_pres E (fun st => pathLen E.motion st ≤ pathLen E.motion path) ?_ (le_refl _) ?_ h
  · intro st i dd hi hd ci cj hid' hcj hci hb hP
    refine le_trans (pathLen_splice_le_of_cost E.motion E geo st i dd _ hi hd hid' ?_) hP
    have hc : (cumCosts E st).length = st.length := cumCosts_length E st
    rw [cumCosts, cumCostsFrom_getElem? E hcomb st _ dd hd] at hcj
    rw [cumCosts, cumCostsFrom_getElem? E hcomb st _ i hi] at hci
    simp only [hid, zero_add, Option.some.injEq] at hcj hci
    have hsplit : st.take (dd + 1) = st.take i ++ st[i] :: ((st.take dd).drop (i + 1) ++ [st[dd]]) := by
      rw [List.take_succ_eq_append_getElem hd]
      have : st.take dd = st.take (i + 1) ++ (st.take dd).drop (i + 1) := by
        conv_lhs => rw [← List.take_append_drop (i + 1) (st.take dd)]
        rw [List.take_take, Nat.min_eq_left (by omega)]
      conv_lhs => rw [this]
      rw [List.take_succ_eq_append_getElem hi, List.append_assoc, List.append_assoc]
      rfl
    have hcost : cj = ci + pathLen E.motion (st[i] :: ((st.take dd).drop (i + 1) ++ [st[dd]])) := by
      rw [← hcj, ← hci, hsplit, pathLen_append_cons E.motion (st.take i) st[i] _,
        List.take_succ_eq_append_getElem hi]
    have := hlink _ _ hb
    rw [hchord, geo, hcost, hsub] at this
    exact this
  · exact le_of_eq (ropeDensify_pathLen E.motion E geo path)

end Cost
end OmplModel.PathOps
